package main

import (
	"bufio"
	"bytes"
	"encoding/binary"
	"fmt"
	"hash/fnv"
	"os"
	"os/exec"
	"strings"
	"time"

	bolt "go.etcd.io/bbolt"
)

// c11: Open on files with damaged meta pages. Trace:
//   case <id> ps=<n> dps=<n>
//   base <path> <flen>
//   ver <txid> <dump>            one per committed version of the base history
//   o b <slot> <pos> <val> | o p <slot> <from> <to> | o bb <pos0> <val0> <pos1> <val1> | o t <len> | o j <seed> <len>
//   r ok <txid> <dump> <check problems> | r err <class> | r panic <msg> | r hang
//   end

func init() {
	cmds["c11"] = c11Main
	// c11open <path> <dps>: one Open in this (child) process; a fatal fault kills only the child
	cmds["c11open"] = func(args []string) error {
		var dps int
		fmt.Sscanf(args[1], "%d", &dps)
		openNFS = len(args) > 2 && args[2] == "1"
		fmt.Println(openAndObserve(args[0], dps))
		return nil
	}
}

// openInChild runs the Open in a child process: a file whose data pages are missing can kill the process with SIGBUS
// (the fault happens in a goroutine bbolt starts itself), which must be an observation, not the end of the harness.
func openInChild(path string, dps int) string {
	nfs := "0"
	if openNFS {
		nfs = "1"
	}
	cmd := exec.Command(os.Args[0], "c11open", path, fmt.Sprint(dps), nfs)
	var out bytes.Buffer
	cmd.Stdout = &out
	done := make(chan error, 1)
	if err := cmd.Start(); err != nil {
		return "childerr " + err.Error()
	}
	go func() { done <- cmd.Wait() }()
	select {
	case err := <-done:
		if err != nil {
			return "crash " + strings.ReplaceAll(err.Error(), " ", "_")
		}
		return strings.TrimSpace(out.String())
	case <-time.After(15 * time.Second):
		_ = cmd.Process.Kill()
		return "hang"
	}
}

func buildBase(r *rng, path string, ps int, nfs bool, w *bufio.Writer) {
	db, err := bolt.Open(path, 0600, &bolt.Options{PageSize: ps, FreelistType: []bolt.FreelistType{bolt.FreelistArrayType, bolt.FreelistMapType}[r.intn(2)],
		NoFreelistSync: nfs})
	if err != nil {
		panic(err)
	}
	ntx := 1 + r.intn(6)
	if ps >= 1<<20 {
		ntx = 1 + r.intn(2)
	}
	for t := 0; t < ntx; t++ {
		tx, _ := db.Begin(true)
		for i := 0; i < 1+r.intn(30); i++ {
			bn := []byte(fmt.Sprintf("b%d", r.intn(4)))
			b, _ := tx.CreateBucketIfNotExists(bn)
			switch r.intn(6) {
			case 0:
				_ = b.Delete([]byte(fmt.Sprintf("k%03d", r.intn(60))))
			case 1:
				nb, _ := b.CreateBucketIfNotExists([]byte("nest"))
				if nb != nil {
					_ = nb.Put([]byte(fmt.Sprintf("n%d", r.intn(9))), make([]byte, r.intn(ps)))
				}
			case 2:
				_, _ = b.NextSequence()
			default:
				_ = b.Put([]byte(fmt.Sprintf("k%03d", r.intn(60))), bytes.Repeat([]byte{byte(r.intn(256))}, r.intn(ps/3+1)))
			}
		}
		id := tx.ID()
		d := digestOrText(dumpTx(tx))
		if err := tx.Commit(); err != nil {
			panic(err)
		}
		fmt.Fprintf(w, "ver %d %s\n", id, d)
	}
	db.Close()
}

// openNFS: the base file's freelist-sync setting is kept when re-opening, so that Open does not commit a
// freelist-flush transaction of its own (which would legitimately move the txid on).
var openNFS bool

func openAndObserve(path string, dps int) string {
	type res struct{ s string }
	ch := make(chan string, 1)
	go func() {
		defer func() {
			if p := recover(); p != nil {
				ch <- "panic " + fmt.Sprint(p)[:min(60, len(fmt.Sprint(p)))]
			}
		}()
		db, err := bolt.Open(path, 0600, &bolt.Options{PageSize: dps, Timeout: time.Second, NoFreelistSync: openNFS})
		if err != nil {
			ch <- "err " + errName(err)
			return
		}
		defer db.Close()
		tx, err := db.Begin(false)
		if err != nil {
			ch <- "err-begin " + errName(err)
			return
		}
		defer tx.Rollback()
		n := 0
		for range tx.Check() {
			n++
		}
		ch <- fmt.Sprintf("ok %d %s %d", tx.ID(), digestOrText(dumpTx(tx)), n)
	}()
	select {
	case s := <-ch:
		return s
	case <-time.After(10 * time.Second):
		return "hang"
	}
}

func c11Main(args []string) error {
	c := newCommon("c11")
	dir := c.fs.String("dir", "/dev/shm", "scratch dir")
	huge := c.fs.Bool("huge", false, "add one database with the largest supported page size (16 MiB; file of 64 MiB) and a short damage list")
	full := c.fs.Bool("full", false, "exhaustive single-byte sweep (all 255 replacement values at every position)")
	c.fs.Parse(args)
	w, done := openOut(c.out)
	defer done()
	r := &rng{s: c.seed}
	pss := []int{1024, 2048, 4096, 8192, 16384}
	ncases := c.n
	if *huge {
		ncases++
	}
	for id := 0; id < ncases; id++ {
		cr := r.fork()
		ps := pss[(id+int(c.seed))%len(pss)]
		hugeCase := *huge && id == c.n
		if hugeCase {
			ps = 16 << 20
		}
		dps := 4096
		base := fmt.Sprintf("%s/c11_%d.base", *dir, id)
		work := fmt.Sprintf("%s/c11_%d.work", *dir, id)
		os.Remove(base)
		openNFS = cr.chance(1, 4)
		fmt.Fprintf(w, "case %d ps=%d dps=%d nfs=%v\n", id, ps, dps, openNFS)
		buildBase(cr, base, ps, openNFS, w)
		img, _ := os.ReadFile(base)
		fmt.Fprintf(w, "base %s %d\n", base, len(img))
		try := func(op string, mutate func(b []byte) []byte) bool {
			b := mutate(append([]byte{}, img...))
			if err := os.WriteFile(work, b, 0600); err != nil {
				panic(err)
			}
			var res string
			if op[0] == 't' || op[0] == 'j' {
				res = openInChild(work, dps)
			} else {
				res = openAndObserve(work, dps)
			}
			fmt.Fprintf(w, "o %s\nr %s\n", op, res)
			return res != "hang"
		}
		// which slot holds the newer meta, and a would-be newer meta for the older slot
		txid := func(slot int) uint64 { return binary.LittleEndian.Uint64(img[slot*ps+16+48:]) }
		newer := 0
		if txid(1) > txid(0) {
			newer = 1
		}
		older := 1 - newer
		wouldBe := make([]byte, 64)
		copy(wouldBe, img[newer*ps+16:newer*ps+16+64])
		binary.LittleEndian.PutUint64(wouldBe[48:], txid(newer)+1)
		binary.LittleEndian.PutUint64(wouldBe[16:], binary.LittleEndian.Uint64(wouldBe[16:])^0) // same root
		h := fnv.New64a()
		h.Write(wouldBe[:56])
		binary.LittleEndian.PutUint64(wouldBe[56:], h.Sum64())
		ok := true
		if hugeCase {
			// 64 MiB per copy: a short list - first meta damaged (page size must be found through the second), second
			// damaged, both damaged
			for _, pv := range [][2]int{{0, 1}, {17, 200}, {50, 3}, {63, 255}} {
				off := 16 + pv[0]
				ok = ok && try(fmt.Sprintf("b 0 %d %d", pv[0], pv[1]), func(b []byte) []byte { b[off] = byte(int(b[off]) + pv[1]); return b })
			}
			ok = ok && try("b 1 20 9", func(b []byte) []byte { b[ps+16+20] += 9; return b })
			ok = ok && try("bb 3 1 60 1", func(b []byte) []byte { b[16+3]++; b[ps+16+60]++; return b })
			fmt.Fprintln(w, "end")
			w.Flush()
			os.Remove(work)
			continue
		}
		// single-byte damage, every position of both metas
		for slot := 0; slot < 2 && ok; slot++ {
			for pos := 0; pos < 64 && ok; pos++ {
				var vals []int
				if *full {
					for v := 1; v < 256; v++ {
						vals = append(vals, v)
					}
				} else {
					vals = []int{1, 0x80, 0xff, 1 + cr.intn(255)}
				}
				for _, dv := range vals {
					off := slot*ps + 16 + pos
					ok = try(fmt.Sprintf("b %d %d %d", slot, pos, dv), func(b []byte) []byte { b[off] = byte(int(b[off])+dv) & 0xff; return b })
					if !ok {
						break
					}
				}
			}
		}
		// partial overwrite of the older slot by a would-be newer meta: every prefix, every suffix, field-wise
		for n := 0; n <= 64 && ok; n++ {
			ok = try(fmt.Sprintf("p %d 0 %d", older, n), func(b []byte) []byte { copy(b[older*ps+16:], wouldBe[:n]); return b })
			if ok {
				ok = try(fmt.Sprintf("p %d %d 64", older, n), func(b []byte) []byte { copy(b[older*ps+16+n:], wouldBe[n:]); return b })
			}
		}
		for _, fr := range [][2]int{{48, 56}, {56, 64}, {16, 32}, {32, 48}, {16, 56}} {
			if ok {
				ok = try(fmt.Sprintf("p %d %d %d", older, fr[0], fr[1]), func(b []byte) []byte { copy(b[older*ps+16+fr[0]:], wouldBe[fr[0]:fr[1]]); return b })
			}
		}
		// both damaged
		for k := 0; k < 24 && ok; k++ {
			p0, v0, p1, v1 := cr.intn(64), 1+cr.intn(255), cr.intn(64), 1+cr.intn(255)
			ok = try(fmt.Sprintf("bb %d %d %d %d", p0, v0, p1, v1), func(b []byte) []byte {
				b[16+p0] = byte(int(b[16+p0]) + v0)
				b[ps+16+p1] = byte(int(b[ps+16+p1]) + v1)
				return b
			})
		}
		// truncated files and non-databases
		for _, l := range []int{1, 15, 16, 79, 80, 1023, 1024, 2047, 2048, 4095, 4096, ps, ps + 1, 2*ps - 1, 2 * ps, 2*ps + 100, 3 * ps} {
			if ok && l < len(img) {
				ok = try(fmt.Sprintf("t %d", l), func(b []byte) []byte { return b[:l] })
			}
		}
		for k := 0; k < 6 && ok; k++ {
			seed, l := cr.intn(1<<30), []int{100, 4096, 5000, 8192, 20000, 70000}[k]
			ok = try(fmt.Sprintf("j %d %d", seed, l), func(b []byte) []byte {
				jr := &rng{s: uint64(seed)}
				j := make([]byte, l)
				for i := range j {
					j[i] = byte(jr.next())
				}
				return j
			})
		}
		fmt.Fprintln(w, "end")
		w.Flush()
		os.Remove(work)
		if !ok {
			done()
			os.Exit(0)
		}
	}
	return nil
}
