package main

import (
	"bufio"
	"crypto/md5"
	"encoding/hex"
	"fmt"
	"os"
	"strings"

	bolt "go.etcd.io/bbolt"
)

// node: the materialised B+tree node (node.go, internal/common/inode.go) driven directly through the
// verif accessors. Trace format (one case):
//   case <id> leaf=<0|1> ps=<page size> fill=<percent> mark=<high water mark>
//   o put <oldhex> <newhex> <valtok> <pgid> <flags>   -> r ok|panic ; st u=<0|1> n=<count> <digest>
//   o del <keyhex>                                     -> r ok ; st ...
//   o size                                             -> r <n>
//   o sizeless <v>                                     -> r <true|false>
//   o splitindex <threshold>                           -> r <index> <size>
//   o write <pgid> <npages>                            -> r ok|panic <used> <hex of the first `used` bytes> <rest all zero: 0|1> ; rd ok|panic ; st ... (node read back from the image)
//   o split                                            -> r <len1,len2,..> <digest of each piece joined by '|'>
//   end

func init() { cmds["node"] = nodeMain }

func renderInodes(ins []bolt.VerifInode) string {
	var sb strings.Builder
	for _, in := range ins {
		v := "v"
		if len(in.Value) > 0 {
			v = showVal(in.Value)
		}
		fmt.Fprintf(&sb, "%d:%s:%s:%d;", in.Flags, hex.EncodeToString(in.Key), v, in.Pgid)
	}
	return sb.String()
}

func nodeState(n *bolt.VerifNode) string {
	ins := n.Inodes()
	u := 0
	if n.Unbalanced() {
		u = 1
	}
	return fmt.Sprintf("st u=%d n=%d %s", u, len(ins), digestOrText(renderInodes(ins)))
}

type nodeRunner struct {
	w    *bufio.Writer
	n    *bolt.VerifNode
	leaf bool
	ps   int
	fill int
	mark uint64
}

func (r *nodeRunner) exec(line string) {
	f := strings.Fields(line)
	fmt.Fprintf(r.w, "o %s\n", line)
	switch f[0] {
	case "put":
		oldk, _ := hex.DecodeString(dash(f[1]))
		newk, _ := hex.DecodeString(dash(f[2]))
		val := expandVal(f[3])
		var pgid uint64
		var flags uint32
		fmt.Sscanf(f[4], "%d", &pgid)
		fmt.Sscanf(f[5], "%d", &flags)
		if p := r.n.Put(oldk, newk, val, pgid, flags); p != "" {
			fmt.Fprintf(r.w, "r panic\n")
		} else {
			fmt.Fprintf(r.w, "r ok\n")
		}
		fmt.Fprintln(r.w, nodeState(r.n))
	case "del":
		k, _ := hex.DecodeString(dash(f[1]))
		r.n.Del(k)
		fmt.Fprintf(r.w, "r ok\n")
		fmt.Fprintln(r.w, nodeState(r.n))
	case "size":
		fmt.Fprintf(r.w, "r %d\n", r.n.Size())
	case "sizeless":
		var v uint64
		fmt.Sscanf(f[1], "%d", &v)
		fmt.Fprintf(r.w, "r %v\n", r.n.SizeLessThan(uintptr(v)))
	case "splitindex":
		var thr int
		fmt.Sscanf(f[1], "%d", &thr)
		i, sz := r.n.SplitIndex(thr)
		fmt.Fprintf(r.w, "r %d %d\n", i, sz)
	case "write":
		var pgid uint64
		var np int
		fmt.Sscanf(f[1], "%d", &pgid)
		fmt.Sscanf(f[2], "%d", &np)
		buf, p := r.n.Write(pgid, np)
		if p != "" {
			fmt.Fprintf(r.w, "r panic 0 - 1\n")
			return
		}
		used := r.n.Size()
		if used > len(buf) {
			used = len(buf)
		}
		rest := 1
		for _, b := range buf[used:] {
			if b != 0 {
				rest = 0
				break
			}
		}
		fmt.Fprintf(r.w, "r ok %d %s %d\n", used, hex.EncodeToString(buf[:used]), rest)
		back := bolt.VerifNewNode(false, r.ps, float64(r.fill)/100.0, r.mark)
		if p := back.Read(buf); p != "" {
			fmt.Fprintf(r.w, "rd panic\n")
		} else {
			lf := 0
			if back.Leaf() {
				lf = 1
			}
			fmt.Fprintf(r.w, "rd ok leaf=%d\n", lf)
			fmt.Fprintln(r.w, nodeState(back))
		}
	case "split":
		pieces := r.n.Split(r.ps)
		lens := []string{}
		digs := []string{}
		for _, p := range pieces {
			ins := p.Inodes()
			lens = append(lens, fmt.Sprint(len(ins)))
			h := md5.Sum([]byte(renderInodes(ins)))
			digs = append(digs, hex.EncodeToString(h[:]))
		}
		fmt.Fprintf(r.w, "r %s %s\n", strings.Join(lens, ","), strings.Join(digs, "|"))
	}
}

func dash(s string) string {
	if s == "-" {
		return ""
	}
	return s
}

func nodeMain(args []string) error {
	c := newCommon("node")
	c.fs.Parse(args)
	w, done := openOut(c.out)
	defer done()
	if c.replay != "" {
		f, err := os.Open(c.replay)
		if err != nil {
			return err
		}
		defer f.Close()
		sc := bufio.NewScanner(f)
		sc.Buffer(make([]byte, 1<<20), 1<<26)
		var r *nodeRunner
		for sc.Scan() {
			l := sc.Text()
			switch {
			case strings.HasPrefix(l, "case "):
				var id string
				var leaf, ps, fill int
				var mark uint64
				fmt.Sscanf(l, "case %s leaf=%d ps=%d fill=%d mark=%d", &id, &leaf, &ps, &fill, &mark)
				r = &nodeRunner{w: w, leaf: leaf == 1, ps: ps, fill: fill, mark: mark}
				r.n = bolt.VerifNewNode(r.leaf, ps, float64(fill)/100.0, mark)
				fmt.Fprintln(w, l)
			case strings.HasPrefix(l, "o ") && r != nil:
				r.exec(l[2:])
			case l == "end" && r != nil:
				fmt.Fprintln(w, "end")
				r = nil
			}
		}
		return nil
	}
	g := &rng{s: c.seed}
	pss := []int{1024, 4096, 16384}
	fills := []int{5, 10, 17, 25, 30, 50, 66, 75, 90, 100, 150}
	for ci := 0; ci < c.n; ci++ {
		cr := g.fork()
		leaf := cr.chance(2, 3)
		ps := pss[cr.intn(3)]
		fill := fills[cr.intn(len(fills))]
		mark := uint64(1000)
		lf := 0
		if leaf {
			lf = 1
		}
		fmt.Fprintf(w, "case %d leaf=%d ps=%d fill=%d mark=%d\n", ci, lf, ps, fill, mark)
		r := &nodeRunner{w: w, leaf: leaf, ps: ps, fill: fill, mark: mark}
		r.n = bolt.VerifNewNode(leaf, ps, float64(fill)/100.0, mark)
		// key universe: short keys that collide often, a few long ones
		nk := 8 + cr.intn(120)
		keys := make([][]byte, nk)
		for i := range keys {
			switch {
			case cr.chance(1, 12):
				k := make([]byte, 100+cr.intn(500))
				for j := range k {
					k[j] = byte(cr.intn(256))
				}
				keys[i] = k
			case cr.chance(1, 3):
				keys[i] = []byte{byte(cr.intn(8)), byte(cr.intn(256))}
			default:
				keys[i] = []byte{byte(cr.intn(256)), byte(cr.intn(256)), byte(cr.intn(4))}
			}
		}
		// value sizes chosen so that a few dozen elements cross the page size / the fill threshold
		vmax := ps / (4 + cr.intn(40))
		nops := 10 + cr.intn(3*nk)
		for oi := 0; oi < nops; oi++ {
			k := keys[cr.intn(nk)]
			switch x := cr.intn(100); {
			case x < 62:
				val := "-"
				if leaf {
					switch {
					case cr.chance(1, 40):
						val = fmt.Sprintf("@%d:%d", ps+cr.intn(2*ps), cr.intn(256))
					case cr.chance(1, 10):
						val = "-"
					default:
						val = fmt.Sprintf("@%d:%d", cr.intn(vmax+1), cr.intn(256))
					}
				}
				pgid := uint64(0)
				flags := 0
				if !leaf {
					pgid = uint64(2 + cr.intn(900))
				} else if cr.chance(1, 10) {
					flags = 1
				}
				oldk, newk := k, k
				if cr.chance(1, 50) {
					oldk = nil // panic: zero-length old key
				} else if cr.chance(1, 50) {
					newk = nil
				} else if cr.chance(1, 60) {
					pgid = mark + uint64(cr.intn(3)) // panic: above the high water mark
				} else if cr.chance(1, 25) {
					// spill renames the separator of a child: old key present, new key = a neighbour below it
					nb := append([]byte{}, k...)
					nb[len(nb)-1] ^= 1
					if string(nb) < string(k) && len(nb) > 0 {
						newk = nb
					}
				}
				r.exec(fmt.Sprintf("put %s %s %s %d %d", hexOrDash(oldk), hexOrDash(newk), val, pgid, flags))
			case x < 85:
				r.exec("del " + hexOrDash(k))
			case x < 89:
				r.exec("size")
			case x < 94:
				sz := r.n.Size()
				vs := []int{sz - 1, sz, sz + 1, ps, ps / 2, 16, 17, 0}
				r.exec(fmt.Sprintf("sizeless %d", vs[cr.intn(len(vs))]))
			default:
				r.exec(fmt.Sprintf("splitindex %d", cr.intn(ps+ps/4)))
			}
		}
		r.exec("size")
		if cr.chance(1, 2) {
			np := (r.n.Size() + ps - 1) / ps
			if np < 1 {
				np = 1
			}
			pg := uint64(2 + cr.intn(900))
			if !leaf && cr.chance(1, 30) {
				if ins := r.n.Inodes(); len(ins) > 0 {
					pg = ins[0].Pgid // circular reference assertion
				}
			}
			r.exec(fmt.Sprintf("write %d %d", pg, np))
		}
		r.exec("split")
		fmt.Fprintln(w, "end")
	}
	return nil
}
