package main

import (
	"bufio"
	"fmt"
	"os"
	"strings"
)

// c08: a commit whose k-th I/O call fails, for every k, with and without read transactions open across the failure,
// followed by further transactions, a reopen, and consistency checks. Uses the history engine (op `commitfail k`).
func init() { cmds["c08"] = c08Main }

func c08Main(args []string) error {
	c := newCommon("c08")
	dir := c.fs.String("dir", "", "scratch dir")
	c.fs.Parse(args)
	w, done := openOut(c.out)
	defer done()
	if *dir == "" {
		d, err := os.MkdirTemp("/dev/shm", "bbv")
		if err != nil {
			return err
		}
		*dir = d
		defer os.RemoveAll(d)
	}
	if c.replay != "" {
		hs, cs, err := parseTraceCases(c.replay)
		if err != nil {
			return err
		}
		for i := range cs {
			runHistory(w, *dir, i, hs[i], cs[i], "commit+io")
		}
		return nil
	}
	r := &rng{s: c.seed}
	id := 0
	for wl := 0; wl < c.n; wl++ {
		cr := r.fork()
		o := histOptions(cr, wl)
		o.imm = 0
		if cr.chance(1, 2) {
			o.imm = 1 << 16 // small initial map: growth in the failing commit needs a remap
		}
		if wl%3 == 0 {
			o.imm = 8 << 20 // no remap at all: a reader held across the failure never has to be closed to let a commit through
		}
		// prefix: a few committed transactions
		cfg := genCfg{ps: o.ps, txs: cr.intn(4), opsPerTx: 10, bigVals: cr.chance(1, 2), readers: false, reopen: false, malformed: false, moves: true}
		if (wl+int(c.seed))%4 == 3 {
			// a brand-new file opened without freelist sync still points at the freelist page Open wrote;
			// the very first write transaction is the failing one
			o.nfs = true
			cfg.txs = 0
		}
		prefix := genHistory(cr.fork(), cfg, o)
		// strip the trailing "beginr 901 ... close" epilogue
		for len(prefix) > 0 && prefix[len(prefix)-1] != "commit" && prefix[len(prefix)-1] != "rollback" && !strings.HasPrefix(prefix[len(prefix)-1], "open ") {
			prefix = prefix[:len(prefix)-1]
		}
		// the failing transaction: a burst so that the commit writes several pages (sometimes grows the file)
		var txn []string
		txn = append(txn, "beginw", "x w createif - 6662") // bucket "fb"
		nput := 3 + cr.intn(40)
		for i := 0; i < nput; i++ {
			sz := 10 + cr.intn(o.ps/2)
			if cr.chance(1, 10) {
				sz = o.ps * (1 + cr.intn(3))
			}
			txn = append(txn, fmt.Sprintf("x w put 6662 %x @%d:%d", fmt.Sprintf("f%04d", cr.intn(500)), sz, cr.intn(256)))
		}
		if cr.chance(1, 3) {
			txn = append(txn, "x w delb - 6230") // delete top-level bucket b0 if present
		}
		txn = append(txn, "dump w")
		after := []string{"beginr 50", "dump r50", "check r50", "endr 50",
			"beginw", "x w createif - 6e78", "x w put 6e78 6b 76", "dump w", "commit",
			"beginr 51", "dump r51", "check r51", "endr 51"}
		// further writers that recycle pages (a reader held across the failure is re-dumped after each)
		for j := 0; j < 3; j++ {
			after = append(after, "beginw", "x w createif - 6e78")
			for i := 0; i < 4+cr.intn(12); i++ {
				after = append(after, fmt.Sprintf("x w put 6e78 %x @%d:%d", fmt.Sprintf("n%03d", cr.intn(40)), 10+cr.intn(o.ps), cr.intn(256)))
			}
			after = append(after, "dump w", "commit", "DUMPR1")
		}
		epilogue := []string{"close", "open " + o.String(), "beginr 60", "dump r60", "check r60", "endr 60", "close"}
		// pass 0: count the I/O calls of the target commit
		var probe strings.Builder
		pw := bufio.NewWriter(&probe)
		lines := append(append(append([]string{}, prefix...), txn...), "commitfail 100000")
		runHistory(pw, *dir, 1000000+id, "probe", lines, "+io")
		pw.Flush()
		n := 0
		for _, l := range strings.Split(probe.String(), "\n") {
			if strings.HasPrefix(l, "r ") && strings.Contains(l, " ios=") {
				fmt.Sscanf(l[strings.Index(l, " ios=")+5:], "%d", &n)
			}
		}
		for k := 0; k < n; k++ {
			for variant := 0; variant < 3; variant++ {
				withReader := variant > 0
				var L []string
				L = append(L, prefix...)
				if variant == 2 {
					// the reader sits exactly at the version the failing transaction starts from: the pages that transaction
					// frees are pages of the reader's version (known finding D5 when the failing call is the final sync)
					L = append(L, "beginr 1", "dump r1")
				} else if withReader {
					// the reader is older than the last successful commit, so pages of ITS version are pending when the failure happens
					L = append(L, "beginr 1", "dump r1", "beginw", "x w createif - 6662",
						fmt.Sprintf("x w put 6662 %x @%d:3", "f0000", 20+o.ps/3), "x w createif - 6f6c64", "x w put 6f6c64 6b 76", "dump w", "commit", "dump r1")
				}
				L = append(L, txn...)
				L = append(L, fmt.Sprintf("commitfail %d", k))
				if withReader {
					L = append(L, "dump r1")
				}
				for _, l := range after {
					if l == "DUMPR1" {
						if withReader {
							L = append(L, "dump r1")
						}
						continue
					}
					L = append(L, l)
				}
				if withReader {
					L = append(L, "dump r1", "endr 1")
				}
				L = append(L, epilogue...)
				runHistory(w, *dir, id, fmt.Sprintf("wl=%d k=%d of %d reader=%v variant=%d", wl, k, n, withReader, variant), L, "commit+io")
				id++
			}
		}
	}
	return nil
}
