package main

import (
	"bufio"
	"bytes"
	"fmt"
	"os"
	"regexp"
	"strconv"
)

var c18flen = regexp.MustCompile(`flen=(\d+)`)

// c18: MaxSize. Histories that keep growing the data under random limits (not aligned to anything), initial map
// sizes, allocation chunk sizes and page sizes; after a refused transaction: smaller writes, deletes, reopen.
func init() { cmds["c18"] = c18Main }

func c18Main(args []string) error {
	c := newCommon("c18")
	dir := c.fs.String("dir", "", "scratch dir")
	c.fs.Parse(args)
	w, done := openOut(c.out)
	defer done()
	if *dir == "" {
		d, _ := os.MkdirTemp("/dev/shm", "bbv")
		*dir = d
		defer os.RemoveAll(d)
	}
	if c.replay != "" {
		hs, cs, err := parseTraceCases(c.replay)
		if err != nil {
			return err
		}
		for i := range cs {
			runHistory(w, *dir, i, hs[i], cs[i], "commit+io")
		}
		return nil
	}
	r := &rng{s: c.seed}
	for id := 0; id < c.n; id++ {
		cr := r.fork()
		o := openOpts{ps: []int{1024, 4096, 4096, 16384}[cr.intn(4)], fl: []string{"array", "hashmap"}[cr.intn(2)]}
		o.max = []int{0, 70000 + cr.intn(200000), 300000 + cr.intn(3000000), 1<<20 + cr.intn(5<<20)}[cr.intn(4)]
		o.imm = []int{0, 0, 0, 1 << 16, 2 << 20, 8 << 20}[cr.intn(6)]
		o.asz = []int{0, 0, 1 << 16, 1 << 20}[cr.intn(4)]
		o.ngs = cr.chance(1, 4)
		o.nfs = cr.chance(1, 4)
		L := []string{"open " + o.String()}
		key := 0
		for t := 0; t < 6+cr.intn(14); t++ {
			L = append(L, "beginw", "x w createif - 6767") // bucket "gg"
			n := 1 + cr.intn(25)
			for i := 0; i < n; i++ {
				switch k := cr.intn(10); {
				case k < 7:
					sz := 100 + cr.intn(o.ps*3)
					if cr.chance(1, 8) {
						sz = o.ps * (4 + cr.intn(30))
					}
					L = append(L, fmt.Sprintf("x w put 6767 %x @%d:%d", fmt.Sprintf("g%05d", key), sz, key%251))
					key++
				case k < 9 && key > 0:
					L = append(L, fmt.Sprintf("x w del 6767 %x", fmt.Sprintf("g%05d", cr.intn(key))))
				default:
					L = append(L, "x w nextseq 6767")
				}
			}
			L = append(L, "dump w", "commit", "beginr 1", "dump r1", "endr 1")
			if cr.chance(1, 6) {
				L = append(L, "close", "open "+o.String(), "beginr 2", "dump r2", "endr 2")
			}
		}
		L = append(L, "beginr 901", "dump r901", "check r901", "endr 901", "close")
		if id%2 == 1 {
			// boundary limits: the same history is first run without a limit to learn the sizes the file steps through;
			// the limit is then set a few bytes below one of those steps (not aligned to anything)
			o2 := o
			o2.max = 0
			if o2.asz == 0 || o2.asz > 1<<16 {
				o2.asz = []int{o.ps * 4, 1 << 16}[cr.intn(2)] // small growth steps, else power-of-two rounding hides the boundary
			}
			o2.imm = 0
			var buf bytes.Buffer
			bw := bufio.NewWriter(&buf)
			L2 := append([]string{"open " + o2.String()}, L[1:]...)
			for i, l := range L2 {
				if i > 0 && len(l) > 5 && l[:5] == "open " {
					L2[i] = "open " + o2.String()
				}
			}
			runHistory(bw, *dir, 990000+id, "probe", L2, "+io")
			bw.Flush()
			seen := map[int]bool{}
			var steps []int
			for _, m := range c18flen.FindAllStringSubmatch(buf.String(), -1) {
				n, _ := strconv.Atoi(m[1])
				if n > 0 && !seen[n] {
					seen[n] = true
					steps = append(steps, n)
				}
			}
			if os.Getenv("C18DBG") != "" {
				fmt.Fprintln(os.Stderr, "probe", id, len(buf.String()), steps)
			}
			if len(steps) > 2 {
				st := steps[1+cr.intn(len(steps)-1)]
				o2.max = st - []int{1, 7, o.ps - 1, o.ps, o.ps + 1, 2*o.ps - 1}[cr.intn(6)]
				for i, l := range L2 {
					if len(l) > 5 && l[:5] == "open " {
						L2[i] = "open " + o2.String()
					}
				}
				runHistory(w, *dir, id, fmt.Sprintf("seed=%d boundary=%d", cr.s, st), L2, "commit+io")
				continue
			}
		}
		runHistory(w, *dir, id, fmt.Sprintf("seed=%d", cr.s), L, "commit+io")
	}
	return nil
}
