package main

import (
	"bufio"
	"bytes"
	"fmt"
	"os"
	"os/exec"
	"strings"
	"time"

	bolt "go.etcd.io/bbolt"
)

// c01: crash images. A history is run with every I/O call recorded WITH its data; afterwards, for every I/O event of every
// commit and a sample of fates of the writes issued since the last completed sync (at 512-byte sector granularity), the
// post-crash file is rebuilt from the recorded real writes and opened with the real Open. Trace:
//
//	case <id> <options>
//	commit <n> acked=<dump> inflight=<dump>
//	o crash c=<commit#> k=<event index in run> after=<kind> sel=<description> meta=<0|1>
//	r <open result> <dump> <check problems> <follow-up result> [img=<path> ps=<n>]
func init() {
	cmds["c01"] = c01Main
	// c01open <options...> -- <image paths...>: opens each image in THIS (child) process, one result line each.
	// bbolt walks pages in goroutines of its own (freepages): a panic there cannot be recovered and kills the process.
	cmds["c01open"] = func(args []string) error {
		var optf []string
		i := 0
		for ; i < len(args) && args[i] != "--"; i++ {
			optf = append(optf, args[i])
		}
		o := parseOpen(optf)
		out := bufio.NewWriter(os.Stdout)
		for _, p := range args[i+1:] {
			fmt.Fprintln(out, c01Open(p, o))
			out.Flush()
		}
		return nil
	}
}

// openBatch opens the images in a child process; a child that dies is an observation for the image it was working on.
func openBatch(paths []string, o openOpts) []string {
	res := make([]string, 0, len(paths))
	for len(res) < len(paths) {
		args := append([]string{"c01open"}, strings.Fields(o.String())...)
		args = append(args, "--")
		args = append(args, paths[len(res):]...)
		cmd := exec.Command(os.Args[0], args...)
		var out, errb bytes.Buffer
		cmd.Stdout, cmd.Stderr = &out, &errb
		err := cmd.Run()
		lines := strings.Split(strings.TrimSpace(out.String()), "\n")
		for _, l := range lines {
			if l != "" && len(res) < len(paths) {
				res = append(res, l)
			}
		}
		if err != nil && len(res) < len(paths) {
			msg := strings.SplitN(strings.TrimSpace(errb.String()), "\n", 2)[0]
			res = append(res, "died "+strings.ReplaceAll(msg, " ", "_"))
		}
	}
	return res
}

type ioEv struct {
	kind   string
	off    int64
	data   []byte
	commit int // index of the commit op this event belongs to (-1: outside)
}

type commitInfo struct {
	acked, inflight string
	done            bool // Commit returned success
}

const sector = 512

type secWrite struct {
	off  int64
	data []byte
	meta bool // first sector of a meta page write
}

func c01Main(args []string) error {
	c := newCommon("c01")
	dir := c.fs.String("dir", "", "scratch dir")
	perPoint := c.fs.Int("subsets", 8, "random sector subsets per crash point")
	imgEvery := c.fs.Int("imgevery", 25, "keep every n-th crash image for the decoder")
	c.fs.Parse(args)
	w, done := openOut(c.out)
	defer done()
	if *dir == "" {
		d, _ := os.MkdirTemp("/dev/shm", "bbv")
		*dir = d
		defer os.RemoveAll(d)
	}
	r := &rng{s: c.seed}
	for id := 0; id < c.n; id++ {
		cr := r.fork()
		o := histOptions(cr, id)
		o.imm = 0
		cfg := genCfg{ps: o.ps, txs: 2 + cr.intn(6), opsPerTx: 10, bigVals: cr.chance(1, 2), readers: cr.chance(1, 3), reopen: false, malformed: false, moves: true}
		if cfg.readers {
			o.imm = 4 << 20
		}
		lines := genHistory(cr.fork(), cfg, o)
		c01Case(w, cr, *dir, id, o, lines, *perPoint, *imgEvery)
		w.Flush()
	}
	return nil
}

func c01Case(w *bufio.Writer, cr *rng, dir string, id int, o openOpts, lines []string, perPoint, imgEvery int) {
	fmt.Fprintf(w, "case %d %s\n", id, o.String())
	for _, l := range lines {
		fmt.Fprintf(w, "h %s\n", l) // the history (for replays)
	}
	var sink bytes.Buffer
	sw := bufio.NewWriter(&sink)
	rn := newRunner(sw, dir, 3000000+id)
	rn.ioLog = true
	var evs []ioEv
	var commits []commitInfo
	cur := -1
	var initImg []byte
	lastDumpW, committedDump := "t:", "t:"
	rn.onIO = func(kind string, off int64, data []byte) {
		evs = append(evs, ioEv{kind: kind, off: off, data: append([]byte{}, data...), commit: cur})
	}
	for _, l := range lines {
		if l == "commit" && rn.wtx != nil {
			commits = append(commits, commitInfo{acked: committedDump, inflight: lastDumpW})
			cur = len(commits) - 1
		}
		sink.Reset()
		ok := rn.exec(l)
		sw.Flush()
		out := sink.String()
		if strings.HasPrefix(l, "open ") && initImg == nil {
			// the initialisation of a brand-new file is not a crash point (README caveat): start from the file as Open left it
			initImg, _ = os.ReadFile(rn.path)
			evs = nil
		}
		if l == "dump w" {
			if i := strings.Index(out, "\nr ok "); i >= 0 {
				lastDumpW = strings.TrimSpace(out[i+6:])
				if j := strings.Index(lastDumpW, "\n"); j >= 0 {
					lastDumpW = lastDumpW[:j]
				}
			} else if strings.Contains(out, "\nr ok\n") {
				lastDumpW = "t:"
			}
		}
		if l == "commit" && cur >= 0 {
			if strings.Contains(out, "\nr ok") {
				commits[cur].done = true
				committedDump = commits[cur].inflight
			}
			cur = -1
		}
		if !ok {
			break
		}
	}
	rn.finish()
	for i, ci := range commits {
		fmt.Fprintf(w, "commit %d acked=%s inflight=%s done=%v\n", i, ci.acked, ci.inflight, ci.done)
	}
	// replay the recorded events: durable image + writes since the last completed sync
	durable := append([]byte{}, initImg...)
	var pend []ioEv
	work := fmt.Sprintf("%s/c01_%d.crash", dir, id)
	nimg := 0
	apply := func(img []byte, off int64, data []byte) []byte {
		if need := int(off) + len(data); need > len(img) {
			img = append(img, make([]byte, need-len(img))...)
		}
		copy(img[off:], data)
		return img
	}
	for k, e := range evs {
		switch e.kind {
		case "write", "truncate":
			pend = append(pend, e)
		case "fdatasync", "fsync":
			// crash points are sampled BEFORE the sync completes (below); then everything becomes durable
		}
		if e.commit >= 0 {
			// sector-level view of the un-synced writes
			var secs []secWrite
			for _, p := range pend {
				if p.kind == "truncate" {
					secs = append(secs, secWrite{off: -p.off}) // length change, encoded with a negative offset
					continue
				}
				for s := 0; s < len(p.data); s += sector {
					end := s + sector
					if end > len(p.data) {
						end = len(p.data)
					}
					secs = append(secs, secWrite{off: p.off + int64(s), data: p.data[s:end], meta: s == 0 && p.off < 2*int64(o.ps)})
				}
			}
			build := func(pick func(i int) bool, tear int) ([]byte, bool) {
				img := append([]byte{}, durable...)
				metaFull := false
				for i, s := range secs {
					if s.meta && tear > 0 {
						// a tear INSIDE the meta sector (finer than the property's sector granularity): a prefix of it persists
						if tear < len(s.data) {
							img = apply(img, s.off, s.data[:tear])
						}
						continue
					}
					if !pick(i) {
						continue
					}
					if s.off < 0 {
						if n := int(-s.off); n > len(img) {
							img = append(img, make([]byte, n-len(img))...)
						}
						continue
					}
					img = apply(img, s.off, s.data)
					if s.meta {
						metaFull = true
					}
				}
				return img, metaFull
			}
			type variant struct {
				name string
				pick func(i int) bool
				tear int
			}
			vars := []variant{{"none", func(int) bool { return false }, 0}, {"all", func(int) bool { return true }, 0}}
			nsec := len(secs)
			for i := 0; i < nsec && i < 6; i++ {
				i := i
				vars = append(vars, variant{fmt.Sprintf("only%d", i), func(j int) bool { return j == i }, 0},
					variant{fmt.Sprintf("allbut%d", i), func(j int) bool { return j != i }, 0})
			}
			for i, s := range secs {
				if s.meta {
					i := i
					vars = append(vars, variant{"metaonly", func(j int) bool { return j == i }, 0}, variant{"nometa", func(j int) bool { return j != i }, 0})
					for _, t := range []int{8, 24, 48, 64, 72, 76} {
						vars = append(vars, variant{fmt.Sprintf("metatear%d", t), func(j int) bool { return true }, t})
					}
				}
			}
			for v := 0; v < perPoint && nsec > 1; v++ {
				seed := cr.next()
				vars = append(vars, variant{fmt.Sprintf("rnd%x", seed&0xffff), func(j int) bool { return (seed>>(uint(j)%61))&1 == 1 != (j%7 == int(seed%7)) }, 0})
			}
			var paths []string
			var metas []bool
			for vi, v := range vars {
				img, metaFull := build(v.pick, v.tear)
				pth := fmt.Sprintf("%s.%d", work, vi)
				_ = os.WriteFile(pth, img, 0600)
				paths = append(paths, pth)
				metas = append(metas, metaFull)
			}
			results := openBatch(paths, o)
			for vi, v := range vars {
				keep := ""
				nimg++
				if imgEvery > 0 && nimg%imgEvery == 0 {
					// the child modified the file (follow-up transaction): rebuild the pristine image for the decoder
					img, _ := build(v.pick, v.tear)
					kp := fmt.Sprintf("%s/c01_%d.img%d", dir, id, nimg)
					_ = os.WriteFile(kp, img, 0600)
					keep = fmt.Sprintf(" img=%s ps=%d", kp, o.ps)
				}
				fmt.Fprintf(w, "o crash c=%d k=%d after=%s sel=%s meta=%v\nr %s%s\n", e.commit, k, e.kind, v.name, metas[vi], results[vi], keep)
				os.Remove(paths[vi])
			}
		}
		if e.kind == "fdatasync" || e.kind == "fsync" {
			for _, p := range pend {
				if p.kind == "truncate" {
					if n := int(p.off); n > len(durable) {
						durable = append(durable, make([]byte, n-len(durable))...)
					}
				} else {
					durable = apply(durable, p.off, p.data)
				}
			}
			pend = nil
		}
	}
	os.Remove(work)
	fmt.Fprintln(w, "end")
}

// c01Open opens a post-crash image with the real Open, dumps it, checks it and runs a follow-up write transaction + reopen.
func c01Open(path string, o openOpts) string {
	ch := make(chan string, 1)
	go func() {
		defer func() {
			if p := recover(); p != nil {
				ch <- "panic " + strings.ReplaceAll(fmt.Sprint(p), " ", "_")
			}
		}()
		opts := o.boltOptions()
		db, err := bolt.Open(path, 0600, opts)
		if err != nil {
			ch <- "err " + errName(err)
			return
		}
		tx, _ := db.Begin(false)
		d := digestOrText(dumpTx(tx))
		n := 0
		for range tx.Check() {
			n++
		}
		_ = tx.Rollback()
		follow := "ok"
		if err := db.Update(func(tx *bolt.Tx) error {
			b, err := tx.CreateBucketIfNotExists([]byte("zz-follow"))
			if err != nil {
				return err
			}
			return b.Put([]byte("k"), bytes.Repeat([]byte{7}, 3000))
		}); err != nil {
			follow = "err:" + errName(err)
		}
		db.Close()
		if follow == "ok" {
			db2, err := bolt.Open(path, 0600, opts)
			if err != nil {
				follow = "reopen:" + errName(err)
			} else {
				tx2, _ := db2.Begin(false)
				m := 0
				for range tx2.Check() {
					m++
				}
				if m > 0 {
					follow = fmt.Sprintf("check-after-follow:%d", m)
				}
				if tx2.Bucket([]byte("zz-follow")) == nil {
					follow = "follow-lost"
				}
				_ = tx2.Rollback()
				db2.Close()
			}
		}
		ch <- fmt.Sprintf("ok %s %d %s", d, n, follow)
	}()
	select {
	case s := <-ch:
		return s
	case <-time.After(20 * time.Second):
		return "hang"
	}
}
