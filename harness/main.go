// bbverif: correspondence harness. Drives the real bbolt (built from /repo with -tags verif) and
// writes trace files that the extracted Coq model (oracle) replays and compares.
package main

import (
	"bufio"
	"flag"
	"fmt"
	"io"
	"os"
	"sort"
	"strings"
)

type cmdFn func(args []string) error

var cmds = map[string]cmdFn{}

func main() {
	if len(os.Args) < 2 {
		names := []string{}
		for k := range cmds {
			names = append(names, k)
		}
		sort.Strings(names)
		fmt.Fprintln(os.Stderr, "usage: bbverif <cmd> [flags]; cmds:", strings.Join(names, " "))
		os.Exit(2)
	}
	fn, ok := cmds[os.Args[1]]
	if !ok {
		fmt.Fprintln(os.Stderr, "unknown command", os.Args[1])
		os.Exit(2)
	}
	if err := fn(os.Args[2:]); err != nil {
		fmt.Fprintln(os.Stderr, "error:", err)
		os.Exit(3)
	}
}

// common flags
type common struct {
	fs     *flag.FlagSet
	seed   uint64
	n      int
	out    string
	replay string
	tier   string
}

func newCommon(name string) *common {
	c := &common{fs: flag.NewFlagSet(name, flag.ExitOnError)}
	c.fs.Uint64Var(&c.seed, "seed", 1, "seed")
	c.fs.IntVar(&c.n, "n", 100, "number of cases")
	c.fs.StringVar(&c.out, "out", "-", "output trace file")
	c.fs.StringVar(&c.replay, "replay", "", "replay the ops of this trace file instead of generating")
	c.fs.StringVar(&c.tier, "tier", "quick", "tier")
	return c
}

func openOut(path string) (*bufio.Writer, func()) {
	if path == "-" {
		w := bufio.NewWriter(os.Stdout)
		return w, func() { w.Flush() }
	}
	f, err := os.Create(path)
	if err != nil {
		panic(err)
	}
	w := bufio.NewWriterSize(f, 1<<20)
	return w, func() { w.Flush(); f.Close() }
}

// splitmix64: every random choice of a run derives from one seed.
type rng struct{ s uint64 }

func (r *rng) next() uint64 {
	r.s += 0x9e3779b97f4a7c15
	z := r.s
	z = (z ^ (z >> 30)) * 0xbf58476d1ce4e5b9
	z = (z ^ (z >> 27)) * 0x94d049bb133111eb
	return z ^ (z >> 31)
}
func (r *rng) intn(n int) int {
	if n <= 0 {
		return 0
	}
	return int(r.next() % uint64(n))
}
func (r *rng) chance(num, den int) bool { return r.intn(den) < num }
func (r *rng) fork() *rng               { return &rng{s: r.next()} }

func csv(ids []uint64) string {
	if len(ids) == 0 {
		return "-"
	}
	var sb strings.Builder
	for i, x := range ids {
		if i > 0 {
			sb.WriteByte(',')
		}
		fmt.Fprintf(&sb, "%d", x)
	}
	return sb.String()
}

func parseCSV(s string) []uint64 {
	if s == "-" || s == "" {
		return nil
	}
	parts := strings.Split(s, ",")
	r := make([]uint64, len(parts))
	for i, p := range parts {
		fmt.Sscanf(p, "%d", &r[i])
	}
	return r
}

func newBufWriter(w io.Writer) *bufio.Writer { return bufio.NewWriter(w) }
