package main

import (
	"bufio"
	"bytes"
	"encoding/binary"
	"fmt"
	"os"
	"os/exec"
	"regexp"
	"strings"
	"time"

	bolt "go.etcd.io/bbolt"
	"go.etcd.io/bbolt/cmd/bbolt/command"
)

// c19: the integrity check on consistent files and on single structural corruptions of them. Every (mutated) file is
// checked by Tx.Check and by the command-line tool in a CHILD process (Tx.Check can fault on some corrupt files after
// reporting). Whether a mutation corrupted anything is decided by the oracle on the decoder's view, never here. Trace:
//
//	case <id> ps=<n>
//	o base | o mut <class> <details>
//	r img=<path> ps=<n> lib=<number of problems|crash-after-N|crash> cli=<0|1|crash>
func init() {
	cmds["c19"] = c19Main
	cmds["c19check"] = func(args []string) error {
		// child: library check, then the command-line tool's verdict
		db, err := bolt.Open(args[0], 0600, &bolt.Options{ReadOnly: true, PreLoadFreelist: true})
		if err != nil {
			fmt.Printf("lib=openerr:%s cli=1\n", errName(err))
			return nil
		}
		n := 0
		_ = db.View(func(tx *bolt.Tx) error {
			for e := range tx.Check() {
				n++
				fmt.Printf("partial=%d\nE %s\n", n, checkCode(e.Error()))
			}
			return nil
		})
		db.Close()
		cli := 0
		if exe := os.Getenv("BBOLT_EXE"); exe != "" {
			// the real command-line tool (built from /repo's cmd/bbolt by the driver): its EXIT STATUS is what counts
			cmd := exec.Command(exe, "check", args[0])
			cmd.Stdout, cmd.Stderr = nil, nil
			if err := cmd.Run(); err != nil {
				cli = 1
			}
		} else {
			root := command.NewRootCommand()
			root.SetArgs([]string{"check", args[0]})
			var sink bytes.Buffer
			root.SetOut(&sink)
			root.SetErr(&sink)
			if err := root.Execute(); err != nil {
				cli = 1
			}
		}
		fmt.Printf("lib=%d cli=%d\n", n, cli)
		return nil
	}
}

var checkPats = []struct {
	re   *regexp.Regexp
	code string
}{
	{regexp.MustCompile(`^page (\d+): already freed`), "AF:$1"},
	{regexp.MustCompile(`^page (\d+): unreachable unfreed`), "UU:$1"},
	{regexp.MustCompile(`^page (\d+): out of bounds`), "OB:$1"},
	{regexp.MustCompile(`^page (\d+): multiple references`), "MR:$1"},
	{regexp.MustCompile(`^page (\d+): reachable freed`), "RF:$1"},
	{regexp.MustCompile(`^page (\d+): invalid type`), "IT:$1"},
	{regexp.MustCompile(`^unexpected page type \(flags: [0-9a-f]+\) for pgId:(\d+)`), "UT:$1"},
	{regexp.MustCompile(`^the first key\[(\d+)\]=.* on \w+ page\((\d+)\) needs to be >= the key in the ancestor`), "KF:$2:$1"},
	{regexp.MustCompile(`^key\[(\d+)\]=.* on \w+ page\((\d+)\) needs to be > \(found <\)`), "KL:$2:$1"},
	{regexp.MustCompile(`^key\[(\d+)\]=.* on \w+ page\((\d+)\) needs to be > \(found =\)`), "KE:$2:$1"},
	{regexp.MustCompile(`^key\[(\d+)\]=.* on \w+ page\((\d+)\) needs to be < than key of the next element`), "KM:$2:$1"},
}

// checkCode maps one message of Tx.Check to a short class code; messages this table does not know become "??"
// (a reworded message must not raise an alarm: the oracle then falls back to comparing verdicts only).
func checkCode(msg string) string {
	for _, p := range checkPats {
		if m := p.re.FindStringSubmatchIndex(msg); m != nil {
			return string(p.re.ExpandString(nil, p.code, msg, m))
		}
	}
	return "??"
}

func checkInChild(path string) string {
	cmd := exec.Command(os.Args[0], "c19check", path)
	var out bytes.Buffer
	cmd.Stdout = &out
	done := make(chan error, 1)
	if err := cmd.Start(); err != nil {
		return "lib=childerr cli=childerr"
	}
	go func() { done <- cmd.Wait() }()
	select {
	case err := <-done:
		lines := strings.Split(strings.TrimSpace(out.String()), "\n")
		last := lines[len(lines)-1]
		var codes []string
		for _, l := range lines {
			if strings.HasPrefix(l, "E ") && len(codes) < 400 {
				codes = append(codes, l[2:])
			}
		}
		errs := " errs=-"
		if len(codes) > 0 {
			errs = " errs=" + strings.Join(codes, ",")
		}
		if err != nil || !strings.HasPrefix(last, "lib=") {
			// died: how many problems had been reported before?
			n := 0
			for _, l := range lines {
				if strings.HasPrefix(l, "partial=") {
					fmt.Sscanf(l, "partial=%d", &n)
				}
			}
			if n > 0 {
				return fmt.Sprintf("lib=crash-after-%d cli=1", n) + errs
			}
			return "lib=crash cli=crash"
		}
		return last + errs
	case <-time.After(20 * time.Second):
		_ = cmd.Process.Kill()
		return "lib=hang cli=hang"
	}
}

type pg struct {
	id, flags, count, ov int
}

func readPg(img []byte, ps, id int) pg {
	o := id * ps
	return pg{id: int(binary.LittleEndian.Uint64(img[o:])), flags: int(binary.LittleEndian.Uint16(img[o+8:])),
		count: int(binary.LittleEndian.Uint16(img[o+10:])), ov: int(binary.LittleEndian.Uint32(img[o+12:]))}
}

func c19Main(args []string) error {
	c := newCommon("c19")
	dir := c.fs.String("dir", "", "scratch dir")
	maxMut := c.fs.Int("maxmut", 300, "mutations per database")
	c.fs.Parse(args)
	w, done := openOut(c.out)
	defer done()
	if *dir == "" {
		d, _ := os.MkdirTemp("/dev/shm", "bbv")
		*dir = d
		defer os.RemoveAll(d)
	}
	r := &rng{s: c.seed}
	for id := 0; id < c.n; id++ {
		cr := r.fork()
		o := histOptions(cr, id)
		o.nfs = false
		o.imm = 0
		o.ps = []int{1024, 1024, 4096}[cr.intn(3)]
		cfg := genCfg{ps: o.ps, txs: 3 + cr.intn(6), opsPerTx: 25, bigVals: true, readers: false, reopen: false, malformed: false, moves: true}
		lines := genHistory(cr.fork(), cfg, o)
		var sink bytes.Buffer
		rn := newRunner(bufio.NewWriter(&sink), *dir, 4000000+id)
		for _, l := range lines {
			if !rn.exec(l) {
				break
			}
		}
		if rn.db != nil {
			rn.db.Close()
			rn.db = nil
		}
		base, err := os.ReadFile(rn.path)
		os.Remove(rn.path)
		if err != nil || len(base) < 4*o.ps {
			continue
		}
		ps := o.ps
		fmt.Fprintf(w, "case %d ps=%d\n", id, ps)
		nimg := 0
		emit := func(op string, img []byte) {
			nimg++
			p := fmt.Sprintf("%s/c19_%d.%d", *dir, id, nimg)
			_ = os.WriteFile(p, img, 0600)
			res := checkInChild(p)
			fmt.Fprintf(w, "o %s\nr img=%s ps=%d %s\n", op, p, ps, res)
		}
		emit("base", base)
		// which meta is current; its freelist page and high-water mark
		txid := func(slot int) uint64 { return binary.LittleEndian.Uint64(base[slot*ps+16+48:]) }
		slot := 0
		if txid(1) > txid(0) {
			slot = 1
		}
		flPage := int(binary.LittleEndian.Uint64(base[slot*ps+16+32:]))
		mark := int(binary.LittleEndian.Uint64(base[slot*ps+16+40:]))
		clone := func() []byte { return append([]byte{}, base...) }
		var muts []func()
		add := func(f func()) { muts = append(muts, f) }
		// classify pages by their own header (heuristic only: the oracle decides what a mutation did)
		var leaves, branches []int
		for p := 2; p < mark && (p+1)*ps <= len(base); p++ {
			h := readPg(base, ps, p)
			if h.id != p {
				continue
			}
			if h.flags == 2 && h.count > 0 {
				leaves = append(leaves, p)
			} else if h.flags == 1 && h.count > 0 {
				branches = append(branches, p)
			}
		}
		if flPage >= 2 && flPage < mark {
			fh := readPg(base, ps, flPage)
			fo := flPage*ps + 16
			cnt := fh.count
			idsOff := fo
			if cnt == 0xFFFF {
				cnt = int(binary.LittleEndian.Uint64(base[fo:]))
				idsOff = fo + 8
			}
			for i := 0; i < cnt && i < 12; i++ {
				i := i
				// drop one id from the freelist (overwrite it with its neighbour: also a duplicate) / shrink the count
				add(func() {
					img := clone()
					if cnt > 1 {
						j := (i + 1) % cnt
						copy(img[idsOff+8*i:idsOff+8*i+8], base[idsOff+8*j:idsOff+8*j+8])
					}
					emit(fmt.Sprintf("mut freelist-dup %d", i), img)
				})
			}
			if cnt > 0 && fh.count != 0xFFFF {
				add(func() {
					img := clone()
					binary.LittleEndian.PutUint16(img[flPage*ps+10:], uint16(cnt-1))
					emit("mut freelist-drop-last", img)
				})
			}
			// ... and APPENDED, so that nothing else changes
			if fh.count != 0xFFFF && idsOff+8*(cnt+1) <= (flPage+fh.ov+1)*ps && cnt+1 < 0xFFFF {
				for _, own := range []int{flPage, 1, 0} {
					own := own
					add(func() {
						img := clone()
						binary.LittleEndian.PutUint16(img[flPage*ps+10:], uint16(cnt+1))
						binary.LittleEndian.PutUint64(img[idsOff+8*cnt:], uint64(own))
						emit(fmt.Sprintf("mut freelist-add-own-or-meta-page %d", own), img)
					})
				}
			}
			// the freelist's own page (reachable from the meta) or a meta page listed as free
			if cnt > 0 {
				for _, own := range []int{flPage, 1, 0} {
					own := own
					add(func() {
						img := clone()
						binary.LittleEndian.PutUint64(img[idsOff+8*(cnt-1):], uint64(own))
						emit(fmt.Sprintf("mut freelist-has-own-or-meta-page %d", own), img)
					})
				}
			}
			// list a reachable page (and an overflow page of a reachable run) as free
			for _, p := range append(append([]int{}, leaves...), branches...) {
				p := p
				if cnt > 0 {
					add(func() {
						img := clone()
						binary.LittleEndian.PutUint64(img[idsOff+8*(cnt-1):], uint64(p))
						emit(fmt.Sprintf("mut freelist-has-reachable %d", p), img)
					})
					if h := readPg(base, ps, p); h.ov > 0 {
						add(func() {
							img := clone()
							binary.LittleEndian.PutUint64(img[idsOff+8*(cnt-1):], uint64(p+1+cr.intn(h.ov)))
							emit(fmt.Sprintf("mut freelist-has-overflow-of %d", p), img)
						})
					}
				}
				// the same, but APPENDED (nothing else changes): needs room in the freelist page
				if fh.count != 0xFFFF && idsOff+8*(cnt+1) <= (flPage+fh.ov+1)*ps && cnt+1 < 0xFFFF {
					add(func() {
						img := clone()
						binary.LittleEndian.PutUint16(img[flPage*ps+10:], uint16(cnt+1))
						binary.LittleEndian.PutUint64(img[idsOff+8*cnt:], uint64(p))
						emit(fmt.Sprintf("mut freelist-add-reachable %d", p), img)
					})
					if h := readPg(base, ps, p); h.ov > 0 {
						add(func() {
							img := clone()
							binary.LittleEndian.PutUint16(img[flPage*ps+10:], uint16(cnt+1))
							binary.LittleEndian.PutUint64(img[idsOff+8*cnt:], uint64(p+1+cr.intn(h.ov)))
							emit(fmt.Sprintf("mut freelist-add-overflow-of %d", p), img)
						})
					}
				}
			}
		}
		for _, p := range branches {
			p := p
			h := readPg(base, ps, p)
			if h.count >= 2 {
				add(func() { // two branch elements point at one child
					img := clone()
					e0 := p*ps + 16
					copy(img[e0+16+8:e0+16+16], base[e0+8:e0+16])
					emit(fmt.Sprintf("mut branch-double-ref %d", p), img)
				})
			}
		}
		// a page's overflow count raised by one so that its run swallows the next page, which is another reachable page:
		// that page is then referenced twice (once as itself, once as a continuation)
		isTree := map[int]bool{}
		for _, p := range append(append([]int{}, leaves...), branches...) {
			isTree[p] = true
		}
		for _, p := range append(append([]int{}, leaves...), branches...) {
			p := p
			h := readPg(base, ps, p)
			if isTree[p+h.ov+1] {
				add(func() {
					img := clone()
					binary.LittleEndian.PutUint32(img[p*ps+12:], uint32(h.ov+1))
					emit(fmt.Sprintf("mut overflow-overlap %d", p), img)
				})
			}
		}
		for _, p := range append(append([]int{}, leaves...), branches...) {
			p := p
			for _, fl := range []int{0, 4, 16, 3, 0x20, 0x12, 0x06} {
				fl := fl
				add(func() {
					img := clone()
					binary.LittleEndian.PutUint16(img[p*ps+8:], uint16(fl))
					emit(fmt.Sprintf("mut flags %d %d", p, fl), img)
				})
			}
		}
		for _, p := range leaves {
			p := p
			h := readPg(base, ps, p)
			elem := func(i int) int { return p*ps + 16 + 16*i }
			keyAt := func(img []byte, i int) []byte {
				e := elem(i)
				pos := int(binary.LittleEndian.Uint32(img[e+4:]))
				ks := int(binary.LittleEndian.Uint32(img[e+8:]))
				return img[e+pos : e+pos+ks]
			}
			if h.count >= 2 {
				i := cr.intn(h.count - 1)
				add(func() { // swap two adjacent element headers (keys out of order)
					img := clone()
					a, b := elem(i), elem(i+1)
					var ea, eb [16]byte
					copy(ea[:], base[a:a+16])
					copy(eb[:], base[b:b+16])
					// positions are relative to the element header: adjust by the 16-byte distance
					binary.LittleEndian.PutUint32(ea[4:], binary.LittleEndian.Uint32(ea[4:])-16)
					binary.LittleEndian.PutUint32(eb[4:], binary.LittleEndian.Uint32(eb[4:])+16)
					copy(img[a:], eb[:])
					copy(img[b:], ea[:])
					emit(fmt.Sprintf("mut swap-keys %d %d", p, i), img)
				})
				add(func() { // duplicate: make key i+1 equal to key i when they have the same length
					img := clone()
					k0, k1 := keyAt(img, i), keyAt(img, i+1)
					if len(k0) == len(k1) {
						copy(k1, k0)
					}
					emit(fmt.Sprintf("mut dup-key %d %d", p, i), img)
				})
			}
			add(func() { // first key smaller than anything before it
				img := clone()
				k := keyAt(img, 0)
				if len(k) > 0 {
					k[0] = 0
				}
				emit(fmt.Sprintf("mut first-key-low %d", p), img)
			})
			add(func() { // last key larger than anything after it
				img := clone()
				k := keyAt(img, h.count-1)
				if len(k) > 0 {
					k[0] = 0xff
				}
				emit(fmt.Sprintf("mut last-key-high %d", p), img)
			})
		}
		// bounded, deterministic sample
		for len(muts) > *maxMut {
			i := cr.intn(len(muts))
			muts = append(muts[:i], muts[i+1:]...)
		}
		for _, f := range muts {
			f()
		}
		fmt.Fprintln(w, "end")
		w.Flush()
	}
	return nil
}
