package main

import (
	"fmt"
	"os"
	"strings"

	bolt "go.etcd.io/bbolt"
)

// c04: API-level histories (also the substrate of C07/C12/C13: images after every commit when -img=commit).
func init() { cmds["c04"] = c04Main }

func histOptions(r *rng, i int) openOpts {
	pss := []int{1024, 4096, 16384, 2048, 8192}
	o := openOpts{ps: pss[r.intn(len(pss))], fl: []string{"array", "hashmap"}[r.intn(2)]}
	o.nfs = r.chance(1, 4)
	o.ngs = r.chance(1, 4)
	if r.chance(1, 4) {
		o.imm = 1 << uint(16+r.intn(8))
	}
	return o
}

func c04Main(args []string) error {
	c := newCommon("c04")
	img := c.fs.String("img", "none", "none|commit: copy the file after every commit for the decoder")
	txs := c.fs.Int("txs", 12, "transactions per history")
	opsPerTx := c.fs.Int("ops", 12, "max ops per transaction")
	dir := c.fs.String("dir", "", "scratch dir")
	sched := c.fs.Int("sched", 0, "run every history under this many option schedules (options re-drawn at every open)")
	bigfree := c.fs.Bool("bigfree", false, "prepend one history whose free list exceeds 65535 entries")
	backups := c.fs.Bool("backups", false, "hot backups through open readers, with write transactions committed between the chunks of the copy")
	surgery := c.fs.Bool("surgery", false, "run the CLI repair commands on the file directly after commits")
	selfmoves := c.fs.Bool("selfmoves", false, "about one history in 24 moves a bucket into its own subtree (known finding D4) and ends there")
	readersAlways := c.fs.Bool("readers", false, "every history holds read transactions open across writer events")
	c.fs.Parse(args)
	mlockWorks() // probe now: later the process-wide verif hooks are set and would record the probe's own I/O
	w, done := openOut(c.out)
	defer done()
	if *dir == "" {
		d, err := os.MkdirTemp("/dev/shm", "bbv")
		if err != nil {
			return err
		}
		*dir = d
		defer os.RemoveAll(d)
	}
	if c.replay != "" {
		hs, cs, err := parseTraceCases(c.replay)
		if err != nil {
			return err
		}
		for i := range cs {
			runHistory(w, *dir, i, hs[i], cs[i], *img)
		}
		return nil
	}
	r := &rng{s: c.seed}
	if *bigfree {
		// a free list beyond 65535 entries (the 0xFFFF count convention) inside a real database
		o := openOpts{ps: 1024, fl: []string{"array", "hashmap"}[int(c.seed)%2]}
		L := []string{"open " + o.String(), "beginw", "x w create - 6262"}
		for i := 0; i < 4100; i++ {
			L = append(L, fmt.Sprintf("x w put 6262 %x @16000:%d", fmt.Sprintf("big%05d", i), i%251))
		}
		L = append(L, "dump w", "noimg-next", "commit", "beginw")
		for i := 0; i < 4100; i++ {
			L = append(L, fmt.Sprintf("x w del 6262 %x", fmt.Sprintf("big%05d", i)))
		}
		L = append(L, "dump w", "commit", "beginw", "x w put 6262 6b 76", "dump w", "commit",
			"close", "open "+o.String(), "beginw", "x w put 6262 6b32 76", "dump w", "commit",
			"beginr 901", "dump r901", "check r901", "bstats r901", "endr 901", "close")
		runHistory(w, *dir, 900000, "bigfree", L, *img)
	}
	for i := 0; i < c.n; i++ {
		cr := r.fork()
		o := histOptions(cr, i)
		cfg := genCfg{ps: o.ps, txs: 2 + cr.intn(*txs), opsPerTx: *opsPerTx, bigVals: cr.chance(1, 2), readers: cr.chance(1, 2),
			reopen: cr.chance(1, 2), malformed: cr.chance(1, 2), moves: cr.chance(2, 3)}
		if *sched > 0 && i%2 == 1 {
			cfg.faults = true // C13: physical rollbacks under every option schedule
		}
		if *selfmoves && i%24 == 7 {
			cfg.selfmoves, cfg.moves = true, true
		}
		if *readersAlways || *backups {
			cfg.readers = true
		}
		if *surgery {
			cfg.surgery = true
			cfg.readers = false
		}
		if *backups {
			// the writers that commit between the chunks of a copy run inside the copy's Write callback: a commit that had
			// to remap would wait for the copying reader itself - map far more than any history needs
			o.imm = 256 << 20
			cfg.backups = true
			cfg.faults = true // a commit that fails (physical rollback) between a reader's begin and its copy is one of "any steps"
			cfg.reopen = false
		}
		if cfg.readers && !*backups && cr.chance(3, 4) {
			o.imm = 4 << 20 // avoid most remaps (which block on open readers) in reader histories
		}
		lines := genHistory(cr, cfg, o)
		if i%10 == 3 && *sched == 0 && !*backups && !*surgery && !cfg.selfmoves {
			// one history in ten is a MoveBucket scenario (cached instances, stale headers, frees made below a moved bucket)
			lines = genMoveScenario(cr, o, int(cr.next()%4))
		}
		if *sched > 0 {
			// C13: the same history under different option schedules; options are re-drawn at every open,
			// read-only opens (with and without preloading the freelist) are slipped in before reopenings
			for k := 0; k < *sched; k++ {
				sr := &rng{s: cr.s + uint64(k)*7919}
				var L []string
				first := true
				for _, l := range lines {
					if !strings.HasPrefix(l, "open ") {
						L = append(L, l)
						continue
					}
					o2 := o
					if k > 0 || !first {
						o2.fl = []string{"array", "hashmap"}[sr.intn(2)]
						o2.nfs = sr.chance(1, 2)
						o2.ngs = sr.chance(1, 2)
						o2.imm = []int{0, 1 << 16, 4 << 20}[sr.intn(3)]
						o2.strict = sr.chance(1, 3)
						o2.ml = mlockWorks() && sr.chance(1, 3)
						if first {
							o2.ps = []int{1024, 2048, 4096, 8192, 16384}[sr.intn(5)]
						}
					}
					if cfg.readers {
						o2.imm = 4 << 20
					}
					if !first && sr.chance(1, 2) {
						ro := o2
						ro.ro = true
						ro.pre = sr.chance(1, 2)
						ro.strict = false
						L = append(L, "open "+ro.String(), "beginr 950", "dump r950", "x r950 create - 7a", "endr 950", "beginw", "close")
					}
					L = append(L, "open "+o2.String())
					first = false
				}
				runHistory(w, *dir, i*100+k, fmt.Sprintf("seed=%d sched=%d", cr.s, k), L, *img)
			}
			continue
		}
		runHistory(w, *dir, i, fmt.Sprintf("seed=%d", cr.s), lines, *img)
	}
	return nil
}

var mlockProbe = 0 // 0 unknown, 1 works, 2 refused

// mlockWorks: Options.Mlock is only drawn when the kernel lets this process lock memory (RLIMIT_MEMLOCK)
func mlockWorks() bool {
	if mlockProbe == 0 {
		mlockProbe = 2
		d, err := os.MkdirTemp("/dev/shm", "bbml")
		if err == nil {
			defer os.RemoveAll(d)
			if db, e := bolt.Open(d+"/p.db", 0600, &bolt.Options{Mlock: true, InitialMmapSize: 16 << 20}); e == nil {
				if e2 := db.Update(func(tx *bolt.Tx) error { _, e3 := tx.CreateBucket([]byte("x")); return e3 }); e2 == nil {
					mlockProbe = 1
				}
				db.Close()
			}
		}
	}
	return mlockProbe == 1
}
