package main

import (
	"bufio"
	"bytes"
	"fmt"
	"io"
	"os"
	"os/exec"
	"runtime/debug"
	"strings"
	"time"

	bolt "go.etcd.io/bbolt"
	"go.etcd.io/bbolt/cmd/bbolt/command"
)

// c17: file locks and read-only mode.
//
//	(a) lock sequences: up to 5 open/close attempts by 3 actors, each actor either this process or a child process;
//	    Open uses a 150 ms timeout. Trace: `o open <actor> <rw|ro> <in|child>` / `o close <actor>`, `r ok|ETimeout|notopen|...`
//	(b) read-only sessions: a database is built, closed, its SHA-256 taken; it is opened read-only (with/without
//	    preloading the freelist) with the I/O hooks on; random reads, every kind of write attempt and the command-line
//	    tool's inspection commands run; the SHA is taken again. Trace: `o ro ...` / `r ...`
//	(c) memory: every slice a read-only transaction hands out is written to with faults turned into panics.
func init() {
	cmds["c17"] = c17Main
	cmds["c17hold"] = func(args []string) error {
		// child holder: open, report, wait for a line on stdin, close
		db, err := bolt.Open(args[0], 0600, &bolt.Options{ReadOnly: args[1] == "ro", Timeout: 150 * time.Millisecond})
		if err != nil {
			fmt.Println(errName(err))
			return nil
		}
		fmt.Println("ok")
		bufio.NewReader(os.Stdin).ReadString('\n')
		db.Close()
		fmt.Println("closed")
		return nil
	}
}

type actor struct {
	db    *bolt.DB
	cmd   *exec.Cmd
	stdin io.WriteCloser
	out   *bufio.Reader
}

func c17Main(args []string) error {
	c := newCommon("c17")
	dir := c.fs.String("dir", "", "scratch dir")
	c.fs.Parse(args)
	w, done := openOut(c.out)
	defer done()
	if *dir == "" {
		d, _ := os.MkdirTemp("/dev/shm", "bbv")
		*dir = d
		defer os.RemoveAll(d)
	}
	r := &rng{s: c.seed}
	for id := 0; id < c.n; id++ {
		cr := r.fork()
		path := fmt.Sprintf("%s/c17_%d.db", *dir, id)
		os.Remove(path)
		// base content
		db, err := bolt.Open(path, 0600, &bolt.Options{PageSize: []int{1024, 4096}[cr.intn(2)], NoFreelistSync: cr.chance(1, 3)})
		if err != nil {
			return err
		}
		_ = db.Update(func(tx *bolt.Tx) error {
			b, _ := tx.CreateBucket([]byte("b"))
			for i := 0; i < 40+cr.intn(200); i++ {
				_ = b.Put([]byte(fmt.Sprintf("k%04d", i)), bytes.Repeat([]byte{byte(i)}, 1+cr.intn(300)))
			}
			nb, _ := b.CreateBucket([]byte("inline"))
			_ = nb.Put([]byte("x"), []byte("small-inline-value"))
			_ = nb.SetSequence(7)
			return nil
		})
		db.Close()
		fmt.Fprintf(w, "case %d\n", id)
		// ---- (a) lock sequence
		actors := map[string]*actor{}
		lpath := path
		nops := 3 + cr.intn(4)
		if cr.chance(1, 2) {
			// an Open that is REFUSED must leave no lock behind: the file is damaged in place (same inode), an Open (read-write or
			// read-only, in this process) is refused, the content is restored in place; the sequence below then runs as if nothing had happened
			good, _ := os.ReadFile(path)
			lpath = path + ".lk" // the lock sequence of this case runs on a copy: a lock left behind must not stall the other parts of the case
			_ = os.WriteFile(lpath, good, 0600)
			defer os.Remove(lpath)
			kind := []string{"truncated", "garbage", "both-metas"}[cr.intn(3)]
			bad := append([]byte{}, good...)
			pgsz := int(bad[16+8]) | int(bad[16+9])<<8 | int(bad[16+10])<<16
			switch kind {
			case "truncated": // the tail is lost, both metas intact
				mark := func(slot int) int { o := slot*pgsz + 16 + 40; return int(bad[o]) | int(bad[o+1])<<8 | int(bad[o+2])<<16 | int(bad[o+3])<<24 }
				m := mark(0)
				if mark(1) < m {
					m = mark(1)
				}
				if m > 3 && (m-1)*pgsz < len(bad) {
					bad = bad[:(m-1)*pgsz] // shorter than the file's own high water mark
				}
			case "garbage":
				for i := range bad[:64] {
					bad[i] = byte(cr.intn(256))
				}
				for i := range bad[pgsz : pgsz+64] {
					bad[pgsz+i] = byte(cr.intn(256))
				}
			default:
				bad[16+20] ^= 0xff
				bad[pgsz+16+20] ^= 0xff
			}
			mode := []string{"rw", "ro"}[cr.intn(2)]
			_ = os.WriteFile(lpath, bad, 0600)
			fmt.Fprintf(w, "o refused %s %s\n", mode, kind)
			t0 := time.Now()
			d, err := bolt.Open(lpath, 0600, &bolt.Options{ReadOnly: mode == "ro", Timeout: 150 * time.Millisecond})
			if err == nil {
				d.Close()
			}
			_ = os.WriteFile(lpath, good, 0600)
			fmt.Fprintf(w, "r %s ms=%d\n", errName(err), time.Since(t0).Milliseconds())
		}
		for k := 0; k < nops; k++ {
			name := []string{"A", "B", "C"}[cr.intn(3)]
			a := actors[name]
			if a != nil && cr.chance(1, 2) {
				fmt.Fprintf(w, "o close %s\n", name)
				if a.db != nil {
					fmt.Fprintf(w, "r %s\n", errName(a.db.Close()))
				} else {
					fmt.Fprintln(a.stdin, "close")
					line, _ := a.out.ReadString('\n')
					a.stdin.Close()
					_ = a.cmd.Wait()
					if strings.TrimSpace(line) == "closed" {
						fmt.Fprintln(w, "r ok")
					} else {
						fmt.Fprintf(w, "r childsaid:%s\n", strings.TrimSpace(line))
					}
				}
				delete(actors, name)
				continue
			}
			if a != nil {
				continue
			}
			mode := []string{"rw", "ro"}[cr.intn(2)]
			how := []string{"in", "child"}[cr.intn(2)]
			fmt.Fprintf(w, "o open %s %s %s\n", name, mode, how)
			t0 := time.Now()
			if how == "in" {
				d, err := bolt.Open(lpath, 0600, &bolt.Options{ReadOnly: mode == "ro", Timeout: 150 * time.Millisecond})
				if err == nil {
					actors[name] = &actor{db: d}
				}
				fmt.Fprintf(w, "r %s ms=%d\n", errName(err), time.Since(t0).Milliseconds())
			} else {
				cmd := exec.Command(os.Args[0], "c17hold", lpath, mode)
				in, _ := cmd.StdinPipe()
				outp, _ := cmd.StdoutPipe()
				_ = cmd.Start()
				br := bufio.NewReader(outp)
				line, _ := br.ReadString('\n')
				res := strings.TrimSpace(line)
				if res == "ok" {
					actors[name] = &actor{cmd: cmd, stdin: in, out: br}
				} else {
					in.Close()
					_ = cmd.Wait()
				}
				fmt.Fprintf(w, "r %s ms=%d\n", res, time.Since(t0).Milliseconds())
			}
		}
		for name, a := range actors {
			if a.db != nil {
				a.db.Close()
			} else {
				fmt.Fprintln(a.stdin, "close")
				a.stdin.Close()
				_ = a.cmd.Wait()
			}
			delete(actors, name)
		}
		// (c) memory: write into every slice a read transaction hands out (mapped pages and inline buckets)
		pokeAll := func(tx *bolt.Tx, base string) string {
			b := tx.Bucket([]byte("b"))
			poke := func(s []byte) string {
				if len(s) == 0 {
					return "empty"
				}
				old := s[0]
				faulted := func() (f bool) {
					defer func() {
						if recover() != nil {
							f = true
						}
					}()
					debug.SetPanicOnFault(true)
					s[0] = old ^ 0xff
					return false
				}()
				if faulted {
					return "fault"
				}
				// no fault: it must be a private copy - the file must not see the write
				seen := fileSHA(path) != base
				s[0] = old
				if seen {
					return "WRITABLEVIEW"
				}
				return "copy"
			}
			kinds := map[string]int{}
			cur := b.Cursor()
			for k, v := cur.First(); k != nil; k, v = cur.Next() {
				kinds["key-"+poke(k)]++
				if v != nil {
					kinds["val-"+poke(v)]++
				}
			}
			in := b.Bucket([]byte("inline"))
			ik, iv := in.Cursor().First()
			kinds["inlinekey-"+poke(ik)]++
			kinds["inlineval-"+poke(iv)]++
			// content re-read afterwards
			if string(in.Get([]byte("x"))) != "small-inline-value" {
				kinds["MODIFIED-"]++
			}
			var ks []string
			for k, n := range kinds {
				ks = append(ks, fmt.Sprintf("%s:%d", k, n))
			}
			return "poke=" + strings.Join(ks, ",")
		}
		// ---- (b) read-only session
		sha0 := fileSHA(path)
		writes := 0
		bolt.VerifHook = &bolt.VerifHooks{IO: func(db *bolt.DB, kind string, off int64, data []byte) error {
			if kind == "write" || kind == "truncate" || kind == "fsync" {
				writes++
			}
			return nil
		}}
		ro, err := bolt.Open(path, 0600, &bolt.Options{ReadOnly: true, PreLoadFreelist: cr.chance(1, 2)})
		if err != nil {
			fmt.Fprintf(w, "o ro open\nr %s\n", errName(err))
		} else {
			var res []string
			_, e1 := ro.Begin(true)
			res = append(res, "begin="+errName(e1))
			res = append(res, "update="+errName(ro.Update(func(tx *bolt.Tx) error { return nil })))
			res = append(res, "batch="+errName(ro.Batch(func(tx *bolt.Tx) error { return nil })))
			_ = ro.View(func(tx *bolt.Tx) error {
				b := tx.Bucket([]byte("b"))
				res = append(res, "put="+errName(b.Put([]byte("zz"), []byte("v"))))
				res = append(res, "del="+errName(b.Delete([]byte("k0001"))))
				_, e := b.CreateBucket([]byte("nb"))
				res = append(res, "create="+errName(e))
				res = append(res, "delb="+errName(b.DeleteBucket([]byte("inline"))))
				res = append(res, "setseq="+errName(b.SetSequence(9)))
				_, e = b.NextSequence()
				res = append(res, "nextseq="+errName(e))
				_, e = tx.CreateBucket([]byte("top"))
				res = append(res, "txcreate="+errName(e))
				res = append(res, "txdelb="+errName(tx.DeleteBucket([]byte("b"))))
				res = append(res, "commit="+func() (o string) {
					defer func() {
						if recover() != nil {
							o = "panic"
						}
					}()
					return errName(tx.Commit())
				}())
				res = append(res, pokeAll(tx, sha0))
				return nil
			})
			ro.Close()
			fmt.Fprintf(w, "o ro session\nr %s writes=%d same=%v\n", strings.Join(res, " "), writes, fileSHA(path) == sha0)
		}
		bolt.VerifHook = nil
		// the command-line tool's inspection commands
		for _, cmdline := range [][]string{{"check", path}, {"dump", path, "2"}, {"page", path, "2"}, {"pages", path}, {"keys", path, "b"},
			{"get", path, "b", "k0001"}, {"buckets", path}, {"stats", path}, {"inspect", path}, {"info", path}} {
			saved := os.Stdout
			dn, _ := os.OpenFile(os.DevNull, os.O_WRONLY, 0)
			os.Stdout = dn
			root := command.NewRootCommand()
			root.SetArgs(cmdline)
			var sink bytes.Buffer
			root.SetOut(&sink)
			root.SetErr(&sink)
			err := root.Execute()
			os.Stdout = saved
			dn.Close()
			e := "ok"
			if err != nil {
				e = "err"
			}
			fmt.Fprintf(w, "o cli %s\nr %s same=%v\n", cmdline[0], e, fileSHA(path) == sha0)
		}
		// ---- (c') the same probe through a read transaction of a read-write handle
		if rw, err := bolt.Open(path, 0600, &bolt.Options{Timeout: time.Second}); err == nil {
			sha1 := fileSHA(path) // Open itself may legitimately have flushed the free list
			var pk string
			_ = rw.View(func(tx *bolt.Tx) error { pk = pokeAll(tx, sha1); return nil })
			same := fileSHA(path) == sha1
			var reread string
			_ = rw.View(func(tx *bolt.Tx) error { reread = string(tx.Bucket([]byte("b")).Get([]byte("k0001"))); return nil })
			rw.Close()
			fmt.Fprintf(w, "o rwview session\nr %s same=%v reread=%v\n", pk, same, reread == strings.Repeat("\x01", len(reread)) && len(reread) > 0)
		}
		fmt.Fprintln(w, "end")
		w.Flush()
		os.Remove(path)
	}
	return nil
}
