package main

import (
	"fmt"
	"os"
	"sort"
	"strings"

	bolt "go.etcd.io/bbolt"
)

// ntree: the commit of a bucket WITH CHILD BUCKETS (Bucket.spill: inline or paged children written back into the parent's
// leaf through Cursor.seek + Cursor.node, then the parent's own spill), observed on the real code:
//   case <id> ps=<n> fill=<percent>
//   pre <tree>                       the parent bucket's tree right before Commit
//   order <pgid,..>                  Bucket.rebalance's visits in the parent
//   child <namehex> seq=<n> small=<0|1> <tree>     every child bucket opened in the transaction (Bucket.buckets), before Commit
//   corder <namehex> <pgid,..>       Bucket.rebalance's visits in that child
//   fl <F:id:ov|A:n:id ...>          every freelist Free / Allocate of the commit
//   post <tree>                      the parent's tree after the commit
//   cpost <namehex> inline=<0|1> <tree>   every such child after the commit
//   end

func init() { cmds["ntree"] = ntreeMain }

func smallLeaf(t *bolt.VerifNodeTree, ps int) bool {
	if !t.Leaf {
		return false
	}
	sz := 16
	for _, in := range t.Inodes {
		sz += 16 + len(in.Key) + len(in.Value)
	}
	return sz <= ps
}

func ntreeMain(args []string) error {
	c := newCommon("ntree")
	dir := c.fs.String("dir", "", "scratch dir")
	c.fs.Parse(args)
	w, done := openOut(c.out)
	defer done()
	if *dir == "" {
		d, _ := os.MkdirTemp("/dev/shm", "bbn")
		*dir = d
		defer os.RemoveAll(d)
	}
	g := &rng{s: c.seed}
	fills := []int{10, 25, 50, 50, 50, 75, 100}
	for ci := 0; ci < c.n; ci++ {
		cr := g.fork()
		ps := []int{1024, 1024, 4096}[cr.intn(3)]
		fill := fills[cr.intn(len(fills))]
		path := fmt.Sprintf("%s/n%d.db", *dir, ci)
		os.Remove(path)
		db, err := bolt.Open(path, 0600, &bolt.Options{PageSize: ps, NoSync: true})
		if err != nil {
			return err
		}
		nk := 10 + cr.intn(200)
		tiny := cr.chance(1, 5) // a parent that holds little besides its child buckets
		if tiny {
			nk = cr.intn(4)
		}
		klen := 4 + cr.intn(12)
		key := func(i int) []byte { return []byte(fmt.Sprintf("%0*d", klen, i*8)) }
		cname := func(i int) []byte { return []byte(fmt.Sprintf("%0*d", klen, i*8+3)) }
		vmax := ps / (4 + cr.intn(20))
		if nk < 4 {
			vmax = 12
		}
		val := func(max int) []byte {
			v := make([]byte, cr.intn(max+1))
			for i := range v {
				v[i] = byte(cr.intn(256))
			}
			return v
		}
		nc := 2 + cr.intn(14)
		cpos := make([]int, nc) // children sit between the plain keys
		for i := range cpos {
			cpos[i] = cr.intn(nk + 1)
		}
		fillChild := func(b *bolt.Bucket, big bool) {
			n := cr.intn(5)
			if big {
				n = 10 + cr.intn(150)
			}
			for j := 0; j < n; j++ {
				_ = b.Put([]byte(fmt.Sprintf("x%04d", cr.intn(400))), val(ps/8))
			}
		}
		err = db.Update(func(tx *bolt.Tx) error {
			p, e := tx.CreateBucket([]byte("p"))
			if e != nil {
				return e
			}
			for i := 0; i < nk; i++ {
				if cr.chance(3, 4) {
					if e := p.Put(key(i), val(vmax)); e != nil {
						return e
					}
				}
			}
			for _, i := range cpos {
				cb, e := p.CreateBucketIfNotExists(cname(i))
				if e != nil {
					return e
				}
				fillChild(cb, cr.chance(1, 2))
				if cr.chance(1, 2) {
					_ = cb.SetSequence(cr.next() >> uint(8+cr.intn(50)))
				}
			}
			return nil
		})
		if err != nil {
			return err
		}
		// the observed transaction
		tx, err := db.Begin(true)
		if err != nil {
			return err
		}
		p := tx.Bucket([]byte("p"))
		p.FillPercent = float64(fill) / 100
		nedit := 1 + cr.intn(6)
		if tiny && cr.chance(1, 2) {
			nedit = 0 // only the parent's own keys change: no child bucket is opened
		}
		for n := 0; n < nedit; n++ {
			i := cpos[cr.intn(nc)]
			cb := p.Bucket(cname(i))
			if cb == nil {
				continue
			}
			cb.FillPercent = float64(fill) / 100
			switch cr.intn(5) {
			case 0: // grow (inline -> paged)
				fillChild(cb, true)
			case 1: // shrink: delete most keys (paged -> inline, emptied leaves)
				cur := cb.Cursor()
				var ks [][]byte
				for k, _ := cur.First(); k != nil; k, _ = cur.Next() {
					ks = append(ks, append([]byte{}, k...))
				}
				keep := cr.intn(4)
				for j, k := range ks {
					if j >= len(ks)-keep {
						break
					}
					_ = cb.Delete(k)
				}
			case 2: // a few edits
				fillChild(cb, false)
			case 3: // sequence only
				_, _ = cb.NextSequence()
			default: // scattered deletes
				for j := 0; j < 20; j++ {
					_ = cb.Delete([]byte(fmt.Sprintf("x%04d", cr.intn(400))))
				}
			}
		}
		if cr.chance(1, 3) { // a new child, created in this transaction
			if nb, e := p.CreateBucketIfNotExists(cname(nk + 2 + cr.intn(5))); e == nil {
				nb.FillPercent = float64(fill) / 100
				fillChild(nb, cr.chance(1, 3))
			}
		}
		if cr.chance(1, 2) || tiny { // edits of the parent's own keys
			for n := 0; n < 1+cr.intn(30); n++ {
				i := cr.intn(nk + 1)
				if cr.chance(1, 2) {
					_ = p.Delete(key(i))
				} else {
					_ = p.Put(key(i), val(vmax))
				}
			}
		}
		var sb strings.Builder
		renderTree(&sb, bolt.VerifDumpNodeTree(p))
		fmt.Fprintf(w, "case %d ps=%d fill=%d\npre %s\n", ci, ps, fill, sb.String())
		opened := bolt.VerifOpenedBuckets(p)
		names := make([]string, 0, len(opened))
		for n := range opened {
			names = append(names, n)
		}
		sort.Strings(names)
		byPtr := map[*bolt.Bucket]string{p: ""}
		for _, n := range names {
			cb := opened[n]
			byPtr[cb] = n
			t := bolt.VerifDumpNodeTree(cb)
			small := smallLeaf(t, ps)
			sb.Reset()
			vtokFull = small
			renderTree(&sb, t)
			vtokFull = false
			sm := 0
			if small {
				sm = 1
			}
			fmt.Fprintf(w, "child %s seq=%d small=%d %s\n", hexOrDash([]byte(n)), cb.Sequence(), sm, sb.String())
		}
		orders := map[string][]uint64{}
		var fl []string
		bolt.VerifRebalanceHook = func(bb *bolt.Bucket, pgid uint64) {
			if n, ok := byPtr[bb]; ok {
				orders[n] = append(orders[n], pgid)
			}
		}
		bolt.VerifHook = &bolt.VerifHooks{FL: func(_ *bolt.DB, op string, txid, a, bb, ret uint64) {
			switch op {
			case "free":
				fl = append(fl, fmt.Sprintf("F:%d:%d", a, bb))
			case "alloc":
				fl = append(fl, fmt.Sprintf("A:%d:%d", a, ret))
			}
		}}
		cerr, pan := safeCommit(tx)
		bolt.VerifRebalanceHook = nil
		bolt.VerifHook = nil
		if pan != "" {
			fmt.Fprintf(w, "panic %s\nend\n", pan)
			go db.Close() // the writer lock may still be held: do not wait for it
			continue
		}
		if cerr != nil {
			db.Close()
			return cerr
		}
		fmt.Fprintf(w, "order %s\n", csv(orders[""]))
		for _, n := range names {
			fmt.Fprintf(w, "corder %s %s\n", hexOrDash([]byte(n)), csv(orders[n]))
		}
		fmt.Fprintf(w, "fl %s\n", strings.Join(fl, " "))
		_ = db.View(func(rtx *bolt.Tx) error {
			rp := rtx.Bucket([]byte("p"))
			sb.Reset()
			renderTree(&sb, bolt.VerifDumpNodeTree(rp))
			fmt.Fprintf(w, "post %s\n", sb.String())
			for _, n := range names {
				cb := rp.Bucket([]byte(n))
				if cb == nil {
					continue
				}
				il := 0
				if cb.RootPage() == 0 {
					il = 1
				}
				sb.Reset()
				vtokFull = il == 1
				renderTree(&sb, bolt.VerifDumpNodeTree(cb))
				vtokFull = false
				fmt.Fprintf(w, "cpost %s inline=%d %s\n", hexOrDash([]byte(n)), il, sb.String())
			}
			return nil
		})
		db.Close()
		os.Remove(path)
		fmt.Fprintln(w, "end")
	}
	return nil
}
