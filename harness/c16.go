package main

import (
	"errors"
	"fmt"
	"os"
	"sort"
	"strings"
	"sync"
	"time"

	bolt "go.etcd.io/bbolt"
)

// c16: Batch. Callers run non-idempotent functions (each invocation bumps the caller's counter and records itself);
// scripts make invocations fail or panic. det=1: the batch fills in a known arrival order (the next caller is started
// only once the previous one is queued) and runs when full - the model replays it exactly. det=0: free-running callers
// with random batch sizes and delays. Trace:
//
//	case <id> n=<callers> size=<MaxBatchSize> delayms=<n> det=<0|1>
//	script <c> <default outcome> <o1,o2,...>         outcomes: ok | err | panic
//	o caller <c>
//	r <nil|err|panic|other> invs=<k:txid:outc;...> committed=<k,...> counter=<n>
func init() { cmds["c16"] = c16Main }

var errScripted = errors.New("scripted failure")

func c16Main(args []string) error {
	c := newCommon("c16")
	dir := c.fs.String("dir", "/dev/shm", "scratch dir")
	c.fs.Parse(args)
	w, done := openOut(c.out)
	defer done()
	r := &rng{s: c.seed}
	for id := 0; id < c.n; id++ {
		cr := r.fork()
		det := id%2 == 0
		n := 2 + cr.intn(7)
		if !det {
			n = 2 + cr.intn(31)
		}
		size := n
		delay := 10 * time.Second
		if !det {
			size = []int{0, 1, 2, n, 1000}[cr.intn(5)]
			delay = []time.Duration{0, time.Millisecond, 10 * time.Millisecond}[cr.intn(3)]
		}
		path := fmt.Sprintf("%s/c16_%d_%d.db", *dir, os.Getpid(), id)
		os.Remove(path)
		db, err := bolt.Open(path, 0600, &bolt.Options{NoSync: true})
		if err != nil {
			return err
		}
		db.MaxBatchSize = size
		db.MaxBatchDelay = delay
		fmt.Fprintf(w, "case %d n=%d size=%d delayms=%d det=%v\n", id, n, size, delay.Milliseconds(), det)
		// scripts
		type script struct {
			def  string
			outs []string
		}
		scripts := make([]script, n)
		for i := range scripts {
			s := script{def: "ok"}
			switch cr.intn(8) {
			case 0:
				s.outs = []string{"err"}
			case 1:
				s.outs = []string{"panic"}
			case 2:
				s.outs = []string{"ok", "err"}
			case 3:
				s.def = "err"
			case 4:
				s.def = "panic"
			case 5:
				s.outs = []string{"err", "err"}
			}
			scripts[i] = s
			fmt.Fprintf(w, "script %d %s %s\n", i, s.def, strings.Join(append([]string{"-"}, s.outs...), ","))
		}
		_ = db.Update(func(tx *bolt.Tx) error { _, e := tx.CreateBucket([]byte("b")); return e })
		type inv struct {
			k    int
			txid int
			out  string
		}
		var mu sync.Mutex
		invs := make([][]inv, n)
		results := make([]string, n)
		var wg sync.WaitGroup
		for i := 0; i < n; i++ {
			i := i
			wg.Add(1)
			go func() {
				defer wg.Done()
				defer func() {
					if p := recover(); p != nil {
						results[i] = "panic"
					}
				}()
				err := db.Batch(func(tx *bolt.Tx) error {
					mu.Lock()
					k := len(invs[i]) + 1
					out := scripts[i].def
					if k <= len(scripts[i].outs) {
						out = scripts[i].outs[k-1]
					}
					invs[i] = append(invs[i], inv{k, tx.ID(), out})
					mu.Unlock()
					b := tx.Bucket([]byte("b"))
					// non-idempotent effect: bump the caller's counter, record the invocation
					cur := 0
					if v := b.Get([]byte(fmt.Sprintf("cnt/%03d", i))); v != nil {
						fmt.Sscanf(string(v), "%d", &cur)
					}
					_ = b.Put([]byte(fmt.Sprintf("cnt/%03d", i)), []byte(fmt.Sprint(cur+1)))
					_ = b.Put([]byte(fmt.Sprintf("inv/%03d/%03d", i, k)), []byte(fmt.Sprint(tx.ID())))
					switch out {
					case "err":
						return errScripted
					case "panic":
						panic("scripted panic")
					}
					return nil
				})
				switch {
				case err == nil:
					results[i] = "nil"
				case errors.Is(err, errScripted):
					results[i] = "err"
				case strings.Contains(err.Error(), "scripted panic"):
					results[i] = "panic"
				default:
					results[i] = "other:" + strings.ReplaceAll(err.Error(), " ", "_")
				}
			}()
			if det {
				// wait until this caller is queued (or the batch, now full, has been taken away)
				for t := 0; t < 20000; t++ {
					if l := bolt.VerifBatchLen(db); l == i+1 || (i == n-1 && l == 0) {
						break
					}
					time.Sleep(50 * time.Microsecond)
				}
			} else if cr.chance(1, 3) {
				time.Sleep(time.Duration(cr.intn(300)) * time.Microsecond)
			}
		}
		finished := make(chan struct{})
		go func() { wg.Wait(); close(finished) }()
		select {
		case <-finished:
		case <-time.After(30 * time.Second):
			fmt.Fprintf(w, "o hang\nr hang\nend\n")
			w.Flush()
			os.Exit(0)
		}
		committed := make([][]int, n)
		counters := make([]int, n)
		_ = db.View(func(tx *bolt.Tx) error {
			b := tx.Bucket([]byte("b"))
			return b.ForEach(func(k, v []byte) error {
				var ci, ki int
				if _, e := fmt.Sscanf(string(k), "inv/%03d/%03d", &ci, &ki); e == nil {
					committed[ci] = append(committed[ci], ki)
				} else if _, e := fmt.Sscanf(string(k), "cnt/%03d", &ci); e == nil {
					fmt.Sscanf(string(v), "%d", &counters[ci])
				}
				return nil
			})
		})
		for i := 0; i < n; i++ {
			var is []string
			for _, v := range invs[i] {
				is = append(is, fmt.Sprintf("%d:%d:%s", v.k, v.txid, v.out))
			}
			sort.Ints(committed[i])
			cs := make([]string, len(committed[i]))
			for j, k := range committed[i] {
				cs[j] = fmt.Sprint(k)
			}
			fmt.Fprintf(w, "o caller %d\nr %s invs=%s committed=%s counter=%d\n", i, results[i], strings.Join(append([]string{"-"}, is...), ";"), strings.Join(append([]string{"-"}, cs...), ","), counters[i])
		}
		fmt.Fprintln(w, "end")
		w.Flush()
		db.Close()
		os.Remove(path)
	}
	return nil
}
