package main

import (
	"crypto/md5"
	"encoding/hex"
	"fmt"
	"os"
	"strings"

	bolt "go.etcd.io/bbolt"
)

// tree: what Tx.Commit does to one bucket's node tree (node.rebalance + node.spill), observed on the real code:
//   case <id> ps=<n> fill=<percent>
//   pre <tree>          the bucket's tree right before Commit (pages and materialised nodes; VerifDumpNodeTree)
//   order <pgid,..>     the materialised nodes Bucket.rebalance visited, in order (verif hook)
//   fl <F:id:ov|A:n:id ...>  every freelist Free / Allocate of the commit, in order
//   post <tree>         the bucket's tree in a read transaction after the commit
//   end
// tree := N <mat> <unbal> <leaf> <pgid> <ov> <nodekeyhex|-> <count> { <keyhex> <flags> <vlen> <vtok> | <keyhex> <pgid> tree }
// No replay mode: the case is regenerated from the seed (map iteration order is observed, not chosen).

func init() { cmds["tree"] = treeMain }

var vtokFull = false // full hex instead of digests (small inline buckets, so that the model can rebuild the stored value)

func vtok(v []byte) string {
	if len(v) == 0 {
		return "-"
	}
	if len(v) <= 16 || vtokFull {
		return hex.EncodeToString(v)
	}
	h := md5.Sum(v)
	return "#" + hex.EncodeToString(h[:])
}

func renderTree(sb *strings.Builder, t *bolt.VerifNodeTree) {
	b := func(x bool) int {
		if x {
			return 1
		}
		return 0
	}
	fmt.Fprintf(sb, "N %d %d %d %d %d %s %d ", b(t.IsNode), b(t.Unbalanced), b(t.Leaf), t.Pgid, t.Overflow, hexOrDash(t.NodeKey), len(t.Inodes))
	for i, in := range t.Inodes {
		if t.Leaf {
			fmt.Fprintf(sb, "%s %d %d %s ", hex.EncodeToString(in.Key), in.Flags, len(in.Value), vtok(in.Value))
		} else {
			fmt.Fprintf(sb, "%s %d ", hex.EncodeToString(in.Key), in.Pgid)
			renderTree(sb, t.Kids[i])
		}
	}
}

// safeCommit: a panic inside Commit is an observation (the model predicts a successful commit), not the end of the harness
func safeCommit(tx *bolt.Tx) (err error, panicked string) {
	defer func() {
		if r := recover(); r != nil {
			panicked = strings.ReplaceAll(fmt.Sprint(r), " ", "_")
			if len(panicked) > 160 {
				panicked = panicked[:160]
			}
		}
	}()
	return tx.Commit(), ""
}

func treeMain(args []string) error {
	c := newCommon("tree")
	dir := c.fs.String("dir", "", "scratch dir")
	c.fs.Parse(args)
	w, done := openOut(c.out)
	defer done()
	if *dir == "" {
		d, _ := os.MkdirTemp("/dev/shm", "bbt")
		*dir = d
		defer os.RemoveAll(d)
	}
	g := &rng{s: c.seed}
	fills := []int{5, 10, 25, 50, 50, 50, 75, 100, 150}
	for ci := 0; ci < c.n; ci++ {
		cr := g.fork()
		ps := []int{1024, 1024, 4096}[cr.intn(3)]
		fill := fills[cr.intn(len(fills))]
		path := fmt.Sprintf("%s/t%d.db", *dir, ci)
		os.Remove(path)
		db, err := bolt.Open(path, 0600, &bolt.Options{PageSize: ps, NoSync: true})
		if err != nil {
			return err
		}
		// key universe
		nk := 20 + cr.intn(500)
		if cr.chance(1, 6) {
			nk = 3 + cr.intn(12)
		}
		klen := 3 + cr.intn(30)
		keys := make([][]byte, nk)
		for i := range keys {
			k := []byte(fmt.Sprintf("%0*d", klen, i*7))
			keys[i] = k
		}
		vmax := ps / (3 + cr.intn(30))
		val := func() []byte {
			n := cr.intn(vmax + 1)
			if cr.chance(1, 60) {
				n = ps + cr.intn(2*ps)
			}
			v := make([]byte, n)
			for i := range v {
				v[i] = byte(cr.intn(256))
			}
			return v
		}
		// populate over 1-3 commits (default and non-default fill)
		live := map[int]bool{}
		rounds := 1 + cr.intn(3)
		for rd := 0; rd < rounds; rd++ {
			err = db.Update(func(tx *bolt.Tx) error {
				b, e := tx.CreateBucketIfNotExists([]byte("b"))
				if e != nil {
					return e
				}
				if rd > 0 && cr.chance(1, 2) {
					b.FillPercent = float64(fills[cr.intn(len(fills))]) / 100
				}
				for i := 0; i < nk; i++ {
					if cr.chance(2, 3) {
						if e := b.Put(keys[i], val()); e != nil {
							return e
						}
						live[i] = true
					}
				}
				return nil
			})
			if err != nil {
				return err
			}
		}
		// the observed transaction
		tx, err := db.Begin(true)
		if err != nil {
			return err
		}
		b := tx.Bucket([]byte("b"))
		b.FillPercent = float64(fill) / 100
		seq := b.Sequence()
		if cr.chance(1, 2) {
			seq = cr.next() >> uint(cr.intn(60))
			_ = b.SetSequence(seq)
		}
		switch cr.intn(6) {
		case 5: // bulk growth with fresh keys between and behind the old ones: root splits, new levels
			for n := 0; n < 50+cr.intn(600); n++ {
				k := []byte(fmt.Sprintf("%0*d", klen, cr.intn(nk*7+300)))
				_ = b.Put(k, val())
			}
		case 0: // delete runs that empty whole leaves
			for r := 0; r < 1+cr.intn(4); r++ {
				lo := cr.intn(nk)
				hi := lo + 1 + cr.intn(nk/2+1)
				for i := lo; i < hi && i < nk; i++ {
					_ = b.Delete(keys[i])
					delete(live, i)
				}
			}
		case 1: // delete (almost) everything
			keep := cr.intn(4)
			for i := 0; i < nk; i++ {
				if len(live) <= keep {
					break
				}
				_ = b.Delete(keys[i])
				delete(live, i)
			}
		case 2: // scattered deletes and puts
			for n := 0; n < 5+cr.intn(nk); n++ {
				i := cr.intn(nk)
				if cr.chance(1, 2) {
					_ = b.Delete(keys[i])
					delete(live, i)
				} else {
					_ = b.Put(keys[i], val())
					live[i] = true
				}
			}
		case 3: // growth only: splits, new roots
			for n := 0; n < 5+cr.intn(2*nk); n++ {
				i := cr.intn(nk)
				_ = b.Put(keys[i], val())
				live[i] = true
			}
		default: // thinning: every other key of a range
			lo := cr.intn(nk)
			for i := lo; i < nk; i += 1 + cr.intn(2) {
				_ = b.Delete(keys[i])
				delete(live, i)
			}
			for n := 0; n < cr.intn(10); n++ {
				i := cr.intn(nk)
				_ = b.Put(keys[i], val())
				live[i] = true
			}
		}
		var sb strings.Builder
		renderTree(&sb, bolt.VerifDumpNodeTree(b))
		pre := sb.String()
		var order []uint64
		var fl []string
		bolt.VerifRebalanceHook = func(bb *bolt.Bucket, pgid uint64) {
			if bb == b {
				order = append(order, pgid)
			}
		}
		bolt.VerifHook = &bolt.VerifHooks{FL: func(_ *bolt.DB, op string, txid, a, bb, ret uint64) {
			switch op {
			case "free":
				fl = append(fl, fmt.Sprintf("F:%d:%d", a, bb))
			case "alloc":
				fl = append(fl, fmt.Sprintf("A:%d:%d", a, ret))
			}
		}}
		cerr, pan := safeCommit(tx)
		bolt.VerifRebalanceHook = nil
		bolt.VerifHook = nil
		if pan != "" {
			fmt.Fprintf(w, "case %d ps=%d fill=%d inline=0 seq=%d\npre %s\norder %s\nfl %s\npanic %s\nend\n", ci, ps, fill, seq, pre, csv(order), strings.Join(fl, " "), pan)
			go db.Close() // the writer lock may still be held: do not wait for it
			continue
		}
		if cerr != nil {
			db.Close()
			return cerr
		}
		sb.Reset()
		inline := false
		bval := ""
		_ = db.View(func(rtx *bolt.Tx) error {
			rb := rtx.Bucket([]byte("b"))
			if rb.RootPage() == 0 {
				inline = true
			}
			vtokFull = inline
			renderTree(&sb, bolt.VerifDumpNodeTree(rb))
			vtokFull = false
			// the value the parent (root bucket) stores for "b": bucket header (+ the inline page)
			if root := rtx.Cursor().Bucket(); root != nil {
				var find func(t *bolt.VerifNodeTree)
				find = func(t *bolt.VerifNodeTree) {
					for i, in := range t.Inodes {
						if t.Leaf {
							if string(in.Key) == "b" && in.Flags&1 != 0 {
								bval = hex.EncodeToString(in.Value)
							}
						} else {
							find(t.Kids[i])
						}
					}
				}
				find(bolt.VerifDumpNodeTree(root))
			}
			return nil
		})
		db.Close()
		os.Remove(path)
		il := 0
		if inline {
			il = 1
		}
		fmt.Fprintf(w, "case %d ps=%d fill=%d inline=%d seq=%d\npre %s\norder %s\nfl %s\npost %s\nbval %s\nend\n", ci, ps, fill, il, seq, pre, csv(order), strings.Join(fl, " "), sb.String(), bval)
	}
	return nil
}
