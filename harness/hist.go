package main

// History engine: a textual op language over the public API, a runner that executes it against the real
// bbolt and records every result, a model-guided generator, and a parser (for replays).
//
//   open ps=<n> fl=<array|hashmap> nfs=<0|1> ngs=<0|1> imm=<n> ro=<0|1> max=<n>
//   close | beginw | commit | rollback | beginr <id> | endr <id>
//   x <w|r<id>> <api> <path> [args]     path: '-' (root) or hex names joined by '/'
//   dump <w|r<id>> | stale <api> [args] | check <w|r<id>> | img
//
// Result lines start with "r ".

import (
	"bufio"
	"bytes"
	"crypto/md5"
	"encoding/hex"
	stderrors "errors"
	"fmt"
	"io"
	"os"
	"runtime/debug"
	"sort"
	"strconv"
	"strings"
	"sync"
	"syscall"
	"time"

	bolt "go.etcd.io/bbolt"
	"go.etcd.io/bbolt/cmd/bbolt/command"
	berrors "go.etcd.io/bbolt/errors"
)

// ---- values: hex, or @len:seed (deterministic pattern) so that traces stay small ----

func expandVal(tok string) []byte {
	if tok == "-" {
		return []byte{}
	}
	if strings.HasPrefix(tok, "@") {
		var n, seed int
		fmt.Sscanf(tok, "@%d:%d", &n, &seed)
		b := make([]byte, n)
		for i := range b {
			b[i] = byte((i*7 + seed) & 0xff)
		}
		return b
	}
	b, err := hex.DecodeString(tok)
	if err != nil {
		panic("bad hex " + tok)
	}
	return b
}

func hexOrDash(b []byte) string {
	if len(b) == 0 {
		return "-"
	}
	return hex.EncodeToString(b)
}

// short rendering of a value in results: hex if small, else #len:md5
func showVal(b []byte) string {
	if b == nil {
		return "nil"
	}
	if len(b) <= 48 {
		return "v" + hex.EncodeToString(b)
	}
	s := md5.Sum(b)
	return fmt.Sprintf("#%d:%s", len(b), hex.EncodeToString(s[:]))
}

func errName(err error) string {
	switch {
	case err == nil:
		return "ok"
	case stderrors.Is(err, berrors.ErrTxClosed):
		return "ETxClosed"
	case stderrors.Is(err, berrors.ErrTxNotWritable):
		return "ETxNotWritable"
	case stderrors.Is(err, berrors.ErrBucketNameRequired):
		return "EBucketNameRequired"
	case stderrors.Is(err, berrors.ErrBucketExists):
		return "EBucketExists"
	case stderrors.Is(err, berrors.ErrBucketNotFound):
		return "EBucketNotFound"
	case stderrors.Is(err, berrors.ErrIncompatibleValue):
		return "EIncompatibleValue"
	case stderrors.Is(err, berrors.ErrKeyRequired):
		return "EKeyRequired"
	case stderrors.Is(err, berrors.ErrKeyTooLarge):
		return "EKeyTooLarge"
	case stderrors.Is(err, berrors.ErrValueTooLarge):
		return "EValueTooLarge"
	case stderrors.Is(err, berrors.ErrSameBuckets):
		return "ESameBuckets"
	case stderrors.Is(err, berrors.ErrDifferentDB):
		return "EDifferentDB"
	case stderrors.Is(err, berrors.ErrDatabaseReadOnly):
		return "EDatabaseReadOnly"
	case stderrors.Is(err, berrors.ErrDatabaseNotOpen):
		return "EDatabaseNotOpen"
	case stderrors.Is(err, berrors.ErrMaxSizeReached):
		return "EMaxSizeReached"
	case stderrors.Is(err, berrors.ErrTimeout):
		return "ETimeout"
	case stderrors.Is(err, berrors.ErrInvalidMapping):
		return "EInvalidMapping"
	case stderrors.Is(err, berrors.ErrInvalid):
		return "EInvalid"
	case stderrors.Is(err, berrors.ErrVersionMismatch):
		return "EVersionMismatch"
	case stderrors.Is(err, berrors.ErrChecksum):
		return "EChecksum"
	case stderrors.Is(err, errInjected):
		return "EInjected"
	case strings.Contains(err.Error(), errInjected.Error()):
		return "EInjected"
	}
	return "EOther:" + strings.ReplaceAll(err.Error(), " ", "_")
}

var errInjected = stderrors.New("verif-injected-fault")

// ---- runner ----

type openOpts struct {
	ps, imm, max int
	fl           string
	nfs, ngs, ro bool
	nosync       bool
	pre, strict  bool
	ml           bool // Options.Mlock
	asz          int
}

func (o openOpts) String() string {
	b := func(x bool) int {
		if x {
			return 1
		}
		return 0
	}
	s := fmt.Sprintf("ps=%d fl=%s nfs=%d ngs=%d imm=%d ro=%d max=%d", o.ps, o.fl, b(o.nfs), b(o.ngs), o.imm, b(o.ro), o.max)
	if o.pre {
		s += " pre=1"
	}
	if o.strict {
		s += " strict=1"
	}
	if o.ml {
		s += " ml=1"
	}
	if o.asz != 0 {
		s += fmt.Sprintf(" asz=%d", o.asz)
	}
	return s
}

func parseOpen(fields []string) openOpts {
	o := openOpts{ps: 4096, fl: "array"}
	for _, f := range fields {
		kv := strings.SplitN(f, "=", 2)
		if len(kv) != 2 {
			continue
		}
		n, _ := strconv.Atoi(kv[1])
		switch kv[0] {
		case "ps":
			o.ps = n
		case "fl":
			o.fl = kv[1]
		case "nfs":
			o.nfs = n != 0
		case "ngs":
			o.ngs = n != 0
		case "imm":
			o.imm = n
		case "ro":
			o.ro = n != 0
		case "max":
			o.max = n
		case "pre":
			o.pre = n != 0
		case "strict":
			o.strict = n != 0
		case "ml":
			o.ml = n != 0
		case "asz":
			o.asz = n
		}
	}
	return o
}

func (o openOpts) boltOptions() *bolt.Options {
	ft := bolt.FreelistArrayType
	if o.fl == "hashmap" {
		ft = bolt.FreelistMapType
	}
	return &bolt.Options{PageSize: o.ps, FreelistType: ft, NoFreelistSync: o.nfs, NoGrowSync: o.ngs,
		InitialMmapSize: o.imm, ReadOnly: o.ro, MaxSize: o.max, Timeout: 2 * time.Second, PreLoadFreelist: o.pre, Mlock: o.ml}
}

type runner struct {
	w        *lockedWriter
	dir      string // scratch dir for the db file and images
	path     string
	db       *bolt.DB
	wtx      *bolt.Tx
	rtx      map[int]*bolt.Tx
	stale    *bolt.Bucket // a bucket handle of the last finished write tx
	imgN     int
	imgMode  string // "none", "commit"
	ioLog    bool
	caseID   int
	opts     openOpts
	ioN      int
	failAt   int    // inject errInjected at this I/O call index of the current commit (-1 none)
	failHit  string // what was failed
	ioCount  int
	ps       int
	poisoned bool
	onIO     func(kind string, off int64, data []byte)
}

// lockedWriter makes every trace line atomic: a commit running in its own goroutine logs I/O events while the main
// goroutine may close readers (whose freelist events are logged too).
type lockedWriter struct {
	mu sync.Mutex
	bw *bufio.Writer
}

func (l *lockedWriter) Write(p []byte) (int, error) {
	l.mu.Lock()
	defer l.mu.Unlock()
	return l.bw.Write(p)
}
func (l *lockedWriter) Flush() error {
	l.mu.Lock()
	defer l.mu.Unlock()
	return l.bw.Flush()
}

func newRunner(w *bufio.Writer, dir string, caseID int) *runner {
	return &runner{w: &lockedWriter{bw: w}, dir: dir, path: fmt.Sprintf("%s/c%d.db", dir, caseID), rtx: map[int]*bolt.Tx{}, caseID: caseID, imgMode: "none", failAt: -1}
}

func (r *runner) res(format string, a ...interface{}) {
	fmt.Fprintf(r.w, "r "+format+"\n", a...)
}

func (r *runner) tx(ref string) *bolt.Tx {
	if ref == "w" {
		return r.wtx
	}
	id, _ := strconv.Atoi(ref[1:])
	return r.rtx[id]
}

func parsePath(p string) [][]byte {
	if p == "-" {
		return nil
	}
	var out [][]byte
	for _, s := range strings.Split(p, "/") {
		b, _ := hex.DecodeString(s)
		out = append(out, b)
	}
	return out
}

func resolve(tx *bolt.Tx, path [][]byte) *bolt.Bucket {
	if len(path) == 0 {
		return nil
	}
	b := tx.Bucket(path[0])
	for _, n := range path[1:] {
		if b == nil {
			return nil
		}
		b = b.Bucket(n)
	}
	return b
}

// dumpBucket renders a bucket canonically: key '=' value ';' or key '{' seq ':' ... '}'.
func dumpBucket(sb *bytes.Buffer, b *bolt.Bucket) {
	fmt.Fprintf(sb, "%d:", b.Sequence())
	_ = b.ForEach(func(k, v []byte) error {
		if v == nil {
			sb.WriteString(hex.EncodeToString(k))
			sb.WriteByte('{')
			dumpBucket(sb, b.Bucket(k))
			sb.WriteByte('}')
		} else {
			sb.WriteString(hex.EncodeToString(k))
			sb.WriteByte('=')
			sb.WriteString(showVal(v))
			sb.WriteByte(';')
		}
		return nil
	})
}

func dumpTx(tx *bolt.Tx) string {
	var sb bytes.Buffer
	_ = tx.ForEach(func(name []byte, b *bolt.Bucket) error {
		sb.WriteString(hex.EncodeToString(name))
		sb.WriteByte('{')
		dumpBucket(&sb, b)
		sb.WriteByte('}')
		return nil
	})
	return sb.String()
}

func digestOrText(s string) string {
	if len(s) <= 400 {
		if s == "" {
			return "t:"
		}
		return "t:" + s
	}
	h := md5.Sum([]byte(s))
	return fmt.Sprintf("d:%d:%s", len(s), hex.EncodeToString(h[:]))
}

// exec runs one line of the op language. Returns false when the case cannot continue (panic).
func (r *runner) exec(line string) (cont bool) {
	fmt.Fprintln(r.w, "o "+line)
	defer func() {
		if p := recover(); p != nil {
			r.res("panic %s", strings.ReplaceAll(fmt.Sprint(p), " ", "_"))
			r.poisoned = true // locks may still be held: the database is abandoned, not closed
			cont = false
		}
	}()
	f := strings.Fields(line)
	switch f[0] {
	case "open":
		r.opts = parseOpen(f[1:])
		r.installHooks()
		db, err := bolt.Open(r.path, 0600, r.opts.boltOptions())
		if err != nil {
			r.res("%s", errName(err))
			return true
		}
		r.db = db
		db.StrictMode = r.opts.strict
		if r.opts.asz != 0 {
			db.AllocSize = r.opts.asz
		}
		r.ps = db.Info().PageSize
		fmt.Fprintf(r.w, "ps %d\n", r.ps) // the file's actual page size (a reopen may have asked for another one)
		r.res("ok")
		r.info("open")
	case "close":
		if r.db == nil {
			r.res("nodb")
			return true
		}
		for id, t := range r.rtx {
			_ = t.Rollback()
			delete(r.rtx, id)
		}
		if r.wtx != nil {
			_ = r.wtx.Rollback()
			r.wtx = nil
		}
		err := r.db.Close()
		r.db = nil
		r.res("%s", errName(err))
	case "beginw":
		if r.db == nil {
			r.res("nodb")
			return true
		}
		tx, err := r.db.Begin(true)
		if err != nil {
			r.res("%s", errName(err))
			return true
		}
		r.wtx = tx
		r.res("ok %d", tx.ID())
		r.info("beginw")
	case "beginr":
		if r.db == nil {
			r.res("nodb")
			return true
		}
		id, _ := strconv.Atoi(f[1])
		tx, err := r.db.Begin(false)
		if err != nil {
			r.res("%s", errName(err))
			return true
		}
		r.rtx[id] = tx
		r.res("ok %d", tx.ID())
	case "endr":
		id, _ := strconv.Atoi(f[1])
		if t := r.rtx[id]; t != nil {
			err := t.Rollback()
			delete(r.rtx, id)
			r.res("%s", errName(err))
		} else {
			r.res("notx")
		}
	case "commit", "commitfail":
		r.failAt = -1
		if f[0] == "commitfail" {
			r.failAt, _ = strconv.Atoi(f[1])
			r.failHit = ""
			defer func() { r.failAt = -1 }()
		}
		if r.wtx == nil {
			r.res("notx")
			return true
		}
		if b := firstBucket(r.wtx); b != nil {
			r.stale = b
		}
		r.ioCount = 0
		tx := r.wtx
		r.wtx = nil
		if len(r.rtx) == 0 {
			err := tx.Commit()
			if f[0] == "commitfail" {
				r.res("%s failed=%s ios=%d", errName(err), r.failHit, r.ioCount)
			} else {
				r.res("%s", errName(err))
			}
			r.info("commit")
			return true
		}
		defer r.info("commit")
		// Readers are open: a commit that must remap blocks until they close (documented). Run it in its own
		// goroutine; if it does not finish, close readers (youngest first) until it does and report which.
		done := make(chan error, 1)
		go func() {
			defer func() {
				if p := recover(); p != nil {
					done <- fmt.Errorf("panic: %v", p)
				}
			}()
			done <- tx.Commit()
		}()
		var closed []string
		for {
			select {
			case err := <-done:
				if err != nil && strings.HasPrefix(err.Error(), "panic: ") {
					// the commit panicked in its goroutine: locks may still be held, the database is abandoned
					r.res("panic %s", strings.ReplaceAll(err.Error()[7:], " ", "_"))
					r.poisoned = true
					return false
				}
				extra := ""
				if f[0] == "commitfail" {
					extra = fmt.Sprintf(" failed=%s ios=%d", r.failHit, r.ioCount)
				}
				if len(closed) > 0 {
					r.res("%s%s blocked-closed=%s", errName(err), extra, strings.Join(closed, ","))
				} else {
					r.res("%s%s", errName(err), extra)
				}
				return true
			case <-time.After(250 * time.Millisecond):
				if len(r.rtx) == 0 {
					select {
					case err := <-done:
						r.res("%s blocked-closed=%s", errName(err), strings.Join(closed, ","))
					case <-time.After(20 * time.Second):
						r.res("hang")
						return false
					}
					return true
				}
				ids := make([]int, 0, len(r.rtx))
				for id := range r.rtx {
					ids = append(ids, id)
				}
				sort.Ints(ids)
				id := ids[len(ids)-1]
				_ = r.rtx[id].Rollback()
				delete(r.rtx, id)
				closed = append(closed, strconv.Itoa(id))
			}
		}
	case "rollback":
		if r.wtx == nil {
			r.res("notx")
			return true
		}
		if b := firstBucket(r.wtx); b != nil {
			r.stale = b
		}
		err := r.wtx.Rollback()
		r.wtx = nil
		r.res("%s", errName(err))
		r.info("rollback")
	case "dump":
		tx := r.tx(f[1])
		if tx == nil {
			r.res("notx")
			return true
		}
		r.res("ok %s", digestOrText(dumpTx(tx)))
	case "check":
		tx := r.tx(f[1])
		if tx == nil {
			r.res("notx")
			return true
		}
		n := 0
		first := ""
		for e := range tx.Check() {
			if n == 0 {
				first = strings.ReplaceAll(e.Error(), " ", "_")
			}
			n++
		}
		r.res("ok %d %s", n, first)
	case "backup", "backupfile":
		// hot backup through a read transaction; with "backup" further write transactions are committed on the same DB
		// between the chunks the copy writes (deterministic concurrent writers at every point of the copy)
		tx := r.tx(f[1])
		if tx == nil {
			r.res("notx")
			return true
		}
		dst := fmt.Sprintf("%s/c%d.bak%d", r.dir, r.caseID, r.imgN)
		r.imgN++
		os.Remove(dst)
		var n int64
		var err error
		size := tx.Size()
		// optional last token: "wf" = copy with Tx.WriteFlag set (the file is re-opened by path), "wfswap" = additionally the
		// path has meanwhile been re-pointed to a different database file (rename over the live file)
		bmode := f[len(f)-1]
		if strings.HasPrefix(bmode, "wf") {
			tx.WriteFlag = syscall.O_SYNC
			defer func() { tx.WriteFlag = 0 }()
		}
		if bmode == "wfswap" {
			orig := r.path + ".orig"
			if os.Rename(r.path, orig) == nil {
				if decoy, e := bolt.Open(r.path, 0600, &bolt.Options{PageSize: r.ps}); e == nil {
					_ = decoy.Update(func(dtx *bolt.Tx) error {
						b, _ := dtx.CreateBucketIfNotExists([]byte("decoy"))
						for i := 0; i < 300; i++ {
							_ = b.Put([]byte(fmt.Sprintf("decoy%04d", i)), bytes.Repeat([]byte{0xdc}, 200))
						}
						return nil
					})
					decoy.Close()
				}
				restore := func() { _ = os.Rename(orig, r.path) }
				defer restore()
			}
		}
		if f[0] == "backupfile" {
			if r.imgN%2 == 0 {
				// the destination already exists and is larger than the snapshot (a backup job reusing one file name)
				_ = os.WriteFile(dst, bytes.Repeat([]byte{0xee}, int(size)+3*r.ps+777), 0600)
			}
			err = tx.CopyFile(dst, 0600)
			if st, e := os.Stat(dst); e == nil {
				n = st.Size()
			}
		} else {
			k, _ := strconv.Atoi(f[2])
			out, _ := os.Create(dst)
			iw := &interleaveWriter{r: r, left: k, out: out}
			n, err = tx.WriteTo(iw)
			out.Close()
		}
		fmt.Fprintf(r.w, "o backupdone %s\n", f[1])
		if err != nil {
			r.res("%s", errName(err))
			return true
		}
		// what the copy holds, seen through a fresh Open of it
		d, chk := dumpFile(dst)
		ps := r.ps
		r.res("ok n=%d size=%d dump=%s check=%d img=%s ps=%d", n, size, d, chk, dst, ps)
	case "surg":
		// repair commands of the command-line tool, run in process on the file as it is now (at rest); every command
		// writes only its --output file
		if r.wtx != nil {
			r.res("busy")
			return true
		}
		shaBefore := fileSHA(r.path)
		out1 := fmt.Sprintf("%s/c%d.surg%d", r.dir, r.caseID, r.imgN)
		r.imgN++
		os.Remove(out1)
		runCLI := func(args ...string) error {
			// the commands print to os.Stdout directly
			saved := os.Stdout
			if dn, e := os.OpenFile(os.DevNull, os.O_WRONLY, 0); e == nil {
				os.Stdout = dn
				defer func() { os.Stdout = saved; dn.Close() }()
			}
			root := command.NewRootCommand()
			root.SetArgs(args)
			var sink bytes.Buffer
			root.SetOut(&sink)
			root.SetErr(&sink)
			return root.Execute()
		}
		var err error
		final := out1
		if strings.HasPrefix(f[1], "alias:") {
			// the --output names the source itself (same path, a symbolic link or a hard link to it): the command must not
			// touch the source; alias:<how>:<command>
			parts := strings.Split(f[1], ":")
			saved, _ := os.ReadFile(r.path)
			outp := r.path
			switch parts[1] {
			case "symlink":
				_ = os.Symlink(r.path, out1)
				outp = out1
			case "hardlink":
				_ = os.Link(r.path, out1)
				outp = out1
			}
			args := map[string][]string{"abandon": {"surgery", "freelist", "abandon"}, "rebuild": {"surgery", "freelist", "rebuild"},
				"revert": {"surgery", "revert-meta-page"}}[parts[2]]
			err = runCLI(append(append([]string{}, args...), r.path, "--output", outp)...)
			same := fileSHA(r.path) == shaBefore
			if !same {
				_ = os.WriteFile(r.path, saved, 0600) // put the source back so that the history can go on
			}
			if outp != r.path {
				os.Remove(outp)
			}
			res := "refused"
			if err == nil {
				res = "accepted"
			}
			r.res("alias %s src=%v", res, same)
			return true
		}
		switch f[1] {
		case "abandon":
			err = runCLI("surgery", "freelist", "abandon", r.path, "--output", out1)
		case "rebuild":
			err = runCLI("surgery", "freelist", "rebuild", r.path, "--output", out1)
		case "abandon+rebuild":
			err = runCLI("surgery", "freelist", "abandon", r.path, "--output", out1)
			if err == nil {
				final = out1 + ".r"
				os.Remove(final)
				err = runCLI("surgery", "freelist", "rebuild", out1, "--output", final)
			}
		case "revert":
			err = runCLI("surgery", "revert-meta-page", r.path, "--output", out1)
		default:
			panic("bad surgery " + f[1])
		}
		if err != nil {
			r.res("err:%s src=%v", strings.ReplaceAll(err.Error(), " ", "_"), fileSHA(r.path) == shaBefore)
			return true
		}
		// the decoder sees the output BEFORE any Open touches it (a read-write Open of an abandoned file rebuilds it)
		img := final + ".img"
		b, _ := os.ReadFile(final)
		_ = os.WriteFile(img, b, 0600)
		d, chk := dumpFile(final)
		r.res("ok dump=%s check=%d img=%s ps=%d src=%v", d, chk, img, r.ps, fileSHA(r.path) == shaBefore)
	case "bstats":
		tx := r.tx(f[1])
		if tx == nil {
			r.res("notx")
			return true
		}
		// statistics of the root bucket aggregate every nested bucket: all tree pages of the database
		st := tx.Cursor().Bucket().Stats()
		r.res("ok branch=%d branchov=%d leaf=%d leafov=%d keyn=%d buckets=%d inline=%d", st.BranchPageN, st.BranchOverflowN, st.LeafPageN, st.LeafOverflowN, st.KeyN, st.BucketN, st.InlineBucketN)
	case "img":
		r.image()
	case "stale":
		r.execStale(f[1:])
	case "x":
		tx := r.tx(f[1])
		if tx == nil {
			r.res("notx")
			return true
		}
		r.execAPI(tx, f[2], f[3], f[4:])
	default:
		panic("bad op: " + line)
	}
	return true
}

// installHooks makes every I/O call and freelist operation of the DB visible in the trace ("io"/"fl" lines).
func (r *runner) installHooks() {
	if !r.ioLog {
		bolt.VerifHook = nil
		return
	}
	bolt.VerifHook = &bolt.VerifHooks{
		IO: func(db *bolt.DB, kind string, off int64, data []byte) error {
			r.ioCount++
			if r.failAt >= 0 && r.ioCount-1 == r.failAt {
				r.failHit = kind
				fmt.Fprintf(r.w, "io %s %d %d FAIL\n", kind, off, len(data))
				return errInjected
			}
			fmt.Fprintf(r.w, "io %s %d %d\n", kind, off, len(data))
			if r.onIO != nil {
				r.onIO(kind, off, data)
			}
			return nil
		},
		FL: func(db *bolt.DB, op string, txid, a, b, ret uint64) {
			fmt.Fprintf(r.w, "fl %s %d %d %d %d\n", op, txid, a, b, ret)
		},
	}
}

// info emits an "i" line with the published statistics, the live freelist state and the file length.
func (r *runner) info(what string) {
	if (!r.ioLog && r.imgMode != "commit") || r.db == nil {
		return
	}
	st := r.db.Stats()
	_, dsz, fsz := bolt.VerifDBInfo(r.db)
	line := fmt.Sprintf("i %s free=%d pend=%d flen=%d datasz=%d", what, st.FreePageN, st.PendingPageN, fsz, dsz)
	if f := bolt.VerifDBFreelist(r.db); f != nil {
		fr, pend, _ := f.State()
		var ps []string
		tids := make([]uint64, 0, len(pend))
		for t := range pend {
			tids = append(tids, t)
		}
		sort.Slice(tids, func(i, j int) bool { return tids[i] < tids[j] })
		for _, t := range tids {
			ids := make([]uint64, 0)
			for _, pa := range pend[t] {
				ids = append(ids, pa[0])
			}
			sort.Slice(ids, func(i, j int) bool { return ids[i] < ids[j] })
			ps = append(ps, fmt.Sprintf("%d:%s", t, csv(ids)))
		}
		pj := strings.Join(ps, ";")
		if pj == "" {
			pj = "-"
		}
		line += fmt.Sprintf(" flloaded=1 flfree=%s flpend=%s", csv(fr), pj)
	} else {
		line += " flloaded=0"
	}
	fmt.Fprintln(r.w, line)
}

type interleaveWriter struct {
	r    *runner
	left int
	out  *os.File
	seq  int
}

func (iw *interleaveWriter) Write(p []byte) (int, error) {
	n, err := iw.out.Write(p)
	if iw.left > 0 && iw.r.wtx == nil {
		iw.left--
		iw.seq++
		for _, l := range []string{"beginw", "x w createif - 6b62", fmt.Sprintf("x w put 6b62 %x @%d:%d", fmt.Sprintf("i%04d", iw.seq), 50+iw.seq*37%3000, iw.seq),
			fmt.Sprintf("x w del 6b62 %x", fmt.Sprintf("i%04d", iw.seq-1)), "dump w", "commit"} {
			iw.r.exec(l)
		}
	}
	return n, err
}

func firstBucket(tx *bolt.Tx) *bolt.Bucket {
	var b *bolt.Bucket
	_ = tx.ForEach(func(name []byte, x *bolt.Bucket) error {
		b = x
		return stderrors.New("stop")
	})
	return b
}

func (r *runner) image() {
	// copy of the file bytes as they are now (page cache view = what a reopen would read)
	r.imgN++
	dst := fmt.Sprintf("%s/c%d.img%d", r.dir, r.caseID, r.imgN)
	src, err := os.Open(r.path)
	if err != nil {
		r.res("EOther:%v", err)
		return
	}
	defer src.Close()
	st, _ := src.Stat()
	flen := st.Size()
	// Only the pages below the larger of the two high-water marks are copied (the rest of a pre-grown file is
	// never referenced); the real file length is reported separately.
	ps := int64(r.opts.ps)
	if r.ps != 0 {
		ps = int64(r.ps)
	}
	want := flen
	hdr := make([]byte, 2*ps)
	if n, _ := src.ReadAt(hdr, 0); int64(n) == 2*ps {
		var mk uint64
		for s := int64(0); s < 2; s++ {
			o := s*ps + 16 + 40
			var v uint64
			for i := 7; i >= 0; i-- {
				v = v<<8 | uint64(hdr[o+int64(i)])
			}
			if v > mk && v < 1<<40 {
				mk = v
			}
		}
		if int64(mk)*ps < want {
			want = int64(mk) * ps
		}
	}
	out, _ := os.Create(dst)
	_, _ = io.Copy(out, io.NewSectionReader(src, 0, want))
	out.Close()
	r.res("ok %s %d %d", dst, flen, ps)
}

func (r *runner) execStale(f []string) {
	b := r.stale
	if b == nil {
		r.res("nostale")
		return
	}
	var err error
	switch f[0] {
	case "put":
		err = b.Put(expandVal(f[1]), expandVal(f[2]))
	case "del":
		err = b.Delete(expandVal(f[1]))
	case "create":
		_, err = b.CreateBucket(expandVal(f[1]))
	case "createif":
		_, err = b.CreateBucketIfNotExists(expandVal(f[1]))
	case "delb":
		err = b.DeleteBucket(expandVal(f[1]))
	case "setseq":
		err = b.SetSequence(1)
	case "nextseq":
		_, err = b.NextSequence()
	case "foreach":
		err = b.ForEach(func(k, v []byte) error { return nil })
	}
	r.res("%s", errName(err))
}

func (r *runner) execAPI(tx *bolt.Tx, api, pathS string, a []string) {
	path := parsePath(pathS)
	var b *bolt.Bucket
	if len(path) > 0 {
		b = resolve(tx, path)
		if b == nil {
			r.res("ENoBucket")
			return
		}
	}
	root := len(path) == 0
	switch api {
	case "create":
		var err error
		if root {
			_, err = tx.CreateBucket(expandVal(a[0]))
		} else {
			_, err = b.CreateBucket(expandVal(a[0]))
		}
		r.res("%s", errName(err))
	case "createif":
		var err error
		if root {
			_, err = tx.CreateBucketIfNotExists(expandVal(a[0]))
		} else {
			_, err = b.CreateBucketIfNotExists(expandVal(a[0]))
		}
		r.res("%s", errName(err))
	case "delb":
		var err error
		if root {
			err = tx.DeleteBucket(expandVal(a[0]))
		} else {
			err = b.DeleteBucket(expandVal(a[0]))
		}
		r.res("%s", errName(err))
	case "move":
		dpath := parsePath(a[1])
		var dst *bolt.Bucket
		if len(dpath) > 0 {
			dst = resolve(tx, dpath)
			if dst == nil {
				r.res("ENoBucket")
				return
			}
		}
		err := tx.MoveBucket(expandVal(a[0]), b, dst)
		r.res("%s", errName(err))
	case "put":
		r.res("%s", errName(b.Put(expandVal(a[0]), expandVal(a[1]))))
	case "get":
		v := b.Get(expandVal(a[0]))
		r.res("ok %s", showVal(v))
	case "del":
		r.res("%s", errName(b.Delete(expandVal(a[0]))))
	case "seq":
		r.res("ok %d", b.Sequence())
	case "setseq":
		n, _ := strconv.ParseUint(a[0], 10, 64)
		r.res("%s", errName(b.SetSequence(n)))
	case "nextseq":
		n, err := b.NextSequence()
		if err != nil {
			r.res("%s", errName(err))
		} else {
			r.res("ok %d", n)
		}
	case "keyn":
		var bs bolt.BucketStructure
		if root {
			bs = tx.Inspect()
		} else {
			bs = b.Inspect()
		}
		r.res("ok %d", bs.KeyN)
	case "list":
		var sb bytes.Buffer
		fe := func(k, v []byte) error {
			sb.WriteString(hex.EncodeToString(k))
			sb.WriteByte('=')
			sb.WriteString(showVal(v))
			sb.WriteByte(';')
			return nil
		}
		if root {
			_ = tx.ForEach(func(name []byte, _ *bolt.Bucket) error { return fe(name, nil) })
		} else {
			_ = b.ForEach(fe)
		}
		r.res("ok %s", digestOrText(sb.String()))
	default:
		panic("bad api " + api)
	}
}

func (r *runner) finish() {
	if r.poisoned {
		os.Remove(r.path)
		return
	}
	for _, t := range r.rtx {
		_ = t.Rollback()
	}
	if r.wtx != nil {
		_ = r.wtx.Rollback()
	}
	if r.db != nil {
		_ = r.db.Close()
	}
	os.Remove(r.path)
}

// runHistory executes the lines of one case.
func runHistory(w *bufio.Writer, dir string, caseID int, header string, lines []string, imgMode string) {
	fmt.Fprintf(w, "case %d %s\n", caseID, header)
	r := newRunner(w, dir, caseID)
	if strings.HasSuffix(imgMode, "+io") || imgMode == "+io" {
		r.ioLog = true
		imgMode = strings.TrimSuffix(imgMode, "+io")
	}
	r.imgMode = imgMode
	defer r.finish()
	skipImg := false
	for _, l := range lines {
		if l == "noimg-next" { // directive: no automatic image after the next commit (huge intermediate states)
			skipImg = true
			continue
		}
		if !r.execGuarded(l) {
			break
		}
		if imgMode == "commit" && (l == "commit" || strings.HasPrefix(l, "commitfail ") || strings.HasPrefix(l, "open ")) {
			if skipImg && l == "commit" {
				skipImg = false
				continue
			}
			r.exec("img")
		}
	}
	fmt.Fprintln(w, "end")
	w.Flush()
}

// execGuarded runs one op under a deadline, with memory faults turned into panics. A broken implementation may
// loop forever (a reader walking recycled pages) or fault: both are observations attributed to this op.
func (r *runner) execGuarded(l string) bool {
	done := make(chan bool, 1)
	go func() {
		debug.SetPanicOnFault(true)
		done <- r.exec(l)
	}()
	select {
	case ok := <-done:
		return ok
	case <-time.After(20 * time.Second):
		fmt.Fprintln(r.w, "r hang")
		fmt.Fprintln(r.w, "end")
		r.w.Flush()
		os.Exit(0) // the stuck goroutine spins forever; the trace records what happened
		return false
	}
}

// ---- shadow model used ONLY to guide generation (the judge is the Coq model) ----

type shNode struct {
	val  bool
	kids map[string]*shNode
}

func newSh() *shNode { return &shNode{kids: map[string]*shNode{}} }

func (n *shNode) clone() *shNode {
	c := &shNode{val: n.val}
	if n.kids != nil {
		c.kids = map[string]*shNode{}
		for k, v := range n.kids {
			c.kids[k] = v.clone()
		}
	}
	return c
}

func (n *shNode) at(path []string) *shNode {
	cur := n
	for _, p := range path {
		nx := cur.kids[p]
		if nx == nil || nx.val {
			return nil
		}
		cur = nx
	}
	return cur
}

func (n *shNode) sortedKeys(wantVal, wantBkt bool) []string {
	var ks []string
	for k, v := range n.kids {
		if (v.val && wantVal) || (!v.val && wantBkt) {
			ks = append(ks, k)
		}
	}
	sort.Strings(ks)
	return ks
}

// all bucket paths (excluding root) in deterministic order
func (n *shNode) bucketPaths(prefix []string, out *[][]string) {
	for _, k := range n.sortedKeys(false, true) {
		p := append(append([]string{}, prefix...), k)
		*out = append(*out, p)
		n.kids[k].bucketPaths(p, out)
	}
}

func pathStr(p []string) string {
	if len(p) == 0 {
		return "-"
	}
	hs := make([]string, len(p))
	for i, s := range p {
		hs[i] = hex.EncodeToString([]byte(s))
	}
	return strings.Join(hs, "/")
}

// genMoveScenario builds histories around MoveBucket's interaction with buckets opened, deleted or created in the same
// transaction (the places where a bucket's cached instance, its stored header and the free list must stay in step):
//
//	kind 0: delete a paged bucket nested two levels below a bucket, then move that bucket (only indirect changes below it)
//	kind 1: move a paged bucket into a bucket created in this transaction (or into a small inline one), then delete the destination
//	kind 2: change a nested bucket, move its parent, change the nested bucket again through the new path
func genMoveScenario(r *rng, o openOpts, kind int) []string {
	hx := func(s string) string { return hex.EncodeToString([]byte(s)) }
	big := func(path string, n int) []string {
		var L []string
		for i := 0; i < n; i++ {
			L = append(L, fmt.Sprintf("x w put %s %s @%d:%d", path, hx(fmt.Sprintf("k%03d", i)), o.ps/3+r.intn(o.ps/2), r.intn(256)))
		}
		return L
	}
	L := []string{"open " + o.String(), "beginw"}
	switch kind {
	case 0:
		a, c, g, x, d := hx("a"), hx("child"), hx("g"), hx("x"), hx("dst")
		L = append(L, "x w create - "+a, "x w create "+a+" "+c, "x w create "+a+"/"+c+" "+g, "x w create "+a+"/"+c+"/"+g+" "+x, "x w create - "+d)
		L = append(L, big(a+"/"+c+"/"+g+"/"+x, 6+r.intn(20))...)
		if r.chance(1, 2) {
			L = append(L, big(a+"/"+c+"/"+g, 3+r.intn(10))...)
		}
		if r.chance(1, 2) {
			L = append(L, fmt.Sprintf("x w put %s 6b %s", a+"/"+c, "@20:1"))
		}
		L = append(L, "dump w", "commit", "beginw")
		if r.chance(1, 3) {
			L = append(L, "x w get "+a+"/"+c+"/"+g+" "+hx("k000")) // opens the chain without changing anything
		}
		L = append(L, "x w delb "+a+"/"+c+"/"+g+" "+x, "x w move "+a+" "+c+" "+d, "dump w", "commit")
	case 1:
		q, nb := hx("q"), hx("nb")
		L = append(L, "x w create - "+q)
		L = append(L, big(q, 6+r.intn(20))...)
		inlineDst := r.chance(1, 2)
		if inlineDst {
			L = append(L, "x w create - "+nb, "x w put "+nb+" 6b 76") // a small bucket: stored inline in its parent
		}
		L = append(L, "dump w", "commit", "beginw")
		if !inlineDst {
			L = append(L, "x w create - "+nb)
		}
		L = append(L, "x w move - "+q+" "+nb)
		if r.chance(1, 2) {
			L = append(L, "x w get "+nb+"/"+q+" "+hx("k001"))
		}
		L = append(L, "x w delb - "+nb, "dump w", "commit")
	case 3:
		// a bucket that holds little besides a nested bucket which has pages of its own, edited WITHOUT opening the nested bucket
		// (no dump inside that transaction: a dump opens every bucket): it must not be written inline
		a, c := hx("a"), hx("child")
		L = append(L, "x w create - "+a, "x w create "+a+" "+c)
		L = append(L, big(a+"/"+c, 6+r.intn(20))...)
		if r.chance(1, 2) {
			L = append(L, "x w create "+a+" "+hx("tiny"), "x w put "+a+"/"+hx("tiny")+" 6b 76")
		}
		L = append(L, "dump w", "commit", "beginw", "x w put "+a+" "+hx("p1")+" @12:3")
		if r.chance(1, 2) {
			L = append(L, "x w put "+a+" "+hx("p2")+" @5:4", "x w del "+a+" "+hx("p1"))
		}
		L = append(L, "commit", "beginr 900", "dump r900", "check r900", "endr 900", "beginw", "x w get "+a+"/"+c+" "+hx("k001"), "x w put "+a+" "+hx("p3")+" 01", "dump w", "commit")
	default:
		a, c, g, d := hx("a"), hx("child"), hx("g"), hx("dst")
		L = append(L, "x w create - "+a, "x w create "+a+" "+c, "x w create "+a+"/"+c+" "+g, "x w create - "+d)
		L = append(L, big(a+"/"+c+"/"+g, 4+r.intn(12))...)
		L = append(L, "dump w", "commit", "beginw")
		L = append(L, "x w put "+a+"/"+c+"/"+g+" "+hx("new1")+" @30:7", "x w nextseq "+a+"/"+c+"/"+g, "x w move "+a+" "+c+" "+d,
			"x w put "+d+"/"+c+"/"+g+" "+hx("new2")+" @40:8", "x w del "+d+"/"+c+"/"+g+" "+hx("k000"), "x w list "+d+"/"+c+"/"+g, "dump w", "commit")
	}
	// one more ordinary transaction (page reuse), then the closing check
	L = append(L, "beginw", "x w createif - "+hx("z"))
	L = append(L, big(hx("z"), 3+r.intn(8))...)
	L = append(L, "dump w", "commit", "beginr 901", "dump r901", "check r901", "bstats r901", "endr 901", "close",
		"open "+o.String(), "beginr 902", "dump r902", "check r902", "endr 902", "close")
	return L
}

type genCfg struct {
	ps        int
	txs       int
	opsPerTx  int
	bigVals   bool
	readers   bool
	reopen    bool
	malformed bool
	moves     bool
	faults    bool // some commits fail at their first writes (physical rollback), without readers
	selfmoves bool // also move a bucket into its own subtree (D4's domain), ending the history
	backups   bool
	surgery   bool
}

// genHistory: model-guided generator. Existing buckets/keys are re-used with high probability; sizes approach
// structural thresholds (page fill, inline limit ps/4, overflow).
func genHistory(r *rng, cfg genCfg, o openOpts) []string {
	var L []string
	committed := newSh()
	L = append(L, "open "+o.String())
	readers := map[int]bool{}
	nextR := 1
	keyPool := func() string {
		switch r.intn(10) {
		case 0:
			return fmt.Sprintf("k%05d", r.intn(100000))
		case 1:
			return strings.Repeat("L", 1+r.intn(cfg.ps/8)) + fmt.Sprintf("%d", r.intn(50))
		default:
			return fmt.Sprintf("k%03d", r.intn(400))
		}
	}
	valTok := func() string {
		switch k := r.intn(100); {
		case k < 5:
			return "-"
		case k < 60:
			return fmt.Sprintf("@%d:%d", 1+r.intn(40), r.intn(256))
		case k < 85:
			return fmt.Sprintf("@%d:%d", cfg.ps/16+r.intn(cfg.ps/4), r.intn(256))
		case k < 95 || !cfg.bigVals:
			return fmt.Sprintf("@%d:%d", cfg.ps/2+r.intn(cfg.ps), r.intn(256))
		default:
			return fmt.Sprintf("@%d:%d", cfg.ps*(1+r.intn(4))+r.intn(cfg.ps), r.intn(256))
		}
	}
	bktName := func() string { return fmt.Sprintf("b%d", r.intn(6)) }
	mvN := 0
	for t := 0; t < cfg.txs; t++ {
		// reader events between transactions
		if cfg.readers {
			if r.chance(1, 3) && len(readers) < 3 {
				L = append(L, fmt.Sprintf("beginr %d", nextR), fmt.Sprintf("dump r%d", nextR))
				readers[nextR] = true
				nextR++
			}
			for id := range readers {
				if r.chance(1, 4) {
					L = append(L, fmt.Sprintf("dump r%d", id), fmt.Sprintf("endr %d", id))
					delete(readers, id)
				}
			}
		}
		work := committed.clone()
		L = append(L, "beginw")
		nops := 1 + r.intn(cfg.opsPerTx)
		// occasionally a burst that fills/empties leaves
		burst := r.chance(1, 6)
		if burst {
			nops = cfg.opsPerTx * 4
		}
		for i := 0; i < nops; i++ {
			var paths [][]string
			work.bucketPaths(nil, &paths)
			if len(paths) == 0 || r.chance(1, 12) {
				// create a bucket somewhere
				parent := []string{}
				if len(paths) > 0 && r.chance(2, 3) {
					parent = paths[r.intn(len(paths))]
				}
				if len(parent) >= 4 {
					parent = parent[:r.intn(4)]
				}
				name := bktName()
				api := "create"
				if r.chance(1, 3) {
					api = "createif"
				}
				L = append(L, fmt.Sprintf("x w %s %s %s", api, pathStr(parent), hex.EncodeToString([]byte(name))))
				pn := work.at(parent)
				if pn != nil && pn.kids[name] == nil {
					pn.kids[name] = newSh()
				}
				continue
			}
			p := paths[r.intn(len(paths))]
			bn := work.at(p)
			k := r.intn(100)
			if burst {
				if r.chance(1, 2) {
					k = 0
				} else {
					k = 50
				}
			}
			switch {
			case k < 40: // put (new or overwrite)
				key := keyPool()
				if ex := bn.sortedKeys(true, false); len(ex) > 0 && r.chance(1, 3) {
					key = ex[r.intn(len(ex))]
				}
				L = append(L, fmt.Sprintf("x w put %s %s %s", pathStr(p), hex.EncodeToString([]byte(key)), valTok()))
				if n := bn.kids[key]; n == nil {
					bn.kids[key] = &shNode{val: true}
				}
			case k < 62: // delete existing (runs empty whole leaves) or absent
				ex := bn.sortedKeys(true, false)
				if len(ex) > 0 && r.chance(9, 10) {
					key := ex[r.intn(len(ex))]
					L = append(L, fmt.Sprintf("x w del %s %s", pathStr(p), hex.EncodeToString([]byte(key))))
					delete(bn.kids, key)
				} else {
					L = append(L, fmt.Sprintf("x w del %s %s", pathStr(p), hex.EncodeToString([]byte(keyPool()))))
				}
			case k < 72: // get
				key := keyPool()
				if ex := bn.sortedKeys(true, true); len(ex) > 0 && r.chance(2, 3) {
					key = ex[r.intn(len(ex))]
				}
				L = append(L, fmt.Sprintf("x w get %s %s", pathStr(p), hex.EncodeToString([]byte(key))))
			case k < 78:
				L = append(L, fmt.Sprintf("x w nextseq %s", pathStr(p)))
			case k < 80:
				v := uint64(r.intn(1000))
				if r.chance(1, 5) {
					v = ^uint64(0) - uint64(r.intn(2))
				}
				L = append(L, fmt.Sprintf("x w setseq %s %d", pathStr(p), v))
			case k < 82:
				L = append(L, fmt.Sprintf("x w seq %s", pathStr(p)))
			case k < 86: // delete a nested bucket (or top-level)
				parent := p[:len(p)-1]
				L = append(L, fmt.Sprintf("x w delb %s %s", pathStr(parent), hex.EncodeToString([]byte(p[len(p)-1]))))
				delete(work.at(parent).kids, p[len(p)-1])
			case k < 88 && cfg.moves && r.chance(1, 3): // move between buckets created in this very transaction (root page id 0 on both sides)
				mvN++
				pn, cn := fmt.Sprintf("mv%d", mvN), fmt.Sprintf("c%d", r.intn(3))
				L = append(L, fmt.Sprintf("x w create - %s", hex.EncodeToString([]byte(pn))),
					fmt.Sprintf("x w create %s %s", pathStr([]string{pn}), hex.EncodeToString([]byte(cn))))
				work.kids[pn] = newSh()
				work.kids[pn].kids[cn] = newSh()
				if r.chance(1, 2) {
					L = append(L, fmt.Sprintf("x w put %s 6b31 %s", pathStr([]string{pn, cn}), valTok()))
					work.kids[pn].kids[cn].kids["k1"] = &shNode{val: true}
				}
				dst := p
				if r.chance(1, 2) {
					mvN++
					dn := fmt.Sprintf("mv%d", mvN)
					L = append(L, fmt.Sprintf("x w create - %s", hex.EncodeToString([]byte(dn))))
					work.kids[dn] = newSh()
					dst = []string{dn}
				}
				L = append(L, fmt.Sprintf("x w move %s %s %s", pathStr([]string{pn}), hex.EncodeToString([]byte(cn)), pathStr(dst)))
				if dn := work.at(dst); dn != nil && dn.kids[cn] == nil {
					dn.kids[cn] = work.kids[pn].kids[cn]
					delete(work.kids[pn].kids, cn)
				}
			case k < 90 && cfg.moves: // move bucket p into another bucket (never into itself / own subtree)
				dst := []string{}
				if r.chance(2, 3) {
					dst = paths[r.intn(len(paths))]
				}
				src := p[:len(p)-1]
				name := p[len(p)-1]
				inside := len(dst) >= len(p)
				for i := 0; inside && i < len(p); i++ {
					inside = dst[i] == p[i]
				}
				if inside {
					if !cfg.selfmoves || !r.chance(1, 2) {
						continue
					}
					// D4's domain (known finding): the bucket is moved into its own subtree; the reference refuses it.
					// Whatever the implementation did, the history ends here with a rollback.
					L = append(L, fmt.Sprintf("x w move %s %s %s", pathStr(src), hex.EncodeToString([]byte(name)), pathStr(dst)), "rollback", "close")
					return L
				}
				L = append(L, fmt.Sprintf("x w move %s %s %s", pathStr(src), hex.EncodeToString([]byte(name)), pathStr(dst)))
				dn := work.at(dst)
				same := pathStr(src) == pathStr(dst)
				if dn != nil && dn.kids[name] == nil && !same {
					dn.kids[name] = work.at(src).kids[name]
					delete(work.at(src).kids, name)
				}
			case k < 93:
				L = append(L, fmt.Sprintf("x w keyn %s", pathStr(p)), fmt.Sprintf("x w list %s", pathStr(p)))
			case k < 96 && cfg.malformed: // malformed stream
				switch r.intn(9) {
				case 0:
					L = append(L, fmt.Sprintf("x w put %s - 00", pathStr(p)))
				case 1:
					L = append(L, fmt.Sprintf("x w put %s @32769:1 00", pathStr(p)))
				case 2:
					L = append(L, fmt.Sprintf("x w put %s @32768:1 00", pathStr(p)))
				case 3: // put over a bucket key
					if ex := bn.sortedKeys(false, true); len(ex) > 0 {
						L = append(L, fmt.Sprintf("x w put %s %s 00", pathStr(p), hex.EncodeToString([]byte(ex[0]))))
					}
				case 4: // create over a value key
					if ex := bn.sortedKeys(true, false); len(ex) > 0 {
						L = append(L, fmt.Sprintf("x w create %s %s", pathStr(p), hex.EncodeToString([]byte(ex[0]))))
					}
				case 5:
					L = append(L, fmt.Sprintf("x w create %s -", pathStr(p)))
				case 6: // delete a bucket key with Delete / a value key with DeleteBucket
					if ex := bn.sortedKeys(false, true); len(ex) > 0 {
						L = append(L, fmt.Sprintf("x w del %s %s", pathStr(p), hex.EncodeToString([]byte(ex[0]))))
					}
					if ex := bn.sortedKeys(true, false); len(ex) > 0 {
						L = append(L, fmt.Sprintf("x w delb %s %s", pathStr(p), hex.EncodeToString([]byte(ex[0]))))
					}
				case 7:
					L = append(L, fmt.Sprintf("x w delb %s %s", pathStr(p), hex.EncodeToString([]byte("nope"))))
				case 8:
					L = append(L, "stale put 6b 76", "stale create 6262", "stale nextseq")
				}
			default:
				L = append(L, "dump w")
			}
		}
		// write ops through a read transaction must be refused
		if cfg.malformed && len(readers) > 0 && r.chance(1, 4) {
			for id := range readers {
				var paths [][]string
				committed.bucketPaths(nil, &paths)
				_ = paths
				L = append(L, fmt.Sprintf("x r%d create - 7a7a", id))
				break
			}
		}
		if r.chance(1, 8) {
			L = append(L, "dump w", "rollback")
		} else if cfg.faults && (len(readers) == 0 || cfg.backups) && r.chance(1, 5) || cfg.backups && len(readers) > 0 && r.chance(1, 4) {
			// a commit whose first or second write fails: nothing reaches the meta page, the transaction is rolled back
			// physically (free list reloaded / rebuilt) and the history goes on from the previous state
			L = append(L, "dump w", fmt.Sprintf("commitfail %d", r.intn(2)))
		} else {
			L = append(L, "dump w", "commit")
			committed = work
		}
		if cfg.surgery && strings.HasSuffix(L[len(L)-1], "commit") && r.chance(1, 2) {
			if r.chance(1, 6) {
				L = append(L, fmt.Sprintf("surg alias:%s:%s", []string{"same", "symlink", "hardlink"}[r.intn(3)], []string{"abandon", "rebuild", "revert"}[r.intn(3)]))
			}
			L = append(L, "surg "+[]string{"abandon", "rebuild", "abandon+rebuild", "revert", "revert"}[r.intn(5)])
		}
		if cfg.backups && len(readers) > 0 && r.chance(1, 2) {
			ids := make([]int, 0, len(readers))
			for id := range readers {
				ids = append(ids, id)
			}
			sort.Ints(ids)
			id := ids[r.intn(len(ids))]
			bmode := []string{"plain", "plain", "wf", "wfswap"}[r.intn(4)]
			if r.chance(1, 4) {
				L = append(L, fmt.Sprintf("backupfile r%d %s", id, bmode))
			} else {
				L = append(L, fmt.Sprintf("backup r%d %d %s", id, []int{0, 1, 2, 5}[r.intn(4)], bmode))
			}
		}
		// every open reader is re-dumped after every writer event (C02)
		if cfg.readers {
			ids := make([]int, 0, len(readers))
			for id := range readers {
				ids = append(ids, id)
			}
			sort.Ints(ids)
			for _, id := range ids {
				L = append(L, fmt.Sprintf("dump r%d", id))
			}
		}
		if cfg.reopen && r.chance(1, 10) {
			o2 := o
			if r.chance(1, 2) {
				// an explicit page-size option that differs from the file's: the file's own page size must win
				o2.ps = []int{512, 1024, 4096, 8192, 32768}[r.intn(5)]
			}
			L = append(L, "close", "open "+o2.String())
			readers = map[int]bool{}
			L = append(L, "beginr 900", "dump r900", "endr 900")
		}
	}
	for id := range readers {
		L = append(L, fmt.Sprintf("dump r%d", id), fmt.Sprintf("endr %d", id))
	}
	L = append(L, "beginr 901", "dump r901", "check r901", "bstats r901", "endr 901", "close")
	return L
}

// parseTraceCases reads the 'o' lines of every case of a trace file.
func parseTraceCases(path string) (headers []string, cases [][]string, err error) {
	f, err := os.Open(path)
	if err != nil {
		return nil, nil, err
	}
	defer f.Close()
	sc := bufio.NewScanner(f)
	sc.Buffer(make([]byte, 1<<20), 1<<28)
	for sc.Scan() {
		l := sc.Text()
		if strings.HasPrefix(l, "case ") {
			parts := strings.SplitN(l, " ", 3)
			h := ""
			if len(parts) > 2 {
				h = parts[2]
			}
			headers = append(headers, h)
			cases = append(cases, nil)
		} else if strings.HasPrefix(l, "o ") && len(cases) > 0 {
			if l[2:] == "img" {
				continue // images are re-inserted by the runner
			}
			cases[len(cases)-1] = append(cases[len(cases)-1], l[2:])
		}
	}
	return
}
