package main

import (
	"encoding/binary"
	"errors"
	"fmt"
	"os"
	"runtime"
	"sort"
	"strings"
	"sync"
	"sync/atomic"
	"time"

	bolt "go.etcd.io/bbolt"
)

// c03: write transactions are serial, all-or-nothing, visible in commit order; db entry points from many goroutines.
//
//	det cases : threads with programs of read-modify-write transactions (commit / error / panic / rollback) and read
//	            transactions are driven step by step along a generated schedule (the steps of Conc.v: lock, read meta,
//	            body, finish, unlock / snapshot, observe); the extracted model predicts the log exactly.
//	free cases: 2..12 goroutines run such transactions (Update, manual Begin, View, Batch, Stats, Close) unconstrained,
//	            with yields injected at bbolt's I/O points; the log is judged by the extracted serial_ok.
func init() { cmds["c03"] = c03Main }

var (
	c03Bucket = []byte("s")
	c03State  = []byte("state")
	errBody   = errors.New("body-error")
)

func c03mix(c, tok uint64) uint64 { return (c*1000003 + tok) % (1 << 40) }

func c03read(tx *bolt.Tx) uint64 {
	v := tx.Bucket(c03Bucket).Get(c03State)
	return binary.BigEndian.Uint64(v)
}

func c03write(tx *bolt.Tx, nc, tok uint64, pad int) error {
	b := tx.Bucket(c03Bucket)
	var buf [8]byte
	binary.BigEndian.PutUint64(buf[:], nc)
	if err := b.Put(c03State, buf[:]); err != nil {
		return err
	}
	var idb [8]byte
	binary.BigEndian.PutUint64(idb[:], uint64(tx.ID()))
	if err := b.Put([]byte(fmt.Sprintf("t/%d", tok)), idb[:]); err != nil {
		return err
	}
	if pad > 0 {
		return b.Put([]byte(fmt.Sprintf("p/%d", tok%48)), make([]byte, pad))
	}
	return nil
}

type c03rec struct {
	g, id         int
	kind          string
	read, written uint64
	tok           uint64
	api, ret      string
}

func (r c03rec) String() string {
	return fmt.Sprintf("rec %d %d %s %d %d %d %s %s", r.g, r.id, r.kind, r.read, r.written, r.tok, r.api, r.ret)
}

type c03prog struct {
	write bool
	tok   uint64
	end   string // commit | error | panic | rollback
}

func c03setup(path string, cr *rng, bigmap bool) (*bolt.DB, int, uint64, error) {
	os.Remove(path)
	mm := []int{0, 0, 1 << 22}[cr.intn(3)]
	if bigmap {
		mm = 1 << 22 // a commit that has to remap waits for open read transactions: not under a step-by-step schedule
	}
	db, err := bolt.Open(path, 0600, &bolt.Options{PageSize: []int{1024, 4096}[cr.intn(2)], NoFreelistSync: cr.chance(1, 3), NoSync: cr.chance(1, 2),
		FreelistType: []bolt.FreelistType{bolt.FreelistArrayType, bolt.FreelistMapType}[cr.intn(2)], InitialMmapSize: mm})
	if err != nil {
		return nil, 0, 0, err
	}
	c0 := cr.next() % (1 << 40)
	if err := db.Update(func(tx *bolt.Tx) error {
		if _, err := tx.CreateBucket(c03Bucket); err != nil {
			return err
		}
		return c03write(tx, c0, 0, 0)
	}); err != nil {
		return nil, 0, 0, err
	}
	id0 := 0
	_ = db.View(func(tx *bolt.Tx) error { id0 = tx.ID(); return nil })
	return db, id0, c0, nil
}

func c03Main(args []string) error {
	c := newCommon("c03")
	dir := c.fs.String("dir", "", "scratch dir")
	mode := c.fs.String("mode", "both", "det|free|both")
	c.fs.Parse(args)
	w, done := openOut(c.out)
	defer done()
	if *dir == "" {
		d, _ := os.MkdirTemp("/dev/shm", "bbv")
		*dir = d
		defer os.RemoveAll(d)
	}
	r := &rng{s: c.seed}
	hangs := 0
	for id := 0; id < c.n; id++ {
		cr := r.fork()
		path := fmt.Sprintf("%s/c03_%d_%d.db", *dir, os.Getpid(), id)
		det := *mode == "det" || (*mode == "both" && id%2 == 0)
		var lines []string
		if det {
			lines = c03det(path, cr)
		} else {
			lines = c03free(path, cr)
		}
		fmt.Fprintf(w, "case %d %s\n", id, lines[0])
		for _, l := range lines[1:] {
			fmt.Fprintln(w, l)
			if strings.HasPrefix(l, "hang ") {
				hangs++
			}
		}
		fmt.Fprintln(w, "end")
		w.Flush()
		os.Remove(path)
		if hangs >= 3 {
			break // every further case would cost a watchdog period; three replays are enough
		}
	}
	return nil
}

// ---------------------------------------------------------------- deterministic schedules
type c03thread struct {
	progs []c03prog
	step  chan struct{}
	ack   chan struct{}
	// scheduler's own view (mirrors the model's pc): index of the program, step inside it
	pi, si int
}

func c03det(path string, cr *rng) []string {
	db, id0, c0, err := c03setup(path, cr, true)
	if err != nil {
		return []string{"det setup-failed " + err.Error()}
	}
	nt := 2 + cr.intn(4)
	ths := make([]*c03thread, nt)
	tok := uint64(1)
	var out []string
	out = append(out, fmt.Sprintf("det threads=%d id0=%d c0=%d", nt, id0, c0))
	total := 0
	for t := range ths {
		th := &c03thread{step: make(chan struct{}), ack: make(chan struct{})}
		var ps []string
		for k := 0; k < 1+cr.intn(4); k++ {
			if cr.chance(2, 3) {
				e := []string{"commit", "commit", "commit", "error", "panic", "rollback"}[cr.intn(6)]
				th.progs = append(th.progs, c03prog{write: true, tok: tok, end: e})
				ps = append(ps, fmt.Sprintf("w:%d:%s", tok, e))
				tok++
				total += 5
			} else {
				th.progs = append(th.progs, c03prog{})
				ps = append(ps, "r")
				total += 2
			}
		}
		ths[t] = th
		out = append(out, fmt.Sprintf("prog %d %s", t, strings.Join(ps, ",")))
	}
	var mu sync.Mutex
	var recs []c03rec
	logrec := func(r c03rec) { mu.Lock(); recs = append(recs, r); mu.Unlock() }
	manualFlip := cr.intn(2)
	for t, th := range ths {
		go func(t int, th *c03thread) {
			for pi, p := range th.progs {
				if p.write {
					var rc, nc uint64
					var txid int
					body := func(tx *bolt.Tx) error {
						txid = tx.ID()
						th.ack <- struct{}{} // lock step done
						<-th.step            // read-meta step (already done inside Begin)
						th.ack <- struct{}{}
						<-th.step // body
						rc = c03read(tx)
						nc = c03mix(rc, p.tok)
						if err := c03write(tx, nc, p.tok, 0); err != nil {
							return err
						}
						th.ack <- struct{}{}
						<-th.step // finish
						switch p.end {
						case "error":
							return errBody
						case "panic":
							panic("body-panic")
						}
						return nil
					}
					<-th.step // lock
					ret := ""
					api := "update"
					if p.end == "rollback" || (p.end == "commit" && (pi+manualFlip)%2 == 0) {
						api = "manual"
						tx, err := db.Begin(true)
						if err != nil {
							ret = errName(err)
						} else {
							_ = body(tx)
							if p.end == "rollback" {
								ret = errName(tx.Rollback())
							} else {
								ret = errName(tx.Commit())
							}
						}
					} else {
						func() {
							defer func() {
								if x := recover(); x != nil {
									ret = fmt.Sprint(x)
								}
							}()
							ret = errName(db.Update(body))
						}()
					}
					kind := "abort"
					if p.end == "commit" && ret == "ok" {
						kind = "commit"
					}
					logrec(c03rec{g: t, id: txid, kind: kind, read: rc, written: nc, tok: p.tok, api: api + "-" + p.end, ret: strings.ReplaceAll(ret, " ", "_")})
					th.ack <- struct{}{} // finish done
					<-th.step            // unlock step (the real unlock happened inside Commit/Rollback)
					th.ack <- struct{}{}
				} else {
					<-th.step
					tx, err := db.Begin(false)
					if err != nil {
						logrec(c03rec{g: t, kind: "closed", api: "begin-read", ret: errName(err)})
						th.ack <- struct{}{}
						<-th.step
						th.ack <- struct{}{}
						continue
					}
					th.ack <- struct{}{}
					<-th.step
					rid, rcv := tx.ID(), c03read(tx)
					logrec(c03rec{g: t, id: rid, kind: "read", read: rcv, api: "manual-read", ret: errName(tx.Rollback())})
					th.ack <- struct{}{}
				}
			}
		}(t, th)
	}
	// the schedule: random picks, then round-robin until everything finished
	holder := -1
	var sched []string
	stepsOf := func(p c03prog) int {
		if p.write {
			return 5
		}
		return 2
	}
	hang := ""
	issue := func(t int) {
		th := ths[t]
		sched = append(sched, fmt.Sprint(t))
		if th.pi >= len(th.progs) {
			return // finished: the model's step does nothing
		}
		p := th.progs[th.pi]
		if p.write && th.si == 0 {
			if holder != -1 {
				return // blocked on the writer mutex: the model's step does nothing
			}
			holder = t
		}
		select {
		case th.step <- struct{}{}:
		case <-time.After(10 * time.Second):
			hang = fmt.Sprintf("hang thread=%d prog=%d step=%d (not ready)", t, th.pi, th.si)
			return
		}
		select {
		case <-th.ack:
		case <-time.After(10 * time.Second):
			hang = fmt.Sprintf("hang thread=%d prog=%d step=%d", t, th.pi, th.si)
			return
		}
		th.si++
		if p.write && th.si == 5 {
			holder = -1
		}
		if th.si == stepsOf(p) {
			th.pi++
			th.si = 0
		}
	}
	for k := 0; k < total*2 && hang == ""; k++ {
		issue(cr.intn(nt))
	}
	for round := 0; round < total+5 && hang == ""; round++ {
		for t := 0; t < nt && hang == ""; t++ {
			issue(t)
		}
	}
	out = append(out, "sched "+strings.Join(sched, ","))
	mu.Lock()
	for _, r := range recs {
		out = append(out, r.String())
	}
	mu.Unlock()
	if hang != "" {
		out = append(out, hang)
		return out // goroutines and the database are abandoned
	}
	out = append(out, c03final(db, path, false)...)
	return out
}

// final state after Close and reopen
func c03final(db *bolt.DB, path string, closed bool) []string {
	var out []string
	if !closed {
		cerr := make(chan error, 1)
		go func() { cerr <- db.Close() }()
		select {
		case err := <-cerr:
			if err != nil {
				out = append(out, "closeerr "+errName(err))
			}
		case <-time.After(20 * time.Second):
			return append(out, "hang Close did not return within 20s after every transaction had finished")
		}
	}
	db2, err := bolt.Open(path, 0600, &bolt.Options{ReadOnly: true})
	if err != nil {
		return append(out, "final reopen-failed")
	}
	defer db2.Close()
	_ = db2.View(func(tx *bolt.Tx) error {
		var toks []string
		cur := tx.Bucket(c03Bucket).Cursor()
		for k, v := cur.Seek([]byte("t/")); k != nil && strings.HasPrefix(string(k), "t/"); k, v = cur.Next() {
			toks = append(toks, fmt.Sprintf("%s:%d", k[2:], binary.BigEndian.Uint64(v)))
		}
		sort.Strings(toks)
		out = append(out, fmt.Sprintf("final mid=%d mc=%d toks=%s", tx.ID(), c03read(tx), strings.Join(toks, ",")))
		return nil
	})
	return out
}

// ---------------------------------------------------------------- free-running goroutines
func c03free(path string, cr *rng) []string {
	db, id0, c0, err := c03setup(path, cr, false)
	if err != nil {
		return []string{"free setup-failed " + err.Error()}
	}
	ng := 2 + cr.intn(11)
	nops := 4 + cr.intn(16)
	db.MaxBatchSize = []int{0, 2, 4, 1000}[cr.intn(4)]
	db.MaxBatchDelay = []time.Duration{0, time.Millisecond, 5 * time.Millisecond}[cr.intn(3)]
	closer := -1
	if cr.chance(1, 3) {
		closer = cr.intn(ng)
	}
	out := []string{fmt.Sprintf("free g=%d ops=%d id0=%d c0=%d closer=%d batch=%d", ng, nops, id0, c0, closer, db.MaxBatchSize)}
	// yields at bbolt's I/O points
	var yc uint64
	ymask := []uint64{1, 3, 7}[cr.intn(3)]
	bolt.VerifHook = &bolt.VerifHooks{IO: func(d *bolt.DB, kind string, off int64, data []byte) error {
		n := atomic.AddUint64(&yc, 1)
		if n&ymask == 0 {
			runtime.Gosched()
		} else if n%61 == 0 {
			time.Sleep(20 * time.Microsecond)
		}
		return nil
	}}
	defer func() { bolt.VerifHook = nil }()
	var inW, overlap int32
	var tokc uint64
	recs := make([][]c03rec, ng)
	var wg sync.WaitGroup
	var closedFlag int32
	for g := 0; g < ng; g++ {
		gr := cr.fork()
		wg.Add(1)
		go func(g int, gr *rng) {
			defer wg.Done()
			add := func(r c03rec) { r.g = g; recs[g] = append(recs[g], r) }
			rmw := func(tx *bolt.Tx, pad int) (uint64, uint64, uint64, error) {
				if atomic.AddInt32(&inW, 1) != 1 {
					atomic.AddInt32(&overlap, 1)
				}
				defer atomic.AddInt32(&inW, -1)
				tok := atomic.AddUint64(&tokc, 1)
				rc := c03read(tx)
				nc := c03mix(rc, tok)
				if gr.chance(1, 4) {
					runtime.Gosched()
				}
				return rc, nc, tok, c03write(tx, nc, tok, pad)
			}
			for k := 0; k < nops; k++ {
				pad := 0
				if gr.chance(1, 3) {
					pad = 1 + gr.intn(3000)
				}
				x := gr.intn(100)
				switch {
				case x < 50: // Update: commit / error / panic
					end := "commit"
					if x >= 30 && x < 40 {
						end = "error"
					} else if x >= 40 {
						end = "panic"
					}
					var rc, nc, tok uint64
					txid := -1
					ret := ""
					func() {
						defer func() {
							if p := recover(); p != nil {
								ret = strings.ReplaceAll(fmt.Sprint(p), " ", "_")
							}
						}()
						ret = errName(db.Update(func(tx *bolt.Tx) error {
							txid = tx.ID()
							var err error
							rc, nc, tok, err = rmw(tx, pad)
							if err != nil {
								return err
							}
							switch end {
							case "error":
								return errBody
							case "panic":
								panic("body-panic")
							}
							return nil
						}))
					}()
					kind := "abort"
					if txid == -1 {
						kind = "closed"
					} else if end == "commit" && ret == "ok" {
						kind = "commit"
					}
					add(c03rec{id: txid, kind: kind, read: rc, written: nc, tok: tok, api: "update-" + end, ret: ret})
				case x < 66: // manual Begin(true)
					tx, err := db.Begin(true)
					if err != nil {
						add(c03rec{id: -1, kind: "closed", api: "begin-write", ret: errName(err)})
						continue
					}
					rc, nc, tok, werr := rmw(tx, pad)
					txid := tx.ID()
					if werr == nil && x < 60 {
						ret := errName(tx.Commit())
						kind := "abort"
						if ret == "ok" {
							kind = "commit"
						}
						add(c03rec{id: txid, kind: kind, read: rc, written: nc, tok: tok, api: "manual-commit", ret: ret})
					} else {
						add(c03rec{id: txid, kind: "abort", read: rc, written: nc, tok: tok, api: "manual-rollback", ret: errName(tx.Rollback())})
					}
				case x < 76: // View
					var rc uint64
					txid := -1
					ret := errName(db.View(func(tx *bolt.Tx) error {
						txid = tx.ID()
						rc = c03read(tx)
						if gr.chance(1, 2) {
							runtime.Gosched()
							if c03read(tx) != rc {
								rc = ^uint64(0) >> 24 // snapshot moved under a reader
							}
						}
						return nil
					}))
					if txid == -1 {
						add(c03rec{id: -1, kind: "closed", api: "view", ret: ret})
					} else {
						add(c03rec{id: txid, kind: "read", read: rc, api: "view", ret: ret})
					}
				case x < 84: // manual read transaction
					tx, err := db.Begin(false)
					if err != nil {
						add(c03rec{id: -1, kind: "closed", api: "begin-read", ret: errName(err)})
						continue
					}
					rc := c03read(tx)
					if gr.chance(1, 2) {
						time.Sleep(time.Duration(gr.intn(300)) * time.Microsecond)
					}
					if c03read(tx) != rc {
						rc = ^uint64(0) >> 24
					}
					txid := tx.ID()
					add(c03rec{id: txid, kind: "read", read: rc, api: "manual-read", ret: errName(tx.Rollback())})
				case x < 96: // Batch
					var pieces []c03rec
					fail := gr.chance(1, 5)
					ret := errName(db.Batch(func(tx *bolt.Tx) error {
						rc, nc, tok, err := rmw(tx, pad)
						pieces = append(pieces, c03rec{id: tx.ID(), kind: "piece", read: rc, written: nc, tok: tok, api: fmt.Sprintf("batch#%d", k)})
						if err != nil {
							return err
						}
						if fail {
							return errBody
						}
						return nil
					}))
					for _, p := range pieces {
						p.ret = ret
						add(p)
					}
					if len(pieces) == 0 {
						add(c03rec{id: -1, kind: "closed", api: "batch", ret: ret})
					}
				default:
					st := db.Stats()
					_ = st.TxStats.GetWrite()
				}
			}
			if g == closer {
				atomic.StoreInt32(&closedFlag, 1)
				add(c03rec{id: -1, kind: "closed", api: "close", ret: errName(db.Close())})
			}
		}(g, gr)
	}
	fin := make(chan struct{})
	go func() { wg.Wait(); close(fin) }()
	select {
	case <-fin:
	case <-time.After(30 * time.Second):
		buf := make([]byte, 1<<16)
		buf = buf[:runtime.Stack(buf, true)]
		out = append(out, "hang free-running goroutines did not finish within 30s")
		for _, l := range strings.Split(string(buf), "\n") {
			out = append(out, "# "+l)
		}
		return out
	}
	for g := range recs {
		for _, r := range recs[g] {
			out = append(out, r.String())
		}
	}
	out = append(out, fmt.Sprintf("overlap %d", atomic.LoadInt32(&overlap)))
	out = append(out, c03final(db, path, atomic.LoadInt32(&closedFlag) == 1)...)
	return out
}
