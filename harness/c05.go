package main

import (
	"bufio"
	"encoding/hex"
	"fmt"
	"os"
	"strings"
	"time"

	bolt "go.etcd.io/bbolt"
)

// c05: cursors. For each case a bucket is built, optionally modified inside a write transaction (deletes that empty
// whole leaves, inserts, nested buckets), the exact page/node tree the cursor walks is dumped (VerifDumpTree), and
// call sequences are run on fresh cursors. Trace:
//   case <id> mode=<r|w> ps=<n>
//   tree <tokens>
//   seq            (a fresh cursor)
//   o <first|last|next|prev|seek hex>
//   r <keyhex|nil> <val|nil>      or  r hang
//   end

func init() { cmds["c05"] = c05Main }

func treeTokens(sb *strings.Builder, t *bolt.VerifTree) {
	if t.Leaf {
		fmt.Fprintf(sb, " L%d", len(t.Keys))
		for i, k := range t.Keys {
			fmt.Fprintf(sb, " %s:%d:%s", hexOrDash(k), t.Flags[i], showVal(t.Vals[i]))
		}
		return
	}
	fmt.Fprintf(sb, " B%d", len(t.Keys))
	for i, k := range t.Keys {
		fmt.Fprintf(sb, " %s", hexOrDash(k))
		treeTokens(sb, t.Kids[i])
	}
}

type curCall struct {
	kind string
	key  []byte
}

func (c curCall) String() string {
	if c.kind == "seek" {
		return "seek " + hexOrDash(c.key)
	}
	return c.kind
}

func showKV(k, v []byte) string {
	ks := "nil"
	if k != nil {
		ks = hexOrDash(k)
		if len(k) == 0 {
			ks = "empty"
		}
	}
	return ks + " " + showVal(v)
}

// runSeq runs one call sequence on a fresh cursor under a deadline. Returns false on hang.
func runSeq(w *bufio.Writer, b *bolt.Bucket, calls []curCall) bool {
	fmt.Fprintln(w, "seq")
	type out struct{ k, v []byte }
	results := make(chan []out, 1)
	go func() {
		var rs []out
		c := b.Cursor()
		for _, cl := range calls {
			var k, v []byte
			switch cl.kind {
			case "first":
				k, v = c.First()
			case "last":
				k, v = c.Last()
			case "next":
				k, v = c.Next()
			case "prev":
				k, v = c.Prev()
			case "seek":
				k, v = c.Seek(cl.key)
			}
			rs = append(rs, out{k, v})
		}
		results <- rs
	}()
	select {
	case rs := <-results:
		for i, cl := range calls {
			fmt.Fprintf(w, "o %s\nr %s\n", cl.String(), showKV(rs[i].k, rs[i].v))
		}
		return true
	case <-time.After(3 * time.Second):
		for _, cl := range calls {
			fmt.Fprintf(w, "o %s\n", cl.String())
		}
		fmt.Fprintln(w, "r hang")
		return false
	}
}

func c05Case(w *bufio.Writer, r *rng, id int, dir string, exhaustLen int, nRandom int) bool {
	ps := []int{1024, 1024, 1024, 4096}[r.intn(4)]
	path := fmt.Sprintf("%s/c05_%d.db", dir, id)
	defer os.Remove(path)
	db, err := bolt.Open(path, 0600, &bolt.Options{PageSize: ps, NoSync: true})
	if err != nil {
		panic(err)
	}
	defer db.Close()
	nkeys := []int{0, 1, 3, 40, 120, 300, 900}[r.intn(7)]
	vlen := []int{0, 8, 60}[r.intn(3)]
	keyOf := func(i int) []byte { return []byte(fmt.Sprintf("k%05d", i*3)) }
	nested := r.chance(1, 3)
	_ = db.Update(func(tx *bolt.Tx) error {
		b, _ := tx.CreateBucket([]byte("b"))
		for i := 0; i < nkeys; i++ {
			if nested && i%17 == 5 {
				nb, _ := b.CreateBucket(keyOf(i))
				_ = nb.Put([]byte("x"), []byte("y"))
				continue
			}
			_ = b.Put(keyOf(i), make([]byte, vlen))
		}
		return nil
	})
	mode := "r"
	if r.chance(2, 3) {
		mode = "w"
	}
	tx, _ := db.Begin(mode == "w")
	defer tx.Rollback()
	b := tx.Bucket([]byte("b"))
	if mode == "w" && nkeys > 0 {
		// delete runs of keys (whole leaves become empty), sometimes everything, sometimes a trailing/leading range
		nruns := 1 + r.intn(4)
		for j := 0; j < nruns; j++ {
			var lo, hi int
			switch r.intn(5) {
			case 0:
				lo, hi = 0, nkeys
			case 1:
				lo, hi = nkeys/2, nkeys
			case 2:
				lo, hi = 0, nkeys/2
			default:
				lo = r.intn(nkeys)
				hi = lo + r.intn(nkeys-lo+1)
			}
			for i := lo; i < hi; i++ {
				k := keyOf(i)
				if nested && i%17 == 5 {
					if r.chance(1, 2) {
						_ = b.DeleteBucket(k)
					}
					continue
				}
				_ = b.Delete(k)
			}
		}
		for j := r.intn(4); j > 0; j-- {
			_ = b.Put([]byte(fmt.Sprintf("k%05d", r.intn(nkeys*3+3))), []byte("new"))
		}
	}
	t := bolt.VerifDumpTree(b)
	var sb strings.Builder
	treeTokens(&sb, t)
	fmt.Fprintf(w, "case %d mode=%s ps=%d\ntree%s\n", id, mode, ps, sb.String())
	// seek candidates: below everything, boundary keys of leaves, between, above everything
	var cand [][]byte
	cand = append(cand, []byte{}, []byte("a"), []byte("z"))
	var leaves func(t *bolt.VerifTree)
	leaves = func(t *bolt.VerifTree) {
		if t.Leaf {
			if len(t.Keys) > 0 {
				cand = append(cand, t.Keys[0], t.Keys[len(t.Keys)-1], append(append([]byte{}, t.Keys[len(t.Keys)-1]...), 0))
			}
			return
		}
		for i, k := range t.Kids {
			cand = append(cand, t.Keys[i])
			leaves(k)
		}
	}
	leaves(t)
	for len(cand) > 9 {
		i := r.intn(len(cand))
		cand = append(cand[:i], cand[i+1:]...)
	}
	alpha := []curCall{{kind: "first"}, {kind: "last"}, {kind: "next"}, {kind: "prev"}}
	for _, k := range cand {
		alpha = append(alpha, curCall{kind: "seek", key: k})
	}
	ok := true
	var rec func(cur []curCall, d int)
	rec = func(cur []curCall, d int) {
		if !ok {
			return
		}
		if len(cur) > 0 {
			// run only maximal sequences plus all shorter ones implicitly (prefixes are covered by longer runs)
			if d == 0 {
				ok = runSeq(w, b, cur)
				return
			}
		}
		if d == 0 {
			return
		}
		for _, c := range alpha {
			rec(append(cur, c), d-1)
		}
	}
	rec(nil, exhaustLen)
	// full scans and random walks
	if ok {
		full := []curCall{{kind: "first"}}
		back := []curCall{{kind: "last"}}
		for i := 0; i < nkeys+8 && i < 1200; i++ {
			full = append(full, curCall{kind: "next"})
			back = append(back, curCall{kind: "prev"})
		}
		ok = runSeq(w, b, full) && runSeq(w, b, back)
	}
	for j := 0; ok && j < nRandom; j++ {
		n := 5 + r.intn(40)
		var cs []curCall
		for i := 0; i < n; i++ {
			switch k := r.intn(10); {
			case k < 4:
				cs = append(cs, curCall{kind: "next"})
			case k < 8:
				cs = append(cs, curCall{kind: "prev"})
			default:
				cs = append(cs, alpha[r.intn(len(alpha))])
			}
		}
		ok = runSeq(w, b, cs)
	}
	fmt.Fprintln(w, "end")
	return ok
}

func c05Main(args []string) error {
	c := newCommon("c05")
	dir := c.fs.String("dir", "/dev/shm", "scratch dir")
	exh := c.fs.Int("exh", 2, "exhaustive sequence length")
	nrand := c.fs.Int("rand", 30, "random sequences per tree")
	c.fs.Parse(args)
	w, done := openOut(c.out)
	defer done()
	r := &rng{s: c.seed}
	for i := 0; i < c.n; i++ {
		if !c05Case(w, r.fork(), i, *dir, *exh, *nrand) {
			w.Flush()
			done()
			os.Exit(0) // a hung cursor call spins forever; the trace records it
		}
	}
	return nil
}

var _ = hex.EncodeToString
