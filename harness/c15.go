package main

import (
	"bytes"
	"crypto/sha256"
	"encoding/hex"
	"fmt"
	"os"
	"strings"

	bolt "go.etcd.io/bbolt"
	"go.etcd.io/bbolt/cmd/bbolt/command"
)

// c15: compaction. A source database is produced by a generated history; it is compacted with the library function
// and with the command-line tool (in process) for a range of transaction-size limits. Trace:
//
//	case <id>
//	src <image path> <page size> <dump> <sha256>
//	o compact <lib|cli> <txMaxSize>
//	r <err> <dst dump> <check problems> <sha256 of source afterwards>
func init() { cmds["c15"] = c15Main }

func fileSHA(path string) string {
	b, err := os.ReadFile(path)
	if err != nil {
		return "err"
	}
	s := sha256.Sum256(b)
	return hex.EncodeToString(s[:])
}

func dumpFile(path string) (string, int) {
	db, err := bolt.Open(path, 0600, &bolt.Options{ReadOnly: true})
	if err != nil {
		return "openerr:" + errName(err), -1
	}
	defer db.Close()
	tx, _ := db.Begin(false)
	defer tx.Rollback()
	n := 0
	for range tx.Check() {
		n++
	}
	return digestOrText(dumpTx(tx)), n
}

func c15Main(args []string) error {
	c := newCommon("c15")
	dir := c.fs.String("dir", "", "scratch dir")
	c.fs.Parse(args)
	w, done := openOut(c.out)
	defer done()
	if *dir == "" {
		d, _ := os.MkdirTemp("/dev/shm", "bbv")
		*dir = d
		defer os.RemoveAll(d)
	}
	r := &rng{s: c.seed}
	for id := 0; id < c.n; id++ {
		cr := r.fork()
		o := histOptions(cr, id)
		o.imm = 0
		// source content: deep nesting, inline and paged buckets, empty buckets, empty and multi-page values, sequences
		cfg := genCfg{ps: o.ps, txs: 1 + cr.intn(6), opsPerTx: 20, bigVals: true, readers: false, reopen: false, malformed: false, moves: true}
		lines := genHistory(cr.fork(), cfg, o)
		var sink bytes.Buffer
		bw := newBufWriter(&sink)
		src := fmt.Sprintf("%s/c%d.db", *dir, 2000000+id)
		os.Remove(src)
		rn := newRunner(bw, *dir, 2000000+id)
		for _, l := range lines {
			if !rn.exec(l) {
				break
			}
		}
		// keep the file (runner.finish would delete it)
		if rn.db != nil {
			rn.db.Close()
			rn.db = nil
		}
		sdump, _ := dumpFile(src)
		sha := fileSHA(src)
		img := fmt.Sprintf("%s/c15_%d.src", *dir, id)
		b, _ := os.ReadFile(src)
		_ = os.WriteFile(img, b, 0600)
		fmt.Fprintf(w, "case %d\nsrc %s %d %s %s\n", id, img, o.ps, sdump, sha)
		limits := []int64{0, 1, 2, 7, 100, 4096, 65536, 1 << 40}
		for li, lim := range limits {
			for _, how := range []string{"lib", "cli"} {
				if how == "cli" && li%2 == 1 {
					continue
				}
				dst := fmt.Sprintf("%s/c15_%d.dst", *dir, id)
				os.Remove(dst)
				var err error
				if how == "lib" {
					err = func() error {
						s, e := bolt.Open(src, 0600, &bolt.Options{ReadOnly: true})
						if e != nil {
							return e
						}
						defer s.Close()
						d, e := bolt.Open(dst, 0600, &bolt.Options{PageSize: []int{1024, 4096, 16384}[cr.intn(3)]})
						if e != nil {
							return e
						}
						defer d.Close()
						return bolt.Compact(d, s, lim)
					}()
				} else {
					root := command.NewRootCommand()
					root.SetArgs([]string{"compact", "-o", dst, "--tx-max-size", fmt.Sprint(lim), src})
					var out bytes.Buffer
					root.SetOut(&out)
					root.SetErr(&out)
					err = root.Execute()
				}
				fmt.Fprintf(w, "o compact %s %d\n", how, lim)
				ddump, chk := dumpFile(dst)
				e := "ok"
				if err != nil {
					e = "err:" + strings.ReplaceAll(err.Error(), " ", "_")
				}
				fmt.Fprintf(w, "r %s %s %d %s\n", e, ddump, chk, fileSHA(src))
				os.Remove(dst)
			}
		}
		fmt.Fprintln(w, "end")
		w.Flush()
		os.Remove(src)
	}
	return nil
}
