package main

import (
	"fmt"
	"sort"

	bolt "go.etcd.io/bbolt"
)

// consts prints Tie/GenConsts.v: every layout constant of the compiled Go as a Coq Example against the model.
func init() {
	cmds["consts"] = func(args []string) error {
		m := bolt.VerifConsts()
		keys := make([]string, 0, len(m))
		for k := range m {
			keys = append(keys, k)
		}
		sort.Strings(keys)
		fmt.Println("(* GENERATED on every run by `bbverif consts` from the Go build of /repo. Do not edit. *)")
		fmt.Println("From Bbolt Require Import Base Consts.")
		for _, k := range keys {
			fmt.Printf("Example tie_%s : Consts.%s = %d%%N. Proof. reflexivity. Qed.\n", k, k, m[k])
		}
		return nil
	}
}
