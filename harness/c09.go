package main

import (
	"bufio"
	"encoding/binary"
	"fmt"
	"os"
	"sort"
	"strings"

	bolt "go.etcd.io/bbolt"
)

// C09: allocator. Trace format (one case):
//   case <id> <array|hashmap>
//   o <op> <args...>
//   s ret=<n|panic> free=<csv> pend=<tid>:<lrb>:<id>/<a>,..;.. rd=<csv> fc=<n> pc=<n> cnt=<n> est=<n> copy=<csv> [rb=<csv> imgc=<n>]
//   end

func init() { cmds["c09"] = c09Main }

type flOp struct {
	kind    string
	a, b, c uint64
	ids     []uint64
}

func (o flOp) String() string {
	switch o.kind {
	case "init", "nosync":
		return fmt.Sprintf("%s %s", o.kind, csv(o.ids))
	case "freemany":
		return fmt.Sprintf("freemany %d %s", o.a, csv(o.ids))
	case "alloc":
		return fmt.Sprintf("alloc %d %d", o.a, o.b)
	case "free":
		return fmt.Sprintf("free %d %d %d", o.a, o.b, o.c)
	case "rollback", "addr", "delr":
		return fmt.Sprintf("%s %d", o.kind, o.a)
	}
	return o.kind
}

func parseFlOp(fields []string) flOp {
	o := flOp{kind: fields[0]}
	switch o.kind {
	case "init", "nosync":
		o.ids = parseCSV(fields[1])
	case "freemany":
		fmt.Sscanf(fields[1], "%d", &o.a)
		o.ids = parseCSV(fields[2])
	case "alloc":
		fmt.Sscanf(fields[1], "%d", &o.a)
		fmt.Sscanf(fields[2], "%d", &o.b)
	case "free":
		fmt.Sscanf(fields[1], "%d", &o.a)
		fmt.Sscanf(fields[2], "%d", &o.b)
		fmt.Sscanf(fields[3], "%d", &o.c)
	case "rollback", "addr", "delr":
		fmt.Sscanf(fields[1], "%d", &o.a)
	}
	return o
}

func flObs(f *bolt.VerifFreelist, ret string, extra string) string {
	free, pend, lrb := f.State()
	tids := make([]uint64, 0, len(pend))
	for t := range pend {
		tids = append(tids, t)
	}
	sort.Slice(tids, func(i, j int) bool { return tids[i] < tids[j] })
	var sb strings.Builder
	for i, t := range tids {
		if i > 0 {
			sb.WriteByte(';')
		}
		l := pend[t]
		sort.Slice(l, func(i, j int) bool { return l[i][0] < l[j][0] })
		fmt.Fprintf(&sb, "%d:%d:", t, lrb[t])
		for j, pa := range l {
			if j > 0 {
				sb.WriteByte(',')
			}
			fmt.Fprintf(&sb, "%d/%d", pa[0], pa[1])
		}
	}
	ps := sb.String()
	if ps == "" {
		ps = "-"
	}
	return fmt.Sprintf("s ret=%s free=%s pend=%s fc=%d pc=%d cnt=%d est=%d copy=%s%s",
		ret, csv(free), ps, f.FreeCount(), f.PendingCount(), f.Count(), f.EstimatedWritePageSize(), csv(f.Copyall()), extra)
}

// runFlCase executes ops on a fresh freelist, writing op/obs lines. A panic ends the case.
func runFlCase(w *bufio.Writer, id int, backend string, ops []flOp) {
	fmt.Fprintf(w, "case %d %s\n", id, backend)
	f := bolt.VerifNewFreelist(backend)
	for _, o := range ops {
		fmt.Fprintf(w, "o %s\n", o.String())
		obs, ok := flApply(f, backend, o)
		fmt.Fprintln(w, obs)
		if !ok {
			break
		}
	}
	fmt.Fprintln(w, "end")
}

func flApply(f *bolt.VerifFreelist, backend string, o flOp) (obs string, ok bool) {
	defer func() {
		if r := recover(); r != nil {
			obs = "s ret=panic"
			ok = false
		}
	}()
	ret := "0"
	extra := ""
	switch o.kind {
	case "init":
		f.Init(append([]uint64{}, o.ids...))
	case "alloc":
		ret = fmt.Sprintf("%d", f.Allocate(o.a, int(o.b)))
	case "free":
		f.Free(o.a, o.b, uint32(o.c))
	case "freemany": // bulk Free of single pages, one observation at the end
		for _, id := range o.ids {
			f.Free(o.a, id, 0)
		}
	case "rollback":
		f.Rollback(o.a)
	case "addr":
		f.AddReadonlyTXID(o.a)
	case "delr":
		f.RemoveReadonlyTXID(o.a)
	case "release":
		f.ReleasePendingPages()
	case "write":
		// serialise, then read the image back with fresh freelists of BOTH backends
		img := f.Write(4096)
		var rbs [2][]uint64
		for i, k := range []string{"array", "hashmap"} {
			g := bolt.VerifNewFreelist(k)
			g.Read(img)
			fr, _, _ := g.State()
			rbs[i] = fr
		}
		same := len(rbs[0]) == len(rbs[1])
		for i := 0; same && i < len(rbs[0]); i++ {
			same = rbs[0][i] == rbs[1][i]
		}
		cnt := uint64(img[10]) | uint64(img[11])<<8
		flags := uint64(img[8]) | uint64(img[9])<<8
		// the u64 array that follows the page header, as far as Write filled it (count convention left to the reader)
		nids := f.Count()
		if nids >= 0xFFFF {
			nids++
		}
		body := make([]uint64, 0, nids)
		for i := 0; i < nids && 16+8*i+8 <= len(img); i++ {
			body = append(body, binary.LittleEndian.Uint64(img[16+8*i:]))
		}
		extra = fmt.Sprintf(" rb=%s imgc=%d imgf=%d imglen=%d same=%v body=%s", csv(rbs[0]), cnt, flags, len(img), same, csv(body))
	case "reload":
		img := f.Write(4096)
		f.Reload(img)
	case "nosync":
		f.NoSyncReload(append([]uint64{}, o.ids...))
	default:
		panic("bad op " + o.kind)
	}
	return flObs(f, ret, extra), true
}

// ---- generators ----

// model-guided random generator: tracks which pages are in use / free / pending so that most ops are valid.
func genFlCase(r *rng, maxPg int, length int) []flOp {
	var ops []flOp
	inFree := map[uint64]bool{}
	inPend := map[uint64]bool{}
	var initIDs []uint64
	for p := 2; p < maxPg; p++ {
		if r.chance(1, 2) {
			initIDs = append(initIDs, uint64(p))
			inFree[uint64(p)] = true
		}
	}
	ops = append(ops, flOp{kind: "init", ids: initIDs})
	txid := uint64(1 + r.intn(3))
	readers := []uint64{}
	for len(ops) < length {
		switch k := r.intn(100); {
		case k < 25: // alloc
			ops = append(ops, flOp{kind: "alloc", a: txid, b: uint64(1 + r.intn(4))})
			// we do not know the result here; mark conservatively: recompute nothing. The oracle is the judge.
			// To keep later frees mostly valid we drop our tracking of free (frees pick from not-free&not-pend).
			for p := range inFree {
				if r.chance(1, 4) {
					delete(inFree, p)
				}
			}
		case k < 55: // free a page believed in use
			id := uint64(2 + r.intn(maxPg-2))
			ov := uint64(0)
			if r.chance(1, 4) {
				ov = uint64(1 + r.intn(2))
			}
			valid := true
			for q := id; q <= id+ov; q++ {
				if inFree[q] || inPend[q] {
					valid = false
				}
			}
			if !valid && !r.chance(1, 20) { // malformed stream: 5% of invalid frees are kept (expected panic)
				continue
			}
			ops = append(ops, flOp{kind: "free", a: txid, b: id, c: ov})
			if !valid {
				return ops
			}
			for q := id; q <= id+ov; q++ {
				inPend[q] = true
			}
		case k < 60:
			t := txid
			if r.chance(1, 4) && txid > 1 {
				t = txid - 1
			}
			ops = append(ops, flOp{kind: "rollback", a: t})
			if t == txid {
				// pages freed by txid return to "in use"; we don't track per tx, so resync lazily
				inPend = map[uint64]bool{}
			}
		case k < 70:
			t := txid
			if r.chance(1, 3) && txid > 0 {
				t = txid - uint64(r.intn(int(txid)+1))
			}
			readers = append(readers, t)
			ops = append(ops, flOp{kind: "addr", a: t})
		case k < 78:
			if len(readers) > 0 {
				i := r.intn(len(readers))
				ops = append(ops, flOp{kind: "delr", a: readers[i]})
				readers = append(readers[:i], readers[i+1:]...)
			}
		case k < 90:
			txid++
			ops = append(ops, flOp{kind: "release"})
			inPend = map[uint64]bool{} // unknown; frees below may panic occasionally, which is fine
		case k < 94:
			ops = append(ops, flOp{kind: "write"})
		case k < 97:
			ops = append(ops, flOp{kind: "reload"})
		default:
			var ids []uint64
			for p := 2; p < maxPg; p++ {
				if r.chance(1, 3) {
					ids = append(ids, uint64(p))
				}
			}
			ops = append(ops, flOp{kind: "nosync", ids: ids})
		}
	}
	return ops
}

// exhaustive short sequences over a small universe, after a fixed prefix that creates a non-trivial state.
func genFlExhaustive(depth int, emit func(ops []flOp)) {
	var alpha []flOp
	for _, tx := range []uint64{2, 3} {
		for n := uint64(1); n <= 3; n++ {
			alpha = append(alpha, flOp{kind: "alloc", a: tx, b: n})
		}
		for _, id := range []uint64{3, 6} {
			for ov := uint64(0); ov <= 1; ov++ {
				alpha = append(alpha, flOp{kind: "free", a: tx, b: id, c: ov})
			}
		}
		alpha = append(alpha, flOp{kind: "rollback", a: tx})
	}
	for _, t := range []uint64{0, 1, 2, 3} {
		alpha = append(alpha, flOp{kind: "addr", a: t}, flOp{kind: "delr", a: t})
	}
	alpha = append(alpha, flOp{kind: "release"}, flOp{kind: "write"}, flOp{kind: "reload"})
	prefixes := [][]flOp{
		{{kind: "init", ids: []uint64{2, 4, 5, 8, 9, 10}}},
		{{kind: "init", ids: []uint64{4, 5, 9}}, {kind: "alloc", a: 1, b: 2}, {kind: "free", a: 1, b: 7, c: 1}},
	}
	var rec func(cur []flOp, d int)
	rec = func(cur []flOp, d int) {
		if d == 0 {
			emit(append([]flOp{}, cur...))
			return
		}
		for _, o := range alpha {
			rec(append(cur, o), d-1)
		}
	}
	for _, p := range prefixes {
		rec(append([]flOp{}, p...), depth)
	}
}

// serialisation boundary: n ids around 0xFFFF, split between free and pending
func genFlSerial(n int, pendEvery int) []flOp {
	var free []uint64
	var ops []flOp
	var pend []uint64
	for i := 0; i < n; i++ {
		id := uint64(2 + 2*i) // non adjacent: worst case for spans
		if pendEvery > 0 && i%pendEvery == 0 {
			pend = append(pend, id)
		} else {
			free = append(free, id)
		}
	}
	ops = append(ops, flOp{kind: "init", ids: free})
	if len(pend) > 0 {
		ops = append(ops, flOp{kind: "freemany", a: 5, ids: pend})
	}
	ops = append(ops, flOp{kind: "write"}, flOp{kind: "reload"})
	return ops
}

func c09Main(args []string) error {
	c := newCommon("c09")
	depth := c.fs.Int("depth", 2, "exhaustive depth (0 = none)")
	serial := c.fs.Bool("serial", true, "include serialisation boundary cases")
	c.fs.Parse(args)
	w, done := openOut(c.out)
	defer done()
	if c.replay != "" {
		return c09Replay(w, c.replay)
	}
	r := &rng{s: c.seed}
	id := 0
	if *depth > 0 {
		for _, be := range []string{"array", "hashmap"} {
			genFlExhaustive(*depth, func(ops []flOp) { runFlCase(w, id, be, ops); id++ })
		}
	}
	for i := 0; i < c.n; i++ {
		cr := r.fork()
		be := []string{"array", "hashmap"}[i%2]
		maxPg := []int{12, 40, 300}[cr.intn(3)]
		runFlCase(w, id, be, genFlCase(cr, maxPg, 20+cr.intn(100)))
		id++
	}
	sizes := []int{65533, 65534, 65535, 65536, 65537}
	if c.tier == "thorough" {
		sizes = append(sizes, 131070, 131071, 200000)
	}
	if !*serial {
		sizes = nil
	}
	for _, n := range sizes {
		for _, be := range []string{"array", "hashmap"} {
			pes := []int{0, 997}
			if c.tier == "thorough" && n == 65535 {
				pes = append(pes, 7) // many pending ids: quadratic in the list-based model, thorough tier only
			}
			for _, pe := range pes {
				runFlCase(w, id, be, genFlSerial(n, pe))
				id++
			}
		}
	}
	return nil
}

func c09Replay(w *bufio.Writer, path string) error {
	f, err := os.Open(path)
	if err != nil {
		return err
	}
	defer f.Close()
	sc := bufio.NewScanner(f)
	sc.Buffer(make([]byte, 1<<20), 1<<28)
	var ops []flOp
	backend := ""
	id := 0
	flush := func() {
		if backend != "" {
			runFlCase(w, id, backend, ops)
		}
		ops = nil
	}
	for sc.Scan() {
		fields := strings.Fields(sc.Text())
		if len(fields) == 0 {
			continue
		}
		switch fields[0] {
		case "case":
			flush()
			fmt.Sscanf(fields[1], "%d", &id)
			backend = fields[2]
		case "o":
			ops = append(ops, parseFlOp(fields[1:]))
		}
	}
	flush()
	return nil
}
