(* Hand-written glue (unverified): conversions between OCaml ints/strings and the extracted N / nat / lists. *)
open BinNums

let rec pos_of_int i = if i = 1 then Coq_xH else if i land 1 = 1 then Coq_xI (pos_of_int (i lsr 1)) else Coq_xO (pos_of_int (i lsr 1))
let n_of_int i = if i <= 0 then N0 else Npos (pos_of_int i)
let rec int_of_pos = function Coq_xH -> 1 | Coq_xO p -> 2 * int_of_pos p | Coq_xI p -> 2 * int_of_pos p + 1
let int_of_n = function N0 -> 0 | Npos p -> int_of_pos p
let rec nat_of_int i = if i <= 0 then Datatypes.O else Datatypes.S (nat_of_int (i - 1))
let rec int_of_nat = function Datatypes.O -> 0 | Datatypes.S n -> 1 + int_of_nat n

let n10 = n_of_int 10
(* decimal string -> N, exact for any size (u64 values exceed OCaml's 63-bit int) *)
let n_of_string s =
  if String.length s <= 17 then n_of_int (int_of_string s)
  else begin
    let acc = ref N0 in
    String.iter (fun c -> acc := BinNat.N.add (BinNat.N.mul !acc n10) (n_of_int (Char.code c - 48))) s;
    !acc
  end

let rec bits_of_pos = function Coq_xH -> 1 | Coq_xO p | Coq_xI p -> 1 + bits_of_pos p
let string_of_n n =
  match n with
  | N0 -> "0"
  | Npos p when bits_of_pos p <= 61 -> string_of_int (int_of_pos p)
  | _ ->
    let buf = Buffer.create 24 in
    let rec go n acc =
      match n with
      | N0 -> acc
      | _ -> let (q, r) = BinNat.N.div_eucl n n10 in go q (string_of_int (int_of_n r) :: acc) in
    List.iter (Buffer.add_string buf) (go n []); Buffer.contents buf

let csv_of_ns l = if l = [] then "-" else String.concat "," (List.map string_of_n l)
let ns_of_csv s = if s = "-" || s = "" then [] else List.map n_of_string (String.split_on_char ',' s)

let split_ws s = List.filter (fun x -> x <> "") (String.split_on_char ' ' s)

(* key=value fields of an observation line *)
let kv_of fields =
  List.filter_map (fun f -> match String.index_opt f '=' with
    | Some i -> Some (String.sub f 0 i, String.sub f (i + 1) (String.length f - i - 1))
    | None -> None) fields
let get kv k = try List.assoc k kv with Not_found -> ""

(* bound the time of one decode: a hostile image can carry counts that keep the decoder busy for minutes *)
exception Timeout
let with_timeout secs f =
  let old = Sys.signal Sys.sigalrm (Sys.Signal_handle (fun _ -> raise Timeout)) in
  ignore (Unix.alarm secs);
  let r = try let v = f () in ignore (Unix.alarm 0); Some v with Timeout -> None in
  Sys.set_signal Sys.sigalrm old; r
