(* tree driver: Tree.v (node.rebalance + node.spill as a function on one bucket's node tree) against the real commit.
   mode "tree04": the tree of pages the commit leaves (shape, keys, values) - C04 (content preserved) / C05 (no emptied leaf remains)
   mode "tree07": the freelist events of the commit (which pages are freed, how many are allocated, in order) - C07's tree_ok *)
open Conv
open Hexu

let zeros = Array.make 1 BinNums.N0
let bytes_of_vtok vlen tok : BinNums.coq_N list =
  if vlen = 0 then []
  else if String.length tok > 0 && tok.[0] = '#' then
    let d = bytes_of_hex (String.sub tok 1 (String.length tok - 1)) in
    d @ List.init (max 0 (vlen - List.length d)) (fun _ -> zeros.(0))
  else bytes_of_hex tok

let parse_tree (toks : string list) : Tree.nt * string list =
  let toks = ref toks in
  let next () = match !toks with t :: r -> toks := r; t | [] -> failwith "tree: eof" in
  let rec go () =
    if next () <> "N" then failwith "tree: N expected";
    let mat = next () = "1" in let unbal = next () = "1" in let leaf = next () = "1" in
    let pgid = n_of_string (next ()) in let ov = n_of_string (next ()) in
    let key = (let k = next () in if k = "-" then [] else bytes_of_hex k) in
    let cnt = int_of_string (next ()) in
    let items = List.init cnt (fun _ -> ()) in
    let parsed = List.map (fun () ->
      let k = bytes_of_hex (next ()) in
      if leaf then begin
        let fl = n_of_string (next ()) in let vlen = int_of_string (next ()) in let vt = next () in
        ({ Node.i_flags = fl; i_key = k; i_val = bytes_of_vtok vlen vt; i_pgid = BinNums.N0 }, None)
      end else begin
        let pg = n_of_string (next ()) in
        let c = go () in
        ({ Node.i_flags = BinNums.N0; i_key = k; i_val = []; i_pgid = pg }, Some c)
      end) items in
    Tree.NT ({ Tree.h_mat = mat; h_unbal = unbal; h_pgid = pgid; h_ov = ov; h_key = key; h_leaf = leaf },
             List.map fst parsed, List.filter_map snd parsed) in
  let t = go () in (t, !toks)

(* values longer than 16 bytes are carried as digest ++ zeros (same length); a tree printed with full values is brought to that form *)
let norm_val (v : BinNums.coq_N list) : BinNums.coq_N list =
  let n = List.length v in
  if n <= 16 then v else
    let d = bytes_of_string (Digest.string (string_of_bytes v)) in
    d @ List.init (n - 16) (fun _ -> BinNums.N0)
let rec norm_tree (t : Tree.nt) : Tree.nt = match t with
  | Tree.NT (h, i, k) -> Tree.NT (h, List.map (fun (x : Node.inode) -> { x with Node.i_val = norm_val x.Node.i_val }) i, List.map norm_tree k)

let hd (t : Tree.nt) = match t with Tree.NT (h, _, _) -> h
let ins (t : Tree.nt) = match t with Tree.NT (_, i, _) -> i
let kids (t : Tree.nt) = match t with Tree.NT (_, _, k) -> k

(* first difference between the model's final tree and the implementation's, as text; "" = same.
   Page ids are compared where the model knows them (untouched pages); for rewritten pages the overflow count is compared. *)
let rec diff path (m : Tree.nt) (i : Tree.nt) : string =
  let hm = hd m and hi = hd i in
  let at = if path = "" then "root" else path in
  if hm.Tree.h_leaf <> hi.Tree.h_leaf then Printf.sprintf "%s: leaf impl=%b model=%b" at hi.Tree.h_leaf hm.Tree.h_leaf
  else if int_of_n hm.Tree.h_pgid <> 0 && hm.Tree.h_pgid <> hi.Tree.h_pgid then
    Printf.sprintf "%s: page id impl=%s model=%s (a page the model leaves untouched)" at (string_of_n hi.Tree.h_pgid) (string_of_n hm.Tree.h_pgid)
  else if hm.Tree.h_ov <> hi.Tree.h_ov then Printf.sprintf "%s: overflow impl=%s model=%s" at (string_of_n hi.Tree.h_ov) (string_of_n hm.Tree.h_ov)
  else begin
    let km = List.map (fun (x : Node.inode) -> (x.Node.i_key, x.Node.i_flags, x.Node.i_val)) (ins m)
    and ki = List.map (fun (x : Node.inode) -> (x.Node.i_key, x.Node.i_flags, x.Node.i_val)) (ins i) in
    if km <> ki then
      Printf.sprintf "%s: elements impl=%d [%s..] model=%d [%s..]" at (List.length ki)
        (match ki with (k, _, _) :: _ -> hex_of_bytes k | [] -> "") (List.length km) (match km with (k, _, _) :: _ -> hex_of_bytes k | [] -> "")
    else if List.length (kids m) <> List.length (kids i) then Printf.sprintf "%s: children impl=%d model=%d" at (List.length (kids i)) (List.length (kids m))
    else
      let rec go n ms is = match ms, is with
        | a :: mr, b :: ir -> let d = diff (Printf.sprintf "%s/%d" path n) a b in if d <> "" then d else go (n + 1) mr ir
        | _ -> "" in
      go 0 (kids m) (kids i)
  end

let show_ev = function Tree.EvFree (p, o) -> Printf.sprintf "F:%s:%s" (string_of_n p) (string_of_n o) | Tree.EvAlloc n -> Printf.sprintf "A:%s" (string_of_n n)

let run mode file =
  let want04 = (mode = "tree04" || mode = "ntree04") and want07 = (mode = "tree07" || mode = "ntree07") and want12 = (mode = "ntree12") in
  let nested = (mode = "ntree04" || mode = "ntree07" || mode = "ntree12") in
  let ic = open_in file in
  let cases = ref 0 and ops = ref 0 in
  let case_id = ref "" and ps = ref BinNums.N0 and fill = ref BinNums.N0 and inline = ref false in
  let pre = ref None and order = ref [] and fl = ref [] and post = ref None and bval = ref "" and seq = ref BinNums.N0 in
  let flags = ref [] in
  let flag f = if not (List.mem f !flags) then flags := f :: !flags in
  let digest = ref "" in
  let raw_children = ref [] (* children whose trees were printed with full values *) in
  let children = ref [] (* name, seq, pre tree *) and corders = ref [] and cposts = ref [] (* name, inline, tree *) in
  let report want kind rule i m =
    if want then Printf.printf "%s case=%s op=1 (commit) rule=%s impl=%s model=%s\n" kind !case_id rule i m in
  let fuel = nat_of_int 24 in
  let multiset l = List.sort compare l in
  let strip s = match String.split_on_char ':' s with ["A"; k; _] -> "A:" ^ k | _ -> s in
  (* bucket entries (odd flags): a 16-byte header carries the child's root page id, which the model cannot know - only its sequence half is compared *)
  let exact_names = ref [] in
  let rec ndiff path (m : Tree.nt) (i : Tree.nt) : string =
    let mask (x : Node.inode) =
      if int_of_n x.Node.i_flags land 1 = 1 && List.length x.Node.i_val = 16 then { x with Node.i_val = List.filteri (fun k _ -> k >= 8) x.Node.i_val }
      else if int_of_n x.Node.i_flags land 1 = 1 && not (List.mem x.Node.i_key !exact_names) then
        (* an inline child whose tree was recorded with digests only: the model knows the length of the stored value, not its bytes *)
        { x with Node.i_val = List.map (fun _ -> BinNums.N0) x.Node.i_val }
      else x in
    match m, i with
    | Tree.NT (hm, im, km), Tree.NT (hi, ii, ki) ->
      let d = diff path (Tree.NT (hm, List.map mask im, [])) (Tree.NT (hi, List.map mask ii, [])) in
      if d <> "" then d else if List.length km <> List.length ki then Printf.sprintf "%s: children impl=%d model=%d" path (List.length ki) (List.length km)
      else (let rec go n a b = match a, b with x :: ar, y :: br -> let d = ndiff (Printf.sprintf "%s/%d" path n) x y in if d <> "" then d else go (n + 1) ar br | _ -> "" in go 0 km ki) in
  let judge_nested () =
    match !pre, !post with
    | Some t, Some p ->
      incr ops;
      let all_evs = ref [] and ok = ref true in
      exact_names := List.filter (fun n -> List.mem n !raw_children) (List.map (fun (n, _, _) -> n) !children);
      let values = List.filter_map (fun (name, seq, ct) ->
        let order = try List.assoc name !corders with Not_found -> [] in
        match Tree.commit_bucket !ps !fill fuel ct order with
        | Base.Ok ((mt, mevs), minl) ->
          all_evs := !all_evs @ mevs;
          if minl then flag "child-inline-after" else flag "child-paged-after";
          (* the child after the commit *)
          (match List.find_opt (fun (n, _, _) -> n = name) !cposts with
           | Some (_, iinl, ipost) ->
             if iinl <> minl then (report want04 "MISMATCH" "child_inline_decision" (string_of_bool iinl) (string_of_bool minl); ok := false)
             else (let d = diff "" (if List.mem name !raw_children then norm_tree mt else mt) (if iinl then norm_tree ipost else ipost) in if d <> "" then (report want04 "MISMATCH" "child_tree_after_commit" d (hex_of_bytes name); ok := false))
           | None -> ());
          if not (hd ct).Tree.h_mat then None       (* no materialised root: the child is not written back *)
          else if minl then (match Node.bucket_write seq { Node.n_leaf = true; n_unbal = false; n_inodes = ins mt } with
              | Base.Ok b -> Some (name, norm_val b) | _ -> ok := false; None)
          else Some (name, Node.bucket_header_value BinNums.N0 seq)
        | _ -> report (want04 || want07) "MISMATCH" "tree_model" "commit succeeded" ("model: child " ^ hex_of_bytes name ^ " inconsistent"); ok := false; None) !children in
      if !ok then begin
        match Tree.commit_parent_bucket !ps !fill fuel t !order values with
        | Base.Ok ((mt, mevs), minl) ->
          let iinl = (int_of_n (hd p).Tree.h_pgid = 0) in
          if minl then flag "parent-inline-after";
          if minl <> iinl then report want04 "MISMATCH" "parent_inline_decision" (string_of_bool iinl) (string_of_bool minl);
          (* the published format: an inline bucket holds plain key/value pairs only - a nested bucket inside it is walked by no page walker *)
          if iinl && List.exists (fun (x : Node.inode) -> int_of_n x.Node.i_flags land 1 = 1) (ins p) then
            report (want07 || want12) "PROPFAIL" "inline_bucket_holds_no_bucket" "an inline bucket holds a nested bucket entry" "never inline";
          let d = ndiff "" mt p in
          if d <> "" then report want04 "MISMATCH" "parent_tree_after_commit" d "see impl";
          let iev = !fl in
          let n = List.length iev in
          let mine = List.filteri (fun idx _ -> idx < n - 4) iev in
          let ie = multiset (List.map strip mine) and me = multiset (List.map show_ev (mevs @ !all_evs)) in
          if ie <> me then report want07 "MISMATCH" "freelist_events_of_commit_with_children" (String.concat " " ie) (String.concat " " me);
          if List.length values > 0 then flag "child-written-back";
          if List.length !children > List.length values then flag "clean-child-skipped";
          if int_of_nat (Tree.depth fuel t) >= 2 then flag "parent-depth2+"
        | Base.Panic -> report (want04 || want07) "MISMATCH" "tree_model" "commit succeeded" "model: parent inconsistent (Panic)"
        | Base.OutOfFuel -> report (want04 || want07) "MISMATCH" "tree_model" "commit succeeded" "model: out of fuel"
      end
    | _ -> () in
  let judge () =
    match !pre, !post with
    | Some t, Some praw ->
      incr ops;
      let p = if !inline then norm_tree praw else praw in
      (* (S) on the implementation's own observations *)
      let fpre = List.map (fun (x : Node.inode) -> (x.Node.i_key, x.Node.i_val)) (Tree.flatten fuel t)
      and fpost = List.map (fun (x : Node.inode) -> (x.Node.i_key, x.Node.i_val)) (Tree.flatten fuel p) in
      if fpre <> fpost then report want04 "PROPFAIL" "commit_keeps_content" (Printf.sprintf "%d keys after" (List.length fpost)) (Printf.sprintf "%d keys before" (List.length fpre));
      if not (Tree.no_empty fuel true p) then report want04 "PROPFAIL" "no_emptied_page_after_commit" "a committed tree has an empty non-root page" "none";
      if int_of_nat (Tree.depth fuel t) >= 3 then flag "depth3+" else if int_of_nat (Tree.depth fuel t) = 2 then flag "depth2";
      begin
        match Tree.commit_bucket !ps !fill fuel t !order with
        | Base.Ok ((mt, mevs), minl) ->
          if minl then flag "inline-after";
          if minl <> !inline then report want04 "MISMATCH" "inline_decision" (string_of_bool !inline) (string_of_bool minl);
          let d = diff "" mt p in
          if d <> "" then report want04 "MISMATCH" "tree_after_commit" d "see impl" ;
          (* events: everything the commit did to the freelist, minus the root bucket's own leaf (free + allocate 1) and the freelist page (free + allocate) at the end *)
          let iev = !fl in
          let n = List.length iev in
          let mine = List.filteri (fun idx _ -> idx < n - 4) iev in
          let strip s = match String.split_on_char ':' s with ["A"; k; _] -> "A:" ^ k | _ -> s in
          let ie = List.map strip mine and me = List.map show_ev mevs in
          if ie <> me then report want07 "MISMATCH" "freelist_events_of_commit" (String.concat " " ie) (String.concat " " me);
          List.iter (function Tree.EvFree _ -> flag "free" | Tree.EvAlloc n -> if int_of_n n > 1 then flag "multi-page-alloc") mevs;
          if List.length !order > 0 then flag "rebalance-visits";
          (* Bucket.write / Bucket.spill: the value the parent stores for the bucket - the header, and for an inline bucket the root leaf written behind it *)
          if d = "" && !bval <> "" && want04 then begin
            let expect =
              if minl then (match Node.bucket_write !seq { Node.n_leaf = true; n_unbal = false; n_inodes = ins praw } with Base.Ok b -> hex_of_bytes b | _ -> "panic")
              else hex_of_bytes (Node.bucket_header_value (hd p).Tree.h_pgid !seq) in
            if expect <> !bval then report want04 "PROPFAIL" "bucket_value_in_parent" (if String.length !bval > 120 then String.sub !bval 0 120 ^ ".." else !bval) (if String.length expect > 120 then String.sub expect 0 120 ^ ".." else expect)
            else flag (if minl then "inline-value-checked" else "header-value-checked")
          end;
          if List.length (Tree.flatten fuel t) = 0 then flag "emptied-bucket";
          if int_of_nat (Tree.depth fuel mt) < int_of_nat (Tree.depth fuel t) then flag "depth-shrinks"
          else if int_of_nat (Tree.depth fuel mt) > int_of_nat (Tree.depth fuel t) then flag "depth-grows";
          (* pages: new tree = old tree - freed + allocated (allocated ids from the trace) *)
          let runs l = List.concat_map (fun (p, o) -> List.init (int_of_n o + 1) (fun k -> int_of_n p + k)) l in
          let before = List.sort compare (runs (Tree.page_runs fuel t)) and after = List.sort compare (runs (Tree.page_runs fuel p)) in
          let freed = List.concat_map (fun s -> match String.split_on_char ':' s with ["F"; a; b] -> List.init (int_of_string b + 1) (fun k -> int_of_string a + k) | _ -> []) mine in
          let alloc_n = List.fold_left (fun a s -> match String.split_on_char ':' s with ["A"; k; _] -> a + int_of_string k | _ -> a) 0 mine in
          let alloc_known = List.concat_map (fun s -> match String.split_on_char ':' s with ["A"; k; id] when id <> "0" -> List.init (int_of_string k) (fun j -> int_of_string id + j) | _ -> []) mine in
          let kept = List.filter (fun x -> not (List.mem x freed)) before in
          let fresh = List.filter (fun x -> not (List.mem x kept)) after in
          (* pages of the new tree = pages of the old tree that were not freed + exactly the allocated ones; a page freed by this transaction is not reused by it *)
          if not (List.for_all (fun x -> List.mem x after) kept) || List.length fresh <> alloc_n
             || List.exists (fun x -> List.mem x freed) after || not (List.for_all (fun x -> List.mem x fresh) alloc_known)
             || List.length (List.sort_uniq compare after) <> List.length after then
            report want07 "PROPFAIL" "pages_after_commit_are_old_minus_freed_plus_allocated" (Printf.sprintf "%d pages, %d new" (List.length after) (List.length fresh)) (Printf.sprintf "%d kept + %d allocated" (List.length kept) alloc_n);
          if List.exists (fun x -> not (List.mem x before)) freed then report want07 "PROPFAIL" "only_pages_of_the_tree_are_freed" "a freed page was not part of the bucket's tree" "-"
        | Base.Panic -> report (want04 || want07) "MISMATCH" "tree_model" "commit succeeded" "model: inconsistent tree (Panic)"
        | Base.OutOfFuel -> report (want04 || want07) "MISMATCH" "tree_model" "commit succeeded" "model: out of fuel"
      end
    | _ -> () in
  (try while true do
    let line = input_line ic in
    match split_ws line with
    | "case" :: id :: rest ->
      incr cases; case_id := id; flags := []; pre := None; post := None; order := []; fl := []; children := []; corders := []; cposts := []; raw_children := [];
      let kv = kv_of rest in
      ps := n_of_string (get kv "ps"); fill := n_of_string (get kv "fill"); inline := (get kv "inline" = "1"); digest := "";
      bval := ""; seq := (let q = get kv "seq" in if q = "" then BinNums.N0 else n_of_string q)
    | "pre" :: toks -> digest := Digest.to_hex (Digest.string line); pre := Some (fst (parse_tree toks))
    | "post" :: toks -> post := Some (fst (parse_tree toks))
    | ["order"; o] -> order := ns_of_csv o
    | ["bval"; v] -> bval := v
    | ["panic"; msg] ->
      incr ops;
      Printf.printf "PROPFAIL case=%s op=1 (commit) rule=commit_of_a_valid_transaction_panics impl=panic:%s model=ok\n" !case_id msg;
      post := None
    | "child" :: name :: sq :: _ :: toks ->
      let seqv = (match String.split_on_char '=' sq with [_; v] -> n_of_string v | _ -> BinNums.N0) in
      children := !children @ [(bytes_of_hex name, seqv, fst (parse_tree toks))];
      if List.mem "small=1" (split_ws line) then raw_children := bytes_of_hex name :: !raw_children
    | ["corder"; name; o] -> corders := (bytes_of_hex name, ns_of_csv o) :: !corders
    | "cpost" :: name :: il :: toks -> cposts := (bytes_of_hex name, il = "inline=1", fst (parse_tree toks)) :: !cposts
    | "fl" :: evs -> fl := evs
    | ["end"] ->
      (if nested then judge_nested () else judge ());
      Printf.printf "CASE %s %s %s\n" !case_id !digest (if !flags = [] then "-" else String.concat "," (List.rev !flags))
    | _ -> ()
  done with End_of_file -> ());
  close_in ic;
  Printf.printf "SUMMARY cases=%d ops=%d kinds=tree-commit:%d\n" !cases !ops !ops
