(* C05 driver: the faithful cursor model (K) and the sorted-list specification (S) against the real cursor *)
open Conv
open Hexu

let parse_tree (toks : string list) : Cursor.tree =
  let toks = ref toks in
  let next () = match !toks with t :: r -> toks := r; t | [] -> failwith "tree: eof" in
  let rec go () =
    let t = next () in
    let n = int_of_string (String.sub t 1 (String.length t - 1)) in
    if t.[0] = 'L' then
      Cursor.Leaf (List.init n (fun _ ->
        match String.split_on_char ':' (next ()) with
        | k :: fl :: rest -> ((bytes_of_hex k, n_of_int (int_of_string fl)), bytes_of_string (String.concat ":" rest))
        | _ -> failwith "leaf elem"))
    else
      Cursor.Branch (List.init n (fun _ -> let k = bytes_of_hex (next ()) in let c = go () in (k, c))) in
  go ()

let show_res (k, v) =
  (match k with None -> "nil" | Some [] -> "empty" | Some k -> hex_of_bytes k) ^ " " ^
  (match v with None -> "nil" | Some v -> string_of_bytes v)

let rec last_leaf_empty (t : Cursor.tree) = match t with
  | Cursor.Leaf es -> es = []
  | Cursor.Branch cs -> (match List.rev cs with (_, c) :: _ -> last_leaf_empty c | [] -> false)

let run file =
  let ic = open_in file in
  let cases = ref 0 and seqs = ref 0 and ops = ref 0 and mism = ref 0 and pfail = ref 0 in
  let case_id = ref "" and tree = ref (Cursor.Leaf []) and flat = ref [] in
  let st = ref [] and lp = ref Cursor.Unset in
  let calls = ref [] in   (* current sequence, for reporting *)
  let flags = ref [] and optext = Buffer.create 256 in
  let flag f = if not (List.mem f !flags) then flags := f :: !flags in
  let dead = ref false and seq_dead = ref false and sdead = ref false in
  let cur = ref [] and fuel = ref Datatypes.O in
  let nil_next_streak = ref false in
  let report kind what i m =
    Printf.printf "%s case=%s op=%d (%s) %s impl=%s model=%s seq=%s\n" kind !case_id !seqs (String.concat " " !cur) what i m
      (String.concat "," (List.rev !calls)) in
  (try while true do
    let line = input_line ic in
    match split_ws line with
    | "case" :: id :: rest -> incr cases; case_id := id; dead := false; flags := []; Buffer.clear optext;
      List.iter (fun f -> if f = "mode=w" then flag "write-tx") rest
    | "tree" :: toks ->
      tree := parse_tree toks; flat := Cursor.flatten !tree;
      Buffer.add_string optext (String.concat " " toks);
      fuel := nat_of_int (4 * int_of_nat (Cursor.nodes !tree) + 16);
      if not (Cursor.wf !tree) then (incr mism; report "MISMATCH" "what=hypothesis" "dumped tree is not key-ordered (Cursor.wf)" "wf");
      if Cursor.has_empty_leaf !tree && not (List.mem "write-tx" !flags) then
        (incr mism; report "MISMATCH" "what=hypothesis" "a committed tree has an emptied non-root leaf" "none");
      if Cursor.has_empty_leaf !tree then flag "empty-leaf";
      if int_of_nat (Cursor.depth !tree) >= 3 then flag "depth3+" else if int_of_nat (Cursor.depth !tree) = 2 then flag "depth2";
      if List.exists (fun ((_, fl), _) -> int_of_n fl = 1) !flat then flag "nested-buckets";
      if !flat = [] then flag "empty-bucket"
    | ["seq"] -> incr seqs; nil_next_streak := false; st := []; lp := Cursor.Unset; calls := []; seq_dead := false; sdead := false
    | "o" :: rest -> cur := rest; calls := String.concat " " rest :: !calls
    | ["r"; "hang"] ->
      incr pfail; Printf.printf "PROPFAIL case=%s op=%d (%s) rule=terminates a cursor call did not return within the deadline seq=%s\n"
        !case_id !seqs (String.concat " " !cur) (String.concat "," (List.rev !calls)); dead := true
    | "r" :: k :: v :: _ when not !dead ->
      incr ops;
      let call = match !cur with
        | ["first"] -> Cursor.CFirst | ["last"] -> Cursor.CLast | ["next"] -> Cursor.CNext | ["prev"] -> Cursor.CPrev
        | ["seek"; key] -> flag "seek"; Cursor.CSeek (bytes_of_hex key)
        | _ -> failwith "bad call" in
      let impl = k ^ " " ^ v in
      (* (K) faithful model on the dumped tree *)
      if not !seq_dead then begin
        match Cursor.api_call true !fuel !tree !st call with
        | Base.Ok (st', out) ->
          st := st';
          if show_res out <> impl then (incr mism; seq_dead := true; report "MISMATCH" "what=cursor" impl (show_res out))
        | Base.Panic -> incr mism; seq_dead := true; report "MISMATCH" "what=cursor" impl "panic"
        | Base.OutOfFuel -> incr mism; seq_dead := true; report "MISMATCH" "what=cursor" impl "out-of-fuel"
      end;
      (* (S) the property: same calls on a sorted list with a position *)
      if not !sdead then begin
        let (lp', out) = Cursor.list_call !flat !lp call in
        lp := lp';
        if show_res out <> impl then begin
          incr pfail; sdead := true;
          (* signature of known finding D9: Prev right after Next ran off the upper end into a trailing emptied leaf *)
          let sg = if !cur = ["prev"] && !nil_next_streak && last_leaf_empty !tree then " sig=d9" else "" in
          report "PROPFAIL" ("rule=list_cursor" ^ sg) impl (show_res out)
        end
      end;
      (match !cur with
       | ["next"] -> if k = "nil" then nil_next_streak := true
       | _ -> nil_next_streak := false)
    | "end" :: _ ->
      Printf.printf "CASE %s %s %s\n" !case_id (Digest.to_hex (Digest.string (Buffer.contents optext)))
        (if !flags = [] then "-" else String.concat "," (List.sort compare !flags))
    | _ -> ()
  done with End_of_file -> ());
  close_in ic;
  Printf.printf "SUMMARY cases=%d ops=%d mismatches=%d propfails=%d sequences=%d kinds=\n" !cases !ops !mism !pfail !seqs
