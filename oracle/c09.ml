(* C09 driver: replays allocator traces on the extracted model, compares observations (K) and evaluates the
   property decision procedures on the implementation's own before/after states (S). *)
open Conv
open Freelist

let parse_pend s : (BinNums.coq_N * txp) list =
  if s = "-" || s = "" then [] else
  List.map (fun ent ->
    match String.split_on_char ':' ent with
    | [tid; lrb; ids] ->
      let pairs = if ids = "" then [] else List.map (fun pa ->
        match String.split_on_char '/' pa with
        | [p; a] -> (n_of_string p, n_of_string a)
        | _ -> failwith ("bad pair " ^ pa)) (String.split_on_char ',' ids) in
      (n_of_string tid, { t_ids = pairs; t_lrb = n_of_string lrb })
    | _ -> failwith ("bad pend " ^ ent)) (String.split_on_char ';' s)

let canon_pend (p : (BinNums.coq_N * txp) list) : string =
  let ents = List.map (fun (tid, t) ->
    let ids = List.sort compare (List.map (fun (p, a) -> (int_of_n p, string_of_n a)) t.t_ids) in
    (string_of_n tid, Printf.sprintf "%s:%s:%s" (string_of_n tid) (string_of_n t.t_lrb)
       (String.concat "," (List.map (fun (p, a) -> Printf.sprintf "%d/%s" p a) ids)))) p in
  let ents = List.sort (fun (a, _) (b, _) -> compare (int_of_string a) (int_of_string b)) ents in
  if ents = [] then "-" else String.concat ";" (List.map snd ents)

let run file =
  let ic = open_in file in
  let cases = ref 0 and ops = ref 0 and mism = ref 0 and pfail = ref 0 and panics = ref 0 in
  let kinds = Hashtbl.create 16 in
  let bump k = Hashtbl.replace kinds k (1 + try Hashtbl.find kinds k with Not_found -> 0) in
  let case_id = ref "" and backend = ref Array and st = ref fl_empty and impl = ref fl_empty in
  let readers = ref [] in
  (* (S) "rollback restores exactly the prior state", observable part: the allocating txid recorded when a page is
     freed is the txid of the latest surviving Allocate of that page (events of rolled-back transactions are void) *)
  let events : (int, (string * string) list) Hashtbl.t = Hashtbl.create 64 in    (* page -> [(kind, txid)] newest first *)
  let tainted : (int, unit) Hashtbl.t = Hashtbl.create 16 in                      (* overflow members of rolled-back frees *)
  let freed_by : (string, (int * int) list) Hashtbl.t = Hashtbl.create 8 in     (* txid -> [(head, ov)] *)
  let hist_ok = ref true in          (* an out-of-place Reload/NoSyncReload/Init makes pages free again behind the records' back *)
  let ev_push p e = Hashtbl.replace events p (e :: (try Hashtbl.find events p with Not_found -> [])) in
  let opidx = ref 0 and optext = Buffer.create 256 and flags = ref [] in
  let dead = ref false in
  let cur_op = ref [] in
  let flag f = if not (List.mem f !flags) then flags := f :: !flags in
  let mismatch what i m =
    incr mism;
    let cut s = if String.length s > 300 then String.sub s 0 300 ^ "..." else s in
    Printf.printf "MISMATCH case=%s op=%d (%s) what=%s impl=%s model=%s\n" !case_id !opidx (String.concat " " !cur_op) what (cut i) (cut m) in
  let propfail rule =
    incr pfail;
    Printf.printf "PROPFAIL case=%s op=%d (%s) rule=%s\n" !case_id !opidx (String.concat " " !cur_op) rule in
  (try while true do
    let line = input_line ic in
    match split_ws line with
    | "case" :: id :: be :: _ ->
      incr cases; case_id := id; backend := (if be = "hashmap" then Hashmap else Array);
      st := fl_empty; impl := fl_empty; readers := []; opidx := 0; Buffer.clear optext; flags := []; dead := false;
      Hashtbl.reset events; Hashtbl.reset tainted; Hashtbl.reset freed_by; hist_ok := true;
      Buffer.add_string optext be
    | "o" :: rest -> cur_op := rest; incr opidx; Buffer.add_string optext (String.concat " " rest); Buffer.add_char optext '\n'
    | "s" :: fields when not !dead ->
      incr ops;
      let kv = kv_of fields in
      let ret = get kv "ret" in
      let kind = List.hd !cur_op in
      bump kind;
      let arg i = n_of_string (List.nth !cur_op i) in
      let choice = if ret = "panic" then BinNums.N0 else n_of_string ret in
      let op = match kind with
        | "init" -> OInit (ns_of_csv (List.nth !cur_op 1))
        | "alloc" -> OAlloc (arg 1, arg 2, choice)
        | "free" -> OFree (arg 1, arg 2, arg 3)
        | "freemany" -> OFreeMany (arg 1, ns_of_csv (List.nth !cur_op 2))
        | "rollback" -> ORollback (arg 1)
        | "addr" -> OAddReader (arg 1)
        | "delr" -> ODelReader (arg 1)
        | "release" -> ORelease
        | "write" -> OWrite
        | "reload" -> OWriteReload
        | "nosync" -> ONoSyncReload (ns_of_csv (List.nth !cur_op 1))
        | k -> failwith ("bad op " ^ k) in
      let before_model = !st in
      (match step !backend !st op with
       | Base.Panic ->
         if ret = "panic" then (incr panics; flag "panic") else mismatch "panic" ret "panic";
         dead := true
       | Base.OutOfFuel -> mismatch "fuel" ret "outoffuel"; dead := true
       | Base.Ok (mret, st') ->
         if ret = "panic" then (mismatch "panic" "panic" (string_of_n mret); dead := true)
         else begin
           st := st';
           (* implementation's state as an fl record (readers tracked from the op stream = an input) *)
           (match kind with "addr" -> readers := !readers @ [arg 1] | "delr" -> readers := remove_first (arg 1) !readers | _ -> ());
           let ifree = ns_of_csv (get kv "free") in
           let ipend = parse_pend (get kv "pend") in
           let impl_before = !impl in
           let impl_after = { free = ifree; pending = ipend; allocs = []; readers = !readers } in
           impl := impl_after;
           (* (K) correspondence on projected observables *)
           if string_of_n mret <> ret then mismatch "ret" ret (string_of_n mret);
           let mfree = csv_of_ns st'.free in
           if mfree <> get kv "free" then mismatch "free" (get kv "free") mfree;
           let mp = canon_pend st'.pending and ip = canon_pend ipend in
           if mp <> ip then mismatch "pending" ip mp;
           if string_of_n (free_count st') <> get kv "fc" then mismatch "FreeCount" (get kv "fc") (string_of_n (free_count st'));
           if string_of_n (pending_count st') <> get kv "pc" then mismatch "PendingCount" (get kv "pc") (string_of_n (pending_count st'));
           if string_of_n (count st') <> get kv "cnt" then mismatch "Count" (get kv "cnt") (string_of_n (count st'));
           if string_of_n (estimated_write_size st') <> get kv "est" then mismatch "EstimatedWritePageSize" (get kv "est") (string_of_n (estimated_write_size st'));
           let mc = csv_of_ns (copyall st') in
           if mc <> get kv "copy" then mismatch "Copyall" (get kv "copy") mc;
           (* (S) the property itself on the implementation's observations *)
           (match kind with
            | "alloc" ->
              if not (alloc_ok !backend impl_before.free (arg 2) choice ifree) then propfail "alloc_ok";
              if ret <> "0" then begin
                (* a page handed out twice without a free in between (only possible after an out-of-place reload): its record is not judged *)
                (match (try Hashtbl.find events (int_of_string ret) with Not_found -> []) with
                 | ("alloc", _) :: _ -> Hashtbl.replace tainted (int_of_string ret) () | _ -> ());
                ev_push (int_of_string ret) ("alloc", List.nth !cur_op 1)
              end;
              if ret <> "0" then flag "alloc-hit" else flag "alloc-miss"
            | "free" ->
              if not (free_ok (arg 1) (arg 2) (arg 3) impl_before impl_after) then propfail "free_ok"; flag "free";
              let head = int_of_n (arg 2) and ov = int_of_n (arg 3) and tx = List.nth !cur_op 1 in
              let expected = match (try Hashtbl.find events head with Not_found -> []) with ("alloc", t) :: _ -> t | _ -> "0" in
              if !hist_ok && not (Hashtbl.mem tainted head) then
                List.iter (fun (tid, t) -> if string_of_n tid = tx then
                  List.iter (fun (pg, a) -> if int_of_n pg >= head && int_of_n pg <= head + ov && string_of_n a <> expected then
                    propfail (Printf.sprintf "alloc_record page=%d recorded=%s expected=%s (the txid of its latest surviving allocation)" (int_of_n pg) (string_of_n a) expected)) t.t_ids) ipend;
              for p = head to head + ov do ev_push p ("free", tx) done;
              for p = head + 1 to head + ov do Hashtbl.replace tainted p () done;   (* records are kept per head page only *)
              Hashtbl.replace freed_by tx ((head, ov) :: (try Hashtbl.find freed_by tx with Not_found -> []))
            | "release" ->
              if not (release_ok impl_before impl_after) then propfail "release_ok";
              if List.length ifree > List.length impl_before.free then flag "release-moved";
              if impl_before.readers <> [] && ipend <> [] then flag "release-held"
            | "rollback" ->
              if not (rollback_ok (arg 1) impl_before impl_after) then propfail "rollback_ok";
              let tx = List.nth !cur_op 1 in
              (* Rollback is a no-op for a transaction without pending frees (shared.Rollback returns early) *)
              if List.exists (fun (tid, _) -> string_of_n tid = tx) impl_before.pending then
                Hashtbl.filter_map_inplace (fun _ l -> Some (List.filter (fun (_, t) -> t <> tx) l)) events;
              List.iter (fun (head, ov) -> for p = head + 1 to head + ov do Hashtbl.replace tainted p () done)
                (try Hashtbl.find freed_by tx with Not_found -> []);
              Hashtbl.remove freed_by tx;
              if List.length ipend < List.length impl_before.pending then flag "rollback-undid"
            | "write" ->
              let rb = ns_of_csv (get kv "rb") in
              if not (serial_ok impl_before rb) then propfail "serial_ok";
              if get kv "same" <> "true" then propfail "serial_backends_agree";
              let (c, body) = write_img before_model in
              if string_of_n c <> get kv "imgc" then mismatch "img.count" (get kv "imgc") (string_of_n c);
              if csv_of_ns body <> get kv "body" then mismatch "img.ids" (get kv "body") (csv_of_ns body);
              (* the page image, read by the model's reader of the published format, must give back free + pending *)
              let ibody = ns_of_csv (get kv "body") in
              if not (serial_ok impl_before (Base.sortN (read_ids (n_of_string (get kv "imgc"), ibody)))) then propfail "image_decodes_to_free_and_pending";
              if get kv "imgf" <> "16" then mismatch "img.flags" (get kv "imgf") "16";
              let need = 16 + 8 * List.length body in
              if int_of_n (estimated_write_size before_model) < need then propfail "estimate_too_small";
              if int_of_string (get kv "imglen") < need then propfail "image_too_small";
              if get kv "imgc" = "65535" then flag "serial-overflow" else flag "serial"
            | "reload" | "nosync" -> flag "reload"; hist_ok := false
            | _ -> ())
         end)
    | "s" :: _ -> ()
    | "end" :: _ ->
      Printf.printf "CASE %s %s %s\n" !case_id (Digest.to_hex (Digest.string (Buffer.contents optext)))
        (if !flags = [] then "-" else String.concat "," (List.sort compare !flags))
    | _ -> ()
  done with End_of_file -> ());
  close_in ic;
  let ks = Hashtbl.fold (fun k v acc -> Printf.sprintf "%s:%d" k v :: acc) kinds [] in
  Printf.printf "SUMMARY cases=%d ops=%d mismatches=%d propfails=%d panics_agreed=%d kinds=%s\n"
    !cases !ops !mism !pfail !panics (String.concat "," (List.sort compare ks))
