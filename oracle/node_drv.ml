(* node driver: Node.v (line-for-line model of node.go / inode.go) against the real node driven through the verif accessors.
   mode "node04": put/del/size/split judged for C04 (a leaf node is a sorted map; split loses and reorders nothing)
   mode "node12": write/read judged for C12 (the page a node writes is the published layout: the independent reader decodes it) *)
open Conv
open Hexu

let render (l : Node.inode list) =
  let b = Buffer.create 256 in
  List.iter (fun (i : Node.inode) ->
    Buffer.add_string b (string_of_n i.Node.i_flags); Buffer.add_char b ':';
    Buffer.add_string b (hex_of_bytes i.Node.i_key); Buffer.add_char b ':';
    Buffer.add_string b (if i.Node.i_val = [] then "v" else show_val (Some i.Node.i_val)); Buffer.add_char b ':';
    Buffer.add_string b (string_of_n i.Node.i_pgid); Buffer.add_char b ';') l;
  Buffer.contents b

let state_line (n : Node.node) =
  Printf.sprintf "st u=%d n=%d %s" (if n.Node.n_unbal then 1 else 0) (List.length n.Node.n_inodes) (digest_or_text (render n.Node.n_inodes))

let rd_of_string s =
  let len = String.length s in
  fun off -> match off with
    | BinNums.N0 -> if len > 0 then byte_tbl.(Char.code s.[0]) else BinNums.N0
    | BinNums.Npos p -> if bits_of_pos p > 40 then BinNums.N0 else
        let o = int_of_pos p in if o < len then byte_tbl.(Char.code s.[o]) else BinNums.N0

let string_of_hex h = String.init (String.length h / 2) (fun i -> Char.chr (hexval h.[2*i] * 16 + hexval h.[2*i+1]))

let rec take n l = if n <= 0 then [] else match l with [] -> [] | x :: r -> x :: take (n - 1) r
let rec drop n l = if n <= 0 then l else match l with [] -> [] | _ :: r -> drop (n - 1) r

let run mode file =
  let want04 = (mode = "node04") and want12 = (mode = "node12") in
  let ic = open_in file in
  let cases = ref 0 and ops = ref 0 in
  let case_id = ref "" and opn = ref 0 in
  let node = ref { Node.n_leaf = true; n_unbal = false; n_inodes = [] } in
  let ps = ref BinNums.N0 and fill = ref BinNums.N0 and mark = ref BinNums.N0 in
  let cur = ref [] and pre_sorted = ref true in
  let expect_st = ref None in      (* model state line expected after the current op *)
  let expect_rd = ref None in
  let flags = ref [] and optext = Buffer.create 256 in
  let flag f = if not (List.mem f !flags) then flags := f :: !flags in
  let kinds = Hashtbl.create 16 in
  let kind k = Hashtbl.replace kinds k (1 + try Hashtbl.find kinds k with Not_found -> 0) in
  let dead = ref false in
  let report want kindw rule i m =
    if want then Printf.printf "%s case=%s op=%d (%s) rule=%s impl=%s model=%s\n" kindw !case_id !opn
        (let s = String.concat " " !cur in if String.length s > 200 then String.sub s 0 200 ^ ".." else s) rule i m in
  let finish () =
    if !case_id <> "" then begin
      Printf.printf "CASE %s %s %s\n" !case_id (Digest.to_hex (Digest.string (Buffer.contents optext)))
        (if !flags = [] then "-" else String.concat "," (List.rev !flags))
    end in
  (try while true do
    let line = input_line ic in
    match split_ws line with
    | "case" :: id :: rest ->
      incr cases; case_id := id; opn := 0; dead := false; flags := []; Buffer.clear optext; Buffer.add_string optext line;
      let kv = kv_of rest in
      node := { Node.n_leaf = (get kv "leaf" = "1"); n_unbal = false; n_inodes = [] };
      ps := n_of_string (get kv "ps"); fill := n_of_string (get kv "fill"); mark := n_of_string (get kv "mark");
      expect_st := None; expect_rd := None
    | "o" :: rest when not !dead ->
      incr opn; incr ops; cur := rest; Buffer.add_string optext line;
      (match rest with op :: _ -> kind op | [] -> ());
      pre_sorted := Node.keys_sorted (Node.keys_of !node.Node.n_inodes)
    | ["end"] -> finish (); case_id := ""
    | "r" :: res when not !dead ->
      (match !cur, res with
       | ["put"; ok; nk; v; pg; fl], [r] ->
         let oldk = bytes_of_hex ok and newk = bytes_of_hex nk in
         let m = Node.put !mark !node oldk newk (expand_val v) (n_of_string pg) (n_of_string fl) in
         (match m with
          | Base.Ok n' ->
            if List.length n'.Node.n_inodes > List.length !node.Node.n_inodes then flag "insert" else flag "replace";
            node := n';
            if r <> "ok" then (report want04 "PROPFAIL" "put_total" r "ok"; dead := true)
          | _ -> flag "put-panic";
            if r <> "panic" then (report want04 "MISMATCH" "put_guard" r "panic"; dead := true));
         expect_st := Some (state_line !node)
       | ["del"; k], _ ->
         let n' = Node.del !node (bytes_of_hex k) in
         if List.length n'.Node.n_inodes < List.length !node.Node.n_inodes then flag "delete" else flag "delete-absent";
         node := n'; expect_st := Some (state_line !node)
       | ["size"], [r] ->
         let m = string_of_n (Node.size !node) in
         if r <> m then (report want04 "MISMATCH" "size" r m; dead := true)
       | ["sizeless"; v], [r] ->
         let m = if Node.size_less_than !node (n_of_string v) then "true" else "false" in
         if r <> m then (report want04 "MISMATCH" "size_less_than" r m; dead := true)
       | ["splitindex"; thr], [ri; rs] ->
         let (i, sz) = Node.split_index !node.Node.n_leaf (n_of_string thr) !node.Node.n_inodes in
         let m = Printf.sprintf "%d %s" (int_of_nat i) (string_of_n sz) in
         if ri ^ " " ^ rs <> m then (report want04 "MISMATCH" "split_index" (ri ^ " " ^ rs) m; dead := true)
       | ["write"; pg; np], [r; used; hexs; rest] ->
         flag "write";
         let pgn = n_of_string pg and npn = int_of_string np in
         let ov = n_of_int (npn - 1) in
         (match Node.write !node pgn ov with
          | Base.Ok bytes ->
            let ms = string_of_bytes bytes in
            if r <> "ok" then (report want12 "MISMATCH" "write_guard" r "ok"; dead := true)
            else begin
              let is = string_of_hex (if hexs = "-" then "" else hexs) in
              if rest <> "1" then (report want12 "PROPFAIL" "write_rest_zero" "bytes behind the used area are not zero" "zero"; dead := true)
              else if is <> ms then begin
                (* not the bytes the line-for-line model writes: is it still the published layout?  the independent reader decides *)
                let psn = int_of_n !ps in
                let img = is ^ String.make (max 0 (npn * psn - String.length is)) '\000' in
                let rd = rd_of_string img in
                let ok_layout =
                  !node.Node.n_leaf && List.for_all (fun (i : Node.inode) -> int_of_n i.Node.i_flags = 0) !node.Node.n_inodes &&
                  (match Layout.dec_page rd !ps (nat_of_int 4) BinNums.N0 (n_of_int (npn * psn)) false None None with
                   | Some d -> d.Layout.r_bounds && d.Layout.r_order = Node.keys_sorted (Node.keys_of !node.Node.n_inodes)
                               && List.map (fun (k, e) -> (k, match e with Spec.Val v -> v | _ -> [])) d.Layout.r_ents
                                  = List.map (fun (i : Node.inode) -> (i.Node.i_key, i.Node.i_val)) !node.Node.n_inodes
                   | None -> false) in
                if ok_layout then report want12 "MISMATCH" "write_bytes" (Printf.sprintf "%s bytes md5 %s" used (Digest.to_hex (Digest.string is))) (Printf.sprintf "%d bytes md5 %s" (String.length ms) (Digest.to_hex (Digest.string ms)))
                else report want12 "PROPFAIL" "write_is_published_layout" (Printf.sprintf "%s bytes md5 %s" used (Digest.to_hex (Digest.string is))) (Printf.sprintf "%d bytes md5 %s" (String.length ms) (Digest.to_hex (Digest.string ms)));
                dead := true
              end else begin
                (* model read of the model image *)
                let psn = int_of_n !ps in
                let img = ms ^ String.make (max 0 (npn * psn - String.length ms)) '\000' in
                (match Node.read (rd_of_string img) BinNums.N0 with
                 | Base.Ok n' -> expect_rd := Some (Printf.sprintf "rd ok leaf=%d" (if n'.Node.n_leaf then 1 else 0), state_line n')
                 | _ -> expect_rd := Some ("rd panic", ""))
              end
            end
          | _ -> flag "write-panic";
            if r <> "panic" then (report want12 "MISMATCH" "write_guard" r "panic"; dead := true))
       | ["split"], [lens; digs] ->
         let il = List.map int_of_string (String.split_on_char ',' lens) in
         let idg = String.split_on_char '|' digs in
         let all = !node.Node.n_inodes in
         (* (S) on the implementation's pieces: they must be the consecutive slices of the input *)
         let rec slices l = function [] -> [] | n :: r -> take n l :: slices (drop n l) r in
         let ipieces = slices all il in
         let same = List.fold_left (+) 0 il = List.length all
                    && List.length idg = List.length ipieces
                    && List.for_all2 (fun p d -> Digest.to_hex (Digest.string (render p)) = d) ipieces idg in
         if not same then (report want04 "PROPFAIL" "split_keeps_every_element_in_order" lens "pieces are not the consecutive slices of the node"; dead := true)
         else if not (Node.split_ok all ipieces) then (report want04 "PROPFAIL" "split_ok" lens "a piece is empty / a non-last piece has fewer than 2 elements"; dead := true)
         else begin
           if List.length il > 1 then flag "split" ;
           if List.length il > 2 then flag "split3+";
           match Node.split !node !ps !fill with
           | Base.Ok mp ->
             let ml = String.concat "," (List.map (fun p -> string_of_int (List.length p)) mp) in
             if ml <> lens then (report want04 "MISMATCH" "split_pieces" lens ml; dead := true)
           | _ -> report want04 "MISMATCH" "split_pieces" lens "model: out of fuel"; dead := true
         end
       | _ -> ())
    | ("st" :: _) when not !dead ->
      (match !expect_st with
       | Some m ->
         expect_st := None;
         if m <> line then begin
           (* a sorted leaf node is a sorted map: put k k v / del k on it are insert / remove (NodeProofs), so this is a concrete failing input *)
           let semantic = !pre_sorted && (match !cur with ["put"; a; b; _; _; _] -> a = b | ["del"; _] -> true | _ -> false) in
           report want04 (if semantic then "PROPFAIL" else "MISMATCH") (if semantic then "sorted_node_is_a_sorted_map" else "node_state") line m;
           dead := true
         end
       | None ->
         (match !expect_rd with
          | Some (_, m) when m <> "" ->
            expect_rd := None;
            if m <> line then (report want12 "PROPFAIL" "read_of_written_page" line m; dead := true)
          | _ -> ()))
    | ("rd" :: _) when not !dead ->
      (match !expect_rd with
       | Some (h, m) -> if h <> line then (report want12 "PROPFAIL" "read_of_written_page" line h; dead := true; expect_rd := None)
                        else if m = "" then expect_rd := None
       | None -> ())
    | _ -> ()
  done with End_of_file -> ());
  close_in ic;
  Printf.printf "SUMMARY cases=%d ops=%d kinds=%s\n" !cases !ops
    (String.concat "," (Hashtbl.fold (fun k v acc -> (Printf.sprintf "node-%s:%d" k v) :: acc) kinds []))
