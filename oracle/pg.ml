(* Page-level observers over history traces recorded with -img commit+io:
   c06: every real WriteAt is intersected with the page sets (computed by the independent decoder from the image saved at
        each commit) of the newest committed state and of every open reader's state; meta writes must go to the other slot.
   c10: after every commit, what is still withheld from reuse vs the page-set difference of consecutive versions. *)
open Conv
open Hexu

module IS = Set.Make (Int)

type version = { pages : IS.t; txid : int; slot : int; mark : int }

let decode_version path ps : version option =
  let (rd, _) = load_rd path in
  match Layout.dec_db rd (n_of_int ps) (nat_of_int 200) with
  | None -> None
  | Some v ->
    let ids = List.map int_of_n (Layout.page_ids v.Layout.v_pages) @ List.map int_of_n v.Layout.v_flpage in
    let txid = int_of_n v.Layout.v_meta.Layout.m_txid in
    Some { pages = IS.of_list ids; txid; slot = txid land 1; mark = int_of_n v.Layout.v_meta.Layout.m_mark }

let ints_of_csv s = if s = "-" || s = "" then [] else List.map int_of_string (String.split_on_char ',' s)

let run mode file =
  let ic = open_in file in
  let cases = ref 0 and ops = ref 0 and mism = ref 0 and pfail = ref 0 in
  let case_id = ref "" and opidx = ref 0 and optext = Buffer.create 1024 and flags = ref [] in
  let flag f = if not (List.mem f !flags) then flags := f :: !flags in
  let cur = ref [] in
  let ps = ref 4096 in
  let curv = ref None and prevv = ref None in
  let readers : (int, version) Hashtbl.t = Hashtbl.create 4 in
  let ever_used = ref IS.empty in
  let writes = ref 0 in
  (* (K) the extracted page-level model, fed with the real freelist events as labels *)
  let ms : Pager.pg option ref = ref None in
  let open_free : int list option ref = ref None in
  let data_written = ref IS.empty in
  let mdead = ref false in
  let meta_written = ref false and d5 = ref false and reinit = ref false in
  let mismatch what detail =
    if not !mdead then begin
      incr mism; mdead := true;
      Printf.printf "MISMATCH case=%s op=%d (%s) what=%s%s %s\n" !case_id !opidx (String.concat " " !cur) what (if !d5 then " sig=d5 " else "") detail end in
  let feed (l : Pager.label) what =
    match !ms with
    | None -> ()
    | Some s -> (match Pager.pstep s l with
        | Some s' -> ms := Some s'
        | None -> mismatch "guard" (Printf.sprintf "the model's guard refuses the step the code took: %s" what); ms := None) in
  let sorted_ints l = List.sort compare (List.map int_of_n l) in
  let ints_s l = String.concat "," (List.map string_of_int l) in
  (* C18: size arithmetic (Grow.v) *)
  let maxsize = ref 0 and asz = ref 16777216 and ngs = ref false in
  let flen_open = ref 0 and flen_prev = ref 0 and expect_refuse = ref false and mark_before = ref 0 in
  let propfail rule detail =
    incr pfail;
    Printf.printf "PROPFAIL case=%s op=%d (%s) rule=%s%s %s\n" !case_id !opidx (String.concat " " !cur) rule (if !d5 then " sig=d5 " else "") detail in
  let set_to_s s = String.concat "," (List.map string_of_int (IS.elements s)) in
  (try while true do
    let line = input_line ic in
    match split_ws line with
    | "case" :: id :: _ ->
      incr cases; case_id := id; opidx := 0; Buffer.clear optext; flags := []; curv := None; prevv := None;
      Hashtbl.reset readers; ever_used := IS.empty; ms := None; mdead := false; open_free := None; d5 := false; meta_written := false
    | "fl" :: op :: txid :: a :: b :: ret :: _ when not !mdead ->
      let a = int_of_string a and b = int_of_string b and ret = int_of_string ret in
      (match op, !ms with
       | _, None -> ()
       | "addreader", Some s ->
         if int_of_n s.Pager.g_cur <> int_of_string txid then mismatch "reader_txid" (Printf.sprintf "reader registered with txid %s, newest committed is %d" txid (int_of_n s.Pager.g_cur));
         feed Pager.LBeginR "reader begin"
       | "delreader", _ -> feed (Pager.LEndR (n_of_string txid)) ("reader end " ^ txid)
       | "free", _ -> for p = a to a + b do feed (Pager.LFree (n_of_int p)) (Printf.sprintf "free of page %d (not a page of the base version, or freed twice)" p) done
       | "alloc", Some s ->
         let n = a in
         if ret <> 0 then for p = ret to ret + n - 1 do feed (Pager.LAlloc (n_of_int p)) (Printf.sprintf "allocation of page %d which is not free" p) done
         else (match s.Pager.g_w with
             | Some w -> let m = int_of_n w.Pager.w_mark in
               (if mode = "c18" then match Grow.alloc_refused (n_of_int !ps) (n_of_int !asz) (n_of_int !maxsize) (n_of_int m) (n_of_int n) with
                  | Some true -> expect_refuse := true; flag "refused"
                  | _ -> ());
               for p = m to m + n - 1 do feed (Pager.LAlloc (n_of_int p)) "allocation at the mark" done
             | None -> mismatch "guard" "allocation without a writer")
       | "rollback", Some s ->
         if s.Pager.g_w <> None then begin
           if !meta_written then begin
             (* the sync AFTER the meta write failed: the new meta is what db.meta() sees, so the transaction is present;
                the error path then drops pending[T] and reloads the list from the NEW freelist page: T's frees become free *)
             let wid = match s.Pager.g_w with Some w -> w.Pager.w_id | None -> BinNums.N0 in
             feed Pager.LCommit "commit (final sync failed)";
             (match !ms with
              | Some s2 ->
                let mine = List.filter (fun e -> int_of_n (Pager.e_tx e) = int_of_n wid) s2.Pager.g_pend in
                ms := Some { s2 with Pager.g_free = s2.Pager.g_free @ List.map Pager.e_pg mine;
                                     Pager.g_pend = List.filter (fun e -> int_of_n (Pager.e_tx e) <> int_of_n wid) s2.Pager.g_pend }
              | None -> ());
             if Hashtbl.length readers > 0 then d5 := true
           end else feed Pager.LRollback "rollback"
         end
       | _ -> ())
    | "o" :: rest -> cur := rest; incr opidx;
      (match rest with "img" :: _ -> () | _ -> Buffer.add_string optext (String.concat " " rest); Buffer.add_char optext '\n');
      (match rest with "open" :: _ -> ms := None; open_free := None; data_written := IS.empty; reinit := true | _ -> ());
      (match rest with
       | "open" :: fields ->
         maxsize := 0; asz := 16777216; ngs := false;
         List.iter (fun f -> match String.split_on_char '=' f with
           | ["ps"; v] -> ps := int_of_string v | ["max"; v] -> maxsize := int_of_string v
           | ["asz"; v] -> if v <> "0" then asz := int_of_string v | ["ngs"; v] -> ngs := v <> "0" | _ -> ()) fields
       | ["close"] -> Hashtbl.reset readers
       | _ -> ())
    | ["ps"; v] -> (try ps := int_of_string v with _ -> ())          (* the file's actual page size, reported after Open *)
    | "io" :: "mmap" :: _ :: _ :: ["FAIL"] -> ms := None      (* unmapped until reopen: the free list is not reloaded *)
    | "io" :: "write" :: off :: len :: rest ->
      incr ops; incr writes;
      let off = int_of_string off and len = int_of_string len in
      if off < 2 * !ps && rest <> ["FAIL"] then meta_written := true;
      if off >= 2 * !ps && rest <> ["FAIL"] then
        for p = off / !ps to (off + len - 1) / !ps do data_written := IS.add p !data_written done;
      if rest <> ["FAIL"] then begin
        match !curv with
        | None -> ()       (* initialisation of a brand-new file: no committed state yet *)
        | Some cv ->
          if mode <> "c06" then () else
          if off < 2 * !ps then begin
            flag "meta-write";
            if len > !ps || off mod !ps <> 0 then propfail "meta_write_shape" (Printf.sprintf "off=%d len=%d" off len);
            if off / !ps = cv.slot then propfail "meta_slot" (Printf.sprintf "write to slot %d which holds the newest committed meta (txid %d)" (off / !ps) cv.txid)
          end else begin
            let first = off / !ps and last = (off + len - 1) / !ps in
            for p = first to last do
              if IS.mem p cv.pages then propfail "overwrites_current" (Printf.sprintf "page %d of the newest committed state (txid %d)" p cv.txid);
              Hashtbl.iter (fun rid rv -> if IS.mem p rv.pages then
                propfail "overwrites_reader" (Printf.sprintf "page %d of the state reader %d (txid %d) is viewing" p rid rv.txid)) readers;
              if IS.mem p !ever_used then flag "page-reuse";
              if p >= cv.mark then flag "beyond-mark"
            done
          end
      end
    | "r" :: res ->
      (* readers the harness had to close so that a blocked (remapping) commit could proceed *)
      List.iter (fun f -> if String.length f > 15 && String.sub f 0 15 = "blocked-closed=" then
        List.iter (fun id -> Hashtbl.remove readers (int_of_string id)) (String.split_on_char ',' (String.sub f 15 (String.length f - 15)))) res;
      (match !cur, res with
       | "img" :: _, ["ok"; path; _; psz] ->
         ps := int_of_string psz;
         (match decode_version path !ps with
          | None -> propfail "decode" "image not decodable"
          | Some v -> prevv := !curv; curv := Some v; ever_used := IS.union !ever_used v.pages;
            (match !ms with
             | None when not !mdead && !reinit ->
               reinit := false;
               (* (re)open: the model restarts from what the decoder sees; its rebuilt free list must be the code's *)
               let pages = List.map n_of_int (IS.elements v.pages) in
               let s0 = Pager.pg_open (n_of_int v.txid) (n_of_int v.mark) pages [] in
               let free = Pager.scan_free s0 in
               ms := Some (Pager.pg_open (n_of_int v.txid) (n_of_int v.mark) pages free);
               (match !open_free with
                | Some f -> if List.sort compare f <> sorted_ints free then
                    mismatch "open_free" (Printf.sprintf "free list after open: impl=%s model(scan)=%s" (ints_s (List.sort compare f)) (ints_s (sorted_ints free)))
                | None -> ())
             | Some s ->
               (* tree_ok: new version = (old version - freed) + allocated, as the independent decoder sees it *)
               let mp = sorted_ints s.Pager.g_pages in
               if mp <> IS.elements v.pages then
                 mismatch "version_pages" (Printf.sprintf "pages of the committed version: decoder=%s model=(old-freed+allocated)=%s" (set_to_s v.pages) (ints_s mp));
               if int_of_n s.Pager.g_mark <> v.mark then mismatch "mark" (Printf.sprintf "decoder=%d model=%d" v.mark (int_of_n s.Pager.g_mark))
             | None -> ()))
       | ["beginr"; id], "ok" :: _ ->
         (match !curv with Some v -> Hashtbl.replace readers (int_of_string id) v; flag "reader" | None -> ())
       | ["endr"; id], _ -> Hashtbl.remove readers (int_of_string id)
       | (["commit"] | "commitfail" :: _), "ok" :: _ when (match !ms with Some s -> s.Pager.g_w <> None | None -> false) && not !mdead ->
         (match !ms with
          | Some s ->
            let cw = sorted_ints (Pager.commit_writes s) in
            if cw <> IS.elements !data_written then
              mismatch "written_pages" (Printf.sprintf "data pages written by the commit: impl=%s model(allocated)=%s" (set_to_s !data_written) (ints_s cw));
            feed Pager.LCommit "commit"
          | None -> ());
         (match res with
          | ["ok"; bc] when String.length bc > 15 ->
            List.iter (fun id -> Hashtbl.remove readers (int_of_string id)) (String.split_on_char ',' (String.sub bc 15 (String.length bc - 15)))
          | _ -> ())
       | ["commit"], ["EMaxSizeReached"] when mode = "c18" ->
         if not !expect_refuse then mismatch "refusal" "the code refused with ErrMaxSizeReached where Grow.alloc_refused does not"
       | ["commit"], "ok" :: _ when mode = "c18" && !expect_refuse && not !mdead ->
         mismatch "refusal" "Grow.alloc_refused predicts ErrMaxSizeReached but the commit succeeded"
       | "commitfail" :: _, e :: _ when e <> "ok" -> meta_written := false
       | ["beginw"], "ok" :: _ -> data_written := IS.empty; expect_refuse := false; meta_written := false;
         (match !ms with Some s -> mark_before := int_of_n s.Pager.g_mark | None -> ())
       | "open" :: _, _ -> ms := None; data_written := IS.empty
       | ["commit"], ["ok"; bc] when String.length bc > 15 ->
         List.iter (fun id -> Hashtbl.remove readers (int_of_string id)) (String.split_on_char ',' (String.sub bc 15 (String.length bc - 15)))
       | _ -> ())
    | "i" :: what :: fields ->
      incr ops;
      let kv = kv_of fields in
      let ifree = List.sort compare (ints_of_csv (get kv "flfree")) in
      let ipend = List.sort compare (List.concat_map (fun ent -> match String.split_on_char ':' ent with
          | [_; ids] -> ints_of_csv ids | _ -> []) (if get kv "flpend" = "-" then [] else String.split_on_char ';' (get kv "flpend"))) in
      if what = "open" then open_free := (if get kv "flloaded" = "1" then Some ifree else None);   (* read-only open without preload: no list yet *)
      (match !ms with
       | Some s when not !mdead ->
         if what = "beginw" then begin
           (* ReleasePendingPages: what moved to the free list is the label; the guard checks no reader can see it *)
           let before = IS.of_list (sorted_ints s.Pager.g_free) in
           let rel = List.filter (fun x -> not (IS.mem x before)) ifree in
           feed (Pager.LBeginW (List.map n_of_int rel)) (Printf.sprintf "release of pages %s (a page some open reader can still see, or not pending)" (ints_s rel));
           if rel <> [] then flag "released"
         end;
         (match !ms with
          | Some s ->
            if sorted_ints s.Pager.g_free <> ifree then mismatch "free" (Printf.sprintf "impl=%s model=%s" (ints_s ifree) (ints_s (sorted_ints s.Pager.g_free)));
            if sorted_ints (Pager.pend_pages s) <> ipend then mismatch "pending" (Printf.sprintf "impl=%s model=%s" (ints_s ipend) (ints_s (sorted_ints (Pager.pend_pages s))))
          | None -> ())
       | _ -> ());
      if mode = "c18" then begin
        let flen = int_of_string (get kv "flen") and datasz = int_of_string (get kv "datasz") in
        if what = "open" then (flen_open := flen; flen_prev := flen);
        if what = "commit" then begin
          (match !ms with
           | Some s when not !mdead && s.Pager.g_w = None ->
             let mark = int_of_n s.Pager.g_mark in
             let predicted =
               if mark <= !mark_before then !flen_prev
               else if !ngs then int_of_n (Grow.grow_nosync (n_of_int !flen_prev) (n_of_int (mark * !ps)))
               else int_of_n (Grow.grow (n_of_int !asz) (n_of_int datasz) (n_of_int !flen_prev) (n_of_int ((mark + 1) * !ps))) in
             if predicted <> flen then mismatch "file_size" (Printf.sprintf "file is %d bytes, Grow.v predicts %d (mark %d -> %d, datasz %d)" flen predicted !mark_before mark datasz)
             else if flen > !flen_prev then flag "file-grew";
             (* (S) the property *)
             if !maxsize > 0 && flen > max !maxsize !flen_open then begin
               let m = match Grow.mmap_size (n_of_int !ps) (n_of_int ((mark + 1) * !ps)) with Some m -> int_of_n m | None -> 0 in
               propfail ("exceeds_maxsize" ^ (if datasz > m then " sig=d7 " else ""))
                 (Printf.sprintf "file %d bytes > MaxSize %d (file at open %d, datasz %d, map size this database needs %d)" flen !maxsize !flen_open datasz m)
             end
           | _ -> ());
          flen_prev := flen
        end
      end;
      if mode = "c10" then begin
      let flfree = IS.of_list (ints_of_csv (get kv "flfree")) in
      let pend_ids = List.concat_map (fun ent -> match String.split_on_char ':' ent with
          | [_; ids] -> ints_of_csv ids | _ -> []) (if get kv "flpend" = "-" then [] else String.split_on_char ';' (get kv "flpend")) in
      let nread = Hashtbl.length readers in
      (* no page that an open reader's version references is reusable *)
      Hashtbl.iter (fun rid rv ->
        let bad = IS.inter rv.pages flfree in
        if not (IS.is_empty bad) then propfail "reader_page_free" (Printf.sprintf "reader %d (txid %d) pages %s are free" rid rv.txid (set_to_s bad))) readers;
      (match !curv with Some cv ->
        let bad = IS.inter cv.pages flfree in
        if what <> "commit" && not (IS.is_empty bad) then propfail "current_page_free" (set_to_s bad) | None -> ());
      if what = "beginw" && nread = 0 then begin
        flag "beginw-noreaders";
        if pend_ids <> [] then propfail "not_reclaimed" (Printf.sprintf "no reader open at writer begin but %d pages still pending: %s" (List.length pend_ids) (get kv "flpend"))
      end;
      if what = "beginw" && nread > 0 then flag "beginw-readers";
      if int_of_string (get kv "pend") <> List.length pend_ids && what <> "beginw" then
        propfail "stats_pending" (Printf.sprintf "Stats.PendingPageN=%s, freelist holds %d" (get kv "pend") (List.length pend_ids));
      if int_of_string (get kv "free") <> IS.cardinal flfree && what <> "beginw" then
        propfail "stats_free" (Printf.sprintf "Stats.FreePageN=%s, freelist holds %d" (get kv "free") (IS.cardinal flfree))
      end
    | "end" :: _ ->
      Printf.printf "CASE %s %s %s\n" !case_id (Digest.to_hex (Digest.string (Buffer.contents optext)))
        (if !flags = [] then "-" else String.concat "," (List.sort compare !flags))
    | _ -> ()
  done with End_of_file -> ());
  close_in ic;
  Printf.printf "SUMMARY cases=%d ops=%d mismatches=%d propfails=%d writes=%d kinds=\n" !cases !ops !mism !pfail !writes
