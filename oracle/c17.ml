(* C17 driver: Lock.v replayed on the open/close sequence (K); the protection rules decided on the implementation's
   own observations (S): exclusivity, release on close, read-only refusals, zero writes, identical file hash,
   fault-or-private-copy for every slice handed out. *)
open Conv

let run file =
  let ic = open_in file in
  let cases = ref 0 and ops = ref 0 and mism = ref 0 and pfail = ref 0 in
  let case_id = ref "" and opidx = ref 0 and flags = ref [] and optext = Buffer.create 64 in
  let flag f = if not (List.mem f !flags) then flags := f :: !flags in
  let cur = ref [] in
  let held_model = ref [] in
  let held_impl : (string * string) list ref = ref [] in   (* what the implementation itself granted *)
  let report kind what detail =
    if kind = "MISMATCH" then incr mism else incr pfail;
    Printf.printf "%s case=%s op=%d (%s) %s %s\n" kind !case_id !opidx (String.concat " " !cur) what detail in
  let id_of a = n_of_int (Char.code a.[0] - 64) in
  let starts p s =   (* p occurs in s (probe results look like "val-WRITABLEVIEW") *)
    let lp = String.length p and ls = String.length s in
    let rec go i = i + lp <= ls && (String.sub s i lp = p || go (i + 1)) in go 0 in
  (try while true do
    let line = input_line ic in
    match split_ws line with
    | "case" :: id :: _ ->
      incr cases; case_id := id; opidx := 0; flags := []; Buffer.clear optext; held_model := []; held_impl := []
    | "o" :: rest -> cur := rest; incr opidx; Buffer.add_string optext (String.concat " " rest); Buffer.add_char optext ';'
    | "r" :: res :: fields ->
      incr ops;
      (match !cur with
       | ["open"; a; m; how] ->
         let md = if m = "rw" then Lock.RW else Lock.RO in
         let (h', mr) = Lock.lstep !held_model (Lock.LOpen (id_of a, md)) in
         held_model := h';
         let mres = (match mr with Lock.LOk -> "ok" | Lock.LTimeout -> "ETimeout" | Lock.LNotOpen -> "notopen") in
         if mres <> res then report "MISMATCH" "what=open_result" (Printf.sprintf "impl=%s model=%s held=%s" res mres
             (String.concat "," (List.map (fun (x, y) -> x ^ ":" ^ y) !held_impl)));
         (* (S) on the implementation's own grants *)
         if res = "ok" then begin
           if m = "rw" && !held_impl <> [] then
             report "PROPFAIL" "rule=rw_open_is_alone" (Printf.sprintf "read-write open granted while %s hold the file"
               (String.concat "," (List.map (fun (x, y) -> x ^ ":" ^ y) !held_impl)));
           if m = "ro" && List.exists (fun (_, y) -> y = "rw") !held_impl then
             report "PROPFAIL" "rule=ro_open_excluded_by_rw" "read-only open granted while a read-write open holds the file";
           held_impl := !held_impl @ [(a, m)];
           flag ("granted-" ^ m ^ "-" ^ how)
         end else if res = "ETimeout" then begin
           let conflict = if m = "rw" then !held_impl <> [] else List.exists (fun (_, y) -> y = "rw") !held_impl in
           if not conflict then
             report "PROPFAIL" "rule=close_releases_lock" "open timed out although no conflicting open is live";
           let ms = (try int_of_string (get (kv_of fields) "ms") with _ -> 0) in
           if ms > 5000 then report "PROPFAIL" "rule=timeout_honoured" (Printf.sprintf "open with a 150 ms timeout took %d ms" ms);
           flag ("refused-" ^ m ^ "-" ^ how)
         end else report "PROPFAIL" "rule=open_result" ("unexpected open result " ^ res)
       | ["refused"; m; kind] ->
         (* a damaged file: the Open must be refused; whatever it answers, it holds nothing afterwards (the model's holder set is unchanged),
            so a lock it leaves behind shows as a timeout of a later open with no live holder (rule close_releases_lock) *)
         if res = "ok" && kind <> "truncated" then report "PROPFAIL" "rule=refused_open" ("Open accepted a " ^ kind ^ " file");
         flag ("refused-open-" ^ m ^ "-" ^ kind)
       | ["close"; a] ->
         let (h', mr) = Lock.lstep !held_model (Lock.LClose (id_of a)) in
         held_model := h';
         if (mr = Lock.LOk) <> (res = "ok") then report "MISMATCH" "what=close_result" ("impl=" ^ res);
         held_impl := List.filter (fun (x, _) -> x <> a) !held_impl;
         flag "closed-then-more"
       | ["ro"; "open"] -> report "PROPFAIL" "rule=ro_open" ("read-only open of a closed database failed: " ^ res)
       | ["ro"; "session"] ->
         let kv = kv_of (res :: fields) in
         List.iter (fun k -> let v = get kv k in
           if v <> "EDatabaseReadOnly" then report "PROPFAIL" "rule=ro_refuses_write_tx" (Printf.sprintf "%s on a read-only database returned %s" k v))
           ["begin"; "update"; "batch"];
         List.iter (fun k -> let v = get kv k in
           if v <> "ETxNotWritable" then report "PROPFAIL" "rule=ro_tx_refuses_mutation" (Printf.sprintf "%s in a read-only transaction returned %s" k v))
           ["put"; "del"; "create"; "delb"; "setseq"; "nextseq"; "txcreate"; "txdelb"];
         if get kv "commit" = "ok" then report "PROPFAIL" "rule=ro_tx_refuses_mutation" "Commit of a managed read-only transaction succeeded";
         if get kv "writes" <> "0" then report "PROPFAIL" "rule=ro_never_writes" (Printf.sprintf "%s write/truncate/sync calls on a read-only database" (get kv "writes"));
         if get kv "same" <> "true" then report "PROPFAIL" "rule=ro_file_unchanged" "SHA-256 of the file changed during read-only use";
         let poke = get kv "poke" in
         List.iter (fun it -> match String.split_on_char ':' it with
           | [k; _] ->
             if starts "MODIFIED" k then report "PROPFAIL" "rule=handed_out_memory_not_a_view" "stored content re-read differently after writing into returned slices"
             else if starts "WRITABLEVIEW" k then report "PROPFAIL" "rule=handed_out_memory_not_a_view" "a write into a returned slice changed the file"
             else flag k
           | _ -> ()) (String.split_on_char ',' poke)
       | ["rwview"; "session"] ->
         (* a read transaction of a READ-WRITE handle hands out memory under the same rule *)
         let kv = kv_of (res :: fields) in
         List.iter (fun it -> match String.split_on_char ':' it with
           | [k; _] ->
             if starts "MODIFIED" k then report "PROPFAIL" "rule=handed_out_memory_not_a_view" "stored content re-read differently after writing into slices returned by a read transaction of a read-write handle"
             else if starts "WRITABLEVIEW" k then report "PROPFAIL" "rule=handed_out_memory_not_a_view" "a write into a slice returned by a read transaction (read-write handle) changed the file"
             else flag ("rw-" ^ k)
           | _ -> ()) (String.split_on_char ',' (get kv "poke"));
         if get kv "same" <> "true" then report "PROPFAIL" "rule=handed_out_memory_not_a_view" "file changed while a read transaction's slices were written to";
         if get kv "reread" <> "true" then report "PROPFAIL" "rule=handed_out_memory_not_a_view" "stored value differs after the probe"
       | ["cli"; c] ->
         let kv = kv_of fields in
         if get kv "same" <> "true" then report "PROPFAIL" "rule=cli_inspection_never_writes" ("bbolt " ^ c ^ " changed the file");
         if res <> "ok" then flag ("cli-err-" ^ c)
       | _ -> ())
    | "end" :: _ ->
      Printf.printf "CASE %s %s %s\n" !case_id (Digest.to_hex (Digest.string (Buffer.contents optext)))
        (if !flags = [] then "-" else String.concat "," (List.sort compare !flags))
    | _ -> ()
  done with End_of_file -> ());
  close_in ic;
  Printf.printf "SUMMARY cases=%d ops=%d mismatches=%d propfails=%d kinds=\n" !cases !ops !mism !pfail
