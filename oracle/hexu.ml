(* hex / value-token helpers shared by the history oracles (hand-written glue) *)
open Conv

let byte_tbl = Array.init 256 n_of_int
let hexval c = match c with '0'..'9' -> Char.code c - 48 | 'a'..'f' -> Char.code c - 87 | 'A'..'F' -> Char.code c - 55 | _ -> failwith "hex"
let bytes_of_hex s : BinNums.coq_N list =
  if s = "-" then [] else
  List.init (String.length s / 2) (fun i -> byte_tbl.(hexval s.[2*i] * 16 + hexval s.[2*i+1]))
let bytes_of_string s = List.init (String.length s) (fun i -> byte_tbl.(Char.code s.[i]))
let string_of_bytes (l : BinNums.coq_N list) =
  let b = Buffer.create 16 in List.iter (fun n -> Buffer.add_char b (Char.chr (int_of_n n))) l; Buffer.contents b
let hex_of_string s =
  let b = Buffer.create (2 * String.length s) in
  String.iter (fun c -> Buffer.add_string b (Printf.sprintf "%02x" (Char.code c))) s; Buffer.contents b
let hex_of_bytes l = hex_of_string (string_of_bytes l)

(* value tokens: '-' | hex | @len:seed *)
let expand_val tok : BinNums.coq_N list =
  if tok = "-" then []
  else if String.length tok > 0 && tok.[0] = '@' then
    Scanf.sscanf tok "@%d:%d" (fun n seed -> List.init n (fun i -> byte_tbl.((i * 7 + seed) land 0xff)))
  else bytes_of_hex tok

let show_val (v : BinNums.coq_N list option) =
  match v with
  | None -> "nil"
  | Some l ->
    let s = string_of_bytes l in
    if String.length s <= 48 then "v" ^ hex_of_string s
    else Printf.sprintf "#%d:%s" (String.length s) (Digest.to_hex (Digest.string s))

let digest_or_text s =
  if String.length s <= 400 then "t:" ^ s
  else Printf.sprintf "d:%d:%s" (String.length s) (Digest.to_hex (Digest.string s))

let parse_path p = if p = "-" then [] else List.map bytes_of_hex (String.split_on_char '/' p)

(* canonical dump of a Spec bucket, exactly as the harness renders the API view *)
let rec dump_bucket buf ((seq, ents) : Spec.bucket) =
  Buffer.add_string buf (string_of_n seq); Buffer.add_char buf ':';
  List.iter (fun (k, e) ->
    Buffer.add_string buf (hex_of_bytes k);
    match e with
    | Spec.Val v -> Buffer.add_char buf '='; Buffer.add_string buf (show_val (Some v)); Buffer.add_char buf ';'
    | Spec.Sub (s, es) -> Buffer.add_char buf '{'; dump_bucket buf (s, es); Buffer.add_char buf '}') ents

let dump_root ((_, ents) : Spec.bucket) =
  let buf = Buffer.create 256 in
  List.iter (fun (k, e) ->
    match e with
    | Spec.Sub (s, es) -> Buffer.add_string buf (hex_of_bytes k); Buffer.add_char buf '{'; dump_bucket buf (s, es); Buffer.add_char buf '}'
    | Spec.Val _ -> Buffer.add_string buf (hex_of_bytes k); Buffer.add_string buf "=?;") ents;
  Buffer.contents buf

let err_name = function
  | Spec.ENone -> "ok" | Spec.ETxClosed -> "ETxClosed" | Spec.ETxNotWritable -> "ETxNotWritable"
  | Spec.EBucketNameRequired -> "EBucketNameRequired" | Spec.EBucketExists -> "EBucketExists"
  | Spec.EBucketNotFound -> "EBucketNotFound" | Spec.EIncompatibleValue -> "EIncompatibleValue"
  | Spec.EKeyRequired -> "EKeyRequired" | Spec.EKeyTooLarge -> "EKeyTooLarge" | Spec.EValueTooLarge -> "EValueTooLarge"
  | Spec.ESameBuckets -> "ESameBuckets" | Spec.ENoBucket -> "ENoBucket"

(* file image as rd : N -> N *)
let load_rd path =
  let ic = open_in_bin path in
  let len = in_channel_length ic in
  let s = really_input_string ic len in
  close_in ic;
  let rd off = match off with
    | BinNums.N0 -> if len > 0 then byte_tbl.(Char.code s.[0]) else BinNums.N0
    | BinNums.Npos p -> if bits_of_pos p > 40 then BinNums.N0 else
        let o = int_of_pos p in if o < len then byte_tbl.(Char.code s.[o]) else BinNums.N0 in
  (rd, len)
