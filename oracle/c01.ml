(* C01 driver: post-crash images rebuilt from the recorded real writes and opened by the real Open;
   (S) the recovered content is the acknowledged state, or the in-flight one iff its meta sector was persisted;
   (K) Layout.open_model + decoder on a sample of the images. *)
open Conv
open Hexu

let run file =
  let ic = open_in file in
  let cases = ref 0 and ops = ref 0 and mism = ref 0 and pfail = ref 0 and decoded = ref 0 in
  let case_id = ref "" and opidx = ref 0 and flags = ref [] and optext = Buffer.create 64 in
  let flag f = if not (List.mem f !flags) then flags := f :: !flags in
  let commits : (int, string * string) Hashtbl.t = Hashtbl.create 8 in
  let cur = ref [] in
  let report kind what detail =
    if kind = "MISMATCH" then incr mism else incr pfail;
    Printf.printf "%s case=%s op=%d (%s) %s %s\n" kind !case_id !opidx (String.concat " " !cur) what detail in
  (try while true do
    let line = input_line ic in
    match split_ws line with
    | "case" :: id :: rest -> incr cases; case_id := id; opidx := 0; flags := []; Hashtbl.reset commits; Buffer.clear optext;
      Buffer.add_string optext (String.concat " " rest)
    | "commit" :: n :: fields ->
      let kv = kv_of fields in Hashtbl.replace commits (int_of_string n) (get kv "acked", get kv "inflight");
      Buffer.add_string optext (get kv "inflight")
    | "o" :: rest -> cur := rest; incr opidx
    | "r" :: res ->
      incr ops;
      let kv = kv_of !cur in
      let (acked, inflight) = try Hashtbl.find commits (int_of_string (get kv "c")) with Not_found -> ("?", "?") in
      let meta = get kv "meta" = "true" in
      if meta then flag "meta-persisted" else flag ("after-" ^ get kv "after");
      (match res with
       | "ok" :: dump :: chk :: follow :: rest ->
         if meta then (if dump <> inflight then report "PROPFAIL" "rule=inflight_when_meta_persisted" (Printf.sprintf "recovered=%s inflight=%s acked=%s" dump inflight acked))
         else if dump <> acked then
           report "PROPFAIL" "rule=acked_unless_meta_persisted" (Printf.sprintf "recovered=%s acked=%s inflight=%s" dump acked inflight);
         if chk <> "0" then report "PROPFAIL" "rule=check_after_recovery" chk;
         if follow <> "ok" then report "PROPFAIL" "rule=accepts_further_transactions" follow;
         (* (K) sample: the model of Open + the decoder on the very image *)
         let kvr = kv_of rest in
         if get kvr "img" <> "" then begin
           incr decoded;
           let (rd, len) = load_rd (get kvr "img") in
           match Layout.open_model rd (n_of_int len) (n_of_int 4096) with
           | Layout.OpenOk (ps, m) ->
             (match Layout.dec_with_meta rd ps (nat_of_int 200) m with
              | Some v -> let d = digest_or_text (dump_root v.Layout.v_root) in
                if d <> dump then report "MISMATCH" "what=recovered_content" (Printf.sprintf "impl=%s model=%s" dump d)
              | None -> report "MISMATCH" "what=recovered_content" "model cannot decode the image")
           | _ -> report "MISMATCH" "what=open" "model refuses an image the code opened"
         end
       | _ -> report "PROPFAIL" "rule=reopens_after_crash" (String.concat " " res))
    | "end" :: _ ->
      Printf.printf "CASE %s %s %s\n" !case_id (Digest.to_hex (Digest.string (Buffer.contents optext)))
        (if !flags = [] then "-" else String.concat "," (List.sort compare !flags))
    | _ -> ()
  done with End_of_file -> ());
  close_in ic;
  Printf.printf "SUMMARY cases=%d ops=%d mismatches=%d propfails=%d decoded=%d kinds=\n" !cases !ops !mism !pfail !decoded
