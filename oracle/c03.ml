(* C03 driver.
   det cases : Conc.crun on the same programs and schedule predicts the log and the final meta exactly (K).
   all cases : the log is judged by the extracted Conc.serial_ok after composing the pieces of a batch into the one
               transaction they ran in (S), plus the all-or-nothing / durability / real-time / single-writer / progress
               rules on the implementation's own observations (S). *)
open Conv

type r = { g : int; id : int; kind : string; rd : int; wr : int; tok : int; api : string; ret : string }

let mixf c tok = n_of_int ((int_of_n c * 1000003 + int_of_n tok) mod (1 lsl 40))
let kind_name = function Conc.KCommit -> "commit" | Conc.KAbort -> "abort" | Conc.KRead -> "read"

let run file =
  let ic = open_in file in
  let cases = ref 0 and ops = ref 0 and mism = ref 0 and pfail = ref 0 in
  let case_id = ref "" and flags = ref [] and optext = Buffer.create 64 in
  let flag f = if not (List.mem f !flags) then flags := f :: !flags in
  let det = ref false and id0 = ref 0 and c0 = ref 0 and closer = ref (-1) in
  let progs : (int * Conc.prog list) list ref = ref [] and sched = ref [] in
  let recs = ref [] and final = ref None and overlap = ref 0 and hang = ref None and nrec = ref 0 in
  let report kind what detail =
    if kind = "MISMATCH" then incr mism else incr pfail;
    Printf.printf "%s case=%s op=%d () %s %s\n" kind !case_id !nrec what detail in
  let judge () =
    let rs = List.rev !recs in
    (match !hang with
     | Some h when String.length h >= 9 && String.sub h 0 9 = "DATA-RACE" -> report "PROPFAIL" "rule=race_free" h
     | Some h -> report "PROPFAIL" "rule=progress" h | None -> ());
    if !overlap > 0 then report "PROPFAIL" "rule=single_writer" (Printf.sprintf "%d write-transaction bodies ran while another was open" !overlap);
    let toks = (match !final with Some (_, _, t) -> t | None -> []) in
    let present r = (try List.assoc r.tok toks = r.id with Not_found -> false) in
    (* what each call returned *)
    List.iter (fun r ->
      incr ops;
      let closed_ok = r.ret = "EDatabaseNotOpen" && !closer >= 0 in
      (match r.kind with
       | "commit" -> if !final <> None && not (present r) then
           report "PROPFAIL" "rule=commit_visible" (Printf.sprintf "tx %d (token %d) returned nil but its write is not in the final state" r.id r.tok)
       | "abort" ->
         if !final <> None && List.mem_assoc r.tok toks then
           report "PROPFAIL" "rule=all_or_nothing" (Printf.sprintf "tx %d (%s, token %d) did not commit but its write is in the final state" r.id r.api r.tok);
         let want = (match r.api with
           | "update-error" -> ["EOther:body-error"] | "update-panic" -> ["body-panic"] | "manual-rollback" -> ["ok"] | _ -> []) in
         if want <> [] && not (List.mem r.ret want) && not closed_ok then
           report "PROPFAIL" "rule=outcome_reported" (Printf.sprintf "%s returned %s" r.api r.ret);
         if want = [] && not closed_ok then report "PROPFAIL" "rule=unexpected_error" (Printf.sprintf "%s returned %s" r.api r.ret);
         flag ("abort-" ^ r.api)
       | "piece" ->
         if !final <> None then begin
           if present r && r.ret <> "ok" then report "PROPFAIL" "rule=all_or_nothing" (Printf.sprintf "Batch returned %s but invocation with token %d is in the final state" r.ret r.tok);
           if r.ret = "ok" && not (List.exists (fun x -> x.kind = "piece" && x.g = r.g && x.api = r.api && present x) rs) then
             report "PROPFAIL" "rule=commit_visible" (Printf.sprintf "Batch returned nil but none of its invocations is in the final state (token %d)" r.tok)
         end;
         flag "batch"
       | "read" -> if r.ret <> "ok" then report "PROPFAIL" "rule=unexpected_error" (Printf.sprintf "%s returned %s" r.api r.ret)
       | "closed" -> if not (closed_ok || (r.api = "close" && r.ret = "ok")) then
           report "PROPFAIL" "rule=unexpected_error" (Printf.sprintf "%s returned %s" r.api r.ret); flag "closed-under-load"
       | _ -> ())) rs;
    (* compose the committed pieces of each transaction id *)
    let committed = List.filter (fun r -> r.kind = "commit" || (r.kind = "piece" && (!final = None || present r) && r.ret = "ok")) rs in
    let ids = List.sort_uniq compare (List.map (fun r -> r.id) committed) in
    let ver = Hashtbl.create 16 in
    Hashtbl.replace ver !id0 !c0;
    let composed = List.filter_map (fun id ->
      let pieces = ref (List.filter (fun r -> r.id = id) committed) in
      let start = (match Hashtbl.find_opt ver (id - 1) with
        | Some c -> c
        | None -> (match !pieces with p :: _ -> p.rd | [] -> 0)) in
      (* when the predecessor is unknown the chain starts at a piece nobody else wrote *)
      let start = if Hashtbl.mem ver (id - 1) then start else
          (match List.filter (fun p -> not (List.exists (fun q -> q.wr = p.rd) !pieces)) !pieces with p :: _ -> p.rd | [] -> start) in
      let cur = ref start and progress = ref true in
      while !pieces <> [] && !progress do
        (match List.partition (fun p -> p.rd = !cur) !pieces with
         | p :: more, rest -> cur := p.wr; pieces := more @ rest
         | [], _ -> progress := false)
      done;
      if !pieces <> [] then begin
        report "PROPFAIL" "rule=serial_order" (Printf.sprintf "the %d committed bodies of tx %d do not chain from the state of tx %d (a body did not see its predecessor's effects)"
          (List.length (List.filter (fun r -> r.id = id) committed)) id (id - 1));
        None
      end else begin
        Hashtbl.replace ver id !cur;
        Some { Conc.t_thread = Datatypes.O; t_id = n_of_int id; t_kind = Conc.KCommit; t_read = n_of_int start; t_written = n_of_int !cur }
      end) ids in
    let others = List.filter_map (fun r -> match r.kind with
      | "abort" when r.id >= 0 -> Some { Conc.t_thread = nat_of_int r.g; t_id = n_of_int r.id; t_kind = Conc.KAbort; t_read = n_of_int r.rd; t_written = n_of_int r.wr }
      | "read" -> flag "reader"; Some { Conc.t_thread = nat_of_int r.g; t_id = n_of_int r.id; t_kind = Conc.KRead; t_read = n_of_int r.rd; t_written = n_of_int r.rd }
      | _ -> None) rs in
    let log = composed @ others in
    if not (Conc.serial_ok (n_of_int !id0) (n_of_int !c0) log) then begin
      (* name the first record the serial reading rejects *)
      let bad = List.filter (fun x -> not (Conc.rec_ok (n_of_int !id0) (n_of_int !c0) log x)) log in
      (match bad with
       | x :: _ -> report "PROPFAIL" "rule=serial_order" (Printf.sprintf "%s tx id=%s read %s: not the state of the version its id names (thread %d)"
                     (kind_name x.Conc.t_kind) (string_of_n x.Conc.t_id) (string_of_n x.Conc.t_read) (int_of_nat x.Conc.t_thread))
       | [] -> report "PROPFAIL" "rule=ids_consecutive" (Printf.sprintf "committed ids %s do not continue %d without gaps or repeats"
                     (String.concat "," (List.map string_of_int ids)) !id0))
    end;
    (* the final state is the last version *)
    (match !final with
     | Some (mid, mc, _) ->
       if mid <> !id0 + List.length ids then
         report "PROPFAIL" "rule=ids_consecutive" (Printf.sprintf "final txid %d after %d committed transactions from %d" mid (List.length ids) !id0)
       else (match Hashtbl.find_opt ver mid with
         | Some c when c = mc -> ()
         | _ -> report "PROPFAIL" "rule=final_state" (Printf.sprintf "final content %d is not what tx %d wrote" mc mid))
     | None -> if !hang = None then report "MISMATCH" "what=final" "no final state in trace");
    (* real time, per goroutine: what a call returned is visible to every later call of the same goroutine *)
    if not !det then begin
      let last = Hashtbl.create 16 in
      List.iter (fun r ->
        if r.id >= 0 then begin
          let floor = (try Hashtbl.find last r.g with Not_found -> 0) in
          let saw = (match r.kind with "read" -> r.id | _ -> r.id - 1) in     (* the version this transaction started from *)
          if saw < floor then
            report "PROPFAIL" "rule=visible_when_commit_returns" (Printf.sprintf "goroutine %d: %s tx %d started from version %d after it had already observed version %d" r.g r.kind r.id saw floor);
          let now = (match r.kind with "commit" -> r.id | "piece" when r.ret = "ok" && present r -> r.id | _ -> saw) in
          Hashtbl.replace last r.g (max floor now)
        end) rs
    end;
    (* (K) deterministic schedule: the model's log *)
    if !det && !hang = None then begin
      let pl = List.map snd (List.sort compare !progs) in
      let s = Conc.crun mixf (Conc.cinit (n_of_int !id0) (n_of_int !c0) pl) (List.map nat_of_int !sched) in
      let show x = Printf.sprintf "%d:%s:%s:%s:%s" (int_of_nat x.Conc.t_thread) (string_of_n x.Conc.t_id) (kind_name x.Conc.t_kind) (string_of_n x.Conc.t_read)
          (if x.Conc.t_kind = Conc.KRead then "-" else string_of_n x.Conc.t_written) in
      let ml = List.map show s.Conc.log in
      let il = List.filter_map (fun r -> if r.kind = "closed" then None else
          Some (Printf.sprintf "%d:%d:%s:%d:%s" r.g r.id r.kind r.rd (if r.kind = "read" then "-" else string_of_int r.wr))) rs in
      if ml <> il then begin
        let rec first a b i = match a, b with
          | x :: a', y :: b' -> if x = y then first a' b' (i + 1) else Printf.sprintf "record %d: impl=%s model=%s" i y x
          | [], y :: _ -> Printf.sprintf "record %d: impl=%s model=none" i y
          | x :: _, [] -> Printf.sprintf "record %d: impl=none model=%s" i x
          | [], [] -> "" in
        report "MISMATCH" "what=log" (first ml il 0)
      end;
      (match !final with
       | Some (mid, mc, _) -> if n_of_int mid <> s.Conc.mid || n_of_int mc <> s.Conc.mc then
           report "MISMATCH" "what=final_meta" (Printf.sprintf "impl=%d/%d model=%s/%s" mid mc (string_of_n s.Conc.mid) (string_of_n s.Conc.mc))
       | None -> ());
      flag "deterministic-schedule"
    end in
  (try while true do
    let line = input_line ic in
    match split_ws line with
    | "case" :: id :: m :: rest ->
      incr cases; case_id := id; flags := []; Buffer.clear optext; det := (m = "det");
      progs := []; sched := []; recs := []; final := None; overlap := 0; hang := None; nrec := 0; closer := -1;
      Buffer.add_string optext (String.concat " " (m :: rest));
      let kv = kv_of rest in
      id0 := (try int_of_string (get kv "id0") with _ -> 0); c0 := (try int_of_string (get kv "c0") with _ -> 0);
      (try closer := int_of_string (get kv "closer") with _ -> ());
      if m <> "det" then flag "free-running"
    | ["prog"; t; ps] ->
      Buffer.add_string optext (t ^ ps);
      let pl = List.map (fun p -> match String.split_on_char ':' p with
        | ["w"; tok; e] -> flag ("w-" ^ e);
          Conc.PWrite (n_of_int (int_of_string tok), (match e with "commit" -> Conc.ECommit | "error" -> Conc.EError | "panic" -> Conc.EPanic | _ -> Conc.ERollback))
        | _ -> Conc.PRead) (String.split_on_char ',' ps) in
      progs := (int_of_string t, pl) :: !progs
    | ["sched"; s] -> Buffer.add_string optext s; sched := List.map int_of_string (List.filter (fun x -> x <> "") (String.split_on_char ',' s))
    | ["rec"; g; id; kind; rd; wr; tok; api; ret] ->
      incr nrec;
      if not !det then Buffer.add_string optext (g ^ api);
      recs := { g = int_of_string g; id = int_of_string id; kind; rd = int_of_string rd; wr = int_of_string wr; tok = int_of_string tok; api; ret } :: !recs
    | "overlap" :: n :: _ -> overlap := int_of_string n
    | "hang" :: rest -> hang := Some (String.concat " " rest)
    | "final" :: rest ->
      let kv = kv_of rest in
      (try
        let toks = List.filter_map (fun s -> match String.split_on_char ':' s with [a; b] -> Some (int_of_string a, int_of_string b) | _ -> None)
            (String.split_on_char ',' (get kv "toks")) in
        final := Some (int_of_string (get kv "mid"), int_of_string (get kv "mc"), toks)
      with _ -> ())
    | "end" :: _ ->
      judge ();
      Printf.printf "CASE %s %s %s\n" !case_id (Digest.to_hex (Digest.string (Buffer.contents optext)))
        (if !flags = [] then "-" else String.concat "," (List.sort compare !flags))
    | _ -> ()
  done with End_of_file -> ());
  close_in ic;
  Printf.printf "SUMMARY cases=%d ops=%d mismatches=%d propfails=%d kinds=\n" !cases !ops !mism !pfail
