(* C15 driver: Compact.v (walk + replay on the reference map) against the library function and the CLI *)
open Conv
open Hexu

let run file =
  let ic = open_in file in
  let cases = ref 0 and ops = ref 0 and mism = ref 0 and pfail = ref 0 in
  let case_id = ref "" and opidx = ref 0 and flags = ref [] and optext = Buffer.create 64 in
  let flag f = if not (List.mem f !flags) then flags := f :: !flags in
  let src_dump = ref "" and src_sha = ref "" and model_dump = ref "" in
  let cur = ref [] in
  let report kind what detail =
    if kind = "MISMATCH" then incr mism else incr pfail;
    Printf.printf "%s case=%s op=%d (%s) %s %s\n" kind !case_id !opidx (String.concat " " !cur) what detail in
  (try while true do
    let line = input_line ic in
    match split_ws line with
    | "case" :: id :: _ -> incr cases; case_id := id; opidx := 0; flags := []; Buffer.clear optext
    | ["src"; path; ps; dump; sha] ->
      src_dump := dump; src_sha := sha; Buffer.add_string optext sha;
      let (rd, _) = load_rd path in
      (match Layout.dec_db rd (n_of_int (int_of_string ps)) (nat_of_int 200) with
       | None -> report "MISMATCH" "what=decode" "source image not decodable"; model_dump := "?"
       | Some v ->
         let src = v.Layout.v_root in
         if digest_or_text (dump_root src) <> dump then report "MISMATCH" "what=source" "decoder and API disagree on the source";
         let fuel = nat_of_int 64 in
         (match Compact.compact fuel src with
          | (Spec.ENone, dst) -> model_dump := digest_or_text (dump_root dst)
          | (e, _) -> model_dump := "err:" ^ err_name e);
         if not (Compact.wf_ents fuel (snd src)) then report "MISMATCH" "what=hypothesis" "source violates Compact.wf_ents";
         let rec walkf (es : (BinNums.coq_N list * Spec.entry) list) d =
           List.iter (fun (_, e) -> match e with
             | Spec.Val [] -> flag "empty-value" | Spec.Val v -> if List.length v > 4096 then flag "multi-page-value"
             | Spec.Sub (s, es') -> (if int_of_n s > 0 then flag "sequence"); (if es' = [] then flag "empty-bucket");
               (if d >= 2 then flag "depth3+"); walkf es' (d + 1)) es in
         walkf (snd src) 0)
    | "o" :: rest -> cur := rest; incr opidx
    | ["r"; e; ddump; chk; sha] ->
      incr ops;
      (match !cur with ["compact"; how; lim] -> flag how; if lim = "1" || lim = "2" || lim = "7" then flag "tiny-limit" | _ -> ());
      if e <> "ok" then report "PROPFAIL" "rule=compact_succeeds" e
      else begin
        (* (K) the model's destination, (S) the property: destination = source, check clean, source untouched *)
        if ddump <> !model_dump then report "MISMATCH" "what=destination" (Printf.sprintf "impl=%s model=%s" ddump !model_dump);
        if ddump <> !src_dump then report "PROPFAIL" "rule=content_preserved" (Printf.sprintf "dst=%s src=%s" ddump !src_dump);
        if chk <> "0" then report "PROPFAIL" "rule=dst_check_clean" chk
      end;
      if sha <> !src_sha then report "PROPFAIL" "rule=source_unchanged" ""
    | "end" :: _ ->
      Printf.printf "CASE %s %s %s\n" !case_id (Digest.to_hex (Digest.string (Buffer.contents optext)))
        (if !flags = [] then "-" else String.concat "," (List.sort compare !flags))
    | _ -> ()
  done with End_of_file -> ());
  close_in ic;
  Printf.printf "SUMMARY cases=%d ops=%d mismatches=%d propfails=%d kinds=\n" !cases !ops !mism !pfail
