(* C16 driver: Batch.v replayed on deterministic batches (K); counters vs results on every case (S) *)
open Conv

let outc_of = function "ok" -> Batch.OOk | "err" -> Batch.OErr | "panic" -> Batch.OPanic | s -> failwith ("outc " ^ s)
let res_name = function Batch.RNil -> "nil" | Batch.RErr -> "err" | Batch.RPanic -> "panic" | Batch.RCommitErr -> "commiterr"

let run file =
  let ic = open_in file in
  let cases = ref 0 and ops = ref 0 and mism = ref 0 and pfail = ref 0 in
  let case_id = ref "" and opidx = ref 0 and flags = ref [] and optext = Buffer.create 64 in
  let flag f = if not (List.mem f !flags) then flags := f :: !flags in
  let n = ref 0 and det = ref false in
  let scripts : (int, Batch.outc * Batch.outc list) Hashtbl.t = Hashtbl.create 8 in
  let model : Batch.bstate option ref = ref None in
  let cur = ref [] in
  let report kind what detail =
    if kind = "MISMATCH" then incr mism else incr pfail;
    Printf.printf "%s case=%s op=%d (%s) %s %s\n" kind !case_id !opidx (String.concat " " !cur) what detail in
  let sc c k = match Hashtbl.find_opt scripts (int_of_n c) with
    | None -> Batch.OOk
    | Some (d, outs) -> let k = int_of_nat k in if k >= 1 && k <= List.length outs then List.nth outs (k - 1) else d in
  (try while true do
    let line = input_line ic in
    match split_ws line with
    | "case" :: id :: rest ->
      incr cases; case_id := id; opidx := 0; flags := []; Hashtbl.reset scripts; model := None; Buffer.clear optext;
      Buffer.add_string optext (String.concat " " rest);
      List.iter (fun f -> match String.split_on_char '=' f with
        | ["n"; v] -> n := int_of_string v | ["det"; v] -> det := (v = "true")
        | ["size"; v] -> if v = "0" || v = "1" then flag "batching-disabled" | _ -> ()) rest
    | ["script"; c; def; outs] ->
      Buffer.add_string optext (def ^ outs);
      let outs = List.filter (fun x -> x <> "-") (String.split_on_char ',' outs) in
      Hashtbl.replace scripts (int_of_string c) (outc_of def, List.map outc_of outs);
      if def <> "ok" then flag ("always-" ^ def); if outs <> [] then flag "fails-then-ok"
    | "o" :: rest -> cur := rest; incr opidx;
      if !model = None && !det then begin
        let calls = List.init !n n_of_int in
        model := Batch.run_batch (nat_of_int (!n + 1)) sc true calls Batch.bstate0;
        flag "deterministic-batch"
      end
    | ["r"; "hang"] -> report "PROPFAIL" "rule=batch_returns" "a Batch call did not return"
    | "r" :: res :: fields ->
      incr ops;
      let kv = kv_of fields in
      let c = (match !cur with ["caller"; c] -> int_of_string c | _ -> -1) in
      let committed = List.filter (fun x -> x <> "-") (String.split_on_char ',' (get kv "committed")) in
      let counter = int_of_string (get kv "counter") in
      (* (S) a caller is told the outcome of ITS OWN function: what it gets is what its last invocation did - never another
         caller's error or panic, and never nothing *)
      let invs = List.filter (fun x -> x <> "-" && x <> "") (String.split_on_char ';' (get kv "invs")) in
      (match List.rev invs with
       | last :: _ ->
         (match String.split_on_char ':' last with
          | [_; _; outc] ->
            let want = (match outc with "ok" -> "nil" | x -> x) in
            if res <> want && res <> "hang" then
              report "PROPFAIL" "rule=own_result_only" (Printf.sprintf "caller got %s but its own last invocation ended %s (invocations %s)" res outc (get kv "invs"))
          | _ -> ())
       | [] -> if res <> "hang" then report "PROPFAIL" "rule=own_result_only" (Printf.sprintf "caller got %s although its function was never invoked" res));
      (match res with
       | "nil" -> if List.length committed <> 1 || counter <> 1 then
           report "PROPFAIL" "rule=nil_means_exactly_once" (Printf.sprintf "committed invocations %s, counter %d" (get kv "committed") counter)
       | "err" | "panic" -> if committed <> [] || counter <> 0 then
           report "PROPFAIL" "rule=error_means_not_applied" (Printf.sprintf "result %s but committed invocations %s, counter %d" res (get kv "committed") counter);
         flag ("result-" ^ res)
       | other -> report "PROPFAIL" "rule=own_result_only" ("caller received " ^ other));
      (* (K) deterministic batches: the model's result, committed invocation and number of invocations *)
      (match !model with
       | Some s when !det ->
         let mr = (match Batch.res_get (n_of_int c) s.Batch.b_results with Some r -> res_name r | None -> "none") in
         if mr <> res then report "MISMATCH" "what=result" (Printf.sprintf "impl=%s model=%s" res mr);
         let mc = List.map (fun k -> string_of_int (int_of_nat k)) (Batch.committed_of (n_of_int c) s.Batch.b_committed) in
         if mc <> committed then report "MISMATCH" "what=committed_invocation" (Printf.sprintf "impl=%s model=%s" (get kv "committed") (String.concat "," mc));
         let ninv = List.length (List.filter (fun x -> x <> "-") (String.split_on_char ';' (get kv "invs"))) in
         let mn = int_of_nat (Batch.cnt_get (n_of_int c) s.Batch.b_cnt) in
         if mn <> ninv then report "MISMATCH" "what=invocations" (Printf.sprintf "impl=%d model=%d" ninv mn);
         if ninv >= 3 then flag "retried"
       | _ -> ())
    | "end" :: _ ->
      Printf.printf "CASE %s %s %s\n" !case_id (Digest.to_hex (Digest.string (Buffer.contents optext)))
        (if !flags = [] then "-" else String.concat "," (List.sort compare !flags))
    | _ -> ()
  done with End_of_file -> ());
  close_in ic;
  Printf.printf "SUMMARY cases=%d ops=%d mismatches=%d propfails=%d kinds=\n" !cases !ops !mism !pfail
