(* C19 driver: the decoder's verdict (Layout: decodable, key order, accounting) on every (mutated) file against
   Tx.Check and the command-line tool. *)
open Conv
open Hexu


let code_of (e : Check.cerr) =
  let n = string_of_n in
  match e with
  | Check.EAlreadyFreed id -> "AF:" ^ n id | Check.EUnreachUnfreed id -> "UU:" ^ n id | Check.EOutOfBounds id -> "OB:" ^ n id
  | Check.EMultiRef id -> "MR:" ^ n id | Check.EReachFreed id -> "RF:" ^ n id | Check.EInvalidType id -> "IT:" ^ n id
  | Check.EUnexpectedType pg -> "UT:" ^ n pg
  | Check.EKeyFirst (pg, i) -> "KF:" ^ n pg ^ ":" ^ n i | Check.EKeyLt (pg, i) -> "KL:" ^ n pg ^ ":" ^ n i
  | Check.EKeyEq (pg, i) -> "KE:" ^ n pg ^ ":" ^ n i | Check.EKeyMax (pg, i) -> "KM:" ^ n pg ^ ":" ^ n i

let run file =
  let ic = open_in file in
  let cases = ref 0 and ops = ref 0 and mism = ref 0 and pfail = ref 0 in
  let case_id = ref "" and opidx = ref 0 and flags = ref [] and optext = Buffer.create 64 in
  let flag f = if not (List.mem f !flags) then flags := f :: !flags in
  let cur = ref [] in
  let report kind what detail =
    if kind = "MISMATCH" then incr mism else incr pfail;
    Printf.printf "%s case=%s op=%d (%s) %s %s\n" kind !case_id !opidx (String.concat " " !cur) what detail in
  (try while true do
    let line = input_line ic in
    match split_ws line with
    | "case" :: id :: _ -> incr cases; case_id := id; opidx := 0; flags := []; Buffer.clear optext
    | "o" :: rest -> cur := rest; incr opidx
    | "r" :: fields ->
      incr ops;
      let kv = kv_of fields in
      let (rd, _) = load_rd (get kv "img") in
      let ps = n_of_int (int_of_string (get kv "ps")) in
      if !cur = ["base"] then Buffer.add_string optext (Digest.to_hex (Digest.file (get kv "img")));
      let verdict =
        match with_timeout 5 (fun () -> Layout.dec_db rd ps (nat_of_int 64)) with
        | None -> "corrupt:walk-does-not-end"
        | Some None -> "corrupt:undecodable"
        | Some (Some v) ->
          if not v.Layout.v_order then "corrupt:key-order"
          else (match v.Layout.v_free with
              | Some free -> if Layout.accounted v free then "consistent" else "corrupt:accounting"
              | None -> "consistent") in
      let lib = get kv "lib" and cli = get kv "cli" in
      let cls = match !cur with "mut" :: c :: _ -> c | _ -> "base" in
      (* (K) Check.v, the line-for-line model of Tx.check, on the same bytes: the multiset of (class, page, index) it reports
         must be the one Tx.Check reported.  Compared exactly when the run completed, every message was recognised and the
         keys are ordered (nested buckets are then visited in the same order); otherwise only emptiness is compared. *)
      let errs = get kv "errs" in
      if errs <> "" && lib <> "crash" && lib <> "hang" && lib <> "childerr" && String.length lib < 12 && not (String.length lib >= 5 && String.sub lib 0 5 = "crash") then begin
        match with_timeout 5 (fun () -> Check.check_file rd ps (nat_of_int 64) []) with
        | Some (Some merrs) ->
          let mc = List.sort compare (List.map code_of merrs) in
          let ic = if errs = "-" then [] else List.sort compare (String.split_on_char ',' errs) in
          let exact = (match verdict with "consistent" | "corrupt:accounting" -> true | _ -> false)
                      && not (List.mem "??" ic) && List.length ic < 400 && List.length mc < 400 in
          if exact then begin
            if mc <> ic then report "MISMATCH" "what=check_model" (Printf.sprintf "impl=[%s] model=[%s]" (String.concat "," ic) (String.concat "," mc))
            else if mc <> [] then flag "check-model-agrees-on-errors"
          end else if (mc = []) <> (ic = []) then
            report "MISMATCH" "what=check_model_verdict" (Printf.sprintf "impl=[%s] model=[%s]" (String.concat "," ic) (String.concat "," mc));
          (* the CLI's decision as modelled: exit 1 iff the list is not empty *)
          if cli <> "crash" && cli <> "hang" && cli <> "childerr" && string_of_n (Check.cli_exit merrs) <> cli && mc = ic then
            report "MISMATCH" "what=cli_exit_model" (Printf.sprintf "impl=%s model=%s" cli (string_of_n (Check.cli_exit merrs)))
        | _ -> ()
      end;
      let reported = (lib <> "0" && lib <> "crash" && lib <> "hang" && lib <> "childerr") in
      if verdict = "consistent" then begin
        if !cur = ["base"] then flag "base" else flag ("harmless-" ^ cls);
        if lib <> "0" then report "PROPFAIL" "rule=no_false_alarm" (Printf.sprintf "Tx.Check reports %s problems on a file the decoder finds consistent" lib);
        if cli <> "0" then report "PROPFAIL" "rule=cli_exit_reflects_result" (Printf.sprintf "exit status %s on a consistent file" cli)
      end else begin
        flag ("detected-" ^ cls);
        if not reported then
          report "PROPFAIL" ("rule=check_reports_corruption" ^ (if (cls = "freelist-add-overflow-of" || cls = "freelist-has-overflow-of") && verdict = "corrupt:accounting" then " sig=d8 " else ""))
            (Printf.sprintf "%s but Tx.Check says %s" verdict lib);
        if cli <> "1" && reported then report "PROPFAIL" "rule=cli_exit_reflects_result" (Printf.sprintf "exit status %s although %s problems were reported" cli lib)
      end;
      (try Sys.remove (get kv "img") with _ -> ())
    | "end" :: _ ->
      Printf.printf "CASE %s %s %s\n" !case_id (Digest.to_hex (Digest.string (Buffer.contents optext)))
        (if !flags = [] then "-" else String.concat "," (List.sort compare !flags))
    | _ -> ()
  done with End_of_file -> ());
  close_in ic;
  Printf.printf "SUMMARY cases=%d ops=%d mismatches=%d propfails=%d kinds=\n" !cases !ops !mism !pfail
