(* C04 (and the substrate of C07 / C12): replay API histories on Spec.v, compare every result; decode every
   file image with Layout.v and compare with the model state + accounting. *)
open Conv
open Hexu

type st = {
  mutable committed : Spec.bucket;
  mutable work : Spec.bucket option;
  readers : (int, Spec.bucket) Hashtbl.t;
  mutable stale : bool;
  mutable ps : int;
  mutable nfs : bool;
  mutable ro : bool;
}

let empty_root : Spec.bucket = (BinNums.N0, [])

let run mode file =
  let spec = (mode = "c04" || mode = "c08" || mode = "c14" || mode = "c20") in
  let prev_version = ref empty_root in
  let acct = (mode = "c07" || mode = "c08") in
  let meta_written = ref false and fail_after_meta = ref false and fail_kind = ref "" in
  let d5 = ref false and d4 = ref false and unmapped = ref false and open_r = ref [] in
  let last_dump = ref "t:" and pending_dump = ref "t:" in
  let last_reach = ref (-1) in
  let api_free : int list option ref = ref None in
  let ic = open_in file in
  let cases = ref 0 and ops = ref 0 and mism = ref 0 and pfail = ref 0 and imgs = ref 0 in
  let kinds = Hashtbl.create 32 in
  let bump k = Hashtbl.replace kinds k (1 + try Hashtbl.find kinds k with Not_found -> 0) in
  let s = { committed = empty_root; work = None; readers = Hashtbl.create 4; stale = false; ps = 4096; nfs = false; ro = false } in
  let case_id = ref "" and opidx = ref 0 and optext = Buffer.create 1024 and flags = ref [] and dead = ref false in
  let cur = ref [] in
  let flag f = if not (List.mem f !flags) then flags := f :: !flags in
  let cut x = if String.length x > 300 then String.sub x 0 300 ^ "..." else x in
  let mismatch what i m =
    if not !dead then begin
      incr mism; dead := true;
      Printf.printf "MISMATCH case=%s op=%d (%s) what=%s%s impl=%s model=%s\n" !case_id !opidx (cut (String.concat " " !cur)) what
        (if !d5 then " sig=d5 " else if !d4 then " sig=d4 " else "") (cut i) (cut m) end in
  let propfail rule detail =
    incr pfail;
    Printf.printf "PROPFAIL case=%s op=%d (%s) rule=%s%s %s\n" !case_id !opidx (cut (String.concat " " !cur)) rule
      (if !d5 then " sig=d5 " else "") (cut detail) in
  let expect res want what = if res <> want then mismatch what res want in
  let tx_root ref_ =
    if ref_ = "w" then s.work
    else Hashtbl.find_opt s.readers (int_of_string (String.sub ref_ 1 (String.length ref_ - 1))) in
  (try while true do
    let line = input_line ic in
    match split_ws line with
    | "case" :: id :: _ ->
      incr cases; case_id := id; opidx := 0; Buffer.clear optext; flags := []; dead := false;
      s.committed <- empty_root; s.work <- None; Hashtbl.reset s.readers; s.stale <- false; d5 := false; unmapped := false; last_reach := -1;
      last_dump := "t:"; pending_dump := "t:"
    | "i" :: what :: fields when mode = "c12" && (what = "commit" || what = "open") ->
      let kv = kv_of fields in
      let ids s = if s = "-" || s = "" then [] else List.map int_of_string (String.split_on_char ',' s) in
      let pend = List.concat_map (fun ent -> match String.split_on_char ':' ent with [_; l] -> ids l | _ -> [])
          (if get kv "flpend" = "-" then [] else String.split_on_char ';' (get kv "flpend")) in
      api_free := Some (List.sort compare (ids (get kv "flfree") @ pend))
    | ["ps"; v] -> (try s.ps <- int_of_string v with _ -> ())      (* the file's actual page size, reported by the harness after Open *)
    | "io" :: kind :: off :: _ :: rest ->
      if rest = ["FAIL"] then (fail_kind := kind; fail_after_meta := !meta_written)
      else if kind = "write" && int_of_string off < 2 * s.ps then meta_written := true
    | "o" :: rest -> cur := rest; incr opidx;
      (match rest with
       | "open" :: fields -> List.iter (fun f -> match String.split_on_char '=' f with ["ps"; v] -> (try s.ps <- int_of_string v with _ -> ()) | _ -> ()) fields
       | _ -> ());
      (match rest with ["beginw"] | "commitfail" :: _ | ["commit"] -> (match rest with ["beginw"] -> () | _ -> meta_written := false; fail_kind := "") | _ -> ());
      (match rest with "img" :: _ -> () | _ -> Buffer.add_string optext (String.concat " " rest); Buffer.add_char optext '\n')
    | "r" :: "panic" :: msg when not !dead && not spec ->
      propfail "panic" (String.concat " " msg); dead := true
    | "r" :: res when not !dead ->
      incr ops;
      let res_s = String.concat " " res in
      (* open readers, tracked in every mode (the accounting/format projections do not run the reference map): the known
         finding D5 is "final sync failed while a reader was open" *)
      (match !cur, res with
       | ["beginr"; id], "ok" :: _ -> if not (List.mem id !open_r) then open_r := id :: !open_r
       | ["endr"; id], _ -> open_r := List.filter (fun x -> x <> id) !open_r
       | ("close" :: _ | "open" :: _), _ -> open_r := []
       | _ -> ());
      List.iter (fun f -> if String.length f > 15 && String.sub f 0 15 = "blocked-closed=" then
        List.iter (fun id -> open_r := List.filter (fun x -> x <> id) !open_r) (String.split_on_char ',' (String.sub f 15 (String.length f - 15)))) res;
      (match !cur, res with
       | "commitfail" :: _, e :: _ when String.length e > 0 && e.[0] = 'E' && !fail_after_meta && !open_r <> [] -> d5 := true
       | _ -> ());
      (match (if spec then !cur else (match !cur with
                                      | ("img" :: _) as c -> c
                                      | ("check" :: _) as c -> c
                                      | ("bstats" :: _) as c -> c
                                      | ["dump"; "w"] -> (match res with "ok" :: d :: _ -> pending_dump := d | ["ok"] -> pending_dump := "t:" | _ -> ()); ["skip"]
                                      | "x" :: "w" :: _ -> pending_dump := "?"; ["skip"]      (* the dump of a transaction counts only if nothing was changed after it *)
                                      | ["beginw"] -> pending_dump := "?"; ["skip"]
                                      | ["commit"] -> (match res with "ok" :: _ -> last_dump := !pending_dump | _ -> ()); ["skip"]
                                      | "commitfail" :: _ -> (match res with "ok" :: _ -> last_dump := !pending_dump | _ -> last_dump := "?"); ["skip"]
                                      | "open" :: _ -> ["skip"]
                                      | _ -> ["skip"])) with
       | ["skip"] -> ()
       | "open" :: fields ->
         bump "open";
         List.iter (fun f -> match String.split_on_char '=' f with
           | ["nfs"; v] -> s.nfs <- v <> "0" | ["ro"; v] -> s.ro <- v <> "0" | _ -> ()) fields;   (* page size: the "ps" line *)
         if s.ro then flag "read-only-open";
         expect res_s "ok" "open"
       | ["close"] -> bump "close"; s.work <- None; Hashtbl.reset s.readers; unmapped := false; expect res_s "ok" "close"
       | ["beginw"] -> bump "beginw";
         (match res with
          | ["EDatabaseReadOnly"] when s.ro -> flag "err-EDatabaseReadOnly"
          | _ when s.ro -> mismatch "beginw" res_s "EDatabaseReadOnly"
          | "ok" :: _ -> s.work <- Some s.committed
          | ["EInvalidMapping"] when !unmapped -> flag "unmapped-begin-refused"     (* not blocking: refused promptly until reopen *)
          | ["hang"] -> propfail "next_writer_blocks" "Begin(true) did not return"; dead := true
          | _ -> mismatch "beginw" res_s "ok")
       | ["beginr"; id] -> bump "beginr";
         (match res with
          | "ok" :: _ -> Hashtbl.replace s.readers (int_of_string id) s.committed; flag "reader"
          | ["EInvalidMapping"] when !unmapped -> ()
          | _ -> mismatch "beginr" res_s "ok")
       | ["endr"; id] -> bump "endr";
         let had = Hashtbl.mem s.readers (int_of_string id) in
         Hashtbl.remove s.readers (int_of_string id); expect res_s (if had then "ok" else "notx") "endr"
       | ["commit"] -> bump "commit";
         (match s.work with
          | Some w -> if snd w <> [] then s.stale <- true;
            let prev_committed = Some s.committed in
            prev_version := s.committed;
            s.committed <- w; s.work <- None;
            (match res with
             | ["ok"] -> ()
             | ["EMaxSizeReached"] ->
               (* the size limit refused the transaction: it is rolled back as a whole *)
               s.committed <- Option.get prev_committed; flag "err-EMaxSizeReached"
             | ["ok"; bc] when String.length bc > 15 && String.sub bc 0 15 = "blocked-closed=" ->
               (* the commit had to remap and waited for readers: the harness closed these (an input) *)
               flag "remap-blocked";
               List.iter (fun id -> Hashtbl.remove s.readers (int_of_string id))
                 (String.split_on_char ',' (String.sub bc 15 (String.length bc - 15)))
             | _ -> mismatch "commit" res_s "ok")
          | None -> expect res_s "notx" "commit")
       | ["commitfail"; _] -> bump "commitfail";
         (match s.work with
          | None -> expect res_s "notx" "commitfail"
          | Some w ->
            if snd w <> [] then s.stale <- true;
            s.work <- None;
            List.iter (fun f -> if String.length f > 15 && String.sub f 0 15 = "blocked-closed=" then
              List.iter (fun id -> Hashtbl.remove s.readers (int_of_string id)) (String.split_on_char ',' (String.sub f 15 (String.length f - 15)))) res;
            (match res with
             | "ok" :: rest ->
               (* success is only acceptable when no call was failed (the index lay beyond the commit's last call) *)
               let hit = (try get (kv_of rest) "failed" with _ -> "") in
               if hit <> "" then
                 propfail "commit_reports_failure" (Printf.sprintf "a %s call of this commit failed but Commit returned nil" hit)
               else flag "fault-beyond-last-call";
               s.committed <- w
             | "hang" :: _ -> propfail "commit_returns" "Commit did not return"; dead := true
             | e :: _ when String.length e > 0 && e.[0] = 'E' ->
               flag ("fault-" ^ !fail_kind);
               if !fail_kind = "mmap" then unmapped := true;
               if !fail_after_meta then begin
                 (* the one exception: the final sync failed after the meta page was written - the transaction is
                    entirely present, in memory and (page cache) on disk *)
                 s.committed <- w; flag "fault-final-sync";
                 if Hashtbl.length s.readers > 0 then d5 := true
               end
             | _ -> mismatch "commitfail" res_s "error"))
       | ["rollback"] -> bump "rollback"; flag "rollback";
         (match s.work with
          | Some w -> if snd w <> [] then s.stale <- true; s.work <- None; expect res_s "ok" "rollback"
          | None -> expect res_s "notx" "rollback")
       | ["dump"; r] -> bump "dump";
         (match tx_root r with
          | Some root -> expect res_s ("ok " ^ digest_or_text (dump_root root)) "dump"
          | None -> expect res_s "notx" "dump")
       | ["check"; r] when spec && tx_root r = None -> expect res_s "notx" "check"
       | ["check"; _] -> bump "check";
         if mode <> "c12" then (match res with "ok" :: "0" :: _ -> () | "ok" :: n :: first :: _ -> propfail "tx_check_clean" (n ^ " problems, first: " ^ first) | ["notx"] -> () | _ -> mismatch "check" res_s "ok 0")
       | ["surg"; what] when String.length what > 6 && String.sub what 0 6 = "alias:" -> bump "surg-alias";
         (* the output path names the source itself: whatever the command answers, the source stays byte-identical *)
         (match res with
          | "alias" :: ans :: fields ->
            flag ("surg-alias-" ^ ans);
            if get (kv_of fields) "src" <> "true" then propfail "source_unchanged" ("output aliasing the source (" ^ what ^ "): the source file was modified")
          | _ -> mismatch "surg" res_s "alias")
       | ["surg"; what] -> bump ("surg-" ^ what);
         (match res with
          | "ok" :: fields ->
            let kv = kv_of fields in
            flag ("surg-" ^ what);
            if get kv "src" <> "true" then propfail "source_unchanged" "";
            let expect = if what = "revert" then !prev_version else s.committed in
            let want = digest_or_text (dump_root expect) in
            if get kv "dump" <> want then propfail ("surgery_content_" ^ what) (Printf.sprintf "output=%s expected=%s" (cut (get kv "dump")) (cut want));
            if get kv "check" <> "0" then propfail ("surgery_check_" ^ what) (get kv "check");
            let (rd, _) = load_rd (get kv "img") in
            let psn = n_of_int (int_of_string (get kv "ps")) in
            let v0 = Layout.meta_valid rd psn BinNums.N0 and v1 = Layout.meta_valid rd psn (n_of_int 1) in
            if not (v0 && v1) then propfail "surgery_metas_valid" what;
            let m0 = Layout.rd_meta rd psn BinNums.N0 and m1 = Layout.rd_meta rd psn (n_of_int 1) in
            let nofl m = string_of_n m.Layout.m_fl = "18446744073709551615" in
            (match what with
             | "abandon" -> if not (nofl m0 && nofl m1) then propfail "abandon_clears_both" ""
             | "revert" -> if string_of_n m0.Layout.m_txid <> string_of_n m1.Layout.m_txid then propfail "revert_copies_older" (Printf.sprintf "txids %s / %s" (string_of_n m0.Layout.m_txid) (string_of_n m1.Layout.m_txid))
             | _ -> ());
            (match Layout.dec_db rd psn (nat_of_int 200) with
             | None -> propfail "surgery_decodes" what
             | Some v ->
               if digest_or_text (dump_root v.Layout.v_root) <> want then propfail ("surgery_decoded_content_" ^ what) "";
               (match v.Layout.v_free with
                | Some free ->
                  if what = "abandon" then propfail "abandon_clears_both" "a freelist is still referenced";
                  if not (Layout.accounted v free) then propfail ("surgery_accounting_" ^ what) ""
                | None -> if what = "rebuild" || what = "abandon+rebuild" then propfail "rebuild_persists_freelist" ""))
          | e :: _ when String.length e > 4 && String.sub e 0 4 = "err:" ->
            (* rebuild refuses a file that still has a freelist *)
            if what = "rebuild" && not s.nfs then flag "surg-rebuild-refused"
            else propfail ("surgery_fails_" ^ what) e
          | _ -> mismatch "surg" res_s "ok")
       | ["backupdone"; r] -> bump "backup";
         (match res with
          | "ok" :: fields ->
            let kv = kv_of fields in
            flag "backup";
            if get kv "n" <> get kv "size" then propfail "backup_size" (Printf.sprintf "%s bytes written, Tx.Size() = %s" (get kv "n") (get kv "size"));
            (match tx_root r with
             | Some snap ->
               let want = digest_or_text (dump_root snap) in
               if get kv "dump" <> want then propfail "backup_content" (Printf.sprintf "copy=%s snapshot=%s" (cut (get kv "dump")) (cut want));
               if snap != s.committed && digest_or_text (dump_root s.committed) <> want then flag "backup-of-old-snapshot"
             | None -> mismatch "backup" "reader unknown to the model" "");
            if get kv "check" <> "0" then propfail "backup_check_clean" (get kv "check");
            let (rd, len) = load_rd (get kv "img") in
            let psn = n_of_int (int_of_string (get kv "ps")) in
            if string_of_int len <> get kv "n" then propfail "backup_size" "file length differs from the byte count";
            let v0 = Layout.meta_valid rd psn BinNums.N0 and v1 = Layout.meta_valid rd psn (n_of_int 1) in
            if not (v0 && v1) then propfail "backup_metas_valid" "";
            let t0 = (Layout.rd_meta rd psn BinNums.N0).Layout.m_txid and t1 = (Layout.rd_meta rd psn (n_of_int 1)).Layout.m_txid in
            if int_of_n t1 <> int_of_n t0 - 1 then mismatch "backup_meta1_txid" (string_of_n t1) (string_of_int (int_of_n t0 - 1));
            (match (match with_timeout 20 (fun () -> Layout.dec_db rd psn (nat_of_int 200)) with Some x -> x | None -> None) with
             | None -> propfail "backup_decodes" "the copy does not decode as a database (or the decoder gave up after 20 s on its counts)"
             | Some v ->
               if int_of_n v.Layout.v_meta.Layout.m_txid <> int_of_n t0 then propfail "backup_meta0_wins" "";
               if len <> int_of_n v.Layout.v_meta.Layout.m_mark * int_of_string (get kv "ps") then propfail "backup_size" "length is not mark * pageSize";
               if digest_or_text (dump_root v.Layout.v_root) <> get kv "dump" then propfail "backup_decoded_content" "";
               if not (v.Layout.v_order && v.Layout.v_bounds) then propfail "backup_order_bounds" "";
               (match v.Layout.v_free with
                | Some free -> if not (Layout.accounted v free) then propfail "backup_accounting" (Printf.sprintf "mark=%s" (string_of_n v.Layout.v_meta.Layout.m_mark))
                | None -> ()))
          | _ -> mismatch "backup" res_s "ok")
       | ["bstats"; _] -> bump "bstats";
         if acct then (match res with
           | "ok" :: fields ->
             let kv = kv_of fields in
             let total = List.fold_left (fun a k -> a + int_of_string (get kv k)) 0 ["branch"; "branchov"; "leaf"; "leafov"] in
             if !last_reach >= 0 && total <> !last_reach then
               propfail "bucket_stats_pages" (Printf.sprintf "Bucket.Stats counts %d tree pages (%s), the decoder reaches %d" total (String.concat " " fields) !last_reach)
           | _ -> ())
       | "stale" :: api :: _ -> bump ("stale-" ^ api); flag "err-ETxClosed";
         expect res_s (if s.stale then "ETxClosed" else "nostale") "stale"
       | "img" :: _ ->
         (match res with
          | ["ok"; path; flen; ps] ->
            incr imgs;
            let (rd, len) = load_rd path in
            let psn = n_of_int (int_of_string ps) in
            (match Layout.dec_db rd psn (nat_of_int 200) with
             | None -> propfail "decode" "the independent decoder cannot read the file"
             | Some v ->
               (* C12: decoded content = what the API reports = model state *)
               if mode = "c12" then begin
                 (* C12: what the independent reader decodes = what the API reported for the state just committed *)
                 let dtxt = digest_or_text (dump_root v.Layout.v_root) in
                 if !last_dump <> "?" && dtxt <> !last_dump then propfail "decoded_content" (Printf.sprintf "decoder=%s api=%s" (cut dtxt) (cut !last_dump));
                 flag "img";
                 (* the persisted free list, read with the published count conventions, is the API's free + pending set *)
                 (match v.Layout.v_free, !api_free with
                  | Some f, Some a when !last_dump <> "?" ->
                    let f = List.sort compare (List.map int_of_n f) in
                    if f <> a then propfail "decoded_freelist" (Printf.sprintf "decoder reads %d ids, the API holds %d free+pending ids (first difference near %s)"
                      (List.length f) (List.length a)
                      (try string_of_int (List.find (fun x -> not (List.mem x a)) f) with Not_found -> (try string_of_int (List.find (fun x -> not (List.mem x f)) a) with Not_found -> "?")));
                    if List.length f >= 65535 then flag "freelist-0xFFFF"
                  | _ -> ())
               end;
               if acct then begin
               (* C07: accounting *)
               last_reach := List.length (Layout.page_ids v.Layout.v_pages);
               let mark = int_of_n v.Layout.v_meta.Layout.m_mark in
               ignore len;
               if int_of_string flen < mark * int_of_string ps then propfail "file_length" (Printf.sprintf "len=%s mark=%d" flen mark);
               if not v.Layout.v_order then propfail "key_order" "";
               if not v.Layout.v_bounds then propfail "element_bounds" "";
               (match v.Layout.v_free with
                | Some free ->
                  if not (Layout.accounted v free) then
                    propfail "accounting" (Printf.sprintf "mark=%d reachable=%s flpage=%s free=%s" mark
                      (csv_of_ns (Base.sortN (Layout.page_ids v.Layout.v_pages))) (csv_of_ns v.Layout.v_flpage) (csv_of_ns free));
                  flag "img-fl"
                | None ->
                  (* freelist not persisted: reachable pages must be distinct and below the mark *)
                  let ids = Base.sortN (Layout.page_ids v.Layout.v_pages) in
                  if not (Layout.nodupb ids) then propfail "accounting_nofl" "page referenced twice";
                  if List.exists (fun x -> int_of_n x >= mark || int_of_n x < 2) ids then propfail "accounting_nofl" "page out of range";
                  flag "img-nofl");
               end;
               if List.exists (fun ((_, ov), _) -> int_of_n ov > 0) v.Layout.v_pages then flag "overflow";
               if List.exists (fun ((_, _), fl) -> int_of_n fl = 1) v.Layout.v_pages then flag "branch")
          | _ -> mismatch "img" res_s "ok <path>")
       | "x" :: r :: api :: path :: args ->
         bump api;
         (match tx_root r with
          | None -> expect res_s "notx" "x"
          | Some root ->
            let p = parse_path path in
            let writable = (r = "w") in
            let arg i = List.nth args i in
            let apply op =
              let ((e, out), root') = Spec.exec writable op root in
              if writable then s.work <- Some root';
              (e, out) in
            let canon_empty name e = if name = "-" && e = "EIncompatibleValue" then "EBucketNotFound" else e in
            (match api with
             | "create" -> let (e, _) = apply (Spec.OCreate (p, expand_val (arg 0))) in
               if e <> Spec.ENone then flag ("err-" ^ err_name e) else flag "create"; expect res_s (err_name e) api
             | "createif" -> let (e, _) = apply (Spec.OCreateIf (p, expand_val (arg 0))) in
               if e <> Spec.ENone then flag ("err-" ^ err_name e); expect res_s (err_name e) api
             | "delb" -> let (e, _) = apply (Spec.ODeleteBucket (p, expand_val (arg 0))) in
               if e <> Spec.ENone then flag ("err-" ^ err_name e) else flag "delb"; expect (canon_empty (arg 0) res_s) (err_name e) api
             | "move" ->
               let dstp = parse_path (arg 1) and nm = expand_val (arg 0) in
               let (e, _) = apply (Spec.OMove (p, nm, dstp)) in
               if e <> Spec.ENone then flag ("err-" ^ err_name e) else flag "move";
               (* known finding D4: the destination lies inside the bucket being moved; the reference refuses, the code returns nil *)
               let rec is_prefix a b = match a, b with [], _ -> true | x :: a', y :: b' -> x = y && is_prefix a' b' | _ -> false in
               let into_own_subtree = e = Spec.ESameBuckets && is_prefix (p @ [nm]) dstp in
               if into_own_subtree && res_s = "ok" then d4 := true;
               (* which error refuses such a move is not the reference's business (the code may find an existing key first):
                  any refusal agrees, only success is the finding *)
               if into_own_subtree && res_s <> "ok" && String.length res_s > 0 && res_s.[0] = 'E' then flag "selfmove-refused"
               else expect (canon_empty (arg 0) res_s) (err_name e) api;
               d4 := false
             | "put" -> let (e, _) = apply (Spec.OPut (p, expand_val (arg 0), expand_val (arg 1))) in
               if e <> Spec.ENone then flag ("err-" ^ err_name e) else flag "put"; expect res_s (err_name e) api
             | "get" -> (match apply (Spec.OGet (p, expand_val (arg 0))) with
                 | (Spec.ENone, Spec.VBytes v) -> (if v <> None then flag "get-hit"); expect res_s ("ok " ^ show_val v) api
                 | (e, _) -> expect res_s (err_name e) api)
             | "del" -> let (e, _) = apply (Spec.ODelete (p, expand_val (arg 0))) in
               if e <> Spec.ENone then flag ("err-" ^ err_name e) else flag "del"; expect res_s (err_name e) api
             | "seq" -> (match apply (Spec.OSeq p) with
                 | (Spec.ENone, Spec.VNum n) -> expect res_s ("ok " ^ string_of_n n) api
                 | (e, _) -> expect res_s (err_name e) api)
             | "setseq" -> let (e, _) = apply (Spec.OSetSeq (p, n_of_string (arg 0))) in flag "seq"; expect res_s (err_name e) api
             | "nextseq" -> (match apply (Spec.ONextSeq p) with
                 | (Spec.ENone, Spec.VNum n) -> flag "seq"; expect res_s ("ok " ^ string_of_n n) api
                 | (e, _) -> expect res_s (err_name e) api)
             | "keyn" -> (match Spec.resolve p root with
                 | Some b -> expect res_s ("ok " ^ string_of_n (Spec.key_n b)) api
                 | None -> expect res_s "ENoBucket" api)
             | "list" -> (match Spec.resolve p root with
                 | Some b ->
                   let buf = Buffer.create 64 in
                   List.iter (fun (k, v) -> Buffer.add_string buf (hex_of_bytes k); Buffer.add_char buf '=';
                     Buffer.add_string buf (show_val v); Buffer.add_char buf ';') (Spec.listing b);
                   expect res_s ("ok " ^ digest_or_text (Buffer.contents buf)) api
                 | None -> expect res_s "ENoBucket" api)
             | _ -> failwith ("bad api " ^ api)))
       | _ -> ())
    | "r" :: _ -> ()
    | "end" :: _ ->
      Printf.printf "CASE %s %s %s\n" !case_id (Digest.to_hex (Digest.string (Buffer.contents optext)))
        (if !flags = [] then "-" else String.concat "," (List.sort compare !flags))
    | _ -> ()
  done with End_of_file -> ());
  close_in ic;
  let ks = Hashtbl.fold (fun k v acc -> Printf.sprintf "%s:%d" k v :: acc) kinds [] in
  Printf.printf "SUMMARY cases=%d ops=%d mismatches=%d propfails=%d images=%d kinds=%s\n"
    !cases !ops !mism !pfail !imgs (String.concat "," (List.sort compare ks))
