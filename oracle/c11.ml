(* C11 driver: Layout.open_model (page-size detection, validation, meta choice) + the decoder on the damaged image,
   against what the real Open did. *)
open Conv
open Hexu

let class_of = function Layout.MOk -> "ok" | Layout.MInvalid -> "EInvalid" | Layout.MVersionMismatch -> "EVersionMismatch" | Layout.MChecksum -> "EChecksum"

let run file =
  let ic = open_in file in
  let cases = ref 0 and ops = ref 0 and mism = ref 0 and pfail = ref 0 in
  let case_id = ref "" and opidx = ref 0 and flags = ref [] and optext = Buffer.create 64 in
  let flag f = if not (List.mem f !flags) then flags := f :: !flags in
  let ps = ref 4096 and dps = ref 4096 in
  let base = ref Bytes.empty in
  let vers : (int, string) Hashtbl.t = Hashtbl.create 8 in
  let cur = ref [] in
  let dcache : (string, string) Hashtbl.t = Hashtbl.create 4 in
  let report kind what detail =
    if kind = "MISMATCH" then incr mism else incr pfail;
    Printf.printf "%s case=%s op=%d (%s) %s %s\n" kind !case_id !opidx (String.concat " " !cur) what detail in
  (try while true do
    let line = input_line ic in
    match split_ws line with
    | "case" :: id :: rest ->
      incr cases; case_id := id; opidx := 0; flags := []; Hashtbl.reset vers; Hashtbl.reset dcache; Buffer.clear optext;
      Hashtbl.replace vers 0 "t:"; Hashtbl.replace vers 1 "t:";      (* the two initial metas of a new file: the empty database *)
      List.iter (fun f -> match String.split_on_char '=' f with
        | ["ps"; v] -> ps := int_of_string v; flag ("ps" ^ v) | ["dps"; v] -> dps := int_of_string v | _ -> ()) rest
    | ["base"; path; _] ->
      let ic2 = open_in_bin path in let len = in_channel_length ic2 in
      base := Bytes.of_string (really_input_string ic2 len); close_in ic2;
      Buffer.add_string optext (Digest.to_hex (Digest.bytes !base))
    | ["ver"; txid; dump] -> Hashtbl.replace vers (int_of_string txid) dump
    | ["ver"; txid] -> Hashtbl.replace vers (int_of_string txid) "t:"
    | "o" :: rest -> cur := rest; incr opidx
    | "r" :: res ->
      incr ops;
      let img = Bytes.copy !base in
      let len = ref (Bytes.length img) in
      let img = ref img in
      let addb off dv = Bytes.set !img off (Char.chr ((Char.code (Bytes.get !img off) + dv) land 0xff)) in
      let meta_only = ref true in
      (match !cur with
       | ["b"; slot; pos; dv] -> addb (int_of_string slot * !ps + 16 + int_of_string pos) (int_of_string dv); flag "single-byte"
       | ["bb"; p0; v0; p1; v1] -> addb (16 + int_of_string p0) (int_of_string v0); addb (!ps + 16 + int_of_string p1) (int_of_string v1); flag "both"
       | ["p"; slot; a; b] ->
         (* would-be newer meta: the newer meta with txid+1 and a fresh checksum, bytes [a,b) copied over the older slot *)
         let slot = int_of_string slot and a = int_of_string a and b = int_of_string b in
         let newer = 1 - slot in
         let wb = Bytes.sub !base (newer * !ps + 16) 64 in
         let t = Bytes.get_int64_le wb 48 in Bytes.set_int64_le wb 48 (Int64.add t 1L);
         (* FNV-1a 64 in OCaml glue, checked against the model below through validate *)
         let h = ref 0xcbf29ce484222325L in
         for i = 0 to 55 do h := Int64.mul (Int64.logxor !h (Int64.of_int (Char.code (Bytes.get wb i)))) 0x100000001b3L done;
         Bytes.set_int64_le wb 56 !h;
         Bytes.blit wb a !img (slot * !ps + 16 + a) (b - a); flag "partial"
       | ["t"; l] -> len := int_of_string l; meta_only := false; flag "truncated"
       | ["j"; seed; l] ->
         let l = int_of_string l in
         let s = ref (Int64.of_string seed) in
         let next () =
           s := Int64.add !s 0x9e3779b97f4a7c15L;
           let z = ref !s in
           z := Int64.mul (Int64.logxor !z (Int64.shift_right_logical !z 30)) 0xbf58476d1ce4e5b9L;
           z := Int64.mul (Int64.logxor !z (Int64.shift_right_logical !z 27)) 0x94d049bb133111ebL;
           Int64.logxor !z (Int64.shift_right_logical !z 31) in
         img := Bytes.init l (fun _ -> Char.chr (Int64.to_int (Int64.logand (next ()) 0xffL))); len := l; meta_only := false; flag "junk"
       | _ -> failwith "bad op");
      let b = !img and flen = !len in
      let rd off = match off with
        | BinNums.N0 -> if flen > 0 then byte_tbl.(Char.code (Bytes.get b 0)) else BinNums.N0
        | BinNums.Npos p -> if bits_of_pos p > 40 then BinNums.N0 else
            let o = int_of_pos p in if o < flen then byte_tbl.(Char.code (Bytes.get b o)) else BinNums.N0 in
      let impl = String.concat " " res in
      (match Layout.open_model rd (n_of_int flen) (n_of_int !dps) with
       | Layout.OpenOk (mps, m) ->
         let txid = int_of_n m.Layout.m_txid in
         let key = Printf.sprintf "%d:%s:%b" txid (string_of_n m.Layout.m_root) !meta_only in
         let dump = match Hashtbl.find_opt dcache key with
           | Some d when !meta_only -> d
           | _ ->
             let d = (match Layout.dec_with_meta rd mps (nat_of_int 200) m with
                 | Some v -> digest_or_text (dump_root v.Layout.v_root) | None -> "undecodable") in
             Hashtbl.replace dcache key d; d in
         (match res with
          | ["ok"; itx; idump; chk] ->
            (* (K) the model of Open chose the same meta and the decoder reads the same content *)
            if int_of_string itx <> txid then report "MISMATCH" "what=chosen_meta" (Printf.sprintf "impl txid=%s model txid=%d" itx txid)
            else if idump <> dump && dump <> "undecodable" then report "MISMATCH" "what=content" (Printf.sprintf "impl=%s decoder=%s" idump dump);
            (* (S) the state presented is exactly the committed state of the surviving meta *)
            (match Hashtbl.find_opt vers (int_of_string itx) with
             | Some d -> if d <> idump then report "PROPFAIL" "rule=presents_committed_state" (Printf.sprintf "txid %s: presented %s, committed %s" itx idump d)
             | None ->
               (* a completely persisted would-be newer meta (same root as the newest commit) legitimately wins *)
               let maxv = Hashtbl.fold (fun k _ a -> max k a) vers 0 in
               (match !cur, Hashtbl.find_opt vers maxv with
                | "p" :: _, Some d when int_of_string itx = maxv + 1 ->
                  if d <> idump then report "PROPFAIL" "rule=presents_committed_state" (Printf.sprintf "would-be txid %s: presented %s, committed %s" itx idump d);
                  flag "inflight-meta-complete"
                | _ -> if !meta_only then report "PROPFAIL" "rule=presents_committed_state" (Printf.sprintf "txid %s was never committed" itx)));
            if chk <> "0" && !meta_only then report "PROPFAIL" "rule=check_clean" chk;
            (match !cur with ("b" | "p") :: _ -> flag "fallback-or-survive" | _ -> ())
          | ["ok"; itx; chk] -> ignore itx; ignore chk; report "MISMATCH" "what=shape" impl
          | _ -> report "PROPFAIL" "rule=survives_one_damaged_meta" (Printf.sprintf "impl=%s, model: open succeeds with txid %d" impl txid))
       | Layout.OpenErr e ->
         flag "rejected";
         (match res with
          | "err" :: cls :: _ -> if cls <> class_of e then report "MISMATCH" "what=error_class" (Printf.sprintf "impl=%s model=%s" cls (class_of e))
          | "ok" :: _ -> report "PROPFAIL" "rule=rejects_invalid" (Printf.sprintf "impl=%s but both metas are invalid / not a database" impl)
          | _ -> report "PROPFAIL" "rule=error_not_panic" impl)
       | Layout.OpenTooSmall ->
         flag "too-small";
         (match res with
          | "err" :: _ -> ()
          | "ok" :: _ -> report "PROPFAIL" "rule=rejects_too_small" impl
          | _ -> report "PROPFAIL" "rule=error_not_panic" impl))
    | "end" :: _ ->
      Printf.printf "CASE %s %s %s\n" !case_id (Digest.to_hex (Digest.string (Buffer.contents optext)))
        (if !flags = [] then "-" else String.concat "," (List.sort compare !flags))
    | _ -> ()
  done with End_of_file -> ());
  close_in ic;
  Printf.printf "SUMMARY cases=%d ops=%d mismatches=%d propfails=%d kinds=\n" !cases !ops !mism !pfail
