let () =
  match Array.to_list Sys.argv with
  | _ :: "c09" :: file :: _ -> C09.run file
  | _ :: ("node04" | "node12" as m) :: file :: _ -> Node_drv.run m file
  | _ :: ("tree04" | "tree07" | "ntree04" | "ntree07" | "ntree12" as m) :: file :: _ -> Tree_drv.run m file
  | _ :: ("c04" | "c07" | "c12" | "c08" | "c14" | "c20" as m) :: file :: _ -> C04.run m file
  | _ :: "c01" :: file :: _ -> C01.run file
  | _ :: "c05" :: file :: _ -> C05.run file
  | _ :: "c11" :: file :: _ -> C11.run file
  | _ :: "c15" :: file :: _ -> C15.run file
  | _ :: "c16" :: file :: _ -> C16.run file
  | _ :: "c19" :: file :: _ -> C19.run file
  | _ :: "c17" :: file :: _ -> C17.run file
  | _ :: "c03" :: file :: _ -> C03.run file
  | _ :: ("c06" | "c10" | "c13" | "c18" as m) :: file :: _ -> Pg.run m file
  | _ -> prerr_endline "usage: oracle <property> <trace>"; exit 2
