let () =
  match Array.to_list Sys.argv with
  | _ :: "c09" :: file :: _ -> C09.run file
  | _ -> prerr_endline "usage: oracle <property> <trace>"; exit 2
