"""Shared machinery of the ./check driver: builds, Coq obligations, evidence, verdicts."""
import glob, hashlib, json, os, re, shutil, subprocess, sys, time

ROOT = os.path.dirname(os.path.dirname(os.path.abspath(__file__)))
REPO = os.environ.get("VERIF_REPO", "/repo")
BUILD = os.path.join(ROOT, ".build")
COQ = os.path.join(ROOT, "coq")
SHM = "/dev/shm" if os.path.isdir("/dev/shm") else "/tmp"

ALLOWED_AXIOMS = {
    # axioms the standard library itself declares; named in the trusted base whenever one shows up
    "functional_extensionality_dep", "proof_irrelevance", "classic", "JMeq_eq", "Eqdep.Eq_rect_eq.eq_rect_eq",
    "FunctionalExtensionality.functional_extensionality_dep", "ProofIrrelevance.proof_irrelevance",
    "Classical_Prop.classic", "JMeq.JMeq_eq", "propositional_extensionality",
}
FORBIDDEN = re.compile(r"\b(Admitted|admit|Axiom|Axioms|Parameter|Parameters|Conjecture|Conjectures|Abort All)\b|Unset\s+Guard|bypass_check|type-in-type|impredicative-set|Admit Obligations|Unset\s+Universe\s+Checking|Unset\s+Positivity")


def sh(cmd, timeout=1200, cwd=None, env=None, check=False, quiet=True):
    e = dict(os.environ)
    e.update(go_env())
    if env:
        e.update(env)
    p = subprocess.run(cmd, shell=isinstance(cmd, str), cwd=cwd, env=e, stdout=subprocess.PIPE,
                       stderr=subprocess.STDOUT, timeout=timeout, text=True, errors="replace")
    if check and p.returncode != 0:
        raise RuntimeError("command failed (%d): %s\n%s" % (p.returncode, cmd, p.stdout[-4000:]))
    return p.returncode, p.stdout


_goenv = None


def go_env():
    """Offline Go: /repo's go.mod demands a toolchain newer than the system go; use the cached one directly."""
    global _goenv
    if _goenv is not None:
        return _goenv
    env = {"GOFLAGS": "-mod=mod", "GOPROXY": "off"}
    want = None
    try:
        for l in open(os.path.join(REPO, "go.mod")):
            m = re.match(r"toolchain\s+go(\S+)", l)
            if m:
                want = m.group(1)
    except OSError:
        pass
    cands = []
    if want:
        cands += glob.glob("/root/go/pkg/mod/golang.org/toolchain@v0.0.1-go%s.linux-amd64/bin" % want)
    cands += sorted(glob.glob("/root/go/pkg/mod/golang.org/toolchain@v0.0.1-go1.25*.linux-amd64/bin"))
    for c in cands:
        if os.path.exists(os.path.join(c, "go")):
            env["PATH"] = c + ":" + os.environ.get("PATH", "")
            env["GOTOOLCHAIN"] = "local"
            break
    env.pop("GOSUMDB", None)
    _goenv = env
    return env


def log(*a):
    print("[check]", *a, file=sys.stderr, flush=True)


# ---------------------------------------------------------------- builds

def coq_files():
    return sorted(glob.glob(os.path.join(COQ, "theories", "*.v")) + glob.glob(os.path.join(COQ, "Properties", "*.v"))
                  + [os.path.join(COQ, "Extract.v")])


def forbidden_scan():
    bad = []
    for f in coq_files() + glob.glob(os.path.join(COQ, "Tie", "*.v")):
        txt = open(f).read()
        txt = re.sub(r"\(\*.*?\*\)", "", txt, flags=re.S)   # comments may mention the words
        for m in FORBIDDEN.finditer(txt):
            bad.append("%s: %s" % (os.path.relpath(f, ROOT), m.group(0)))
    return bad


def coq_make(target=None, timeout=3600):
    """Full .vo build (never -vos). Returns (ok, output)."""
    if not os.path.exists(os.path.join(COQ, "Makefile")) or \
            os.path.getmtime(os.path.join(COQ, "Makefile")) < os.path.getmtime(os.path.join(COQ, "_CoqProject")):
        sh("coq_makefile -f _CoqProject -o Makefile", cwd=COQ, check=True)
    rc, out = sh("timeout %d make -j16 %s" % (timeout, target or ""), cwd=COQ, timeout=timeout + 30)
    return rc == 0, out


def property_obligations(pid):
    """Re-check Properties/<pid>.v now and parse its Print Assumptions output.
    Returns dict(theorems=[(name, closed|axioms list)], ok, output)."""
    src = os.path.join(COQ, "Properties", pid + ".v")
    if not os.path.exists(src):
        return {"ok": False, "theorems": [], "output": "missing " + src, "stated": 0}
    ok, out = coq_make("Properties/%s.vo" % pid)   # dependencies
    scratch = os.path.join(SHM, "verif.%d.%s" % (os.getpid(), pid))
    os.makedirs(scratch, exist_ok=True)
    try:
        rc, out2 = sh("timeout 900 coqc -Q theories Bbolt -Q Properties BboltProps -Q Tie BboltTie -o %s/%s.vo Properties/%s.v"
                      % (scratch, pid, pid), cwd=COQ, timeout=930)
    finally:
        shutil.rmtree(scratch, ignore_errors=True)
    txt = re.sub(r"\(\*.*?\*\)", "", open(src).read(), flags=re.S)
    stated = re.findall(r"^\s*(?:Theorem|Lemma|Corollary)\s+(\w+)", txt, flags=re.M)
    printed = re.findall(r"Print Assumptions\s+(\w+)", txt)
    res = []
    if rc == 0:
        # output blocks in order of the Print Assumptions commands
        blocks = re.split(r"(?m)^(?=Closed under the global context|Axioms:)", out2)
        blocks = [b for b in blocks if b.startswith("Closed under") or b.startswith("Axioms:")]
        for name, b in zip(printed, blocks):
            if b.startswith("Closed"):
                res.append((name, []))
            else:
                axs = re.findall(r"(?m)^(\S+)\s*:", b[len("Axioms:"):])
                res.append((name, axs))
    return {"ok": ok and rc == 0 and len(res) == len(printed) and set(stated) <= set(printed),
            "theorems": res, "stated": len(stated), "names": stated, "output": (out if not ok else "") + out2}


def build_harness():
    """go build -tags verif from /repo's CURRENT working tree (module replace => /repo)."""
    h = os.path.join(ROOT, "harness")
    # go.mod mirrors /repo's go/toolchain directives so the same toolchain is selected
    gover, tool = "1.25.0", None
    for l in open(os.path.join(REPO, "go.mod")):
        m = re.match(r"go\s+(\S+)", l)
        if m:
            gover = m.group(1)
        m = re.match(r"toolchain\s+(\S+)", l)
        if m:
            tool = m.group(1)
    mod = "module bbverif\n\ngo %s\n\n%srequire go.etcd.io/bbolt v0.0.0\n\nreplace go.etcd.io/bbolt => %s\n" % (
        gover, ("toolchain %s\n\n" % tool) if tool else "", REPO)
    with open(os.path.join(h, "go.mod"), "w") as f:
        f.write(mod)
    shutil.copy(os.path.join(REPO, "go.sum"), os.path.join(h, "go.sum"))
    os.makedirs(BUILD, exist_ok=True)
    rc, out = sh("go build -tags verif -o %s/bbverif ." % BUILD, cwd=h, timeout=900)
    if rc == 0:
        # the real command-line tool, from the same tree (C19 judges its exit status)
        rc, out2 = sh("go build -o %s/bbolt go.etcd.io/bbolt/cmd/bbolt" % BUILD, cwd=h, timeout=900)
        out += out2
    return rc == 0, out


def bbolt_exe():
    return os.path.join(BUILD, "bbolt")


def harness_race_exe():
    return os.path.join(BUILD, "bbverif_race")


def build_harness_race():
    """the same harness with the Go race detector compiled in (C03); go.mod is the one build_harness wrote"""
    rc, out = sh("go build -race -tags verif -o %s ." % harness_race_exe(), cwd=os.path.join(ROOT, "harness"), timeout=900)
    return rc == 0, out


def build_oracle(force=False):
    """Extraction (ExtrOcamlBasic only) + dune build of the oracle. Rebuilt when any model file is newer."""
    od = os.path.join(BUILD, "oracle")
    exe = os.path.join(od, "_build", "default", "main.exe")
    srcs = glob.glob(os.path.join(COQ, "theories", "*.v")) + [os.path.join(COQ, "Extract.v")] + \
        glob.glob(os.path.join(ROOT, "oracle", "*"))
    if not force and os.path.exists(exe) and all(os.path.getmtime(s) <= os.path.getmtime(exe) for s in srcs):
        return True, ""
    coq_make("-k")     # proofs may be broken; the model files Extract.v needs must still compile (checked by coqc below)
    os.makedirs(od, exist_ok=True)
    for f in glob.glob(os.path.join(od, "*.ml")) + glob.glob(os.path.join(od, "*.mli")):
        os.remove(f)
    rc, out = sh("timeout 600 coqc -Q %s/theories Bbolt %s/Extract.v" % (COQ, COQ), cwd=od, timeout=630)
    if rc != 0:
        return False, out
    for f in glob.glob(os.path.join(ROOT, "oracle", "*")):
        shutil.copy(f, od)
    rc, out2 = sh("timeout 600 dune build --profile release ./main.exe", cwd=od, timeout=630)
    return rc == 0, out + out2


def oracle_exe():
    return os.path.join(BUILD, "oracle", "_build", "default", "main.exe")


def harness_exe():
    return os.path.join(BUILD, "bbverif")


def consts_tie():
    """Regenerate Tie/GenConsts.v from the compiled Go and compile it: a changed layout constant fails here."""
    rc, out = sh([harness_exe(), "consts"], timeout=60)
    if rc != 0:
        return False, "bbverif consts failed: " + out
    path = os.path.join(COQ, "Tie", "GenConsts.v")
    os.makedirs(os.path.dirname(path), exist_ok=True)
    with open(path, "w") as f:
        f.write(out)
    scratch = os.path.join(SHM, "verif.tie.%d" % os.getpid())
    os.makedirs(scratch, exist_ok=True)
    try:
        rc, out2 = sh("timeout 300 coqc -Q theories Bbolt -Q Tie BboltTie -o %s/GenConsts.vo Tie/GenConsts.v" % scratch, cwd=COQ, timeout=330)
    finally:
        shutil.rmtree(scratch, ignore_errors=True)
    return rc == 0, out2


def extraction_directives():
    p = "/usr/lib/ocaml/coq/theories/extraction/ExtrOcamlBasic.v"
    try:
        return [l.strip() for l in open(p) if l.startswith("Extract")]
    except OSError:
        return []


# ---------------------------------------------------------------- known findings / verdict / evidence

def known_findings(pid):
    p = os.path.join(ROOT, "known_findings.json")
    if not os.path.exists(p):
        return []
    return [k for k in json.load(open(p)).get("findings", []) if pid in k.get("properties", [k.get("property")])]


def write_evidence(pid, tier, seed, wall, cov, violations, assumptions):
    os.makedirs(os.path.join(ROOT, "evidence"), exist_ok=True)
    ev = {"property_id": pid, "tier": tier, "seed": seed, "level": "proof", "coverage": cov,
          "assumptions": assumptions, "wall_s": round(wall, 2), "violations": violations}
    with open(os.path.join(ROOT, "evidence", pid + ".json"), "w") as f:
        json.dump(ev, f, indent=1)


def write_replay(pid, name, content):
    d = os.path.join(ROOT, "replays")
    os.makedirs(d, exist_ok=True)
    p = os.path.join(d, "%s-%s" % (pid, name))
    with open(p, "w") as f:
        f.write(content)
    return p
