"""Per-property correspondence plugins. Each returns a Result."""
import collections, glob, json, os, re, resource, shutil, subprocess, time
from concurrent.futures import ThreadPoolExecutor
import common as C


def _big_stack():
    # the extracted list functions (length, map, app) are not tail recursive: values of several hundred KB need a deep stack
    try:
        resource.setrlimit(resource.RLIMIT_STACK, (resource.RLIM_INFINITY, resource.RLIM_INFINITY))
    except (ValueError, OSError):
        pass


class Ctx:
    def __init__(self, pid, tier, seed, replay, t0, budget_s=None):
        self.pid, self.tier, self.seed, self.replay, self.t0, self.budget_s = pid, tier, seed, replay, t0, budget_s
        self.dir = os.path.join(C.SHM, "verif.%s.%d.%s" % (pid, os.getpid(), tier))

    def __enter__(self):
        shutil.rmtree(self.dir, ignore_errors=True)
        os.makedirs(self.dir)
        return self

    def __exit__(self, *a):
        shutil.rmtree(self.dir, ignore_errors=True)


class Result:
    def __init__(self):
        self.evaluations = 0
        self.cases = {}            # hash -> flags
        self.mismatches, self.propfails, self.samples = [], [], []
        self.validated = 0
        self.rule = ""
        self.distribution, self.events, self.extra = {}, {}, {}

    def distinct_nontrivial(self):
        return sum(1 for f in self.cases.values() if f and f != "-")

    def merge(self, o):
        self.evaluations += o.evaluations
        self.cases.update(o.cases)
        self.mismatches += o.mismatches
        self.propfails += o.propfails
        self.validated += o.validated
        for k, v in o.distribution.items():
            self.distribution[k] = self.distribution.get(k, 0) + v
        for k, v in o.events.items():
            self.events[k] = self.events.get(k, 0) + v


def match_known(pid, rec, known):
    """A failing case matches a known finding only through that finding's machine-checkable signature."""
    for k in known:
        sig = k.get("signature", {})
        fn = SIGNATURES.get(sig.get("kind"))
        if fn and fn(rec, sig):
            return k
    return None


SIGNATURES = {
    # the oracle evaluates the finding's predicate on the failing case and tags the line with sig=<name>
    "oracle_sig": lambda rec, sig: (" sig=%s " % sig["sig"]) in (rec.get("line", "") + " "),
}


def case_text(trace, case_id, upto_op=None):
    """op lines (and observations) of one case of a trace file, cut after op number upto_op."""
    out, on, n = [], False, 0
    with open(trace, errors="replace") as f:
        for l in f:
            if l.startswith("case "):
                on = l.split()[1] == str(case_id)
                if on:
                    out.append(l.rstrip("\n")[:2000])
                continue
            if on:
                if l.startswith("o "):
                    n += 1
                    if upto_op is not None and n > upto_op:
                        break
                out.append(l.rstrip("\n")[:2000])
                if l.startswith("end"):
                    break
    if out and not out[-1].startswith("end"):
        out.append("end")
    return "\n".join(out) + "\n"


def run_sharded(ctx, sub, shards, args_of, timeout, oracle_mode=None, more_modes=(), exe=None, env=None, post=None, tag=""):
    """Run harness subcommand `sub` in parallel shards -> trace files; then the oracle on each. Returns list of
    (trace path, oracle output)."""
    def one(i):
        trace = os.path.join(ctx.dir, "%s%s.%d.trace" % (sub, tag, i))
        sdir = os.path.join(ctx.dir, "d%s%d" % (tag, i))
        os.makedirs(sdir, exist_ok=True)
        cmd = [exe or C.harness_exe(), sub, "-out", trace, "-tier", ctx.tier] + [a.replace("{dir}", sdir) for a in args_of(i)]
        try:
            p = subprocess.run(cmd, stdout=subprocess.PIPE, stderr=subprocess.STDOUT, text=True, timeout=timeout, errors="replace",
                               env=(dict(os.environ, **{k: v.replace("{dir}", sdir) for k, v in env.items()}) if env else None))
            hout, hrc = p.stdout, p.returncode
        except subprocess.TimeoutExpired as e:
            hout, hrc = "harness timeout: " + str(e), 124
        if post:
            post(i, trace, sdir)
        try:
            q = subprocess.run([C.oracle_exe(), oracle_mode or sub, trace], stdout=subprocess.PIPE, stderr=subprocess.STDOUT, text=True, timeout=timeout, errors="replace", preexec_fn=_big_stack)
            oout, orc = q.stdout, q.returncode
        except subprocess.TimeoutExpired as e:
            oout, orc = "oracle timeout", 124
        outs = [(trace, hrc, hout, orc, oout)]
        for m in more_modes:       # further projections of the same trace
            try:
                q = subprocess.run([C.oracle_exe(), m, trace], stdout=subprocess.PIPE, stderr=subprocess.STDOUT, text=True, timeout=timeout, errors="replace", preexec_fn=_big_stack)
                outs.append((trace, 0, "", q.returncode, q.stdout))
            except subprocess.TimeoutExpired:
                outs.append((trace, 0, "", 124, "oracle timeout"))
        return outs
    with ThreadPoolExecutor(max_workers=min(16, shards)) as ex:
        res = []
        for outs in ex.map(one, range(shards)):
            res.extend(outs)
        return res


def rejudge(mode, path):
    """--replay for checks whose cases are schedules of the Go runtime: the replay file holds the case's observations; the oracle judges them again"""
    q = subprocess.run([C.oracle_exe(), mode, path], stdout=subprocess.PIPE, stderr=subprocess.STDOUT, text=True, timeout=600, errors="replace", preexec_fn=_big_stack)
    return [(path, 0, "", q.returncode, q.stdout)]


def absorb(res, pid, trace, hrc, hout, orc, oout, max_detail=5):
    """Parse oracle output lines (CASE / MISMATCH / PROPFAIL / SUMMARY) into the Result."""
    if hrc != 0:
        res.mismatches.append({"line": "harness exited %d: %s" % (hrc, hout[-800:])})
    if orc != 0:
        res.mismatches.append({"line": "oracle exited %d: %s" % (orc, oout[-800:])})
    seen_case_mis = set()
    for l in oout.splitlines():
        if l.startswith("CASE "):
            _, cid, h, flags = l.split(None, 3)
            if h not in res.cases:
                for e in flags.split(","):
                    if e and e != "-":
                        res.events[e] = res.events.get(e, 0) + 1
            res.cases[h] = flags
            if len(res.samples) < 3 and flags != "-":
                res.samples.append(case_text(trace, cid)[:1500])
        elif l.startswith("MISMATCH ") or l.startswith("PROPFAIL "):
            m = re.search(r"case=(\S+) op=(\d+)", l)
            rec = {"line": l}
            if m:
                key = (l.split()[0], m.group(1))
                if key in seen_case_mis:
                    continue
                seen_case_mis.add(key)
                if len(res.mismatches) + len(res.propfails) < 40:
                    rec["replay_text"] = "# " + l[:3000] + "\n" + case_text(trace, m.group(1), int(m.group(2)) if pid != "C05" else None)[:200000]
            (res.mismatches if l.startswith("MISMATCH") else res.propfails).append(rec)
        elif l.startswith("SUMMARY "):
            kv = dict(x.split("=", 1) for x in l.split()[1:] if "=" in x)
            res.evaluations += int(kv.get("ops", kv.get("cases", 0)))
            res.validated += int(kv.get("cases", 0))
            for part in kv.get("kinds", "").split(","):
                if ":" in part:
                    k, v = part.rsplit(":", 1)
                    res.distribution[k] = res.distribution.get(k, 0) + int(v)
            if "panics_agreed" in kv:
                res.events["panics_agreed"] = res.events.get("panics_agreed", 0) + int(kv["panics_agreed"])


def c09(ctx):
    """C09 allocator: model Freelist.v vs internal/freelist through VerifNewFreelist (both backends).
    Assumes: hashmap Allocate's span choice is an input of the model (Go map order); reader list is an input."""
    res = Result()
    res.rule = ("exhaustive op sequences of depth d over a small universe after 2 prefixes + model-guided random sequences "
                "(20-120 ops, universes of 10/38/298 pages) + serialisation boundaries 65533..65537 ids; a case is distinct by the "
                "MD5 of its backend+op list and non-trivial if it hit at least one of: successful allocation, failed allocation, "
                "free, release that moved pages, release held back by a reader, rollback that undid frees, serialisation, reload, agreed panic")
    with ctx:
        if ctx.replay:
            runs = run_sharded(ctx, "c09", 1, lambda i: ["-replay", ctx.replay], 600)
        elif ctx.tier == "quick":
            runs = run_sharded(ctx, "c09", 8, lambda i: ["-seed", str(ctx.seed * 1000 + i), "-n", "1500", "-depth", "2" if i == 0 else "0",
                                                         "-serial=%s" % ("true" if i == 1 else "false")], 600)
        else:
            runs = run_sharded(ctx, "c09", 16, lambda i: ["-seed", str(ctx.seed * 1000 + i), "-n", "12000", "-depth", "3" if i == 0 else "0",
                                                          "-serial=%s" % ("true" if i == 1 else "false")], 3000)
        for r in runs:
            absorb(res, "C09", *r)
    return res



def _hist(ctx, mode, img, rule, n_quick, n_thorough, as_propfail=False, extra_args=()):
    res = Result()
    res.rule = rule
    with ctx:
        if ctx.replay:
            runs = run_sharded(ctx, "c04", 1, lambda i: ["-replay", ctx.replay, "-img", img, "-dir", "{dir}"], 900, oracle_mode=mode)
        else:
            shards = 8 if ctx.tier == "quick" else 16
            n = n_quick if ctx.tier == "quick" else n_thorough
            if ctx.budget_s:          # widened search after a broken proof/correspondence: time-boxed
                n = n_quick * 6
            tmo = 900 if ctx.tier == "quick" else (ctx.budget_s or 3000)
            runs = run_sharded(ctx, "c04", shards, lambda i: ["-seed", str(ctx.seed * 1000 + i), "-n", str(n // shards), "-img", img,
                                                             "-dir", "{dir}"] + list(extra_args) + (["-bigfree"] if (i == shards - 1 and mode in ("c07", "c12")) else [])
                               + (["-txs", "40", "-ops", "40"] if ctx.tier == "thorough" and i % 4 == 0 else []),
                               tmo, oracle_mode=mode)
        for r in runs:
            absorb(res, ctx.pid, *r)
    if as_propfail:   # the model IS the property's reference: a disagreement is a concrete failing input
        res.propfails += res.mismatches
        res.mismatches = []
    return res


HIST_RULE = ("model-guided random API histories (2-14 transactions of up to 12 calls, bursts of 48; puts/deletes/gets over re-used keys, "
             "bucket create/delete/move at depth <= 4, sequences, values from 0 bytes to several pages, readers held open, rollbacks, reopenings, "
             "a malformed stream) over page sizes 1024-16384, both freelist backends, freelist-sync and grow-sync on/off; distinct by MD5 of the op list; "
             "non-trivial if the case hit at least one structural event or error branch (flags listed under events)")


NODE_RULE = ("; plus the materialised node driven directly (verif accessors): random put/del/size/sizeLessThan/splitIndex/split/write/read scripts over leaf and branch nodes, "
             "3 page sizes, 11 fill percentages, panicking arguments included, compared call by call with the line-for-line model Node.v")


def _is_node_replay(path):
    try:
        return bool(re.search(r"(?m)^case \S+ leaf=", open(path, errors="replace").read(20000)))
    except OSError:
        return False


def _is_tree_replay(path):
    try:
        return bool(re.search(r"(?m)^pre N ", open(path, errors="replace").read(20000)))
    except OSError:
        return False


def _tree_replay(ctx, pid, mode):
    """the replay file of a tree case holds the observations (tree before, visit order, freelist events, tree after): they are judged again"""
    res = Result()
    res.rule = "the recorded observations of one commit, judged again by the extracted Tree.v"
    try:
        nested = bool(re.search(r"(?m)^(child|corder|cpost) ", open(ctx.replay, errors="replace").read(2000000)))
    except OSError:
        nested = False
    if nested and not mode.startswith("n"):
        mode = "n" + mode
    for r in rejudge(mode, ctx.replay):
        absorb(res, pid, *r)
    return res


def _node_replay(ctx, pid, mode):
    res = Result()
    res.rule = "replay of one node script"
    with ctx:
        for r in run_sharded(ctx, "node", 1, lambda i: ["-replay", ctx.replay], 600, oracle_mode=mode):
            absorb(res, pid, *r)
    return res


def _node_extra(ctx, res, pid, mode):
    """node.go / inode.go against Node.v (put, del, split: C04; write, read: C12)"""
    if ctx.replay:
        return
    ctx2 = Ctx(pid=pid, tier=ctx.tier, seed=ctx.seed, replay=None, t0=ctx.t0, budget_s=ctx.budget_s)
    ctx2.dir = ctx.dir + ".n"
    with ctx2:
        quick = ctx.tier == "quick" or ctx.budget_s
        runs = run_sharded(ctx2, "node", 6 if quick else 16, lambda i: ["-seed", str(ctx.seed * 1000 + 700 + i), "-n", "120" if quick else "1200"],
                           ctx.budget_s or (600 if quick else 3000), oracle_mode=mode)
        for r in runs:
            absorb(res, pid, *r)


TREE_RULE = ("; plus the commit-time restructuring of one bucket's node tree: the tree right before Commit (pages and materialised nodes), the order of Bucket.rebalance's visits and "
             "every freelist Free/Allocate of the commit are recorded, and Tree.commit_tree (node.rebalance + node.spill as a function) must predict the tree of pages the commit leaves and "
             "the event sequence exactly; delete runs that empty leaves, emptied buckets, thinning, growth; 2 page sizes, fill 5-150%; and the same for a bucket with 2-15 child buckets "
             "(inline and paged, inline<->paged transitions, children created in the transaction): Tree.commit_bucket per child, Tree.commit_parent for the write-back and the parent's spill")


def _tree_extra(ctx, res, pid, mode):
    """node.rebalance / node.spill against Tree.v (tree after commit: C04; freelist events and page accounting: C07)"""
    if ctx.replay:
        return
    ctx2 = Ctx(pid=pid, tier=ctx.tier, seed=ctx.seed, replay=None, t0=ctx.t0, budget_s=ctx.budget_s)
    ctx2.dir = ctx.dir + ".t"
    with ctx2:
        quick = ctx.tier == "quick" or ctx.budget_s
        runs = run_sharded(ctx2, "tree", 6 if quick else 16, lambda i: ["-seed", str(ctx.seed * 1000 + 800 + i), "-n", "150" if quick else "2500", "-dir", "{dir}"],
                           ctx.budget_s or (600 if quick else 3000), oracle_mode=mode)
        for r in runs:
            absorb(res, pid, *r)
        # the same for a bucket WITH child buckets (Bucket.spill: inline / paged children written back through Cursor.seek + node.put)
        runs = run_sharded(ctx2, "ntree", 4 if quick else 16, lambda i: ["-seed", str(ctx.seed * 1000 + 900 + i), "-n", "100" if quick else "1500", "-dir", "{dir}"],
                           ctx.budget_s or (600 if quick else 3000), oracle_mode="n" + mode)
        for r in runs:
            absorb(res, pid, *r)


def c04(ctx):
    """C04 nested ordered map: every API result and every dump of the implementation vs Spec.v; node.go's put/del/split vs Node.v.
    Assumes: root bucket reached only through Tx methods; bucket names <= 32768 bytes. About one history in 24 ends by moving a bucket into its own subtree (known finding D4:
    the reference refuses, the code returns nil and drops the subtree); every other disagreement is a violation."""
    if ctx.replay and _is_node_replay(ctx.replay):
        return _node_replay(ctx, "C04", "node04")
    if ctx.replay and _is_tree_replay(ctx.replay):
        return _tree_replay(ctx, "C04", "tree04")
    res = _hist(ctx, "c04", "none", HIST_RULE + NODE_RULE + TREE_RULE, 400, 8000, as_propfail=True, extra_args=("-selfmoves",))
    _node_extra(ctx, res, "C04", "node04")
    _tree_extra(ctx, res, "C04", "tree04")
    return res


def c07(ctx):
    """C07 page accounting (tree replays: see _tree_replay): after every commit the file bytes are decoded by the extracted Coq reader (Layout.v) and
    Layout.accounted / key order / element bounds / file length are evaluated; Tx.Check must be clean at the end of every history."""
    if ctx.replay and _is_tree_replay(ctx.replay):
        return _tree_replay(ctx, "C07", "tree07")
    res = _hist(ctx, "c07", "commit", HIST_RULE + "; one file image per commit; plus failed-commit histories (every I/O call index of a commit failed once, see C08) checked for the same accounting", 240, 4000)
    # failed transactions are part of C07's quantifier: the C08 fault histories, judged by the accounting rules only
    if not ctx.replay:
        ctx2 = Ctx(pid="C07", tier=ctx.tier, seed=ctx.seed, replay=None, t0=ctx.t0, budget_s=ctx.budget_s)
        ctx2.dir = ctx.dir + ".f"
        with ctx2:
            runs = run_sharded(ctx2, "c08", 8, lambda i: ["-seed", str(ctx.seed * 1000 + 500 + i), "-n", "2" if (ctx.tier == "quick" or ctx.budget_s) else "8", "-dir", "{dir}"],
                               ctx.budget_s or (900 if ctx.tier == "quick" else 3000), oracle_mode="c07")
            for r in runs:
                absorb(res, "C07", *r)
    _tree_extra(ctx, res, "C07", "tree07")
    return res


def c12(ctx):
    """C12 format: every file image is decoded by the extracted independent reader and compared with the API dump taken just before the commit."""
    if ctx.replay and _is_node_replay(ctx.replay):
        return _node_replay(ctx, "C12", "node12")
    if ctx.replay and _is_tree_replay(ctx.replay):
        return _tree_replay(ctx, "C12", "ntree12")
    res = _hist(ctx, "c12", "commit", HIST_RULE + "; one file image per commit" + NODE_RULE, 240, 4000)
    _node_extra(ctx, res, "C12", "node12")
    # the published convention that an inline bucket holds plain key/value pairs only (no nested bucket), judged on nested commits
    if not ctx.replay:
        ctx3 = Ctx(pid="C12", tier=ctx.tier, seed=ctx.seed, replay=None, t0=ctx.t0, budget_s=ctx.budget_s)
        ctx3.dir = ctx.dir + ".nt"
        with ctx3:
            quick = ctx.tier == "quick" or ctx.budget_s
            for r in run_sharded(ctx3, "ntree", 4 if quick else 16, lambda i: ["-seed", str(ctx.seed * 1000 + 900 + i), "-n", "100" if quick else "1500", "-dir", "{dir}"],
                                 ctx.budget_s or (600 if quick else 3000), oracle_mode="ntree12"):
                absorb(res, "C12", *r)
    return res


def c05(ctx):
    """C05 cursors: Cursor.v (line-for-line model, repaired prev/Last) vs the real cursor on the tree dumped by VerifDumpTree (K);
    the sorted-list specification on the flattened tree (S). Trees: 0-900 keys, page sizes 1024/4096, nested-bucket entries, read
    transactions and write transactions with delete runs that empty whole leaves; sequences: all of length `exh` over First/Last/Next/Prev/Seek(9 candidate keys),
    full forward and backward scans, random walks."""
    res = Result()
    res.rule = ("one case = one tree + all its call sequences; distinct by MD5 of the dumped tree; non-trivial if the tree has depth >= 2, an emptied leaf, "
                "nested-bucket entries, is empty, or comes from a write transaction")
    with ctx:
        if ctx.tier == "quick":
            runs = run_sharded(ctx, "c05", 8, lambda i: ["-seed", str(ctx.seed * 1000 + i), "-n", "40", "-exh", "2", "-rand", "30", "-dir", "{dir}"], 600)
        else:
            runs = run_sharded(ctx, "c05", 16, lambda i: ["-seed", str(ctx.seed * 1000 + i), "-n", "160", "-exh", "2", "-rand", "60", "-dir", "{dir}"], ctx.budget_s or 3000)
        for r in runs:
            absorb(res, "C05", *r)
    return res


PG_RULE = HIST_RULE + ("; recorded with every WriteAt/fdatasync/truncate/mmap call and every freelist operation of the DB (verif hooks) and one file image per commit; "
                       "the extracted Pager.pstep is fed the real freelist events as labels (its guards = tree_ok and release safety), its free/pending sets are compared with "
                       "the real freelist after every writer begin/commit/rollback, its version page set with the independent decoder's, its allocated set with the pages actually written")


def _fault_extra(ctx, res, pid, mode, as_propfail=False, n_quick="2", n_thorough="8"):
    """failed commits are part of this property's quantifier too: the C08 fault histories (every I/O call index of a commit failed once, with and without a reader
    held across the failure, followed by page-recycling writers), judged by this property's rules only"""
    if ctx.replay:
        return
    ctx2 = Ctx(pid=pid, tier=ctx.tier, seed=ctx.seed, replay=None, t0=ctx.t0, budget_s=ctx.budget_s)
    ctx2.dir = ctx.dir + ".f"
    with ctx2:
        runs = run_sharded(ctx2, "c08", 8, lambda i: ["-seed", str(ctx.seed * 1000 + 500 + i), "-n", n_quick if (ctx.tier == "quick" or ctx.budget_s) else n_thorough, "-dir", "{dir}"],
                           ctx.budget_s or (900 if ctx.tier == "quick" else 3000), oracle_mode=mode)
        for r in runs:
            sub = Result()
            absorb(sub, pid, *r)
            if as_propfail:
                sub.propfails += sub.mismatches
                sub.mismatches = []
            res.merge(sub)


def c06(ctx):
    """C06 no overwrite of visible pages: (S) every real WriteAt is intersected with the decoder-computed page sets of the newest committed state and of every
    open reader's state, meta writes must hit the other slot; (K) Pager.v replayed on the real freelist events. Domain: files made by Open + histories."""
    res = _hist(ctx, "c06", "commit+io", PG_RULE + "; plus failed-commit histories (see C08)", 240, 4000)
    _fault_extra(ctx, res, "C06", "c06")
    return res


def c10(ctx):
    """C10 reclamation: (S) after every writer begin with no reader open nothing is pending; no page of an open reader's version is ever in the free list; published
    FreePageN/PendingPageN equal the live freelist; (K) Pager.v replayed on the real freelist events (free and pending sets compared after every step)."""
    res = _hist(ctx, "c10", "commit+io", PG_RULE + "; plus failed-commit histories (see C08)", 240, 4000)
    _fault_extra(ctx, res, "C10", "c10")
    return res


def c02(ctx):
    """C02 snapshot isolation: every open read transaction is fully re-dumped (recursive buckets, values, sequences, cursor order) after every writer event and compared
    with the Spec.v state of its begin; histories always hold readers of different ages across commits, rollbacks, page reuse, grow and remap (blocked commits are
    observed, the readers the harness then closes are inputs)."""
    res = _hist(ctx, "c04", "none", HIST_RULE + "; every history holds up to 3 readers open and re-dumps each after every writer event; plus failed-commit histories with a reader held across the failure", 400, 8000,
                as_propfail=True, extra_args=("-readers",))
    _fault_extra(ctx, res, "C02", "c08", as_propfail=True)
    return res


def c11(ctx):
    """C11 meta damage: base files from random histories (5 page sizes, both backends, freelist-sync on/off) whose last write activity is a successful commit; on copies:
    single-byte damage at every position of both meta structures (quick: 4 replacement values per position, thorough: all 255), every prefix/suffix/field-wise partial overwrite of the
    older slot by a would-be newer meta, both damaged, truncations, random non-databases; the real Open (deadline, panic recovery, child process for files with missing data pages)
    vs Layout.open_model + the decoder's content of the surviving meta vs the API dump recorded when that version was committed."""
    res = Result()
    res.rule = ("one case = one base file and all its damaged copies; distinct by MD5 of the base file; non-trivial if at least one damaged copy exercised fallback, rejection, truncation or a completely "
                "persisted in-flight meta; evaluations = number of Open calls compared")
    with ctx:
        if ctx.tier == "quick" or ctx.budget_s:
            runs = run_sharded(ctx, "c11", 8, lambda i: ["-seed", str(ctx.seed * 100 + i), "-dir", "{dir}"] + (["-n", "1", "-full"] if i == 0 else (["-n", "5", "-huge"] if i == 1 else ["-n", "6"])), 900)
        else:
            runs = run_sharded(ctx, "c11", 16, lambda i: ["-seed", str(ctx.seed * 100 + i), "-dir", "{dir}"] + (["-n", "3", "-huge"] if i == 1 else ["-n", "2", "-full"]), ctx.budget_s or 3000)
        for r in runs:
            absorb(res, "C11", *r)
    return res


def c08(ctx):
    """C08 failed commit: for each workload the I/O calls of its last commit are counted, then the history is re-run once per call index k (every WriteAt, fdatasync, Truncate, file Sync
    and mmap of that commit) with the hook returning an error INSTEAD of performing the call, with and without a read transaction held across the failure; afterwards: dump through a new
    reader and the held reader, Tx.Check, decoder accounting of the file image, a further write transaction, reopen, dump, Tx.Check. Compared with Spec.v (old state; new state iff the failed call is the
    sync after the meta write). After a failed mmap, Begin returning ErrInvalidMapping counts as 'not blocking'."""
    res = Result()
    res.rule = ("one case = (workload, failing call index k, reader held or not); distinct by MD5 of the op list; non-trivial if the fault hit (flag fault-<kind>); "
                "workloads: 1-4 committed transactions then a burst of 3-43 puts (values up to 3 pages), page sizes 1024-16384, both backends, freelist-sync on/off, small initial map (remap in the failing commit)")
    with ctx:
        n = "3" if (ctx.tier == "quick" or ctx.budget_s) else "16"
        shards = 8 if ctx.tier == "quick" else 16
        if ctx.replay:
            runs = run_sharded(ctx, "c08", 1, lambda i: ["-replay", ctx.replay, "-dir", "{dir}"], 900)
        else:
            runs = run_sharded(ctx, "c08", shards, lambda i: ["-seed", str(ctx.seed * 1000 + i), "-n", n, "-dir", "{dir}"], ctx.budget_s or (900 if ctx.tier == "quick" else 3000))
        for r in runs:
            absorb(res, "C08", *r)
    res.propfails += res.mismatches      # Spec is the reference: a deviation is a concrete failing fault sequence
    res.mismatches = []
    return res


def c13(ctx):
    """C13 options: every history is run under K option schedules (quick K=5, thorough K=12) that re-draw, at EVERY open, the freelist backend, freelist-sync, grow-sync, initial map size,
    StrictMode, the page size (first open only) and slip in read-only opens with/without PreLoadFreelist; all API results and dumps of every schedule are compared with the single Spec.v run
    (so they are equal to each other); every file image must satisfy the accounting predicate; after every open the code's free list must equal the decoder's scan (Pager.scan_free)."""
    res = Result()
    res.rule = HIST_RULE + "; each history under K option schedules; distinct by MD5 of the op list including the options of every open"
    with ctx:
        k = "5" if (ctx.tier == "quick" or ctx.budget_s) else "12"
        n = 10 if (ctx.tier == "quick" or ctx.budget_s) else 50
        shards = 8 if ctx.tier == "quick" else 16
        if ctx.replay:
            runs = run_sharded(ctx, "c04", 1, lambda i: ["-replay", ctx.replay, "-img", "commit+io", "-dir", "{dir}"], 900, oracle_mode="c04", more_modes=("c07", "c13"))
        else:
            runs = run_sharded(ctx, "c04", shards, lambda i: ["-seed", str(ctx.seed * 1000 + i), "-n", str(n), "-sched", k, "-img", "commit+io", "-dir", "{dir}"],
                               ctx.budget_s or (900 if ctx.tier == "quick" else 3000), oracle_mode="c04", more_modes=("c07", "c13"))
        first = True
        for j, r in enumerate(runs):
            sub = Result()
            absorb(sub, "C13", *r)
            if j % 3 == 0:         # the Spec projection: a deviation under some option schedule is a concrete failing configuration
                sub.propfails += sub.mismatches
                sub.mismatches = []
            else:                  # projections of the same cases: do not count them twice
                sub.evaluations = 0
                sub.validated = 0
            res.merge(sub)
    return res


def c15(ctx):
    """C15 compaction: sources from generated histories (deep nesting, inline and paged buckets, empty buckets, empty and multi-page values, sequences, 5 page sizes); library Compact and the
    command-line tool (run in process through the command package) for limits 0,1,2,7,100,4096,65536,2^40; destination dump vs source dump vs the extracted Compact.v run on the DECODED
    source image; Tx.Check of the destination; SHA-256 of the source before and after every run."""
    res = Result()
    res.rule = "one case = one source database and 12 compactions of it; distinct by SHA-256 of the source; non-trivial if the source has nesting depth >= 3, an empty bucket, an empty value, a multi-page value or a non-zero sequence"
    with ctx:
        n = "12" if (ctx.tier == "quick" or ctx.budget_s) else "120"
        shards = 8 if ctx.tier == "quick" else 16
        runs = run_sharded(ctx, "c15", shards, lambda i: ["-seed", str(ctx.seed * 1000 + i), "-n", n, "-dir", "{dir}"], ctx.budget_s or (900 if ctx.tier == "quick" else 3000))
        for r in runs:
            absorb(res, "C15", *r)
    return res


def c18(ctx):
    """C18 MaxSize: histories that keep growing the data (values up to 34 pages) under random limits (0 = none, 70 KB .. 6 MiB, aligned to nothing), initial map sizes 0/64 KiB/2 MiB/8 MiB,
    allocation chunks 64 KiB/1 MiB/16 MiB, page sizes 1024/4096/16384, grow-sync and freelist-sync on/off, with deletes, reopenings and writes after a refusal.
    (K) Grow.alloc_refused predicts every ErrMaxSizeReached from the real allocation events, Grow.grow / grow_nosync predict the file length after every commit; Spec.v: a refused transaction changes nothing;
    (S) file length <= max(MaxSize, length at open) after every commit; accounting of every image."""
    res = Result()
    res.rule = "distinct by MD5 of the op list (options included); non-trivial if the file grew, a transaction was refused, or the limit was exceeded"
    with ctx:
        n = "12" if (ctx.tier == "quick" or ctx.budget_s) else "120"
        shards = 8 if ctx.tier == "quick" else 16
        if ctx.replay:
            runs = run_sharded(ctx, "c18", 1, lambda i: ["-replay", ctx.replay, "-dir", "{dir}"], 900, oracle_mode="c04", more_modes=("c18", "c07"))
        else:
            runs = run_sharded(ctx, "c18", shards, lambda i: ["-seed", str(ctx.seed * 1000 + i), "-n", n, "-dir", "{dir}"], ctx.budget_s or (900 if ctx.tier == "quick" else 3000),
                               oracle_mode="c04", more_modes=("c18", "c07"))
        for j, r in enumerate(runs):
            sub = Result()
            absorb(sub, "C18", *r)
            if j % 3 == 0:
                sub.propfails += sub.mismatches
                sub.mismatches = []
            else:
                sub.evaluations = 0
                sub.validated = 0
            res.merge(sub)
    return res


def c14(ctx):
    """C14 hot backup: histories with readers of every age; Tx.WriteTo into a writer that commits further write transactions on the same DB between the chunks of the copy
    (0, 1, 2 or 5 of them), and Tx.CopyFile; checked: bytes written = Tx.Size() = mark * pageSize, both metas valid with txids T and T-1, the copy opens, its dump = the Spec.v snapshot of the
    reader, decoder content/order/bounds/accounting, Tx.Check of the copy."""
    return _hist(ctx, "c14", "none+io", HIST_RULE + "; plus hot backups through open readers with interleaved commits and failing commits (first or second write fails: physical rollback) between a reader's begin and its copy; non-trivial needs at least one backup", 240, 4000,
                 as_propfail=True, extra_args=("-backups",))


def c20(ctx):
    """C20 repair commands: directly after commits of generated histories the command-line tool's `surgery freelist abandon`, `surgery freelist rebuild` (on files without a persisted freelist),
    abandon followed by rebuild, and `surgery revert-meta-page` are run in process on the data file; the output is decoded BEFORE any Open touches it (metas valid, freelist cleared / persisted,
    accounting, content) and then opened (dump = Spec.v state: current, or the previous commit for revert; Tx.Check); SHA-256 of the source before/after."""
    return _hist(ctx, "c20", "none", HIST_RULE + "; plus repair commands after commits; non-trivial needs at least one", 240, 8000,
                 as_propfail=True, extra_args=("-surgery",))


def c01(ctx):
    """C01 crash: generated histories (puts, deletes, bucket create/delete/move, multi-page values, open readers; page sizes 1024-16384, both backends, freelist-sync and grow-sync on/off) are run with
    every WriteAt/Truncate/fdatasync/fsync recorded WITH its data; for every I/O event of every commit the post-crash file is rebuilt from the last durable image plus a subset of the 512-byte sectors
    written since the last completed sync (none, all, each of the first 6 sectors alone / missing, the meta sector alone / missing, random subsets) and opened with the real Open in a child process:
    content must be the acknowledged state, or the in-flight state iff its meta sector was persisted; Tx.Check clean; a follow-up write transaction and a reopen must work. A sample of the images is also
    opened and decoded by the extracted Layout.open_model (K). NoSync mode and the initialisation of a brand-new file are excluded (documented caveats)."""
    res = Result()
    res.rule = ("one case = one history with all its crash images; evaluations = crash images opened; distinct by MD5 of options + in-flight dumps; non-trivial if some image had the in-flight meta sector persisted "
                "and some did not")
    with ctx:
        quick = ctx.tier == "quick" or ctx.budget_s
        runs = run_sharded(ctx, "c01", 8 if ctx.tier == "quick" else 16,
                           lambda i: ["-seed", str(ctx.seed * 1000 + i), "-n", "5" if quick else "18", "-subsets", "6" if quick else "10", "-dir", "{dir}"],
                           ctx.budget_s or (900 if ctx.tier == "quick" else 3300))
        for r in runs:
            absorb(res, "C01", *r)
    return res


def c19(ctx):
    """C19 integrity check: consistent databases from generated histories, then a sweep of single structural corruptions of each (drop / duplicate a freelist id, list a reachable page or an overflow page of a reachable
    run as free - replacing an id and appended -, point two branch elements at one child, overwrite a page's flags with five values, swap / duplicate adjacent keys, lower a leaf's first key, raise its last key);
    every file is checked by Tx.Check and by `bbolt check` in a CHILD process (a fault after the first report counts as reported); whether a mutation corrupted anything is decided by the extracted decoder
    (decodable, key order, Layout.accounted), never by construction; all three verdicts must agree, in both directions."""
    res = Result()
    res.rule = "one case = one database and up to 150 (quick) / 400 (thorough) mutated copies; evaluations = files checked; distinct by MD5 of the base file; non-trivial if at least one mutation was judged corrupt and one harmless"
    with ctx:
        quick = ctx.tier == "quick" or ctx.budget_s
        runs = run_sharded(ctx, "c19", 8 if ctx.tier == "quick" else 16,
                           lambda i: ["-seed", str(ctx.seed * 1000 + i), "-n", "2" if quick else "6", "-maxmut", "150" if quick else "400", "-dir", "{dir}"],
                           ctx.budget_s or (900 if ctx.tier == "quick" else 3300), env={"BBOLT_EXE": C.bbolt_exe()})
        for r in runs:
            absorb(res, "C19", *r)
    return res


def c16(ctx):
    """C16 Batch: callers run non-idempotent functions (each invocation bumps the caller's counter and records itself in the database); scripts make invocations return an error or panic on the
    first, a later or every invocation. Half of the cases are deterministic batches (arrival order fixed through the verif accessor VerifBatchLen, batch runs when full): Batch.run_batch predicts
    every caller's result, the committed invocation number and the number of invocations exactly (K). The other half are free-running callers (2-32) with MaxBatchSize in {0,1,2,n,1000} and
    MaxBatchDelay in {0,1ms,10ms}. (S) on all: nil <=> exactly one committed invocation and counter 1; error or panic <=> none."""
    res = Result()
    res.rule = "one case = one batch scenario (callers, scripts, batch size, delay); distinct by MD5 of these; non-trivial if some call failed or panicked; evaluations = callers judged"
    with ctx:
        quick = ctx.tier == "quick" or ctx.budget_s
        runs = rejudge("c16", ctx.replay) if ctx.replay else run_sharded(ctx, "c16", 8 if ctx.tier == "quick" else 16, lambda i: ["-seed", str(ctx.seed * 1000 + i), "-n", "300" if quick else "3000", "-dir", "{dir}"], ctx.budget_s or (900 if ctx.tier == "quick" else 3000))
        for r in runs:
            absorb(res, "C16", *r)
    return res


def c17(ctx):
    """C17 locks and read-only mode: (a) sequences of 3-6 open/close attempts by three actors, each open read-write or read-only, issued from this process or from a child process, 150 ms
    timeout: Lock.lstep predicts every result (K) and the grants are judged against the implementation's own earlier grants (S: a read-write open is alone, read-only opens exclude it, a timeout
    only with a live conflicting open). (b) read-only session on the closed file: Begin(true)/Update/Batch, every mutating call of Tx/Bucket in a View, Commit; write/truncate/sync calls counted
    through the I/O hooks; SHA-256 of the file before/after; (c) every key/value slice handed out (mapped and inline) written to with faults as panics, the file hashed before the byte is put back;
    (d) the CLI's ten inspection commands, SHA-256 after each."""
    res = Result()
    res.rule = "one case = one open/close sequence + one read-only session + CLI commands on a fresh database; distinct by MD5 of the operation list; non-trivial if it holds a lock grant, a refusal or a memory probe (every generated case does; refusals are counted in the distribution); evaluations = results judged"
    with ctx:
        quick = ctx.tier == "quick" or ctx.budget_s
        runs = rejudge("c17", ctx.replay) if ctx.replay else run_sharded(ctx, "c17", 8 if ctx.tier == "quick" else 16, lambda i: ["-seed", str(ctx.seed * 1000 + i), "-n", "40" if quick else "300", "-dir", "{dir}"], ctx.budget_s or (900 if ctx.tier == "quick" else 3000))
        for r in runs:
            absorb(res, "C17", *r)
    return res


def c03(ctx):
    """C03 serial write transactions: (det) 2-5 threads with programs of read-modify-write transactions ending in commit / error / panic / rollback (Update and manual Begin) and read transactions
    are driven step by step along a generated schedule at the granularity of Conc.v (lock, read meta, body, finish, unlock / snapshot, observe); Conc.crun predicts the log (thread, id, kind, state
    read, state written) and the final meta exactly (K). (free) 2-12 goroutines run 4-19 such calls each (Update commit/error/panic, manual Begin/Commit/Rollback, View, manual read, Batch with
    retries, Stats, one goroutine may Close under load), with yields injected at bbolt's I/O points; the merged log is judged by the extracted Conc.serial_ok (S), plus all-or-nothing and durability
    against the final reopened state, per-goroutine real-time visibility, overlapping bodies (single writer) and a 30 s progress watchdog. (race) the free cases again in a harness built with
    -race: any report of the Go race detector is a failure (rule=race_free)."""
    res = Result()
    res.rule = ("one case = one schedule (det) or one set of goroutine programs (free); distinct by MD5 of programs+schedule (det) or of the per-goroutine call lists (free); non-trivial if it has a "
                "failing/panicking/rolled-back transaction, a reader, a batch or a close under load; evaluations = transaction records judged")
    with ctx:
        quick = ctx.tier == "quick" or ctx.budget_s
        if ctx.replay:
            runs = rejudge("c03", ctx.replay)
        else:
            runs = run_sharded(ctx, "c03", 8 if ctx.tier == "quick" else 16, lambda i: ["-seed", str(ctx.seed * 1000 + i), "-n", "250" if quick else "2500", "-dir", "{dir}"], ctx.budget_s or (900 if ctx.tier == "quick" else 3000))
            ok, out = C.build_harness_race()
            if not ok:
                res.mismatches.append({"line": "race-enabled harness does not build: " + out[-600:]})
            else:
                def post(i, trace, sdir):
                    reports = []
                    for f in sorted(glob.glob(os.path.join(sdir, "race.*"))):
                        reports.append(open(f, errors="replace").read())
                    if reports:
                        txt = "\n".join(reports)
                        with open(trace, "a") as t:
                            t.write("case race%d free race=true\n" % i)
                            for l in txt.splitlines()[:400]:
                                t.write("# " + l + "\n")
                            t.write("hang DATA-RACE reported by the Go race detector (%d reports, seed %d)\nend\n" % (txt.count("WARNING: DATA RACE"), ctx.seed * 1000 + 500 + i))
                runs += run_sharded(ctx, "c03", 4 if ctx.tier == "quick" else 8, lambda i: ["-seed", str(ctx.seed * 1000 + 500 + i), "-n", "40" if quick else "400", "-mode", "free", "-dir", "{dir}"],
                                    ctx.budget_s or (900 if ctx.tier == "quick" else 3000), exe=C.harness_race_exe(), env={"GORACE": "log_path={dir}/race halt_on_error=0"}, post=post, tag="race")
                res.extra["race_detector"] = "free cases re-run in a -race build; GORACE log_path collected per shard"
        for r in runs:
            absorb(res, "C03", *r)
    return res


PLUGINS = {"C03": c03, "C17": c17, "C16": c16, "C19": c19, "C01": c01, "C20": c20, "C14": c14, "C18": c18, "C15": c15, "C13": c13, "C08": c08, "C11": c11, "C02": c02, "C06": c06, "C10": c10, "C05": c05, "C09": c09, "C04": c04, "C07": c07, "C12": c12}
