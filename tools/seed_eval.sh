#!/bin/bash
# usage: seed_eval.sh <worktree> <mutation dir> <property id> [more property ids]
# 1. confirms the demonstration fails with the patch and passes without it (in the scratch worktree)
# 2. applies the patch to /repo, runs ./check for the given properties, undoes it
set -u
WT=$1; M=$2; shift 2
export GOFLAGS=-mod=mod GOPROXY=off
cd $WT && git checkout -q -- . && git clean -fdq
demo=$(ls $M/*_test.go 2>/dev/null | head -1)
cp $demo $WT/
run=$(grep -o 'func Test[A-Za-z0-9_]*' $demo | head -1 | sed 's/func //')
echo "== demo without patch ($run)"; (cd $WT && timeout 900 go test -count=1 -run "$run" . 2>&1 | tail -3)
git apply $M/patch.diff && echo "== demo WITH patch"; (cd $WT && timeout 900 go test -count=1 -run "$run" . 2>&1 | tail -5)
cd $WT && git checkout -q -- . && git clean -fdq
rm -rf /dev/shm/evidence.keep.local && cp -r /verif/evidence /dev/shm/evidence.keep.local
cd /repo && git apply $M/patch.diff || exit 1
for pid in "$@"; do echo "== check $pid with patch"; (cd /verif && timeout 1800 ./check $pid 2>&1 | tail -3); done
cd /repo && git checkout -q -- . && git clean -fdq && git status --short
rm -rf /verif/evidence && mv /dev/shm/evidence.keep.local /verif/evidence
