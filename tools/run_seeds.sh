#!/bin/bash
# runs every quick check under several seeds on the current tree; prints one line per (check, seed)
cd /verif
for seed in ${@:-2 3 5}; do
for pid in $(python3 -c "import json;print(' '.join(c['property_id'] for c in json.load(open('MANIFEST.json'))['checks']))"); do
  out=$(timeout 3000 ./check $pid --tier quick --seed $seed 2>&1); rc=$?
  echo "seed=$seed $pid rc=$rc $(echo "$out" | grep -c KNOWN-FINDING) known | $(echo "$out" | grep '^\[check\] C' | tail -1)"
  if [ $rc -ne 0 ]; then echo "$out" | grep VIOLATION; cp -r replays replays.fail.$pid.$seed 2>/dev/null; fi
done; done
