#!/bin/bash
# End-of-session: clean rebuild of everything, every quick check once on the unchanged tree (seed 1: the evidence that is committed
# comes from this run), then the independent re-check of all compiled files (coqchk).
cd "$(dirname "$0")/.."
[ -n "$(git -C /repo status --short)" ] && { echo "/repo is not clean"; exit 2; }
rm -rf .build replays
(cd coq && [ -f Makefile ] && make clean >/dev/null 2>&1; rm -f Makefile Makefile.conf .Makefile.d)
find coq -name '*.vo*' -o -name '*.glob' -o -name '.*.aux' | xargs rm -f
( time ./setup.sh ) 2>&1 | tail -5
for p in $(python3 -c "import json;print(' '.join(c['property_id'] for c in json.load(open('MANIFEST.json'))['checks']))"); do
  out=$(timeout 3000 ./check $p --tier quick --seed 1 2>&1); rc=$?
  echo "$p rc=$rc $(echo "$out" | grep -c KNOWN-FINDING) known | $(echo "$out" | grep '^\[check\] C' | tail -1)"
  [ $rc -ne 0 ] && echo "$out" | grep VIOLATION
done
tools/coqchk.sh 3000; head -3 coq/coqchk.log; grep -i "axioms" -A1 coq/coqchk.log | head -4
