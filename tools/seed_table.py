#!/usr/bin/env python3
"""prints the markdown table of /verif/seeded (for DESIGN.md 0.5)"""
import json, os, glob
rows = []
for d in sorted(glob.glob("/verif/seeded/*/")):
    m = json.load(open(os.path.join(d, "meta.json")))
    checks = "; ".join("%s: %s" % (k, v) for k, v in m["checks_run"].items())
    rows.append("| `%s` | %s | %s | %s |" % (m["id"], m["breaks"], m["needs_to_manifest"].replace("|", "/"), checks.replace("|", "/")))
print("| change (seeded/<id>) | breaks | needs, to manifest | what the checks said |")
print("|---|---|---|---|")
print("\n".join(rows))
