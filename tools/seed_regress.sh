#!/bin/bash
# usage: seed_regress.sh [seed id ...]   -- applies every stored seeded change to /repo in turn, runs the quick check of the
# property it breaks, undoes it, and prints one line per change.  /repo must be clean; it is clean again afterwards.
cd /verif
[ -n "$(git -C /repo status --short)" ] && { echo "/repo is not clean"; exit 2; }
rm -rf /dev/shm/evidence.keep && cp -r /verif/evidence /dev/shm/evidence.keep
ids=${@:-$(ls -d seeded/*/ | xargs -n1 basename)}
for id in $ids; do
  d=seeded/$id; pid=$(python3 -c "import json;print(json.load(open('$d/meta.json'))['breaks'])")
  git -C /repo apply /verif/$d/patch.diff || { echo "$id APPLY-FAILED"; continue; }
  out=$(timeout 2400 ./check $pid --tier quick 2>&1); rc=$?
  git -C /repo checkout -q -- . ; git -C /repo clean -fdq
  v=$(echo "$out" | grep VIOLATION | head -1)
  echo "$id $pid rc=$rc ${v:-NOT-REPORTED} | $(echo "$out" | grep '^\[check\]' | tail -1)"
done
rm -rf /verif/evidence && mv /dev/shm/evidence.keep /verif/evidence
[ -n "$(git -C /repo status --short)" ] && echo "WARNING: /repo not clean"
