#!/bin/bash
# usage: seed_regress.sh [seed id ...]   -- applies every stored seeded change to /repo in turn, runs the quick check of the
# property it breaks, undoes it, and prints one line per change.  /repo must be clean; it is clean again afterwards.
cd "$(dirname "$0")/.."
ROOT=$(pwd); REPO=${VERIF_REPO:-/repo}
[ -x .build/bbverif ] || ./setup.sh >/dev/null 2>&1
[ -n "$(git -C $REPO status --short)" ] && { echo "$REPO is not clean"; exit 2; }
rm -rf /dev/shm/evidence.keep && cp -r $ROOT/evidence /dev/shm/evidence.keep
ids=${@:-$(ls -d seeded/*/ | xargs -n1 basename)}
for id in $ids; do
  d=seeded/$id; pid=$(python3 -c "import json;print(json.load(open('$d/meta.json'))['breaks'])")
  git -C $REPO apply $ROOT/$d/patch.diff || { echo "$id APPLY-FAILED"; continue; }
  out=$(timeout 2400 ./check $pid --tier quick 2>&1); rc=$?
  git -C $REPO checkout -q -- . ; git -C $REPO clean -fdq
  v=$(echo "$out" | grep VIOLATION | head -1)
  echo "$id $pid rc=$rc ${v:-NOT-REPORTED} | $(echo "$out" | grep '^\[check\]' | tail -1)"
done
rm -rf $ROOT/evidence && mv /dev/shm/evidence.keep $ROOT/evidence
[ -n "$(git -C $REPO status --short)" ] && echo "WARNING: /repo not clean"
