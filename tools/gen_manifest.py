#!/usr/bin/env python3
"""Regenerates MANIFEST.json from the table below (keeps it valid at all times)."""
import json, os
ROOT = os.path.dirname(os.path.dirname(os.path.abspath(__file__)))
TECH = "machine-checked proof in Coq 8.16 of a hand-written executable model + checked model/implementation correspondence (extracted OCaml oracle vs Go harness built from /repo)"
NOTE_COMMON = ("Trusted: Coq 8.16.1 kernel+VM (no native_compute), ExtrOcamlBasic extraction, OCaml glue (oracle/*.ml), Go harness + verif-tagged hooks, "
               "python driver. Modelled, not verified: the Go code; the per-run correspondence check is the tie. ")
P = {
 "C01": ("Crash.v: for every durable image at rest, every set of written pages, every crash point of the commit protocol and every fate (persisted / lost / torn) of every un-synced write - data pages and the meta page - "
         "recovery yields the previous state with all its pages untouched, or the new state with all written pages durable; the new state iff its meta write was completely persisted; a completed commit re-establishes "
         "the precondition (induction over histories). Pager.v: written pages are never pages of the previous version. Tie: crash images rebuilt from the RECORDED real writes at sector granularity, opened by the real "
         "Open (content, Tx.Check, follow-up transaction, reopen) and, for a sample, by the extracted open_model + decoder.",
         "OS assumptions: a completed fdatasync makes earlier writes durable; an un-synced write persists as any subset of its sectors; writes do not alter other pages. NoSync and initialisation of a new file are excluded.", "DESIGN.md §8 C01"),
 "C02": ("Pager.v: an 18-clause invariant of the page-level transaction system is proved inductive over every step (reader begin/end, writer begin with any admissible release, "
         "frees, allocations, commit, rollback) for unbounded histories; corollaries: pages of a version an open reader views are never written and never reusable. Spec.v: calls through a "
         "read transaction change nothing. Tie: every reader is re-dumped after every writer event and compared with the extracted Spec state of its begin.",
         "Atomicity of the critical sections under the real Go scheduler (metalock/mmaplock) is runtime behaviour: exercised, not proved. Known finding D5 (failed final sync) is in C08's domain.", "DESIGN.md §8 C02"),
 "C04": ("19 theorems about the reference model Spec.v for all programs and states: errors change nothing, read-your-own-writes at any depth, ordered-map laws, every reachable state is sorted at every level, "
         "created buckets are empty, deleted buckets vanish with their subtree, moved buckets arrive intact and leave their source, a move into the own subtree is refused, sequence laws (mod 2^64), put/delete frame; "
         "every API result and dump of the implementation is compared with the extracted Spec on generated histories, so a deviation is a concrete failing program. "
         "B+tree layer: Node.v (line-for-line node.go: bisection, put, del, split) with theorems put = sorted insert, del = remove, split loses and reorders nothing for every page size and fill percentage; "
         "Tree.v (node.rebalance + node.spill as a function on a bucket's node tree) predicts the committed tree exactly on every generated commit for the observed visit order.",
         "Root bucket used only through Tx methods; oversized bucket names are outside generation; MoveBucket into the moved bucket's own subtree is generated and is known finding D4. The per-transaction bucket cache (Bucket.buckets) is tied by correspondence only; node/tree layer: see Node.v/Tree.v.", "DESIGN.md §8 C04"),
 "C05": ("Cursor.v is a line-for-line Gallina model of cursor.go; theorems: the full refinement statement to the sorted-list specification is REFUTED with a kernel-checked witness (known finding D9), "
         "and PROVED for every call sequence (First/Last/Next/Prev/Seek in any order, both ends) on every well-formed tree without emptied leaves - every committed tree, every read transaction; "
         "Seek = first key >= the sought one; keys strictly increasing; the repaired prev/Last behaviour vs the pinned one on concrete trees; the model is compared call by call with the real cursor on the tree "
         "the cursor actually walks (VerifDumpTree), and the specification is evaluated on every call sequence. The hypothesis 'committed trees have no emptied leaves' is itself a theorem about Tree.v "
         "(node.rebalance + node.spill, compared with the real commit on every generated case): no emptied page survives a commit, for every visit order.",
         "For trees with leaves emptied inside a write transaction only the refutation (D9) and the call-by-call correspondence are available; every call runs under a 3 s deadline.", "DESIGN.md §8 C05"),
 "C06": ("Pager.v invariant (inductive, all histories): every page a commit writes is outside the newest committed version and outside every open reader's version; the meta slot alternates. "
         "Tie: the extracted pstep is replayed on the real freelist events (guards monitored, free/pending/version/written sets compared) and every real WriteAt is intersected with "
         "decoder-computed page sets of all visible versions.",
         "Domain: files produced by Open + histories (not backup copies / reverted files). Failed commits are covered by C08.", "DESIGN.md §8 C06"),
 "C07": ("The accounting decision procedure Layout.accounted is proved sound for every decoded view (yes => ids in [2,mark) are partitioned into reachable-once / freelist page / free-once), and its key-order verdict is proved to mean sorted at every nesting level (a well-formed reference state); "
         "it is evaluated by the extracted independent reader on the file bytes after every commit of generated histories, together with key order, element bounds, file length and Tx.Check. "
         "Tree layer: Tree.commit_bucket predicts every freelist Free/Allocate of a commit (which page, how many, in order) and the rule pages(new tree) = pages(old tree) - freed + allocated is evaluated on the real events.",
         "Decoder fuel 200 levels of nesting/depth; images are the page-cache view of the file.", "DESIGN.md §8 C07"),
 "C08": ("Pager.v: for every sequence of frees and allocations of a transaction, Rollback+reload restores exactly the state its begin left (newest version, mark, readers, pending, free set, no writer) and the "
         "invariant (exact accounting, reader pages protected) holds afterwards - for all histories. Tie: every I/O call index of the failing commit is failed once (error returned instead of the call), with and "
         "without a reader held across; results, dumps, Tx.Check, decoder accounting, next writer and reopen compared with Spec.v.",
         "Injected failures have no partial effect (the call is not performed). Known finding D5 (failed sync after the meta write with an older reader open). After a failed mmap ErrInvalidMapping from Begin counts as not blocking.", "DESIGN.md §8 C08"),
 "C09": ("24 Coq theorems (closed under the global context) about an executable model of internal/freelist for all states and ids without bound: Free (pending, guard), Allocate for both backends "
         "(sound, complete, lowest run / exact span first, never page 0/1, total; hash-map for every span choice), ReleasePendingPages (a released page is needed by no reader, nothing lost, all released "
         "without readers; the pinned code refuted - D10), Rollback restores, serialisation round trip beyond 65534 ids, and soundness of the four decision procedures; the model is tied to the Go code on every run by "
         "differential execution against both backends, and the property's decision procedures are evaluated on the implementation's own before/after states.",
         "hashmap span choice and the reader set are inputs of the model.", "DESIGN.md §8 C09"),
 "C10": ("Pager.v: with no reader open the next writer can release every pending page (then nothing is withheld); pending pages are the writer's own frees or older ones some reader may see; "
         "reader-visible pages are never reusable; nothing below the mark is lost. Tie: real freelist state and Stats after every writer begin/commit/rollback vs the extracted model and vs the decoder.",
         "The bounded-file-growth corollary is stated through the partition (no id lost); the numeric bound for multi-page runs is not proved.", "DESIGN.md §8 C10"),
 "C11": ("Theorems: FNV-1a-64 changes under any single-byte change; Meta.Validate is characterised on the 64-byte structure at any file position; ANY single altered byte of magic, version, "
         "checksummed content or checksum invalidates a valid meta (all positions, all values); open_model presents a state only through a validating meta, rejects when both are invalid or the file "
         "is shorter than two pages / its high-water mark, falls back to the other meta when exactly one is invalid, prefers the newer when both are valid, and finds the page size through the second "
         "meta. Tie: real Open vs extracted open_model + decoder on exhaustive single-byte sweeps, partial overwrites, truncations and junk files.",
         "Arbitrary multi-byte mixtures are covered by the sweep only (a 64-bit hash has collisions). That page 0's tail is zero is an assumption of the page-size theorem (true of every meta page bbolt writes).", "DESIGN.md §8 C11"),
 "C13": ("Spec.v has no option parameter (every API result is a function of the history only); Pager.v: the free list rebuilt by scanning equals free+pending in every reachable at-rest state, reopening in either mode "
         "re-establishes the invariant; Freelist.v: the persisted list is backend independent. Tie: every history is run under K option schedules re-drawn at every open (backend, freelist-sync, grow-sync, map size, "
         "StrictMode, page size, read-only opens with/without preload) and compared with the one Spec run; accounting on every image; the code's free list after every open vs the decoder's scan.",
         "Mlock is not exercised (needs RLIMIT_MEMLOCK); physical statistics legitimately differ between schedules and are compared with the page-level model instead.", "DESIGN.md §8 C13"),
 "C14": ("Pager.v: in every state reachable from an invariant state, the pages of the version an open reader views are neither written nor reusable (so the bytes copied are the snapshot's); Layout.v: a copy whose "
         "slot 0 holds the snapshot's meta and slot 1 the same meta with txid-1 opens at slot 0. Tie: WriteTo with write transactions committed between the chunks of the copy, and CopyFile; byte count, Tx.Size, "
         "metas, dump vs the Spec snapshot of the reader, decoder accounting, Tx.Check.",
         "Truly concurrent writer goroutines are not used (interleaving is at chunk boundaries of the copy); remaps during a backup are avoided (they would wait for the backup's own reader).", "DESIGN.md §8 C14"),
 "C19": ("Check.v is a line-for-line model of Tx.check: 6 theorems (freed-twice <=> duplicates, exact final sweep, free-listed meta/freelist pages reported (defect D14, fixed), one page silent <=> in bounds / referenced once / not free / valid type, leaf key order exact, a clean verdict IS the C07 partition for arbitrary file content); the multiset of (class, page, index) it reports is compared with the real Tx.Check on every swept file. "
         "The reference verdict is computed by the independent decoder; its accounting part is proved EXACT (sound and complete): it accepts precisely the files in which every id below the mark is reachable once, part "
         "of the freelist page, or listed free once. Tie: Tx.Check and the real `bbolt check` binary built from /repo (exit status) vs that verdict on consistent files and on a sweep of single structural corruptions, in both directions (no miss, no false alarm).",
         "The decoder's key-order verdict is proved to imply sortedness at every level and containment in the parent's range; its page-type verdict is exercised, not proved. Corrupt files that make the decoder's walk not end within 5 s count as corrupt.", "DESIGN.md §8 C19"),
 "C20": ("Layout: a meta rewritten with freelist=none and a fresh checksum validates and keeps every other field (abandon); with the older meta in both slots Open presents it (revert). Pager: the free list rebuilt "
         "by scanning is exactly free+pending = the unreachable pages (rebuild); the previous version's pages are intact directly after a commit (invariant). Tie: the CLI commands run in process after commits; "
         "output decoded before any Open, then opened; content vs Spec.v (previous version for revert), accounting, Tx.Check, source SHA-256.",
         "clear-page / copy-page / meta update surgery commands are not covered (not part of the property).", "DESIGN.md §8 C20"),
 "C15": ("Compact.v models walk + replay on the reference map without a limit parameter (commit points cannot change Spec content). Proved for arbitrarily nested sources: compact rebuilds every bucket, key, value and nested "
         "sequence of a well-formed source exactly (nested sequences < 2^64 - always true of the Go field - is necessary and sufficient). Tie: library and CLI compaction for 8 limits incl. 1, 2, 7 bytes vs the "
         "extracted model run on the decoded source image; destination Tx.Check; source SHA-256 before/after.",
         "The transaction-size limit is not a parameter of the model (a commit does not change Spec content); the destination root's own sequence is not copied (the code does not either).", "DESIGN.md §8 C15"),
 "C16": ("Batch.v models batch.run (retry loop, swap-remove, solo re-run). Proved for every batch of distinct callers and every script: every caller gets a result; nil <=> exactly one of its invocations is committed "
         "(a successful one); error/panic <=> none; the loop terminates within length+1 rounds; swap-remove removes exactly the failing call. Tie: deterministic batches (arrival order fixed through a verif accessor) "
         "are predicted exactly by the extracted model; free-running concurrent callers are judged by counters and recorded invocations in the database.",
         "Which callers share a batch under the real scheduler is not modelled (any grouping is a set of batches, each covered by the theorem; batches and solo re-runs are serial write transactions).", "DESIGN.md §8 C16"),
 "C03": ("Conc.v models threads stepping through bbolt's lock protocol (writer mutex from beginRWTx to tx.close on every path, meta read after the mutex is held, txid incremented privately and published by "
         "writeMeta) under an arbitrary schedule. Proved for every number of threads, every program of committing/failing/panicking/rolled-back write transactions and read transactions, every body function "
         "and every schedule: the log is serial (serial_ok: consecutive committed ids, every write transaction started from its predecessor's committed state, every read transaction saw the state its id names); "
         "the published meta is the last committed version; one writer at a time; no deadlock. Tie: step-by-step scheduled runs of real goroutines are predicted exactly by the extracted Conc.crun; free-running "
         "goroutine logs are judged by the extracted serial_ok plus all-or-nothing/durability/real-time rules; a -race build of the harness and a watchdog decide data-race freedom and lost wake-ups.",
         "Data races and lost wake-ups are runtime behaviour the model cannot exhibit: decided by the Go race detector and a 30 s watchdog on generated programs (partial on the theorem side). The mmap lock "
         "(a remapping commit waits for open readers) is not modelled.", "DESIGN.md §8 C03"),
 "C17": ("Lock.v models what Open/Close do with flock (exclusive for read-write, shared for read-only, finite timeout). Proved for every sequence of open/close attempts: a live read-write open is the "
         "only live open; a read-write open succeeds only with no holder, a read-only one only with no read-write holder; close releases. Tie: every open/close result of sequences issued from this "
         "process and from child processes is predicted by the extracted model. The read-only half is decided on observations: every write entry point refused, zero write/truncate/sync calls, SHA-256 "
         "of the file unchanged after the session and after each CLI inspection command, every returned slice either faults on write or is a private copy (file hashed while the byte is changed).",
         "flock semantics of the OS are assumed (trusted base); the no-byte-changes and memory-protection clauses are checked on generated programs, not proved (they are facts about mmap/PROT_READ): partial.", "DESIGN.md §8 C17"),
 "C18": ("Grow.v: mmapSize covers the request; if the pre-check of the last allocation passed and the map is not larger than that allocation needs, the file after grow (with or without grow-sync) is within "
         "max(MaxSize, previous length); the unrestricted statement is REFUTED by a kernel-checked witness (known finding D7). Tie: every ErrMaxSizeReached and every file length after commit predicted by the "
         "extracted model from the real allocation events; Spec.v for the refused transaction; decoder accounting.",
         "Known finding D7 (map inflated by InitialMmapSize). Windows-specific branches are not modelled.", "DESIGN.md §8 C18"),
 "C12": ("Round-trip theorems between the published layout as a writer specification (LayoutEnc.v) and the independent reader (Layout.v) for integers, checksummed meta pages, free-list pages (both count encodings), leaf pages and branch elements at any file position; "
         "every file the implementation writes in generated histories is decoded by the extracted reader and compared with the API's report. "
         "Node.write (line-for-line node.write/WriteInodeToPage) is proved to produce exactly the published leaf/branch page and to round-trip through Node.read for pages below 4 GiB (counterexample above); it is compared byte for byte with the real node.write on generated nodes; the independent reader is proved to decode inline buckets (Bucket.write) and paged bucket entries written that way.",
         "Nesting deeper than one inline level and the recursive descent through branch pages are exercised by the correspondence only.", "DESIGN.md §8 C12"),
}
ALL = ["C%02d" % i for i in range(1, 21)]
def chk(pid):
    text, note, ref = P[pid]
    return {"property_id": pid, "quick_cmd": "./check %s --tier quick" % pid, "thorough_cmd": "./check %s --tier thorough" % pid,
            "evidence_file": "/verif/evidence/%s.json" % pid, "replay_cmd_template": "./check %s --replay {path}" % pid,
            "engine": "coq-model+correspondence", "level_claimed": {"category": "proof", "text": text, "design_ref": ref},
            "level_note": NOTE_COMMON + note, "technique": TECH}
hooks = json.load(open(os.path.join(ROOT, "tools", "hook_commits.json")))
m = {"version": 1, "setup_cmd": "./setup.sh",
     "hooks": {"guard": "verif", "enable": "go build -tags verif (harness module bbverif with replace go.etcd.io/bbolt => /repo)",
               "baseline_off_cmd": "cd /repo && GOFLAGS=-mod=mod go test -vet=off -count=1 -timeout 25m ./...",
               "source_commits": hooks, "add_only": True},
     "engines": [{"name": "coq-model+correspondence", "path": "/verif/check", "serves_properties": sorted(P),
                  "kind_free_text": "Coq 8.16 development (coq/) + extracted OCaml oracle (oracle/) + Go harness (harness/) + python driver (check, lib/)"}],
     "checks": [chk(p) for p in sorted(P)],
     "notes": "See DESIGN.md. Every check rebuilds the harness from /repo's working tree, re-checks its Coq property file, regenerates the constants tie, runs the correspondence and writes evidence/<id>.json.",
     "not_applicable": [{"property_id": p, "reason": "check not built yet (work in progress, see DESIGN.md §12); not a claim that the technique cannot apply"} for p in ALL if p not in P]}
json.dump(m, open(os.path.join(ROOT, "MANIFEST.json"), "w"), indent=1)
print("MANIFEST.json: %d checks" % len(m["checks"]))
