#!/bin/bash
# runs every registered check once on the current tree; prints one line per check
cd /verif
for pid in $(python3 -c "import json;print(' '.join(c['property_id'] for c in json.load(open('MANIFEST.json'))['checks']))"); do
  out=$(timeout 3000 ./check $pid --tier ${1:-quick} 2>&1); rc=$?
  echo "$pid rc=$rc $(echo "$out" | grep -c KNOWN-FINDING) known | $(echo "$out" | grep '^\[check\] C' | tail -1)"
  [ $rc -ne 0 ] && echo "$out" | grep VIOLATION
done
