#!/bin/bash
# Re-checks every compiled file of the development with Coq's independent checker and lists the axioms they rely on.
# Works on a scratch copy of coq/ (coqchk must not race with make); result: /verif/coq/coqchk.log
set -u
S=$(mktemp -d /dev/shm/coqchk.XXXX)
cp -r /verif/coq/. $S/
cd $S
mods=$(ls Properties/C*.v | sed 's|Properties/\(.*\)\.v|BboltProps.\1|' | tr '\n' ' ')
( time timeout ${1:-3000} coqchk -silent -o -Q theories Bbolt -Q Properties BboltProps -Q Tie BboltTie $mods ) > $S/coqchk.out 2>&1
rc=$?
{ echo "coqchk -silent -o on $(echo $mods | wc -w) property modules and everything they depend on; exit=$rc; $(date -u)"; tail -40 $S/coqchk.out; } > /verif/coq/coqchk.log
rm -rf $S
exit $rc
