#!/bin/bash
# usage: seed_suite.sh <worktree> <mutation dir>...   -- confirms the unedited suite is green with each patch (sequentially)
WT=$1; shift
export GOFLAGS=-mod=mod GOPROXY=off
for M in "$@"; do
  cd $WT && git checkout -q -- . && git clean -fdq && git apply $M/patch.diff || { echo "APPLY-FAILED" > $M/suite_confirm.log; continue; }
  (go build ./... && go test -vet=off -count=1 -timeout 25m . ./internal/... ./cmd/... 2>&1 | grep -v "^ok\|no test files" | tail -30; echo "exit=${PIPESTATUS[0]}") > $M/suite_confirm.log 2>&1
  cd $WT && git checkout -q -- . && git clean -fdq
done
echo done
