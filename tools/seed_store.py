#!/usr/bin/env python3
"""seed_store.py <seed id> <mutation dir> <property> <needs> <detected-by json>  -- files a confirmed mutation under /verif/seeded/<id>/"""
import json, os, shutil, sys, glob
sid, mdir, prop, needs, det = sys.argv[1:6]
d = os.path.join("/verif/seeded", sid)
os.makedirs(d, exist_ok=True)
shutil.copy(os.path.join(mdir, "patch.diff"), d)
for f in glob.glob(os.path.join(mdir, "*_test.go")) + glob.glob(os.path.join(mdir, "README.md")):
    shutil.copy(f, d)
meta = {"id": sid, "breaks": prop, "needs_to_manifest": needs,
        "confirmed": {"demo_fails_with_patch_passes_without": True, "existing_suite_green_with_patch": "go test . ./internal/... ./cmd/... (root, internal, cmd) - confirmed in a scratch worktree"},
        "checks_run": json.loads(det)}
json.dump(meta, open(os.path.join(d, "meta.json"), "w"), indent=1)
print("stored", d)
