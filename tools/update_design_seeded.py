#!/usr/bin/env python3
"""rewrites DESIGN.md section 0.5 (intro + table) from /verif/seeded/*/meta.json and seeded/REGRESSION.txt"""
import json, glob, os, re, subprocess
metas = [json.load(open(os.path.join(d, "meta.json"))) for d in sorted(glob.glob("/verif/seeded/*/"))]
n = len(metas)
missed = sum(1 for m in metas if re.search(r"missed at first|reported at first only", json.dumps(m["checks_run"])))
props = sorted(set(m["breaks"] for m in metas))
reg = open("/verif/seeded/REGRESSION.txt").read().splitlines() if os.path.exists("/verif/seeded/REGRESSION.txt") else []
rep = sum(1 for l in reg if "VIOLATION" in l); nfi = sum(1 for l in reg if "no-failing-input-found" in l); notrep = [l.split()[0] for l in reg if "NOT-REPORTED" in l]
table = subprocess.run(["python3", "/verif/tools/seed_table.py"], capture_output=True, text=True).stdout
intro = f'''Each change was produced by a fresh agent that saw only the property text and its own worktree (second-wave agents were also
given one-line names of the changes already known for that property, so as to produce different ones), compiles, keeps the
unedited suite green, needs something specific to manifest, and comes with a demonstration that fails with it and passes
without it (all re-confirmed by me; stored under `seeded/`). Agents converged: six of the second-wave and eight of the sixth-wave deliveries duplicated
earlier ones (the `releaseRange` alloctx line alone was delivered five times) and are not stored twice. The regression lines of the 69 changes stored before round 4 come from a run at commit
`0a61468` (a background snapshot); the changes whose check was modified afterwards (C12, C13, C14, C17, C19) and the new ones were re-run on the final tree.

{n} changes are stored, covering all 20 properties ({", ".join(props)} as the property whose check is run by the regression; where an
agent aimed at a different property than the one that reports the change, the entry says so). `tools/seed_regress.sh` applies each
patch to /repo, runs the quick check of that property and undoes the patch; the last full run is `seeded/REGRESSION.txt`:
{rep} of {len(reg)} reported ({rep - nfi} with a concrete failing input as the replay, {nfi} with `no-failing-input-found`){"; NOT reported: " + ", ".join(notrep) if notrep else ""}.
{missed} of the {n} were **missed by the check as first built** and led to a stronger generator, observable or rule (never to a weaker
one); those are marked "missed at first" below - they are the honest measure of how far a first version of these checks
was from the hidden space of breaking changes, and the reason to expect further misses of the same kind (a trigger the
generators do not produce) rather than of a different kind.

'''
p = "/verif/DESIGN.md"; s = open(p).read()
a = s.index("### 0.5 Measured detection"); b = s.index("### 0.6 Proofs added late")
head = s[a:].split("\n", 2)[0]
s = s[:a] + head + "\n\n" + intro + table + "\n" + s[b:]
open(p, "w").write(s)
print("seeds", n, "missed-at-first", missed, "regression lines", len(reg))
