#!/bin/bash
# Build everything offline from files on disk: Coq development (full .vo), extracted oracle, Go harness.
set -e
cd "$(dirname "$0")"
python3 - <<'PY'
import sys, os
sys.path.insert(0, "lib")
import common as C
ok, out = C.coq_make()
print(out[-3000:])
if not ok: sys.exit("coq build failed")
ok, out = C.build_harness()
if not ok: sys.exit("harness build failed:\n" + out)
ok, out = C.build_oracle(force=True)
if not ok: sys.exit("oracle build failed:\n" + out)
ok, out = C.consts_tie()
if not ok: sys.exit("constants tie failed:\n" + out)
print("setup ok")
PY
