(** C08 - a failed commit changes nothing and leaves the database usable.
    Page level (Pager.v): whatever a transaction freed and allocated, rolling it back (Rollback + reload of the free
    list, which is what every error path of Commit does) restores exactly the state its begin left: same newest
    version, same mark, same readers, same pending pages, same free set, no writer - so the next writer can begin.
    API level (Spec.v): the working copy is discarded (the harness compares every later result with the old state). *)
From Bbolt Require Import Base Pager PagerProofs.

Theorem C08_rollback_restores : forall s0 w0 ls s1 s2,
  Inv s0 -> g_w s0 = Some w0 -> w_freed w0 = [] -> w_alloc w0 = [] ->
  forallb tree_label ls = true -> prun s0 ls = Some s1 -> pstep s1 LRollback = Some s2 ->
  g_pages s2 = g_pages s0 /\ g_cur s2 = g_cur s0 /\ g_mark s2 = g_mark s0 /\ g_readers s2 = g_readers s0 /\
  g_w s2 = None /\ g_pend s2 = g_pend s0 /\ (forall x, In x (g_free s2) <-> In x (g_free s0)).
Proof. exact rollback_restores. Qed.
Print Assumptions C08_rollback_restores.

(** the state after the failure still satisfies the invariant: accounting stays exact, readers keep their pages *)
Theorem C08_invariant_after_failure : forall s l s', Inv s -> pstep s l = Some s' -> Inv s'.
Proof. exact inv_step. Qed.
Print Assumptions C08_invariant_after_failure.

Theorem C08_readers_keep_their_pages : forall s, Inv s ->
  forall r P x, In r (g_readers s) -> In (r, P) (g_hist s) -> In x P -> ~ In x (g_free s).
Proof. exact reader_pages_not_free. Qed.
Print Assumptions C08_readers_keep_their_pages.

Example C08_nonvacuous :
  let s0 := pg_open 1 6 [2; 3] [4; 5] in
  match prun s0 [LBeginR; LBeginW []; LFree 3; LAlloc 4; LAlloc 6; LFree 2; LAlloc 5; LRollback] with
  | Some s => g_free s = [5; 4] /\ g_pend s = [] /\ g_pages s = [2; 3] /\ g_w s = None /\ g_mark s = 6
  | None => False
  end.
Proof. vm_compute. repeat split. Qed.
