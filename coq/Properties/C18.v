(** C18 - the data file never grows beyond MaxSize.  Model: Grow.v (mmapSize, growSize, the pre-check of allocate, grow). *)
From Bbolt Require Import Base Consts Grow GrowProofs.

(** the map size computed for a request is never smaller than the request *)
Theorem C18_mmap_size_covers_request : forall ps size r, 0 < ps -> mmap_size ps size = Some r -> size <= r.
Proof. exact mmap_size_ge. Qed.
Print Assumptions C18_mmap_size_covers_request.

(** If the pre-check of the transaction's last allocation passed and the map is not larger than what that allocation
    needs (it was not inflated by InitialMmapSize), the file after grow is within MaxSize - or was already longer. *)
Theorem C18_grow_within_limit : forall alloc maxsize minsz datasz filesz M,
  datasz <= M -> grow_size alloc M minsz <= maxsize ->
  grow alloc datasz filesz minsz <= N.max maxsize filesz.
Proof. exact grow_within_limit. Qed.
Print Assumptions C18_grow_within_limit.

Theorem C18_nogrowsync_within_limit : forall ps alloc maxsize mark count filesz M, 0 < ps ->
  mmap_size ps ((mark + count + 1) * ps) = Some M ->
  grow_size alloc M ((mark + count + 1) * ps) <= maxsize ->
  grow_nosync filesz ((mark + count) * ps) <= N.max maxsize filesz.
Proof. exact grow_nosync_within_limit. Qed.
Print Assumptions C18_nogrowsync_within_limit.

(** Without that hypothesis the statement is FALSE of the faithful model and of the code (known finding D7):
    MaxSize 1 MiB, InitialMmapSize 8 MiB, page size 4096: the pre-check passes and grow sizes the file to 8 MiB. *)
Definition C18_full : Prop := grow_full_statement.
Theorem C18_initial_mmap_refuted : ~ C18_full.
Proof. exact grow_full_statement_refuted. Qed.
Print Assumptions C18_initial_mmap_refuted.

Example C18_nonvacuous :
  alloc_refused 4096 16777216 1048576 200 100 = Some true /\ alloc_refused 4096 16777216 1048576 20 10 = Some false /\
  grow 16777216 32768 16384 (31 * 4096) = 32768.
Proof. vm_compute. repeat split. Qed.
