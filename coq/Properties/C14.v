(** C14 - hot backups are complete, valid snapshots.
    A backup is: the snapshot's meta written into both slots (slot 1 with txid-1), followed by the bytes of pages
    2 .. mark-1 read from the live file while the read transaction is open. *)
From Bbolt Require Import Base Consts Pager PagerProofs Layout LayoutProofs.

(** the pages of the version the backup's read transaction views are never written while it is open, whatever
    write transactions run in the meantime - so the bytes copied are the snapshot's bytes *)
Theorem C14_snapshot_pages_never_written : forall ls s s', Inv s -> prun s ls = Some s' ->
  forall r P p, In r (g_readers s') -> In (r, P) (g_hist s') -> In p (commit_writes s') -> ~ In p P.
Proof.
  intros ls s s' I H r P p Hr HP Hp. pose proof (inv_run ls s s' I H) as I'.
  exact (proj2 (writes_only_invisible s' I' p Hp) r P Hr HP).
Qed.
Print Assumptions C14_snapshot_pages_never_written.

(** nor handed out again *)
Theorem C14_snapshot_pages_never_reused : forall ls s s', Inv s -> prun s ls = Some s' ->
  forall r P x, In r (g_readers s') -> In (r, P) (g_hist s') -> In x P -> ~ In x (g_free s').
Proof.
  intros ls s s' I H r P x Hr HP Hx. exact (reader_pages_not_free s' (inv_run ls s s' I H) r P x Hr HP Hx).
Qed.
Print Assumptions C14_snapshot_pages_never_reused.

(** opening the copy presents the snapshot's meta (slot 0), not the older-looking slot 1 *)
Theorem C14_copy_opens_at_snapshot : forall rd flen dps ps,
  page_size_model rd flen dps (validate_at rd page_header_size) = Some ps -> 2 * ps <= flen ->
  valid0 rd -> valid1 rd ps -> 1 <= m_txid (meta0 rd) -> m_txid (meta1 rd ps) = m_txid (meta0 rd) - 1 ->
  m_mark (meta0 rd) * ps <= flen ->
  open_model rd flen dps = OpenOk ps (meta0 rd).
Proof. exact backup_meta0_wins. Qed.
Print Assumptions C14_copy_opens_at_snapshot.
