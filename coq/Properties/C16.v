(** C16 - Batch applies each successful function exactly once.  Model: Batch.v (batch.run with its retry loop,
    swap-remove of the failing call, solo re-run). *)
From Bbolt Require Import Base Batch BatchProofs.

(** For every batch of distinct callers, every script (what each invocation of each caller does: succeed, return
    an error, panic - on its first, a later or every invocation): every caller gets a result; nil means exactly one of
    its invocations is committed, and that invocation succeeded; an error or a panic means none of its invocations is
    committed.  One caller's failure changes no other caller's result category. *)
Theorem C16_batch_exactly_once : forall sc calls s', NoDup calls ->
  run_batch (S (length calls)) sc true calls bstate0 = Some s' ->
  forall c, In c calls -> exists r, res_get c (b_results s') = Some r /\ good sc (b_committed s') c r.
Proof. exact batch_exactly_once. Qed.
Print Assumptions C16_batch_exactly_once.

(** batch.run terminates: every retry takes one call out, so [length calls + 1] rounds always suffice (the fuel of the
    theorem above is never exhausted) *)
Theorem C16_batch_terminates : forall sc ok calls s, exists s', run_batch (S (length calls)) sc ok calls s = Some s'.
Proof. exact run_batch_terminates. Qed.
Print Assumptions C16_batch_terminates.

(** the swap-remove of the retry loop removes exactly the failing call *)
Theorem C16_swap_remove_exact : forall l i, NoDup l -> (i < length l)%nat ->
  NoDup (swap_remove l i) /\ length (swap_remove l i) = (length l - 1)%nat /\
  ~ In (nth i l 0) (swap_remove l i) /\ (forall x, In x (swap_remove l i) -> In x l) /\
  (forall x, In x l -> x = nth i l 0 \/ In x (swap_remove l i)).
Proof. exact swap_remove_facts. Qed.
Print Assumptions C16_swap_remove_exact.

Example C16_nonvacuous :
  let sc : script := fun c k => if (c =? 2) && (Nat.eqb k 1) then OErr else if (c =? 4) then OPanic else OOk in
  match run_batch 6 sc true [1; 2; 3; 4; 5] bstate0 with
  | Some s => res_get 2 (b_results s) = Some RNil /\ committed_of 2 (b_committed s) = [2%nat] /\
              res_get 4 (b_results s) = Some RPanic /\ committed_of 4 (b_committed s) = [] /\
              committed_of 1 (b_committed s) = [3%nat]
  | None => False
  end.
Proof. vm_compute. repeat split. Qed.
