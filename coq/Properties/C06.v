(** C06 - committed pages are never overwritten while still visible.  Model: Pager.v (page-level transaction
    system); every reachable state satisfies [Inv] (PagerProofs.inv_open / inv_step / inv_run). *)
From Bbolt Require Import Base Pager PagerProofs.

(** the invariant is inductive over every step the code can take (for all tree-layer decisions passing the guards) *)
Theorem C06_invariant_step : forall s l s', Inv s -> pstep s l = Some s' -> Inv s'.
Proof. exact inv_step. Qed.
Print Assumptions C06_invariant_step.

Theorem C06_invariant_reachable : forall ls s s', Inv s -> prun s ls = Some s' -> Inv s'.
Proof. exact inv_run. Qed.
Print Assumptions C06_invariant_reachable.

Theorem C06_invariant_at_open : forall cur mark pages free, 2 <= mark ->
  (forall x, In x free -> 2 <= x < mark) -> (forall x, In x pages -> 2 <= x < mark) ->
  (forall x, In x free -> ~ In x pages) -> (forall x, 2 <= x < mark -> In x free \/ In x pages) ->
  Inv (pg_open cur mark pages free).
Proof. exact inv_open. Qed.
Print Assumptions C06_invariant_at_open.

(** every page a commit writes lies outside the newest committed state and outside every open reader's state *)
Theorem C06_writes_only_invisible : forall s, Inv s ->
  forall p, In p (commit_writes s) ->
    ~ In p (g_pages s) /\ (forall r P, In r (g_readers s) -> In (r, P) (g_hist s) -> ~ In p P).
Proof. exact writes_only_invisible. Qed.
Print Assumptions C06_writes_only_invisible.

(** and the commit's meta page goes to the slot that does not hold the newest committed meta *)
Theorem C06_meta_slot : forall s w, Inv s -> g_w s = Some w -> (w_id w) mod 2 <> (g_cur s) mod 2.
Proof. exact meta_slot_alternates. Qed.
Print Assumptions C06_meta_slot.

(** non-vacuity: a history with a reader held across two commits that recycle pages *)
Example C06_nonvacuous :
  let s0 := pg_open 1 4 [2; 3] [] in
  match prun s0 [LBeginR; LBeginW []; LFree 3; LAlloc 4; LFree 2; LAlloc 5; LCommit;
                 LBeginW []; LFree 4; LAlloc 6; LFree 5; LAlloc 7; LCommit; LEndR 1; LBeginW [2; 3; 4; 5]; LFree 6; LAlloc 2] with
  | Some s => commit_writes s = [2] /\ g_pages s = [7; 6] /\ g_free s = [3; 4; 5]
  | None => False
  end.
Proof. vm_compute. repeat split. Qed.
