(** C20 - repair commands restore exactly what they promise. *)
From Bbolt Require Import Base Consts Layout LayoutEnc LayoutProofs Pager PagerProofs.

(** abandon: rewriting a meta with freelist = none and a fresh checksum keeps it valid and changes nothing else *)
Theorem C20_abandon_keeps_meta_valid : forall m pre post, meta_fields_ok m -> m_magic m = magic -> m_version m = version ->
  let m' := set_freelist m pgid_no_freelist in
  validate_at (rd_of (pre ++ enc_meta m' ++ post)) (N.of_nat (length pre)) = MOk /\
  rd_meta_at (rd_of (pre ++ enc_meta m' ++ post)) (N.of_nat (length pre)) = with_sum m'.
Proof. exact abandon_meta_valid. Qed.
Print Assumptions C20_abandon_keeps_meta_valid.

(** after abandoning (and after rebuilding) the free pages are exactly the unreachable pages: the list rebuilt by
    scanning equals free + pending of the state the file was in *)
Theorem C20_rebuilt_free_is_unreachable : forall s, Inv s -> g_w s = None ->
  forall x, In x (scan_free s) <-> In x (g_free s) \/ In x (pend_pages s).
Proof. exact scan_equals_persisted. Qed.
Print Assumptions C20_rebuilt_free_is_unreachable.

(** revert: with the older meta copied over the newer slot, Open presents the older meta *)
Theorem C20_revert_presents_older : forall rd flen dps ps,
  page_size_model rd flen dps (validate_at rd page_header_size) = Some ps -> 2 * ps <= flen ->
  valid0 rd -> valid1 rd ps -> m_txid (meta1 rd ps) = m_txid (meta0 rd) -> m_mark (meta0 rd) * ps <= flen ->
  open_model rd flen dps = OpenOk ps (meta0 rd).
Proof. exact revert_presents_older. Qed.
Print Assumptions C20_revert_presents_older.

(** ... and the pages of that previous version are intact directly after the commit: what the commit freed is only
    pending (not reusable before the next writer begins), what it wrote was not part of the previous version *)
Theorem C20_previous_version_intact_after_commit : forall s l s', Inv s -> pstep s l = Some s' -> Inv s'.
Proof. exact inv_step. Qed.
Print Assumptions C20_previous_version_intact_after_commit.
