(** C03 - Write transactions are serial, all-or-nothing and visible in commit order.  Model: Conc.v (threads stepping
    through bbolt's lock protocol under an arbitrary schedule).  Data-race freedom and the runtime's wake-ups are not
    expressible in this model: they are decided by the race detector and a progress watchdog on the real code. *)
From Bbolt Require Import Base Conc ConcProofs.

(** For every number of threads, every program of committing, failing, panicking and rolled-back write transactions
    and read transactions per thread, every body function [mix] and every schedule: the log reads serially - committed
    ids continue the initial id without gaps or repeats; every write transaction (committed or not) started from
    exactly the state its predecessor id committed; every read transaction saw exactly the state its id names; nothing
    an abandoned transaction wrote is ever seen (it would break the chain). *)
Theorem C03_log_serial : forall mix id0 c0 progs sched,
  serial_ok id0 c0 (log (crun mix (cinit id0 c0 progs) sched)) = true.
Proof. exact log_serial. Qed.
Print Assumptions C03_log_serial.

(** committed ids are consecutive in commit order, and the published meta is always the last committed version (a
    commit is visible as a whole from the step that publishes it) *)
Theorem C03_commit_order : forall mix id0 c0 progs sched, let s := crun mix (cinit id0 c0 progs) sched in
  map t_id (commits (log s)) = run_nat (id0 + 1) (length (commits (log s))) /\
  mid s = id0 + N.of_nat (length (commits (log s))) /\ ver_of id0 c0 (log s) (mid s) = Some (mc s).
Proof. exact commit_ids_in_order. Qed.
Print Assumptions C03_commit_order.

(** at most one write transaction is open at a time *)
Theorem C03_one_writer : forall mix id0 c0 progs sched t1 t2 p1 p2, let s := crun mix (cinit id0 c0 progs) sched in
  nth_error (thr s) t1 = Some p1 -> nth_error (thr s) t2 = Some p2 -> is_w p1 = true -> is_w p2 = true -> t1 = t2.
Proof. exact one_writer. Qed.
Print Assumptions C03_one_writer.

(** the lock protocol cannot deadlock: while any thread has work left some thread can move *)
Theorem C03_never_stuck : forall mix id0 c0 progs sched, let s := crun mix (cinit id0 c0 progs) sched in
  (exists t p, nth_error (thr s) t = Some p /\ unfinished p = true) -> exists t, cstep mix s t <> s.
Proof. exact never_stuck. Qed.
Print Assumptions C03_never_stuck.

Example C03_nonvacuous :
  let mix := fun c tok => (c * 1000003 + tok) mod 1099511627776 in
  let s := crun mix (cinit 2 5 [[PWrite 1 ECommit; PRead]; [PWrite 2 EPanic; PWrite 3 ECommit]; [PRead]])
                [0; 1; 0; 0; 2; 0; 1; 0; 2; 1; 1; 1; 1; 1; 0; 0; 1; 1; 1; 1; 1]%nat in
  map (fun r => (t_thread r, t_id r, t_kind r)) (log s) =
    [(0%nat, 3, KCommit); (2%nat, 2, KRead); (1%nat, 4, KAbort); (0%nat, 3, KRead); (1%nat, 4, KCommit)] /\ mid s = 4.
Proof. vm_compute. split; reflexivity. Qed.
