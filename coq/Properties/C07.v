(** C07 - every page is accounted for exactly once after every commit.
    [Layout.accounted] is the decision procedure the harness evaluates on the independent decoder's view of every
    file image; this file proves that a "yes" of that procedure is the declarative partition. *)
From Bbolt Require Import Base Consts Spec Fnv Layout LayoutProofs LayoutOrderProofs Pager PagerProofs.
From Bbolt Require Node Tree TreeProofs TreeNestedProofs TreePagerProofs.
From Coq Require Import Permutation.

Theorem C07_accounting_decision_sound : forall v free,
  accounted v free = true ->
  let all := page_ids (v_pages v) ++ v_flpage v ++ free in
  NoDup all /\ (forall id, In id all <-> 2 <= id < m_mark (v_meta v) \/ False).
Proof. exact accounted_sound. Qed.
Print Assumptions C07_accounting_decision_sound.

(** Page-level model (Pager.v): in every reachable at-rest state every id in [2, mark) is exactly one of free,
    pending, part of the newest version - for all histories of commits, rollbacks, readers and page reuse. *)
Theorem C07_partition_at_rest : forall s, Inv s -> g_w s = None ->
  forall x, 2 <= x < g_mark s ->
    (In x (g_free s) /\ ~ In x (pend_pages s) /\ ~ In x (g_pages s)) \/
    (~ In x (g_free s) /\ In x (pend_pages s) /\ ~ In x (g_pages s)) \/
    (~ In x (g_free s) /\ ~ In x (pend_pages s) /\ In x (g_pages s)).
Proof. exact partition_at_rest. Qed.
Print Assumptions C07_partition_at_rest.

Theorem C07_nothing_listed_beyond_mark : forall s, Inv s -> forall x,
  In x (g_free s) \/ In x (pend_pages s) \/ In x (g_pages s) -> 2 <= x < g_mark s.
Proof. exact listed_below_mark. Qed.
Print Assumptions C07_nothing_listed_beyond_mark.

Theorem C07_invariant_reachable : forall ls s s', Inv s -> prun s ls = Some s' -> Inv s'.
Proof. exact inv_run. Qed.
Print Assumptions C07_invariant_reachable.

(** what the independent decoder calls "keys in order" ([v_order], evaluated on every committed image) means that the
    decoded content is a sorted association list at every nesting level - a well-formed state of the reference map *)
Theorem C07_decoder_order_means_sorted : forall rd ps fuel m v,
  dec_with_meta rd ps fuel m = Some v -> v_order v = true ->
  keys_sorted (snd (v_root v)) = true /\ all_sorted fuel (snd (v_root v)) = true.
Proof. exact dec_with_meta_sorted. Qed.
Print Assumptions C07_decoder_order_means_sorted.

(** ---- the tree layer discharges Pager's guard tree_ok (Tree.v predicts every real Free/Allocate of generated commits exactly) ---- *)
Module TreeLayer.
Import Node Tree TreeProofs.

(** for every visit order: the page runs of the old tree are exactly the runs the commit frees plus the runs the new tree keeps (as multisets):
    nothing leaks, nothing freed is kept *)
Theorem C07_commit_frees_exactly_what_it_drops : forall ps fill fuel t order t' evs,
  aligned t -> commit_tree ps fill fuel t order = Ok (t', evs) -> Permutation (runs t) (freed evs ++ runs t').
Proof. exact commit_tree_runs. Qed.
Print Assumptions C07_commit_frees_exactly_what_it_drops.

(** only pages of the tree are freed, none twice; the pages the new tree keeps are the old ones minus the freed ones *)
Theorem C07_commit_no_double_free_no_foreign_free : forall ps fill fuel t order t' evs,
  aligned t -> NoDup (ids t) -> commit_tree ps fill fuel t order = Ok (t', evs) ->
  (forall p ov, In (EvFree p ov) evs -> In (p, ov) (runs t)) /\
  NoDup (map fst (freed evs)) /\
  NoDup (ids t') /\
  (forall x, In x (ids t') <-> In x (ids t) /\ ~ In x (map fst (freed evs))).
Proof. exact commit_tree_frees. Qed.
Print Assumptions C07_commit_no_double_free_no_foreign_free.

(** every new page is allocated exactly once, with exactly the run length it occupies *)
Theorem C07_commit_allocates_each_new_page_once : forall ps fill fuel t order t' evs,
  0 < ps -> aligned t -> closed true t -> commit_tree ps fill fuel t order = Ok (t', evs) -> Permutation (allocs evs) (zeros t').
Proof. exact commit_tree_allocs. Qed.
Print Assumptions C07_commit_allocates_each_new_page_once.

(** the same with the inline decision: a bucket written inline frees every page it occupied, exactly once *)
Theorem C07_bucket_commit_frees_exactly_what_it_drops : forall ps fill fuel t order t' evs inl,
  (0 < fuel)%nat -> aligned t -> commit_bucket ps fill fuel t order = Ok (t', evs, inl) -> Permutation (runs t) (freed evs ++ runs t').
Proof. exact commit_bucket_runs. Qed.
Print Assumptions C07_bucket_commit_frees_exactly_what_it_drops.

Theorem C07_bucket_commit_no_double_free : forall ps fill fuel t order t' evs inl,
  (0 < fuel)%nat -> aligned t -> NoDup (ids t) -> commit_bucket ps fill fuel t order = Ok (t', evs, inl) ->
  (forall p ov, In (EvFree p ov) evs -> In (p, ov) (runs t)) /\
  NoDup (map fst (freed evs)) /\
  NoDup (ids t') /\
  (forall x, In x (ids t') <-> In x (ids t) /\ ~ In x (map fst (freed evs))).
Proof. exact commit_bucket_frees. Qed.
Print Assumptions C07_bucket_commit_no_double_free.

(** and for a bucket with child buckets (write-back of the children's values, then inline-or-spill) *)
Import TreeNestedProofs.
Theorem C07_nested_commit_frees_exactly_what_it_drops : forall ps fill fuel t order children t' evs inl,
  (0 < fuel)%nat -> aligned t -> commit_parent_bucket ps fill fuel t order children = Ok (t', evs, inl) ->
  Permutation (runs t) (freed evs ++ runs t').
Proof. exact commit_parent_bucket_runs. Qed.
Print Assumptions C07_nested_commit_frees_exactly_what_it_drops.

(** ---- the two layers compose: every Free the tree layer issues during a commit passes the guard of the page-level transaction system
    (Pager.pstep's LFree: "a page of the base version, not freed before" - the guard DESIGN calls tree_ok, until now only monitored on the
    real freelist events), for every visit order; and every page the new tree keeps from the old one is a page of the version LCommit publishes ---- *)
Import TreePagerProofs.
Theorem C07_tree_frees_pass_the_pager_guard : forall ps fill fuel t order t' evs inl s w,
  (0 < fuel)%nat -> aligned t -> NoDup (run_ids t) -> (forall p, In p (run_ids t) -> In p (g_pages s)) ->
  g_w s = Some w -> (forall p, In p (run_ids t) -> ~ In p (w_freed w)) ->
  commit_bucket ps fill fuel t order = Ok (t', evs, inl) -> frees_accepted t t' evs s w.
Proof. exact commit_bucket_frees_accepted. Qed.
Print Assumptions C07_tree_frees_pass_the_pager_guard.

Theorem C07_nested_tree_frees_pass_the_pager_guard : forall ps fill fuel t order children t' evs inl s w,
  (0 < fuel)%nat -> aligned t -> NoDup (run_ids t) -> (forall p, In p (run_ids t) -> In p (g_pages s)) ->
  g_w s = Some w -> (forall p, In p (run_ids t) -> ~ In p (w_freed w)) ->
  commit_parent_bucket ps fill fuel t order children = Ok (t', evs, inl) -> frees_accepted t t' evs s w.
Proof. exact commit_parent_bucket_frees_accepted. Qed.
Print Assumptions C07_nested_tree_frees_pass_the_pager_guard.
End TreeLayer.
