(** C07 - every page is accounted for exactly once after every commit.
    [Layout.accounted] is the decision procedure the harness evaluates on the independent decoder's view of every
    file image; this file proves that a "yes" of that procedure is the declarative partition. *)
From Bbolt Require Import Base Consts Spec Fnv Layout LayoutProofs.

Theorem C07_accounting_decision_sound : forall v free,
  accounted v free = true ->
  let all := page_ids (v_pages v) ++ v_flpage v ++ free in
  NoDup all /\ (forall id, In id all <-> 2 <= id < m_mark (v_meta v) \/ False).
Proof. exact accounted_sound. Qed.
Print Assumptions C07_accounting_decision_sound.
