(** C12 - the on-disk format stays the published version-2 format.
    Layout.v is the independent reader (it contains only the published layout); LayoutEnc.v states what a
    conforming writer produces.  The harness decodes every file the implementation writes with the extracted
    reader and compares with the API's report. *)
From Bbolt Require Import Base Consts Spec Fnv Layout LayoutEnc LayoutProofs LayoutPageProofs Node NodeProofs.
From Bbolt Require LayoutBucketProofs.

(** little-endian integers of any width round-trip at any file position *)
Theorem C12_integer_roundtrip : forall n v pre post, v < 256 ^ N.of_nat n ->
  le (rd_of (pre ++ enc_le n v ++ post)) n (N.of_nat (length pre)) = v.
Proof. exact le_enc_le. Qed.
Print Assumptions C12_integer_roundtrip.

(** a meta structure written per the published layout reads back field by field, with the writer's checksum *)
Theorem C12_meta_roundtrip : forall m pre post, meta_fields_ok m ->
  rd_meta_at (rd_of (pre ++ enc_meta m ++ post)) (N.of_nat (length pre)) = with_sum m.
Proof. exact meta_roundtrip. Qed.
Print Assumptions C12_meta_roundtrip.

(** ... and passes the reader's validation (magic, version, FNV-1a-64 over the first 56 bytes) *)
Theorem C12_written_meta_validates : forall m pre post, meta_fields_ok m ->
  m_magic m = magic -> m_version m = version ->
  validate_at (rd_of (pre ++ enc_meta m ++ post)) (N.of_nat (length pre)) = MOk.
Proof. exact meta_written_validates. Qed.
Print Assumptions C12_written_meta_validates.

Example C12_nonvacuous :
  let m := {| m_magic := magic; m_version := version; m_pagesize := 4096; m_flags := 0; m_root := 3; m_seq := 0;
              m_fl := 2; m_mark := 4; m_txid := 1; m_sum := 0 |} in
  validate_at (rd_of (List.repeat 0 16 ++ enc_meta m)) 16 = MOk.
Proof. vm_compute. reflexivity. Qed.

(** a free-list page written per the published layout - header, then the ids; with 65535 or more ids the count field is
    0xFFFF and the real count is the first u64 - reads back exactly, at any page position, for every length (both encodings) *)
Theorem C12_freelist_page_roundtrip : forall ps pg ov ids pre post,
  N.of_nat (length pre) = pg * ps -> (forall x, In x ids -> x < 2^64) -> N.of_nat (length ids) < 2^64 ->
  freelist_ids (rd_of (pre ++ enc_freelist_page pg ov ids ++ post)) ps pg = ids.
Proof. exact freelist_page_roundtrip. Qed.
Print Assumptions C12_freelist_page_roundtrip.

(** a leaf page written per the published layout (16-byte header; 16-byte elements flags/pos/ksize/vsize with pos relative to
    the element; keys and values behind them) decodes to exactly its key/value pairs, in order and within bounds *)
Theorem C12_leaf_page_roundtrip : forall ps fuel pg kvs pre post limit,
  (1 <= fuel)%nat -> pg < 2^64 -> N.of_nat (length kvs) < 65536 ->
  N.of_nat (length (enc_leaf_page pg kvs)) < 2^32 ->
  N.of_nat (length pre) + N.of_nat (length (enc_leaf_page pg kvs)) <= limit ->
  strictly_inc (map fst kvs) = true ->
  let rd := rd_of (pre ++ enc_leaf_page pg kvs ++ post) in
  let base := N.of_nat (length pre) in
  dec_page rd ps fuel base limit false None None
  = Some {| r_ents := map (fun kv => (fst kv, Val (snd kv))) kvs;
            r_pages := [(pg, 0, leaf_page_flag)]; r_order := true; r_bounds := true |}.
Proof. exact leaf_page_roundtrip. Qed.
Print Assumptions C12_leaf_page_roundtrip.

(** branch page elements (pos/ksize/pgid) read back as the separator keys and child ids that were written *)
Theorem C12_branch_elements_roundtrip : forall pg ov kcs pre post limit,
  pg < 2^64 -> ov < 2^32 -> N.of_nat (length kcs) < 65536 ->
  (forall kc, In kc kcs -> snd kc < 2^64) ->
  N.of_nat (length (enc_branch_page pg ov kcs)) < 2^32 ->
  N.of_nat (length pre) + N.of_nat (length (enc_branch_page pg ov kcs)) <= limit ->
  let rd := rd_of (pre ++ enc_branch_page pg ov kcs ++ post) in
  let base := N.of_nat (length pre) in
  u64 rd base = pg /\ u16 rd (base + 8) = branch_page_flag /\ u16 rd (base + 10) = N.of_nat (length kcs) /\
  u32 rd (base + 12) = ov /\
  let elems := branch_elems rd base (u16 rd (base + 10)) in
  map (fun x => let '(kp, ks, child) := x in (rbytes rd (N.to_nat ks) kp, child)) elems = kcs /\
  (base + 16 + 16 * u16 rd (base + 10) <=? limit) &&
    forallb (fun x => let '(kp, ks, child) := x in kp + ks <=? limit) elems = true.
Proof. exact branch_elems_roundtrip. Qed.
Print Assumptions C12_branch_elements_roundtrip.

(** ---- what the code's own page writer produces (Node.write: line-for-line model of node.write / WriteInodeToPage) ---- *)

(** a leaf node is written as exactly the published leaf page (the writer specification that leaf_page_roundtrip above reads back
    with the independent reader) *)
Theorem C12_node_write_is_published_leaf_page : forall n pg ov, n_leaf n = true -> Forall (fun x => i_flags x = 0) (n_inodes n) ->
  forall bytes, write n pg ov = Ok bytes ->
  bytes = enc_leaf_page_ov pg ov (map (fun x => (i_key x, i_val x)) (n_inodes n)).
Proof. exact write_leaf_is_spec. Qed.
Print Assumptions C12_node_write_is_published_leaf_page.

Theorem C12_node_write_is_published_branch_page : forall n pg ov, n_leaf n = false -> Forall (fun x => i_val x = []) (n_inodes n) ->
  forall bytes, write n pg ov = Ok bytes ->
  bytes = enc_branch_page pg ov (map (fun x => (i_key x, i_pgid x)) (n_inodes n)).
Proof. exact write_branch_is_spec. Qed.
Print Assumptions C12_node_write_is_published_branch_page.

(** the page holds exactly node.size() bytes, and node.write refuses exactly: 65535 or more elements, an empty key, a branch element
    pointing at the page itself *)
Theorem C12_node_write_length : forall n pg ov bytes, write n pg ov = Ok bytes -> N.of_nat (length bytes) = size n.
Proof. exact write_length. Qed.
Print Assumptions C12_node_write_length.

(** write then read (node.read / ReadInodeFromPage, at any position in a file) gives the node back - for pages below 4 GiB ... *)
Theorem C12_node_write_read_roundtrip : forall n pg ov pre post bytes,
  node_wf n -> pg < 2^64 -> ov < 2^32 -> N.of_nat (length (n_inodes n)) < 65535 -> size n < 2^32 ->
  write n pg ov = Ok bytes ->
  read (rd_of (pre ++ bytes ++ post)) (N.of_nat (length pre)) = Ok {| n_leaf := n_leaf n; n_unbal := false; n_inodes := n_inodes n |}.
Proof. exact write_read_roundtrip. Qed.
Print Assumptions C12_node_write_read_roundtrip.

(** ... and the size bound is needed: the element header stores the distance to the key as a uint32, so a page of 4 GiB or more
    (a value of 2^32-1 bytes in front of another element) does not read back although every field is in range.  Unreachable through
    the API (MaxValueSize = 2^31-2 and MaxKeySize bound a single element below that), so not a defect. *)
Theorem C12_roundtrip_needs_the_size_bound :
  exists n pg ov bytes,
    (Forall (fun x => 0 < len (i_key x) < 2^32 /\ len (i_val x) < 2^32 /\ i_flags x < 2^32 /\ i_pgid x < 2^64) (n_inodes n) /\
     n_leaf n = true /\ Forall (fun x => i_pgid x = 0) (n_inodes n)) /\
    pg < 2^64 /\ ov < 2^32 /\ N.of_nat (length (n_inodes n)) < 65535 /\
    write n pg ov = Ok bytes /\
    read (rd_of ([] ++ bytes ++ [])) (N.of_nat (length (@nil N))) <> Ok {| n_leaf := n_leaf n; n_unbal := false; n_inodes := n_inodes n |}.
Proof. exact roundtrip_needs_size_bound. Qed.
Print Assumptions C12_roundtrip_needs_the_size_bound.

(** ---- nested buckets: the independent reader decodes what the code's writer stores for them ---- *)
Module Buckets.
Import LayoutBucketProofs.

(** a leaf written by node.write whose elements carry any even flags reads back as plain key/value pairs *)
Theorem C12_leaf_with_flags_roundtrip : forall ps f n pg ov img pre post limit inline lo hi,
  n_leaf n = true ->
  Forall (fun x => i_flags x < 2^32 /\ N.odd (i_flags x) = false) (n_inodes n) ->
  pg < 2^64 -> ov < 2^32 -> size n < 2^32 ->
  write n pg ov = Ok img ->
  N.of_nat (length pre) + size n <= limit ->
  dec_page (rd_of (pre ++ img ++ post)) ps (S f) (N.of_nat (length pre)) limit inline lo hi =
  Some {| r_ents := map (fun x => (i_key x, Val (i_val x))) (n_inodes n);
          r_pages := if inline then [] else [(pg, ov, leaf_page_flag)];
          r_order := key_order lo hi (keys_of (n_inodes n)); r_bounds := true |}.
Proof. exact leaf_flags_roundtrip. Qed.
Print Assumptions C12_leaf_with_flags_roundtrip.

(** an INLINE bucket: the value Bucket.write stores (16-byte header + the root leaf as a page with id 0) inside a leaf written by
    node.write is decoded by the independent reader to the nested bucket with its sequence and its keys, and occupies no page *)
Theorem C12_inline_bucket_roundtrip : forall ps f n pg ov img pre post limit inline lo hi l1 x l2 seq m,
  n_leaf n = true -> n_inodes n = l1 ++ [x] ++ l2 -> plain_flags l1 -> plain_flags l2 ->
  i_flags x < 2^32 -> N.odd (i_flags x) = true ->
  seq < 2^64 -> n_leaf m = true -> plain_flags (n_inodes m) -> bucket_write seq m = Ok (i_val x) ->
  pg < 2^64 -> ov < 2^32 -> size n < 2^32 -> write n pg ov = Ok img -> N.of_nat (length pre) + size n <= limit ->
  dec_page (rd_of (pre ++ img ++ post)) ps (S (S f)) (N.of_nat (length pre)) limit inline lo hi =
  Some {| r_ents := plain_ents l1 ++ [(i_key x, Sub seq (plain_ents (n_inodes m)))] ++ plain_ents l2;
          r_pages := if inline then [] else [(pg, ov, leaf_page_flag)];
          r_order := key_order lo hi (keys_of (n_inodes n)) && key_order None None (keys_of (n_inodes m));
          r_bounds := true |}.
Proof. exact inline_bucket_roundtrip. Qed.
Print Assumptions C12_inline_bucket_roundtrip.
End Buckets.
