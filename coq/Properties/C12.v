(** C12 - the on-disk format stays the published version-2 format.
    Layout.v is the independent reader (it contains only the published layout); LayoutEnc.v states what a
    conforming writer produces.  The harness decodes every file the implementation writes with the extracted
    reader and compares with the API's report. *)
From Bbolt Require Import Base Consts Spec Fnv Layout LayoutEnc LayoutProofs.

(** little-endian integers of any width round-trip at any file position *)
Theorem C12_integer_roundtrip : forall n v pre post, v < 256 ^ N.of_nat n ->
  le (rd_of (pre ++ enc_le n v ++ post)) n (N.of_nat (length pre)) = v.
Proof. exact le_enc_le. Qed.
Print Assumptions C12_integer_roundtrip.

(** a meta structure written per the published layout reads back field by field, with the writer's checksum *)
Theorem C12_meta_roundtrip : forall m pre post, meta_fields_ok m ->
  rd_meta_at (rd_of (pre ++ enc_meta m ++ post)) (N.of_nat (length pre)) = with_sum m.
Proof. exact meta_roundtrip. Qed.
Print Assumptions C12_meta_roundtrip.

(** ... and passes the reader's validation (magic, version, FNV-1a-64 over the first 56 bytes) *)
Theorem C12_written_meta_validates : forall m pre post, meta_fields_ok m ->
  m_magic m = magic -> m_version m = version ->
  validate_at (rd_of (pre ++ enc_meta m ++ post)) (N.of_nat (length pre)) = MOk.
Proof. exact meta_written_validates. Qed.
Print Assumptions C12_written_meta_validates.

Example C12_nonvacuous :
  let m := {| m_magic := magic; m_version := version; m_pagesize := 4096; m_flags := 0; m_root := 3; m_seq := 0;
              m_fl := 2; m_mark := 4; m_txid := 1; m_sum := 0 |} in
  validate_at (rd_of (List.repeat 0 16 ++ enc_meta m)) 16 = MOk.
Proof. vm_compute. reflexivity. Qed.
