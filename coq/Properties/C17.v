(** C17 - File locks and read-only mode protect the file.  Model: Lock.v (what Open/Close do with flock: exclusive
    for read-write, shared for read-only).  The read-only half of the property (no byte of the file changes, memory
    handed out is not a writable view) is about the operating system's mapping and the whole API surface: it is decided
    on the implementation's observations (S rules in the oracle), not by a theorem - see DESIGN.md. *)
From Bbolt Require Import Base Lock LockProofs.

(** For every order of read-write and read-only open and close attempts (finite timeouts): whenever a read-write open
    is live it is the only live open. *)
Theorem C17_rw_open_is_alone : forall os held, exclusive_ok held -> exclusive_ok (fst (lrun held os)).
Proof. exact lrun_exclusive. Qed.
Print Assumptions C17_rw_open_is_alone.

(** a read-write open succeeds only when nobody holds the file *)
Theorem C17_open_rw_needs_nobody : forall held id, snd (lstep held (LOpen id RW)) = LOk -> held = [].
Proof. exact open_rw_needs_nobody. Qed.
Print Assumptions C17_open_rw_needs_nobody.

(** a read-only open succeeds only when no read-write open is live (any number of read-only ones may be) *)
Theorem C17_open_ro_needs_no_writer : forall held id, snd (lstep held (LOpen id RO)) = LOk -> forall w, ~ In (w, RW) held.
Proof. exact open_ro_needs_no_writer. Qed.
Print Assumptions C17_open_ro_needs_no_writer.

(** closing releases the lock *)
Theorem C17_close_releases : forall held id m, ~ In (id, m) (fst (lstep held (LClose id))).
Proof. exact close_releases. Qed.
Print Assumptions C17_close_releases.

Example C17_nonvacuous :
  snd (lrun [] [LOpen 1 RO; LOpen 2 RO; LOpen 3 RW; LClose 1; LClose 2; LOpen 3 RW; LOpen 1 RO; LClose 3; LOpen 1 RO])
  = [LOk; LOk; LTimeout; LOk; LOk; LOk; LTimeout; LOk; LOk].
Proof. vm_compute. reflexivity. Qed.
