(** C13 - options change performance, never content.
    The reference model Spec.v has no option parameter at all: every API result is a function of the call history
    only, and the harness compares every option schedule with that single reference.  What options DO change is
    the page level; there the claim is: *)
From Bbolt Require Import Base Pager PagerProofs Freelist FreelistProofs.

(** a free list rebuilt by scanning the file (everything below the mark that is not reachable) equals the free +
    pending set the sync mode persists - in every reachable at-rest state *)
Theorem C13_rebuilt_equals_persisted : forall s, Inv s -> g_w s = None ->
  forall x, In x (scan_free s) <-> In x (g_free s) \/ In x (pend_pages s).
Proof. exact scan_equals_persisted. Qed.
Print Assumptions C13_rebuilt_equals_persisted.

(** reopening in either mode starts from a state satisfying the invariant (free := scan or persisted list) *)
Theorem C13_reopen_preserves_invariant : forall cur mark pages free, 2 <= mark ->
  (forall x, In x free -> 2 <= x < mark) -> (forall x, In x pages -> 2 <= x < mark) ->
  (forall x, In x free -> ~ In x pages) -> (forall x, 2 <= x < mark -> In x free \/ In x pages) ->
  Inv (pg_open cur mark pages free).
Proof. exact inv_open. Qed.
Print Assumptions C13_reopen_preserves_invariant.

(** the persisted form is backend-independent: what Write produces and Read recovers is the sorted free+pending list *)
Theorem C13_persisted_list_is_backend_independent : forall s, read_ids (write_img s) = copyall s.
Proof. exact read_write_roundtrip. Qed.
Print Assumptions C13_persisted_list_is_backend_independent.
