(** C05 - cursors enumerate keys in byte order and navigate consistently.
    Cursor.v is a line-for-line model of cursor.go (compared call by call with the real cursor on the dumped
    page/node tree); ListCursor is the specification (a sorted list with a position). *)
From Bbolt Require Import Base Spec Cursor CursorProofs CursorEnumProofs CursorNavProofs.
Open Scope N_scope.

(** The full statement - every call sequence on every well-formed tree returns what the sorted list returns - *)
Definition C05_full : Prop :=
  forall t cs, wf t = true -> api_run true (fuel_for t) t [] cs = Ok (list_run (flatten t) Unset cs).

(** - is false of the faithful model, and of the code (known finding D9): after Next has run off the upper end
    past a trailing leaf emptied in the same transaction, Prev returns the last key again. *)
Theorem C05_next_off_end_refuted : ~ C05_full.
Proof. exact cursor_refines_list_refuted. Qed.
Print Assumptions C05_next_off_end_refuted.

(** The two defects repaired in /repo (D1, D2) are visible in the model of the pinned code and absent from the
    model of the repaired code: Prev no longer stops at an emptied leaf; Last terminates on an all-empty tree. *)
Theorem C05_prev_skips_emptied_leaf :
  api_run false 64 t_middle_empty [] [CLast; CPrev] = Ok [(Some [51; 48], Some []); (None, None)] /\
  api_run true 64 t_middle_empty [] [CLast; CPrev] = Ok [(Some [51; 48], Some []); (Some k11, Some [])].
Proof. exact pinned_prev_stops_early. Qed.
Print Assumptions C05_prev_skips_emptied_leaf.

Theorem C05_last_terminates_on_all_empty :
  api_run false 1000 t_all_empty [] [CLast] = OutOfFuel /\
  api_run true (fuel_for t_all_empty) t_all_empty [] [CLast] = Ok [(None, None)].
Proof. exact pinned_last_diverges. Qed.
Print Assumptions C05_last_terminates_on_all_empty.

(** The specification the implementation is compared with does what the property says: First then Next visits
    every key exactly once in order and then yields nil. *)
Theorem C05_spec_first_next_enumerates : forall l, l <> [] ->
  list_run l Unset (CFirst :: repeat CNext (length l)) = map (fun e => show (Some e)) l ++ [(None, None)].
Proof. exact list_first_next_enumerates. Qed.
Print Assumptions C05_spec_first_next_enumerates.

(** On every well-formed tree without emptied leaves - every committed tree, every tree seen by a read transaction - the
    cursor model (the line-for-line model of cursor.go) enumerates: First then Next visits every element exactly once in
    byte order and then yields nil, i.e. it agrees with the sorted-list specification on these call sequences. *)
Theorem C05_first_next_enumerates : forall t, wf t = true -> has_empty_leaf t = false -> flatten t <> [] ->
  api_run true (fuel_for t) t [] (CFirst :: repeat CNext (length (flatten t))) =
  Ok (map (fun e => show (Some e)) (flatten t) ++ [(None, None)]).
Proof. exact first_next_enumerates_wf. Qed.
Print Assumptions C05_first_next_enumerates.

Theorem C05_first_next_refines_list : forall t cs, wf t = true -> has_empty_leaf t = false -> flatten t <> [] ->
  cs = CFirst :: repeat CNext (length (flatten t)) ->
  api_run true (fuel_for t) t [] cs = Ok (list_run (flatten t) Unset cs).
Proof. exact first_next_refines_list. Qed.
Print Assumptions C05_first_next_refines_list.

(** The refinement itself, for EVERY call sequence (First, Last, Next, Prev, Seek in any order, including calls on an
    unpositioned cursor and navigation past either end), on every well-formed tree without emptied leaves: the
    line-for-line model of cursor.go returns exactly what the sorted-list cursor returns.  Together with the refutation
    above this locates the property's failures exactly: only write transactions that emptied a leaf (D9; D1/D2 before
    their repair). *)
Theorem C05_cursor_refines_list_without_emptied_leaves : forall t cs,
  wf t = true -> has_empty_leaf t = false -> flatten t <> [] ->
  api_run true (fuel_for t) t [] cs = Ok (list_run (flatten t) Unset cs).
Proof. exact nav_refines_list. Qed.
Print Assumptions C05_cursor_refines_list_without_emptied_leaves.

(** Seek returns the first element whose key is >= the sought key in byte order, or nil past the end *)
Theorem C05_seek_meaning : forall t k, wf t = true -> has_empty_leaf t = false -> flatten t <> [] ->
  let l := flatten t in let j := first_ge k (keys l) in
  api_run true (fuel_for t) t [] [CSeek k] = Ok [show (nth_error l j)] /\ (j <= length l)%nat /\
  (forall i e, (i < j)%nat -> nth_error l i = Some e -> blt (key e) k = true) /\
  (forall e, nth_error l j = Some e -> blt (key e) k = false).
Proof. exact seek_meaning. Qed.
Print Assumptions C05_seek_meaning.

(** keys come out strictly increasing: no key twice, none skipped (with the enumeration theorems above) *)
Theorem C05_keys_strictly_increasing : forall t, wf t = true -> has_empty_leaf t = false -> flatten t <> [] ->
  str_inc (keys (flatten t)) = true.
Proof. exact flatten_strictly_increasing. Qed.
Print Assumptions C05_keys_strictly_increasing.

Theorem C05_last_prev_enumerates : forall t, wf t = true -> has_empty_leaf t = false -> flatten t <> [] ->
  api_run true (fuel_for t) t [] (CLast :: repeat CPrev (length (flatten t))) =
  Ok (map (fun e => show (Some e)) (rev (flatten t)) ++ [(None, None)]).
Proof. exact last_prev_enumerates. Qed.
Print Assumptions C05_last_prev_enumerates.

(** ---- the hypothesis of the refinement theorems above, "a committed tree has no emptied leaf", is no longer only monitored:
    it is a theorem about Tree.v, the model of what Tx.Commit does to a bucket's tree (node.rebalance + node.spill), which is
    compared with the real commit on every generated case (tree before, visit order, tree after) ---- *)
From Bbolt Require Node NodeProofs Tree TreeProofs TreeNestedProofs TreeCursorProofs TreeOrderProofs.
Module CommittedTrees.
Import Node Tree TreeProofs.

(** if every emptied non-root node is materialised, marked unbalanced (node.del does that) and visited by Bucket.rebalance (its map
    iteration visits every materialised node), then after the commit - for every visit order, page size and fill percentage - no vertex
    other than the root is empty and every branch has as many children as elements; so read transactions, which only ever see
    committed trees, are within the domain of the refinement theorems *)
Theorem C05_no_emptied_page_survives_a_commit : forall ps fill fuel t order t' evs d,
  wf d t -> (d < fuel)%nat -> closed false t -> NoDup (ids t) -> good order t ->
  commit_tree ps fill fuel t order = Ok (t', evs) ->
  exists d', wf d' t' /\ forall f, (d' < f)%nat -> no_empty f true t' = true.
Proof. exact commit_tree_no_empty_b. Qed.
Print Assumptions C05_no_emptied_page_survives_a_commit.

(** ... and in the cursor model's own terms: translated to the tree type the cursor theorems speak about (Cursor.tree), the committed tree has
    no emptied leaf - exactly the hypothesis of the refinement theorems above - and flattens to the same list as before the commit *)
Import TreeCursorProofs.
Theorem C05_committed_tree_meets_the_cursor_hypothesis : forall ps fill fuel t order t' evs d,
  wf d t -> (d < fuel)%nat -> closed false t -> NoDup (ids t) -> good order t ->
  commit_tree ps fill fuel t order = Ok (t', evs) -> Cursor.has_empty_leaf (to_ctree t') = false.
Proof. exact commit_tree_no_empty_leaf. Qed.
Print Assumptions C05_committed_tree_meets_the_cursor_hypothesis.

Theorem C05_commit_keeps_the_enumeration : forall ps fill fuel t order t' evs,
  aligned t -> commit_tree ps fill fuel t order = Ok (t', evs) -> Cursor.flatten (to_ctree t') = Cursor.flatten (to_ctree t).
Proof. exact commit_tree_cursor_flatten. Qed.
Print Assumptions C05_commit_keeps_the_enumeration.

(** The OTHER hypothesis of the refinement theorems, key order (Cursor.wf), is only partly carried over to the commit model: an order
    invariant [ob] on Tree.nt implies Cursor.wf of the translated tree (below), but that the commit PRESERVES such an invariant is not proved -
    TreeOrderProofs.wf_broken_between_rebalance_and_spill shows Cursor.wf does not even hold between rebalance and spill (spill restores it
    by re-keying the rewritten children), and w3_needs_stale_first_children_materialised shows the statement needs the extra hypothesis that a
    first child holding keys below its (stale) separator is materialised - true of bbolt, where only node.put creates such keys.  Key order of
    every committed tree therefore stays a MONITORED hypothesis (the decoder's order verdict on every committed image, C07) - labelled partial. *)
Import NodeProofs TreeNestedProofs TreeOrderProofs.
Theorem C05_ordered_tree_is_cursor_wf_partial : forall t, aligned t -> (ob None None t <-> Cursor.wf (to_ctree t) = true).
Proof. exact ob_iff_cursor_wf. Qed.
Print Assumptions C05_ordered_tree_is_cursor_wf_partial.

(** what is left is ONE property of the committed tree: no stale separator ([ff]: every separator is a lower bound of its child's keys and
    an upper bound of the previous child's).  Given it, the facts already proved about the commit (content kept and sorted: P1, no empty vertex: P4)
    make the committed tree meet Cursor.wf - so the missing lemma is exactly "spill re-keys every rewritten child and unmaterialised children are fresh" *)
Theorem C05_fresh_separators_suffice_partial : forall t, aligned t -> isorted (flat t) -> ff t -> ins_of t <> [] -> good [] t ->
  Cursor.wf (to_ctree t) = true.
Proof. exact ff_cursor_wf. Qed.
Print Assumptions C05_fresh_separators_suffice_partial.

(** end to end, with the one open obligation explicit: the committed tree meets Cursor.wf if it has no stale separator ... *)
Theorem C05_committed_tree_is_cursor_wf_if_no_stale_separator_partial : forall ps fill fuel t order t' evs d,
  wf d t -> (d < fuel)%nat -> closed false t -> NoDup (ids t) -> good order t ->
  isorted (flat t) -> flat t <> [] ->
  commit_tree ps fill fuel t order = Ok (t', evs) -> ff t' -> Cursor.wf (to_ctree t') = true.
Proof. exact commit_tree_cursor_wf_if_ff. Qed.
Print Assumptions C05_committed_tree_is_cursor_wf_if_no_stale_separator_partial.

(** ... and unconditionally when the committed root is a leaf (how small buckets end up) *)
Theorem C05_committed_leaf_root_is_cursor_wf : forall ps fill fuel t order t' evs,
  aligned t -> isorted (flat t) -> commit_tree ps fill fuel t order = Ok (t', evs) ->
  h_leaf (hd_of t') = true -> Cursor.wf (to_ctree t') = true.
Proof. exact commit_tree_cursor_wf_leaf. Qed.
Print Assumptions C05_committed_leaf_root_is_cursor_wf.
End CommittedTrees.
