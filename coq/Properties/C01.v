(** C01 - commits are atomic and durable across a crash at any point.
    Model: Crash.v - the commit protocol of Tx.Commit as I/O events (data pages, fdatasync, meta page into slot
    txid mod 2, fdatasync) over a durable image; a crash after ANY number of events with ANY fate (persisted /
    lost / torn) of every write issued since the last completed sync; recovery = the valid meta with the highest txid. *)
From Bbolt Require Import Base Crash CrashProofs Pager PagerProofs.

(** Recovery finds either the previous committed state - every page outside the set the commit wrote is untouched -
    or the new state with every page the commit wrote completely durable.  Never a mixture, for every crash point
    [k] and every fate assignment [ss] (including torn data pages and a torn meta page). *)
Theorem C01_crash_atomic : forall d t A k ss, at_rest d t ->
  outcome d (crash d (commit_events (t + 1) A) k ss) t (t + 1) A.
Proof. exact crash_atomic. Qed.
Print Assumptions C01_crash_atomic.

(** The in-flight state is recovered if and only if its meta page write was completely persisted (either the crash
    came after the final sync, or the un-synced meta write happened to reach the disk in full). *)
Theorem C01_new_state_iff_meta_persisted : forall d t A k ss, at_rest d t ->
  (recover (crash d (commit_events (t + 1) A) k ss) = Some (t + 1) <->
   (k = (length A + 2)%nat /\ hd Skip ss = Full) \/ (length A + 3 <= k)%nat).
Proof. exact crash_new_iff_meta_persisted. Qed.
Print Assumptions C01_new_state_iff_meta_persisted.

(** A completed commit leaves the image at rest at the new txid: the two theorems above apply to the next commit,
    hence to every history by induction. *)
Theorem C01_commit_reestablishes_rest : forall d t A, at_rest d t ->
  at_rest (fst (run_ev d [] (commit_events (t + 1) A))) (t + 1).
Proof. exact commit_reestablishes_rest. Qed.
Print Assumptions C01_commit_reestablishes_rest.

(** The pages a commit writes are never pages of the previous committed version (Pager invariant): so "every page
    outside the written set is untouched" covers the whole previous version. *)
Theorem C01_written_pages_not_in_previous_version : forall s, Inv s ->
  forall p, In p (commit_writes s) -> ~ In p (g_pages s).
Proof. intros s I p Hp. exact (proj1 (writes_only_invisible s I p Hp)). Qed.
Print Assumptions C01_written_pages_not_in_previous_version.

Example C01_nonvacuous :
  let d := {| i_pages := [(2, Some 1); (3, Some 1)]; i_m0 := Some 0; i_m1 := Some 1 |} in
  at_rest d 1 /\
  recover (crash d (commit_events 2 [4; 5]) 4 [Torn]) = Some 1 /\
  recover (crash d (commit_events 2 [4; 5]) 4 [Full]) = Some 2 /\
  page_content (crash d (commit_events 2 [4; 5]) 1 [Torn]) 4 = Some None /\
  page_content (crash d (commit_events 2 [4; 5]) 1 [Torn]) 3 = Some (Some 1).
Proof. vm_compute. repeat split. intros x H; inversion H; reflexivity. Qed.
