(** C15 - compaction preserves content.  Model: Compact.v (walk + replay on the reference map Spec.v); the
    transaction-size limit only decides where intermediate commits happen, and a commit leaves Spec content
    unchanged, so the model has no limit parameter: what it proves holds for every limit. *)
From Bbolt Require Import Base Consts Spec SpecProofs Compact CompactProofs CompactNestedProofs.

(** copying the entries of a bucket in the order the walk yields them (ascending) rebuilds exactly that bucket *)
Theorem C15_copy_in_order_rebuilds : forall ents prefix, keys_sorted (prefix ++ ents) = true ->
  fold_left (fun acc ke => insert (fst ke) (snd ke) acc) ents prefix = prefix ++ ents.
Proof. exact copy_in_order_rebuilds. Qed.
Print Assumptions C15_copy_in_order_rebuilds.

(** the destination never re-orders or replaces: inserting a key larger than everything present appends it *)
Theorem C15_insert_larger_key_appends : forall p k e, keys_sorted (p ++ [(k, e)]) = true -> insert k e p = p ++ [(k, e)].
Proof. exact insert_last. Qed.
Print Assumptions C15_insert_larger_key_appends.

(** The full statement, for arbitrarily nested sources: every bucket, key, value and nested sequence of a well-formed source
    (what the API can produce: [wf_ents]) is reproduced exactly; the destination's root sequence stays 0 (Compact does not
    copy the root's own sequence).  [seqs_ok]: nested sequences are below 2^64 - always true of the Go uint64 field; the
    reference map's numbers are unbounded, and without the bound the statement is false ([compact_rebuilds_iff]). *)
Theorem C15_compact_rebuilds : forall fuel src,
  wf_ents fuel (snd src) = true -> seqs_ok fuel (snd src) = true -> compact fuel src = (ENone, (0, snd src)).
Proof. exact compact_rebuilds. Qed.
Print Assumptions C15_compact_rebuilds.

Theorem C15_sequence_bound_is_exactly_what_is_needed : forall fuel src, wf_ents fuel (snd src) = true ->
  (compact fuel src = (ENone, (0, snd src)) <-> seqs_ok fuel (snd src) = true).
Proof. exact compact_rebuilds_iff. Qed.
Print Assumptions C15_sequence_bound_is_exactly_what_is_needed.

Theorem C15_nested_example :
  let src : bucket := (0, [([97], Sub 7 [([107; 49], Val []); ([110], Sub 2 [([120], Val [1; 2; 3])]); ([122], Val [9])]);
                           ([98], Sub 0 [])]) in
  wf_ents 8 (snd src) = true /\ compact 8 src = (ENone, src).
Proof. exact compact_nested_example. Qed.
Print Assumptions C15_nested_example.
