(** C02 - a read transaction sees one immutable snapshot for its whole life.
    Page level (Pager.v): the pages of the version a reader views are never written and never handed out again
    while it is open, whatever the writers do.  API level (Spec.v): a call through a read transaction changes nothing. *)
From Bbolt Require Import Base Pager PagerProofs Spec SpecProofs.

Theorem C02_reader_pages_never_written : forall s, Inv s ->
  forall p, In p (commit_writes s) ->
    forall r P, In r (g_readers s) -> In (r, P) (g_hist s) -> ~ In p P.
Proof. intros s I p Hp. exact (proj2 (writes_only_invisible s I p Hp)). Qed.
Print Assumptions C02_reader_pages_never_written.

Theorem C02_reader_pages_never_reusable : forall s, Inv s ->
  forall r P x, In r (g_readers s) -> In (r, P) (g_hist s) -> In x P -> ~ In x (g_free s).
Proof. exact reader_pages_not_free. Qed.
Print Assumptions C02_reader_pages_never_reusable.

(** this holds in every state reachable by any sequence of reader begins/ends, writer begins, frees, allocations,
    commits and rollbacks *)
Theorem C02_holds_in_every_reachable_state : forall ls s s', Inv s -> prun s ls = Some s' -> Inv s'.
Proof. exact inv_run. Qed.
Print Assumptions C02_holds_in_every_reachable_state.

Theorem C02_read_calls_change_nothing : forall o root e out root',
  exec false o root = (e, out, root') -> root' = root.
Proof. exact exec_readonly_tx_unchanged. Qed.
Print Assumptions C02_read_calls_change_nothing.
