(** C19 - the integrity check finds structural corruption and only that.
    The reference verdict the harness compares Tx.Check and the command-line tool with is computed by the independent
    decoder: decodable (page types), key order (v_order) and page accounting (Layout.accounted).  This file proves
    that the accounting verdict is EXACT: it accepts precisely the files in which every id below the high-water mark
    is exactly one of reachable-once, part of the freelist page, or listed once as free. *)
From Bbolt Require Import Base Consts Spec Layout LayoutProofs LayoutOrderProofs.

(** sound: "consistent" means no page is unreachable-and-unfreed, reachable-and-free, referenced twice, or freed twice *)
Theorem C19_accounting_verdict_sound : forall v free,
  accounted v free = true ->
  let all := page_ids (v_pages v) ++ v_flpage v ++ free in
  NoDup all /\ (forall id, In id all <-> 2 <= id < m_mark (v_meta v) \/ False).
Proof. exact accounted_sound. Qed.
Print Assumptions C19_accounting_verdict_sound.

(** complete: whenever the partition holds, the verdict is "consistent" - so a "corrupt" verdict always has a cause
    of one of the listed classes *)
Theorem C19_accounting_verdict_complete : forall (v : dbview) free,
  let all := page_ids (v_pages v) ++ v_flpage v ++ free in
  NoDup all -> (forall id, In id all <-> 2 <= id < m_mark (v_meta v)) -> accounted v free = true.
Proof. exact accounted_complete. Qed.
Print Assumptions C19_accounting_verdict_complete.

(** the key-order clause: when the decoder's order verdict is "yes" (what the sweep compares Tx.Check's key-order reports
    with), the decoded content is sorted at every nesting level and every page's keys lie inside the range its parent assigns *)
Theorem C19_order_verdict_means_sorted : forall rd ps fuel base limit inline lo hi d,
  dec_page rd ps fuel base limit inline lo hi = Some d -> r_order d = true ->
  keys_sorted (r_ents d) = true /\
  (forall k e, In (k, e) (r_ents d) -> opt_le lo k = true /\ opt_lt k hi = true).
Proof. exact dec_page_sorted. Qed.
Print Assumptions C19_order_verdict_means_sorted.
