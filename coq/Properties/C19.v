(** C19 - the integrity check finds structural corruption and only that.
    The reference verdict the harness compares Tx.Check and the command-line tool with is computed by the independent
    decoder: decodable (page types), key order (v_order) and page accounting (Layout.accounted).  This file proves
    that the accounting verdict is EXACT: it accepts precisely the files in which every id below the high-water mark
    is exactly one of reachable-once, part of the freelist page, or listed once as free. *)
From Bbolt Require Import Base Consts Spec Layout LayoutProofs LayoutOrderProofs.
From Bbolt Require Check CheckProofs.

(** sound: "consistent" means no page is unreachable-and-unfreed, reachable-and-free, referenced twice, or freed twice *)
Theorem C19_accounting_verdict_sound : forall v free,
  accounted v free = true ->
  let all := page_ids (v_pages v) ++ v_flpage v ++ free in
  NoDup all /\ (forall id, In id all <-> 2 <= id < m_mark (v_meta v) \/ False).
Proof. exact accounted_sound. Qed.
Print Assumptions C19_accounting_verdict_sound.

(** complete: whenever the partition holds, the verdict is "consistent" - so a "corrupt" verdict always has a cause
    of one of the listed classes *)
Theorem C19_accounting_verdict_complete : forall (v : dbview) free,
  let all := page_ids (v_pages v) ++ v_flpage v ++ free in
  NoDup all -> (forall id, In id all <-> 2 <= id < m_mark (v_meta v)) -> accounted v free = true.
Proof. exact accounted_complete. Qed.
Print Assumptions C19_accounting_verdict_complete.

(** the key-order clause: when the decoder's order verdict is "yes" (what the sweep compares Tx.Check's key-order reports
    with), the decoded content is sorted at every nesting level and every page's keys lie inside the range its parent assigns *)
Theorem C19_order_verdict_means_sorted : forall rd ps fuel base limit inline lo hi d,
  dec_page rd ps fuel base limit inline lo hi = Some d -> r_order d = true ->
  keys_sorted (r_ents d) = true /\
  (forall k e, In (k, e) (r_ents d) -> opt_le lo k = true /\ opt_lt k hi = true).
Proof. exact dec_page_sorted. Qed.
Print Assumptions C19_order_verdict_means_sorted.

Module CheckModel.
Import Check CheckProofs.

(** ---- Check.v: the line-for-line model of Tx.check itself (compared with the real Tx.Check on every swept file) ---- *)

(** freed twice: an "already freed" report for an id exactly when it occurs again in the free list; none iff the list has no duplicate *)
Theorem C19_freed_twice_reported : forall l, dup_errs [] l = [] <-> NoDup l.
Proof. exact dup_errs_nodup. Qed.
Print Assumptions C19_freed_twice_reported.

(** unreachable yet not free: the final sweep reports exactly the ids below the mark that the walk did not reach and the free list does not hold *)
Theorem C19_unreachable_unfreed_reported : forall rd ps freed hwm fuel flrun root errs,
  check rd ps freed hwm fuel flrun root = Some errs ->
  exists reach e, check_bucket rd ps freed hwm fuel root (seed freed hwm flrun) = Some (reach, e) /\
    forall i, In (EUnreachUnfreed i) errs <-> i < hwm /\ ~ In i reach /\ ~ In i freed.
Proof. exact check_sweep_complete. Qed.
Print Assumptions C19_unreachable_unfreed_reported.

(** reachable yet free, for the pages the meta points at directly: a meta page or a page of the free list's own run that is listed as
    free is reported.  The pinned code did not test this (defect D14, found while attempting the partition theorem below: the
    statement needed "the seed is disjoint from the free ids" as a hypothesis; repaired by a fix: commit, and the model mirrors the repair). *)
Theorem C19_meta_and_freelist_pages_listed_free_reported : forall rd ps freed hwm fuel flrun root errs,
  check rd ps freed hwm fuel flrun root = Some errs ->
  forall id, id < hwm -> In id (flrun ++ [0; 1]) -> In id freed -> In (EReachFreed id) errs.
Proof. exact check_seed_free_reported. Qed.
Print Assumptions C19_meta_and_freelist_pages_listed_free_reported.

(** one page of the walk: no report iff its stored id is within bounds, no id of its run was reached before (referenced twice),
    no id of its run is free (reachable yet free - every id of an overflow run, D8), and it is a branch or leaf page (invalid type) *)
Theorem C19_page_classes_exact : forall rd ps freed hwm pg s,
  snd (verify_reachable rd ps freed hwm pg s) = snd s <-> page_ok rd ps freed hwm pg (fst s).
Proof. exact verify_reachable_silent_iff. Qed.
Print Assumptions C19_page_classes_exact.

(** keys out of order: a leaf page draws no key-order report iff its keys are strictly increasing, not below the parent's separator and below the next one *)
Theorem C19_leaf_key_order_exact : forall rd ps f pg mino maxo errs last,
  is_leaf rd ps pg = true -> key_order rd ps (S f) pg mino maxo = Some (errs, last) ->
  (errs = [] <->
   strictly_inc (leaf_keys rd ps pg) = true /\
   match leaf_keys rd ps pg with k0 :: _ => opt_le mino k0 = true | [] => True end /\
   Forall (fun k => opt_lt k maxo = true) (leaf_keys rd ps pg)).
Proof. exact key_order_leaf_clean. Qed.
Print Assumptions C19_leaf_key_order_exact.

(** a clean verdict of Tx.check IS the partition of C07 (for arbitrary file content): the free ids are pairwise distinct, no reached id
    is reached twice, none is free, and every id below the mark is reached or free - provided the meta pages and the freelist run lie
    below the mark (what the walk cannot see is exhibited in CheckProofs.v: clean_with_freelist_run_past_mark, clean_with_free_id_past_mark,
    clean_with_run_past_mark) *)
Theorem C19_clean_verdict_means_partition : forall rd ps freed hwm fuel flrun root,
  check rd ps freed hwm fuel flrun root = Some [] -> NoDup (flrun ++ [0; 1]) ->
  (forall id, In id (flrun ++ [0; 1]) -> id < hwm) ->
  NoDup freed /\
  exists reach, NoDup reach /\ (forall id, In id reach -> ~ In id freed) /\ (forall i, i < hwm -> In i reach \/ In i freed).
Proof. exact check_clean_partition. Qed.
Print Assumptions C19_clean_verdict_means_partition.

End CheckModel.
