(** C09 - the free-page allocator obeys its specification (both backends).
    Property theorems only; each is closed by [exact] of a lemma of FreelistProofs.v. *)
From Bbolt Require Import Base Freelist FreelistProofs FreelistAllocProofs FreelistHmProofs FreelistReleaseProofs FreelistRollbackProofs.
From Coq Require Import Sorting.Sorted.
From Coq Require Import Sorting.Permutation.

(** Freeing never makes a page directly reusable: the free list is untouched ... *)
Theorem C09_free_leaves_free_list : forall txid id ov s s',
  free_page txid id ov s = Ok s' -> free s' = free s /\ readers s' = readers s.
Proof. exact free_page_free_unchanged. Qed.
Print Assumptions C09_free_leaves_free_list.

(** ... and exactly the page and its overflow become pending. *)
Theorem C09_free_goes_pending : forall txid id ov s s',
  keys_unique (pending s) -> free_page txid id ov s = Ok s' ->
  Permutation (pending_ids (pending s')) (pending_ids (pending s) ++ run id (ov + 1)).
Proof. exact free_page_pending. Qed.
Print Assumptions C09_free_goes_pending.

(** Pages 0/1 and pages already free or pending are refused (the code panics), and only those. *)
Theorem C09_free_guard : forall txid id ov s,
  (id <= 1 \/ exists x, In x (run id (ov + 1)) /\ In x (cache s)) <-> free_page txid id ov s = Panic.
Proof. exact free_page_guard. Qed.
Print Assumptions C09_free_guard.

(** Serialising and re-reading preserves the set of free and pending pages, for every length
    (also beyond 65534 entries: [count s] is an arbitrary N). *)
Theorem C09_serialise_roundtrip : forall s, read_ids (write_img s) = copyall s.
Proof. exact read_write_roundtrip. Qed.
Print Assumptions C09_serialise_roundtrip.

Theorem C09_serialise_set : forall s x,
  In x (read_ids (write_img s)) <-> In x (free s) \/ In x (pending_ids (pending s)).
Proof. exact read_write_set. Qed.
Print Assumptions C09_serialise_set.

Theorem C09_estimate_sufficient : forall s,
  16 + 8 * N.of_nat (length (snd (write_img s))) <= estimated_write_size s.
Proof. exact estimate_sufficient. Qed.
Print Assumptions C09_estimate_sufficient.

(** * Allocation (array backend: array.go Allocate).  On a sorted free list of ids >= 2: *)

(** Allocate(n) returns the first id of n consecutive pages that were all free and are free no longer ... *)
Theorem C09_array_allocate_sound : forall txid n s p s',
  sortedb (free s) = true -> Forall (fun x => 2 <= x) (free s) -> 0 < n ->
  allocate_array txid n s = Ok (p, s') -> p <> 0 ->
  2 <= p /\ (forall x, In x (run p n) -> In x (free s)) /\ free s' = remove_ids (run p n) (free s) /\
  pending s' = pending s /\ readers s' = readers s /\ alookup p (allocs s') = Some txid.
Proof. exact allocate_array_sound. Qed.
Print Assumptions C09_array_allocate_sound.

(** ... or reports none (0) only when no such run exists, changing nothing ... *)
Theorem C09_array_allocate_complete : forall txid n s s',
  sortedb (free s) = true -> Forall (fun x => 2 <= x) (free s) -> 0 < n ->
  allocate_array txid n s = Ok (0, s') -> s' = s /\ ~ (exists q, forall x, In x (run q n) -> In x (free s)).
Proof. exact allocate_array_complete. Qed.
Print Assumptions C09_array_allocate_complete.

(** ... it takes the lowest such run, and never panics or loops (pages 0 and 1 are never handed out: 2 <= p above) *)
Theorem C09_array_allocate_lowest : forall txid n s p s',
  sortedb (free s) = true -> Forall (fun x => 2 <= x) (free s) -> 0 < n ->
  allocate_array txid n s = Ok (p, s') -> p <> 0 ->
  forall q, (forall x, In x (run q n) -> In x (free s)) -> p <= q.
Proof. exact allocate_array_lowest. Qed.
Print Assumptions C09_array_allocate_lowest.

Theorem C09_array_allocate_total : forall txid n s,
  sortedb (free s) = true -> Forall (fun x => 2 <= x) (free s) ->
  allocate_array txid n s <> Panic /\ allocate_array txid n s <> OutOfFuel.
Proof. exact allocate_array_no_panic. Qed.
Print Assumptions C09_array_allocate_total.

(** * Allocation (hash-map backend: hashmap.go Allocate; [choice] = the span Go's map iteration picked - any admissible one) *)
Theorem C09_hashmap_allocate_sound : forall txid n choice s p s',
  sortedb (free s) = true -> allocate_hm txid n choice s = Some (p, s') -> p <> 0 ->
  0 < n /\ (forall x, In x (run p n) -> In x (free s)) /\ free s' = remove_ids (run p n) (free s) /\
  pending s' = pending s /\ readers s' = readers s /\ alookup p (allocs s') = Some txid.
Proof. exact allocate_hm_sound. Qed.
Print Assumptions C09_hashmap_allocate_sound.

Theorem C09_hashmap_allocate_complete : forall txid n choice s s',
  sortedb (free s) = true -> Forall (fun x => 1 <= x) (free s) -> 0 < n ->
  allocate_hm txid n choice s = Some (0, s') -> s' = s /\ ~ (exists q, forall x, In x (run q n) -> In x (free s)).
Proof. exact allocate_hm_complete. Qed.
Print Assumptions C09_hashmap_allocate_complete.

Theorem C09_hashmap_never_hands_out_meta_pages : forall txid n choice s p s',
  sortedb (free s) = true -> Forall (fun x => 2 <= x) (free s) ->
  allocate_hm txid n choice s = Some (p, s') -> p <> 0 -> 2 <= p.
Proof. exact allocate_hm_ge2. Qed.
Print Assumptions C09_hashmap_never_hands_out_meta_pages.

(** the decision procedure evaluated on the IMPLEMENTATION's observations (oracle: alloc_ok) is sound for the declarative
    statement, for both backends: whatever the real Allocate returned, if alloc_ok accepts it the statement holds of it *)
Theorem C09_alloc_decision_sound_array : forall fb n ret fa, sortedb fb = true -> alloc_ok Array fb n ret fa = true ->
  (ret = 0 -> fa = fb /\ (0 < n -> ~ exists q, forall x, In x (run q n) -> In x fb)) /\
  (ret <> 0 -> 2 <= ret /\ 0 < n /\ (forall x, In x (run ret n) -> In x fb) /\ fa = remove_ids (run ret n) fb).
Proof. exact alloc_ok_array_sound. Qed.
Print Assumptions C09_alloc_decision_sound_array.

Theorem C09_alloc_decision_sound_hashmap : forall fb n ret fa, sortedb fb = true -> alloc_ok Hashmap fb n ret fa = true ->
  (ret = 0 -> fa = fb /\ (0 < n -> ~ exists q, forall x, In x (run q n) -> In x fb)) /\
  (ret <> 0 -> 2 <= ret /\ 0 < n /\ (forall x, In x (run ret n) -> In x fb) /\ fa = remove_ids (run ret n) fb).
Proof. exact alloc_ok_hm_sound. Qed.
Print Assumptions C09_alloc_decision_sound_hashmap.

(** * Release.  Reader r needs a pending page (freed by tid, allocated by a; a = 0: unknown) iff a <= r < tid. *)

(** pending pages become free only when no registered reader's version can contain them - for every sorted reader list
    (ids may repeat) and every pending map, with the repaired code (reader id 0 skipped) *)
Theorem C09_release_safe : forall rs p p' freed,
  Sorted N.le rs -> (forall r, In r rs -> r < MAXU64) ->
  release_pending_gen true rs p = (p', freed) ->
  forall tid pg a, In (tid, pg, a) (pend_pairs p) -> ~ In (tid, pg, a) (pend_pairs p') ->
  forall r, In r rs -> needs r tid a = false.
Proof. exact release_pending_gen_safe. Qed.
Print Assumptions C09_release_safe.

Theorem C09_released_pages_unneeded : forall rs p p' freed,
  Sorted N.le rs -> (forall r, In r rs -> r < MAXU64) ->
  release_pending_gen true rs p = (p', freed) ->
  forall pg, In pg freed -> exists tid a, In (tid, pg, a) (pend_pairs p) /\ forall r, In r rs -> needs r tid a = false.
Proof. exact release_pending_gen_safe_freed. Qed.
Print Assumptions C09_released_pages_unneeded.

(** nothing is lost or duplicated by a release *)
Theorem C09_release_conserves : forall rs p p' freed,
  release_pending_gen true rs p = (p', freed) -> Permutation (pending_ids p) (pending_ids p' ++ freed).
Proof. exact release_pending_gen_conserves. Qed.
Print Assumptions C09_release_conserves.

(** all of them when there are no readers *)
Theorem C09_release_all_without_readers : forall p p' freed,
  (forall e, In e p -> fst e < MAXU64) -> release_pending_gen true [] p = (p', freed) -> p' = [].
Proof. exact release_pending_gen_all_without_readers. Qed.
Print Assumptions C09_release_all_without_readers.

(** the pinned code (no guard for reader id 0, defect D10, repaired in /repo) violated the safety statement *)
Theorem C09_pinned_release_unsafe : ~ (forall rs p p' freed,
  Sorted N.le rs -> (forall r, In r rs -> r < MAXU64) ->
  release_pending_gen false rs p = (p', freed) ->
  forall tid pg a, In (tid, pg, a) (pend_pairs p) -> ~ In (tid, pg, a) (pend_pairs p') ->
  forall r, In r rs -> needs r tid a = false).
Proof. exact release_pending_gen_unguarded_unsafe. Qed.
Print Assumptions C09_pinned_release_unsafe.

(** * Rollback: the frees of a transaction followed by its Rollback restore exactly the prior free list, pending map and
      reader list (for every list of frees; Rollback's panic condition and its effect on the allocation records are
      characterised exactly in FreelistRollbackProofs.v) *)
Theorem C09_rollback_restores : forall txid frees s s1 s2,
  keys_unique (pending s) -> alookup txid (pending s) = None ->
  fold_left (fun r f => match r with Ok s0 => free_page txid (fst f) (snd f) s0 | e => e end) frees (Ok s) = Ok s1 ->
  rollback txid s1 = Ok s2 ->
  free s2 = free s /\ pending s2 = pending s /\ readers s2 = readers s.
Proof. exact frees_then_rollback. Qed.
Print Assumptions C09_rollback_restores.

(** * the remaining decision procedures evaluated on the implementation's before/after states are sound *)
Theorem C09_free_decision_sound : forall txid id ov sb sa, free_ok txid id ov sb sa = true ->
  free sa = free sb /\ Permutation (pending_ids (pending sa)) (pending_ids (pending sb) ++ run id (ov + 1)) /\
  forall x, In x (run id (ov + 1)) -> exists a, In (txid, x, a) (pend_pairs (pending sa)).
Proof. exact free_ok_sound. Qed.
Print Assumptions C09_free_decision_sound.

Theorem C09_rollback_decision_sound : forall txid sb sa, rollback_ok txid sb sa = true ->
  free sa = free sb /\ (forall e, In e (pending sa) -> fst e <> txid) /\
  Permutation (pending_ids (pending sa)) (map (fun t => snd (fst t)) (filter (fun t => negb (fst (fst t) =? txid)) (pend_pairs (pending sb)))).
Proof. exact rollback_ok_sound. Qed.
Print Assumptions C09_rollback_decision_sound.

Theorem C09_release_decision_sound : forall sb sa, release_ok sb sa = true ->
  Permutation (cache sa) (cache sb) /\ (forall x, In x (free sb) -> In x (free sa)) /\
  (forall tid p a, In (tid, p, a) (pend_pairs (pending sb)) -> In p (free sa) -> ~ In p (free sb) ->
     forall r, In r (readers sb) -> visible_to a tid r = false) /\
  (readers sb = [] -> pending sa = []).
Proof. exact release_ok_sound. Qed.
Print Assumptions C09_release_decision_sound.
