(** C09 - the free-page allocator obeys its specification (both backends).
    Property theorems only; each is closed by [exact] of a lemma of FreelistProofs.v. *)
From Bbolt Require Import Base Freelist FreelistProofs.
From Coq Require Import Sorting.Permutation.

(** Freeing never makes a page directly reusable: the free list is untouched ... *)
Theorem C09_free_leaves_free_list : forall txid id ov s s',
  free_page txid id ov s = Ok s' -> free s' = free s /\ readers s' = readers s.
Proof. exact free_page_free_unchanged. Qed.
Print Assumptions C09_free_leaves_free_list.

(** ... and exactly the page and its overflow become pending. *)
Theorem C09_free_goes_pending : forall txid id ov s s',
  keys_unique (pending s) -> free_page txid id ov s = Ok s' ->
  Permutation (pending_ids (pending s')) (pending_ids (pending s) ++ run id (ov + 1)).
Proof. exact free_page_pending. Qed.
Print Assumptions C09_free_goes_pending.

(** Pages 0/1 and pages already free or pending are refused (the code panics), and only those. *)
Theorem C09_free_guard : forall txid id ov s,
  (id <= 1 \/ exists x, In x (run id (ov + 1)) /\ In x (cache s)) <-> free_page txid id ov s = Panic.
Proof. exact free_page_guard. Qed.
Print Assumptions C09_free_guard.

(** Serialising and re-reading preserves the set of free and pending pages, for every length
    (also beyond 65534 entries: [count s] is an arbitrary N). *)
Theorem C09_serialise_roundtrip : forall s, read_ids (write_img s) = copyall s.
Proof. exact read_write_roundtrip. Qed.
Print Assumptions C09_serialise_roundtrip.

Theorem C09_serialise_set : forall s x,
  In x (read_ids (write_img s)) <-> In x (free s) \/ In x (pending_ids (pending s)).
Proof. exact read_write_set. Qed.
Print Assumptions C09_serialise_set.

Theorem C09_estimate_sufficient : forall s,
  16 + 8 * N.of_nat (length (snd (write_img s))) <= estimated_write_size s.
Proof. exact estimate_sufficient. Qed.
Print Assumptions C09_estimate_sufficient.
