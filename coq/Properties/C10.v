(** C10 - freed space is reclaimed as soon as no reader needs it.  Model: Pager.v. *)
From Bbolt Require Import Base Pager PagerProofs.

(** with no reader open, the next writer may release every pending page; afterwards nothing is withheld *)
Theorem C10_reclaim_all_without_readers : forall s, Inv s -> g_w s = None -> g_readers s = [] ->
  exists s', pstep s (LBeginW (pend_pages s)) = Some s' /\ g_pend s' = [] /\
             (forall x, In x (g_free s') <-> In x (g_free s) \/ In x (pend_pages s)).
Proof. exact reclaim_all_without_readers. Qed.
Print Assumptions C10_reclaim_all_without_readers.

(** whatever is still pending while a writer is open was freed by that writer or by an earlier commit some
    reader may still see; so after a commit made with no readers at its begin only its own frees are withheld *)
Theorem C10_pending_is_writers_or_older : forall s w, Inv s -> g_w s = Some w ->
  forall e, In e (g_pend s) -> e_tx e <= g_cur s \/ In (e_pg e) (w_freed w).
Proof. exact pending_of_writer. Qed.
Print Assumptions C10_pending_is_writers_or_older.

(** while readers are open no page that an open reader's version references is reusable *)
Theorem C10_reader_pages_not_reusable : forall s, Inv s ->
  forall r P x, In r (g_readers s) -> In (r, P) (g_hist s) -> In x P -> ~ In x (g_free s).
Proof. exact reader_pages_not_free. Qed.
Print Assumptions C10_reader_pages_not_reusable.

(** no id is lost: everything below the mark is free, pending or in use (so a steady overwrite workload reuses
    pages instead of growing the file: the mark moves only when the free list cannot serve an allocation) *)
Theorem C10_nothing_lost : forall s, Inv s -> g_w s = None ->
  forall x, 2 <= x < g_mark s ->
    (In x (g_free s) /\ ~ In x (pend_pages s) /\ ~ In x (g_pages s)) \/
    (~ In x (g_free s) /\ In x (pend_pages s) /\ ~ In x (g_pages s)) \/
    (~ In x (g_free s) /\ ~ In x (pend_pages s) /\ In x (g_pages s)).
Proof. exact partition_at_rest. Qed.
Print Assumptions C10_nothing_lost.
