(** C11 - Open survives one damaged meta page and rejects non-databases.
    Models: Fnv.v (FNV-1a 64), Layout.v (validate_at = Meta.Validate, open_model = getPageSize + mmap validation + meta()). *)
From Bbolt Require Import Base Consts Fnv Layout LayoutEnc LayoutProofs.

(** Changing exactly one byte of the hashed content changes the FNV-1a-64 checksum. *)
Theorem C11_checksum_detects_single_byte : forall pre b1 b2 post h,
  inrange h -> Forall isbyte pre -> isbyte b1 -> isbyte b2 -> Forall isbyte post ->
  b1 <> b2 -> fnv_from h (pre ++ b1 :: post) <> fnv_from h (pre ++ b2 :: post).
Proof. exact single_byte_change. Qed.
Print Assumptions C11_checksum_detects_single_byte.

(** validation of a 64-byte meta structure (magic 4 | version 4 | checksummed fields 48 | checksum 8) at any file
    position is exactly: magic, version, and checksum = FNV-1a-64 of the first 56 bytes *)
Theorem C11_validate_characterised : forall pre post A B C D,
  length A = 4%nat -> length B = 4%nat -> length C = 48%nat -> length D = 8%nat ->
  (validate_at (rd_of (pre ++ (A ++ B ++ C ++ D) ++ post)) (N.of_nat (length pre)) = MOk <-> valid_segments A B C D).
Proof. exact validate_segments. Qed.
Print Assumptions C11_validate_characterised.

(** ANY single altered byte - in the magic, the version, the checksummed content or the checksum itself - makes a
    valid meta structure invalid (every position, every replacement value) *)
Theorem C11_single_byte_damage_detected : forall A B C D A' B' C' D',
  length A = 4%nat -> length B = 4%nat -> length C = 48%nat -> length D = 8%nat ->
  Forall isbyte (A ++ B ++ C ++ D) ->
  valid_segments A B C D ->
  (one_byte_changed A A' /\ B' = B /\ C' = C /\ D' = D) \/
  (A' = A /\ one_byte_changed B B' /\ C' = C /\ D' = D) \/
  (A' = A /\ B' = B /\ one_byte_changed C C' /\ D' = D) \/
  (A' = A /\ B' = B /\ C' = C /\ one_byte_changed D D') ->
  ~ valid_segments A' B' C' D'.
Proof. exact single_byte_damage_detected. Qed.
Print Assumptions C11_single_byte_damage_detected.

(** Open presents a state only through a meta page that validates, and never for a file shorter than two pages
    or than the chosen meta's high-water mark *)
Theorem C11_open_uses_only_valid_meta : forall rd flen dps ps m, open_model rd flen dps = OpenOk ps m ->
  ((m = meta0 rd /\ valid0 rd) \/ (m = meta1 rd ps /\ valid1 rd ps)) /\ 2 * ps <= flen /\ m_mark m * ps <= flen.
Proof. exact open_ok_uses_valid_meta. Qed.
Print Assumptions C11_open_uses_only_valid_meta.

Theorem C11_open_rejects_both_invalid : forall rd flen dps,
  ~ valid0 rd -> (forall ps, ~ valid1 rd ps) -> forall ps m, open_model rd flen dps <> OpenOk ps m.
Proof. exact open_rejects_when_both_invalid. Qed.
Print Assumptions C11_open_rejects_both_invalid.

(** exactly one meta invalid: Open succeeds with the other one *)
Theorem C11_open_falls_back : forall rd flen dps ps,
  page_size_model rd flen dps (validate_at rd page_header_size) = Some ps -> 2 * ps <= flen ->
  (valid0 rd /\ ~ valid1 rd ps /\ m_mark (meta0 rd) * ps <= flen -> open_model rd flen dps = OpenOk ps (meta0 rd)) /\
  (~ valid0 rd /\ valid1 rd ps /\ m_mark (meta1 rd ps) * ps <= flen -> open_model rd flen dps = OpenOk ps (meta1 rd ps)).
Proof. exact open_falls_back_to_the_valid_meta. Qed.
Print Assumptions C11_open_falls_back.

Theorem C11_open_prefers_newer : forall rd flen dps ps,
  page_size_model rd flen dps (validate_at rd page_header_size) = Some ps -> 2 * ps <= flen ->
  valid0 rd -> valid1 rd ps ->
  let m := if m_txid (meta0 rd) <? m_txid (meta1 rd ps) then meta1 rd ps else meta0 rd in
  m_mark m * ps <= flen -> open_model rd flen dps = OpenOk ps m.
Proof. exact open_prefers_newer. Qed.
Print Assumptions C11_open_prefers_newer.

(** page-size detection still works when the first meta is the damaged one: the first probe offset 1024*2^k that
    carries a valid meta is found (the earlier probe offsets lie in page 0's zero tail and do not validate) *)
Theorem C11_page_size_from_second_meta : forall rd flen k i pos,
  (k < i)%nat ->
  (forall j, (j < k)%nat -> meta_valid_at rd (pos * 2 ^ N.of_nat j + page_header_size) = false) ->
  meta_valid_at rd (pos * 2 ^ N.of_nat k + page_header_size) = true ->
  pos * 2 ^ N.of_nat k < flen - 1024 ->
  probe_second rd flen i pos = Some (m_pagesize (rd_meta_at rd (pos * 2 ^ N.of_nat k + page_header_size))).
Proof. exact probe_second_finds. Qed.
Print Assumptions C11_page_size_from_second_meta.
