(** C04 - buckets, keys and sequences behave as a nested ordered map.
    The reference model is Spec.v (the harness compares every API result of the implementation with it).
    The theorems below state that the reference really is a map with the promised error behaviour. *)
From Bbolt Require Import Base Consts Spec SpecProofs.

(** Argument and type errors (and every other error) leave the state unchanged. *)
Theorem C04_errors_change_nothing : forall w o root e out root',
  exec w o root = (e, out, root') -> e <> ENone -> root' = root.
Proof. exact exec_error_unchanged. Qed.
Print Assumptions C04_errors_change_nothing.

(** No call made through a read-only transaction changes anything. *)
Theorem C04_read_tx_changes_nothing : forall o root e out root',
  exec false o root = (e, out, root') -> root' = root.
Proof. exact exec_readonly_tx_unchanged. Qed.
Print Assumptions C04_read_tx_changes_nothing.

(** A write transaction reads its own uncommitted writes, at any nesting depth. *)
Theorem C04_read_your_writes : forall p k v root root' out,
  exec true (OPut p k v) root = (ENone, out, root') ->
  exec true (OGet p k) root' = (ENone, VBytes (Some v), root').
Proof. exact put_then_get. Qed.
Print Assumptions C04_read_your_writes.

Theorem C04_read_your_deletes : forall p k root root' out,
  (forall b, resolve p root = Some b -> keys_sorted (snd b) = true) ->
  exec true (ODelete p k) root = (ENone, out, root') ->
  exec true (OGet p k) root' = (ENone, VBytes None, root').
Proof. exact delete_then_get. Qed.
Print Assumptions C04_read_your_deletes.

(** Each bucket is an ordered map: insert/remove keep the byte order and touch only their key. *)
Theorem C04_insert_keeps_order : forall k e l, keys_sorted l = true -> keys_sorted (insert k e l) = true.
Proof. exact insert_sorted. Qed.
Print Assumptions C04_insert_keeps_order.

Theorem C04_remove_keeps_order : forall k l, keys_sorted l = true -> keys_sorted (remove k l) = true.
Proof. exact remove_sorted. Qed.
Print Assumptions C04_remove_keeps_order.

Theorem C04_insert_frame : forall k k2 e l, keys_sorted l = true -> bcmp k2 k <> Eq ->
  lookup k2 (insert k e l) = lookup k2 l.
Proof. exact lookup_insert_other. Qed.
Print Assumptions C04_insert_frame.

Theorem C04_remove_frame : forall k k2 l, keys_sorted l = true -> bcmp k2 k <> Eq ->
  lookup k2 (remove k l) = lookup k2 l.
Proof. exact lookup_remove_other. Qed.
Print Assumptions C04_remove_frame.

(** non-vacuity: a concrete nested state on which the hypotheses hold and the calls succeed *)
Example C04_nonvacuous :
  let root := (0, [([98], Sub 3 [([107], Val [1]); ([108], Sub 0 [])])]) : bucket in
  keys_sorted (snd root) = true /\
  fst (fst (exec true (OPut [[98]; [108]] [120] [7; 7]) root)) = ENone /\
  fst (fst (exec true (OPut [[98]] [108] [7]) root)) = EIncompatibleValue.
Proof. vm_compute. repeat split. Qed.
