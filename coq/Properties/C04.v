(** C04 - buckets, keys and sequences behave as a nested ordered map.
    The reference model is Spec.v (the harness compares every API result of the implementation with it).
    The theorems below state that the reference really is a map with the promised error behaviour. *)
From Bbolt Require Import Base Consts Spec SpecProofs SpecBucketProofs.

(** Argument and type errors (and every other error) leave the state unchanged. *)
Theorem C04_errors_change_nothing : forall w o root e out root',
  exec w o root = (e, out, root') -> e <> ENone -> root' = root.
Proof. exact exec_error_unchanged. Qed.
Print Assumptions C04_errors_change_nothing.

(** No call made through a read-only transaction changes anything. *)
Theorem C04_read_tx_changes_nothing : forall o root e out root',
  exec false o root = (e, out, root') -> root' = root.
Proof. exact exec_readonly_tx_unchanged. Qed.
Print Assumptions C04_read_tx_changes_nothing.

(** A write transaction reads its own uncommitted writes, at any nesting depth. *)
Theorem C04_read_your_writes : forall p k v root root' out,
  exec true (OPut p k v) root = (ENone, out, root') ->
  exec true (OGet p k) root' = (ENone, VBytes (Some v), root').
Proof. exact put_then_get. Qed.
Print Assumptions C04_read_your_writes.

Theorem C04_read_your_deletes : forall p k root root' out,
  (forall b, resolve p root = Some b -> keys_sorted (snd b) = true) ->
  exec true (ODelete p k) root = (ENone, out, root') ->
  exec true (OGet p k) root' = (ENone, VBytes None, root').
Proof. exact delete_then_get. Qed.
Print Assumptions C04_read_your_deletes.

(** Each bucket is an ordered map: insert/remove keep the byte order and touch only their key. *)
Theorem C04_insert_keeps_order : forall k e l, keys_sorted l = true -> keys_sorted (insert k e l) = true.
Proof. exact insert_sorted. Qed.
Print Assumptions C04_insert_keeps_order.

Theorem C04_remove_keeps_order : forall k l, keys_sorted l = true -> keys_sorted (remove k l) = true.
Proof. exact remove_sorted. Qed.
Print Assumptions C04_remove_keeps_order.

Theorem C04_insert_frame : forall k k2 e l, keys_sorted l = true -> bcmp k2 k <> Eq ->
  lookup k2 (insert k e l) = lookup k2 l.
Proof. exact lookup_insert_other. Qed.
Print Assumptions C04_insert_frame.

Theorem C04_remove_frame : forall k k2 l, keys_sorted l = true -> bcmp k2 k <> Eq ->
  lookup k2 (remove k l) = lookup k2 l.
Proof. exact lookup_remove_other. Qed.
Print Assumptions C04_remove_frame.

(** non-vacuity: a concrete nested state on which the hypotheses hold and the calls succeed *)
Example C04_nonvacuous :
  let root := (0, [([98], Sub 3 [([107], Val [1]); ([108], Sub 0 [])])]) : bucket in
  keys_sorted (snd root) = true /\
  fst (fst (exec true (OPut [[98]; [108]] [120] [7; 7]) root)) = ENone /\
  fst (fst (exec true (OPut [[98]] [108] [7]) root)) = EIncompatibleValue.
Proof. vm_compute. repeat split. Qed.

(** * Bucket-level laws of the reference (SpecBucketProofs.v) *)

(** every state reachable from the empty database by any sequence of API calls (any mix of successes and errors, in
    write or read transactions) is well-formed: keys strictly ascending at every nesting level *)
Theorem C04_reachable_states_are_ordered_maps : forall w os, wf_bucket (exec_all w os (0, [])).
Proof. exact exec_all_wf_from_empty. Qed.
Print Assumptions C04_reachable_states_are_ordered_maps.

Theorem C04_every_call_keeps_order : forall w o root e out root',
  wf_bucket root -> exec w o root = (e, out, root') -> wf_bucket root'.
Proof. exact exec_wf. Qed.
Print Assumptions C04_every_call_keeps_order.

(** a created bucket is empty with sequence 0 *)
Theorem C04_created_bucket_is_empty : forall p n root root', create_bucket p n root = (ENone, root') ->
  resolve (p ++ [n]) root' = Some (0, []).
Proof. exact create_bucket_new. Qed.
Print Assumptions C04_created_bucket_is_empty.

(** deleting a bucket removes it and everything below it *)
Theorem C04_deleted_bucket_subtree_gone : forall p n root root' r, sorted_at p root ->
  delete_bucket p n root = (ENone, root') -> resolve (p ++ n :: r) root' = None.
Proof. exact delete_bucket_subtree_gone. Qed.
Print Assumptions C04_deleted_bucket_subtree_gone.

(** a moved bucket arrives with its whole subtree, and leaves its old place *)
Theorem C04_moved_bucket_arrives_intact : forall src n dst root root' r, move_bucket src n dst root = (ENone, root') ->
  resolve (dst ++ n :: r) root' = resolve (src ++ n :: r) root.
Proof. exact move_bucket_subtree. Qed.
Print Assumptions C04_moved_bucket_arrives_intact.

Theorem C04_moved_bucket_leaves_source : forall src n dst root root', sorted_at src root ->
  move_bucket src n dst root = (ENone, root') -> resolve (src ++ [n]) root' = None.
Proof. exact move_bucket_src_gone. Qed.
Print Assumptions C04_moved_bucket_leaves_source.

(** the reference refuses a move into the moved bucket's own subtree and changes nothing (the code does not: known finding D4) *)
Theorem C04_move_into_own_subtree_refused : forall src n dst root, extends (src ++ [n]) dst ->
  fst (move_bucket src n dst root) <> ENone /\ snd (move_bucket src n dst root) = root.
Proof. exact move_bucket_into_itself. Qed.
Print Assumptions C04_move_into_own_subtree_refused.

(** sequences: NextSequence returns old + 1 (mod 2^64), stores it, and touches nothing else *)
Theorem C04_next_sequence : forall p root v root', next_sequence p root = (ENone, v, root') ->
  exists b, resolve p root = Some b /\ v = (fst b + 1) mod M64 /\
            sequence p root' = (ENone, v) /\ resolve p root' = Some (v, snd b).
Proof. exact next_sequence_spec. Qed.
Print Assumptions C04_next_sequence.

(** a put (a delete) changes exactly one key of one bucket: every other (bucket, key) reads as before *)
Theorem C04_put_frame : forall p k v vl root root' q k2, put p k v vl root = (ENone, root') ->
  (q <> p \/ k2 <> k) -> get q k2 root' = get q k2 root.
Proof. exact put_get_frame. Qed.
Print Assumptions C04_put_frame.

Theorem C04_delete_frame : forall p k root root' q k2, sorted_at p root -> delete p k root = (ENone, root') ->
  (q <> p \/ k2 <> k) -> get q k2 root' = get q k2 root.
Proof. exact delete_get_frame. Qed.
Print Assumptions C04_delete_frame.

(** the sortedness side condition above holds in every reachable state *)
Theorem C04_ordered_everywhere : forall root p, wf_bucket root -> sorted_at p root.
Proof. exact wf_sorted_at. Qed.
Print Assumptions C04_ordered_everywhere.
