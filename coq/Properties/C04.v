(** C04 - buckets, keys and sequences behave as a nested ordered map.
    The reference model is Spec.v (the harness compares every API result of the implementation with it).
    The theorems below state that the reference really is a map with the promised error behaviour. *)
From Bbolt Require Import Base Consts Spec SpecProofs SpecBucketProofs.
From Bbolt Require Node NodeProofs Tree TreeProofs TreeNestedProofs.

(** Argument and type errors (and every other error) leave the state unchanged. *)
Theorem C04_errors_change_nothing : forall w o root e out root',
  exec w o root = (e, out, root') -> e <> ENone -> root' = root.
Proof. exact exec_error_unchanged. Qed.
Print Assumptions C04_errors_change_nothing.

(** No call made through a read-only transaction changes anything. *)
Theorem C04_read_tx_changes_nothing : forall o root e out root',
  exec false o root = (e, out, root') -> root' = root.
Proof. exact exec_readonly_tx_unchanged. Qed.
Print Assumptions C04_read_tx_changes_nothing.

(** A write transaction reads its own uncommitted writes, at any nesting depth. *)
Theorem C04_read_your_writes : forall p k v root root' out,
  exec true (OPut p k v) root = (ENone, out, root') ->
  exec true (OGet p k) root' = (ENone, VBytes (Some v), root').
Proof. exact put_then_get. Qed.
Print Assumptions C04_read_your_writes.

Theorem C04_read_your_deletes : forall p k root root' out,
  (forall b, resolve p root = Some b -> keys_sorted (snd b) = true) ->
  exec true (ODelete p k) root = (ENone, out, root') ->
  exec true (OGet p k) root' = (ENone, VBytes None, root').
Proof. exact delete_then_get. Qed.
Print Assumptions C04_read_your_deletes.

(** Each bucket is an ordered map: insert/remove keep the byte order and touch only their key. *)
Theorem C04_insert_keeps_order : forall k e l, keys_sorted l = true -> keys_sorted (insert k e l) = true.
Proof. exact insert_sorted. Qed.
Print Assumptions C04_insert_keeps_order.

Theorem C04_remove_keeps_order : forall k l, keys_sorted l = true -> keys_sorted (remove k l) = true.
Proof. exact remove_sorted. Qed.
Print Assumptions C04_remove_keeps_order.

Theorem C04_insert_frame : forall k k2 e l, keys_sorted l = true -> bcmp k2 k <> Eq ->
  lookup k2 (insert k e l) = lookup k2 l.
Proof. exact lookup_insert_other. Qed.
Print Assumptions C04_insert_frame.

Theorem C04_remove_frame : forall k k2 l, keys_sorted l = true -> bcmp k2 k <> Eq ->
  lookup k2 (remove k l) = lookup k2 l.
Proof. exact lookup_remove_other. Qed.
Print Assumptions C04_remove_frame.

(** non-vacuity: a concrete nested state on which the hypotheses hold and the calls succeed *)
Example C04_nonvacuous :
  let root := (0, [([98], Sub 3 [([107], Val [1]); ([108], Sub 0 [])])]) : bucket in
  keys_sorted (snd root) = true /\
  fst (fst (exec true (OPut [[98]; [108]] [120] [7; 7]) root)) = ENone /\
  fst (fst (exec true (OPut [[98]] [108] [7]) root)) = EIncompatibleValue.
Proof. vm_compute. repeat split. Qed.

(** * Bucket-level laws of the reference (SpecBucketProofs.v) *)

(** every state reachable from the empty database by any sequence of API calls (any mix of successes and errors, in
    write or read transactions) is well-formed: keys strictly ascending at every nesting level *)
Theorem C04_reachable_states_are_ordered_maps : forall w os, wf_bucket (exec_all w os (0, [])).
Proof. exact exec_all_wf_from_empty. Qed.
Print Assumptions C04_reachable_states_are_ordered_maps.

Theorem C04_every_call_keeps_order : forall w o root e out root',
  wf_bucket root -> exec w o root = (e, out, root') -> wf_bucket root'.
Proof. exact exec_wf. Qed.
Print Assumptions C04_every_call_keeps_order.

(** a created bucket is empty with sequence 0 *)
Theorem C04_created_bucket_is_empty : forall p n root root', create_bucket p n root = (ENone, root') ->
  resolve (p ++ [n]) root' = Some (0, []).
Proof. exact create_bucket_new. Qed.
Print Assumptions C04_created_bucket_is_empty.

(** deleting a bucket removes it and everything below it *)
Theorem C04_deleted_bucket_subtree_gone : forall p n root root' r, sorted_at p root ->
  delete_bucket p n root = (ENone, root') -> resolve (p ++ n :: r) root' = None.
Proof. exact delete_bucket_subtree_gone. Qed.
Print Assumptions C04_deleted_bucket_subtree_gone.

(** a moved bucket arrives with its whole subtree, and leaves its old place *)
Theorem C04_moved_bucket_arrives_intact : forall src n dst root root' r, move_bucket src n dst root = (ENone, root') ->
  resolve (dst ++ n :: r) root' = resolve (src ++ n :: r) root.
Proof. exact move_bucket_subtree. Qed.
Print Assumptions C04_moved_bucket_arrives_intact.

Theorem C04_moved_bucket_leaves_source : forall src n dst root root', sorted_at src root ->
  move_bucket src n dst root = (ENone, root') -> resolve (src ++ [n]) root' = None.
Proof. exact move_bucket_src_gone. Qed.
Print Assumptions C04_moved_bucket_leaves_source.

(** the reference refuses a move into the moved bucket's own subtree and changes nothing (the code does not: known finding D4) *)
Theorem C04_move_into_own_subtree_refused : forall src n dst root, extends (src ++ [n]) dst ->
  fst (move_bucket src n dst root) <> ENone /\ snd (move_bucket src n dst root) = root.
Proof. exact move_bucket_into_itself. Qed.
Print Assumptions C04_move_into_own_subtree_refused.

(** sequences: NextSequence returns old + 1 (mod 2^64), stores it, and touches nothing else *)
Theorem C04_next_sequence : forall p root v root', next_sequence p root = (ENone, v, root') ->
  exists b, resolve p root = Some b /\ v = (fst b + 1) mod M64 /\
            sequence p root' = (ENone, v) /\ resolve p root' = Some (v, snd b).
Proof. exact next_sequence_spec. Qed.
Print Assumptions C04_next_sequence.

(** a put (a delete) changes exactly one key of one bucket: every other (bucket, key) reads as before *)
Theorem C04_put_frame : forall p k v vl root root' q k2, put p k v vl root = (ENone, root') ->
  (q <> p \/ k2 <> k) -> get q k2 root' = get q k2 root.
Proof. exact put_get_frame. Qed.
Print Assumptions C04_put_frame.

Theorem C04_delete_frame : forall p k root root' q k2, sorted_at p root -> delete p k root = (ENone, root') ->
  (q <> p \/ k2 <> k) -> get q k2 root' = get q k2 root.
Proof. exact delete_get_frame. Qed.
Print Assumptions C04_delete_frame.

(** the sortedness side condition above holds in every reachable state *)
Theorem C04_ordered_everywhere : forall root p, wf_bucket root -> sorted_at p root.
Proof. exact wf_sorted_at. Qed.
Print Assumptions C04_ordered_everywhere.

Module NodeLayer.
Import Node NodeProofs.

(** ---- the B+tree node layer (Node.v: line-for-line model of node.go, compared call by call with the real node) ---- *)

(** Go's sort.Search bisection finds, on a sorted node, the number of keys below the sought one (the insertion point) *)
Theorem C04_node_search_is_insertion_point : forall l k, keys_sorted (keys_of l) = true ->
  search (length l) (key_ge l k) = length (filter (fun i => blt (i_key i) k) l).
Proof. exact search_sorted. Qed.
Print Assumptions C04_node_search_is_insertion_point.

(** node.put on a sorted node is insert-or-replace of a sorted map ... *)
Theorem C04_node_put_is_insert : forall mark n k v pg fl,
  keys_sorted (keys_of (n_inodes n)) = true -> pg < mark -> len k <> 0 ->
  put mark n k k v pg fl =
  Ok {| n_leaf := n_leaf n; n_unbal := n_unbal n;
        n_inodes := ins {| i_flags := fl; i_key := k; i_val := v; i_pgid := pg |} (n_inodes n) |}.
Proof. exact put_is_insert. Qed.
Print Assumptions C04_node_put_is_insert.

(** ... which keeps the node sorted, makes the key readable and leaves every other key alone *)
Theorem C04_node_insert_laws : forall ni l,
  (keys_sorted (keys_of l) = true -> keys_sorted (keys_of (ins ni l)) = true) /\
  ilookup (i_key ni) (ins ni l) = Some ni /\
  (forall k', k' <> i_key ni -> ilookup k' (ins ni l) = ilookup k' l).
Proof. intros ni l. split; [exact (ins_sorted ni l) | split; [exact (ins_lookup_same ni l) | exact (ins_lookup_other ni l)]]. Qed.
Print Assumptions C04_node_insert_laws.

(** node.del on a sorted node removes exactly that key, keeps the node sorted, and marks it for rebalancing iff the key was there *)
Theorem C04_node_del_is_remove : forall n k, keys_sorted (keys_of (n_inodes n)) = true ->
  n_inodes (del n k) = rem k (n_inodes n) /\
  keys_sorted (keys_of (rem k (n_inodes n))) = true /\
  ilookup k (rem k (n_inodes n)) = None /\
  (forall k', k' <> k -> ilookup k' (rem k (n_inodes n)) = ilookup k' (n_inodes n)) /\
  n_unbal (del n k) = n_unbal n || existsb (fun i => beq (i_key i) k) (n_inodes n).
Proof.
  intros n k H. split; [exact (del_is_remove n k H) | split; [exact (rem_sorted k _ H) | split; [exact (rem_lookup_same k _ H) |
  split; [exact (fun k' => rem_lookup_other k k' _ H) | exact (del_unbalanced_iff n k H)]]]].
Qed.
Print Assumptions C04_node_del_is_remove.

(** node.split, for every node, page size and fill percentage: it terminates, loses and reorders nothing, produces no empty piece,
    and every piece but the last has at least MinKeysPerPage elements; a node that fits in a page is not split *)
Theorem C04_node_split_keeps_every_element : forall n ps p,
  exists pieces, split n ps p = Ok pieces /\ concat pieces = n_inodes n /\
    (n_inodes n <> [] -> Forall (fun q => q <> []) pieces) /\
    Forall (fun q => 2 <= length q)%nat (removelast pieces) /\
    (size n < ps -> pieces = [n_inodes n]).
Proof.
  intros n ps p. destruct (split_total n ps p) as [pieces H]. exists pieces.
  split; [exact H | split; [exact (split_concat n ps p pieces H) | split; [exact (split_nonempty n ps p pieces H) |
  split; [exact (split_nonlast_ge2 n ps p pieces H) | ]]]].
  intros Hs. rewrite (split_fits n ps p Hs) in H. injection H as <-. reflexivity.
Qed.
Print Assumptions C04_node_split_keeps_every_element.

(** the decision procedure the harness runs on the implementation's own split results means what it says *)
Theorem C04_split_ok_sound : forall l pieces, split_ok l pieces = true ->
  concat (map keys_of pieces) = keys_of l /\ (l <> [] -> Forall (fun q => q <> []) pieces) /\
  Forall (fun q => 2 <= length q)%nat (removelast pieces).
Proof. exact split_ok_sound. Qed.
Print Assumptions C04_split_ok_sound.

(** ---- the commit-time restructuring of a bucket's tree (Tree.v: node.rebalance + node.spill, predicts the real committed tree exactly) ---- *)
Import Tree TreeProofs.

(** Tx.Commit keeps the content of the bucket: whatever the page size, the fill percentage and the ORDER in which Go's map iteration
    lets Bucket.rebalance visit the materialised nodes, merging, removing emptied nodes, collapsing the root, splitting and creating new
    roots leave the in-order list of leaf elements (keys, values, flags) unchanged - and the result is again a height-balanced tree.
    (The balance hypothesis is needed: TreeProofs.merge_needs_balance merges a leaf with a branch sibling and changes the content.) *)
Theorem C04_commit_keeps_content_for_every_visit_order : forall ps fill fuel t order t' evs,
  aligned t -> commit_tree ps fill fuel t order = Ok (t', evs) -> flat t' = flat t /\ aligned t'.
Proof. exact commit_tree_flat. Qed.
Print Assumptions C04_commit_keeps_content_for_every_visit_order.

(** after the commit every vertex of the tree is a page again (no materialised node is left behind unwritten) *)
Theorem C04_commit_writes_every_dirty_node : forall ps fill fuel t order t' evs,
  closed false t -> commit_tree ps fill fuel t order = Ok (t', evs) -> allpg false t'.
Proof. exact commit_tree_pages. Qed.
Print Assumptions C04_commit_writes_every_dirty_node.

(** the same for the whole decision Bucket.spill takes for a child bucket (write it inline and free its pages, or spill it) *)
Theorem C04_bucket_commit_keeps_content : forall ps fill fuel t order t' evs inl,
  aligned t -> commit_bucket ps fill fuel t order = Ok (t', evs, inl) -> flat t' = flat t /\ aligned t'.
Proof. exact commit_bucket_flat. Qed.
Print Assumptions C04_bucket_commit_keeps_content.

(** a bucket WITH child buckets: writing the children's new values back (Cursor.seek + Cursor.node() + node.put) and committing keeps every
    key, and every element that is not the entry of a written-back child - for sorted content (the hypothesis is needed: on an unsorted
    leaf the linear lookup and node.put's bisection disagree, TreeNestedProofs.put_at_key_needs_sorted) *)
Import TreeNestedProofs.
Theorem C04_nested_commit_keeps_content : forall ps fill fuel t order children t' evs inl,
  aligned t -> isorted (flat t) ->
  commit_parent_bucket ps fill fuel t order children = Ok (t', evs, inl) ->
  map i_key (flat t') = map i_key (flat t) /\
  Forall2 (fun a b => i_key a = i_key b /\ (~ In (i_key a) (map fst children) -> a = b)) (flat t) (flat t') /\
  aligned t'.
Proof. exact commit_parent_bucket_flat. Qed.
Print Assumptions C04_nested_commit_keeps_content.

End NodeLayer.
