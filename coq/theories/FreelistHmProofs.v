(** Facts about [spans] (maximal runs of a strictly sorted id list) and soundness / completeness of
    the hashmap allocator model [allocate_hm] and of the decision procedure [alloc_ok Hashmap]. *)
From Bbolt Require Import Base BaseProofs Freelist.
From Coq Require Import ZifyN ZifyNat ZifyBool.

(** ---- sortedb ---- *)

Lemma sortedb_tail x r : sortedb (x :: r) = true -> sortedb r = true.
Proof.
  destruct r as [|y r']; [reflexivity|].
  cbn [sortedb]. intros H. apply andb_true_iff in H. destruct H as [_ H]. exact H.
Qed.

Lemma sortedb_head_lt x r : sortedb (x :: r) = true -> forall y, In y r -> x < y.
Proof.
  revert x. induction r as [|z r IH]; intros x H y Hy.
  - destruct Hy.
  - assert (Hxz : x < z).
    { cbn [sortedb] in H. apply andb_true_iff in H. destruct H as [H _]. apply N.ltb_lt in H. exact H. }
    destruct Hy as [Hy|Hy].
    + subst. exact Hxz.
    + apply sortedb_tail in H. specialize (IH z H y Hy). lia.
Qed.

(** ---- spans_aux ---- *)

Lemma spans_aux_spec l : forall start size,
  0 < size -> sortedb l = true -> (forall y, In y l -> start + size <= y) ->
  forall a k, In (a, k) (spans_aux start size l) ->
    0 < k /\ start <= a /\ start + size <= a + k /\
    (forall x, a <= x < a + k -> start <= x < start + size \/ In x l) /\
    ~ In (a + k) l /\
    (a = start \/ (start + size < a /\ ~ In (a - 1) l)).
Proof.
  induction l as [|x r IH]; intros start size Hsz Hs Hlb a k Hin.
  - cbn [spans_aux] in Hin. destruct Hin as [Hin|[]]. inversion Hin; subst.
    split; [exact Hsz|]. split; [lia|]. split; [lia|]. split; [|split].
    + intros x Hx. left. lia.
    + intros H; destruct H.
    + left. reflexivity.
  - cbn [spans_aux] in Hin.
    pose proof (sortedb_tail _ _ Hs) as Hsr.
    pose proof (sortedb_head_lt _ _ Hs) as Hlt.
    assert (Hx : start + size <= x) by (apply Hlb; left; reflexivity).
    destruct (x =? start + size) eqn:E.
    + apply N.eqb_eq in E.
      assert (Hlb' : forall y, In y r -> start + (size + 1) <= y).
      { intros y Hy. specialize (Hlt y Hy). lia. }
      destruct (IH start (size + 1) ltac:(lia) Hsr Hlb' a k Hin)
        as (Hk & Ha & Hak & Hrun & Hnr & Hl).
      split; [exact Hk|]. split; [exact Ha|]. split; [lia|]. split; [|split].
      * intros y Hy. destruct (Hrun y Hy) as [H1|H1].
        -- destruct (N.eq_dec y x) as [->|Hne]; [right; left; reflexivity | left; lia].
        -- right. right. exact H1.
      * intros [H1|H1]; [lia | exact (Hnr H1)].
      * destruct Hl as [Hl|[Hl1 Hl2]]; [left; exact Hl|].
        right. split; [lia|]. intros [H1|H1]; [lia | exact (Hl2 H1)].
    + apply N.eqb_neq in E.
      destruct Hin as [Hin|Hin].
      * inversion Hin; subst a k.
        split; [exact Hsz|]. split; [lia|]. split; [lia|]. split; [|split].
        -- intros y Hy. left. exact Hy.
        -- intros [H1|H1]; [lia|]. specialize (Hlt _ H1). lia.
        -- left. reflexivity.
      * assert (Hlb' : forall y, In y r -> x + 1 <= y).
        { intros y Hy. specialize (Hlt y Hy). lia. }
        destruct (IH x 1 ltac:(lia) Hsr Hlb' a k Hin)
          as (Hk & Ha & Hak & Hrun & Hnr & Hl).
        split; [exact Hk|]. split; [lia|]. split; [lia|]. split; [|split].
        -- intros y Hy. right. destruct (Hrun y Hy) as [H1|H1].
           ++ left. lia.
           ++ right. exact H1.
        -- intros [H1|H1]; [lia | exact (Hnr H1)].
        -- right. split; [lia|].
           destruct Hl as [Hl|[Hl1 Hl2]].
           ++ subst a. intros [H1|H1]; [lia|]. specialize (Hlt _ H1). lia.
           ++ intros [H1|H1]; [lia | exact (Hl2 H1)].
Qed.

Lemma spans_aux_cover l : forall start size x,
  0 < size ->
  (start <= x < start + size \/ In x l) ->
  exists a k, In (a, k) (spans_aux start size l) /\ a <= x < a + k.
Proof.
  induction l as [|y r IH]; intros start size x Hsz Hx.
  - destruct Hx as [Hx|[]]. exists start, size. split; [left; reflexivity | exact Hx].
  - cbn [spans_aux]. destruct (y =? start + size) eqn:E.
    + apply N.eqb_eq in E. apply IH; [lia|].
      destruct Hx as [Hx|[Hx|Hx]]; [left; lia | left; lia | right; exact Hx].
    + destruct Hx as [Hx|[Hx|Hx]].
      * exists start, size. split; [left; reflexivity | exact Hx].
      * subst y. destruct (IH x 1 x ltac:(lia) ltac:(left; lia)) as (a & k & H1 & H2).
        exists a, k. split; [right; exact H1 | exact H2].
      * destruct (IH y 1 x ltac:(lia) ltac:(right; exact Hx)) as (a & k & H1 & H2).
        exists a, k. split; [right; exact H1 | exact H2].
Qed.

(** ---- spans ---- *)

Lemma spans_sound l a k : sortedb l = true -> In (a, k) (spans l) ->
  0 < k /\ forall x, In x (run a k) -> In x l.
Proof.
  intros Hs Hin. destruct l as [|y r]; [destruct Hin|].
  cbn [spans] in Hin.
  assert (Hlb : forall z, In z r -> y + 1 <= z).
  { intros z Hz. pose proof (sortedb_head_lt _ _ Hs z Hz). lia. }
  destruct (spans_aux_spec r y 1 ltac:(lia) (sortedb_tail _ _ Hs) Hlb a k Hin)
    as (Hk & _ & _ & Hrun & _ & _).
  split; [exact Hk|]. intros x Hx. apply run_in in Hx.
  destruct (Hrun x Hx) as [H1|H1]; [left; lia | right; exact H1].
Qed.

Lemma spans_cover l x : sortedb l = true -> In x l ->
  exists a k, In (a, k) (spans l) /\ a <= x < a + k.
Proof.
  intros _ Hx. destruct l as [|y r]; [destruct Hx|].
  cbn [spans]. apply spans_aux_cover; [lia|].
  destruct Hx as [Hx|Hx]; [left; lia | right; exact Hx].
Qed.

Lemma spans_maximal l a k : sortedb l = true -> In (a, k) (spans l) ->
  ~ In (a + k) l /\ (a = 0 \/ ~ In (a - 1) l).
Proof.
  intros Hs Hin. destruct l as [|y r]; [destruct Hin|].
  cbn [spans] in Hin.
  pose proof (sortedb_head_lt _ _ Hs) as Hlt.
  assert (Hlb : forall z, In z r -> y + 1 <= z).
  { intros z Hz. specialize (Hlt z Hz). lia. }
  destruct (spans_aux_spec r y 1 ltac:(lia) (sortedb_tail _ _ Hs) Hlb a k Hin)
    as (Hk & Ha & Hak & _ & Hnr & Hl).
  split.
  - intros [H1|H1]; [lia | exact (Hnr H1)].
  - destruct (N.eq_dec a 0) as [Ha0|Ha0]; [left; exact Ha0|]. right.
    destruct Hl as [Hl|[Hl1 Hl2]].
    + subst a. intros [H1|H1]; [lia|]. specialize (Hlt _ H1). lia.
    + intros [H1|H1]; [lia | exact (Hl2 H1)].
Qed.

Lemma run_in_one_span l q n : sortedb l = true -> 0 < n ->
  (forall x, In x (run q n) -> In x l) ->
  exists a k, In (a, k) (spans l) /\ a <= q /\ q + n <= a + k.
Proof.
  intros Hs Hn Hrun.
  assert (Hq : In q l) by (apply Hrun, run_in; lia).
  destruct (spans_cover l q Hs Hq) as (a & k & Hin & Hak).
  exists a, k. split; [exact Hin|]. split; [lia|].
  destruct (N.le_gt_cases (q + n) (a + k)) as [H|H]; [exact H|].
  exfalso. destruct (spans_maximal l a k Hs Hin) as [Hno _].
  apply Hno, Hrun, run_in. lia.
Qed.

(** a start id determines its span *)
Lemma spans_start_unique l a k1 k2 : sortedb l = true ->
  In (a, k1) (spans l) -> In (a, k2) (spans l) -> k1 = k2.
Proof.
  intros Hs H1 H2.
  destruct (spans_sound l a k1 Hs H1) as [Hk1 Hr1].
  destruct (spans_sound l a k2 Hs H2) as [Hk2 Hr2].
  destruct (spans_maximal l a k1 Hs H1) as [Hn1 _].
  destruct (spans_maximal l a k2 Hs H2) as [Hn2 _].
  destruct (N.lt_trichotomy k1 k2) as [H|[H|H]]; [|exact H|]; exfalso.
  - apply Hn1, Hr2, run_in. lia.
  - apply Hn2, Hr1, run_in. lia.
Qed.

(** ---- hm_can_allocate / hm_admissible ---- *)

Lemma hm_can_allocate_iff l n : sortedb l = true -> 0 < n ->
  (hm_can_allocate l n = true <-> exists q, forall x, In x (run q n) -> In x l).
Proof.
  intros Hs Hn. unfold hm_can_allocate. rewrite existsb_exists. split.
  - intros [[a k] [Hin Hle]]. cbn [snd] in Hle. apply N.leb_le in Hle.
    exists a. intros x Hx. apply (proj2 (spans_sound l a k Hs Hin)).
    apply run_in. apply run_in in Hx. lia.
  - intros [q Hq]. destruct (run_in_one_span l q n Hs Hn Hq) as (a & k & Hin & H1 & H2).
    exists (a, k). split; [exact Hin|]. cbn [snd]. apply N.leb_le. lia.
Qed.

Lemma hm_admissible_span l n c : hm_admissible l n c = true ->
  exists k, In (c, k) (spans l) /\ n <= k.
Proof.
  unfold hm_admissible.
  destruct (existsb (fun s => snd s =? n) (spans l)); intros H;
    apply existsb_exists in H; destruct H as [[a k] [Hin H]]; cbn [fst snd] in H;
    apply andb_true_iff in H; destruct H as [Ha Hk]; apply N.eqb_eq in Ha; subst a;
    exists k; (split; [exact Hin|]).
  - apply N.eqb_eq in Hk. lia.
  - apply N.ltb_lt in Hk. lia.
Qed.

Lemma hm_admissible_exact l n c : hm_admissible l n c = true ->
  (exists a, In (a, n) (spans l)) -> In (c, n) (spans l).
Proof.
  unfold hm_admissible. intros H [a Ha].
  assert (E : existsb (fun s => snd s =? n) (spans l) = true).
  { apply existsb_exists. exists (a, n). split; [exact Ha | apply N.eqb_refl]. }
  rewrite E in H. apply existsb_exists in H. destruct H as [[a' k] [Hin H]]. cbn [fst snd] in H.
  apply andb_true_iff in H. destruct H as [H1 H2].
  apply N.eqb_eq in H1. apply N.eqb_eq in H2. subst. exact Hin.
Qed.

(** ---- allocate_hm ---- *)

(** inversion of a successful non-zero allocation *)
Lemma allocate_hm_inv txid n choice s p s' :
  allocate_hm txid n choice s = Some (p, s') -> p <> 0 ->
  n <> 0 /\ hm_can_allocate (free s) n = true /\ hm_admissible (free s) n choice = true /\
  p = choice /\
  s' = {| free := remove_ids (run choice n) (free s); pending := pending s;
          allocs := aset choice txid (allocs s); readers := readers s |}.
Proof.
  unfold allocate_hm. intros H Hp.
  destruct (n =? 0) eqn:En.
  { destruct (choice =? 0); [|discriminate]. inversion H; subst. congruence. }
  destruct (hm_can_allocate (free s) n) eqn:Ec; cbn [negb] in H.
  2:{ destruct (choice =? 0); [|discriminate]. inversion H; subst. congruence. }
  destruct (hm_admissible (free s) n choice) eqn:Ea; [|discriminate].
  inversion H; subst. apply N.eqb_neq in En. repeat split; auto.
Qed.

Theorem allocate_hm_sound txid n choice s p s' :
  sortedb (free s) = true -> allocate_hm txid n choice s = Some (p, s') -> p <> 0 ->
  0 < n /\ (forall x, In x (run p n) -> In x (free s)) /\
  free s' = remove_ids (run p n) (free s) /\
  pending s' = pending s /\ readers s' = readers s /\ alookup p (allocs s') = Some txid.
Proof.
  intros Hs H Hp.
  destruct (allocate_hm_inv _ _ _ _ _ _ H Hp) as (Hn & _ & Ha & -> & ->).
  destruct (hm_admissible_span _ _ _ Ha) as (k & Hin & Hk).
  split; [lia|]. split.
  - intros x Hx. apply (proj2 (spans_sound _ _ _ Hs Hin)).
    apply run_in. apply run_in in Hx. lia.
  - cbn [free pending readers allocs]. repeat split.
    unfold aset. cbn [alookup]. rewrite N.eqb_refl. reflexivity.
Qed.

Corollary allocate_hm_choice txid n choice s p s' :
  allocate_hm txid n choice s = Some (p, s') -> p = choice.
Proof.
  unfold allocate_hm. intros H.
  destruct (n =? 0).
  { destruct (choice =? 0) eqn:E; [|discriminate]. apply N.eqb_eq in E. inversion H; subst. reflexivity. }
  destruct (negb (hm_can_allocate (free s) n)).
  { destruct (choice =? 0) eqn:E; [|discriminate]. apply N.eqb_eq in E. inversion H; subst. reflexivity. }
  destruct (hm_admissible (free s) n choice); [|discriminate].
  inversion H; subst. reflexivity.
Qed.

Corollary allocate_hm_ge2 txid n choice s p s' :
  sortedb (free s) = true -> Forall (fun x => 2 <= x) (free s) ->
  allocate_hm txid n choice s = Some (p, s') -> p <> 0 -> 2 <= p.
Proof.
  intros Hs Hall H Hp.
  destruct (allocate_hm_sound _ _ _ _ _ _ Hs H Hp) as (Hn & Hrun & _).
  rewrite Forall_forall in Hall. apply Hall, Hrun, run_in. lia.
Qed.

Theorem allocate_hm_complete txid n choice s s' :
  sortedb (free s) = true -> Forall (fun x => 1 <= x) (free s) -> 0 < n ->
  allocate_hm txid n choice s = Some (0, s') ->
  s' = s /\ ~ (exists q, forall x, In x (run q n) -> In x (free s)).
Proof.
  intros Hs Hall Hn H. unfold allocate_hm in H.
  destruct (n =? 0) eqn:En; [apply N.eqb_eq in En; lia|].
  destruct (hm_can_allocate (free s) n) eqn:Ec; cbn [negb] in H.
  - exfalso.
    destruct (hm_admissible (free s) n choice) eqn:Ea; [|discriminate].
    inversion H; subst choice.
    destruct (hm_admissible_span _ _ _ Ea) as (k & Hin & Hk).
    destruct (spans_sound _ _ _ Hs Hin) as [Hk0 Hrun].
    rewrite Forall_forall in Hall.
    assert (H0 : In 0 (free s)) by (apply Hrun, run_in; lia).
    specialize (Hall 0 H0). lia.
  - destruct (choice =? 0); [|discriminate]. inversion H; subst s'.
    split; [reflexivity|].
    intros Hex. apply (hm_can_allocate_iff _ _ Hs Hn) in Hex. congruence.
Qed.

Theorem allocate_hm_exact_first txid n choice s p s' :
  sortedb (free s) = true -> allocate_hm txid n choice s = Some (p, s') -> p <> 0 ->
  (exists a, In (a, n) (spans (free s))) -> In (p, n) (spans (free s)).
Proof.
  intros Hs H Hp Hex.
  destruct (allocate_hm_inv _ _ _ _ _ _ H Hp) as (_ & _ & Ha & -> & _).
  exact (hm_admissible_exact _ _ _ Ha Hex).
Qed.

(** the returned id always starts a maximal free span of size >= n *)
Theorem allocate_hm_span_start txid n choice s p s' :
  sortedb (free s) = true -> allocate_hm txid n choice s = Some (p, s') -> p <> 0 ->
  exists k, In (p, k) (spans (free s)) /\ n <= k.
Proof.
  intros Hs H Hp.
  destruct (allocate_hm_inv _ _ _ _ _ _ H Hp) as (_ & _ & Ha & -> & _).
  exact (hm_admissible_span _ _ _ Ha).
Qed.

(** ---- alloc_ok (Hashmap) ---- *)

Lemma eqlN_true_eq a b : eqlN a b = true -> a = b.
Proof.
  revert b; induction a as [|x a IH]; intros [|y b]; cbn [eqlN]; try discriminate; [reflexivity|].
  intros H. apply andb_true_iff in H. destruct H as [E H]. apply N.eqb_eq in E. f_equal; auto.
Qed.

Theorem alloc_ok_hm_sound fb n ret fa : sortedb fb = true -> alloc_ok Hashmap fb n ret fa = true ->
  (ret = 0 -> fa = fb /\ (0 < n -> ~ exists q, forall x, In x (run q n) -> In x fb)) /\
  (ret <> 0 -> 2 <= ret /\ 0 < n /\ (forall x, In x (run ret n) -> In x fb) /\
               fa = remove_ids (run ret n) fb).
Proof.
  intros Hs H. unfold alloc_ok in H.
  destruct (ret =? 0) eqn:Er.
  - apply N.eqb_eq in Er. split; [|intros Hne; congruence]. intros _.
    apply andb_true_iff in H. destruct H as [H1 H2].
    split; [exact (eqlN_true_eq _ _ H2)|].
    intros Hn Hex. apply (hm_can_allocate_iff _ _ Hs Hn) in Hex.
    rewrite Hex in H1. apply N.ltb_lt in Hn. rewrite Hn in H1. discriminate.
  - apply N.eqb_neq in Er. split; [intros E; congruence|]. intros _.
    rewrite !andb_true_iff in H. destruct H as [[[[H1 H2] H3] H4] _].
    apply N.leb_le in H1. apply N.ltb_lt in H2. apply eqlN_true_eq in H4.
    rewrite forallb_forall in H3.
    split; [exact H1|]. split; [exact H2|]. split; [|exact H4].
    intros x Hx. apply memN_in, H3, Hx.
Qed.

(** converse direction (the decision procedure accepts every behaviour the declarative statement allows) *)
Theorem alloc_ok_hm_complete fb n ret fa : sortedb fb = true ->
  (ret = 0 -> fa = fb /\ (0 < n -> ~ exists q, forall x, In x (run q n) -> In x fb)) ->
  (ret <> 0 -> 2 <= ret /\ 0 < n /\ (forall x, In x (run ret n) -> In x fb) /\
               fa = remove_ids (run ret n) fb) ->
  alloc_ok Hashmap fb n ret fa = true.
Proof.
  assert (eqlN_refl : forall a, eqlN a a = true).
  { induction a as [|x a IH]; [reflexivity|]. cbn [eqlN]. rewrite N.eqb_refl. exact IH. }
  intros Hs H0 H1. unfold alloc_ok. destruct (ret =? 0) eqn:Er.
  - apply N.eqb_eq in Er. destruct (H0 Er) as [-> Hno]. rewrite eqlN_refl, andb_true_r.
    destruct (0 <? n) eqn:En; [|reflexivity]. apply N.ltb_lt in En. cbn [andb].
    destruct (hm_can_allocate fb n) eqn:Ec; [|reflexivity].
    exfalso. apply (Hno En). apply (hm_can_allocate_iff _ _ Hs En). exact Ec.
  - apply N.eqb_neq in Er. destruct (H1 Er) as (Hr & Hn & Hrun & ->).
    rewrite eqlN_refl, !andb_true_r. rewrite !andb_true_iff. repeat split.
    + apply N.leb_le. exact Hr.
    + apply N.ltb_lt. exact Hn.
    + apply forallb_forall. intros x Hx. apply memN_in, Hrun, Hx.
Qed.

(** the model's own Allocate always satisfies the decision procedure (given ids >= 2) *)
Theorem allocate_hm_alloc_ok txid n choice s p s' :
  sortedb (free s) = true -> Forall (fun x => 2 <= x) (free s) ->
  allocate_hm txid n choice s = Some (p, s') ->
  alloc_ok Hashmap (free s) n p (free s') = true.
Proof.
  intros Hs Hall H. apply alloc_ok_hm_complete; [exact Hs| |].
  - intros ->. destruct (N.eq_dec n 0) as [->|Hn].
    + unfold allocate_hm in H. cbn in H. destruct (choice =? 0); [|discriminate].
      inversion H; subst. split; [reflexivity | intros Hc; lia].
    + assert (Hall1 : Forall (fun x => 1 <= x) (free s)).
      { eapply Forall_impl; [|exact Hall]. cbn. intros; lia. }
      assert (Hn0 : 0 < n) by lia.
      destruct (allocate_hm_complete _ _ _ _ _ Hs Hall1 Hn0 H) as [-> Hno].
      split; [reflexivity | intros _; exact Hno].
  - intros Hp. destruct (allocate_hm_sound _ _ _ _ _ _ Hs H Hp) as (Hn & Hrun & Hf & _).
    split; [exact (allocate_hm_ge2 _ _ _ _ _ _ Hs Hall H Hp)|].
    split; [exact Hn|]. split; [exact Hrun | exact Hf].
Qed.

Print Assumptions spans_sound.
Print Assumptions spans_cover.
Print Assumptions spans_maximal.
Print Assumptions run_in_one_span.
Print Assumptions allocate_hm_sound.
Print Assumptions allocate_hm_ge2.
Print Assumptions allocate_hm_complete.
Print Assumptions allocate_hm_exact_first.
Print Assumptions alloc_ok_hm_sound.
Print Assumptions alloc_ok_hm_complete.
Print Assumptions allocate_hm_alloc_ok.
