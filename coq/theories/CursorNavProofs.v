(** Backward enumeration, Seek, and mixed navigation: on trees without emptied leaves the repaired cursor
    refines the list specification for every call sequence. *)
From Bbolt Require Import Base Spec SpecProofs Cursor CursorProofs CursorEnumProofs.
From Coq Require Import ZifyNat ZifyBool Setoid.
Close Scope N_scope.
Open Scope nat_scope.

(** ** list helpers *)
Lemma firstn_nil_len {A} (l : list A) n : firstn n l = [] -> n = 0 \/ l = [].
Proof. destruct n, l; cbn; intros H; auto; discriminate. Qed.

Lemma nth_error_last_split {A} (l : list A) i x : nth_error l i = Some x -> length l = S i ->
  l = firstn i l ++ [x] /\ skipn (S i) l = [].
Proof.
  intros Hn L. pose proof (nth_error_split_fs l i x Hn) as E.
  assert (S : skipn (S i) l = []) by (apply skipn_all2; lia). rewrite S in E. split; [exact E|exact S].
Qed.

Lemma app_snoc_inv {A} (b b' : list A) x y : b ++ [x] = b' ++ [y] -> b = b' /\ x = y.
Proof. intros H. apply app_inj_tail in H. exact H. Qed.

Lemma list_snoc_case {A} (l : list A) : l = [] \/ exists b x, l = b ++ [x].
Proof.
  destruct l as [|y l]; [left; reflexivity|right]. destruct (exists_last (l := y :: l)) as (b & x & E); [discriminate|].
  exists b, x. exact E.
Qed.

Lemma In_firstn_in {A} (l : list A) n x : In x (firstn n l) -> In x l.
Proof.
  revert l. induction n as [|n IH]; intros [|y l] H; cbn in H; auto; try contradiction.
  destruct H as [->|H]; [left; reflexivity|right; apply IH; exact H].
Qed.

(** ** last(): descend along the last children *)
Lemma go_last_good fuel : forall c rest, good c -> depth c <= fuel ->
  exists st b e, go_last fuel ((c, (count c - 1)%Z) :: rest) = Ok (st ++ rest) /\ at_pos c st b e [].
Proof.
  induction fuel as [|f IH]; intros c rest G D.
  - pose proof (depth_pos c). lia.
  - destruct c as [es|cs].
    + pose proof (good_leaf _ G) as Hne.
      destruct (list_snoc_case es) as [->|(b & x & E)]; [congruence|].
      assert (L : length es = S (length b)) by (rewrite E, app_length; cbn; lia).
      assert (Hn : nth_error es (length b) = Some x) by (rewrite E, nth_error_app2, Nat.sub_diag by lia; reflexivity).
      destruct (nth_error_last_split es (length b) x Hn L) as [_ Sk].
      exists [(Leaf es, Z.of_nat (length b))], (firstn (length b) es), x. split.
      * cbn [go_last is_leaf count app]. rewrite L. replace (Z.of_nat (S (length b)) - 1)%Z with (Z.of_nat (length b)) by lia. reflexivity.
      * apply AtLeaf; [exact Hn|reflexivity|symmetry; exact Sk].
    + destruct (good_branch _ G) as [Hne Hc].
      destruct (list_snoc_case cs) as [->|(pre & [k c0] & E)]; [congruence|].
      assert (L : length cs = S (length pre)) by (rewrite E, app_length; cbn; lia).
      assert (Hn : nth_error cs (length pre) = Some (k, c0)) by (rewrite E, nth_error_app2, Nat.sub_diag by lia; reflexivity).
      destruct (nth_error_last_split cs (length pre) _ Hn L) as [_ Sk].
      assert (G0 : good c0) by (apply (Hc k); eapply nth_error_In; exact Hn).
      pose proof (depth_child cs _ k c0 Hn) as D0.
      destruct (IH c0 ((Branch cs, Z.of_nat (length pre)) :: rest) G0 ltac:(lia)) as (st & b & e & Eg & P).
      exists (st ++ [(Branch cs, Z.of_nat (length pre))]), (flatten (Branch (firstn (length pre) cs)) ++ b), e. split.
      * cbn [go_last is_leaf child count]. rewrite L.
        replace (Z.of_nat (S (length pre)) - 1)%Z with (Z.of_nat (length pre)) by lia.
        destruct (Z.ltb_spec (Z.of_nat (length pre)) 0) as [X|_]; [lia|]. rewrite Nat2Z.id, Hn. cbn [option_map snd].
        rewrite Eg, <- app_assoc. reflexivity.
      * eapply AtBranch; [exact Hn|exact P|reflexivity|]. rewrite Sk. reflexivity.
Qed.

Lemma go_last_leaf fuel es i rest : 1 <= fuel -> go_last fuel ((Leaf es, i) :: rest) = Ok ((Leaf es, i) :: rest).
Proof. intros F. destruct fuel; [lia|]. reflexivity. Qed.

(** ** prev(): the loop that pops nodes standing at index 0 *)
Lemma prev_up_zero t rest : prev_up ((t, 0%Z) :: rest) = match rest with [] => PFirst | _ => prev_up rest end.
Proof. reflexivity. Qed.

Lemma prev_up_pos t i rest : prev_up ((t, Z.of_nat (S i)) :: rest) = PBreak ((t, Z.of_nat i) :: rest).
Proof.
  cbn [prev_up]. destruct (Z.gtb_spec (Z.of_nat (S i)) 0) as [_|X]; [|lia].
  replace (Z.of_nat (S i) - 1)%Z with (Z.of_nat i) by lia. reflexivity.
Qed.

Lemma at_pos_ne t st b e a : at_pos t st b e a -> st <> [].
Proof. intros P. destruct (at_pos_top _ _ _ _ _ P) as (es & i & tl & -> & _). discriminate. Qed.

Lemma prev_up_begin t st B e a : at_pos t st B e a -> B = [] -> good t ->
  forall rest, prev_up (st ++ rest) = match rest with [] => PFirst | _ => prev_up rest end.
Proof.
  induction 1 as [es i e b a Hn -> ->|cs i k c st b e a b' a' Hn H IH -> ->]; intros EB G rest.
  - apply firstn_nil_len in EB as [->| ->]; [|destruct i; discriminate]. reflexivity.
  - apply app_eq_nil in EB as [EB1 EB2]. destruct (good_branch _ G) as [_ Gc].
    rewrite <- app_assoc. cbn [app]. rewrite (IH EB2 (Gc k c (nth_error_In _ _ Hn))).
    cbn [flatten] in EB1. apply flat_map_good_nil in EB1.
    + apply firstn_nil_len in EB1 as [->| ->]; [|destruct i; discriminate]. reflexivity.
    + intros k' c' Hin. apply (Gc k'). eapply In_firstn_in. exact Hin.
Qed.

Lemma firstn_snoc_inv {A} (l : list A) i b x y : nth_error l i = Some y -> firstn i l = b ++ [x] ->
  exists j, i = S j /\ nth_error l j = Some x /\ firstn j l = b.
Proof.
  intros Hn E. destruct i as [|j]; [cbn in E; destruct b; discriminate|].
  assert (L : j < length l) by (assert (S j < length l) by (apply nth_error_Some; rewrite Hn; discriminate); lia).
  destruct (nth_error l j) as [z|] eqn:Ej; [|apply nth_error_None in Ej; lia].
  rewrite (firstn_S_nth _ _ _ Ej) in E. apply app_inj_tail in E as [E1 E2]. subst z.
  exists j. split; [reflexivity|split; [exact Ej|exact E1]].
Qed.

Lemma skipn_nth_cons {A} (l : list A) n x : nth_error l n = Some x -> skipn n l = x :: skipn (S n) l.
Proof.
  revert l. induction n as [|n IH]; intros [|y l] H; cbn in H; try discriminate.
  - injection H as ->. reflexivity.
  - cbn [skipn]. apply IH in H. exact H.
Qed.

Lemma prev_step t st B e a : at_pos t st B e a -> forall b' e', B = b' ++ [e'] -> good t ->
  forall fuel rest, depth t <= fuel ->
  exists st1 st2, prev_up (st ++ rest) = PBreak st1 /\ go_last fuel st1 = Ok (st2 ++ rest) /\
                  at_pos t st2 b' e' (e :: a).
Proof.
  induction 1 as [es i e b a Hn -> ->|cs i k c st b e a b' a' Hn H IH -> ->];
    intros b2 e2 EB G fuel rest D.
  - destruct (firstn_snoc_inv _ _ _ _ _ Hn EB) as (j & -> & Hj & Fj).
    exists ((Leaf es, Z.of_nat j) :: rest), [(Leaf es, Z.of_nat j)]. cbn [app]. split; [|split].
    + apply prev_up_pos.
    + apply go_last_leaf. pose proof (depth_pos (Leaf es)). lia.
    + apply AtLeaf; [exact Hj|symmetry; exact Fj|]. symmetry. apply skipn_nth_cons. exact Hn.
  - destruct (good_branch _ G) as [_ Gc]. pose proof (Gc k c (nth_error_In _ _ Hn)) as G0.
    pose proof (depth_child _ _ _ _ Hn) as D0.
    destruct (list_snoc_case b) as [->|(b0 & x & ->)].
    + (* the child is at its first element: move to the previous child and descend to its last element *)
      rewrite app_nil_r in EB. cbn [flatten] in EB.
      assert (Hi : exists j, i = S j).
      { destruct i as [|j]; [cbn in EB; destruct b2; discriminate|]. exists j. reflexivity. }
      destruct Hi as (j & ->).
      assert (Lj : j < length cs) by (assert (S j < length cs) by (apply nth_error_Some; rewrite Hn; discriminate); lia).
      destruct (nth_error cs j) as [[k1 c1]|] eqn:Hj; [|apply nth_error_None in Hj; lia].
      pose proof (Gc k1 c1 (nth_error_In _ _ Hj)) as G1.
      pose proof (depth_child _ _ _ _ Hj) as D1.
      destruct fuel as [|f]; [lia|].
      destruct (go_last_good f c1 ((Branch cs, Z.of_nat j) :: rest) G1 ltac:(lia)) as (st2 & b3 & e3 & E & P).
      exists ((Branch cs, Z.of_nat j) :: rest), (st2 ++ [(Branch cs, Z.of_nat j)]). split; [|split].
      * rewrite <- app_assoc. cbn [app]. rewrite (prev_up_begin _ _ _ _ _ H eq_refl G0). apply prev_up_pos.
      * cbn [go_last is_leaf child].
        destruct (Z.ltb_spec (Z.of_nat j) 0) as [X|_]; [lia|]. rewrite Nat2Z.id, Hj. cbn [option_map snd].
        rewrite E. rewrite <- app_assoc. reflexivity.
      * pose proof (at_pos_flatten _ _ _ _ _ P) as F1. pose proof (at_pos_flatten _ _ _ _ _ H) as F0.
        rewrite (firstn_S_nth _ _ _ Hj), flat_map_app in EB. cbn [flat_map snd] in EB.
        rewrite app_nil_r, F1, app_assoc in EB. apply app_inj_tail in EB as [<- <-].
        eapply AtBranch; [exact Hj|exact P|reflexivity|].
        rewrite (skipn_nth_cons _ _ _ Hn). cbn [flatten flat_map snd app]. rewrite F0. reflexivity.
    + rewrite app_assoc in EB. apply app_inj_tail in EB as [<- <-].
      destruct (IH b0 x eq_refl G0 fuel ((Branch cs, Z.of_nat i) :: rest) ltac:(lia)) as (st1 & st2 & N1 & E & P).
      exists st1, (st2 ++ [(Branch cs, Z.of_nat i)]). split; [|split].
      * rewrite <- app_assoc. exact N1.
      * rewrite E, <- app_assoc. reflexivity.
      * eapply AtBranch; [exact Hn|exact P|reflexivity|reflexivity].
Qed.

(** ** single calls: Prev, Last *)
Definition kv_of (e : elem) : kv := Some (fst (fst e), snd e, snd (fst e)).

Lemma kv_at_pos t st b e a (fixed : bool) (alt : res (stack * kv)) : at_pos t st b e a ->
  match st with
  | (t0, _) :: _ :: _ => if fixed && (count t0 =? 0)%Z then alt else let? x := key_value st in Ok (st, x)
  | _ => let? x := key_value st in Ok (st, x)
  end = Ok (st, kv_of e).
Proof.
  intros P. destruct (at_pos_top _ _ _ _ _ P) as (es & i & tl & -> & Hn). destruct e as [[k fl] v].
  destruct (key_value_top es i tl k fl v Hn) as [C K]. rewrite C, K, andb_false_r. destruct tl; reflexivity.
Qed.

Lemma prev_inside t st b' e' e a fuel fixed : at_pos t st (b' ++ [e']) e a -> good t -> depth t <= fuel ->
  exists st2, prev_ fixed fuel t st = Ok (st2, kv_of e') /\ at_pos t st2 b' e' (e :: a).
Proof.
  intros P G F. destruct fuel as [|f]; [pose proof (depth_pos t); lia|].
  destruct (prev_step _ _ _ _ _ P b' e' eq_refl G (S f) [] F) as (st1 & st2 & N1 & E & P2).
  rewrite app_nil_r in N1, E. exists st2. split; [|exact P2].
  cbn [prev_]. rewrite N1, E. cbn [bindr]. apply (kv_at_pos _ _ _ _ _ fixed _ P2).
Qed.

Lemma prev_at_begin t st e a fuel fixed : at_pos t st [] e a -> good t -> depth t <= fuel ->
  exists st2 e0 a0, prev_ fixed fuel t st = Ok (st2, None) /\ at_pos t st2 [] e0 a0.
Proof.
  intros P G F. destruct fuel as [|f]; [pose proof (depth_pos t); lia|].
  pose proof (prev_up_begin _ _ _ _ _ P eq_refl G []) as E. rewrite app_nil_r in E.
  destruct (first_good t (S f) G F) as (st2 & e0 & a0 & E1 & P2).
  exists st2, e0, a0. split; [|exact P2]. cbn [prev_]. rewrite E, E1. reflexivity.
Qed.

Lemma last_good t fuel : good t -> depth t <= fuel ->
  exists st b e, last_ true fuel t = Ok (st, kv_of e) /\ at_pos t st b e [].
Proof.
  intros G F. destruct (go_last_good fuel t [] G F) as (st & b & e & E & P).
  rewrite app_nil_r in E. exists st, b, e. split; [|exact P].
  unfold last_. rewrite E. cbn [bindr].
  destruct (at_pos_top _ _ _ _ _ P) as (es & i & tl & -> & Hn). destruct e as [[k fl] v].
  destruct (key_value_top es i tl k fl v Hn) as [C K]. rewrite C, K. destruct tl; reflexivity.
Qed.

(** ** byte order *)
Lemma blt_irrefl a : blt a a = false.
Proof. unfold blt. rewrite bcmp_refl. reflexivity. Qed.

Lemma blt_asym a b : blt a b = true -> blt b a = false.
Proof. unfold blt. rewrite (bcmp_antisym a b). destruct (bcmp a b); cbn; congruence. Qed.

(** a < b <= c *)
Lemma blt_lt_le_trans a b c : blt a b = true -> blt c b = false -> blt a c = true.
Proof.
  intros H1 H2. destruct (bcmp c b) eqn:E.
  - apply bcmp_eq in E. subst c. exact H1.
  - unfold blt in H2. rewrite E in H2. discriminate.
  - apply bcmp_gt_lt in E. eapply blt_trans; [exact H1|]. unfold blt. rewrite E. reflexivity.
Qed.

(** a <= b < c *)
Lemma blt_le_lt_trans a b c : blt b a = false -> blt b c = true -> blt a c = true.
Proof.
  intros H1 H2. destruct (bcmp b a) eqn:E.
  - apply bcmp_eq in E. subst b. exact H2.
  - unfold blt in H1. rewrite E in H1. discriminate.
  - apply bcmp_gt_lt in E. eapply blt_trans; [|exact H2]. unfold blt. rewrite E. reflexivity.
Qed.

(** a >= b >= c *)
Lemma blt_ge_trans a b c : blt a b = false -> blt b c = false -> blt a c = false.
Proof.
  intros H1 H2. destruct (blt a c) eqn:E; [|reflexivity].
  rewrite (blt_lt_le_trans a c b E H2) in H1. discriminate.
Qed.

(** ** strictly increasing key lists and sort.Search *)
Lemma str_inc_tail k r : str_inc (k :: r) = true -> str_inc r = true.
Proof. cbn [str_inc]. destruct r as [|k' r]; [reflexivity|]. intros H. apply andb_true_iff in H as [_ H]. exact H. Qed.

Lemma str_inc_head r : forall k, str_inc (k :: r) = true -> forall s, In s r -> blt k s = true.
Proof.
  induction r as [|k' r IH]; intros k H s Hin; [contradiction|].
  cbn [str_inc] in H. apply andb_true_iff in H as [H1 H2]. destruct Hin as [<-|Hin]; [exact H1|].
  eapply blt_trans; [exact H1|]. apply IH; assumption.
Qed.

Lemma str_inc_nth ks : str_inc ks = true -> forall i i' s s', i < i' ->
  nth_error ks i = Some s -> nth_error ks i' = Some s' -> blt s s' = true.
Proof.
  induction ks as [|k r IH]; intros H i i' s s' L Hi Hi'; [destruct i; discriminate|].
  destruct i' as [|i']; [lia|]. cbn [nth_error] in Hi'. destruct i as [|i].
  - cbn in Hi. injection Hi as <-. eapply str_inc_head; [exact H|]. eapply nth_error_In. exact Hi'.
  - cbn [nth_error] in Hi. eapply (IH (str_inc_tail _ _ H) i i'); [lia|exact Hi|exact Hi'].
Qed.

Lemma fg_len k ks : first_ge k ks <= length ks.
Proof. induction ks as [|x r IH]; cbn [first_ge length]; [lia|]. destruct (blt x k); lia. Qed.

Lemma fg_lt k ks : forall i s, i < first_ge k ks -> nth_error ks i = Some s -> blt s k = true.
Proof.
  induction ks as [|x r IH]; intros i s L Hn; cbn [first_ge] in L; [lia|].
  destruct (blt x k) eqn:E; [|lia]. destruct i as [|i]; cbn in Hn.
  - injection Hn as <-. exact E.
  - apply (IH i); [lia|exact Hn].
Qed.

Lemma fg_ge k ks : forall s, nth_error ks (first_ge k ks) = Some s -> blt s k = false.
Proof.
  induction ks as [|x r IH]; intros s Hn; cbn [first_ge] in Hn; [discriminate|].
  destruct (blt x k) eqn:E.
  - cbn [nth_error] in Hn. apply IH. exact Hn.
  - cbn in Hn. injection Hn as <-. exact E.
Qed.

(** the child that searchNode/searchPage descends into *)
Definition pick (k : bytes) (ks : list bytes) : nat :=
  let idx := first_ge k ks in
  let exact := match nth_error ks idx with Some s => beq s k | None => false end in
  if negb exact && (0 <? idx)%nat then (idx - 1)%nat else idx.

Lemma beq_eq a b : beq a b = true -> a = b.
Proof. unfold beq. destruct (bcmp a b) eqn:E; try discriminate. intros _. apply bcmp_eq. exact E. Qed.

Lemma pick_spec k ks : str_inc ks = true -> ks <> [] ->
  pick k ks < length ks /\
  (forall i s, i < pick k ks -> nth_error ks (S i) = Some s -> blt k s = false) /\
  (forall i s, pick k ks < i -> nth_error ks i = Some s -> blt s k = false).
Proof.
  intros SI Hne. unfold pick.
  pose proof (fg_len k ks) as FL. pose proof (fg_lt k ks) as FLT. pose proof (fg_ge k ks) as FGE.
  assert (Lpos : 0 < length ks) by (destruct ks; [congruence|cbn; lia]).
  set (idx := first_ge k ks) in *.
  destruct (nth_error ks idx) as [s0|] eqn:E0.
  - assert (Li : idx < length ks) by (apply nth_error_Some; rewrite E0; discriminate).
    pose proof (FGE s0 eq_refl) as GE0.
    assert (After : forall i s, idx < i -> nth_error ks i = Some s -> blt s k = false).
    { intros i s L Hn. pose proof (str_inc_nth ks SI idx i s0 s L E0 Hn) as X.
      eapply blt_ge_trans; [apply blt_asym; exact X|exact GE0]. }
    destruct (beq s0 k) eqn:EX; cbn [negb andb].
    + apply beq_eq in EX. subst s0. split; [exact Li|]. split.
      * intros i s L Hn. destruct (Nat.eq_dec (S i) idx) as [Ei|Ni].
        -- rewrite Ei, E0 in Hn. injection Hn as <-. apply blt_irrefl.
        -- apply blt_asym. apply (FLT (S i)); [lia|exact Hn].
      * exact After.
    + destruct (Nat.ltb_spec 0 idx) as [P|P].
      * split; [lia|]. split.
        -- intros i s L Hn. apply blt_asym. apply (FLT (S i)); [lia|exact Hn].
        -- intros i s L Hn. destruct (Nat.eq_dec i idx) as [->|Ni].
           ++ rewrite E0 in Hn. injection Hn as <-. exact GE0.
           ++ apply After with i; [lia|exact Hn].
      * split; [exact Li|]. split; [intros i s L; lia|exact After].
  - apply nth_error_None in E0. cbn [negb andb].
    destruct (Nat.ltb_spec 0 idx) as [P|P]; [|lia].
    split; [lia|]. split.
    + intros i s L Hn. apply blt_asym. apply (FLT (S i)); [lia|exact Hn].
    + intros i s L Hn. assert (i < length ks) by (apply nth_error_Some; rewrite Hn; discriminate). lia.
Qed.

(** ** key-order well-formedness, unfolded *)
Fixpoint wfgo (lo hi : option bytes) (first : bool) (cs : list (bytes * tree)) : bool :=
  match cs with
  | [] => true
  | (k, c) :: r =>
      wfb c (if first then lo else Some k) (match r with [] => hi | (k', _) :: _ => Some k' end)
      && wfgo lo hi false r
  end.

Lemma wfgo_eq lo hi cs : forall first,
  (fix go (first : bool) (cs : list (bytes * tree)) : bool :=
     match cs with
     | [] => true
     | (k, c) :: r =>
         wfb c (if first then lo else Some k) (match r with [] => hi | (k', _) :: _ => Some k' end)
         && go false r
     end) first cs = wfgo lo hi first cs.
Proof.
  induction cs as [|[k c] cs IH]; intros first; [reflexivity|].
  cbn [wfgo]. rewrite <- IH. reflexivity.
Qed.

Lemma wfb_branch cs lo hi : wfb (Branch cs) lo hi =
  negb (length cs =? 0)%nat && str_inc (map fst cs) && forallb (fun k => in_hi k hi) (map fst cs) && wfgo lo hi true cs.
Proof. rewrite <- wfgo_eq. reflexivity. Qed.

Lemma wfgo_nth lo hi cs : forall first i s c, wfgo lo hi first cs = true -> nth_error cs i = Some (s, c) ->
  wfb c (if first && (i =? 0)%nat then lo else Some s)
        (match nth_error cs (S i) with Some (s', _) => Some s' | None => hi end) = true.
Proof.
  induction cs as [|[k0 c0] cs IH]; intros first i s c W Hn; [destruct i; discriminate|].
  cbn [wfgo] in W. apply andb_true_iff in W as [W1 W2]. destruct i as [|i].
  - cbn in Hn. injection Hn as <- <-. rewrite andb_true_r. cbn [nth_error].
    destruct cs as [|[k' c'] cs]; exact W1.
  - cbn [nth_error] in Hn. specialize (IH false i s c W2 Hn). cbn [andb] in IH.
    rewrite andb_false_r. exact IH.
Qed.

Definition key (e : elem) : bytes := fst (fst e).
Definition bounded (lo hi : option bytes) (e : elem) : Prop :=
  in_lo lo (key e) = true /\ in_hi (key e) hi = true.

Lemma in_hi_weaken x s hi : blt x s = true -> in_hi s hi = true -> in_hi x hi = true.
Proof. destruct hi as [h|]; [|reflexivity]. cbn [in_hi]. apply blt_trans. Qed.

Lemma wfb_bounds n : forall t lo hi, depth t <= n -> good t -> wfb t lo hi = true ->
  forall x, In x (flatten t) -> bounded lo hi x.
Proof.
  induction n as [|n IH]; intros t lo hi D G W x Hin; [pose proof (depth_pos t); lia|].
  destruct t as [es|cs].
  - cbn [wfb] in W. apply andb_true_iff in W as [_ W]. rewrite forallb_forall in W.
    specialize (W (key x) (in_map _ _ _ Hin)). apply andb_true_iff in W. exact W.
  - rewrite wfb_branch in W. apply andb_true_iff in W as [W W4]. apply andb_true_iff in W as [W W3].
    apply andb_true_iff in W as [W1 W2]. rewrite forallb_forall in W3.
    destruct (good_branch _ G) as [_ Gc].
    assert (Sub : forall i s c, nth_error cs i = Some (s, c) ->
              forall y, In y (flatten c) ->
              bounded (if (i =? 0)%nat then lo else Some s)
                      (match nth_error cs (S i) with Some (s', _) => Some s' | None => hi end) y).
    { intros i s c Hn y Hy. pose proof (depth_child _ _ _ _ Hn) as Dc.
      apply (IH c _ _ ltac:(lia) (Gc s c (nth_error_In _ _ Hn))); [|exact Hy].
      apply (wfgo_nth lo hi cs true i s c W4 Hn). }
    cbn [flatten] in Hin. apply in_flat_map in Hin as ([s c] & Hc & Hx). cbn [snd] in Hx.
    apply In_nth_error in Hc as (i & Hn). destruct (Sub i s c Hn x Hx) as [BL BH]. split.
    + destruct i as [|i]; [exact BL|]. cbn [Nat.eqb] in BL. destruct lo as [l|]; [|reflexivity].
      cbn [in_lo] in BL |- *. apply negb_true_iff in BL. apply negb_true_iff.
      (* some element y of child 0 has l <= y < s1 <= s <= x *)
      assert (L : S i < length cs) by (apply nth_error_Some; rewrite Hn; discriminate).
      destruct (nth_error cs 0) as [[s0 c0]|] eqn:H0; [|apply nth_error_None in H0; lia].
      destruct (nth_error cs 1) as [[s1 c1]|] eqn:H1; [|apply nth_error_None in H1; lia].
      pose proof (Gc s0 c0 (nth_error_In _ _ H0)) as G0. apply good_flatten_ne in G0.
      destruct (flatten c0) as [|y ys] eqn:Fy; [congruence|].
      destruct (Sub 0 s0 c0 H0 y ltac:(rewrite Fy; left; reflexivity)) as [YL YH].
      rewrite H1 in YH. cbn [Nat.eqb in_lo in_hi] in YL, YH. apply negb_true_iff in YL.
      pose proof (blt_le_lt_trans l (key y) s1 YL YH) as Ls1.
      assert (Ls : blt l s = true).
      { destruct (Nat.eq_dec i 0) as [->|Ni].
        - rewrite H1 in Hn. injection Hn as <- <-. exact Ls1.
        - eapply blt_trans; [exact Ls1|].
          apply (str_inc_nth (map fst cs) W2 1 (S i)); [lia| |]; rewrite nth_error_map.
          + rewrite H1. reflexivity.
          + rewrite Hn. reflexivity. }
      eapply blt_ge_trans; [exact BL|apply blt_asym; exact Ls].
    + destruct (nth_error cs (S i)) as [[s' c']|] eqn:Hs; [|exact BH].
      cbn [in_hi] in BH. eapply in_hi_weaken; [exact BH|]. apply W3.
      apply nth_error_In in Hs. apply (in_map fst) in Hs. exact Hs.
Qed.

(** ** search *)
Definition ltk (k : bytes) (e : elem) : Prop := blt (key e) k = true.
Definition gek (k : bytes) (e : elem) : Prop := blt (key e) k = false.
Notation keys l := (map (fun e : elem => fst (fst e)) l).

Lemma fg_firstn_elems k (es : list elem) : Forall (ltk k) (firstn (first_ge k (keys es)) es).
Proof.
  induction es as [|e es IH]; cbn [map first_ge]; [constructor|].
  destruct (blt (fst (fst e)) k) eqn:E; cbn [firstn]; constructor; [exact E|exact IH].
Qed.

Lemma fg_nth_elem k (es : list elem) e : nth_error es (first_ge k (keys es)) = Some e -> gek k e.
Proof.
  intros Hn. apply (fg_ge k (keys es)). rewrite nth_error_map, Hn. reflexivity.
Qed.

Lemma fg_app k (b r : list elem) : Forall (ltk k) b -> match r with [] => True | e :: _ => gek k e end ->
  first_ge k (keys (b ++ r)) = length b.
Proof.
  intros Hb Hr. induction Hb as [|x b Hx _ IH]; cbn [app map first_ge length].
  - destruct r as [|e r]; [reflexivity|]. cbn [map first_ge]. unfold gek, key in Hr. rewrite Hr. reflexivity.
  - unfold ltk, key in Hx. rewrite Hx, IH. reflexivity.
Qed.

Lemma In_firstn_nth {A} (l : list A) n x : In x (firstn n l) -> exists i, i < n /\ nth_error l i = Some x.
Proof.
  revert l. induction n as [|n IH]; intros [|y l] H; cbn in H; try contradiction.
  destruct H as [->|H]; [exists 0; split; [lia|reflexivity]|].
  destruct (IH l H) as (i & L & Hn). exists (S i). split; [lia|exact Hn].
Qed.

Lemma In_skipn_nth {A} (l : list A) n x : In x (skipn n l) -> exists i, n <= i /\ nth_error l i = Some x.
Proof.
  revert l. induction n as [|n IH]; intros l H.
  - cbn in H. apply In_nth_error in H as (i & Hn). exists i. split; [lia|exact Hn].
  - destruct l as [|y l]; [contradiction|]. cbn [skipn] in H.
    destruct (IH l H) as (i & L & Hn). exists (S i). split; [lia|exact Hn].
Qed.

(** what search leaves on the stack: either an element (everything before it is < k, it is >= k), or the
    position just past the last element of a leaf (everything up to there is < k, everything after is >= k) *)
Definition past_leaf (t : tree) (st : stack) (b : list elem) (e : elem) (a : list elem) : Prop :=
  exists es i tl, st = (Leaf es, Z.of_nat (S i)) :: tl /\ length es = S i /\
                  at_pos t ((Leaf es, Z.of_nat i) :: tl) b e a.

Definition search_post (t : tree) (k : bytes) (st : stack) : Prop :=
  (exists b e a, at_pos t st b e a /\ Forall (ltk k) b /\ gek k e) \/
  (exists b e a, past_leaf t st b e a /\ Forall (ltk k) (b ++ [e]) /\ Forall (gek k) a).

Lemma search_good k fuel : forall t lo hi rest, good t -> wfb t lo hi = true -> depth t <= fuel ->
  exists st, search fuel k t rest = Ok (st ++ rest) /\ search_post t k st.
Proof.
  induction fuel as [|f IH]; intros t lo hi rest G W D; [pose proof (depth_pos t); lia|].
  destruct t as [es|cs].
  - cbn [search is_leaf tree_keys]. pose proof (fg_len k (keys es)) as FL. rewrite map_length in FL.
    pose proof (fg_firstn_elems k es) as FF.
    set (idx := first_ge k (keys es)) in *.
    destruct (nth_error es idx) as [e|] eqn:En.
    + exists [(Leaf es, Z.of_nat idx)]. split; [reflexivity|]. left.
      exists (firstn idx es), e, (skipn (S idx) es). split; [|split].
      * apply AtLeaf; [exact En|reflexivity|reflexivity].
      * exact FF.
      * apply (fg_nth_elem k es). exact En.
    + apply nth_error_None in En. assert (idx = length es) by lia.
      pose proof (good_leaf _ G) as Hne.
      destruct (list_snoc_case es) as [->|(b & x & E)]; [congruence|].
      assert (L : length es = S (length b)) by (rewrite E, app_length; cbn; lia).
      assert (Hn : nth_error es (length b) = Some x) by (rewrite E, nth_error_app2, Nat.sub_diag by lia; reflexivity).
      destruct (nth_error_last_split es (length b) x Hn L) as [Es Sk].
      exists [(Leaf es, Z.of_nat (S (length b)))]. split; [cbn [app]; do 3 f_equal; lia|]. right.
      exists (firstn (length b) es), x, []. split; [|split].
      * exists es, (length b), []. split; [reflexivity|]. split; [exact L|].
        apply AtLeaf; [exact Hn|reflexivity|symmetry; exact Sk].
      * rewrite <- Es. rewrite H, firstn_all in FF. exact FF.
      * constructor.
  - pose proof W as W0. rewrite wfb_branch in W. apply andb_true_iff in W as [W W4]. apply andb_true_iff in W as [W W3].
    apply andb_true_iff in W as [W1 W2].
    destruct (good_branch _ G) as [Hne Gc].
    assert (KN : map fst cs <> []) by (destruct cs; [congruence|discriminate]).
    destruct (pick_spec k (map fst cs) W2 KN) as (PL & PB & PA). rewrite map_length in PL.
    cbn [search is_leaf tree_keys]. fold (pick k (map fst cs)).
    set (j := pick k (map fst cs)) in *.
    destruct (nth_error cs j) as [[s c]|] eqn:Hj; [|apply nth_error_None in Hj; lia].
    cbn [child]. destruct (Z.ltb_spec (Z.of_nat j) 0) as [X|_]; [lia|]. rewrite Nat2Z.id, Hj. cbn [option_map snd].
    pose proof (Gc s c (nth_error_In _ _ Hj)) as G0. pose proof (depth_child _ _ _ _ Hj) as D0.
    pose proof (wfgo_nth lo hi cs true j s c W4 Hj) as Wc.
    destruct (IH c _ _ ((Branch cs, Z.of_nat j) :: rest) G0 Wc ltac:(lia)) as (st & E & Post).
    exists (st ++ [(Branch cs, Z.of_nat j)]). split; [rewrite E, <- app_assoc; reflexivity|].
    assert (Sub : forall i s c, nth_error cs i = Some (s, c) ->
              forall y, In y (flatten c) ->
              bounded (if (i =? 0)%nat then lo else Some s)
                      (match nth_error cs (S i) with Some (s', _) => Some s' | None => hi end) y).
    { intros i s' c' Hn y Hy.
      apply (wfb_bounds (depth c') c' _ _ (le_n _) (Gc s' c' (nth_error_In _ _ Hn))); [|exact Hy].
      apply (wfgo_nth lo hi cs true i s' c' W4 Hn). }
    assert (Pre : Forall (ltk k) (flatten (Branch (firstn j cs)))).
    { apply Forall_forall. intros x Hx. cbn [flatten] in Hx. apply in_flat_map in Hx as ([s' c'] & Hc & Hx).
      cbn [snd] in Hx. apply In_firstn_nth in Hc as (i & Li & Hn).
      destruct (Sub i s' c' Hn x Hx) as [_ BH].
      assert (L : S i < length cs) by lia.
      destruct (nth_error cs (S i)) as [[s1 c1]|] eqn:H1; [|apply nth_error_None in H1; lia].
      cbn [in_hi] in BH. unfold ltk. eapply blt_lt_le_trans; [exact BH|].
      apply (PB i s1 Li). rewrite nth_error_map, H1. reflexivity. }
    assert (Suf : Forall (gek k) (flatten (Branch (skipn (S j) cs)))).
    { apply Forall_forall. intros x Hx. cbn [flatten] in Hx. apply in_flat_map in Hx as ([s' c'] & Hc & Hx).
      cbn [snd] in Hx. apply In_skipn_nth in Hc as (i & Li & Hn).
      destruct (Sub i s' c' Hn x Hx) as [BL _].
      destruct i as [|i]; [lia|]. cbn [Nat.eqb in_lo] in BL. apply negb_true_iff in BL.
      unfold gek. eapply blt_ge_trans; [exact BL|].
      apply (PA (S i) s' ltac:(lia)). rewrite nth_error_map, Hn. reflexivity. }
    destruct Post as [(b & e & a & P & Hb & He)|(b & e & a & (es & i & tl & -> & Les & P) & Hb & Ha)].
    + left. exists (flatten (Branch (firstn j cs)) ++ b), e, (a ++ flatten (Branch (skipn (S j) cs))).
      split; [|split].
      * eapply AtBranch; [exact Hj|exact P|reflexivity|reflexivity].
      * apply Forall_app. split; assumption.
      * exact He.
    + right. exists (flatten (Branch (firstn j cs)) ++ b), e, (a ++ flatten (Branch (skipn (S j) cs))).
      split; [|split].
      * exists es, i, (tl ++ [(Branch cs, Z.of_nat j)]). split; [reflexivity|]. split; [exact Les|].
        change ((Leaf es, Z.of_nat i) :: tl ++ [(Branch cs, Z.of_nat j)]) with (((Leaf es, Z.of_nat i) :: tl) ++ [(Branch cs, Z.of_nat j)]).
        eapply AtBranch; [exact Hj|exact P|reflexivity|reflexivity].
      * rewrite <- app_assoc. apply Forall_app. split; assumption.
      * apply Forall_app. split; assumption.
Qed.

(** ** next() from the position just past a leaf's last element *)
Lemma next_up_past es i tl : length es = S i ->
  next_up ((Leaf es, Z.of_nat (S i)) :: tl) = next_up ((Leaf es, Z.of_nat i) :: tl).
Proof. intros L. rewrite !next_up_leaf_last by lia. reflexivity. Qed.

Lemma next_congr fuel st st0 : 1 <= fuel -> next_up st = next_up st0 ->
  next_ fuel st = match next_up st0 with None => Ok (st, None) | Some _ => next_ fuel st0 end.
Proof.
  intros F E. destruct fuel as [|f]; [lia|]. cbn [next_]. rewrite E. destruct (next_up st0); reflexivity.
Qed.

Lemma next_past_end t st b e fuel : past_leaf t st b e [] -> good t -> 1 <= fuel -> next_ fuel st = Ok (st, None).
Proof.
  intros (es & i & tl & -> & L & P) G F. rewrite (next_congr fuel _ _ F (next_up_past es i tl L)).
  pose proof (next_up_end _ _ _ _ P G []) as E. rewrite app_nil_r in E. rewrite E. reflexivity.
Qed.

Lemma next_past_in t st b e e' a' fuel : past_leaf t st b e (e' :: a') -> good t -> depth t <= fuel ->
  exists st2, next_ fuel st = Ok (st2, kv_of e') /\ at_pos t st2 (b ++ [e]) e' a'.
Proof.
  intros (es & i & tl & -> & L & P) G F. pose proof (depth_pos t) as DP.
  rewrite (next_congr fuel _ _ ltac:(lia) (next_up_past es i tl L)).
  destruct (next_step _ _ _ _ _ P e' a' eq_refl G fuel [] F) as (st1 & st2 & N1 & _ & _).
  rewrite app_nil_r in N1. rewrite N1. apply (next_inside _ _ _ _ _ _ fuel P G F).
Qed.

(** ** the list specification, call by call *)
Lemma nth_mid {A} (b : list A) e a : nth_error (b ++ e :: a) (length b) = Some e.
Proof. rewrite nth_error_app2, Nat.sub_diag by lia. reflexivity. Qed.

Lemma lc_first e a p : list_call (e :: a) p CFirst = (At 0, show (Some e)).
Proof. reflexivity. Qed.

Lemma lc_last b e p : list_call (b ++ [e]) p CLast = (At (length b), show (Some e)).
Proof.
  cbn [list_call]. rewrite app_length, Nat.add_1_r. rewrite nth_mid. reflexivity.
Qed.

Lemma lc_next_in b e e' a' : list_call (b ++ e :: e' :: a') (At (length b)) CNext = (At (S (length b)), show (Some e')).
Proof.
  cbn [list_call]. rewrite app_length. cbn [length].
  destruct (Nat.ltb_spec (S (length b)) (length b + S (S (length a')))) as [_|X]; [|lia].
  replace (b ++ e :: e' :: a') with ((b ++ [e]) ++ e' :: a') by (rewrite <- app_assoc; reflexivity).
  replace (S (length b)) with (length (b ++ [e])) by (rewrite app_length; cbn; lia).
  rewrite nth_mid. reflexivity.
Qed.

Lemma lc_next_end b e : list_call (b ++ [e]) (At (length b)) CNext = (At (length b), (None, None)).
Proof.
  cbn [list_call]. rewrite app_length. cbn [length].
  destruct (Nat.ltb_spec (S (length b)) (length b + 1)) as [X|_]; [lia|]. reflexivity.
Qed.

Lemma lc_next_past l : list_call l (At (length l)) CNext = (At (length l), (None, None)).
Proof.
  cbn [list_call]. destruct (Nat.ltb_spec (S (length l)) (length l)) as [X|_]; [lia|]. reflexivity.
Qed.

Lemma lc_prev_in b' e' r : list_call (b' ++ e' :: r) (At (S (length b'))) CPrev = (At (length b'), show (Some e')).
Proof. cbn [list_call]. rewrite nth_mid. reflexivity. Qed.

Lemma lc_prev_past b e : list_call (b ++ [e]) (At (length (b ++ [e]))) CPrev = (At (length b), show (Some e)).
Proof. rewrite app_length, Nat.add_1_r. apply lc_prev_in. Qed.

(** ** the simulation relation between cursor stacks and list positions *)
Definition rel (t : tree) (st : stack) (p : lpos) : Prop :=
  match p with
  | Unset => st = []
  | At i => (exists b e a, at_pos t st b e a /\ length b = i) \/
            (i = length (flatten t) /\ exists b e, past_leaf t st b e [])
  end.

Definition kv_opt (o : option elem) : kv := match o with Some e => kv_of e | None => None end.

Lemma api_kv_opt o : api_kv (kv_opt o) = show o.
Proof. destruct o as [e|]; [apply api_kv_show|reflexivity]. Qed.

Lemma seek_good t fuel k : good t -> wf t = true -> depth t <= fuel ->
  exists st, seek_ fuel t k = Ok (st, kv_opt (nth_error (flatten t) (first_ge k (keys (flatten t))))) /\
             rel t st (At (first_ge k (keys (flatten t)))).
Proof.
  intros G W F. pose proof (depth_pos t) as DP.
  destruct (search_good k fuel t None None [] G W F) as (st & E & Post). rewrite app_nil_r in E.
  unfold seek_. rewrite E. cbn [bindr].
  destruct Post as [(b & e & a & P & Hb & He)|(b & e & a & PL & Hb & Ha)].
  - pose proof (at_pos_flatten _ _ _ _ _ P) as Fl. rewrite Fl.
    rewrite (fg_app k b (e :: a) Hb He), nth_mid. exists st. split.
    + destruct (at_pos_top _ _ _ _ _ P) as (es & i & tl & -> & Hn). destruct e as [[k0 fl] v].
      destruct (key_value_top es i tl k0 fl v Hn) as [_ K]. rewrite K. cbn [bindr count].
      assert (L : i < length es) by (apply nth_error_Some; rewrite Hn; discriminate).
      destruct (Z.geb_spec (Z.of_nat i) (Z.of_nat (length es))) as [X|_]; [lia|]. reflexivity.
    + left. exists b, e, a. split; [exact P|reflexivity].
  - pose proof PL as (es & i & tl & Est & L & P).
    pose proof (at_pos_flatten _ _ _ _ _ P) as Fl. rewrite Fl.
    replace (b ++ e :: a) with ((b ++ [e]) ++ a) by (rewrite <- app_assoc; reflexivity).
    assert (Hh : match a with [] => True | e0 :: _ => gek k e0 end) by (destruct Ha; [exact I|assumption]).
    rewrite (fg_app k (b ++ [e]) a Hb Hh).
    assert (KV : key_value st = Ok None).
    { rewrite Est. cbn [key_value count]. rewrite L.
      destruct (Z.geb_spec (Z.of_nat (S i)) (Z.of_nat (S i))) as [_|X]; [|lia]. rewrite orb_true_r. reflexivity. }
    assert (GE : match st with (t0, i0) :: _ => (i0 >=? count t0)%Z | [] => false end = true).
    { rewrite Est. cbn [count]. rewrite L. destruct (Z.geb_spec (Z.of_nat (S i)) (Z.of_nat (S i))) as [_|X]; [reflexivity|lia]. }
    rewrite KV. cbn [bindr].
    assert (SK : match st with (t0, i0) :: _ => if (i0 >=? count t0)%Z then next_ fuel st else Ok (st, None) | [] => Panic end
                 = next_ fuel st).
    { rewrite Est in GE |- *. rewrite GE. reflexivity. }
    setoid_rewrite SK. destruct a as [|e' a'].
    + rewrite (next_past_end _ _ _ _ fuel PL G ltac:(lia)). exists st. split.
      * rewrite app_nil_r. replace (nth_error (b ++ [e]) (length (b ++ [e]))) with (@None elem); [reflexivity|].
        symmetry. apply nth_error_None. lia.
      * right. split; [rewrite Fl, !app_length; cbn [length]; lia|]. exists b, e. exact PL.
    + destruct (next_past_in _ _ _ _ _ _ fuel PL G F) as (st2 & N & P2).
      exists st2. rewrite nth_mid. split; [exact N|]. left. exists (b ++ [e]), e', a'. split; [exact P2|reflexivity].
Qed.

(** ** one call preserves the relation and returns what the list says *)
Lemma step t fuel : good t -> wf t = true -> depth t <= fuel -> forall st p c, rel t st p ->
  exists st', api_call true fuel t st c = Ok (st', snd (list_call (flatten t) p c)) /\
              rel t st' (fst (list_call (flatten t) p c)).
Proof.
  intros G W F st p c R. pose proof (depth_pos t) as DP. unfold api_call.
  destruct c as [| | | |k].
  - (* First *)
    destruct (first_good t fuel G F) as (st' & e & a & E & P).
    pose proof (at_pos_flatten _ _ _ _ _ P) as Fl. cbn [app] in Fl.
    assert (LC : list_call (flatten t) p CFirst = (At 0, show (Some e))) by (rewrite Fl; apply lc_first).
    rewrite LC, E. cbn [bindr fst snd]. rewrite api_kv_show. exists st'. split; [reflexivity|].
    left. exists [], e, a. split; [exact P|reflexivity].
  - (* Last *)
    destruct (last_good t fuel G F) as (st' & b & e & E & P).
    pose proof (at_pos_flatten _ _ _ _ _ P) as Fl.
    assert (LC : list_call (flatten t) p CLast = (At (length b), show (Some e))) by (rewrite Fl; apply lc_last).
    rewrite LC, E. cbn [bindr fst snd]. unfold kv_of. rewrite api_kv_show. exists st'. split; [reflexivity|].
    left. exists b, e, []. split; [exact P|reflexivity].
  - (* Next *)
    destruct p as [|i].
    + cbn in R. subst st. exists []. destruct fuel as [|f]; [lia|]. split; reflexivity.
    + destruct R as [(b & e & a & P & <-)|(-> & b & e & PL)].
      * pose proof (at_pos_flatten _ _ _ _ _ P) as Fl. destruct a as [|e' a'].
        -- assert (LC : list_call (flatten t) (At (length b)) CNext = (At (length b), (None, None))) by (rewrite Fl; apply lc_next_end).
           rewrite LC, (next_at_end _ _ _ _ fuel P G ltac:(lia)). cbn [bindr fst snd api_kv].
           exists st. split; [reflexivity|]. left. exists b, e, []. split; [exact P|reflexivity].
        -- assert (LC : list_call (flatten t) (At (length b)) CNext = (At (S (length b)), show (Some e'))) by (rewrite Fl; apply lc_next_in).
           destruct (next_inside _ _ _ _ _ _ fuel P G F) as (st2 & E & P2).
           rewrite LC, E. cbn [bindr fst snd]. rewrite api_kv_show. exists st2. split; [reflexivity|].
           left. exists (b ++ [e]), e', a'. split; [exact P2|rewrite app_length; cbn; lia].
      * rewrite lc_next_past, (next_past_end _ _ _ _ fuel PL G ltac:(lia)). cbn [bindr fst snd api_kv].
        exists st. split; [reflexivity|]. right. split; [reflexivity|]. exists b, e. exact PL.
  - (* Prev *)
    destruct p as [|i].
    + cbn in R. subst st. exists []. destruct fuel as [|f]; [lia|]. split; reflexivity.
    + destruct R as [(b & e & a & P & <-)|(-> & b & e & PL)].
      * pose proof (at_pos_flatten _ _ _ _ _ P) as Fl.
        destruct (list_snoc_case b) as [->|(b' & e' & ->)].
        -- destruct (prev_at_begin _ _ _ _ fuel true P G F) as (st2 & e0 & a0 & E & P2).
           cbn [length list_call fst snd]. rewrite E. cbn [bindr fst snd api_kv].
           exists st2. split; [reflexivity|]. left. exists [], e0, a0. split; [exact P2|reflexivity].
        -- assert (LC : list_call (flatten t) (At (length (b' ++ [e']))) CPrev = (At (length b'), show (Some e'))).
           { rewrite Fl, <- app_assoc, app_length, Nat.add_1_r. apply lc_prev_in. }
           destruct (prev_inside _ _ _ _ _ _ fuel true P G F) as (st2 & E & P2).
           rewrite LC, E. cbn [bindr fst snd]. unfold kv_of. rewrite api_kv_show. exists st2. split; [reflexivity|].
           left. exists b', e', (e :: a). split; [exact P2|reflexivity].
      * destruct PL as (es & j & tl & -> & L & P). pose proof (at_pos_flatten _ _ _ _ _ P) as Fl.
        assert (LC : list_call (flatten t) (At (length (flatten t))) CPrev = (At (length b), show (Some e))) by (rewrite Fl; apply lc_prev_past).
        rewrite LC. cbn [fst snd]. destruct fuel as [|f]; [lia|].
        cbn [prev_]. rewrite prev_up_pos, go_last_leaf by lia. cbn [bindr].
        rewrite (kv_at_pos _ _ _ _ _ true _ P). cbn [bindr fst snd]. unfold kv_of. rewrite api_kv_show.
        exists ((Leaf es, Z.of_nat j) :: tl). split; [reflexivity|]. left. exists b, e, []. split; [exact P|reflexivity].
  - (* Seek *)
    destruct (seek_good t fuel k G W F) as (st' & E & R').
    rewrite E. cbn [bindr fst snd list_call]. rewrite api_kv_opt. exists st'. split; [reflexivity|exact R'].
Qed.

Lemma run_refines t fuel : good t -> wf t = true -> depth t <= fuel -> forall cs st p, rel t st p ->
  api_run true fuel t st cs = Ok (list_run (flatten t) p cs).
Proof.
  intros G W F. induction cs as [|c cs IH]; intros st p R; [reflexivity|].
  destruct (step t fuel G W F st p c R) as (st' & E & R').
  rewrite api_run_cons, E. cbn [bindr fst snd]. cbn [list_run].
  destruct (list_call (flatten t) p c) as [p' out]. cbn [fst snd] in *. rewrite (IH st' p' R'). reflexivity.
Qed.

(** ** the specification: Last;Prev* enumerates the list once descending *)
Lemma list_prev_run l : forall i, i < length l ->
  list_run l (At i) (repeat CPrev (S i)) = map (fun e => show (Some e)) (rev (firstn i l)) ++ [(None, None)].
Proof.
  induction i as [|i IH]; intros L; [reflexivity|].
  rewrite repeat_S. cbn [list_run list_call]. rewrite (IH ltac:(lia)).
  destruct (nth_error l i) as [x|] eqn:En; [|apply nth_error_None in En; lia].
  rewrite (firstn_S_nth _ _ _ En), rev_app_distr. reflexivity.
Qed.

Theorem list_last_prev_enumerates l : l <> [] ->
  list_run l Unset (CLast :: repeat CPrev (length l)) = map (fun e => show (Some e)) (rev l) ++ [(None, None)].
Proof.
  intros Hne. destruct (list_snoc_case l) as [->|(b & x & ->)]; [congruence|].
  cbn [list_run]. rewrite lc_last. rewrite app_length, Nat.add_1_r.
  rewrite list_prev_run by (rewrite app_length; cbn; lia).
  rewrite firstn_app, Nat.sub_diag, firstn_all, app_nil_r, rev_app_distr. reflexivity.
Qed.

(** * main results *)
Lemma good_of_wf t : wf t = true -> has_empty_leaf t = false -> flatten t <> [] -> good t.
Proof. intros W H Fne. apply good_of_hyps; [exact H|apply wf_branches_nonempty; exact W|exact Fne]. Qed.

(** 3. mixed navigation: EVERY call sequence (also one that starts with Next/Prev on the unpositioned cursor,
    which returns nil and stays unpositioned in both the code and the list) *)
Theorem nav_refines_list : forall t cs, wf t = true -> has_empty_leaf t = false -> flatten t <> [] ->
  api_run true (fuel_for t) t [] cs = Ok (list_run (flatten t) Unset cs).
Proof.
  intros t cs W H Fne. apply run_refines; [apply good_of_wf; assumption|exact W|apply depth_le_fuel_for|reflexivity].
Qed.

(** any fuel >= depth suffices *)
Theorem nav_refines_list_fuel : forall t fuel cs, wf t = true -> has_empty_leaf t = false -> flatten t <> [] ->
  depth t <= fuel -> api_run true fuel t [] cs = Ok (list_run (flatten t) Unset cs).
Proof.
  intros t fuel cs W H Fne F. apply run_refines; [apply good_of_wf; assumption|exact W|exact F|reflexivity].
Qed.

(** the statement as given (first call First, Last or Seek) *)
Definition starts_positioned (cs : list call) : Prop :=
  match cs with CFirst :: _ | CLast :: _ | CSeek _ :: _ => True | _ => False end.

Corollary nav_refines_list_positioned : forall t cs, wf t = true -> has_empty_leaf t = false -> flatten t <> [] ->
  starts_positioned cs -> api_run true (fuel_for t) t [] cs = Ok (list_run (flatten t) Unset cs).
Proof. intros t cs W H Fne _. apply nav_refines_list; assumption. Qed.

(** 1. backward enumeration *)
Corollary last_prev_refines_list : forall t, wf t = true -> has_empty_leaf t = false -> flatten t <> [] ->
  api_run true (fuel_for t) t [] (CLast :: repeat CPrev (length (flatten t))) =
  Ok (list_run (flatten t) Unset (CLast :: repeat CPrev (length (flatten t)))).
Proof. intros t W H Fne. apply nav_refines_list; assumption. Qed.

Theorem last_prev_enumerates : forall t, wf t = true -> has_empty_leaf t = false -> flatten t <> [] ->
  api_run true (fuel_for t) t [] (CLast :: repeat CPrev (length (flatten t))) =
  Ok (map (fun e => show (Some e)) (rev (flatten t)) ++ [(None, None)]).
Proof.
  intros t W H Fne. rewrite last_prev_refines_list by assumption.
  rewrite list_last_prev_enumerates by assumption. reflexivity.
Qed.

(** 2. Seek *)
Theorem seek_finds_first_ge : forall t k, wf t = true -> has_empty_leaf t = false -> flatten t <> [] ->
  api_run true (fuel_for t) t [] [CSeek k] = Ok (list_run (flatten t) Unset [CSeek k]).
Proof. intros t k W H Fne. apply nav_refines_list; assumption. Qed.

(** what the list says for Seek: the element at index j, where everything before j is < k and the element at j
    (if any) is >= k; j = length means "past the end" and Seek returns nil *)
Theorem seek_meaning : forall t k, wf t = true -> has_empty_leaf t = false -> flatten t <> [] ->
  let l := flatten t in
  let j := first_ge k (keys l) in
  api_run true (fuel_for t) t [] [CSeek k] = Ok [show (nth_error l j)] /\
  j <= length l /\
  (forall i e, i < j -> nth_error l i = Some e -> blt (key e) k = true) /\
  (forall e, nth_error l j = Some e -> blt (key e) k = false).
Proof.
  intros t k W H Fne l j. split; [|split; [|split]].
  - rewrite seek_finds_first_ge by assumption. reflexivity.
  - pose proof (fg_len k (keys l)) as X. rewrite map_length in X. exact X.
  - intros i e L Hn. apply (fg_lt k (keys l) i); [exact L|]. rewrite nth_error_map, Hn. reflexivity.
  - intros e Hn. apply (fg_nth_elem k l e Hn).
Qed.

(** ** extra: the flattened list of a well-formed tree is strictly increasing, so the element Seek returns is
    also the smallest element >= k, and everything after it is >= k as well *)
Lemma child_bounds cs lo hi : good (Branch cs) -> wfb (Branch cs) lo hi = true ->
  forall i s c, nth_error cs i = Some (s, c) -> forall y, In y (flatten c) ->
  bounded (if (i =? 0)%nat then lo else Some s)
          (match nth_error cs (S i) with Some (s', _) => Some s' | None => hi end) y.
Proof.
  intros G W i s c Hn y Hy. destruct (good_branch _ G) as [_ Gc].
  rewrite wfb_branch in W. apply andb_true_iff in W as [_ W4].
  apply (wfb_bounds (depth c) c _ _ (le_n _) (Gc s c (nth_error_In _ _ Hn))); [|exact Hy].
  apply (wfgo_nth lo hi cs true i s c W4 Hn).
Qed.

Lemma str_inc_app l1 : forall l2, str_inc l1 = true -> str_inc l2 = true ->
  (forall x y, In x l1 -> In y l2 -> blt x y = true) -> str_inc (l1 ++ l2) = true.
Proof.
  induction l1 as [|x l1 IH]; intros l2 S1 S2 C; [exact S2|].
  destruct l1 as [|x' l1].
  - cbn [app]. destruct l2 as [|y l2]; [reflexivity|]. change (blt x y && str_inc (y :: l2) = true).
    rewrite S2, andb_true_r. apply C; left; reflexivity.
  - change (blt x x' && str_inc (x' :: l1) = true) in S1. apply andb_true_iff in S1 as [S1a S1b].
    change (blt x x' && str_inc ((x' :: l1) ++ l2) = true). rewrite S1a. cbn [andb].
    apply (IH l2 S1b S2). intros a b Ha Hb. apply C; [right; exact Ha|exact Hb].
Qed.

Lemma flatten_sorted n : forall t lo hi, depth t <= n -> good t -> wfb t lo hi = true ->
  str_inc (keys (flatten t)) = true.
Proof.
  induction n as [|n IH]; intros t lo hi D G W; [pose proof (depth_pos t); lia|].
  destruct t as [es|cs].
  - cbn [wfb] in W. apply andb_true_iff in W as [W _]. exact W.
  - pose proof (child_bounds cs lo hi G W) as Sub.
    destruct (good_branch _ G) as [_ Gc].
    rewrite wfb_branch in W. apply andb_true_iff in W as [W W4]. apply andb_true_iff in W as [W W3].
    apply andb_true_iff in W as [W1 W2].
    assert (Pref : forall m, m <= length cs -> str_inc (keys (flatten (Branch (firstn m cs)))) = true).
    { induction m as [|m IHm]; intros Lm; [reflexivity|].
      destruct (nth_error cs m) as [[s c]|] eqn:Hm; [|apply nth_error_None in Hm; lia].
      rewrite (firstn_S_nth _ _ _ Hm). cbn [flatten]. rewrite flat_map_app. cbn [flat_map snd].
      rewrite app_nil_r, map_app. apply str_inc_app.
      - apply IHm. lia.
      - pose proof (depth_child _ _ _ _ Hm) as Dc.
        apply (IH c _ _ ltac:(lia) (Gc s c (nth_error_In _ _ Hm)) (wfgo_nth lo hi cs true m s c W4 Hm)).
      - intros kx ky Hx Hy. apply in_map_iff in Hx as (x & <- & Hx). apply in_map_iff in Hy as (y & <- & Hy).
        apply in_flat_map in Hx as ([s' c'] & Hc & Hx). cbn [snd] in Hx.
        apply In_firstn_nth in Hc as (i & Li & Hn).
        destruct (Sub i s' c' Hn x Hx) as [_ BH]. destruct (Sub m s c Hm y Hy) as [BL _].
        destruct m as [|m]; [lia|]. cbn [Nat.eqb in_lo] in BL. apply negb_true_iff in BL.
        destruct (nth_error cs (S i)) as [[s1 c1]|] eqn:H1; [|apply nth_error_None in H1; lia].
        cbn [in_hi] in BH. change (blt (key x) (key y) = true).
        eapply blt_lt_le_trans; [|exact BL].
        destruct (Nat.eq_dec (S i) (S m)) as [Ei|Ni].
        + rewrite Ei, Hm in H1. injection H1 as <- <-. exact BH.
        + eapply blt_trans; [exact BH|].
          apply (str_inc_nth (map fst cs) W2 (S i) (S m)); [lia| |]; rewrite nth_error_map.
          * rewrite H1. reflexivity.
          * rewrite Hm. reflexivity. }
    specialize (Pref (length cs) (le_n _)). rewrite firstn_all in Pref. exact Pref.
Qed.

Theorem flatten_strictly_increasing : forall t, wf t = true -> has_empty_leaf t = false -> flatten t <> [] ->
  str_inc (keys (flatten t)) = true.
Proof.
  intros t W H Fne. apply (flatten_sorted (depth t) t None None (le_n _)); [apply good_of_wf; assumption|exact W].
Qed.

(** everything from the Seek position on is >= k *)
Theorem seek_rest_ge : forall t k i e, wf t = true -> has_empty_leaf t = false -> flatten t <> [] ->
  first_ge k (keys (flatten t)) <= i -> nth_error (flatten t) i = Some e -> blt (key e) k = false.
Proof.
  intros t k i e W H Fne L Hn. pose proof (flatten_strictly_increasing t W H Fne) as SI.
  set (l := flatten t) in *. set (j := first_ge k (keys l)) in *.
  assert (Li : i < length l) by (apply nth_error_Some; rewrite Hn; discriminate).
  destruct (nth_error l j) as [ej|] eqn:Ej; [|apply nth_error_None in Ej; lia].
  pose proof (fg_nth_elem k l ej Ej) as GE. destruct (Nat.eq_dec i j) as [->|Ni].
  - rewrite Ej in Hn. injection Hn as <-. exact GE.
  - eapply blt_ge_trans; [|exact GE]. apply blt_asym.
    apply (str_inc_nth (keys l) SI j i); [lia| |]; rewrite nth_error_map.
    + rewrite Ej. reflexivity.
    + rewrite Hn. reflexivity.
Qed.

Print Assumptions nav_refines_list.
Print Assumptions nav_refines_list_fuel.
Print Assumptions nav_refines_list_positioned.
Print Assumptions last_prev_enumerates.
Print Assumptions last_prev_refines_list.
Print Assumptions seek_finds_first_ge.
Print Assumptions seek_meaning.
Print Assumptions flatten_strictly_increasing.
Print Assumptions seek_rest_ge.
