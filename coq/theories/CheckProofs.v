(** CheckProofs: theorems about Check.v (the Gallina model of Tx.check).  No axioms. *)
From Coq Require Import ZifyNat ZifyN ZifyBool.
From Bbolt Require Import Base Consts BaseProofs Spec SpecProofs Layout LayoutEnc Check LayoutProofs LayoutPageProofs LayoutOrderProofs.

(** * generic list facts *)
Lemma app_self_nil {A} (e l : list A) : e ++ l = l -> e = [].
Proof.
  intros H. apply (f_equal (@length A)) in H. rewrite app_length in H.
  destruct e as [|x e]; [reflexivity|]. cbn [length] in H. lia.
Qed.

Lemma app_self_nil_iff {A} (e l : list A) : e ++ l = l <-> e = [].
Proof. split; [apply app_self_nil | intros ->; reflexivity]. Qed.

Lemma fold_left_none {A B} (F : option A -> B -> option A) (l : list B) :
  (forall i, F None i = None) -> fold_left F l None = None.
Proof. intros HF. induction l as [|i l IH]; [reflexivity | cbn [fold_left]; rewrite HF; exact IH]. Qed.

(** invariant of an option-threaded fold: a reflexive, transitive relation satisfied by every step *)
Lemma fold_opt_rel {A B} (P : A -> A -> Prop) (F : option A -> B -> option A) (l : list B) :
  (forall i, F None i = None) ->
  (forall a, P a a) -> (forall a b c, P a b -> P b c -> P a c) ->
  (forall i a a', In i l -> F (Some a) i = Some a' -> P a a') ->
  forall s s', fold_left F l (Some s) = Some s' -> P s s'.
Proof.
  intros HF Hrefl Htrans. induction l as [|i l IH]; intros Hstep s s' H.
  - cbn [fold_left] in H. injection H as <-. apply Hrefl.
  - cbn [fold_left] in H. destruct (F (Some s) i) as [s1|] eqn:E.
    + apply Htrans with s1.
      * apply (Hstep i); [left; reflexivity | exact E].
      * apply IH; [|exact H]. intros j a a' Hj. apply Hstep. right. exact Hj.
    + rewrite fold_left_none in H by exact HF. discriminate.
Qed.

(** * (C1) duplicates in the free list are reported, and only they *)
Theorem dup_errs_complete seen l id :
  In (EAlreadyFreed id) (dup_errs seen l) <-> (exists l1 l2, l = l1 ++ id :: l2 /\ (In id seen \/ In id l1)).
Proof.
  revert seen. induction l as [|a r IH]; intros seen.
  - cbn [dup_errs]. split; [intros [] | intros (l1 & l2 & H & _); destruct l1; discriminate].
  - cbn [dup_errs]. rewrite in_app_iff, IH. split.
    + intros [H | (l1 & l2 & -> & H)].
      * destruct (memN a seen) eqn:E; [|destruct H].
        destruct H as [H|[]]. injection H as ->. apply memN_in in E.
        exists [], r. split; [reflexivity | left; exact E].
      * exists (a :: l1), l2. split; [reflexivity|].
        destruct H as [[<- | H] | H]; [right; left; reflexivity | left; exact H | right; right; exact H].
    + intros (l1 & l2 & E & H). destruct l1 as [|b l1].
      * cbn [app] in E. injection E as -> ->. left.
        destruct H as [H | []]. apply memN_in in H. rewrite H. left; reflexivity.
      * cbn [app] in E. injection E as <- ->. right. exists l1, l2. split; [reflexivity|].
        destruct H as [H | [H | H]]; [left; right; exact H | left; left; exact H | right; exact H].
Qed.
Print Assumptions dup_errs_complete.

Lemma dup_errs_nil_iff seen l : dup_errs seen l = [] <-> NoDup l /\ (forall x, In x l -> ~ In x seen).
Proof.
  revert seen. induction l as [|a r IH]; intros seen.
  - cbn [dup_errs]. split; [intros _; split; [constructor | intros x []] | reflexivity].
  - cbn [dup_errs]. split.
    + intros H. apply app_eq_nil in H. destruct H as [H1 H2]. apply IH in H2. destruct H2 as [Hnd Hs].
      destruct (memN a seen) eqn:E; [discriminate|]. apply memN_false in E. split.
      * constructor; [|exact Hnd]. intros Hin. apply (Hs a Hin). left; reflexivity.
      * intros x [<- | Hx]; [exact E|]. intros Hin. apply (Hs x Hx). right; exact Hin.
    + intros [Hnd Hs]. inversion Hnd as [|? ? Hna Hnd']; subst.
      assert (E : memN a seen = false) by (apply memN_false, Hs; left; reflexivity). rewrite E. cbn [app].
      apply IH. split; [exact Hnd'|]. intros x Hx [<- | Hin]; [exact (Hna Hx) | apply (Hs x); [right; exact Hx | exact Hin]].
Qed.

Corollary dup_errs_nodup l : dup_errs [] l = [] <-> NoDup l.
Proof.
  rewrite dup_errs_nil_iff. split; [intros [H _]; exact H | intros H; split; [exact H | intros x _ []]].
Qed.
Print Assumptions dup_errs_nodup.

Lemma dup_errs_only seen l c : In c (dup_errs seen l) -> exists id, c = EAlreadyFreed id.
Proof.
  revert seen. induction l as [|a r IH]; intros seen; cbn [dup_errs]; [intros []|].
  rewrite in_app_iff. intros [H | H]; [|exact (IH _ H)].
  destruct (memN a seen); [|destruct H]. destruct H as [<- | []]. exists a. reflexivity.
Qed.

Lemma NoDup_app_intro {A} (a b : list A) :
  NoDup a -> NoDup b -> (forall x, In x a -> ~ In x b) -> NoDup (a ++ b).
Proof.
  induction a as [|x a IH]; intros Ha Hb Hd; [exact Hb|].
  inversion Ha as [|? ? Hx Ha']; subst. cbn [app]. constructor.
  - rewrite in_app_iff. intros [H | H]; [exact (Hx H) | apply (Hd x); [left; reflexivity | exact H]].
  - apply IH; [exact Ha' | exact Hb | intros y Hy; apply Hd; right; exact Hy].
Qed.

Lemma NoDup_app_r {A} (a b : list A) : NoDup (a ++ b) -> NoDup b.
Proof. induction a as [|x a IH]; intros H; [exact H|]. inversion H; subst. apply IH. assumption. Qed.

Lemma NoDup_app_l {A} (a b : list A) : NoDup (a ++ b) -> NoDup a.
Proof.
  induction a as [|x a IH]; intros H; [constructor|]. cbn [app] in H. inversion H as [|? ? Hx H']; subst.
  constructor; [|exact (IH H')]. intros Hin. apply Hx. apply in_app_iff. left. exact Hin.
Qed.

Lemma NoDup_map_add h l : NoDup l -> NoDup (map (N.add h) l).
Proof.
  induction l as [|x l IH]; intros Hl; [constructor|].
  inversion Hl as [|? ? Hx Hl']; subst. cbn [map]. constructor; [|exact (IH Hl')].
  rewrite in_map_iff. intros (y & E & Hy). assert (y = x) by lia. subst. exact (Hx Hy).
Qed.

Lemma fold_left_inv {A B} (P : A -> Prop) (f : A -> B -> A) (l : list B) :
  (forall a i, In i l -> P a -> P (f a i)) -> forall a, P a -> P (fold_left f l a).
Proof.
  induction l as [|i l IH]; intros Hf a Ha; [exact Ha|].
  cbn [fold_left]. apply IH; [intros b j Hj; apply Hf; right; exact Hj|]. apply Hf; [left; reflexivity | exact Ha].
Qed.

(** errors the walk itself can produce (everything but the two classes of the free-list test and the final sweep) *)
Definition walk_err (c : cerr) : Prop :=
  match c with EAlreadyFreed _ | EUnreachUnfreed _ => False | _ => True end.

Section ChkP.
  Variable rd : N -> N.
  Variable ps : N.
  Variable freed : list N.
  Variable hwm : N.
  Notation cst := (list N * list cerr)%type.
  Notation p_hid := (p_hid rd ps).
  Notation p_ov := (p_ov rd ps).
  Notation p_count := (p_count rd ps).
  Notation is_branch := (is_branch rd ps).
  Notation is_leaf := (is_leaf rd ps).
  Notation br_elem := (br_elem rd ps).
  Notation lf_elem := (lf_elem rd ps).
  Notation verify_reachable := (verify_reachable rd ps freed hwm).
  Notation walk_reach := (walk_reach rd ps freed hwm).
  Notation key_order := (key_order rd ps).
  Notation walkable := (walkable rd ps).
  Notation nested_roots := (nested_roots rd ps).
  Notation check_bucket := (check_bucket rd ps freed hwm).
  Notation check := (check rd ps freed hwm).

  (** ** one page: verifyPageReachable *)
  Definition vr_step (hid : N) (a : cst) (i : N) : cst :=
    let id := hid + i in
    let a1 := if memN id (fst a) then (fst a, EMultiRef id :: snd a) else a in
    let a2 := (id :: fst a1, snd a1) in
    if (0 <? i) && memN id freed then (fst a2, EReachFreed id :: snd a2) else a2.

  Lemma verify_reachable_unfold pg s :
    verify_reachable pg s =
    let hid := p_hid pg in
    let s1 := if hwm <? hid then (fst s, EOutOfBounds hid :: snd s) else s in
    let s2 := fold_left (vr_step hid) (run 0 (p_ov pg + 1)) s1 in
    if memN hid freed then (fst s2, EReachFreed hid :: snd s2)
    else if negb (is_branch pg) && negb (is_leaf pg) then (fst s2, EInvalidType hid :: snd s2)
    else s2.
  Proof. reflexivity. Qed.

  Lemma vr_step_spec hid a i :
    fst (vr_step hid a i) = (hid + i) :: fst a /\
    exists e, snd (vr_step hid a i) = e ++ snd a /\ Forall walk_err e /\
      (e = [] <-> memN (hid + i) (fst a) = false /\ (0 <? i) && memN (hid + i) freed = false).
  Proof.
    unfold vr_step. cbv zeta.
    split.
    - destruct (memN (hid + i) (fst a)); destruct ((0 <? i) && memN (hid + i) freed); reflexivity.
    - exists ((if (0 <? i) && memN (hid + i) freed then [EReachFreed (hid + i)] else [])
              ++ (if memN (hid + i) (fst a) then [EMultiRef (hid + i)] else [])).
      destruct (memN (hid + i) (fst a)); destruct ((0 <? i) && memN (hid + i) freed); cbn [fst snd app];
        (split; [reflexivity | split; [repeat constructor | intuition congruence]]).
  Qed.

  Lemma vr_fold_spec hid l : NoDup l -> forall a,
    fst (fold_left (vr_step hid) l a) = rev (map (N.add hid) l) ++ fst a /\
    exists e, snd (fold_left (vr_step hid) l a) = e ++ snd a /\ Forall walk_err e /\
      (e = [] <-> forall i, In i l -> memN (hid + i) (fst a) = false /\ (0 <? i) && memN (hid + i) freed = false).
  Proof.
    induction l as [|j l IH]; intros Hnd a.
    - cbn [fold_left map rev app]. split; [reflexivity|]. exists []. split; [reflexivity|]. split; [constructor|].
      split; [intros _ i [] | reflexivity].
    - inversion Hnd as [|? ? Hj Hnd']; subst. cbn [fold_left].
      destruct (IH Hnd' (vr_step hid a j)) as [Hf (e2 & Hs & Hw & Hiff)].
      destruct (vr_step_spec hid a j) as [Hf1 (e1 & Hs1 & Hw1 & Hiff1)].
      split.
      + rewrite Hf, Hf1. cbn [map rev]. rewrite <- app_assoc. reflexivity.
      + exists (e2 ++ e1). split; [rewrite Hs, Hs1, app_assoc; reflexivity|]. split; [apply Forall_app; split; assumption|].
        rewrite Hf1 in Hiff. split.
        * intros E. apply app_eq_nil in E. destruct E as [E2 E1]. intros i [<- | Hi]; [apply Hiff1, E1|].
          destruct (proj1 Hiff E2 i Hi) as [Hm Hfz]. split; [|exact Hfz].
          unfold memN in *. cbn [existsb] in Hm. apply orb_false_iff in Hm. exact (proj2 Hm).
        * intros H. assert (E1 : e1 = []) by (apply Hiff1, H; left; reflexivity).
          assert (E2 : e2 = []).
          { apply Hiff. intros i Hi. destruct (H i (or_intror Hi)) as [Hm Hfz]. split; [|exact Hfz].
            unfold memN in *. cbn [existsb]. apply orb_false_iff. split; [|exact Hm].
            apply N.eqb_neq. intros E. assert (i = j) by lia. subst. exact (Hj Hi). }
          rewrite E1, E2. reflexivity.
  Qed.

  (** what a page must satisfy (given the ids reached so far) for verifyPageReachable to stay silent *)
  Definition page_ok (pg : N) (r : list N) : Prop :=
    p_hid pg <= hwm /\
    (forall i, i < p_ov pg + 1 -> ~ In (p_hid pg + i) r) /\
    (forall i, i < p_ov pg + 1 -> ~ In (p_hid pg + i) freed) /\
    (is_branch pg || is_leaf pg) = true.

  (** the ids the page adds to the reachable set (newest first) *)
  Definition page_ids (pg : N) : list N := rev (map (N.add (p_hid pg)) (run 0 (p_ov pg + 1))).

  Lemma page_ids_in pg id : In id (page_ids pg) <-> p_hid pg <= id < p_hid pg + p_ov pg + 1.
  Proof.
    unfold page_ids. rewrite <- in_rev, in_map_iff. split.
    - intros (i & <- & Hi). apply run_in in Hi. lia.
    - intros H. exists (id - p_hid pg). split; [lia|]. apply run_in. lia.
  Qed.

  Lemma page_ids_nodup pg : NoDup (page_ids pg).
  Proof. unfold page_ids. apply NoDup_rev, NoDup_map_add. unfold run. apply run_nat_nodup. Qed.

  Lemma verify_reachable_spec pg s :
    fst (verify_reachable pg s) = page_ids pg ++ fst s /\
    exists e, snd (verify_reachable pg s) = e ++ snd s /\ Forall walk_err e /\ (e = [] <-> page_ok pg (fst s)).
  Proof.
    rewrite verify_reachable_unfold. cbv zeta. set (hid := p_hid pg).
    set (s1 := if hwm <? hid then (fst s, EOutOfBounds hid :: snd s) else s).
    assert (Hnd : NoDup (run 0 (p_ov pg + 1))) by (unfold run; apply run_nat_nodup).
    destruct (vr_fold_spec hid _ Hnd s1) as [Hf (e2 & Hs & Hw & Hiff)].
    set (s2 := fold_left (vr_step hid) (run 0 (p_ov pg + 1)) s1) in *.
    assert (Hf1 : fst s1 = fst s) by (unfold s1; destruct (hwm <? hid); reflexivity).
    set (e0 := if hwm <? hid then [EOutOfBounds hid] else []).
    assert (Hs1 : snd s1 = e0 ++ snd s) by (unfold s1, e0; destruct (hwm <? hid); reflexivity).
    set (e3 := if memN hid freed then [EReachFreed hid]
               else if negb (is_branch pg) && negb (is_leaf pg) then [EInvalidType hid] else []).
    rewrite Hf1 in Hf, Hiff. split.
    - unfold page_ids. fold hid. rewrite <- Hf.
      destruct (memN hid freed); [reflexivity|]. destruct (negb (is_branch pg) && negb (is_leaf pg)); reflexivity.
    - exists (e3 ++ e2 ++ e0). split; [|split].
      + rewrite <- !app_assoc, <- Hs1, <- Hs. unfold e3.
        destruct (memN hid freed); [reflexivity|]. destruct (negb (is_branch pg) && negb (is_leaf pg)); reflexivity.
      + apply Forall_app; split; [|apply Forall_app; split; [exact Hw|]].
        * unfold e3. destruct (memN hid freed); [repeat constructor|].
          destruct (negb (is_branch pg) && negb (is_leaf pg)); repeat constructor.
        * unfold e0. destruct (hwm <? hid); repeat constructor.
      + unfold page_ok. fold hid. split.
        * intros E. apply app_eq_nil in E. destruct E as [E3 E]. apply app_eq_nil in E. destruct E as [E2 E0].
          assert (Hfr : memN hid freed = false) by (unfold e3 in E3; destruct (memN hid freed); [discriminate | reflexivity]).
          split; [unfold e0 in E0; destruct (N.ltb_spec hwm hid); [discriminate | assumption]|].
          split; [|split].
          -- intros i Hi. apply memN_false. apply (proj1 Hiff E2). apply run_in. lia.
          -- intros i Hi. apply memN_false. destruct (N.eq_dec i 0) as [-> | Hne]; [rewrite N.add_0_r; exact Hfr|].
             assert (Hin : In i (run 0 (p_ov pg + 1))) by (apply run_in; lia).
             destruct (proj1 Hiff E2 i Hin) as [_ H]. assert (Hlt : (0 <? i) = true) by (apply N.ltb_lt; lia).
             rewrite Hlt in H. exact H.
          -- unfold e3 in E3. rewrite Hfr in E3. destruct (is_branch pg); destruct (is_leaf pg); try reflexivity. discriminate.
        * intros (Hb & Hr & Hfz & Ht).
          assert (Hfr : memN hid freed = false) by (apply memN_false; rewrite <- (N.add_0_r hid); apply Hfz; lia).
          assert (E3 : e3 = []).
          { unfold e3. rewrite Hfr. destruct (is_branch pg); destruct (is_leaf pg); try reflexivity. discriminate. }
          assert (E0 : e0 = []) by (unfold e0; destruct (N.ltb_spec hwm hid); [lia | reflexivity]).
          assert (E2 : e2 = []).
          { apply Hiff. intros i Hi. apply run_in in Hi. split; [apply memN_false, Hr; lia|].
            apply andb_false_iff. right. apply memN_false, Hfz. lia. }
          rewrite E3, E2, E0. reflexivity.
  Qed.

  (** (C5) one page, exactly as the code behaves *)
  Theorem verify_reachable_silent_iff pg s :
    snd (verify_reachable pg s) = snd s <-> page_ok pg (fst s).
  Proof.
    destruct (verify_reachable_spec pg s) as [_ (e & Hs & _ & Hiff)]. rewrite Hs, app_self_nil_iff. exact Hiff.
  Qed.

  Theorem verify_reachable_reach pg s id :
    In id (fst (verify_reachable pg s)) <-> p_hid pg <= id < p_hid pg + p_ov pg + 1 \/ In id (fst s).
  Proof. destruct (verify_reachable_spec pg s) as [Hf _]. rewrite Hf, in_app_iff, page_ids_in. reflexivity. Qed.

  (** ** the threaded state only grows; what a silent step guarantees *)
  Definition page_static_ok (pg : N) : Prop :=
    p_hid pg <= hwm /\ (forall id, In id (page_ids pg) -> ~ In id freed) /\ (is_branch pg || is_leaf pg) = true.

  (** [good s s']: [s'] extends [s] by the id runs of a list of visited pages (newest first) and by walk errors;
      when no error was added, distinctness is preserved and every visited page is in bounds, of a valid type,
      and none of the ids of its run is free *)
  Definition good (s s' : cst) : Prop :=
    exists pages e, fst s' = flat_map page_ids pages ++ fst s /\ snd s' = e ++ snd s /\ Forall walk_err e /\
      (e = [] -> (NoDup (fst s) -> NoDup (fst s')) /\ Forall page_static_ok pages).

  Lemma good_refl s : good s s.
  Proof.
    exists [], []. split; [reflexivity|]. split; [reflexivity|]. split; [constructor|].
    intros _. split; [intros H; exact H | constructor].
  Qed.

  Lemma good_trans a b c : good a b -> good b c -> good a c.
  Proof.
    intros (p1 & e1 & Hf1 & Hs1 & Hw1 & Hc1) (p2 & e2 & Hf2 & Hs2 & Hw2 & Hc2).
    exists (p2 ++ p1), (e2 ++ e1). split; [rewrite Hf2, Hf1, flat_map_app, app_assoc; reflexivity|].
    split; [rewrite Hs2, Hs1, app_assoc; reflexivity|]. split; [apply Forall_app; split; assumption|].
    intros E. apply app_eq_nil in E. destruct E as [E2 E1].
    destruct (Hc1 E1) as [Hn1 Hp1]. destruct (Hc2 E2) as [Hn2 Hp2].
    split; [intros H; exact (Hn2 (Hn1 H)) | apply Forall_app; split; assumption].
  Qed.

  Lemma verify_reachable_good pg s : good s (verify_reachable pg s).
  Proof.
    destruct (verify_reachable_spec pg s) as [Hf (e & Hs & Hw & Hiff)].
    exists [pg], e. cbn [flat_map]. rewrite app_nil_r. split; [exact Hf|]. split; [exact Hs|]. split; [exact Hw|].
    intros E. apply Hiff in E. destruct E as (Hb & Hr & Hfz & Ht). split.
    - intros Hnd. rewrite Hf. apply NoDup_app_intro; [apply page_ids_nodup | exact Hnd|].
      intros x Hx. apply page_ids_in in Hx. replace x with (p_hid pg + (x - p_hid pg)) by lia. apply Hr. lia.
    - constructor; [|constructor]. split; [exact Hb|]. split; [|exact Ht].
      intros x Hx. apply page_ids_in in Hx. replace x with (p_hid pg + (x - p_hid pg)) by lia. apply Hfz. lia.
  Qed.

  Lemma walk_reach_good fuel : forall pg s s', walk_reach fuel pg s = Some s' -> good s s'.
  Proof.
    induction fuel as [|f IH]; intros pg s s' H; [discriminate|].
    cbn [Check.walk_reach] in H. cbv zeta in H.
    apply good_trans with (verify_reachable pg s); [apply verify_reachable_good|].
    destruct (is_branch pg).
    - revert H. apply fold_opt_rel; [reflexivity | apply good_refl | apply good_trans|].
      intros i a a' _ Hi. exact (IH _ _ _ Hi).
    - injection H as <-. apply good_refl.
  Qed.

  Lemma verify_key_walk_err rep idx key prev maxo : Forall walk_err (verify_key rep idx key prev maxo).
  Proof.
    unfold verify_key. repeat (apply Forall_app; split).
    - destruct ((idx =? 0) && match prev with Some p => blt key p | None => false end); repeat constructor.
    - destruct (0 <? idx); [|constructor]. destruct (bcmp (okey prev) key); repeat constructor.
    - destruct maxo as [m|]; [|constructor]. destruct (negb (blt key m)); repeat constructor.
  Qed.

  Lemma key_order_walk_err fuel : forall pg mino maxo errs sub,
    key_order fuel pg mino maxo = Some (errs, sub) -> Forall walk_err errs.
  Proof.
    induction fuel as [|f IH]; intros pg mino maxo errs sub H; [discriminate|].
    cbn [Check.key_order] in H. cbv zeta in H.
    destruct (is_branch pg).
    - match type of H with match ?F with _ => _ end = _ => destruct F as [[[errs' run'] sub']|] eqn:EF end; [|discriminate].
      injection H as <- <-.
      pose (P := fun a b : list cerr * option bytes * option bytes =>
                   Forall walk_err (fst (fst a)) -> Forall walk_err (fst (fst b))).
      enough (HP : P ([], mino, None) (errs', run', sub')) by (apply HP; constructor).
      revert EF. apply fold_opt_rel; [reflexivity | intros a Ha; exact Ha | intros a b c Hab Hbc Ha; exact (Hbc (Hab Ha))|].
      intros i [[ea ra] sa] a' _ Hi Ha. cbn [fst] in Ha.
      destruct (br_elem pg i) as [key child].
      match type of Hi with match ?K with _ => _ end = _ => destruct K as [[e2 sub2]|] eqn:EK end; [|discriminate].
      injection Hi as <-. cbn [fst]. apply Forall_app; split; [exact Ha|]. apply Forall_app; split; [apply verify_key_walk_err|].
      exact (IH _ _ _ _ _ EK).
    - destruct (is_leaf pg).
      + match type of H with (let '(_, _) := ?F in _) = _ => destruct F as [errs' last'] eqn:EF end.
        injection H as <- <-.
        change errs' with (fst (errs', last')). rewrite <- EF.
        apply fold_left_inv; [|constructor].
        intros a i _ Ha. destruct (lf_elem pg i) as [[[fl key] vo] vs]. cbn [fst].
        apply Forall_app; split; [exact Ha | apply verify_key_walk_err].
      + injection H as <- <-. repeat constructor.
  Qed.

  Lemma check_bucket_good fuel : forall root s s', check_bucket fuel root s = Some s' -> good s s'.
  Proof.
    induction fuel as [|f IH]; intros root s s' H; [discriminate|].
    cbn [Check.check_bucket] in H.
    destruct (root =? 0); [injection H as <-; apply good_refl|].
    destruct (walk_reach f root s) as [s1|] eqn:EW; [|discriminate].
    destruct (key_order f root None None) as [[kerrs sub]|] eqn:EK; [|discriminate].
    cbv zeta in H.
    assert (G1 : good s s1) by exact (walk_reach_good _ _ _ _ EW).
    assert (G2 : good s1 (fst s1, rev kerrs ++ snd s1)).
    { exists [], (rev kerrs). split; [reflexivity|]. split; [reflexivity|].
      split; [apply Forall_rev; exact (key_order_walk_err _ _ _ _ _ _ EK)|].
      intros _. split; [intros Hn; exact Hn | constructor]. }
    apply good_trans with (fst s1, rev kerrs ++ snd s1); [exact (good_trans _ _ _ G1 G2)|].
    destruct (walkable f root) as [[|]|]; [|injection H as <-; apply good_refl|discriminate].
    destruct (nested_roots f root) as [roots|]; [|discriminate].
    revert H. apply fold_opt_rel; [reflexivity | apply good_refl | apply good_trans|].
    intros i a a' _ Hi. exact (IH _ _ _ Hi).
  Qed.

  (** (C2) monotonicity of the threaded state *)
  Definition extends (s s' : cst) : Prop := exists r e, fst s' = r ++ fst s /\ snd s' = e ++ snd s.

  Lemma good_extends s s' : good s s' -> extends s s'.
  Proof. intros (p & e & Hf & Hs & _). exists (flat_map page_ids p), e. split; assumption. Qed.

  Theorem verify_reachable_mono pg s : extends s (verify_reachable pg s).
  Proof. apply good_extends, verify_reachable_good. Qed.

  Theorem walk_reach_mono fuel pg s s' : walk_reach fuel pg s = Some s' -> extends s s'.
  Proof. intros H. apply good_extends. exact (walk_reach_good _ _ _ _ H). Qed.

  Theorem check_bucket_mono fuel root s s' : check_bucket fuel root s = Some s' -> extends s s'.
  Proof. intros H. apply good_extends. exact (check_bucket_good _ _ _ _ H). Qed.

  (** ** (C3) the final sweep *)
  Definition sweep (reach : list N) : list cerr :=
    flat_map (fun i => if negb (memN i reach) && negb (memN i freed) then [EUnreachUnfreed i] else []) (run 0 hwm).

  (** the start state: meta pages and freelist run reachable; the seed test (every id below the mark that is in the
      seed and free is "reachable freed") and the duplicate test have already reported *)
  Definition seed_errs (flrun : list N) : list cerr :=
    flat_map (fun id => if memN id (rev flrun ++ [1; 0]) && memN id freed then [EReachFreed id] else []) (run 0 hwm).

  Definition seed (flrun : list N) : cst :=
    (rev flrun ++ [1; 0], rev (seed_errs flrun) ++ rev (dup_errs [] freed)).

  Lemma check_unfold fuel flrun root :
    check fuel flrun root =
    match check_bucket fuel root (seed flrun) with None => None | Some (reach, errs) => Some (rev errs ++ sweep reach) end.
  Proof. reflexivity. Qed.

  Lemma seed_in flrun id : In id (rev flrun ++ [1; 0]) <-> In id (flrun ++ [0; 1]).
  Proof. rewrite !in_app_iff, <- in_rev. cbn [In]. tauto. Qed.

  Lemma seed_errs_in flrun c :
    In c (seed_errs flrun) <-> exists id, c = EReachFreed id /\ id < hwm /\ In id (flrun ++ [0; 1]) /\ In id freed.
  Proof.
    unfold seed_errs. rewrite in_flat_map. split.
    - intros (i & Hi & Hc). apply run_in in Hi.
      destruct (memN i (rev flrun ++ [1; 0])) eqn:E1; [|destruct Hc]. destruct (memN i freed) eqn:E2; [|destruct Hc].
      destruct Hc as [<- | []]. exists i. apply memN_in in E1, E2. apply seed_in in E1. repeat split; [lia | assumption | assumption].
    - intros (i & -> & Hi & H1 & H2). exists i. split; [apply run_in; lia|].
      apply seed_in, memN_in in H1. apply memN_in in H2. rewrite H1, H2. left; reflexivity.
  Qed.

  Lemma seed_errs_nil_iff flrun :
    seed_errs flrun = [] <-> forall id, id < hwm -> In id (flrun ++ [0; 1]) -> ~ In id freed.
  Proof.
    split.
    - intros H id Hi H1 H2. assert (Hin : In (EReachFreed id) (seed_errs flrun)) by (apply seed_errs_in; exists id; auto).
      rewrite H in Hin. exact Hin.
    - intros H. destruct (seed_errs flrun) as [|c l] eqn:E; [reflexivity|]. exfalso.
      assert (Hin : In c (seed_errs flrun)) by (rewrite E; left; reflexivity).
      apply seed_errs_in in Hin. destruct Hin as (id & _ & Hi & H1 & H2). exact (H id Hi H1 H2).
  Qed.

  Lemma sweep_in reach c :
    In c (sweep reach) <-> exists i, c = EUnreachUnfreed i /\ i < hwm /\ ~ In i reach /\ ~ In i freed.
  Proof.
    unfold sweep. rewrite in_flat_map. split.
    - intros (i & Hi & Hc). apply run_in in Hi.
      destruct (memN i reach) eqn:E1; [destruct Hc|]. destruct (memN i freed) eqn:E2; [destruct Hc|].
      destruct Hc as [<- | []]. exists i. apply memN_false in E1, E2. repeat split; [lia | assumption | assumption].
    - intros (i & -> & Hi & H1 & H2). exists i. split; [apply run_in; lia|].
      apply memN_false in H1, H2. rewrite H1, H2. left; reflexivity.
  Qed.

  Lemma walk_err_seed_split flrun fuel root reach e :
    check_bucket fuel root (seed flrun) = Some (reach, e) ->
    exists pages e', reach = flat_map page_ids pages ++ rev flrun ++ [1; 0] /\
      e = e' ++ rev (seed_errs flrun) ++ rev (dup_errs [] freed) /\
      Forall walk_err e' /\ (e' = [] -> (NoDup (rev flrun ++ [1; 0]) -> NoDup reach) /\ Forall page_static_ok pages).
  Proof. intros H. exact (check_bucket_good _ _ _ _ H). Qed.

  (** the report, in the order the code sends it: duplicates of the free list, free seed ids, the walk, the sweep *)
  Theorem check_errs_order fuel flrun root errs :
    check fuel flrun root = Some errs ->
    exists reach e' pages,
      check_bucket fuel root (seed flrun) = Some (reach, e' ++ snd (seed flrun)) /\
      reach = flat_map page_ids pages ++ rev flrun ++ [1; 0] /\ Forall walk_err e' /\
      errs = dup_errs [] freed ++ seed_errs flrun ++ rev e' ++ sweep reach.
  Proof.
    rewrite check_unfold. destruct (check_bucket fuel root (seed flrun)) as [[reach e]|] eqn:EC; [|discriminate].
    intros H. injection H as <-. destruct (walk_err_seed_split _ _ _ _ _ EC) as (pages & e' & Hr & He & Hw & _).
    exists reach, e', pages. split; [rewrite He; reflexivity|]. split; [exact Hr|]. split; [exact Hw|].
    rewrite He, !rev_app_distr, !rev_involutive, <- !app_assoc. reflexivity.
  Qed.

  (** (new) every seed id below the mark that is listed as free is reported *)
  Theorem check_seed_free_reported fuel flrun root errs :
    check fuel flrun root = Some errs ->
    forall id, id < hwm -> In id (flrun ++ [0; 1]) -> In id freed -> In (EReachFreed id) errs.
  Proof.
    intros H id Hi H1 H2. destruct (check_errs_order _ _ _ _ H) as (reach & e' & pages & _ & _ & _ & ->).
    apply in_app_iff. right. apply in_app_iff. left. apply seed_errs_in. exists id. auto.
  Qed.

  Theorem check_sweep_complete fuel flrun root errs :
    check fuel flrun root = Some errs ->
    exists reach e, check_bucket fuel root (seed flrun) = Some (reach, e) /\
      forall i, In (EUnreachUnfreed i) errs <-> i < hwm /\ ~ In i reach /\ ~ In i freed.
  Proof.
    intros H. destruct (check_errs_order _ _ _ _ H) as (reach & e' & pages & EC & _ & Hw & ->).
    exists reach, (e' ++ snd (seed flrun)). split; [exact EC|].
    intros i. rewrite !in_app_iff, sweep_in. split.
    - intros [H1 | [H1 | [H1 | (j & E & H1)]]]; [exfalso | exfalso | exfalso | injection E as ->; exact H1].
      + apply dup_errs_only in H1. destruct H1 as [id H1]. discriminate.
      + apply seed_errs_in in H1. destruct H1 as (id & H1 & _). discriminate.
      + rewrite <- in_rev in H1. rewrite Forall_forall in Hw. exact (Hw _ H1).
    - intros H1. right. right. right. exists i. split; [reflexivity | exact H1].
  Qed.

  Corollary check_clean_covers fuel flrun root :
    check fuel flrun root = Some [] ->
    exists reach, check_bucket fuel root (seed flrun) = Some (reach, []) /\ forall i, i < hwm -> In i reach \/ In i freed.
  Proof.
    intros H. pose proof H as H0. rewrite check_unfold in H0.
    destruct (check_sweep_complete _ _ _ _ H) as (reach & e & EC & Hsw).
    rewrite EC in H0. injection H0 as H0. apply app_eq_nil in H0. destruct H0 as [He _].
    assert (e = []) by (destruct e as [|c e]; [reflexivity|]; cbn [rev] in He; apply app_eq_nil in He; destruct He; discriminate).
    subst e. exists reach. split; [exact EC|]. intros i Hi.
    destruct (memN i reach) eqn:E1; [left; apply memN_in; exact E1|].
    destruct (memN i freed) eqn:E2; [right; apply memN_in; exact E2|].
    exfalso. apply memN_false in E1, E2. assert (Hin : In (EUnreachUnfreed i) []) by (apply Hsw; auto). exact Hin.
  Qed.

  (** ** (C4) what a silent walk guarantees *)
  Theorem check_bucket_clean fuel root s s' :
    check_bucket fuel root s = Some s' -> snd s' = snd s ->
    (NoDup (fst s) -> NoDup (fst s')) /\
    (forall id, In id (fst s') -> ~ In id (fst s) -> ~ In id freed) /\
    exists pages, fst s' = flat_map page_ids pages ++ fst s /\ Forall page_static_ok pages.
  Proof.
    intros H Hsnd. destruct (check_bucket_good _ _ _ _ H) as (pages & e & Hf & Hs & _ & Hc).
    rewrite Hs in Hsnd. apply app_self_nil in Hsnd. destruct (Hc Hsnd) as [Hn Hp].
    split; [exact Hn|]. split; [|exists pages; split; assumption].
    intros id Hin Hnin. rewrite Hf, in_app_iff in Hin. destruct Hin as [Hin | Hin]; [|contradiction].
    apply in_flat_map in Hin. destruct Hin as (pg & Hpg & Hid). rewrite Forall_forall in Hp.
    destruct (Hp pg Hpg) as (_ & Hfz & _). exact (Hfz id Hid).
  Qed.

  Theorem walk_reach_clean fuel pg s s' :
    walk_reach fuel pg s = Some s' -> snd s' = snd s ->
    (NoDup (fst s) -> NoDup (fst s')) /\
    (forall id, In id (fst s') -> ~ In id (fst s) -> ~ In id freed) /\
    exists pages, fst s' = flat_map page_ids pages ++ fst s /\ Forall page_static_ok pages.
  Proof.
    intros H Hsnd. destruct (walk_reach_good _ _ _ _ H) as (pages & e & Hf & Hs & _ & Hc).
    rewrite Hs in Hsnd. apply app_self_nil in Hsnd. destruct (Hc Hsnd) as [Hn Hp].
    split; [exact Hn|]. split; [|exists pages; split; assumption].
    intros id Hin Hnin. rewrite Hf, in_app_iff in Hin. destruct Hin as [Hin | Hin]; [|contradiction].
    apply in_flat_map in Hin. destruct Hin as (pg' & Hpg & Hid). rewrite Forall_forall in Hp.
    destruct (Hp pg' Hpg) as (_ & Hfz & _). exact (Hfz id Hid).
  Qed.

  Lemma seed_nodup flrun : NoDup (flrun ++ [0; 1]) -> NoDup (rev flrun ++ [1; 0]).
  Proof.
    intros H. apply NoDup_rev in H. rewrite rev_app_distr in H. cbn [rev app] in H.
    revert H. apply Permutation.Permutation_NoDup. apply (Permutation.Permutation_app_comm [1; 0] (rev flrun)).
  Qed.

  (** The clean verdict, exactly as the code supports it: the ids the WALK added are not free, and no seed id BELOW
      THE MARK is free (the seed test only runs over the ids below the mark). *)
  Theorem check_clean_partition_partial fuel flrun root :
    check fuel flrun root = Some [] -> NoDup (flrun ++ [0; 1]) ->
    NoDup freed /\
    exists pages, let reach := flat_map page_ids pages ++ rev flrun ++ [1; 0] in
      check_bucket fuel root (seed flrun) = Some (reach, []) /\
      NoDup reach /\ Forall page_static_ok pages /\
      (forall id, In id (flat_map page_ids pages) -> ~ In id freed) /\
      (forall id, id < hwm -> In id (flrun ++ [0; 1]) -> ~ In id freed) /\
      (forall i, i < hwm -> In i reach \/ In i freed).
  Proof.
    intros H Hseed. destruct (check_clean_covers _ _ _ H) as (reach & EC & Hcov).
    destruct (walk_err_seed_split _ _ _ _ _ EC) as (pages & e' & Hr & He & _ & Hc).
    symmetry in He. apply app_eq_nil in He. destruct He as [He' Hd]. apply app_eq_nil in Hd. destruct Hd as [Hse Hd].
    assert (Hrev : forall (A : Type) (l : list A), rev l = [] -> l = []).
    { intros A l. destruct l as [|x l]; [reflexivity|]. cbn [rev]. intros H0. apply app_eq_nil in H0. destruct H0; discriminate. }
    apply Hrev in Hse, Hd.
    split; [apply dup_errs_nodup; exact Hd|].
    destruct (Hc He') as [Hn Hp]. exists pages. cbv zeta. rewrite <- Hr.
    split; [exact EC|]. split; [apply Hn, seed_nodup, Hseed|]. split; [exact Hp|]. split; [|split; [|exact Hcov]].
    - intros id Hin. apply in_flat_map in Hin. destruct Hin as (pg & Hpg & Hid). rewrite Forall_forall in Hp.
      destruct (Hp pg Hpg) as (_ & Hfz & _). exact (Hfz id Hid).
    - apply seed_errs_nil_iff. exact Hse.
  Qed.

  (** The C07 partition read off a clean verdict.  The weakest side condition on the seed: whatever part of it lies
      at or above the mark is not free (Tx.check cannot see those ids: [clean_with_freelist_run_past_mark]). *)
  Theorem check_clean_partition_gen fuel flrun root :
    check fuel flrun root = Some [] -> NoDup (flrun ++ [0; 1]) ->
    (forall id, In id (flrun ++ [0; 1]) -> hwm <= id -> ~ In id freed) ->
    NoDup freed /\
    exists reach, NoDup reach /\ (forall id, In id reach -> ~ In id freed) /\ (forall i, i < hwm -> In i reach \/ In i freed).
  Proof.
    intros H Hseed Hsf.
    destruct (check_clean_partition_partial _ _ _ H Hseed) as [Hnd (pages & _ & Hn & _ & Hw & Hlow & Hcov)].
    split; [exact Hnd|]. exists (flat_map page_ids pages ++ rev flrun ++ [1; 0]). split; [exact Hn|]. split; [|exact Hcov].
    intros id Hin. apply in_app_iff in Hin. destruct Hin as [Hin | Hin]; [exact (Hw id Hin)|].
    apply seed_in in Hin. destruct (N.lt_ge_cases id hwm) as [Hlt | Hge]; [exact (Hlow id Hlt Hin) | exact (Hsf id Hin Hge)].
  Qed.

  (** ... in particular when the whole seed lies below the mark (true of every file bbolt writes) *)
  Theorem check_clean_partition fuel flrun root :
    check fuel flrun root = Some [] -> NoDup (flrun ++ [0; 1]) ->
    (forall id, In id (flrun ++ [0; 1]) -> id < hwm) ->
    NoDup freed /\
    exists reach, NoDup reach /\ (forall id, In id reach -> ~ In id freed) /\ (forall i, i < hwm -> In i reach \/ In i freed).
  Proof.
    intros H Hseed Hlt. apply (check_clean_partition_gen _ _ _ H Hseed).
    intros id Hin Hge. specialize (Hlt id Hin). lia.
  Qed.

  (** ** (C6) key order on one leaf page *)
  Lemma blt_lt a b : blt a b = true <-> bcmp a b = Lt.
  Proof. unfold blt. destruct (bcmp a b); split; congruence. Qed.

  Lemma verify_key_nil_iff rep idx key prev maxo :
    verify_key rep idx key prev maxo = [] <->
    (idx = 0 -> opt_le prev key = true) /\ (0 < idx -> blt (okey prev) key = true) /\ opt_lt key maxo = true.
  Proof.
    unfold verify_key, opt_le, opt_lt, blt.
    destruct (N.eqb_spec idx 0) as [E0 | E0]; destruct (N.ltb_spec 0 idx) as [L0 | L0]; try lia;
      destruct prev as [p|]; destruct maxo as [m|]; cbn [andb okey app negb];
      repeat match goal with |- context [bcmp ?a ?b] => destruct (bcmp a b) end; cbn [andb app negb];
      split; intros H; try discriminate; try reflexivity;
      try (repeat split; intros; (reflexivity || lia)); try (destruct H as (H1 & H2 & H3));
      try discriminate; try (specialize (H1 E0); discriminate); try (specialize (H2 L0); discriminate).
  Qed.

  Definition lkey (pg i : N) : bytes := let '(_, key, _, _) := lf_elem pg i in key.
  Definition leaf_keys (pg : N) : list bytes := map (lkey pg) (run 0 (p_count pg)).

  Definition lf_step (pg : N) (maxo : option bytes) (a : list cerr * option bytes) (i : N) : list cerr * option bytes :=
    (fst a ++ verify_key pg i (lkey pg i) (snd a) maxo, Some (lkey pg i)).

  Lemma fold_left_ext {A B} (f g : A -> B -> A) (l : list B) :
    (forall a i, f a i = g a i) -> forall a, fold_left f l a = fold_left g l a.
  Proof. intros H. induction l as [|i l IH]; intros a; [reflexivity|]. cbn [fold_left]. rewrite H. apply IH. Qed.

  Lemma leaf_not_branch pg : is_leaf pg = true -> is_branch pg = false.
  Proof.
    unfold Check.is_leaf, Check.is_branch, leaf_page_flag, branch_page_flag. intros H. apply N.eqb_eq in H. rewrite H. reflexivity.
  Qed.

  Lemma key_order_leaf f pg mino maxo :
    is_leaf pg = true ->
    key_order (S f) pg mino maxo =
    Some (fst (fold_left (lf_step pg maxo) (run 0 (p_count pg)) ([], mino)),
          if 0 <? p_count pg then Some (lkey pg (p_count pg - 1)) else None).
  Proof.
    intros Hl. cbn [Check.key_order]. rewrite (leaf_not_branch _ Hl), Hl. cbv zeta.
    rewrite (fold_left_ext _ (lf_step pg maxo)).
    - destruct (fold_left (lf_step pg maxo) (run 0 (p_count pg)) ([], mino)) as [errs x]. reflexivity.
    - intros a i. unfold lf_step, lkey. destruct (lf_elem pg i) as [[[fl key] vo] vs]. reflexivity.
  Qed.

  Lemma lf_fold_pos pg maxo n : forall p prev e0, 0 < p ->
    exists e, fst (fold_left (lf_step pg maxo) (run_nat p n) (e0, Some prev)) = e0 ++ e /\
      (e = [] <-> strictly_inc (prev :: map (lkey pg) (run_nat p n)) = true /\
                  Forall (fun k => opt_lt k maxo = true) (map (lkey pg) (run_nat p n))).
  Proof.
    induction n as [|n IH]; intros p prev e0 Hp.
    - exists []. cbn [run_nat fold_left map fst]. rewrite app_nil_r. split; [reflexivity|].
      split; [intros _; split; [reflexivity | constructor] | reflexivity].
    - cbn [run_nat fold_left map]. unfold lf_step at 2. cbn [fst snd].
      set (k := lkey pg p). set (vk := verify_key pg p k (Some prev) maxo).
      destruct (IH (p + 1) k (e0 ++ vk)) as (e' & Hf & Hiff); [lia|].
      exists (vk ++ e'). split; [rewrite Hf, app_assoc; reflexivity|].
      pose proof (verify_key_nil_iff pg p k (Some prev) maxo) as Hvk. fold vk in Hvk. cbn [okey] in Hvk.
      change (strictly_inc (prev :: k :: map (lkey pg) (run_nat (p + 1) n)))
        with (blt prev k && strictly_inc (k :: map (lkey pg) (run_nat (p + 1) n))).
      split.
      + intros E. apply app_eq_nil in E. destruct E as [E1 E2]. apply Hvk in E1. destruct E1 as (_ & H2 & H3).
        apply Hiff in E2. destruct E2 as [H4 H5]. rewrite (H2 Hp), H4. split; [reflexivity | constructor; assumption].
      + intros [H1 H2]. apply andb_true_iff in H1. destruct H1 as [H1 H1']. inversion H2 as [|? ? H3 H4]; subst.
        assert (E1 : vk = []) by (apply Hvk; split; [intros; lia | split; [intros _; exact H1 | exact H3]]).
        assert (E2 : e' = []) by (apply Hiff; split; assumption). rewrite E1, E2. reflexivity.
  Qed.

  (** on a leaf page recursivelyCheckPageKeyOrder is silent iff the keys are strictly increasing, the first is
      not below the running minimum and all are below the open maximum *)
  Theorem key_order_leaf_clean f pg mino maxo errs last :
    is_leaf pg = true -> key_order (S f) pg mino maxo = Some (errs, last) ->
    (errs = [] <->
     strictly_inc (leaf_keys pg) = true /\
     match leaf_keys pg with k0 :: _ => opt_le mino k0 = true | [] => True end /\
     Forall (fun k => opt_lt k maxo = true) (leaf_keys pg)).
  Proof.
    intros Hl H. rewrite (key_order_leaf _ _ _ _ Hl) in H. injection H as <- _.
    unfold leaf_keys, run. destruct (N.to_nat (p_count pg)) as [|n].
    - cbn [run_nat fold_left map fst]. split; [intros _; split; [reflexivity | split; [exact I | constructor]] | reflexivity].
    - cbn [run_nat fold_left map]. unfold lf_step at 2. cbn [fst snd app].
      set (k := lkey pg 0). set (vk := verify_key pg 0 k mino maxo).
      destruct (lf_fold_pos pg maxo n (0 + 1) k vk) as (e' & Hf & Hiff); [lia|].
      rewrite Hf.
      pose proof (verify_key_nil_iff pg 0 k mino maxo) as Hvk. fold vk in Hvk.
      split.
      + intros E. apply app_eq_nil in E. destruct E as [E1 E2]. apply Hvk in E1. destruct E1 as (H1 & _ & H3).
        apply Hiff in E2. destruct E2 as [H4 H5]. split; [exact H4|]. split; [apply H1; reflexivity | constructor; assumption].
      + intros (H1 & H2 & H3). inversion H3 as [|? ? H4 H5]; subst.
        assert (E1 : vk = []) by (apply Hvk; split; [intros _; exact H2 | split; [intros; lia | exact H4]]).
        assert (E2 : e' = []) by (apply Hiff; split; assumption). rewrite E1, E2. reflexivity.
  Qed.

  Lemma key_order_leaf_last f pg mino maxo errs last :
    is_leaf pg = true -> key_order (S f) pg mino maxo = Some (errs, last) ->
    last = if 0 <? p_count pg then Some (lkey pg (p_count pg - 1)) else None.
  Proof. intros Hl H. rewrite (key_order_leaf _ _ _ _ Hl) in H. injection H as _ <-. reflexivity. Qed.

  (** ** the list of page visits the walk makes (newest first), and the reachable set as a function of it *)
  Fixpoint walk_pages (fuel : nat) (pg : N) : option (list N) :=
    match fuel with O => None | S f =>
      if is_branch pg then
        fold_left (fun (a : option (list N)) i => match a with None => None | Some l =>
                     match walk_pages f (snd (br_elem pg i)) with None => None | Some l' => Some (l' ++ l) end end)
                  (run 0 (p_count pg)) (Some [pg])
      else Some [pg]
    end.

  Fixpoint bucket_pages (fuel : nat) (root : N) : option (list N) :=
    match fuel with O => None | S f =>
      if root =? 0 then Some [] else
      match walk_pages f root with None => None | Some l =>
      match key_order f root None None with None => None | Some _ =>
      match walkable f root with None => None | Some false => Some l | Some true =>
      match nested_roots f root with None => None | Some roots =>
        fold_left (fun (a : option (list N)) r => match a with None => None | Some l0 =>
                     match bucket_pages f r with None => None | Some l' => Some (l' ++ l0) end end) roots (Some l)
      end end end end
    end.

  (** [good3 pages s s']: [good] with the visited pages named *)
  Definition good3 (pages : list N) (s s' : cst) : Prop :=
    fst s' = flat_map page_ids pages ++ fst s /\
    exists e, snd s' = e ++ snd s /\ Forall walk_err e /\
      (e = [] -> (NoDup (fst s) -> NoDup (fst s')) /\ Forall page_static_ok pages).

  Lemma good3_good p s s' : good3 p s s' -> good s s'.
  Proof. intros (Hf & e & H). exists p, e. split; [exact Hf | exact H]. Qed.

  Lemma good3_refl s : good3 [] s s.
  Proof.
    split; [reflexivity|]. exists []. split; [reflexivity|]. split; [constructor|].
    intros _. split; [intros H; exact H | constructor].
  Qed.

  Lemma good3_trans p1 p2 a b c : good3 p1 a b -> good3 p2 b c -> good3 (p2 ++ p1) a c.
  Proof.
    intros (Hf1 & e1 & Hs1 & Hw1 & Hc1) (Hf2 & e2 & Hs2 & Hw2 & Hc2).
    split; [rewrite Hf2, Hf1, flat_map_app, app_assoc; reflexivity|].
    exists (e2 ++ e1). split; [rewrite Hs2, Hs1, app_assoc; reflexivity|]. split; [apply Forall_app; split; assumption|].
    intros E. apply app_eq_nil in E. destruct E as [E2 E1].
    destruct (Hc1 E1) as [Hn1 Hp1]. destruct (Hc2 E2) as [Hn2 Hp2].
    split; [intros H; exact (Hn2 (Hn1 H)) | apply Forall_app; split; assumption].
  Qed.

  Lemma verify_reachable_good3 pg s : good3 [pg] s (verify_reachable pg s).
  Proof.
    destruct (verify_reachable_spec pg s) as [Hf' (e' & Hs' & Hw' & Hiff)].
    split; [cbn [flat_map]; rewrite app_nil_r; exact Hf'|]. exists e'. split; [exact Hs'|]. split; [exact Hw'|].
    intros E. apply Hiff in E. destruct E as (Hb & Hr & Hfz & Ht). split.
    - intros Hnd. rewrite Hf'. apply NoDup_app_intro; [apply page_ids_nodup | exact Hnd|].
      intros x Hx. apply page_ids_in in Hx. replace x with (p_hid pg + (x - p_hid pg)) by lia. apply Hr. lia.
    - constructor; [|constructor]. split; [exact Hb|]. split; [|exact Ht].
      intros x Hx. apply page_ids_in in Hx. replace x with (p_hid pg + (x - p_hid pg)) by lia. apply Hfz. lia.
  Qed.

  (** two option-threaded folds in lock step: the walk and its list of visits *)
  Lemma fold_opt_lock {A B} (R : list N -> A -> A -> Prop) (F : option A -> B -> option A)
        (G : B -> option (list N)) (l : list B) :
    (forall i, F None i = None) ->
    (forall a, R [] a a) -> (forall p1 p2 a b c, R p1 a b -> R p2 b c -> R (p2 ++ p1) a c) ->
    (forall i a a', In i l -> F (Some a) i = Some a' -> exists p, G i = Some p /\ R p a a') ->
    forall s s' acc, fold_left F l (Some s) = Some s' ->
    exists p, fold_left (fun (a : option (list N)) i => match a with None => None | Some l0 =>
                           match G i with None => None | Some l' => Some (l' ++ l0) end end) l (Some acc)
              = Some (p ++ acc) /\ R p s s'.
  Proof.
    intros HF Hrefl Htrans. induction l as [|i l IH]; intros Hstep s s' acc H.
    - cbn [fold_left] in *. injection H as <-. exists []. split; [reflexivity | apply Hrefl].
    - cbn [fold_left] in *. destruct (F (Some s) i) as [s1|] eqn:E.
      + destruct (Hstep i s s1 (or_introl eq_refl) E) as (p1 & HG & HR). rewrite HG.
        destruct (IH (fun j a a' Hj => Hstep j a a' (or_intror Hj)) s1 s' (p1 ++ acc) H) as (p2 & Hfold & HR2).
        exists (p2 ++ p1). split; [rewrite Hfold, app_assoc; reflexivity | exact (Htrans _ _ _ _ _ HR HR2)].
      + rewrite fold_left_none in H by exact HF. discriminate.
  Qed.

  Lemma walk_reach_good3 fuel : forall pg s s', walk_reach fuel pg s = Some s' ->
    exists pages, walk_pages fuel pg = Some pages /\ good3 pages s s'.
  Proof.
    induction fuel as [|f IH]; intros pg s s' H; [discriminate|].
    cbn [Check.walk_reach walk_pages] in *. cbv zeta in H.
    pose proof (verify_reachable_good3 pg s) as G0.
    destruct (is_branch pg).
    - eapply (fold_opt_lock good3 _ (fun i => walk_pages f (snd (br_elem pg i)))) in H;
        [| reflexivity | apply good3_refl | apply good3_trans | intros i a a' _ Hi; exact (IH _ _ _ Hi)].
      destruct H as (p & Hfold & HR). exists (p ++ [pg]). split; [exact Hfold | exact (good3_trans _ _ _ _ _ G0 HR)].
    - injection H as <-. exists [pg]. split; [reflexivity | exact G0].
  Qed.

  Lemma check_bucket_good3 fuel : forall root s s', check_bucket fuel root s = Some s' ->
    exists pages, bucket_pages fuel root = Some pages /\ good3 pages s s'.
  Proof.
    induction fuel as [|f IH]; intros root s s' H; [discriminate|].
    cbn [Check.check_bucket bucket_pages] in *.
    destruct (root =? 0); [injection H as <-; exists []; split; [reflexivity | apply good3_refl]|].
    destruct (walk_reach f root s) as [s1|] eqn:EW; [|discriminate].
    destruct (walk_reach_good3 _ _ _ _ EW) as (p1 & HW & G1). rewrite HW.
    destruct (key_order f root None None) as [[kerrs sub]|] eqn:EK; [|discriminate].
    cbv zeta in H.
    assert (G2 : good3 [] s1 (fst s1, rev kerrs ++ snd s1)).
    { split; [reflexivity|]. exists (rev kerrs). split; [reflexivity|].
      split; [apply Forall_rev; exact (key_order_walk_err _ _ _ _ _ _ EK)|].
      intros _. split; [intros Hn; exact Hn | constructor]. }
    pose proof (good3_trans _ _ _ _ _ G1 G2) as G12. cbn [app] in G12.
    destruct (walkable f root) as [[|]|]; [|injection H as <-; exists p1; split; [reflexivity | exact G12]|discriminate].
    destruct (nested_roots f root) as [roots|]; [|discriminate].
    eapply (fold_opt_lock good3 _ (fun r => bucket_pages f r)) in H;
      [| reflexivity | apply good3_refl | apply good3_trans | intros i a a' _ Hi; exact (IH _ _ _ Hi)].
    destruct H as (p & Hfold & HR). exists (p ++ p1). split; [exact Hfold | exact (good3_trans _ _ _ _ _ G12 HR)].
  Qed.

  Lemma flat_page_ids_nodup pages : NoDup (flat_map page_ids pages) -> NoDup pages.
  Proof.
    induction pages as [|pg l IH]; intros H; [constructor|]. cbn [flat_map] in H.
    constructor; [|apply IH; exact (NoDup_app_r _ _ H)].
    intros Hin. assert (H1 : In (p_hid pg) (page_ids pg)) by (apply page_ids_in; lia).
    assert (H2 : In (p_hid pg) (flat_map page_ids l)) by (apply in_flat_map; exists pg; split; [exact Hin | exact H1]).
    apply in_split in H1. destruct H1 as (l1 & l2 & E). rewrite E, <- app_assoc in H. cbn [app] in H.
    apply NoDup_remove_2 in H. apply H. rewrite in_app_iff. right. rewrite in_app_iff. right. exact H2.
  Qed.

  (** The reachable set is always (errors or not) the id runs of the visited pages on top of the start state. *)
  Theorem check_bucket_reach fuel root s s' :
    check_bucket fuel root s = Some s' ->
    exists pages, bucket_pages fuel root = Some pages /\ fst s' = flat_map page_ids pages ++ fst s.
  Proof. intros H. destruct (check_bucket_good3 _ _ _ _ H) as (p & HB & Hf & _). exists p. split; assumption. Qed.

  Theorem walk_reach_reach fuel pg s s' :
    walk_reach fuel pg s = Some s' ->
    exists pages, walk_pages fuel pg = Some pages /\ fst s' = flat_map page_ids pages ++ fst s.
  Proof. intros H. destruct (walk_reach_good3 _ _ _ _ H) as (p & HB & Hf & _). exists p. split; assumption. Qed.

  (** (C4) with the visits named: a silent walk visited every page once, every visited page is a branch or a leaf
      page whose stored id is not above the mark, and no id of any visited run is free or was reached before *)
  Theorem check_bucket_clean_visits fuel root s s' :
    check_bucket fuel root s = Some s' -> snd s' = snd s -> NoDup (fst s) ->
    exists pages, bucket_pages fuel root = Some pages /\ fst s' = flat_map page_ids pages ++ fst s /\
      NoDup (fst s') /\ NoDup pages /\ Forall page_static_ok pages.
  Proof.
    intros H Hsnd Hnd. destruct (check_bucket_good3 _ _ _ _ H) as (p & HB & Hf & e & Hs & _ & Hc).
    rewrite Hs in Hsnd. apply app_self_nil in Hsnd. destruct (Hc Hsnd) as [Hn Hp]. specialize (Hn Hnd).
    exists p. split; [exact HB|]. split; [exact Hf|]. split; [exact Hn|]. split; [|exact Hp].
    apply flat_page_ids_nodup. rewrite Hf in Hn. exact (NoDup_app_l _ _ Hn).
  Qed.

  Theorem check_clean_visits fuel flrun root :
    check fuel flrun root = Some [] -> NoDup (flrun ++ [0; 1]) ->
    NoDup freed /\
    exists pages, bucket_pages fuel root = Some pages /\
      let reach := flat_map page_ids pages ++ rev flrun ++ [1; 0] in
      NoDup reach /\ NoDup pages /\ Forall page_static_ok pages /\ (forall i, i < hwm -> In i reach \/ In i freed).
  Proof.
    intros H Hseed. destruct (check_clean_partition_partial _ _ _ H Hseed) as [Hfr _]. split; [exact Hfr|].
    destruct (check_clean_covers _ _ _ H) as (reach & EC & Hcov).
    destruct (check_bucket_clean_visits _ _ _ _ EC) as (p & HB & Hf & Hn & Hnp & Hp).
    - destruct (check_bucket_good _ _ _ _ EC) as (p0 & e0 & _ & Hs0 & _). cbn [snd] in Hs0 |- *.
      symmetry in Hs0. apply app_eq_nil in Hs0. symmetry. exact (proj2 Hs0).
    - cbn [fst seed]. apply seed_nodup, Hseed.
    - exists p. split; [exact HB|]. cbv zeta. cbn [fst seed] in Hf. rewrite <- Hf. repeat split; assumption.
  Qed.

  (** ** (towards C7) the clean verdict on a database whose root bucket is one leaf page without nested buckets,
      characterised exactly *)
  Definition no_buckets (pg : N) : Prop :=
    forall i, i < p_count pg -> N.odd (fst (fst (fst (lf_elem pg i)))) = false.

  Lemma sweep_nil_iff reach : sweep reach = [] <-> forall i, i < hwm -> In i reach \/ In i freed.
  Proof.
    split.
    - intros H i Hi. destruct (memN i reach) eqn:E1; [left; apply memN_in; exact E1|].
      destruct (memN i freed) eqn:E2; [right; apply memN_in; exact E2|]. exfalso.
      apply memN_false in E1, E2. assert (Hin : In (EUnreachUnfreed i) (sweep reach)) by (apply sweep_in; exists i; auto).
      rewrite H in Hin. exact Hin.
    - intros H. destruct (sweep reach) as [|c l] eqn:E; [reflexivity|]. exfalso.
      assert (Hin : In c (sweep reach)) by (rewrite E; left; reflexivity).
      apply sweep_in in Hin. destruct Hin as (i & _ & Hi & H1 & H2). destruct (H i Hi); contradiction.
  Qed.

  Lemma nested_roots_leaf_nil f pg : is_leaf pg = true -> no_buckets pg -> nested_roots (S f) pg = Some [].
  Proof.
    intros Hl Hnb. cbn [Check.nested_roots]. rewrite (leaf_not_branch _ Hl), Hl. f_equal.
    assert (H : forall l, (forall i, In i l -> i < p_count pg) ->
      flat_map (fun i => let '(fl, _, voff, _) := lf_elem pg i in if N.odd fl then [u64 rd voff] else []) l = []).
    { induction l as [|i l IH]; intros Hin; [reflexivity|]. cbn [flat_map]. rewrite IH by (intros j Hj; apply Hin; right; exact Hj).
      specialize (Hnb i (Hin i (or_introl eq_refl))). destruct (lf_elem pg i) as [[[fl key] vo] vs]. cbn [fst] in Hnb.
      rewrite Hnb. reflexivity. }
    apply H. intros i Hi. apply run_in in Hi. lia.
  Qed.

  Lemma check_bucket_leaf f root s :
    is_leaf root = true -> root <> 0 -> no_buckets root ->
    check_bucket (S (S f)) root s =
    Some (fst (verify_reachable root s),
          rev (fst (fold_left (lf_step root None) (run 0 (p_count root)) ([], None))) ++ snd (verify_reachable root s)).
  Proof.
    intros Hl Hr Hnb. cbn [Check.check_bucket]. apply N.eqb_neq in Hr. rewrite Hr.
    cbn [Check.walk_reach]. rewrite (leaf_not_branch _ Hl). cbv zeta.
    rewrite (key_order_leaf _ _ _ _ Hl). cbn [Check.walkable]. rewrite (leaf_not_branch _ Hl), Hl.
    rewrite (nested_roots_leaf_nil _ _ Hl Hnb). reflexivity.
  Qed.

  Theorem check_leaf_root_clean_iff f flrun root :
    is_leaf root = true -> root <> 0 -> no_buckets root ->
    (check (S (S f)) flrun root = Some [] <->
     NoDup freed /\ (forall id, id < hwm -> In id (flrun ++ [0; 1]) -> ~ In id freed) /\
     page_ok root (rev flrun ++ [1; 0]) /\ strictly_inc (leaf_keys root) = true /\
     (forall i, i < hwm -> In i (page_ids root ++ rev flrun ++ [1; 0]) \/ In i freed)).
  Proof.
    intros Hl Hr Hnb. rewrite check_unfold, (check_bucket_leaf _ _ _ Hl Hr Hnb).
    destruct (verify_reachable_spec root (seed flrun)) as [Hf (e & Hs & _ & Hiff)]. cbn [fst snd seed] in Hf, Hs, Hiff.
    rewrite Hf, Hs.
    set (kerrs := fst (fold_left (lf_step root None) (run 0 (p_count root)) ([], None))).
    assert (HK : kerrs = [] <-> strictly_inc (leaf_keys root) = true).
    { pose proof (key_order_leaf_clean 0 root None None kerrs _ Hl (key_order_leaf 0 root None None Hl)) as HK.
      rewrite HK. split; [intros (H & _ & _); exact H | intros H; split; [exact H|]].
      split; [destruct (leaf_keys root); [exact I | reflexivity] | apply Forall_forall; intros; reflexivity]. }
    assert (Hrev : forall (A : Type) (l : list A), rev l = [] <-> l = []).
    { intros A l. split; [|intros ->; reflexivity]. destruct l as [|x l]; [reflexivity|]. cbn [rev]. intros H.
      apply app_eq_nil in H. destruct H; discriminate. }
    rewrite <- HK, <- Hiff, <- sweep_nil_iff, <- dup_errs_nodup, <- seed_errs_nil_iff. split.
    - intros H. injection H as H. apply app_eq_nil in H. destruct H as [H1 H2]. apply (proj1 (Hrev _ _)) in H1.
      apply app_eq_nil in H1. destruct H1 as [H1 H3]. apply (proj1 (Hrev _ _)) in H1. apply app_eq_nil in H3. destruct H3 as [H3 H4].
      apply app_eq_nil in H4. destruct H4 as [H4 H5]. apply (proj1 (Hrev _ _)) in H4. apply (proj1 (Hrev _ _)) in H5. auto.
    - intros (H1 & H2 & H3 & H4 & H5). rewrite H1, H2, H3, H4, H5. reflexivity.
  Qed.

  (** ** (C7, partial) against the accounting predicate of the independent decoder, on a view with the shape
      [dec_with_meta] produces for a one-leaf-page root: [v_pages = [(stored id, overflow, flags)]] *)
  Lemma NoDup_app_disj {A} (a b : list A) x : NoDup (a ++ b) -> In x a -> ~ In x b.
  Proof.
    induction a as [|y a IH]; intros H Ha Hb; [destruct Ha|]. cbn [app] in H. inversion H as [|? ? Hy H']; subst.
    destruct Ha as [-> | Ha]; [apply Hy, in_app_iff; right; exact Hb | exact (IH H' Ha Hb)].
  Qed.

  Theorem accounted_leaf_root_clean f flrun root (v : dbview) fl :
    is_leaf root = true -> root <> 0 -> no_buckets root ->
    v_pages v = [(p_hid root, p_ov root, fl)] -> v_flpage v = flrun -> m_mark (v_meta v) = hwm ->
    accounted v freed = true -> strictly_inc (leaf_keys root) = true ->
    check (S (S f)) flrun root = Some [].
  Proof.
    intros Hl Hr Hnb Hpg Hfl Hmk Hacc Hord. apply (check_leaf_root_clean_iff _ _ _ Hl Hr Hnb).
    apply accounted_sound in Hacc. cbv zeta in Hacc. rewrite Hpg, Hfl, Hmk in Hacc.
    unfold Layout.page_ids in Hacc. cbn [flat_map] in Hacc. rewrite app_nil_r in Hacc. destruct Hacc as [Hnd Hin].
    assert (Hrun : forall i, i < p_ov root + 1 -> In (p_hid root + i) (run (p_hid root) (p_ov root + 1)))
      by (intros i Hi; apply run_in; lia).
    assert (Hrng : forall i, i < p_ov root + 1 -> 2 <= p_hid root + i < hwm).
    { intros i Hi. destruct (proj1 (Hin (p_hid root + i))) as [H | []]; [|exact H]. apply in_app_iff. left. exact (Hrun i Hi). }
    split; [exact (NoDup_app_r _ _ (NoDup_app_r _ _ Hnd))|]. split; [|split; [|split; [exact Hord|]]].
    - intros id _ Hs Hc. apply in_app_iff in Hs. destruct Hs as [Hs | Hs].
      + exact (NoDup_app_disj _ _ _ (NoDup_app_r _ _ Hnd) Hs Hc).
      + destruct (proj1 (Hin id)) as [H | []]; [apply in_app_iff; right; apply in_app_iff; right; exact Hc|].
        cbn [In] in Hs. lia.
    - split; [specialize (Hrng 0); lia|]. split; [|split].
      + intros i Hi Hc. apply in_app_iff in Hc. destruct Hc as [Hc | Hc].
        * rewrite <- in_rev in Hc. apply (NoDup_app_disj _ _ _ Hnd (Hrun i Hi)). apply in_app_iff. left. exact Hc.
        * specialize (Hrng i Hi). cbn [In] in Hc. lia.
      + intros i Hi Hc. apply (NoDup_app_disj _ _ _ Hnd (Hrun i Hi)). apply in_app_iff. right. exact Hc.
      + rewrite Hl. apply orb_true_r.
    - intros i Hi. destruct (N.lt_ge_cases i 2) as [Hlt | Hge].
      + left. apply in_app_iff. right. apply in_app_iff. right. cbn [In]. lia.
      + assert (Hi' : In i (run (p_hid root) (p_ov root + 1) ++ flrun ++ freed)) by (apply Hin; left; lia).
        apply in_app_iff in Hi'. destruct Hi' as [Hi' | Hi'].
        * left. apply in_app_iff. left. apply page_ids_in. apply run_in in Hi'. lia.
        * apply in_app_iff in Hi'. destruct Hi' as [Hi' | Hi']; [left | right; exact Hi'].
          apply in_app_iff. right. apply in_app_iff. left. rewrite <- in_rev. exact Hi'.
  Qed.

  (** The converse needs what Tx.check does not test: every free id, every id of the freelist run and every id of the
      root's run lies in [2, mark) (see [clean_with_run_past_mark], [clean_with_free_id_past_mark],
      [clean_with_freelist_run_past_mark]).  That no id of the freelist run is free now follows from the seed test. *)
  Theorem clean_leaf_root_accounted_partial f flrun root (v : dbview) fl :
    is_leaf root = true -> root <> 0 -> no_buckets root ->
    v_pages v = [(p_hid root, p_ov root, fl)] -> v_flpage v = flrun -> m_mark (v_meta v) = hwm ->
    NoDup flrun ->
    (forall id, In id (run (p_hid root) (p_ov root + 1) ++ flrun ++ freed) -> 2 <= id < hwm) ->
    check (S (S f)) flrun root = Some [] ->
    accounted v freed = true /\ strictly_inc (leaf_keys root) = true.
  Proof.
    intros Hl Hr Hnb Hpg Hfl Hmk Hndf Hrng Hc. apply (check_leaf_root_clean_iff _ _ _ Hl Hr Hnb) in Hc.
    destruct Hc as (Hnd & Hsf & (Hb & Hreach & Hfree & _) & Hord & Hcov). split; [|exact Hord].
    assert (Hdisj : forall id, In id flrun -> ~ In id freed).
    { intros id Hid. apply Hsf; [|apply in_app_iff; left; exact Hid].
      apply (Hrng id). apply in_app_iff. right. apply in_app_iff. left. exact Hid. }
    apply accounted_complete; cbv zeta; rewrite ?Hpg, ?Hfl, ?Hmk; unfold Layout.page_ids; cbn [flat_map]; rewrite app_nil_r.
    - apply NoDup_app_intro; [unfold run; apply run_nat_nodup | apply NoDup_app_intro; assumption|].
      intros x Hx Hc. apply run_in in Hx. replace x with (p_hid root + (x - p_hid root)) in Hc by lia.
      apply in_app_iff in Hc. destruct Hc as [Hc | Hc].
      + apply (Hreach (x - p_hid root)); [lia|]. apply in_app_iff. left. rewrite <- in_rev. exact Hc.
      + apply (Hfree (x - p_hid root)); [lia | exact Hc].
    - intros id. split; [apply Hrng|]. intros Hid. destruct (Hcov id) as [H | H]; [lia| |].
      + apply in_app_iff in H. destruct H as [H | H].
        * apply in_app_iff. left. apply page_ids_in in H. apply run_in. lia.
        * apply in_app_iff in H. destruct H as [H | H]; [|cbn [In] in H; lia].
          apply in_app_iff. right. apply in_app_iff. left. rewrite <- in_rev in H. exact H.
      + apply in_app_iff. right. apply in_app_iff. right. exact H.
  Qed.

End ChkP.

(** * Examples on a hand-built 3-page image (page size 128): two meta pages, leaf root page 2 *)
Definition ex_pad (n : nat) (l : list N) : list N := l ++ repeat 0 (n - length l).
Definition ex_meta (txid : N) : meta :=
  with_sum {| m_magic := magic; m_version := version; m_pagesize := 128; m_flags := 0; m_root := 2; m_seq := 0;
              m_fl := pgid_no_freelist; m_mark := 3; m_txid := txid; m_sum := 0 |}.
Definition ex_meta_page (slot txid : N) : list N :=
  ex_pad 128 (enc_page_header slot meta_page_flag 0 0 ++ enc_meta (ex_meta txid)).
Definition ex_kvs : list (bytes * bytes) := [([1], [2; 3]); ([4; 5], [6])].
Definition ex_image (root_page : list N) : list N := ex_meta_page 0 6 ++ ex_meta_page 1 7 ++ ex_pad 128 root_page.
Definition ex_rd : N -> N := rd_of (ex_image (enc_leaf_page 2 ex_kvs)).

Example ex_clean : check ex_rd 128 [] 3 10 [] 2 = Some [].
Proof. vm_compute. reflexivity. Qed.

Example ex_clean_file : check_file ex_rd 128 10 [] = Some [].
Proof. vm_compute. reflexivity. Qed.

Example ex_root_freed : check ex_rd 128 [2] 3 10 [] 2 = Some [EReachFreed 2].
Proof. vm_compute. reflexivity. Qed.

Example ex_dup_free : check ex_rd 128 [3; 3] 4 10 [] 2 = Some [EAlreadyFreed 3].
Proof. vm_compute. reflexivity. Qed.

Example ex_leak : check ex_rd 128 [] 5 10 [] 2 = Some [EUnreachUnfreed 3; EUnreachUnfreed 4].
Proof. vm_compute. reflexivity. Qed.

Example ex_out_of_bounds : check ex_rd 128 [] 1 10 [] 2 = Some [EOutOfBounds 2].
Proof. vm_compute. reflexivity. Qed.

Example ex_key_order :
  check (rd_of (ex_image (enc_leaf_page 2 [([4; 5], [6]); ([1], [2; 3])]))) 128 [] 3 10 [] 2 = Some [EKeyLt 2 1].
Proof. vm_compute. reflexivity. Qed.

Example ex_invalid_type :
  check (rd_of (ex_image (enc_page_header 2 freelist_page_flag 0 0))) 128 [] 3 10 [] 2
  = Some [EInvalidType 2; EUnexpectedType 2].
Proof. vm_compute. reflexivity. Qed.

(** A meta page or the freelist page listed as free: invisible to the first model (and to the Go code it mirrored -
    that was the finding); the seed test added since reports them. *)
Example meta_free_reported : check ex_rd 128 [0] 3 10 [] 2 = Some [EReachFreed 0].
Proof. vm_compute. reflexivity. Qed.

Example freelist_page_free_reported : check ex_rd 128 [3] 4 10 [3] 2 = Some [EReachFreed 3].
Proof. vm_compute. reflexivity. Qed.

(** order of the report: duplicates of the free list, then free seed ids, then the walk, then the sweep *)
Example report_order : check ex_rd 128 [1; 1; 2] 4 10 [] 2 = Some [EAlreadyFreed 1; EReachFreed 1; EReachFreed 2; EUnreachUnfreed 3].
Proof. vm_compute. reflexivity. Qed.

(** Still invisible: the seed test runs over the ids below the mark only, so a freelist page run lying at or above
    the mark (here id 5, mark 3) may be listed as free without any report. *)
Example clean_with_freelist_run_past_mark : check ex_rd 128 [5] 3 10 [5] 2 = Some [].
Proof. vm_compute. reflexivity. Qed.

(** The bounds test looks only at the head id of a run and uses [>]: an overflow run reaching past the
    high-water mark (ids 3..7 with mark 3) is accepted, and so is a page whose id equals the mark. *)
Example clean_with_run_past_mark :
  check (rd_of (ex_image (enc_leaf_page_ov 2 5 ex_kvs))) 128 [] 3 10 [] 2 = Some [].
Proof. vm_compute. reflexivity. Qed.

(** A free id at or above the mark is accepted as well (only ids below the mark are swept, and nothing bounds the free ids). *)
Example clean_with_free_id_past_mark : check ex_rd 128 [9] 3 10 [] 2 = Some [].
Proof. vm_compute. reflexivity. Qed.

Example head_id_equal_mark_not_out_of_bounds :
  verify_reachable ex_rd 128 [] 2 2 ([1; 0], []) = ([2; 1; 0], []).
Proof. vm_compute. reflexivity. Qed.

(** The walk records the id STORED in the page (p.Id()), not the position it was read from: a root at
    position 2 that claims to be page 3 makes 3 reachable and leaves 2 to the final sweep. *)
Example stored_id_is_what_counts :
  check (rd_of (ex_image (enc_leaf_page 3 ex_kvs))) 128 [] 4 10 [] 2 = Some [EUnreachUnfreed 2].
Proof. vm_compute. reflexivity. Qed.

Print Assumptions dup_errs_complete.
Print Assumptions dup_errs_nodup.
Print Assumptions verify_reachable_mono.
Print Assumptions walk_reach_mono.
Print Assumptions check_bucket_mono.
Print Assumptions check_sweep_complete.
Print Assumptions check_clean_covers.
Print Assumptions verify_reachable_silent_iff.
Print Assumptions verify_reachable_reach.
Print Assumptions walk_reach_clean.
Print Assumptions check_bucket_clean.
Print Assumptions check_clean_partition_partial.
Print Assumptions check_clean_partition.
Print Assumptions verify_key_nil_iff.
Print Assumptions key_order_leaf_clean.
Print Assumptions walk_reach_reach.
Print Assumptions check_bucket_reach.
Print Assumptions check_bucket_clean_visits.
Print Assumptions check_clean_visits.
Print Assumptions check_leaf_root_clean_iff.
Print Assumptions accounted_leaf_root_clean.
Print Assumptions clean_leaf_root_accounted_partial.
Print Assumptions check_errs_order.
Print Assumptions check_seed_free_reported.
Print Assumptions check_clean_partition_gen.
