(** LayoutPageProofs: writer side of freelist / leaf / branch pages (published version-2 layout) and the proofs
    that the independent reader Layout.v recovers what was written, at any position in a file. *)
From Bbolt Require Import Base BaseProofs Consts Spec Fnv Layout LayoutEnc LayoutProofs.
From Coq Require Import ZifyN ZifyNat ZifyBool.

(** * generic facts *)
Lemma map_run_nat_succ {A} (f : N -> A) n : forall p,
  map f (run_nat (p + 1) n) = map (fun i => f (i + 1)) (run_nat p n).
Proof.
  induction n as [|n IH]; intros p; cbn [run_nat map]; [reflexivity|]. f_equal. apply IH.
Qed.

Lemma idxs_of_nat n : idxs (N.of_nat n) = run_nat 0 n.
Proof. unfold idxs, run. now rewrite Nat2N.id. Qed.

(** four consecutive u32 fields *)
Lemma four_u32 a v1 v2 v3 v4 post :
  v1 < 2^32 -> v2 < 2^32 -> v3 < 2^32 -> v4 < 2^32 ->
  let rd := rd_of (a ++ enc_le 4 v1 ++ enc_le 4 v2 ++ enc_le 4 v3 ++ enc_le 4 v4 ++ post) in
  let b := N.of_nat (length a) in
  u32 rd b = v1 /\ u32 rd (b + 4) = v2 /\ u32 rd (b + 8) = v3 /\ u32 rd (b + 12) = v4.
Proof.
  intros H1 H2 H3 H4 rd b. subst rd b. unfold u32.
  set (f1 := enc_le 4 v1). set (f2 := enc_le 4 v2). set (f3 := enc_le 4 v3). set (f4 := enc_le 4 v4).
  repeat split.
  - apply le_enc_le. exact H1.
  - apply le_at; [exact H2 | unfold f1; now rewrite enc_le_length].
  - replace (a ++ f1 ++ f2 ++ f3 ++ f4 ++ post) with (a ++ (f1 ++ f2) ++ enc_le 4 v3 ++ (f4 ++ post))
      by (rewrite <- !app_assoc; reflexivity).
    apply le_at; [exact H3 | unfold f1, f2; now rewrite app_length, !enc_le_length].
  - replace (a ++ f1 ++ f2 ++ f3 ++ f4 ++ post) with (a ++ (f1 ++ f2 ++ f3) ++ enc_le 4 v4 ++ post)
      by (rewrite <- !app_assoc; reflexivity).
    apply le_at; [exact H4 | unfold f1, f2, f3; now rewrite !app_length, !enc_le_length].
Qed.

(** * the 16-byte page header: id:u64, flags:u16, count:u16, overflow:u32 *)
Definition enc_page_header (pg flags count ov : N) : list N :=
  enc_le 8 pg ++ enc_le 2 flags ++ enc_le 2 count ++ enc_le 4 ov.

Lemma enc_page_header_length pg fl c ov : length (enc_page_header pg fl c ov) = 16%nat.
Proof. unfold enc_page_header. now rewrite !app_length, !enc_le_length. Qed.

Section Header.
  Variables (pre post : list N) (pg fl c ov : N).
  Let rd := rd_of (pre ++ enc_page_header pg fl c ov ++ post).
  Let b := N.of_nat (length pre).

  Lemma header_id : pg < 2^64 -> u64 rd b = pg.
  Proof.
    intros H. subst rd b. unfold enc_page_header, u64. rewrite <- !app_assoc. apply le_enc_le. exact H.
  Qed.
  Lemma header_flags : fl < 2^16 -> u16 rd (b + 8) = fl.
  Proof.
    intros H. subst rd b. unfold enc_page_header, u16. rewrite <- !app_assoc.
    apply le_at; [exact H | now rewrite enc_le_length].
  Qed.
  Lemma header_count : c < 2^16 -> u16 rd (b + 10) = c.
  Proof.
    intros H. subst rd b. unfold enc_page_header, u16. rewrite <- !app_assoc.
    replace (pre ++ enc_le 8 pg ++ enc_le 2 fl ++ enc_le 2 c ++ enc_le 4 ov ++ post)
      with (pre ++ (enc_le 8 pg ++ enc_le 2 fl) ++ enc_le 2 c ++ (enc_le 4 ov ++ post))
      by (rewrite <- !app_assoc; reflexivity).
    apply le_at; [exact H | now rewrite app_length, !enc_le_length].
  Qed.
  Lemma header_overflow : ov < 2^32 -> u32 rd (b + 12) = ov.
  Proof.
    intros H. subst rd b. unfold enc_page_header, u32. rewrite <- !app_assoc.
    replace (pre ++ enc_le 8 pg ++ enc_le 2 fl ++ enc_le 2 c ++ enc_le 4 ov ++ post)
      with (pre ++ (enc_le 8 pg ++ enc_le 2 fl ++ enc_le 2 c) ++ enc_le 4 ov ++ post)
      by (rewrite <- !app_assoc; reflexivity).
    apply le_at; [exact H | now rewrite !app_length, !enc_le_length].
  Qed.
End Header.

(** * freelist page *)
(** reading the i-th u64 of a packed array of ids *)
Lemma u64s_read ids : forall a post, (forall x, In x ids -> x < 2^64) ->
  map (fun i => u64 (rd_of (a ++ flat_map (enc_le 8) ids ++ post)) (N.of_nat (length a) + 8 * i))
      (run_nat 0 (length ids)) = ids.
Proof.
  induction ids as [|x r IH]; intros a post H; [reflexivity|].
  cbn [length run_nat map flat_map]. f_equal.
  - rewrite N.mul_0_r, N.add_0_r, <- app_assoc. apply le_enc_le. apply H. left; reflexivity.
  - rewrite map_run_nat_succ.
    etransitivity; [| apply (IH (a ++ enc_le 8 x) post); intros y Hy; apply H; right; exact Hy].
    apply map_ext. intros i. f_equal.
    + f_equal. now rewrite <- !app_assoc.
    + rewrite app_length, enc_le_length. lia.
Qed.

Definition enc_freelist_page (pg ov : N) (ids : list N) : list N :=
  let n := N.of_nat (length ids) in
  enc_page_header pg freelist_page_flag (if n <? 65535 then n else 65535) ov
  ++ (if n <? 65535 then [] else enc_le 8 n) ++ flat_map (enc_le 8) ids.

(** the two encodings; the boundary: a list of exactly 65534 ids still uses the plain count, a list of exactly
    65535 ids must use the 0xFFFF escape (count field 0xFFFF, real count in the first u64) *)
Lemma enc_freelist_page_small pg ov ids : N.of_nat (length ids) <= 65534 ->
  enc_freelist_page pg ov ids =
  enc_page_header pg freelist_page_flag (N.of_nat (length ids)) ov ++ flat_map (enc_le 8) ids.
Proof.
  intros H. unfold enc_freelist_page. cbv zeta. destruct (N.ltb_spec (N.of_nat (length ids)) 65535); [reflexivity | lia].
Qed.
Lemma enc_freelist_page_large pg ov ids : 65535 <= N.of_nat (length ids) ->
  enc_freelist_page pg ov ids =
  enc_page_header pg freelist_page_flag 65535 ov ++ enc_le 8 (N.of_nat (length ids)) ++ flat_map (enc_le 8) ids.
Proof.
  intros H. unfold enc_freelist_page. cbv zeta. destruct (N.ltb_spec (N.of_nat (length ids)) 65535); [lia | reflexivity].
Qed.

Theorem freelist_page_roundtrip ps pg ov ids pre post :
  N.of_nat (length pre) = pg * ps ->
  (forall x, In x ids -> x < 2^64) ->
  N.of_nat (length ids) < 2^64 ->
  freelist_ids (rd_of (pre ++ enc_freelist_page pg ov ids ++ post)) ps pg = ids.
Proof.
  intros Hpre Hids Hn. unfold freelist_ids. rewrite <- Hpre.
  set (n := N.of_nat (length ids)) in *.
  destruct (N.le_gt_cases n 65534) as [Hs|Hl].
  - rewrite enc_freelist_page_small by exact Hs. fold n. rewrite <- app_assoc.
    rewrite header_count by lia.
    destruct (N.eqb_spec n 65535) as [E|_]; [lia|].
    unfold n at 2. rewrite idxs_of_nat.
    rewrite app_assoc.
    replace (N.of_nat (length pre) + 16) with (N.of_nat (length (pre ++ enc_page_header pg freelist_page_flag n ov)))
      by (rewrite app_length, enc_page_header_length; lia).
    apply u64s_read. exact Hids.
  - rewrite enc_freelist_page_large by lia. fold n. rewrite <- app_assoc.
    rewrite header_count by reflexivity.
    rewrite N.eqb_refl.
    set (hdr := enc_page_header pg freelist_page_flag 65535 ov).
    assert (Hlen : N.of_nat (length hdr) = 16) by (unfold hdr; now rewrite enc_page_header_length).
    assert (E : u64 (rd_of (pre ++ hdr ++ (enc_le 8 n ++ flat_map (enc_le 8) ids) ++ post)) (N.of_nat (length pre) + 16) = n).
    { rewrite <- app_assoc. apply le_at; [exact Hn | exact Hlen]. }
    rewrite E. unfold n at 2. rewrite idxs_of_nat.
    replace (pre ++ hdr ++ (enc_le 8 n ++ flat_map (enc_le 8) ids) ++ post)
      with ((pre ++ hdr ++ enc_le 8 n) ++ flat_map (enc_le 8) ids ++ post) by (rewrite <- !app_assoc; reflexivity).
    replace (N.of_nat (length pre) + 24) with (N.of_nat (length (pre ++ hdr ++ enc_le 8 n)))
      by (rewrite !app_length, enc_le_length; lia).
    apply u64s_read. exact Hids.
Qed.

Theorem freelist_page_header_roundtrip ps pg ov ids pre post :
  N.of_nat (length pre) = pg * ps -> ov < 2^32 ->
  let rd := rd_of (pre ++ enc_freelist_page pg ov ids ++ post) in
  freelist_flags rd ps pg = freelist_page_flag /\ freelist_overflow rd ps pg = ov.
Proof.
  intros Hpre Hov rd. subst rd. unfold freelist_flags, freelist_overflow, enc_freelist_page. cbv zeta.
  rewrite <- Hpre, <- app_assoc. split; [apply header_flags; reflexivity | apply header_overflow; exact Hov].
Qed.

(** * leaf page with plain values, packed the way bbolt writes it: header, all element headers, then key/value bytes *)
Fixpoint kv_total (kvs : list (bytes * bytes)) : N :=
  match kvs with [] => 0 | kv :: r => len (fst kv) + len (snd kv) + kv_total r end.

(** element headers; [doff] = offset of this element's key from the start of the data area; the stored [pos] is the
    distance from the start of THIS element header to its key *)
Fixpoint enc_leaf_elems (doff : N) (kvs : list (bytes * bytes)) : list N :=
  match kvs with [] => [] | kv :: r =>
    enc_le 4 0 ++ enc_le 4 (16 * N.of_nat (S (length r)) + doff) ++ enc_le 4 (len (fst kv)) ++ enc_le 4 (len (snd kv))
    ++ enc_leaf_elems (doff + len (fst kv) + len (snd kv)) r end.

Definition leaf_data (kvs : list (bytes * bytes)) : list N := flat_map (fun kv => fst kv ++ snd kv) kvs.

Definition enc_leaf_page_ov (pg ov : N) (kvs : list (bytes * bytes)) : list N :=
  enc_page_header pg leaf_page_flag (N.of_nat (length kvs)) ov ++ enc_leaf_elems 0 kvs ++ leaf_data kvs.
Definition enc_leaf_page (pg : N) (kvs : list (bytes * bytes)) : list N := enc_leaf_page_ov pg 0 kvs.

Lemma enc_leaf_elems_length kvs : forall doff, length (enc_leaf_elems doff kvs) = (16 * length kvs)%nat.
Proof.
  induction kvs as [|kv r IH]; intros doff; [reflexivity|].
  cbn [enc_leaf_elems length]. rewrite !app_length, !enc_le_length, IH. lia.
Qed.

Lemma leaf_data_length kvs : N.of_nat (length (leaf_data kvs)) = kv_total kvs.
Proof.
  induction kvs as [|kv r IH]; [reflexivity|].
  unfold leaf_data in *. cbn [flat_map kv_total]. rewrite !app_length, !Nat2N.inj_add, IH. unfold len. reflexivity.
Qed.

Lemma enc_leaf_page_ov_length pg ov kvs :
  N.of_nat (length (enc_leaf_page_ov pg ov kvs)) = 16 + 16 * N.of_nat (length kvs) + kv_total kvs.
Proof.
  unfold enc_leaf_page_ov. rewrite !app_length, enc_page_header_length, enc_leaf_elems_length, !Nat2N.inj_add, leaf_data_length. lia.
Qed.

(** what the reader should see in the element headers: (flags, absolute key position, ksize, vsize) *)
Fixpoint leaf_elems_spec (D0 doff : N) (kvs : list (bytes * bytes)) : list (N * N * N * N) :=
  match kvs with [] => [] | kv :: r =>
    (0, D0 + doff, len (fst kv), len (snd kv)) :: leaf_elems_spec D0 (doff + len (fst kv) + len (snd kv)) r end.

Lemma leaf_elems_read kvs : forall a doff post,
  16 * N.of_nat (length kvs) + doff + kv_total kvs < 2^32 ->
  let rd := rd_of (a ++ enc_leaf_elems doff kvs ++ post) in
  map (fun i => (u32 rd (N.of_nat (length a) + 16 * i),
                 N.of_nat (length a) + 16 * i + u32 rd (N.of_nat (length a) + 16 * i + 4),
                 u32 rd (N.of_nat (length a) + 16 * i + 8),
                 u32 rd (N.of_nat (length a) + 16 * i + 12))) (run_nat 0 (length kvs))
  = leaf_elems_spec (N.of_nat (length a) + 16 * N.of_nat (length kvs)) doff kvs.
Proof.
  induction kvs as [|kv r IH]; intros a doff post Hb; [reflexivity|].
  cbv zeta. cbn [length run_nat map leaf_elems_spec enc_leaf_elems]. cbn [kv_total length] in Hb.
  rewrite <- !app_assoc.
  set (pos := 16 * N.of_nat (S (length r)) + doff).
  set (doff' := doff + len (fst kv) + len (snd kv)).
  destruct (four_u32 a 0 pos (len (fst kv)) (len (snd kv)) (enc_leaf_elems doff' r ++ post)) as (E1 & E2 & E3 & E4);
    try (subst pos; lia).
  f_equal.
  - rewrite N.mul_0_r, N.add_0_r. rewrite E1, E2, E3, E4. subst pos. rewrite N.add_assoc. reflexivity.
  - rewrite map_run_nat_succ.
    set (a' := a ++ enc_le 4 0 ++ enc_le 4 pos ++ enc_le 4 (len (fst kv)) ++ enc_le 4 (len (snd kv))).
    assert (La : N.of_nat (length a') = N.of_nat (length a) + 16).
    { unfold a'. rewrite !app_length, !enc_le_length. lia. }
    replace (N.of_nat (length a) + 16 * N.of_nat (S (length r))) with (N.of_nat (length a') + 16 * N.of_nat (length r)) by lia.
    etransitivity; [| apply (IH a' doff' post); subst doff'; lia].
    cbv zeta.
    replace (a' ++ enc_leaf_elems doff' r ++ post)
      with (a ++ enc_le 4 0 ++ enc_le 4 pos ++ enc_le 4 (len (fst kv)) ++ enc_le 4 (len (snd kv)) ++ enc_leaf_elems doff' r ++ post)
      by (unfold a'; rewrite <- !app_assoc; reflexivity).
    apply map_ext. intros i. rewrite La.
    replace (N.of_nat (length a) + 16 * (i + 1)) with (N.of_nat (length a) + 16 + 16 * i) by lia.
    reflexivity.
Qed.

Section LeafData.
  Variable G : N * N * N * N -> option (bytes * entry * list (N * N * N) * bool * bool).
  Variable rd : N -> N.
  Hypothesis G_plain : forall kp ks vs,
    G (0, kp, ks, vs) = Some (rbytes rd (N.to_nat ks) kp, Val (rbytes rd (N.to_nat vs) (kp + ks)), [], true, true).

  Lemma leaf_data_read kvs : forall a doff D0 post limit,
    rd = rd_of (a ++ leaf_data kvs ++ post) ->
    D0 + doff = N.of_nat (length a) ->
    N.of_nat (length a) + kv_total kvs <= limit ->
    map (fun x : N * N * N * N => let '(efl, kp, ks, vs) := x in rbytes rd (N.to_nat ks) kp) (leaf_elems_spec D0 doff kvs) = map fst kvs
    /\ mapM G (leaf_elems_spec D0 doff kvs) = Some (map (fun kv => (fst kv, Val (snd kv), [], true, true)) kvs)
    /\ forallb (fun x : N * N * N * N => let '(efl, kp, ks, vs) := x in kp + ks + vs <=? limit) (leaf_elems_spec D0 doff kvs) = true.
  Proof.
    induction kvs as [|[k v] r IH]; intros a doff D0 post limit Hrd HD Hl; [repeat split|].
    cbn [leaf_elems_spec map mapM forallb fst snd kv_total] in *.
    assert (Ek : rbytes rd (N.to_nat (len k)) (D0 + doff) = k).
    { rewrite Hrd, HD. unfold len, leaf_data. rewrite Nat2N.id. cbn [flat_map fst snd]. rewrite <- !app_assoc. apply rbytes_app. }
    assert (Ev : rbytes rd (N.to_nat (len v)) (D0 + doff + len k) = v).
    { rewrite Hrd, HD. unfold len, leaf_data. rewrite Nat2N.id. cbn [flat_map fst snd]. rewrite <- !app_assoc.
      apply rbytes_at. reflexivity. }
    destruct (IH (a ++ k ++ v) (doff + len k + len v) D0 post limit) as (I1 & I2 & I3).
    - rewrite Hrd. unfold leaf_data. cbn [flat_map fst snd]. now rewrite <- !app_assoc.
    - rewrite !app_length. unfold len. lia.
    - rewrite !app_length. unfold len in *. lia.
    - rewrite G_plain, I1, I2, I3, Ek, Ev. repeat split.
      rewrite andb_true_r. apply N.leb_le. unfold len in *. lia.
  Qed.
End LeafData.

Lemma forallb_opt_lt_none ks : forallb (fun k : bytes => opt_lt k None) ks = true.
Proof. induction ks as [|k r IH]; [reflexivity|]. cbn [forallb opt_lt]. exact IH. Qed.

Lemma plain_order_ok (kvs : list (bytes * bytes)) :
  forallb (fun r : bytes * entry * list (N * N * N) * bool * bool => let '(_, _, _, o, _) := r in o)
          (map (fun kv => (fst kv, Val (snd kv), [], true, true)) kvs) = true.
Proof. induction kvs as [|kv r IH]; [reflexivity|]. cbn [map forallb andb]. exact IH. Qed.

Lemma plain_bounds_ok (kvs : list (bytes * bytes)) :
  forallb (fun r : bytes * entry * list (N * N * N) * bool * bool => let '(_, _, _, _, b) := r in b)
          (map (fun kv => (fst kv, Val (snd kv), [], true, true)) kvs) = true.
Proof. induction kvs as [|kv r IH]; [reflexivity|]. cbn [map forallb andb]. exact IH. Qed.

Theorem leaf_page_ov_roundtrip ps fuel pg ov kvs pre post limit :
  (1 <= fuel)%nat ->
  pg < 2^64 -> ov < 2^32 ->
  N.of_nat (length kvs) < 65536 ->
  N.of_nat (length (enc_leaf_page_ov pg ov kvs)) < 2^32 ->
  N.of_nat (length pre) + N.of_nat (length (enc_leaf_page_ov pg ov kvs)) <= limit ->
  strictly_inc (map fst kvs) = true ->
  dec_page (rd_of (pre ++ enc_leaf_page_ov pg ov kvs ++ post)) ps fuel (N.of_nat (length pre)) limit false None None
  = Some {| r_ents := map (fun kv => (fst kv, Val (snd kv))) kvs;
            r_pages := [(pg, ov, leaf_page_flag)];
            r_order := true; r_bounds := true |}.
Proof.
  intros Hf Hpg Hov Hc H32 Hlim Hinc.
  rewrite enc_leaf_page_ov_length in H32, Hlim.
  destruct fuel as [|f]; [lia|].
  set (n := N.of_nat (length kvs)) in *.
  set (hdr := enc_page_header pg leaf_page_flag n ov).
  set (L := pre ++ enc_leaf_page_ov pg ov kvs ++ post).
  assert (EL : L = pre ++ hdr ++ (enc_leaf_elems 0 kvs ++ leaf_data kvs ++ post)).
  { unfold L, enc_leaf_page_ov. fold n. fold hdr. now rewrite <- !app_assoc. }
  set (rd := rd_of L). set (b := N.of_nat (length pre)).
  assert (Hid : u64 rd b = pg) by (unfold rd; rewrite EL; apply header_id; exact Hpg).
  assert (Hfl : u16 rd (b + 8) = leaf_page_flag) by (unfold rd; rewrite EL; apply header_flags; reflexivity).
  assert (Hcnt : u16 rd (b + 10) = n) by (unfold rd; rewrite EL; apply header_count; exact Hc).
  assert (Hovf : u32 rd (b + 12) = ov) by (unfold rd; rewrite EL; apply header_overflow; exact Hov).
  cbn [dec_page]. rewrite Hid, Hfl, Hcnt, Hovf, N.eqb_refl.
  assert (Lh : N.of_nat (length (pre ++ hdr)) = b + 16).
  { unfold hdr. rewrite app_length, enc_page_header_length. lia. }
  match goal with |- context [map ?F (idxs n)] =>
    assert (Helems : map F (idxs n) = leaf_elems_spec (b + 16 + 16 * n) 0 kvs) end.
  { unfold n. rewrite idxs_of_nat. fold n.
    pose proof (leaf_elems_read kvs (pre ++ hdr) 0 (leaf_data kvs ++ post)) as R. cbv zeta in R.
    replace ((pre ++ hdr) ++ enc_leaf_elems 0 kvs ++ leaf_data kvs ++ post) with L in R by (rewrite EL, <- !app_assoc; reflexivity).
    fold rd in R. rewrite Lh in R. fold n in R. apply R. lia. }
  rewrite Helems.
  match goal with |- context [mapM ?G0 _] => set (G := G0) end.
  destruct (leaf_data_read G rd (fun kp ks vs => eq_refl) kvs (pre ++ hdr ++ enc_leaf_elems 0 kvs) 0 (b + 16 + 16 * n) post limit)
    as (K1 & K2 & K3).
  - unfold rd. rewrite EL, <- !app_assoc. reflexivity.
  - rewrite !app_length, enc_leaf_elems_length. unfold hdr. rewrite enc_page_header_length. lia.
  - rewrite !app_length, enc_leaf_elems_length. unfold hdr. rewrite enc_page_header_length. lia.
  - pose proof (forallb_opt_lt_none (map fst kvs)) as K4. unfold bytes in *. rewrite K1, K2, K3, Hinc, K4.
    f_equal. f_equal.
    + rewrite map_map. apply map_ext. intros kv. reflexivity.
    + cbn [app]. f_equal. clear. induction kvs as [|kv r IH]; [reflexivity|]. cbn [map flat_map app]. exact IH.
    + destruct kvs as [|kv0 r0]; [reflexivity|]. cbn [map opt_le andb fst]. apply plain_order_ok.
    + replace (b + 16 + 16 * n <=? limit) with true by (symmetry; apply N.leb_le; lia).
      cbn [andb]. apply plain_bounds_ok.
Qed.

(** the statement for pages without overflow, in the form: rd = the file, base = start of the page *)
Theorem leaf_page_roundtrip ps fuel pg kvs pre post limit :
  (1 <= fuel)%nat ->
  pg < 2^64 ->
  N.of_nat (length kvs) < 65536 ->
  N.of_nat (length (enc_leaf_page pg kvs)) < 2^32 ->
  N.of_nat (length pre) + N.of_nat (length (enc_leaf_page pg kvs)) <= limit ->
  strictly_inc (map fst kvs) = true ->
  let rd := rd_of (pre ++ enc_leaf_page pg kvs ++ post) in
  let base := N.of_nat (length pre) in
  dec_page rd ps fuel base limit false None None
  = Some {| r_ents := map (fun kv => (fst kv, Val (snd kv))) kvs;
            r_pages := [(pg, 0, leaf_page_flag)];
            r_order := true; r_bounds := true |}.
Proof.
  intros Hf Hpg Hc H32 Hlim Hinc rd base. subst rd base. unfold enc_leaf_page in *.
  apply leaf_page_ov_roundtrip; try assumption. reflexivity.
Qed.

(** * branch page: element parsing (pos:u32, ksize:u32, pgid:u64; key at element start + pos) *)
Fixpoint enc_branch_elems (doff : N) (kcs : list (bytes * N)) : list N :=
  match kcs with [] => [] | kc :: r =>
    enc_le 4 (16 * N.of_nat (S (length r)) + doff) ++ enc_le 4 (len (fst kc)) ++ enc_le 8 (snd kc)
    ++ enc_branch_elems (doff + len (fst kc)) r end.

Definition branch_data (kcs : list (bytes * N)) : list N := flat_map (fun kc => fst kc) kcs.

Fixpoint key_total (kcs : list (bytes * N)) : N :=
  match kcs with [] => 0 | kc :: r => len (fst kc) + key_total r end.

Definition enc_branch_page (pg ov : N) (kcs : list (bytes * N)) : list N :=
  enc_page_header pg branch_page_flag (N.of_nat (length kcs)) ov ++ enc_branch_elems 0 kcs ++ branch_data kcs.

Lemma enc_branch_elems_length kcs : forall doff, length (enc_branch_elems doff kcs) = (16 * length kcs)%nat.
Proof.
  induction kcs as [|kc r IH]; intros doff; [reflexivity|].
  cbn [enc_branch_elems length]. rewrite !app_length, !enc_le_length, IH. lia.
Qed.

Lemma branch_data_length kcs : N.of_nat (length (branch_data kcs)) = key_total kcs.
Proof.
  induction kcs as [|kc r IH]; [reflexivity|].
  unfold branch_data in *. cbn [flat_map key_total]. rewrite !app_length, !Nat2N.inj_add, IH. unfold len. reflexivity.
Qed.

Lemma enc_branch_page_length pg ov kcs :
  N.of_nat (length (enc_branch_page pg ov kcs)) = 16 + 16 * N.of_nat (length kcs) + key_total kcs.
Proof.
  unfold enc_branch_page. rewrite !app_length, enc_page_header_length, enc_branch_elems_length, !Nat2N.inj_add, branch_data_length. lia.
Qed.

Lemma u32_u32_u64 a v1 v2 v3 post :
  v1 < 2^32 -> v2 < 2^32 -> v3 < 2^64 ->
  let rd := rd_of (a ++ enc_le 4 v1 ++ enc_le 4 v2 ++ enc_le 8 v3 ++ post) in
  let b := N.of_nat (length a) in
  u32 rd b = v1 /\ u32 rd (b + 4) = v2 /\ u64 rd (b + 8) = v3.
Proof.
  intros H1 H2 H3 rd b. subst rd b. unfold u32, u64.
  set (f1 := enc_le 4 v1). set (f2 := enc_le 4 v2).
  repeat split.
  - apply le_enc_le. exact H1.
  - apply le_at; [exact H2 | unfold f1; now rewrite enc_le_length].
  - replace (a ++ f1 ++ f2 ++ enc_le 8 v3 ++ post) with (a ++ (f1 ++ f2) ++ enc_le 8 v3 ++ post)
      by (rewrite <- !app_assoc; reflexivity).
    apply le_at; [exact H3 | unfold f1, f2; now rewrite app_length, !enc_le_length].
Qed.

(** what the reader should see: (absolute key position, ksize, child page id) *)
Fixpoint branch_elems_spec (D0 doff : N) (kcs : list (bytes * N)) : list (N * N * N) :=
  match kcs with [] => [] | kc :: r =>
    (D0 + doff, len (fst kc), snd kc) :: branch_elems_spec D0 (doff + len (fst kc)) r end.

Lemma branch_elems_read kcs : forall a doff post,
  16 * N.of_nat (length kcs) + doff + key_total kcs < 2^32 ->
  (forall kc, In kc kcs -> snd kc < 2^64) ->
  let rd := rd_of (a ++ enc_branch_elems doff kcs ++ post) in
  map (fun i => (N.of_nat (length a) + 16 * i + u32 rd (N.of_nat (length a) + 16 * i),
                 u32 rd (N.of_nat (length a) + 16 * i + 4),
                 u64 rd (N.of_nat (length a) + 16 * i + 8))) (run_nat 0 (length kcs))
  = branch_elems_spec (N.of_nat (length a) + 16 * N.of_nat (length kcs)) doff kcs.
Proof.
  induction kcs as [|kc r IH]; intros a doff post Hb Hch; [reflexivity|].
  cbv zeta. cbn [length run_nat map branch_elems_spec enc_branch_elems]. cbn [key_total length] in Hb.
  rewrite <- !app_assoc.
  set (pos := 16 * N.of_nat (S (length r)) + doff).
  set (doff' := doff + len (fst kc)).
  destruct (u32_u32_u64 a pos (len (fst kc)) (snd kc) (enc_branch_elems doff' r ++ post)) as (E1 & E2 & E3);
    try (subst pos; lia).
  { apply Hch. left; reflexivity. }
  f_equal.
  - rewrite N.mul_0_r, N.add_0_r. rewrite E1, E2, E3. subst pos. rewrite N.add_assoc. reflexivity.
  - rewrite map_run_nat_succ.
    set (a' := a ++ enc_le 4 pos ++ enc_le 4 (len (fst kc)) ++ enc_le 8 (snd kc)).
    assert (La : N.of_nat (length a') = N.of_nat (length a) + 16).
    { unfold a'. rewrite !app_length, !enc_le_length. lia. }
    replace (N.of_nat (length a) + 16 * N.of_nat (S (length r))) with (N.of_nat (length a') + 16 * N.of_nat (length r)) by lia.
    etransitivity; [| apply (IH a' doff' post); [subst doff'; lia | intros kc' Hin; apply Hch; right; exact Hin]].
    cbv zeta.
    replace (a' ++ enc_branch_elems doff' r ++ post)
      with (a ++ enc_le 4 pos ++ enc_le 4 (len (fst kc)) ++ enc_le 8 (snd kc) ++ enc_branch_elems doff' r ++ post)
      by (unfold a'; rewrite <- !app_assoc; reflexivity).
    apply map_ext. intros i. rewrite La.
    replace (N.of_nat (length a) + 16 * (i + 1)) with (N.of_nat (length a) + 16 + 16 * i) by lia.
    reflexivity.
Qed.

Lemma branch_data_read kcs : forall rd a doff D0 post limit,
  rd = rd_of (a ++ branch_data kcs ++ post) ->
  D0 + doff = N.of_nat (length a) ->
  N.of_nat (length a) + key_total kcs <= limit ->
  map (fun x : N * N * N => let '(kp, ks, child) := x in (rbytes rd (N.to_nat ks) kp, child)) (branch_elems_spec D0 doff kcs) = kcs
  /\ forallb (fun x : N * N * N => let '(kp, ks, child) := x in kp + ks <=? limit) (branch_elems_spec D0 doff kcs) = true.
Proof.
  induction kcs as [|[k c] r IH]; intros rd a doff D0 post limit Hrd HD Hl; [repeat split|].
  cbn [branch_elems_spec map forallb fst snd key_total] in *.
  assert (Ek : rbytes rd (N.to_nat (len k)) (D0 + doff) = k).
  { rewrite Hrd, HD. unfold len, branch_data. rewrite Nat2N.id. cbn [flat_map fst snd]. rewrite <- !app_assoc. apply rbytes_app. }
  destruct (IH rd (a ++ k) (doff + len k) D0 post limit) as (I1 & I2).
  - rewrite Hrd. unfold branch_data. cbn [flat_map fst snd]. now rewrite <- !app_assoc.
  - rewrite !app_length. unfold len. lia.
  - rewrite !app_length. unfold len in *. lia.
  - rewrite I1, I2, Ek. repeat split.
    rewrite andb_true_r. apply N.leb_le. unfold len in *. lia.
Qed.

(** the decoder's [elems] list of a branch page, as written in [dec_page] *)
Definition branch_elems (rd : N -> N) (base count : N) : list (N * N * N) :=
  map (fun i =>
         let e := base + 16 + 16 * i in
         let pos := u32 rd e in let ks := u32 rd (e + 4) in let child := u64 rd (e + 8) in
         (e + pos, ks, child)) (idxs count).

Theorem branch_elems_roundtrip pg ov kcs pre post limit :
  pg < 2^64 -> ov < 2^32 ->
  N.of_nat (length kcs) < 65536 ->
  (forall kc, In kc kcs -> snd kc < 2^64) ->
  N.of_nat (length (enc_branch_page pg ov kcs)) < 2^32 ->
  N.of_nat (length pre) + N.of_nat (length (enc_branch_page pg ov kcs)) <= limit ->
  let rd := rd_of (pre ++ enc_branch_page pg ov kcs ++ post) in
  let base := N.of_nat (length pre) in
  u64 rd base = pg /\ u16 rd (base + 8) = branch_page_flag /\ u16 rd (base + 10) = N.of_nat (length kcs) /\
  u32 rd (base + 12) = ov /\
  let elems := branch_elems rd base (u16 rd (base + 10)) in
  (* keys and child ids are recovered, in order *)
  map (fun x : N * N * N => let '(kp, ks, child) := x in (rbytes rd (N.to_nat ks) kp, child)) elems = kcs /\
  (* and the decoder's bounds test passes *)
  (base + 16 + 16 * u16 rd (base + 10) <=? limit) &&
    forallb (fun x : N * N * N => let '(kp, ks, child) := x in kp + ks <=? limit) elems = true.
Proof.
  intros Hpg Hov Hc Hch H32 Hlim rd b.
  rewrite enc_branch_page_length in H32, Hlim.
  set (n := N.of_nat (length kcs)) in *.
  set (hdr := enc_page_header pg branch_page_flag n ov).
  set (L := pre ++ enc_branch_page pg ov kcs ++ post) in *.
  assert (EL : L = pre ++ hdr ++ (enc_branch_elems 0 kcs ++ branch_data kcs ++ post)).
  { unfold L, enc_branch_page. fold n. fold hdr. now rewrite <- !app_assoc. }
  assert (Hid : u64 rd b = pg) by (unfold rd; rewrite EL; apply header_id; exact Hpg).
  assert (Hfl : u16 rd (b + 8) = branch_page_flag) by (unfold rd; rewrite EL; apply header_flags; reflexivity).
  assert (Hcnt : u16 rd (b + 10) = n) by (unfold rd; rewrite EL; apply header_count; exact Hc).
  assert (Hovf : u32 rd (b + 12) = ov) by (unfold rd; rewrite EL; apply header_overflow; exact Hov).
  rewrite Hcnt. split; [exact Hid|]. split; [exact Hfl|]. split; [reflexivity|]. split; [exact Hovf|]. cbv zeta.
  assert (Lh : N.of_nat (length (pre ++ hdr)) = b + 16).
  { unfold hdr. rewrite app_length, enc_page_header_length. unfold b. lia. }
  assert (Helems : branch_elems rd b n = branch_elems_spec (b + 16 + 16 * n) 0 kcs).
  { unfold branch_elems. cbv zeta. unfold n. rewrite idxs_of_nat. fold n.
    pose proof (branch_elems_read kcs (pre ++ hdr) 0 (branch_data kcs ++ post)) as R. cbv zeta in R.
    replace ((pre ++ hdr) ++ enc_branch_elems 0 kcs ++ branch_data kcs ++ post) with L in R by (rewrite EL, <- !app_assoc; reflexivity).
    fold rd in R. rewrite Lh in R. fold n in R. apply R; [lia | exact Hch]. }
  rewrite Helems.
  destruct (branch_data_read kcs rd (pre ++ hdr ++ enc_branch_elems 0 kcs) 0 (b + 16 + 16 * n) post limit) as (K1 & K2).
  - unfold rd. rewrite EL, <- !app_assoc. reflexivity.
  - rewrite !app_length, enc_branch_elems_length. unfold hdr. rewrite enc_page_header_length. unfold b, n. lia.
  - rewrite !app_length, enc_branch_elems_length. unfold hdr. rewrite enc_page_header_length. unfold b, n in *. lia.
  - split; [exact K1|]. rewrite K2, andb_true_r. apply N.leb_le. lia.
Qed.

(** [branch_elems] is literally the list the decoder computes: decoding a branch page is the recursive decode of
    the children over [branch_elems] (unfolding equation, no extra assumptions besides the flag) *)
Lemma dec_page_branch_unfold rd ps f base limit lo hi :
  u16 rd (base + 8) = branch_page_flag ->
  dec_page rd ps (S f) base limit false lo hi =
  let count := u16 rd (base + 10) in
  let elems := branch_elems rd base count in
  let keys := map (fun x : N * N * N => let '(kp, ks, child) := x in rbytes rd (N.to_nat ks) kp) elems in
  match mapM (fun xh : N * N * N * option bytes =>
          let '((kp, ks, child), h) := xh in
          dec_page rd ps f (child * ps) (child * ps + (u32 rd (child * ps + 12) + 1) * ps) false
                   (Some (rbytes rd (N.to_nat ks) kp)) h) (combine elems (map Some (tl keys) ++ [hi])) with
  | None => None
  | Some rs => Some {| r_ents := flat_map r_ents rs;
                       r_pages := [(u64 rd base, u32 rd (base + 12), branch_page_flag)] ++ flat_map r_pages rs;
                       r_order := strictly_inc keys
                                  && match keys with [] => true | k :: _ => opt_le lo k end
                                  && forallb (fun k => opt_lt k hi) keys
                                  && forallb r_order rs && negb (count =? 0);
                       r_bounds := (base + 16 + 16 * count <=? limit)
                                   && forallb (fun x : N * N * N => let '(kp, ks, child) := x in kp + ks <=? limit) elems
                                   && forallb r_bounds rs |}
  end.
Proof.
  intros H. cbn [dec_page]. rewrite H.
  change (branch_page_flag =? leaf_page_flag) with false. change (branch_page_flag =? branch_page_flag) with true.
  cbv iota. reflexivity.
Qed.

Lemma mapM_ext {A B} (F G : A -> option B) (l : list A) : (forall x, F x = G x) -> mapM F l = mapM G l.
Proof. intros E. induction l as [|x l IH]; [reflexivity|]. cbn [mapM]. now rewrite E, IH. Qed.

Lemma mapM_combine_map {A A' H B} (g : A -> A') (F : A' * H -> option B) (l : list A) : forall hs,
  mapM (fun xh : A * H => F (g (fst xh), snd xh)) (combine l hs) = mapM F (combine (map g l) hs).
Proof.
  induction l as [|x l IH]; intros [|h hs]; try reflexivity.
  cbn [combine map mapM fst snd]. rewrite IH. reflexivity.
Qed.

(** One level of a branch page, complete: if the children (read through the same file) decode, the branch page
    decodes to the concatenation, with the page itself recorded first, the order flag computed from the written
    keys and the bounds flag depending on the children only. *)
Theorem branch_page_roundtrip ps f pg ov kcs pre post limit lo hi ds :
  pg < 2^64 -> ov < 2^32 ->
  N.of_nat (length kcs) < 65536 ->
  (forall kc, In kc kcs -> snd kc < 2^64) ->
  N.of_nat (length (enc_branch_page pg ov kcs)) < 2^32 ->
  N.of_nat (length pre) + N.of_nat (length (enc_branch_page pg ov kcs)) <= limit ->
  let rd := rd_of (pre ++ enc_branch_page pg ov kcs ++ post) in
  let keys := map fst kcs in
  mapM (fun kch : bytes * N * option bytes =>
          let '((k, c), h) := kch in
          dec_page rd ps f (c * ps) (c * ps + (u32 rd (c * ps + 12) + 1) * ps) false (Some k) h)
       (combine kcs (map Some (tl keys) ++ [hi])) = Some ds ->
  dec_page rd ps (S f) (N.of_nat (length pre)) limit false lo hi
  = Some {| r_ents := flat_map r_ents ds;
            r_pages := (pg, ov, branch_page_flag) :: flat_map r_pages ds;
            r_order := strictly_inc keys
                       && match keys with [] => true | k :: _ => opt_le lo k end
                       && forallb (fun k => opt_lt k hi) keys
                       && forallb r_order ds && negb (N.of_nat (length kcs) =? 0);
            r_bounds := forallb r_bounds ds |}.
Proof.
  intros Hpg Hov Hc Hch H32 Hlim rd keys Hds.
  destruct (branch_elems_roundtrip pg ov kcs pre post limit Hpg Hov Hc Hch H32 Hlim) as (Hid & Hfl & Hcnt & Hovf & R).
  fold rd in Hid, Hfl, Hcnt, Hovf, R. cbv zeta in R. destruct R as (K1 & K2).
  rewrite (dec_page_branch_unfold rd ps f _ limit lo hi Hfl). cbv zeta.
  rewrite Hid, Hovf. rewrite K2.
  set (elems := branch_elems rd (N.of_nat (length pre)) (u16 rd (N.of_nat (length pre) + 10))) in *.
  assert (Ek : map (fun x : N * N * N => let '(kp, ks, child) := x in rbytes rd (N.to_nat ks) kp) elems = keys).
  { unfold keys. rewrite <- K1 at 1. rewrite map_map. apply map_ext. intros [[kp ks] c]. reflexivity. }
  rewrite Ek.
  set (g := fun x : N * N * N => let '(kp, ks, child) := x in (rbytes rd (N.to_nat ks) kp, child)) in *.
  match goal with |- context [mapM ?F0 (combine elems ?hs)] =>
    assert (EM : mapM F0 (combine elems hs) = Some ds) end.
  { rewrite <- Hds. rewrite <- K1 at 1.
    rewrite <- (mapM_combine_map g
      (fun kch : bytes * N * option bytes =>
          let '((k, c), h) := kch in
          dec_page rd ps f (c * ps) (c * ps + (u32 rd (c * ps + 12) + 1) * ps) false (Some k) h)).
    apply mapM_ext. intros [[[kp ks] c] h]. reflexivity. }
  unfold bytes in *. rewrite EM. rewrite Hcnt. cbn [app andb]. reflexivity.
Qed.

(** * concrete sanity checks of the writer definitions against hand-computed version-2 bytes *)
Example leaf_page_bytes :
  enc_leaf_page 3 [([1], [2; 3]); ([4; 5], [6])] =
  [3;0;0;0;0;0;0;0; 2;0; 2;0; 0;0;0;0;                       (* id 3, leaf, count 2, overflow 0 *)
   0;0;0;0; 32;0;0;0; 1;0;0;0; 2;0;0;0;                      (* flags 0, pos 32 (16+32 = 48), ksize 1, vsize 2 *)
   0;0;0;0; 19;0;0;0; 2;0;0;0; 1;0;0;0;                      (* flags 0, pos 19 (32+19 = 51), ksize 2, vsize 1 *)
   1; 2;3; 4;5; 6].
Proof. vm_compute. reflexivity. Qed.

Example leaf_page_decodes :
  dec_page (rd_of ([9;9;9;9] ++ enc_leaf_page 3 [([1], [2; 3]); ([4; 5], [6])] ++ [7;7])) 4096 1 4 4096 false None None
  = Some {| r_ents := [([1], Val [2;3]); ([4;5], Val [6])]; r_pages := [(3, 0, leaf_page_flag)];
            r_order := true; r_bounds := true |}.
Proof. vm_compute. reflexivity. Qed.

Example branch_page_bytes :
  enc_branch_page 5 0 [([1], 7); ([4; 5], 8)] =
  [5;0;0;0;0;0;0;0; 1;0; 2;0; 0;0;0;0;                       (* id 5, branch, count 2, overflow 0 *)
   32;0;0;0; 1;0;0;0; 7;0;0;0;0;0;0;0;                       (* pos 32, ksize 1, pgid 7 *)
   17;0;0;0; 2;0;0;0; 8;0;0;0;0;0;0;0;                       (* pos 17, ksize 2, pgid 8 *)
   1; 4;5].
Proof. vm_compute. reflexivity. Qed.

Example freelist_page_bytes :
  enc_freelist_page 2 0 [3; 300] =
  [2;0;0;0;0;0;0;0; 16;0; 2;0; 0;0;0;0;  3;0;0;0;0;0;0;0;  44;1;0;0;0;0;0;0].
Proof. vm_compute. reflexivity. Qed.

(** the boundary between the two freelist encodings, on the header bytes of actual lists *)
Example freelist_page_65534 :
  firstn 24 (enc_freelist_page 2 0 (repeat 3 (N.to_nat 65534))) =
  [2;0;0;0;0;0;0;0; 16;0; 254;255; 0;0;0;0;  3;0;0;0;0;0;0;0].                 (* count 0xFFFE, first id follows *)
Proof. vm_compute. reflexivity. Qed.
Example freelist_page_65535 :
  firstn 32 (enc_freelist_page 2 0 (repeat 3 (N.to_nat 65535))) =
  [2;0;0;0;0;0;0;0; 16;0; 255;255; 0;0;0;0;  255;255;0;0;0;0;0;0;  3;0;0;0;0;0;0;0].   (* count 0xFFFF, n = 65535, first id *)
Proof. vm_compute. reflexivity. Qed.

Print Assumptions freelist_page_roundtrip.
Print Assumptions freelist_page_header_roundtrip.
Print Assumptions leaf_page_ov_roundtrip.
Print Assumptions leaf_page_roundtrip.
Print Assumptions branch_elems_roundtrip.
Print Assumptions dec_page_branch_unfold.
Print Assumptions branch_page_roundtrip.
