(** TreeProofs: theorems about Tree.v (commit_tree = rebalance in any visit order, then spill).
    P1: the in-order list of leaf inodes is unchanged.  P2: page accounting.  P3: every vertex of the result is a page. *)
From Bbolt Require Import Base Consts Spec Node Tree NodeProofs.
From Coq Require Import Permutation.

(** * list helpers *)
Lemma nth_error_decomp {A} (l : list A) i x : nth_error l i = Some x -> exists a b, l = a ++ x :: b /\ length a = i.
Proof. apply nth_error_split. Qed.

Lemma nth_error_decomp2 {A} (l : list A) i x y : nth_error l i = Some x -> nth_error l (S i) = Some y ->
  exists a b, l = a ++ x :: y :: b /\ length a = i.
Proof.
  intros H1 H2. destruct (nth_error_split _ _ H1) as (a & b & E & L). subst l. exists a.
  rewrite <- L in H2. replace (S (length a)) with (length a + 1)%nat in H2 by lia.
  rewrite nth_error_app2 in H2 by lia. replace (length a + 1 - length a)%nat with 1%nat in H2 by lia.
  destruct b as [|y' b]; [discriminate|]. cbn in H2. inversion H2; subst. exists b. auto.
Qed.

Lemma replace_nth_app {A} (a : list A) x y b : replace_nth (length a) y (a ++ x :: b) = a ++ y :: b.
Proof. induction a as [|z a IH]; [reflexivity|]. cbn. now rewrite IH. Qed.
Lemma remove_nth_app {A} (a : list A) x b : remove_nth (length a) (a ++ x :: b) = a ++ b.
Proof. induction a as [|z a IH]; [reflexivity|]. cbn. now rewrite IH. Qed.
Lemma remove_nth_app_S {A} (a : list A) x y b : remove_nth (S (length a)) (a ++ x :: y :: b) = a ++ x :: b.
Proof.
  induction a as [|z a IH]; [reflexivity|].
  change (z :: remove_nth (S (length a)) (a ++ x :: y :: b) = z :: (a ++ x :: b)). now rewrite IH.
Qed.
Lemma replace_nth_at {A} (a : list A) x y b i : length a = i -> replace_nth i y (a ++ x :: b) = a ++ y :: b.
Proof. intros <-. apply replace_nth_app. Qed.
Lemma remove_nth_at {A} (a : list A) x b i : length a = i -> remove_nth i (a ++ x :: b) = a ++ b.
Proof. intros <-. apply remove_nth_app. Qed.
Lemma remove_nth_at_S {A} (a : list A) x y b i : length a = i -> remove_nth (S i) (a ++ x :: y :: b) = a ++ x :: b.
Proof. intros <-. apply remove_nth_app_S. Qed.
Lemma replace_nth_length {A} (l : list A) : forall i y, length (replace_nth i y l) = length l.
Proof. induction l as [|z l IH]; intros [|i] y; cbn; auto. Qed.
Lemma nth_error_replace_same {A} (l : list A) : forall i y x, nth_error l i = Some x -> nth_error (replace_nth i y l) i = Some y.
Proof. induction l as [|z l IH]; intros [|i] y x H; cbn in *; try discriminate; eauto. Qed.

Lemma nth_error_Some_lt {A} (l : list A) i x : nth_error l i = Some x -> (i < length l)%nat.
Proof. intros H. apply nth_error_Some. congruence. Qed.

Lemma Ok_inj3 {A B C} (a a' : A) (b b' : B) (c c' : C) : Ok (a, b, c) = Ok (a', b', c') -> a = a' /\ b = b' /\ c = c'.
Proof. intros H. inversion H. auto. Qed.
Lemma Ok_inj {A} (a a' : A) : Ok a = Ok a' -> a = a'.
Proof. intros H. inversion H. auto. Qed.
Lemma Ok_inj2 {A B} (a a' : A) (b b' : B) : Ok (a, b) = Ok (a', b') -> a = a' /\ b = b'.
Proof. intros H. inversion H. auto. Qed.

Lemma flat_map_app' {A B} (f : A -> list B) a b : flat_map f (a ++ b) = flat_map f a ++ flat_map f b.
Proof. apply flat_map_app. Qed.

(** * structure: fuel-free flat, balanced + aligned trees *)
Fixpoint flat (t : nt) : list inode :=
  match t with NT h ins kids => if h_leaf h then ins else flat_map flat kids end.

Lemma flat_eq h ins kids : flat (NT h ins kids) = if h_leaf h then ins else flat_map flat kids.
Proof. reflexivity. Qed.

(** [wf d t]: t is a B+tree of height d: a leaf vertex has no kids, a branch vertex has as many kids as inodes, all
    leaves are at depth d.  (The height index is needed: node.rebalance merges two siblings by concatenating their
    inodes AND kids under the left sibling's header; see [merge_needs_balance] below.) *)
Inductive wf : nat -> nt -> Prop :=
| wf_leaf h ins : h_leaf h = true -> wf 0 (NT h ins [])
| wf_branch d h ins kids : h_leaf h = false -> length ins = length kids -> Forall (wf d) kids -> wf (S d) (NT h ins kids).
Definition aligned (t : nt) : Prop := exists d, wf d t.

Lemma wf_hdr d h h' ins kids : wf d (NT h ins kids) -> h_leaf h' = h_leaf h -> wf d (NT h' ins kids).
Proof. intros W E. inversion W; subst; constructor; auto; congruence. Qed.

Lemma wf_leaf_iff d t : wf d t -> h_leaf (hd_of t) = match d with O => true | S _ => false end.
Proof. intros W; inversion W; subst; auto. Qed.

Lemma wf_set_unbal d b t : wf d t -> wf d (set_unbal b t).
Proof. destruct t as [h i k]. intros W. eapply wf_hdr; eauto. Qed.
Lemma flat_set_unbal b t : flat (set_unbal b t) = flat t.
Proof. destruct t as [h i k]. reflexivity. Qed.
Lemma wf_materialize d t : wf d t -> wf d (materialize t).
Proof. destruct t as [h i k]. intros W. cbn. destruct (h_mat h); [exact W|]. eapply wf_hdr; eauto. Qed.
Lemma flat_materialize t : flat (materialize t) = flat t.
Proof. destruct t as [h i k]. cbn. destruct (h_mat h); reflexivity. Qed.
Lemma ins_materialize t : ins_of (materialize t) = ins_of t.
Proof. destruct t as [h i k]. cbn. destruct (h_mat h); reflexivity. Qed.
Lemma kids_materialize t : kids_of (materialize t) = kids_of t.
Proof. destruct t as [h i k]. cbn. destruct (h_mat h); reflexivity. Qed.
Lemma leaf_materialize t : h_leaf (hd_of (materialize t)) = h_leaf (hd_of t).
Proof. destruct t as [h i k]. cbn. destruct (h_mat h); reflexivity. Qed.
Lemma ins_set_unbal b t : ins_of (set_unbal b t) = ins_of t.
Proof. now destruct t. Qed.
Lemma kids_set_unbal b t : kids_of (set_unbal b t) = kids_of t.
Proof. now destruct t. Qed.

Lemma wf_empty d t : wf d t -> ins_of t = [] -> kids_of t = [] /\ flat t = [].
Proof.
  intros W E. inversion W; subst; cbn in *.
  - subst. rewrite H. auto.
  - subst. destruct kids; [|discriminate]. rewrite H. auto.
Qed.

Lemma Forall_replace_nth {A} (P : A -> Prop) l : forall i y, Forall P l -> P y -> Forall P (replace_nth i y l).
Proof. induction l as [|z l IH]; intros [|i] y F Py; cbn; auto; inversion F; subst; constructor; auto. Qed.
Lemma Forall_remove_nth {A} (P : A -> Prop) l : forall i, Forall P l -> Forall P (remove_nth i l).
Proof. induction l as [|z l IH]; intros [|i] F; cbn; auto; inversion F; subst; auto. Qed.

(** the merged vertex of node.rebalance *)
Lemma wf_merge d l r : wf d l -> wf d r ->
  let m := NT (hd_of l) (ins_of l ++ ins_of r) (kids_of l ++ kids_of r) in wf d m /\ flat m = flat l ++ flat r.
Proof.
  intros Wl Wr. inversion Wl; subst; inversion Wr; subst; cbn [hd_of ins_of kids_of app].
  - split; [constructor; auto|]. rewrite !flat_eq, H, H0. reflexivity.
  - split; [constructor; auto; [rewrite !app_length; lia | apply Forall_app; auto]|].
    rewrite !flat_eq, H, H3. apply flat_map_app.
Qed.

(** * P1a: rebalance_in_parent *)
Lemma rebalance_in_parent_ok ps fill p i p' evs cont d :
  wf d p -> rebalance_in_parent ps fill p i = Ok (p', evs, cont) -> wf d p' /\ flat p' = flat p.
Proof.
  intros W H. destruct p as [ph pins pkids]. cbv beta iota zeta delta [rebalance_in_parent] in H.
  destruct (nth_error pkids i) as [n|] eqn:En; [|discriminate].
  destruct (negb (h_unbal (hd_of n))). { inversion H; subst; auto. }
  inversion W as [|d0 ? ? ? Hl Hlen Hk]; subst. { destruct i; discriminate. }
  assert (Wn : wf d0 n). { rewrite Forall_forall in Hk. apply Hk. eapply nth_error_In; eauto. }
  destruct (nth_error_decomp _ _ _ En) as (a & b & Epk & La).
  destruct (big_enough _ ps fill).
  { apply Ok_inj3 in H. destruct H as (E1 & E2 & E3). subst p' evs cont. split.
    - constructor; auto. + now rewrite replace_nth_length. + apply Forall_replace_nth; auto. now apply wf_set_unbal.
    - rewrite !flat_eq, Hl. rewrite Epk, (replace_nth_at _ _ _ _ _ La), !flat_map_app. cbn [flat_map]. now rewrite flat_set_unbal. }
  rewrite ins_set_unbal in H.
  destruct (ins_of n) as [|x0 xs] eqn:Ei.
  - destruct (index_of_key pins _) as [idx|]; [|discriminate]. destruct (Nat.eqb idx i); [|discriminate].
    apply Ok_inj3 in H. destruct H as (E1 & E2 & E3). subst p' evs cont.
    destruct (wf_empty _ _ Wn Ei) as [_ Fn].
    assert (exists a' y b', pins = a' ++ y :: b' /\ length a' = i) as (a' & y & b' & Epi & La').
    { destruct (nth_error pins i) as [y|] eqn:Ey.
      - destruct (nth_error_decomp _ _ _ Ey) as (a' & b' & ? & ?). eauto.
      - apply nth_error_None in Ey. apply nth_error_Some_lt in En. lia. }
    subst pins pkids. rewrite (remove_nth_at _ _ _ _ La), (remove_nth_at _ _ _ _ La'). split.
    + constructor; auto.
      * rewrite !app_length in *. cbn in Hlen. lia.
      * apply Forall_app in Hk. destruct Hk as [Ha Hb]. inversion Hb; subst. apply Forall_app; auto.
    + rewrite !flat_eq. cbn [h_leaf]. rewrite Hl, !flat_map_app. cbn [flat_map]. now rewrite Fn.
  - destruct (length pins <=? 1)%nat; [discriminate|].
    destruct (negb _); [discriminate|].
    set (lp := if Nat.eqb i 0 then 0%nat else (i - 1)%nat) in *.
    set (kids1 := replace_nth i (set_unbal false n) pkids) in *.
    destruct (nth_error kids1 lp) as [l0|] eqn:El; [|discriminate].
    destruct (nth_error kids1 (S lp)) as [r0|] eqn:Er; [|discriminate].
    destruct (index_of_key pins _) as [ridx|]; [|discriminate]. destruct (Nat.eqb ridx (S lp)); [|discriminate].
    apply Ok_inj3 in H. destruct H as (E1 & E2 & E3). subst p' evs cont.
    assert (Hk1 : Forall (wf d0) kids1). { apply Forall_replace_nth; auto. now apply wf_set_unbal. }
    assert (Hf1 : flat_map flat kids1 = flat_map flat pkids).
    { unfold kids1. rewrite Epk, (replace_nth_at _ _ _ _ _ La), !flat_map_app. cbn [flat_map]. now rewrite flat_set_unbal. }
    assert (Hl1 : length kids1 = length pkids) by apply replace_nth_length.
    destruct (nth_error_decomp2 _ _ _ _ El Er) as (a1 & b1 & Ek1 & La1).
    assert (exists a' y b', pins = a' ++ y :: b' /\ length a' = S lp) as (a' & y & b' & Epi & La').
    { destruct (nth_error pins (S lp)) as [y|] eqn:Ey.
      - destruct (nth_error_decomp _ _ _ Ey) as (a' & b' & ? & ?). eauto.
      - apply nth_error_None in Ey. apply nth_error_Some_lt in Er. lia. }
    rewrite Ek1 in Hk1. apply Forall_app in Hk1. destruct Hk1 as [Ha1 Hb1].
    pose proof (Forall_inv Hb1) as Wl0. pose proof (Forall_inv_tail Hb1) as Hb2.
    pose proof (Forall_inv Hb2) as Wr0. pose proof (Forall_inv_tail Hb2) as Hb3.
    destruct (wf_merge d0 _ _ (wf_materialize _ _ Wl0) (wf_materialize _ _ Wr0)) as [Wm Fm]. cbv zeta in Wm, Fm.
    rewrite Ek1. rewrite (replace_nth_at _ _ _ _ _ La1), (remove_nth_at_S _ _ _ _ _ La1).
    rewrite Epi, (remove_nth_at _ _ _ _ La'). split.
    + constructor; auto.
      * rewrite Epi, Ek1 in *. rewrite <- Hl1 in Hlen. rewrite !app_length in *. cbn [length] in *. lia.
      * apply Forall_app; split; auto.
    + rewrite !flat_eq. cbn [h_leaf]. rewrite Hl. rewrite <- Hf1, Ek1. rewrite !flat_map_app. cbn [flat_map].
      rewrite Fm, !flat_materialize. now rewrite <- !app_assoc.
Qed.

(** * P1b: rebalance_root *)
Lemma rebalance_root_ok ps fill t d t' evs :
  wf d t -> rebalance_root ps fill t = (t', evs) -> aligned t' /\ flat t' = flat t.
Proof.
  intros W H. unfold rebalance_root in H.
  destruct (negb (h_unbal (hd_of t))). { inversion H; subst. split; [exists d; auto | auto]. }
  assert (D : aligned (set_unbal false t) /\ flat (set_unbal false t) = flat t).
  { split; [exists d; now apply wf_set_unbal | apply flat_set_unbal]. }
  destruct (big_enough _ ps fill). { inversion H; subst; auto. }
  destruct t as [h ins kids]. cbn [set_unbal] in *. cbn [h_leaf] in H.
  destruct (h_leaf h) eqn:Hl; [inversion H; subst; auto|].
  destruct ins as [|x [|x2 xs]]; [inversion H; subst; auto| |inversion H; subst; auto].
  destruct kids as [|c0 [|c1 cs]]; [inversion H; subst; auto| |inversion H; subst; auto].
  inversion H; subst t' evs. clear H D.
  inversion W as [|d0 ? ? ? _ _ Hk]; subst. pose proof (Forall_inv Hk) as Wc.
  apply wf_materialize in Wc. rewrite (flat_eq h), Hl. cbn [flat_map]. rewrite app_nil_r, <- (flat_materialize c0).
  destruct (materialize c0) as [hc ic kc]. cbn [hd_of ins_of kids_of]. split.
  - exists d0. eapply wf_hdr; eauto.
  - reflexivity.
Qed.

(** * P1c: get_at / set_at congruence *)
Lemma flat_map_replace_nth {A B} (f : A -> list B) l : forall i x y, nth_error l i = Some x -> f y = f x ->
  flat_map f (replace_nth i y l) = flat_map f l.
Proof. induction l as [|z l IH]; intros [|i] x y H E; cbn in *; try discriminate; [inversion H; subst; now rewrite E | erewrite IH; eauto]. Qed.

Lemma set_at_ok : forall path t d p p', wf d t -> get_at t path = Some p ->
  (forall d', wf d' p -> wf d' p' /\ flat p' = flat p) ->
  wf d (set_at t path p') /\ flat (set_at t path p') = flat t.
Proof.
  induction path as [|i r IH]; intros t d p p' W G Hp.
  - cbn in *. inversion G; subst. auto.
  - destruct t as [h ins kids]. cbn [get_at set_at kids_of] in *.
    destruct (nth_error kids i) as [c|] eqn:Ec; [|discriminate].
    inversion W as [|d0 ? ? ? Hl Hlen Hk]; subst. { destruct i; discriminate. }
    assert (Wc : wf d0 c). { rewrite Forall_forall in Hk. apply Hk. eapply nth_error_In; eauto. }
    destruct (IH c d0 p p' Wc G Hp) as [W1 F1]. split.
    + constructor; auto. * now rewrite replace_nth_length. * now apply Forall_replace_nth.
    + rewrite !flat_eq, Hl. eapply flat_map_replace_nth; eauto.
Qed.

(** * P1d: rebalance_at, rebalance_all *)
Lemma rebalance_at_ok ps fill : forall fuel t path d t' evs,
  wf d t -> rebalance_at ps fill fuel t path = Ok (t', evs) -> aligned t' /\ flat t' = flat t.
Proof.
  induction fuel as [|f IH]; intros t path d t' evs W H; [discriminate|].
  cbn [rebalance_at] in H. destruct path as [|i0 r0].
  - apply Ok_inj in H. eapply rebalance_root_ok; eauto.
  - set (path := i0 :: r0) in *. clearbody path.
    destruct (get_at t (removelast path)) as [p|] eqn:G; [|discriminate].
    destruct (rebalance_in_parent ps fill p (last path 0%nat)) as [[[p' e] c]| |] eqn:R; try discriminate.
    cbn [bindr] in H.
    destruct (set_at_ok (removelast path) t d p p' W G) as [W1 F1].
    { intros d' Wp. eapply rebalance_in_parent_ok; eauto. }
    destruct c.
    + destruct (rebalance_at ps fill f _ _) as [[t2 e2]| |] eqn:R2; try discriminate. cbn [bindr fst snd] in H.
      apply Ok_inj2 in H. destruct H as [-> _]. destruct (IH _ _ _ _ _ W1 R2) as [A2 F2]. split; [auto | congruence].
    + apply Ok_inj2 in H. destruct H as [<- _]. split; [exists d; auto | auto].
Qed.

Lemma rebalance_all_ok ps fill fuel : forall order t d t' evs,
  wf d t -> rebalance_all ps fill fuel t order = Ok (t', evs) -> aligned t' /\ flat t' = flat t.
Proof.
  induction order as [|pg rest IH]; intros t d t' evs W H; cbn [rebalance_all] in H.
  - apply Ok_inj2 in H. destruct H as [<- _]. split; [exists d; auto | auto].
  - destruct (find_node fuel t pg) as [path|]; [|eauto].
    destruct (rebalance_at ps fill fuel t path) as [[t1 e1]| |] eqn:R; try discriminate. cbn [bindr fst snd] in H.
    destruct (rebalance_at_ok _ _ _ _ _ _ _ _ W R) as [[d1 W1] F1].
    destruct (rebalance_all ps fill fuel t1 rest) as [[t2 e2]| |] eqn:R2; try discriminate. cbn [bindr fst snd] in H.
    apply Ok_inj2 in H. destruct H as [<- _]. destruct (IH _ _ _ _ W1 R2) as [A2 F2]. split; [auto | congruence].
Qed.

(** * P1e: spill *)
(** the inner loop of [spill], as a top-level function of the recursive call *)
Section SpillGo.
  Variable leaf : bool.
  Variable sp : nt -> res (list nt * list ev).
  Fixpoint spill_go (ins : list inode) (kids : list nt) : res (list inode * list nt * list ev) :=
    match ins, kids with
    | i :: ir, c :: cr =>
        let? rest := spill_go ir cr in
        let '(ri, rk, re) := rest in
        if h_mat (hd_of c) then
          match ins_of c with [] => Panic | _ :: _ =>
            let? cp := sp c in
            Ok (map (fun p => {| i_flags := 0; i_key := first_key (ins_of p); i_val := []; i_pgid := h_pgid (hd_of p) |}) (fst cp) ++ ri,
                fst cp ++ rk, snd cp ++ re)
          end
        else Ok (i :: ri, c :: rk, re)
    | [], [] => Ok ([], [], [])
    | l, [] => if leaf then Ok (l, [], []) else Panic
    | [], _ :: _ => Panic
    end.
End SpillGo.

Lemma spill_unfold ps fill f h ins kids :
  spill ps fill (S f) (NT h ins kids) =
  if negb (h_mat h) then Ok ([NT h ins kids], []) else
  let? r := spill_go (h_leaf h) (spill ps fill f) ins kids in
  let '(ins', kids', evs) := r in
  let? s := spill_self ps fill h ins' kids' in Ok (fst s, evs ++ snd s).
Proof. reflexivity. Qed.

Lemma spill_go_nokids leaf sp ins r : spill_go leaf sp ins [] = Ok r -> r = (ins, [], []).
Proof. destruct ins; cbn; [intros H; now inversion H|]. destruct leaf; [intros H; now inversion H | discriminate]. Qed.

Lemma cut_like_spec {A} : forall pieces (kids : list A), length (concat pieces) = length kids ->
  concat (cut_like pieces kids) = kids /\ Forall2 (fun p k => length p = length k) pieces (cut_like pieces kids).
Proof.
  induction pieces as [|p r IH]; intros kids L; cbn [concat cut_like] in *.
  - destruct kids; [auto | discriminate].
  - rewrite app_length in L. destruct (IH (skipn (length p) kids)) as [C F]. { rewrite skipn_length. lia. }
    split; [rewrite C; apply firstn_skipn | constructor; auto; rewrite firstn_length; lia].
Qed.

Lemma cut_like_Forall {A} (P : A -> Prop) : forall pieces (kids : list A), Forall P kids -> Forall (Forall P) (cut_like pieces kids).
Proof.
  induction pieces as [|p r IH]; intros kids F; cbn [cut_like]; [constructor|].
  rewrite <- (firstn_skipn (length p) kids) in F. apply Forall_app in F. destruct F. constructor; auto.
Qed.

Definition mk_piece ps (leaf : bool) (pk : list inode * list nt) : nt := NT (page_hdr ps leaf (fst pk)) (fst pk) (snd pk).

Lemma mk_pieces_ok ps leaf d : forall pieces kidss,
  Forall2 (fun p k => wf d (NT (page_hdr ps leaf p) p k)) pieces kidss ->
  Forall (wf d) (map (mk_piece ps leaf) (combine pieces kidss)) /\
  flat_map flat (map (mk_piece ps leaf) (combine pieces kidss)) = if leaf then concat pieces else flat_map flat (concat kidss).
Proof.
  induction 1 as [|p k pieces kidss Hpk _ [IH1 IH2]]; cbn [combine map flat_map concat].
  - split; [constructor | now destruct leaf].
  - split; [constructor; auto|]. rewrite IH2. unfold mk_piece at 1. cbn [fst snd]. rewrite flat_eq. cbn [page_hdr h_leaf].
    destruct leaf; [reflexivity | now rewrite flat_map_app].
Qed.

Lemma spill_self_ok ps fill h ins kids d pcs evs :
  wf d (NT h ins kids) -> spill_self ps fill h ins kids = Ok (pcs, evs) ->
  Forall (wf d) pcs /\ flat_map flat pcs = flat (NT h ins kids).
Proof.
  intros W H. unfold spill_self in H.
  destruct (split _ ps fill) as [pieces| |] eqn:Sp; try discriminate. cbn [bindr] in H.
  apply Ok_inj2 in H. destruct H as [<- _].
  pose proof (split_concat _ _ _ _ Sp) as C. cbn [n_inodes] in C.
  fold (mk_piece ps (h_leaf h)). rewrite flat_eq.
  inversion W as [? ? Hl|d0 ? ? ? Hl Hlen Hk]; subst; rewrite Hl.
  - apply (mk_pieces_ok ps true 0).
    clear. induction pieces; cbn [map]; constructor; auto. now constructor.
  - destruct (cut_like_spec pieces kids) as [CC F2]. { exact Hlen. }
    pose proof (cut_like_Forall (wf d0) pieces kids Hk) as FF.
    replace (flat_map flat kids) with (flat_map flat (concat (cut_like pieces kids))) by now rewrite CC.
    apply (mk_pieces_ok ps false (S d0)).
    revert F2 FF. generalize (cut_like pieces kids). clear.
    induction 1; intros FF; constructor.
    + constructor; auto. now inversion FF.
    + apply IHF2. now inversion FF.
Qed.

Definition spill_post (d : nat) (c : nt) (r : list nt * list ev) : Prop :=
  Forall (wf d) (fst r) /\ flat_map flat (fst r) = flat c.

Lemma spill_go_ok leaf sp d : forall ins kids ins' kids' evs,
  length ins = length kids -> Forall (wf d) kids ->
  (forall c r, In c kids -> wf d c -> sp c = Ok r -> spill_post d c r) ->
  spill_go leaf sp ins kids = Ok (ins', kids', evs) ->
  length ins' = length kids' /\ Forall (wf d) kids' /\ flat_map flat kids' = flat_map flat kids.
Proof.
  induction ins as [|i ir IH]; intros [|c cr] ins' kids' evs L F Hsp H; cbn [length] in L; try discriminate.
  - cbn in H. inversion H; subst. auto.
  - cbn [spill_go] in H.
    destruct (spill_go leaf sp ir cr) as [[[ri rk] re]| |] eqn:G; try discriminate. cbn [bindr] in H.
    pose proof (Forall_inv F) as Wc. pose proof (Forall_inv_tail F) as Fr.
    destruct (IH cr ri rk re) as (L1 & F1 & E1); auto. { intros; apply Hsp; auto. now right. }
    destruct (h_mat (hd_of c)).
    + destruct (ins_of c); [discriminate|].
      destruct (sp c) as [cp| |] eqn:Sc; try discriminate. cbn [bindr] in H.
      apply Ok_inj3 in H. destruct H as (<- & <- & _).
      destruct (Hsp c cp (or_introl eq_refl) Wc Sc) as [Fp Ep].
      rewrite !app_length, map_length. split; [lia|]. split; [apply Forall_app; auto|].
      rewrite flat_map_app. cbn [flat_map]. congruence.
    + apply Ok_inj3 in H. destruct H as (<- & <- & _). cbn [length flat_map]. split; [lia|]. split; [constructor; auto | congruence].
Qed.

Lemma spill_ok ps fill : forall fuel t d r, wf d t -> spill ps fill fuel t = Ok r -> spill_post d t r.
Proof.
  induction fuel as [|f IH]; intros t d r W H; [discriminate|].
  destruct t as [h ins kids]. rewrite spill_unfold in H.
  destruct (negb (h_mat h)).
  { apply Ok_inj in H. subst r. split; cbn [fst]; [constructor; auto | cbn; apply app_nil_r]. }
  destruct (spill_go _ _ ins kids) as [[[ins' kids'] evs]| |] eqn:G; try discriminate. cbn [bindr] in H.
  destruct (spill_self ps fill h ins' kids') as [[pcs e2]| |] eqn:Sp; try discriminate. cbn [bindr fst snd] in H.
  apply Ok_inj in H. subst r. unfold spill_post. cbn [fst].
  inversion W as [? ? Hl|d0 ? ? ? Hl Hlen Hk]; subst.
  - apply spill_go_nokids in G. inversion G; subst. eapply spill_self_ok; eauto.
  - destruct (spill_go_ok _ _ d0 _ _ _ _ _ Hlen Hk (fun c r _ Wc Hc => IH c d0 r Wc Hc) G) as (L1 & F1 & E1).
    assert (W' : wf (S d0) (NT h ins' kids')) by (constructor; auto).
    destruct (spill_self_ok _ _ _ _ _ _ _ _ W' Sp) as [Fp Ep]. split; auto.
    rewrite Ep, !flat_eq, Hl. exact E1.
Qed.

Lemma spill_up_ok ps fill : forall fuel pcs evs d t' evs', Forall (wf d) pcs ->
  spill_up ps fill fuel pcs evs = Ok (t', evs') -> aligned t' /\ flat t' = flat_map flat pcs.
Proof.
  induction fuel as [|f IH]; intros pcs evs d t' evs' F H; [discriminate|].
  cbn [spill_up] in H. destruct pcs as [|p1 [|p2 rest]]; [discriminate| |].
  - apply Ok_inj2 in H. destruct H as [<- _]. split; [exists d; now inversion F | cbn; now rewrite app_nil_r].
  - set (pcs := p1 :: p2 :: rest) in *. clearbody pcs.
    match type of H with context [spill_self ps fill ?h ?i ?k] => destruct (spill_self ps fill h i k) as [[pcs2 e2]| |] eqn:Sp; try discriminate;
      assert (W : wf (S d) (NT h i k)) by (constructor; auto; now rewrite map_length) end.
    cbn [bindr fst snd] in H. destruct (spill_self_ok _ _ _ _ _ _ _ _ W Sp) as [F2 E2].
    destruct (IH _ _ _ _ _ F2 H) as [A3 E3]. split; auto. rewrite E3, E2. reflexivity.
Qed.

Lemma spill_root_ok ps fill fuel t d t' evs : wf d t -> spill_root ps fill fuel t = Ok (t', evs) -> aligned t' /\ flat t' = flat t.
Proof.
  intros W H. unfold spill_root in H. destruct (negb (h_mat (hd_of t))).
  { apply Ok_inj2 in H. destruct H as [<- _]. split; [exists d; auto | auto]. }
  destruct (spill ps fill fuel t) as [r| |] eqn:Sp; try discriminate. cbn [bindr] in H.
  destruct (spill_ok _ _ _ _ _ _ W Sp) as [F E]. destruct (spill_up_ok _ _ _ _ _ _ _ _ F H) as [A E2]. split; auto. congruence.
Qed.

(** * P1: the commit keeps the content, for every visit order, page size and fill percentage *)
Theorem commit_tree_flat ps fill fuel t order t' evs :
  aligned t -> commit_tree ps fill fuel t order = Ok (t', evs) -> flat t' = flat t /\ aligned t'.
Proof.
  intros [d W] H. unfold commit_tree in H.
  destruct (rebalance_all ps fill fuel t order) as [[t1 e1]| |] eqn:R; try discriminate. cbn [bindr fst snd] in H.
  destruct (spill_root ps fill fuel t1) as [[t2 e2]| |] eqn:Sp; try discriminate. cbn [bindr fst snd] in H.
  apply Ok_inj2 in H. destruct H as [<- _].
  destruct (rebalance_all_ok _ _ _ _ _ _ _ _ W R) as [[d1 W1] F1].
  destruct (spill_root_ok _ _ _ _ _ _ _ W1 Sp) as [A2 F2]. split; [congruence | auto].
Qed.
Print Assumptions commit_tree_flat.

(** * the shape of the result of rebalance_in_parent (pure case analysis, used by P2 and P3) *)
Definition unb (ph : nhdr) : nhdr :=
  {| h_mat := h_mat ph; h_unbal := true; h_pgid := h_pgid ph; h_ov := h_ov ph; h_key := h_key ph; h_leaf := h_leaf ph |}.
Definition merged (l0 r0 : nt) : nt :=
  NT (hd_of (materialize l0)) (ins_of (materialize l0) ++ ins_of (materialize r0)) (kids_of (materialize l0) ++ kids_of (materialize r0)).

Lemma free_ev_set_unbal b t : free_ev (set_unbal b t) = free_ev t.
Proof. now destruct t. Qed.

Lemma rip_shape ps fill ph pins pkids i p' evs cont :
  rebalance_in_parent ps fill (NT ph pins pkids) i = Ok (p', evs, cont) ->
  (p' = NT ph pins pkids /\ evs = [] /\ cont = false /\ (forall n, nth_error pkids i = Some n -> h_unbal (hd_of n) = false)) \/
  (exists a n b, pkids = a ++ n :: b /\ length a = i /\ h_unbal (hd_of n) = true /\
     p' = NT ph pins (a ++ set_unbal false n :: b) /\ evs = [] /\ cont = false /\ ins_of n <> []) \/
  (exists a n b, pkids = a ++ n :: b /\ length a = i /\ h_unbal (hd_of n) = true /\ ins_of n = [] /\ (i < length pins)%nat /\
     p' = NT (unb ph) (remove_nth i pins) (a ++ b) /\ evs = free_ev n /\ cont = true) \/
  (exists a0 n b0 a l0 r0 b, pkids = a0 ++ n :: b0 /\ length a0 = i /\ h_unbal (hd_of n) = true /\
     a0 ++ set_unbal false n :: b0 = a ++ l0 :: r0 :: b /\ (S (length a) < length pins)%nat /\
     p' = NT (unb ph) (remove_nth (S (length a)) pins) (a ++ merged l0 r0 :: b) /\
     evs = free_ev (materialize r0) /\ cont = true /\ ins_of n <> []).
Proof.
  intros H. cbv beta iota zeta delta [rebalance_in_parent] in H.
  destruct (nth_error pkids i) as [n|] eqn:En; [|discriminate].
  destruct (h_unbal (hd_of n)) eqn:Hu; cbn [negb] in H.
  2:{ left. apply Ok_inj3 in H. destruct H as (<- & <- & <-). repeat split; auto. intros n' En'. congruence. }
  destruct (nth_error_decomp _ _ _ En) as (a & b & Epk & La).
  destruct (big_enough _ ps fill) eqn:Big.
  { right; left. apply Ok_inj3 in H. destruct H as (<- & <- & <-). exists a, n, b.
    rewrite Epk at 2. rewrite (replace_nth_at _ _ _ _ _ La).
    assert (Ne : ins_of n <> []).
    { intros E0. unfold big_enough in Big. apply andb_true_iff in Big. destruct Big as [_ Big].
      cbn [as_node n_inodes] in Big. rewrite ins_set_unbal, E0 in Big. cbn [length] in Big. apply Nat.ltb_lt in Big. lia. }
    auto 10. }
  rewrite ins_set_unbal in H.
  destruct (ins_of n) as [|x0 xs] eqn:Ei.
  - right; right; left.
    unfold index_of_key in H.
    destruct (nth_error pins _) as [y|] eqn:Ey; [|discriminate].
    destruct (beq _ _); [|discriminate].
    destruct (Nat.eqb_spec (search (length pins) (key_ge pins (h_key (hd_of (set_unbal false n))))) i) as [Ei2|]; [|discriminate].
    rewrite Ei2 in Ey. apply nth_error_Some_lt in Ey.
    apply Ok_inj3 in H. destruct H as (<- & <- & <-). exists a, n, b.
    rewrite Epk at 2. rewrite (remove_nth_at _ _ _ _ La), free_ev_set_unbal. auto 10.
  - right; right; right.
    destruct (length pins <=? 1)%nat; [discriminate|].
    destruct (negb _); [discriminate|].
    set (lp := if Nat.eqb i 0 then 0%nat else (i - 1)%nat) in *.
    set (kids1 := replace_nth i (set_unbal false n) pkids) in *.
    destruct (nth_error kids1 lp) as [l0|] eqn:El; [|discriminate].
    destruct (nth_error kids1 (S lp)) as [r0|] eqn:Er; [|discriminate].
    unfold index_of_key in H.
    destruct (nth_error pins _) as [y|] eqn:Ey; [|discriminate].
    destruct (beq _ _); [|discriminate].
    match type of H with context [Nat.eqb ?s (S lp)] => destruct (Nat.eqb_spec s (S lp)) as [Ei2|]; [|discriminate]; rewrite Ei2 in Ey end.
    apply nth_error_Some_lt in Ey.
    apply Ok_inj3 in H. destruct H as (<- & <- & <-).
    destruct (nth_error_decomp2 _ _ _ _ El Er) as (a1 & b1 & Ek1 & La1).
    exists a, n, b, a1, l0, r0, b1. rewrite <- La1 in Ey |- *.
    assert (E1 : kids1 = a ++ set_unbal false n :: b). { unfold kids1. rewrite Epk. apply replace_nth_at; auto. }
    rewrite Ek1. rewrite (replace_nth_at _ _ _ _ _ eq_refl), (remove_nth_at_S _ _ _ _ _ eq_refl).
    rewrite <- E1, Ek1. assert (Ne : ins_of n <> []) by (rewrite Ei; discriminate). auto 14.
Qed.

(** * P2: page accounting *)
Definition ownh (h : nhdr) : list (N * N) := if h_pgid h =? 0 then [] else [(h_pgid h, h_ov h)].
Fixpoint runs (t : nt) : list (N * N) :=
  match t with NT h _ kids => ownh h ++ flat_map runs kids end.
Definition ids (t : nt) : list N := map fst (runs t).
Fixpoint freed (evs : list ev) : list (N * N) :=
  match evs with [] => [] | EvFree p o :: r => (p, o) :: freed r | EvAlloc _ :: r => freed r end.
Fixpoint allocs (evs : list ev) : list N :=
  match evs with [] => [] | EvFree _ _ :: r => allocs r | EvAlloc n :: r => n :: allocs r end.

Lemma runs_eq h ins kids : runs (NT h ins kids) = ownh h ++ flat_map runs kids.
Proof. reflexivity. Qed.
Lemma runs_hd_kids t : runs t = ownh (hd_of t) ++ flat_map runs (kids_of t).
Proof. now destruct t. Qed.
Lemma freed_app a b : freed (a ++ b) = freed a ++ freed b.
Proof. induction a as [|[p o|n] a IH]; cbn; [auto | now rewrite IH | auto]. Qed.
Lemma allocs_app a b : allocs (a ++ b) = allocs a ++ allocs b.
Proof. induction a as [|[p o|n] a IH]; cbn; [auto | auto | now rewrite IH]. Qed.
Lemma freed_free_ev t : freed (free_ev t) = ownh (hd_of t).
Proof. unfold free_ev, ownh. now destruct (h_pgid (hd_of t) =? 0). Qed.
Lemma allocs_free_ev t : allocs (free_ev t) = [].
Proof. unfold free_ev. now destruct (h_pgid (hd_of t) =? 0). Qed.
Lemma runs_set_unbal b t : runs (set_unbal b t) = runs t.
Proof. now destruct t. Qed.
Lemma ownh_materialize t : ownh (hd_of (materialize t)) = ownh (hd_of t).
Proof. destruct t as [h i k]. cbn. now destruct (h_mat h). Qed.
Lemma runs_materialize t : runs (materialize t) = runs t.
Proof. destruct t as [h i k]. cbn. now destruct (h_mat h). Qed.

Definition rdec : forall a b : N * N, {a = b} + {a <> b}.
Proof. decide equality; apply N.eq_dec. Defined.

Ltac perm_tac :=
  repeat match goal with H : Permutation _ _ |- _ => rewrite (Permutation_count_occ rdec) in H end;
  apply (Permutation_count_occ rdec); let x0 := fresh "x0" in intro x0;
  repeat match goal with H : forall x, count_occ rdec _ x = count_occ rdec _ x |- _ => specialize (H x0) end;
  repeat rewrite ?flat_map_app, ?count_occ_app in *; cbn [flat_map count_occ] in *;
  repeat rewrite ?flat_map_app, ?count_occ_app in *; cbn [flat_map count_occ] in *; try lia.

Lemma rip_runs ps fill p i p' evs cont d :
  wf d p -> rebalance_in_parent ps fill p i = Ok (p', evs, cont) -> Permutation (runs p) (freed evs ++ runs p').
Proof.
  intros W H. destruct p as [ph pins pkids].
  destruct (rip_shape _ _ _ _ _ _ _ _ _ H) as [(-> & -> & _)|[(a & n & b & -> & _ & _ & -> & -> & _)|
    [(a & n & b & -> & La & _ & Ei & _ & -> & -> & _)|(a0 & n & b0 & a & l0 & r0 & b & -> & _ & _ & E & _ & -> & -> & _)]]].
  - reflexivity.
  - cbn [freed app]. rewrite !runs_eq, !flat_map_app. cbn [flat_map]. now rewrite runs_set_unbal.
  - inversion W as [|d0 ? ? ? Hl Hlen Hk]; subst. { destruct a; discriminate. }
    apply Forall_app in Hk. destruct Hk as [_ Hk]. apply Forall_inv in Hk.
    destruct (wf_empty _ _ Hk Ei) as [Kn _].
    rewrite freed_free_ev, !runs_eq. change (ownh (unb ph)) with (ownh ph).
    rewrite !flat_map_app. cbn [flat_map]. rewrite (runs_hd_kids n), Kn. perm_tac.
  - rewrite freed_free_ev, ownh_materialize, !runs_eq. change (ownh (unb ph)) with (ownh ph).
    assert (E2 : flat_map runs (a0 ++ n :: b0) = flat_map runs (a ++ l0 :: r0 :: b)).
    { rewrite <- E. rewrite !flat_map_app. cbn [flat_map]. now rewrite runs_set_unbal. }
    rewrite E2. unfold merged. rewrite !flat_map_app. cbn [flat_map]. rewrite runs_eq, ownh_materialize, !kids_materialize.
    rewrite (runs_hd_kids l0), (runs_hd_kids r0). perm_tac.
Qed.

Lemma rebalance_root_runs ps fill t t' evs :
  rebalance_root ps fill t = (t', evs) -> Permutation (runs t) (freed evs ++ runs t').
Proof.
  intros H. unfold rebalance_root in H.
  destruct (negb (h_unbal (hd_of t))). { inversion H; subst. reflexivity. }
  assert (D : Permutation (runs t) (freed [] ++ runs (set_unbal false t))) by (rewrite runs_set_unbal; reflexivity).
  destruct (big_enough _ ps fill). { inversion H; subst; auto. }
  destruct t as [h ins kids]. cbn [set_unbal] in *. cbn [h_leaf] in H.
  destruct (h_leaf h) eqn:Hl; [inversion H; subst; auto|].
  destruct ins as [|x [|x2 xs]]; [inversion H; subst; auto| |inversion H; subst; auto].
  destruct kids as [|c0 [|c1 cs]]; [inversion H; subst; auto| |inversion H; subst; auto].
  inversion H; subst t' evs. clear H D.
  rewrite freed_free_ev, ownh_materialize, !runs_eq, kids_materialize. cbn [flat_map].
  rewrite (runs_hd_kids c0). match goal with |- context [ownh {| h_mat := ?a; h_unbal := ?b; h_pgid := ?c; h_ov := ?e; h_key := ?f; h_leaf := ?g |}] =>
    change (ownh {| h_mat := a; h_unbal := b; h_pgid := c; h_ov := e; h_key := f; h_leaf := g |}) with (ownh h) end.
  perm_tac.
Qed.

Lemma get_at_wf : forall path t d p, wf d t -> get_at t path = Some p -> exists d', wf d' p.
Proof.
  induction path as [|i r IH]; intros t d p W G; cbn in G.
  - inversion G; subst; eauto.
  - destruct (nth_error (kids_of t) i) as [c|] eqn:Ec; [|discriminate].
    inversion W as [|d0 ? ? ? Hl Hlen Hk]; subst; cbn in Ec. { destruct i; discriminate. }
    rewrite Forall_forall in Hk. eapply IH; [apply Hk; eapply nth_error_In; eauto | eauto].
Qed.

Lemma set_at_runs : forall path t p p' F, get_at t path = Some p ->
  Permutation (runs p) (F ++ runs p') -> Permutation (runs t) (F ++ runs (set_at t path p')).
Proof.
  induction path as [|i r IH]; intros t p p' F G HP.
  - cbn in *. inversion G; subst. auto.
  - destruct t as [h ins kids]. cbn [get_at set_at kids_of] in *.
    destruct (nth_error kids i) as [c|] eqn:Ec; [|discriminate].
    pose proof (IH c p p' F G HP) as HP2.
    destruct (nth_error_decomp _ _ _ Ec) as (a & b & -> & La).
    rewrite (replace_nth_at _ _ _ _ _ La), !runs_eq. perm_tac.
Qed.

Lemma rebalance_at_runs ps fill : forall fuel t path d t' evs,
  wf d t -> rebalance_at ps fill fuel t path = Ok (t', evs) -> Permutation (runs t) (freed evs ++ runs t').
Proof.
  induction fuel as [|f IH]; intros t path d t' evs W H; [discriminate|].
  cbn [rebalance_at] in H. destruct path as [|i0 r0].
  - apply Ok_inj in H. eapply rebalance_root_runs; eauto.
  - set (path := i0 :: r0) in *. clearbody path.
    destruct (get_at t (removelast path)) as [p|] eqn:G; [|discriminate].
    destruct (rebalance_in_parent ps fill p (last path 0%nat)) as [[[p' e] c]| |] eqn:R; try discriminate.
    cbn [bindr] in H.
    destruct (set_at_ok (removelast path) t d p p' W G) as [W1 F1].
    { intros d' Wp. eapply rebalance_in_parent_ok; eauto. }
    destruct (get_at_wf _ _ _ _ W G) as [dp Wp].
    pose proof (set_at_runs _ _ _ _ _ G (rip_runs _ _ _ _ _ _ _ _ Wp R)) as HP.
    destruct c.
    + destruct (rebalance_at ps fill f _ _) as [[t2 e2]| |] eqn:R2; try discriminate. cbn [bindr fst snd] in H.
      apply Ok_inj2 in H. destruct H as [<- <-]. pose proof (IH _ _ _ _ _ W1 R2) as HP2. rewrite freed_app. perm_tac.
    + apply Ok_inj2 in H. destruct H as [<- <-]. exact HP.
Qed.

Lemma rebalance_all_runs ps fill fuel : forall order t d t' evs,
  wf d t -> rebalance_all ps fill fuel t order = Ok (t', evs) -> Permutation (runs t) (freed evs ++ runs t').
Proof.
  induction order as [|pg rest IH]; intros t d t' evs W H; cbn [rebalance_all] in H.
  - apply Ok_inj2 in H. destruct H as [<- <-]. reflexivity.
  - destruct (find_node fuel t pg) as [path|]; [|eauto].
    destruct (rebalance_at ps fill fuel t path) as [[t1 e1]| |] eqn:R; try discriminate. cbn [bindr fst snd] in H.
    destruct (rebalance_at_ok _ _ _ _ _ _ _ _ W R) as [[d1 W1] F1].
    pose proof (rebalance_at_runs _ _ _ _ _ _ _ _ W R) as HP1.
    destruct (rebalance_all ps fill fuel t1 rest) as [[t2 e2]| |] eqn:R2; try discriminate. cbn [bindr fst snd] in H.
    apply Ok_inj2 in H. destruct H as [<- <-]. pose proof (IH _ _ _ _ W1 R2) as HP2. rewrite freed_app. perm_tac.
Qed.

Lemma freed_map_alloc {A} (f : A -> N) l : freed (map (fun p => EvAlloc (f p)) l) = [].
Proof. induction l; cbn; auto. Qed.

Lemma mk_pieces_runs ps leaf : forall pieces kidss, length pieces = length kidss ->
  flat_map runs (map (mk_piece ps leaf) (combine pieces kidss)) = flat_map runs (concat kidss).
Proof.
  induction pieces as [|p r IH]; intros [|k ks] L; cbn [length] in L; try discriminate; [reflexivity|].
  cbn [combine map flat_map concat]. rewrite IH by lia. unfold mk_piece at 1. cbn [fst snd]. rewrite runs_eq, flat_map_app. reflexivity.
Qed.

Lemma concat_map_nil {A B} (l : list A) : concat (map (fun _ => @nil B) l) = [].
Proof. induction l; cbn; auto. Qed.

Lemma Forall2_length' {A B} (R : A -> B -> Prop) l1 l2 : Forall2 R l1 l2 -> length l1 = length l2.
Proof. induction 1; cbn; auto. Qed.

Lemma spill_self_runs ps fill h ins kids d pcs evs :
  wf d (NT h ins kids) -> spill_self ps fill h ins kids = Ok (pcs, evs) ->
  freed evs = ownh h /\ flat_map runs pcs = flat_map runs kids.
Proof.
  intros W H. unfold spill_self in H.
  destruct (split _ ps fill) as [pieces| |] eqn:Sp; try discriminate. cbn [bindr] in H.
  apply Ok_inj2 in H. destruct H as [<- <-].
  pose proof (split_concat _ _ _ _ Sp) as C. cbn [n_inodes] in C.
  rewrite freed_app, freed_map_alloc, app_nil_r. split; [unfold ownh; now destruct (h_pgid h =? 0)|].
  fold (mk_piece ps (h_leaf h)).
  inversion W as [? ? Hl|d0 ? ? ? Hl Hlen Hk]; subst; rewrite Hl.
  - rewrite mk_pieces_runs by now rewrite map_length. now rewrite concat_map_nil.
  - destruct (cut_like_spec pieces kids Hlen) as [CC F2].
    rewrite mk_pieces_runs by (eapply Forall2_length'; eauto). now rewrite CC.
Qed.

Definition spill_runs_post (c : nt) (r : list nt * list ev) : Prop :=
  Permutation (runs c) (freed (snd r) ++ flat_map runs (fst r)).

Lemma spill_go_runs leaf sp d : forall ins kids ins' kids' evs,
  length ins = length kids -> Forall (wf d) kids ->
  (forall c r, In c kids -> wf d c -> sp c = Ok r -> spill_runs_post c r) ->
  spill_go leaf sp ins kids = Ok (ins', kids', evs) ->
  Permutation (flat_map runs kids) (freed evs ++ flat_map runs kids').
Proof.
  induction ins as [|i ir IH]; intros [|c cr] ins' kids' evs L F Hsp H; cbn [length] in L; try discriminate.
  - cbn in H. inversion H; subst. reflexivity.
  - cbn [spill_go] in H.
    destruct (spill_go leaf sp ir cr) as [[[ri rk] re]| |] eqn:G; try discriminate. cbn [bindr] in H.
    pose proof (Forall_inv F) as Wc. pose proof (Forall_inv_tail F) as Fr.
    assert (HP : Permutation (flat_map runs cr) (freed re ++ flat_map runs rk)).
    { apply (IH cr ri rk re); auto. intros; apply Hsp; auto. now right. }
    destruct (h_mat (hd_of c)).
    + destruct (ins_of c); [discriminate|].
      destruct (sp c) as [cp| |] eqn:Sc; try discriminate. cbn [bindr] in H.
      apply Ok_inj3 in H. destruct H as (_ & <- & <-).
      pose proof (Hsp c cp (or_introl eq_refl) Wc Sc) as HP2. unfold spill_runs_post in HP2.
      rewrite freed_app. perm_tac.
    + apply Ok_inj3 in H. destruct H as (_ & <- & <-). perm_tac.
Qed.

Lemma spill_runs ps fill : forall fuel t d r, wf d t -> spill ps fill fuel t = Ok r -> spill_runs_post t r.
Proof.
  induction fuel as [|f IH]; intros t d r W H; [discriminate|].
  destruct t as [h ins kids]. rewrite spill_unfold in H.
  destruct (negb (h_mat h)).
  { apply Ok_inj in H. subst r. unfold spill_runs_post. cbn [fst snd freed flat_map app]. now rewrite app_nil_r. }
  destruct (spill_go _ _ ins kids) as [[[ins' kids'] evs]| |] eqn:G; try discriminate. cbn [bindr] in H.
  destruct (spill_self ps fill h ins' kids') as [[pcs e2]| |] eqn:Sp; try discriminate. cbn [bindr fst snd] in H.
  apply Ok_inj in H. subst r. unfold spill_runs_post. cbn [fst snd]. rewrite freed_app, runs_eq.
  inversion W as [? ? Hl|d0 ? ? ? Hl Hlen Hk]; subst.
  - apply spill_go_nokids in G. inversion G; subst.
    destruct (spill_self_runs _ _ _ _ _ _ _ _ W Sp) as [-> ->]. cbn. now rewrite app_nil_r.
  - destruct (spill_go_ok _ _ d0 _ _ _ _ _ Hlen Hk (fun c r _ Wc Hc => spill_ok ps fill f c d0 r Wc Hc) G) as (L1 & F1 & E1).
    pose proof (spill_go_runs _ _ d0 _ _ _ _ _ Hlen Hk (fun c r _ Wc Hc => IH c d0 r Wc Hc) G) as HP.
    assert (W' : wf (S d0) (NT h ins' kids')) by (constructor; auto).
    destruct (spill_self_runs _ _ _ _ _ _ _ _ W' Sp) as [-> ->]. perm_tac.
Qed.

Lemma spill_up_runs ps fill : forall fuel pcs evs d t' evs', Forall (wf d) pcs ->
  spill_up ps fill fuel pcs evs = Ok (t', evs') -> freed evs' = freed evs /\ runs t' = flat_map runs pcs.
Proof.
  induction fuel as [|f IH]; intros pcs evs d t' evs' F H; [discriminate|].
  cbn [spill_up] in H. destruct pcs as [|p1 [|p2 rest]]; [discriminate| |].
  - apply Ok_inj2 in H. destruct H as [<- <-]. split; [auto | cbn; now rewrite app_nil_r].
  - set (pcs := p1 :: p2 :: rest) in *. clearbody pcs.
    match type of H with context [spill_self ps fill ?h ?i ?k] => destruct (spill_self ps fill h i k) as [[pcs2 e2]| |] eqn:Sp; try discriminate;
      assert (W : wf (S d) (NT h i k)) by (constructor; auto; now rewrite map_length) end.
    cbn [bindr fst snd] in H. destruct (spill_self_ok _ _ _ _ _ _ _ _ W Sp) as [F2 E2].
    destruct (spill_self_runs _ _ _ _ _ _ _ _ W Sp) as [Fe Er].
    destruct (IH _ _ _ _ _ F2 H) as [A3 E3]. rewrite A3, E3, freed_app, Fe, Er. cbn. now rewrite app_nil_r.
Qed.

Lemma spill_root_runs ps fill fuel t d t' evs : wf d t -> spill_root ps fill fuel t = Ok (t', evs) ->
  Permutation (runs t) (freed evs ++ runs t').
Proof.
  intros W H. unfold spill_root in H. destruct (negb (h_mat (hd_of t))).
  { apply Ok_inj2 in H. destruct H as [<- <-]. reflexivity. }
  destruct (spill ps fill fuel t) as [r| |] eqn:Sp; try discriminate. cbn [bindr] in H.
  destruct (spill_ok _ _ _ _ _ _ W Sp) as [F E]. pose proof (spill_runs _ _ _ _ _ _ W Sp) as HP.
  destruct (spill_up_runs _ _ _ _ _ _ _ _ F H) as [-> ->]. exact HP.
Qed.

(** P2 (a, b) in one statement: the page runs of the old tree are exactly the freed runs plus the page runs of the new tree, as multisets *)
Theorem commit_tree_runs ps fill fuel t order t' evs :
  aligned t -> commit_tree ps fill fuel t order = Ok (t', evs) -> Permutation (runs t) (freed evs ++ runs t').
Proof.
  intros [d W] H. unfold commit_tree in H.
  destruct (rebalance_all ps fill fuel t order) as [[t1 e1]| |] eqn:R; try discriminate. cbn [bindr fst snd] in H.
  destruct (spill_root ps fill fuel t1) as [[t2 e2]| |] eqn:Sp; try discriminate. cbn [bindr fst snd] in H.
  apply Ok_inj2 in H. destruct H as [<- <-].
  destruct (rebalance_all_ok _ _ _ _ _ _ _ _ W R) as [[d1 W1] F1].
  pose proof (rebalance_all_runs _ _ _ _ _ _ _ _ W R) as HP1.
  pose proof (spill_root_runs _ _ _ _ _ _ _ W1 Sp) as HP2. rewrite freed_app. perm_tac.
Qed.
Print Assumptions commit_tree_runs.

Lemma In_freed p o evs : In (EvFree p o) evs <-> In (p, o) (freed evs).
Proof.
  induction evs as [|[p' o'|n] evs IH]; cbn; [tauto | |].
  - rewrite <- IH. split; (intros [E|]; [left; congruence | auto]).
  - rewrite <- IH. split; [intros [E|]; [discriminate | auto] | auto].
Qed.

Lemma nodup_app_inv {A} (a b : list A) : NoDup (a ++ b) -> NoDup a /\ NoDup b.
Proof.
  induction a as [|x a IH]; cbn; intros H; [split; [constructor | auto]|].
  inversion H; subst. destruct (IH H3) as [Ha Hb]. split; auto. constructor; auto. intros Hx. apply H2. apply in_or_app; auto.
Qed.

Theorem commit_tree_frees ps fill fuel t order t' evs :
  aligned t -> NoDup (ids t) -> commit_tree ps fill fuel t order = Ok (t', evs) ->
  (forall p ov, In (EvFree p ov) evs -> In (p, ov) (runs t)) /\
  NoDup (map fst (freed evs)) /\
  NoDup (ids t') /\
  (forall x, In x (ids t') <-> In x (ids t) /\ ~ In x (map fst (freed evs))).
Proof.
  intros A ND H. pose proof (commit_tree_runs _ _ _ _ _ _ _ A H) as HP.
  pose proof (Permutation_map fst HP) as HM. rewrite map_app in HM. fold (ids t) in HM. fold (ids t') in HM.
  pose proof (Permutation_NoDup HM ND) as ND2.
  split; [|split; [|split]].
  - intros p ov Hin. apply In_freed in Hin. eapply Permutation_in; [symmetry; exact HP | apply in_or_app; auto].
  - apply (nodup_app_inv _ _ ND2).
  - apply (nodup_app_inv _ _ ND2).
  - intros x. split.
    + intros Hx. split; [eapply Permutation_in; [symmetry; exact HM | apply in_or_app; auto]|].
      intros Hf. revert ND2 Hf Hx. generalize (map fst (freed evs)) (ids t'). clear.
      induction l as [|y l IH]; intros l' ND Hf Hx; [destruct Hf|]. cbn in ND. inversion ND; subst.
      destruct Hf as [->|Hf]; [apply H1; apply in_or_app; auto | eauto].
    + intros [Hx Hn]. apply (Permutation_in _ HM) in Hx. apply in_app_or in Hx. tauto.
Qed.
Print Assumptions commit_tree_frees.

(** * P3: every vertex of the committed tree is a page *)
(** [pgok z h]: with z = true, additionally the page id is not 0 (used by the allocation count) *)
Definition pgok (z : bool) (h : nhdr) : Prop := z = true -> h_pgid h <> 0.
Inductive allpg (z : bool) : nt -> Prop :=
| allpg_i h ins kids : h_mat h = false -> pgok z h -> Forall (allpg z) kids -> allpg z (NT h ins kids).
(** materialised vertices form a prefix-closed set: below a page there are only pages *)
Inductive closed (z : bool) : nt -> Prop :=
| closed_page t : allpg z t -> closed z t
| closed_mat h ins kids : h_mat h = true -> Forall (closed z) kids -> closed z (NT h ins kids).

Lemma closed_kids z t : closed z t -> Forall (closed z) (kids_of t).
Proof.
  intros [t0 A|h ins kids _ F]; [|exact F]. inversion A; subst. cbn. eapply Forall_impl; [|eauto]. intros; now constructor.
Qed.
Lemma closed_nonmat z t : closed z t -> h_mat (hd_of t) = false -> allpg z t.
Proof. intros [t0 A|h ins kids M F] E; [auto | cbn in E; congruence]. Qed.
Lemma closed_hdr z h h' ins kids : closed z (NT h ins kids) -> h_mat h' = h_mat h -> h_pgid h' = h_pgid h -> closed z (NT h' ins kids).
Proof.
  intros C E1 E2. inversion C as [t0 A|? ? ? M F]; subst.
  - inversion A; subst. apply closed_page. constructor; auto; [congruence | unfold pgok in *; now rewrite E2].
  - apply closed_mat; [congruence | auto].
Qed.
Lemma closed_set_unbal z b t : closed z t -> closed z (set_unbal b t).
Proof. destruct t as [h i k]. intros C. eapply closed_hdr; eauto. Qed.
Lemma mat_materialize t : h_mat (hd_of (materialize t)) = true.
Proof. destruct t as [h i k]. cbn. now destruct (h_mat h) eqn:E. Qed.
Lemma closed_materialize z t : closed z t -> closed z (materialize t).
Proof.
  intros C. pose proof (closed_kids _ _ C) as K. destruct t as [h i k]. cbn in *. destruct (h_mat h); [auto|]. now apply closed_mat.
Qed.
Lemma closed_merged z l0 r0 : closed z l0 -> closed z r0 -> closed z (merged l0 r0).
Proof.
  intros Cl Cr. unfold merged. pose proof (mat_materialize l0) as M.
  destruct (materialize l0) as [h i k] eqn:E. cbn [hd_of ins_of kids_of] in *. apply closed_mat; auto.
  apply Forall_app. split.
  - change k with (kids_of (NT h i k)). rewrite <- E, kids_materialize. now apply closed_kids.
  - rewrite kids_materialize. now apply closed_kids.
Qed.

Lemma rip_closed z ps fill p i p' evs cont :
  closed z p -> h_mat (hd_of p) = true -> rebalance_in_parent ps fill p i = Ok (p', evs, cont) ->
  closed z p' /\ h_mat (hd_of p') = true.
Proof.
  intros C M H. destruct p as [ph pins pkids]. pose proof (closed_kids _ _ C) as K. cbn in K, M.
  destruct (rip_shape _ _ _ _ _ _ _ _ _ H) as [(-> & _ & _)|[(a & n & b & -> & _ & _ & -> & _ & _)|
    [(a & n & b & -> & La & _ & Ei & _ & -> & _ & _)|(a0 & n & b0 & a & l0 & r0 & b & -> & _ & _ & E & _ & -> & _ & _)]]].
  - auto.
  - split; auto. apply closed_mat; auto. apply Forall_app in K. destruct K as [Ka Kb]. apply Forall_app. split; auto.
    constructor; [apply closed_set_unbal; now apply Forall_inv in Kb | now apply Forall_inv_tail in Kb].
  - split; auto. apply closed_mat; auto. apply Forall_app in K. destruct K as [Ka Kb]. apply Forall_app. split; auto.
    now apply Forall_inv_tail in Kb.
  - split; auto. apply closed_mat; auto.
    assert (K1 : Forall (closed z) (a ++ l0 :: r0 :: b)).
    { rewrite <- E. apply Forall_app in K. destruct K as [Ka Kb]. apply Forall_app. split; auto.
      constructor; [apply closed_set_unbal; now apply Forall_inv in Kb | now apply Forall_inv_tail in Kb]. }
    apply Forall_app in K1. destruct K1 as [Ka Kb]. apply Forall_app. split; auto.
    pose proof (Forall_inv Kb) as Cl. apply Forall_inv_tail in Kb. pose proof (Forall_inv Kb) as Cr. apply Forall_inv_tail in Kb.
    constructor; auto. now apply closed_merged.
Qed.

Lemma rebalance_root_closed z ps fill t t' evs : closed z t -> rebalance_root ps fill t = (t', evs) -> closed z t'.
Proof.
  intros C H. unfold rebalance_root in H.
  destruct (negb (h_unbal (hd_of t))). { inversion H; subst. auto. }
  pose proof (closed_set_unbal z false t C) as D.
  destruct (big_enough _ ps fill). { inversion H; subst; auto. }
  destruct t as [h ins kids]. cbn [set_unbal] in *. cbn [h_leaf] in H.
  destruct (h_leaf h) eqn:Hl; [inversion H; subst; auto|].
  destruct ins as [|x [|x2 xs]]; [inversion H; subst; auto| |inversion H; subst; auto].
  destruct kids as [|c0 [|c1 cs]]; [inversion H; subst; auto| |inversion H; subst; auto].
  inversion H; subst t' evs. clear H D. rewrite kids_materialize.
  pose proof (closed_kids _ _ C) as K. cbn in K. apply Forall_inv in K.
  inversion C as [t0 A|? ? ? M F]; subst.
  - inversion A as [? ? ? M P FK]; subst. apply Forall_inv in FK. inversion FK; subst. apply closed_page. constructor; auto.
  - apply closed_mat; auto. now apply closed_kids.
Qed.

Fixpoint matpath (t : nt) (path : list nat) : Prop :=
  h_mat (hd_of t) = true /\
  match path with [] => True | i :: r => exists c, nth_error (kids_of t) i = Some c /\ matpath c r end.

Lemma matpath_root t path : matpath t path -> h_mat (hd_of t) = true.
Proof. destruct path; cbn; tauto. Qed.
Lemma matpath_prefix : forall path t, matpath t path -> matpath t (removelast path).
Proof.
  induction path as [|i r IH]; intros t H; [exact H|].
  destruct r as [|j r']. { cbn. split; [eapply matpath_root; eauto | auto]. }
  change (removelast (i :: j :: r')) with (i :: removelast (j :: r')).
  destruct H as [M (c & Ec & Hc)]. split; auto. exists c. split; auto.
Qed.
Lemma matpath_get : forall path t p, matpath t path -> get_at t path = Some p -> h_mat (hd_of p) = true.
Proof.
  induction path as [|i r IH]; intros t p H G; cbn in G.
  - inversion G; subst. eapply matpath_root; eauto.
  - destruct H as [M (c & Ec & Hc)]. rewrite Ec in G. eauto.
Qed.
Lemma set_at_closed z : forall path t p', closed z t -> matpath t path -> closed z p' -> h_mat (hd_of p') = true ->
  closed z (set_at t path p') /\ matpath (set_at t path p') path.
Proof.
  induction path as [|i r IH]; intros t p' C H Cp Mp.
  - cbn. auto.
  - destruct H as [M (c & Ec & Hc)]. destruct t as [h ins kids]. cbn [kids_of hd_of set_at] in *. rewrite Ec.
    pose proof (closed_kids _ _ C) as K. cbn in K.
    assert (Cc : closed z c). { rewrite Forall_forall in K. apply K. eapply nth_error_In; eauto. }
    destruct (IH c p' Cc Hc Cp Mp) as [C1 M1]. split.
    + apply closed_mat; auto. now apply Forall_replace_nth.
    + cbn [matpath hd_of kids_of]. split; auto. exists (set_at c r p'). split; auto. eapply nth_error_replace_same; eauto.
Qed.

Lemma rebalance_at_closed z ps fill : forall fuel t path t' evs,
  closed z t -> matpath t path -> rebalance_at ps fill fuel t path = Ok (t', evs) -> closed z t'.
Proof.
  induction fuel as [|f IH]; intros t path t' evs C MP H; [discriminate|].
  cbn [rebalance_at] in H. destruct path as [|i0 r0].
  - apply Ok_inj in H. eapply rebalance_root_closed; eauto.
  - set (path := i0 :: r0) in *. clearbody path.
    destruct (get_at t (removelast path)) as [p|] eqn:G; [|discriminate].
    destruct (rebalance_in_parent ps fill p (last path 0%nat)) as [[[p' e] c]| |] eqn:R; try discriminate.
    cbn [bindr] in H. apply matpath_prefix in MP.
    assert (Cp : closed z p).
    { clear -C G MP. revert t C G MP. induction (removelast path) as [|i r IHr]; intros t C G MP; cbn in G.
      - inversion G; subst; auto.
      - destruct MP as [M (c & Ec & Hc)]. rewrite Ec in G. apply (IHr c); auto.
        pose proof (closed_kids _ _ C) as K. rewrite Forall_forall in K. apply K. eapply nth_error_In; eauto. }
    destruct (rip_closed z _ _ _ _ _ _ _ Cp (matpath_get _ _ _ MP G) R) as [Cp' Mp'].
    destruct (set_at_closed z _ _ _ C MP Cp' Mp') as [C1 M1].
    destruct c.
    + destruct (rebalance_at ps fill f _ _) as [[t2 e2]| |] eqn:R2; try discriminate. cbn [bindr fst snd] in H.
      apply Ok_inj2 in H. destruct H as [<- _]. eapply IH; eauto.
    + apply Ok_inj2 in H. destruct H as [<- _]. exact C1.
Qed.

(** find_node only descends through materialised vertices *)
Section FindGo.
  Variable fn : nt -> option (list nat).
  Fixpoint find_go (i : nat) (ks : list nt) : option (list nat) :=
    match ks with [] => None | c :: r =>
      match (if h_mat (hd_of c) then fn c else None) with Some p => Some (i :: p) | None => find_go (S i) r end end.
End FindGo.
Lemma find_node_unfold f t pg : find_node (S f) t pg =
  if h_mat (hd_of t) && (h_pgid (hd_of t) =? pg) then Some [] else find_go (fun c => find_node f c pg) 0%nat (kids_of t).
Proof. reflexivity. Qed.

Lemma find_go_spec fn : forall ks i path, find_go fn i ks = Some path ->
  exists j c p, path = (i + j)%nat :: p /\ nth_error ks j = Some c /\ h_mat (hd_of c) = true /\ fn c = Some p.
Proof.
  induction ks as [|c r IH]; intros i path H; cbn in H; [discriminate|].
  destruct (h_mat (hd_of c)) eqn:M.
  - destruct (fn c) as [p|] eqn:E.
    + inversion H; subst. exists 0%nat, c, p. rewrite Nat.add_0_r. auto.
    + destruct (IH _ _ H) as (j & c' & p & -> & En & M' & E'). exists (S j), c', p. rewrite Nat.add_succ_r. auto.
  - destruct (IH _ _ H) as (j & c' & p & -> & En & M' & E'). exists (S j), c', p. rewrite Nat.add_succ_r. auto.
Qed.

Lemma find_node_matpath z : forall fuel t pg path, closed z t -> find_node fuel t pg = Some path -> matpath t path.
Proof.
  induction fuel as [|f IH]; intros t pg path C H; [discriminate|].
  rewrite find_node_unfold in H.
  destruct (h_mat (hd_of t) && (h_pgid (hd_of t) =? pg)) eqn:E.
  - inversion H; subst. apply andb_true_iff in E. cbn. tauto.
  - destruct (find_go_spec _ _ _ _ H) as (j & c & p & -> & En & M & Ef). cbn [Nat.add].
    pose proof (closed_kids _ _ C) as K.
    assert (Cc : closed z c). { rewrite Forall_forall in K. apply K. eapply nth_error_In; eauto. }
    split.
    + inversion C as [t0 A|? ? ? M' F]; subst; auto. inversion A as [? ? ? ? ? FK]; subst. cbn in En.
      rewrite Forall_forall in FK. pose proof (FK c (nth_error_In _ _ En)) as Ac. inversion Ac; subst. cbn in M. congruence.
    + exists c. split; eauto.
Qed.

Lemma rebalance_all_closed z ps fill fuel : forall order t t' evs,
  closed z t -> rebalance_all ps fill fuel t order = Ok (t', evs) -> closed z t'.
Proof.
  induction order as [|pg rest IH]; intros t t' evs C H; cbn [rebalance_all] in H.
  - apply Ok_inj2 in H. destruct H as [<- _]. auto.
  - destruct (find_node fuel t pg) as [path|] eqn:Fn; [|eauto].
    destruct (rebalance_at ps fill fuel t path) as [[t1 e1]| |] eqn:R; try discriminate. cbn [bindr fst snd] in H.
    pose proof (rebalance_at_closed z _ _ _ _ _ _ _ C (find_node_matpath z _ _ _ _ C Fn) R) as C1.
    destruct (rebalance_all ps fill fuel t1 rest) as [[t2 e2]| |] eqn:R2; try discriminate. cbn [bindr fst snd] in H.
    apply Ok_inj2 in H. destruct H as [<- _]. eauto.
Qed.

Lemma spill_self_pages ps fill h ins kids pcs evs :
  Forall (allpg false) kids -> spill_self ps fill h ins kids = Ok (pcs, evs) -> Forall (allpg false) pcs.
Proof.
  intros K H. unfold spill_self in H.
  destruct (split _ ps fill) as [pieces| |] eqn:Sp; try discriminate. cbn [bindr] in H.
  apply Ok_inj2 in H. destruct H as [<- _].
  assert (KK : Forall (Forall (allpg false)) (if h_leaf h then map (fun _ => []) pieces else cut_like pieces kids)).
  { destruct (h_leaf h); [|now apply cut_like_Forall]. clear. induction pieces; cbn; constructor; auto. }
  revert KK. generalize (if h_leaf h then map (fun _ : list inode => @nil nt) pieces else cut_like pieces kids). intros kidss KK.
  apply Forall_forall. intros x Hx. apply in_map_iff in Hx. destruct Hx as ([p k] & <- & Hin). cbn [fst snd].
  apply in_combine_r in Hin. rewrite Forall_forall in KK. constructor; [reflexivity | intros E; discriminate | auto].
Qed.

Lemma spill_go_pages leaf sp : forall ins kids ins' kids' evs,
  Forall (closed false) kids ->
  (forall c r, In c kids -> closed false c -> sp c = Ok r -> Forall (allpg false) (fst r)) ->
  spill_go leaf sp ins kids = Ok (ins', kids', evs) -> Forall (allpg false) kids'.
Proof.
  induction ins as [|i ir IH]; intros [|c cr] ins' kids' evs F Hsp H.
  - cbn in H. inversion H; subst. constructor.
  - discriminate.
  - apply spill_go_nokids in H. inversion H; subst. constructor.
  - cbn [spill_go] in H.
    destruct (spill_go leaf sp ir cr) as [[[ri rk] re]| |] eqn:G; try discriminate. cbn [bindr] in H.
    pose proof (Forall_inv F) as Cc. pose proof (Forall_inv_tail F) as Fr.
    assert (Hr : Forall (allpg false) rk). { apply (IH cr ri rk re); auto. intros c0 r0 Hin Cc0 Hc0. apply (Hsp c0 r0); auto. now right. }
    destruct (h_mat (hd_of c)) eqn:M.
    + destruct (ins_of c); [discriminate|].
      destruct (sp c) as [cp| |] eqn:Sc; try discriminate. cbn [bindr] in H.
      apply Ok_inj3 in H. destruct H as (_ & <- & _). apply Forall_app. split; auto. apply (Hsp c cp); auto. now left.
    + apply Ok_inj3 in H. destruct H as (_ & <- & _). constructor; auto. now apply closed_nonmat.
Qed.

Lemma spill_pages ps fill : forall fuel t r, closed false t -> spill ps fill fuel t = Ok r -> Forall (allpg false) (fst r).
Proof.
  induction fuel as [|f IH]; intros t r C H; [discriminate|].
  destruct t as [h ins kids]. rewrite spill_unfold in H.
  destruct (h_mat h) eqn:M; cbn [negb] in H.
  2:{ apply Ok_inj in H. subst r. cbn [fst]. constructor; auto. now apply closed_nonmat. }
  destruct (spill_go _ _ ins kids) as [[[ins' kids'] evs]| |] eqn:G; try discriminate. cbn [bindr] in H.
  destruct (spill_self ps fill h ins' kids') as [[pcs e2]| |] eqn:Sp; try discriminate. cbn [bindr fst snd] in H.
  apply Ok_inj in H. subst r. cbn [fst].
  eapply spill_self_pages; [|eauto]. eapply spill_go_pages; [| |eauto].
  - now apply (closed_kids _ _ C).
  - intros c r _ Cc Hc. eapply IH; eauto.
Qed.

Lemma spill_up_pages ps fill : forall fuel pcs evs t' evs', Forall (allpg false) pcs ->
  spill_up ps fill fuel pcs evs = Ok (t', evs') -> allpg false t'.
Proof.
  induction fuel as [|f IH]; intros pcs evs t' evs' F H; [discriminate|].
  cbn [spill_up] in H. destruct pcs as [|p1 [|p2 rest]]; [discriminate| |].
  - apply Ok_inj2 in H. destruct H as [<- _]. now inversion F.
  - set (pcs := p1 :: p2 :: rest) in *. clearbody pcs.
    match type of H with context [spill_self ps fill ?h ?i ?k] => destruct (spill_self ps fill h i k) as [[pcs2 e2]| |] eqn:Sp; try discriminate end.
    cbn [bindr fst snd] in H. eapply IH; [|eauto]. eapply spill_self_pages; eauto.
Qed.

(** P3.  [closed false t] says: the materialised vertices of t are closed under taking the parent (this covers "the root is
    materialised and every materialised vertex's parent is materialised", and also a tree of pages only).  Then every vertex
    of the committed tree is a page ([allpg false t'] = every vertex has h_mat = false). *)
Theorem commit_tree_pages ps fill fuel t order t' evs :
  closed false t -> commit_tree ps fill fuel t order = Ok (t', evs) -> allpg false t'.
Proof.
  intros C H. unfold commit_tree in H.
  destruct (rebalance_all ps fill fuel t order) as [[t1 e1]| |] eqn:R; try discriminate. cbn [bindr fst snd] in H.
  destruct (spill_root ps fill fuel t1) as [[t2 e2]| |] eqn:Sp; try discriminate. cbn [bindr fst snd] in H.
  apply Ok_inj2 in H. destruct H as [<- _].
  pose proof (rebalance_all_closed _ _ _ _ _ _ _ _ C R) as C1.
  unfold spill_root in Sp. destruct (h_mat (hd_of t1)) eqn:M; cbn [negb] in Sp.
  2:{ apply Ok_inj2 in Sp. destruct Sp as [<- _]. now apply closed_nonmat. }
  destruct (spill ps fill fuel t1) as [r| |] eqn:S1; try discriminate. cbn [bindr] in Sp.
  eapply spill_up_pages; [|eauto]. eapply spill_pages; eauto.
Qed.
Print Assumptions commit_tree_pages.

(** [allpg false] really is "h_mat = false at every vertex" *)
Fixpoint all_pages_b (t : nt) : bool := match t with NT h _ kids => negb (h_mat h) && forallb all_pages_b kids end.
Fixpoint nt_ind' (P : nt -> Prop) (H : forall h ins kids, Forall P kids -> P (NT h ins kids)) (t : nt) : P t :=
  match t with NT h ins kids =>
    H h ins kids ((fix go (l : list nt) : Forall P l :=
                     match l with [] => Forall_nil P | x :: r => Forall_cons x (nt_ind' P H x) (go r) end) kids) end.
Lemma allpg_b t : allpg false t <-> all_pages_b t = true.
Proof.
  induction t as [h ins kids IH] using nt_ind'. cbn [all_pages_b]. rewrite andb_true_iff, forallb_forall, negb_true_iff.
  rewrite Forall_forall in IH. split.
  - intros A. inversion A as [? ? ? M _ FK]; subst. rewrite Forall_forall in FK. split; auto. intros x Hx. apply IH; auto.
  - intros [M FK]. constructor; auto; [intros E; discriminate|]. apply Forall_forall. intros x Hx. apply IH; auto.
Qed.

(** * the fuelled definitions of Tree.v agree with the fuel-free ones when the fuel exceeds the height *)
Lemma flat_map_Forall_ext {A B} (f g : A -> list B) l : Forall (fun x => f x = g x) l -> flat_map f l = flat_map g l.
Proof. induction 1 as [|x l E _ IH]; cbn; [auto | now rewrite E, IH]. Qed.

Lemma flatten_flat : forall fuel t d, wf d t -> (d < fuel)%nat -> flatten fuel t = flat t.
Proof.
  induction fuel as [|f IH]; intros t d W L; [lia|]. cbn [flatten].
  inversion W as [? ? Hl|d0 ? ? ? Hl Hlen Hk]; subst; cbn [hd_of ins_of kids_of]; rewrite flat_eq, Hl; [reflexivity|].
  apply flat_map_Forall_ext. eapply Forall_impl; [|exact Hk]. intros c Wc. apply (IH c d0); [auto | lia].
Qed.

Lemma page_runs_runs : forall fuel t d, wf d t -> (d < fuel)%nat -> page_runs fuel t = runs t.
Proof.
  induction fuel as [|f IH]; intros t d W L; [lia|]. cbn [page_runs].
  inversion W as [? ? Hl|d0 ? ? ? Hl Hlen Hk]; subst; cbn [hd_of ins_of kids_of]; rewrite runs_eq; [reflexivity|].
  unfold ownh. f_equal. apply flat_map_Forall_ext. eapply Forall_impl; [|exact Hk]. intros c Wc. apply (IH c d0); [auto | lia].
Qed.

(** P1 and P2 in terms of the fuelled functions of Tree.v *)
Corollary commit_tree_flatten ps fill fuel t order t' evs d :
  wf d t -> commit_tree ps fill fuel t order = Ok (t', evs) ->
  exists d', wf d' t' /\ forall f1 f2, (d < f1)%nat -> (d' < f2)%nat -> flatten f2 t' = flatten f1 t.
Proof.
  intros W H. destruct (commit_tree_flat _ _ _ _ _ _ _ (ex_intro _ d W) H) as [F [d' W']].
  exists d'. split; auto. intros f1 f2 L1 L2. rewrite (flatten_flat _ _ _ W' L2), (flatten_flat _ _ _ W L1). exact F.
Qed.

(** * Examples *)
Definition mkh (mat unb : bool) (pg : N) (key : bytes) (leaf : bool) : nhdr :=
  {| h_mat := mat; h_unbal := unb; h_pgid := pg; h_ov := 0; h_key := key; h_leaf := leaf |}.
Definition lf (k : N) (v : bytes) : inode := {| i_flags := 0; i_key := [k]; i_val := v; i_pgid := 0 |}.
Definition br (k : N) (pg : N) : inode := {| i_flags := 0; i_key := [k]; i_val := []; i_pgid := pg |}.

(** a materialised branch root (page 2) over three leaves; the middle one (page 4) was emptied and is unbalanced:
    the commit removes it from the root, frees its page, then spills the root (free page 2, allocate 1 page) *)
Definition ex1 : nt :=
  NT (mkh true false 2 [1] false) [br 1 3; br 2 4; br 3 5]
     [ NT (mkh false false 3 [1] true) [lf 1 [10]] [];
       NT (mkh true true 4 [2] true) [] [];
       NT (mkh false false 5 [3] true) [lf 3 [30]; lf 4 [40]] [] ].
Example ex1_commit :
  commit_tree 4096 50 10 ex1 [4] =
  Ok (NT (mkh false false 0 [1] false) [br 1 3; br 3 5]
         [ NT (mkh false false 3 [1] true) [lf 1 [10]] [];
           NT (mkh false false 5 [3] true) [lf 3 [30]; lf 4 [40]] [] ],
      [EvFree 4 0; EvFree 2 0; EvAlloc 1]).
Proof. vm_compute. reflexivity. Qed.
Example ex1_wf : wf 1 ex1.
Proof. repeat (constructor; auto). Qed.

(** a materialised leaf root (page 7) with 7 elements of 300 bytes at page size 1024: it splits into 3 leaves
    (2 + 2 + 3 elements) and gets a new branch root; 1 free, 4 allocations *)
Definition ex2 : nt :=
  NT (mkh true false 7 [1] true) (map (fun k => lf k (repeat 0 283)) [1;2;3;4;5;6;7]) [].
Example ex2_elem_size : map (isz true) (ins_of ex2) = repeat 300 7.
Proof. vm_compute. reflexivity. Qed.
Example ex2_commit :
  match commit_tree 1024 50 10 ex2 [7] with
  | Ok (NT h ins kids, evs) => Some (h, ins, map (fun c => (hd_of c, map i_key (ins_of c), kids_of c)) kids, evs)
  | _ => None end =
  Some (mkh false false 0 [1] false, [br 1 0; br 3 0; br 5 0],
        [ (mkh false false 0 [1] true, [[1]; [2]], []);
          (mkh false false 0 [3] true, [[3]; [4]], []);
          (mkh false false 0 [5] true, [[5]; [6]; [7]], []) ],
        [EvFree 7 0; EvAlloc 1; EvAlloc 1; EvAlloc 1; EvAlloc 1]).
Proof. vm_compute. reflexivity. Qed.
Example ex2_flat : match commit_tree 1024 50 10 ex2 [7] with Ok (t', _) => flat t' = flat ex2 | _ => False end.
Proof. vm_compute. reflexivity. Qed.

(** why [wf] has a height index.  This tree has as many kids as inodes at every branch vertex and no kids under leaves,
    but its leaves are at different depths: the unbalanced leaf (page 3) is merged with its right sibling, a BRANCH
    (page 4), under the leaf's header, and the branch inodes of page 4 become "leaf elements": the content changes. *)
Definition merge_cex : nt :=
  NT (mkh true false 2 [1] false) [br 1 3; br 5 4]
     [ NT (mkh true true 3 [1] true) [lf 1 [10]] [];
       NT (mkh false false 4 [5] false) [br 5 6; br 7 8]
          [ NT (mkh false false 6 [5] true) [lf 5 [50]] []; NT (mkh false false 8 [7] true) [lf 7 [70]] [] ] ].
Example merge_needs_balance :
  flat merge_cex = [lf 1 [10]; lf 5 [50]; lf 7 [70]] /\
  match commit_tree 4096 50 10 merge_cex [3] with Ok (t', _) => flat t' | _ => [] end = [lf 1 [10]; br 5 6; br 7 8].
Proof. vm_compute. split; reflexivity. Qed.

(** * P2c: the allocations of the commit are exactly the new pages (pgid 0) of the committed tree, with their sizes *)
Fixpoint zeros (t : nt) : list N :=
  match t with NT h _ kids => (if h_pgid h =? 0 then [h_ov h + 1] else []) ++ flat_map zeros kids end.
Lemma zeros_eq h ins kids : zeros (NT h ins kids) = (if h_pgid h =? 0 then [h_ov h + 1] else []) ++ flat_map zeros kids.
Proof. reflexivity. Qed.

Lemma allpg_zeros t : allpg true t -> zeros t = [].
Proof.
  induction t as [h ins kids IH] using nt_ind'. intros A. inversion A as [? ? ? M P FK]; subst.
  rewrite zeros_eq. destruct (N.eqb_spec (h_pgid h) 0) as [E|_]; [exfalso; now apply P|]. cbn [app].
  clear A M P. induction kids as [|c cr IHk]; [reflexivity|]. cbn [flat_map].
  rewrite (Forall_inv IH (Forall_inv FK)). cbn [app]. apply IHk; [now apply Forall_inv_tail in IH | now apply Forall_inv_tail in FK].
Qed.

Ltac perm_tacN :=
  repeat match goal with H : Permutation _ _ |- _ => rewrite (Permutation_count_occ N.eq_dec) in H end;
  apply (Permutation_count_occ N.eq_dec); let x0 := fresh "x0" in intro x0;
  repeat match goal with H : forall x, count_occ N.eq_dec _ x = count_occ N.eq_dec _ x |- _ => specialize (H x0) end;
  repeat rewrite ?flat_map_app, ?count_occ_app in *; cbn [flat_map count_occ] in *;
  repeat rewrite ?flat_map_app, ?count_occ_app in *; cbn [flat_map count_occ] in *; try lia.

Lemma rip_allocs ps fill p i p' evs cont : rebalance_in_parent ps fill p i = Ok (p', evs, cont) -> allocs evs = [].
Proof.
  intros H. destruct p as [ph pins pkids].
  destruct (rip_shape _ _ _ _ _ _ _ _ _ H) as [(_ & -> & _)|[(a & n & b & _ & _ & _ & _ & -> & _)|
    [(a & n & b & _ & _ & _ & _ & _ & _ & -> & _)|(a0 & n & b0 & a & l0 & r0 & b & _ & _ & _ & _ & _ & _ & -> & _)]]];
  auto using allocs_free_ev.
Qed.

Lemma rebalance_root_allocs ps fill t t' evs : rebalance_root ps fill t = (t', evs) -> allocs evs = [].
Proof.
  intros H. unfold rebalance_root in H.
  destruct (negb (h_unbal (hd_of t))). { now inversion H. }
  destruct (big_enough _ ps fill). { now inversion H. }
  destruct t as [h ins kids]. cbn [set_unbal] in *. cbn [h_leaf] in H.
  destruct (h_leaf h); [now inversion H|].
  destruct ins as [|x [|x2 xs]]; [now inversion H| |now inversion H].
  destruct kids as [|c0 [|c1 cs]]; [now inversion H| |now inversion H].
  inversion H. apply allocs_free_ev.
Qed.

Lemma rebalance_at_allocs ps fill : forall fuel t path t' evs, rebalance_at ps fill fuel t path = Ok (t', evs) -> allocs evs = [].
Proof.
  induction fuel as [|f IH]; intros t path t' evs H; [discriminate|].
  cbn [rebalance_at] in H. destruct path as [|i0 r0].
  - apply Ok_inj in H. eapply rebalance_root_allocs; eauto.
  - set (path := i0 :: r0) in *. clearbody path.
    destruct (get_at t (removelast path)) as [p|] eqn:G; [|discriminate].
    destruct (rebalance_in_parent ps fill p (last path 0%nat)) as [[[p' e] c]| |] eqn:R; try discriminate.
    cbn [bindr] in H. pose proof (rip_allocs _ _ _ _ _ _ _ R) as E.
    destruct c.
    + destruct (rebalance_at ps fill f _ _) as [[t2 e2]| |] eqn:R2; try discriminate. cbn [bindr fst snd] in H.
      apply Ok_inj2 in H. destruct H as [_ <-]. rewrite allocs_app, E. cbn. eauto.
    + apply Ok_inj2 in H. destruct H as [_ <-]. exact E.
Qed.

Lemma rebalance_all_allocs ps fill fuel : forall order t t' evs, rebalance_all ps fill fuel t order = Ok (t', evs) -> allocs evs = [].
Proof.
  induction order as [|pg rest IH]; intros t t' evs H; cbn [rebalance_all] in H.
  - apply Ok_inj2 in H. destruct H as [_ <-]. reflexivity.
  - destruct (find_node fuel t pg) as [path|]; [|eauto].
    destruct (rebalance_at ps fill fuel t path) as [[t1 e1]| |] eqn:R; try discriminate. cbn [bindr fst snd] in H.
    destruct (rebalance_all ps fill fuel t1 rest) as [[t2 e2]| |] eqn:R2; try discriminate. cbn [bindr fst snd] in H.
    apply Ok_inj2 in H. destruct H as [_ <-]. rewrite allocs_app, (rebalance_at_allocs _ _ _ _ _ _ _ R). cbn. eauto.
Qed.

Lemma pages_needed_pos leaf ps l : 0 < ps -> pages_needed leaf ps l - 1 + 1 = pages_needed leaf ps l.
Proof.
  intros Hps. assert (1 <= pages_needed leaf ps l); [|lia].
  unfold pages_needed. apply N.div_le_lower_bound; [lia|].
  pose proof (size_fold_ge leaf l page_header_size) as Hs. unfold size_of. unfold page_header_size in *. lia.
Qed.

Lemma mk_pieces_zeros ps leaf : 0 < ps -> forall pieces kidss, length pieces = length kidss ->
  Permutation (flat_map zeros (map (mk_piece ps leaf) (combine pieces kidss)))
              (map (pages_needed leaf ps) pieces ++ flat_map zeros (concat kidss)).
Proof.
  intros Hps. induction pieces as [|p r IH]; intros [|k ks] L; cbn [length] in L; try discriminate; [reflexivity|].
  cbn [combine map flat_map concat]. assert (L' : length r = length ks) by lia. pose proof (IH ks L') as HP.
  unfold mk_piece at 1. cbn [fst snd]. rewrite zeros_eq. cbn [page_hdr h_pgid h_ov N.eqb]. rewrite pages_needed_pos by auto.
  change (pages_needed leaf ps p :: map (pages_needed leaf ps) r) with ([pages_needed leaf ps p] ++ map (pages_needed leaf ps) r).
  perm_tacN.
Qed.

Lemma allocs_self {A} (f : A -> N) a l : allocs a = [] -> allocs (a ++ map (fun p => EvAlloc (f p)) l) = map f l.
Proof. intros E. rewrite allocs_app, E. cbn. induction l; cbn; congruence. Qed.

Lemma spill_self_allocs ps fill h ins kids d pcs evs : 0 < ps ->
  wf d (NT h ins kids) -> spill_self ps fill h ins kids = Ok (pcs, evs) ->
  Permutation (allocs evs ++ flat_map zeros kids) (flat_map zeros pcs).
Proof.
  intros Hps W H. unfold spill_self in H.
  destruct (split _ ps fill) as [pieces| |] eqn:Sp; try discriminate. cbn [bindr] in H.
  apply Ok_inj2 in H. destruct H as [<- <-].
  pose proof (split_concat _ _ _ _ Sp) as C. cbn [n_inodes] in C.
  rewrite allocs_self by (now destruct (h_pgid h =? 0)).
  fold (mk_piece ps (h_leaf h)).
  inversion W as [? ? Hl|d0 ? ? ? Hl Hlen Hk]; subst; rewrite Hl.
  - pose proof (mk_pieces_zeros ps true Hps pieces (map (fun _ => []) pieces)) as HP. rewrite map_length in HP. specialize (HP eq_refl).
    rewrite concat_map_nil in HP. cbn [flat_map] in *. symmetry. exact HP.
  - destruct (cut_like_spec pieces kids Hlen) as [CC F2].
    pose proof (mk_pieces_zeros ps false Hps pieces _ (Forall2_length' _ _ _ F2)) as HP. rewrite CC in HP. symmetry. exact HP.
Qed.

Definition spill_allocs_post (r : list nt * list ev) : Prop := Permutation (allocs (snd r)) (flat_map zeros (fst r)).

Lemma spill_go_allocs leaf sp d : forall ins kids ins' kids' evs,
  Forall (wf d) kids -> Forall (closed true) kids ->
  (forall c r, In c kids -> wf d c -> closed true c -> sp c = Ok r -> spill_allocs_post r) ->
  spill_go leaf sp ins kids = Ok (ins', kids', evs) -> Permutation (allocs evs) (flat_map zeros kids').
Proof.
  induction ins as [|i ir IH]; intros [|c cr] ins' kids' evs F FC Hsp H.
  - cbn in H. inversion H; subst. reflexivity.
  - discriminate.
  - apply spill_go_nokids in H. inversion H; subst. reflexivity.
  - cbn [spill_go] in H.
    destruct (spill_go leaf sp ir cr) as [[[ri rk] re]| |] eqn:G; try discriminate. cbn [bindr] in H.
    pose proof (Forall_inv F) as Wc. pose proof (Forall_inv_tail F) as Fr.
    pose proof (Forall_inv FC) as Cc. pose proof (Forall_inv_tail FC) as FCr.
    assert (HP : Permutation (allocs re) (flat_map zeros rk)).
    { apply (IH cr ri rk re); auto. intros c0 r0 Hin. apply (Hsp c0 r0). now right. }
    destruct (h_mat (hd_of c)) eqn:M.
    + destruct (ins_of c); [discriminate|].
      destruct (sp c) as [cp| |] eqn:Sc; try discriminate. cbn [bindr] in H.
      apply Ok_inj3 in H. destruct H as (_ & <- & <-).
      pose proof (Hsp c cp (or_introl eq_refl) Wc Cc Sc) as HP2. unfold spill_allocs_post in HP2.
      rewrite allocs_app. perm_tacN.
    + apply Ok_inj3 in H. destruct H as (_ & <- & <-). cbn [flat_map].
      rewrite (allpg_zeros c (closed_nonmat _ _ Cc M)). exact HP.
Qed.

Lemma spill_allocs ps fill : 0 < ps -> forall fuel t d r, wf d t -> closed true t -> spill ps fill fuel t = Ok r -> spill_allocs_post r.
Proof.
  intros Hps. induction fuel as [|f IH]; intros t d r W C H; [discriminate|].
  destruct t as [h ins kids]. rewrite spill_unfold in H.
  destruct (h_mat h) eqn:M; cbn [negb] in H.
  2:{ apply Ok_inj in H. subst r. unfold spill_allocs_post. cbn [fst snd allocs flat_map].
      rewrite (allpg_zeros _ (closed_nonmat _ _ C M)). reflexivity. }
  destruct (spill_go _ _ ins kids) as [[[ins' kids'] evs]| |] eqn:G; try discriminate. cbn [bindr] in H.
  destruct (spill_self ps fill h ins' kids') as [[pcs e2]| |] eqn:Sp; try discriminate. cbn [bindr fst snd] in H.
  apply Ok_inj in H. subst r. unfold spill_allocs_post. cbn [fst snd]. rewrite allocs_app.
  pose proof (closed_kids _ _ C) as K. cbn in K.
  inversion W as [? ? Hl|d0 ? ? ? Hl Hlen Hk]; subst.
  - apply spill_go_nokids in G. inversion G; subst.
    pose proof (spill_self_allocs _ _ _ _ _ _ _ _ Hps W Sp) as HP. cbn [flat_map allocs app] in *. now rewrite app_nil_r in HP.
  - destruct (spill_go_ok _ _ d0 _ _ _ _ _ Hlen Hk (fun c r _ Wc Hc => spill_ok ps fill f c d0 r Wc Hc) G) as (L1 & F1 & E1).
    pose proof (spill_go_allocs _ _ d0 _ _ _ _ _ Hk K (fun c r _ Wc Cc Hc => IH c d0 r Wc Cc Hc) G) as HP.
    assert (W' : wf (S d0) (NT h ins' kids')) by (constructor; auto).
    pose proof (spill_self_allocs _ _ _ _ _ _ _ _ Hps W' Sp) as HP2. perm_tacN.
Qed.

Lemma spill_up_allocs ps fill : 0 < ps -> forall fuel pcs evs d t' evs', Forall (wf d) pcs ->
  Permutation (allocs evs) (flat_map zeros pcs) ->
  spill_up ps fill fuel pcs evs = Ok (t', evs') -> Permutation (allocs evs') (zeros t').
Proof.
  intros Hps. induction fuel as [|f IH]; intros pcs evs d t' evs' F HP H; [discriminate|].
  cbn [spill_up] in H. destruct pcs as [|p1 [|p2 rest]]; [discriminate| |].
  - apply Ok_inj2 in H. destruct H as [<- <-]. cbn [flat_map] in HP. now rewrite app_nil_r in HP.
  - set (pcs := p1 :: p2 :: rest) in *. clearbody pcs.
    match type of H with context [spill_self ps fill ?h ?i ?k] => destruct (spill_self ps fill h i k) as [[pcs2 e2]| |] eqn:Sp; try discriminate;
      assert (W : wf (S d) (NT h i k)) by (constructor; auto; now rewrite map_length) end.
    cbn [bindr fst snd] in H. destruct (spill_self_ok _ _ _ _ _ _ _ _ W Sp) as [F2 E2].
    pose proof (spill_self_allocs _ _ _ _ _ _ _ _ Hps W Sp) as HP2.
    eapply (IH _ _ _ _ _ F2); [|eauto]. rewrite allocs_app. perm_tacN.
Qed.

(** P2 (c).  Hypotheses beyond P1's: the page size is not 0 (otherwise pages_needed = 0 and h_ov + 1 = 1), and
    [closed true t]: materialised vertices are closed under taking the parent and every PAGE of t has a page id <> 0
    (a page with id 0 that nobody spills would be counted as "new" without an allocation). *)
Theorem commit_tree_allocs ps fill fuel t order t' evs :
  0 < ps -> aligned t -> closed true t -> commit_tree ps fill fuel t order = Ok (t', evs) ->
  Permutation (allocs evs) (zeros t').
Proof.
  intros Hps [d W] C H. unfold commit_tree in H.
  destruct (rebalance_all ps fill fuel t order) as [[t1 e1]| |] eqn:R; try discriminate. cbn [bindr fst snd] in H.
  destruct (spill_root ps fill fuel t1) as [[t2 e2]| |] eqn:Sp; try discriminate. cbn [bindr fst snd] in H.
  apply Ok_inj2 in H. destruct H as [<- <-].
  destruct (rebalance_all_ok _ _ _ _ _ _ _ _ W R) as [[d1 W1] F1].
  pose proof (rebalance_all_closed _ _ _ _ _ _ _ _ C R) as C1.
  rewrite allocs_app, (rebalance_all_allocs _ _ _ _ _ _ _ R). cbn [app].
  unfold spill_root in Sp. destruct (h_mat (hd_of t1)) eqn:M; cbn [negb] in Sp.
  2:{ apply Ok_inj2 in Sp. destruct Sp as [<- <-]. rewrite (allpg_zeros _ (closed_nonmat _ _ C1 M)). reflexivity. }
  destruct (spill ps fill fuel t1) as [r| |] eqn:S1; try discriminate. cbn [bindr] in Sp.
  destruct (spill_ok _ _ _ _ _ _ W1 S1) as [F E].
  eapply (spill_up_allocs _ _ Hps); [exact F | | exact Sp]. eapply spill_allocs; eauto.
Qed.
Print Assumptions commit_tree_allocs.

(** the number of allocations = the number of new pages *)
Corollary commit_tree_alloc_count ps fill fuel t order t' evs :
  0 < ps -> aligned t -> closed true t -> commit_tree ps fill fuel t order = Ok (t', evs) ->
  length (allocs evs) = length (zeros t').
Proof. intros. eapply Permutation_length. eapply commit_tree_allocs; eauto. Qed.

(** P4 (no empty page survives) is proved at the end of this file: [commit_tree_no_empty]. *)

(** * Q1/Q2: commit_bucket (rebalance, then EITHER inline + free everything OR spill) *)
Definition inline_hdr : nhdr := {| h_mat := false; h_unbal := false; h_pgid := 0; h_ov := 0; h_key := []; h_leaf := true |}.

Lemma commit_bucket_cases ps fill fuel t order t' evs inl :
  commit_bucket ps fill fuel t order = Ok (t', evs, inl) ->
  (h_mat (hd_of t) = false /\ t' = t /\ evs = [] /\ inl = (h_pgid (hd_of t) =? 0)) \/
  (h_mat (hd_of t) = true /\ exists r e1, rebalance_all ps fill fuel t order = Ok (r, e1) /\
     ((inlineable ps r = true /\ inl = true /\ t' = NT inline_hdr (ins_of r) [] /\
       evs = e1 ++ (if h_pgid (hd_of r) =? 0 then [] else free_all fuel r)) \/
      (inlineable ps r = false /\ inl = false /\ exists e2, spill_root ps fill fuel r = Ok (t', e2) /\ evs = e1 ++ e2))).
Proof.
  intros H. unfold commit_bucket in H. destruct (h_mat (hd_of t)) eqn:M; cbn [negb] in H.
  2:{ left. apply Ok_inj3 in H. destruct H as (<- & <- & <-). auto. }
  right. split; auto. destruct (rebalance_all ps fill fuel t order) as [[r e1]| |] eqn:R; try discriminate. cbn [bindr fst snd] in H.
  exists r, e1. split; auto. destruct (inlineable ps r) eqn:I.
  - left. apply Ok_inj3 in H. destruct H as (<- & <- & <-). auto.
  - right. destruct (spill_root ps fill fuel r) as [[t2 e2]| |] eqn:Sp; try discriminate. cbn [bindr fst snd] in H.
    apply Ok_inj3 in H. destruct H as (<- & <- & <-). eauto 6.
Qed.

Lemma inlineable_leaf ps r : inlineable ps r = true -> h_mat (hd_of r) = true /\ h_leaf (hd_of r) = true.
Proof. unfold inlineable. intros H. apply andb_true_iff in H. destruct H as [H _]. now apply andb_true_iff in H. Qed.

Lemma wf_leaf_inv d r : wf d r -> h_leaf (hd_of r) = true -> d = 0%nat /\ kids_of r = [] /\ flat r = ins_of r.
Proof. intros W L. inversion W; subst; cbn in *; [|congruence]. rewrite H. auto. Qed.

(** Q1 *)
Theorem commit_bucket_flat ps fill fuel t order t' evs inl :
  aligned t -> commit_bucket ps fill fuel t order = Ok (t', evs, inl) -> flat t' = flat t /\ aligned t'.
Proof.
  intros [d W] H. destruct (commit_bucket_cases _ _ _ _ _ _ _ _ H) as [(_ & -> & _)|(M & r & e1 & R & [(I & _ & -> & _)|(_ & _ & e2 & Sp & _)])].
  - split; [auto | exists d; auto].
  - destruct (rebalance_all_ok _ _ _ _ _ _ _ _ W R) as [[d1 W1] F1].
    destruct (inlineable_leaf _ _ I) as [_ L]. destruct (wf_leaf_inv _ _ W1 L) as (_ & _ & E).
    split; [cbn; congruence | exists 0%nat; now constructor].
  - destruct (rebalance_all_ok _ _ _ _ _ _ _ _ W R) as [[d1 W1] F1].
    destruct (spill_root_ok _ _ _ _ _ _ _ W1 Sp) as [A2 F2]. split; [congruence | auto].
Qed.
Print Assumptions commit_bucket_flat.

(** when the root is materialised, inl = true means: one unpaged leaf (pgid 0, no kids, not materialised).
    (When the root is NOT materialised the bucket is not written: t' = t and inl only reports whether its pgid is 0.) *)
Theorem commit_bucket_inline ps fill fuel t order t' evs :
  h_mat (hd_of t) = true -> commit_bucket ps fill fuel t order = Ok (t', evs, true) ->
  exists ins, t' = NT inline_hdr ins [] /\ runs t' = [] /\ allpg false t'.
Proof.
  intros M H. destruct (commit_bucket_cases _ _ _ _ _ _ _ _ H) as [(M' & _)|(_ & r & e1 & R & [(I & _ & -> & _)|(_ & ? & _)])]; try congruence.
  eexists. split; [reflexivity|]. split; [reflexivity|]. constructor; auto. intros E; discriminate.
Qed.

Lemma free_all_runs : forall fuel t d, wf d t -> (d < fuel)%nat -> freed (free_all fuel t) = runs t.
Proof.
  induction fuel as [|f IH]; intros t d W L; [lia|]. cbn [free_all]. rewrite freed_app, freed_free_ev, runs_hd_kids. f_equal.
  inversion W as [? ? Hl|d0 ? ? ? Hl Hlen Hk]; subst; cbn [kids_of]; [reflexivity|].
  assert (Hk' : Forall (fun c => freed (free_all f c) = runs c) kids).
  { eapply Forall_impl; [|exact Hk]. intros c Wc. apply (IH c d0); [auto | lia]. }
  clear -Hk'. induction Hk' as [|c l E _ IHl]; cbn [flat_map]; [reflexivity|]. now rewrite freed_app, E, IHl.
Qed.

(** Q2.  Fuel condition: 0 < fuel (the inlined tree is a single leaf, height 0; [free_all 0] frees nothing, and
    [rebalance_all 0] can still answer Ok because [find_node 0] finds nothing). *)
Theorem commit_bucket_runs ps fill fuel t order t' evs inl :
  (0 < fuel)%nat -> aligned t -> commit_bucket ps fill fuel t order = Ok (t', evs, inl) ->
  Permutation (runs t) (freed evs ++ runs t').
Proof.
  intros Hf [d W] H. destruct (commit_bucket_cases _ _ _ _ _ _ _ _ H) as [(_ & -> & -> & _)|(M & r & e1 & R & [(I & _ & -> & ->)|(_ & _ & e2 & Sp & ->)])].
  - reflexivity.
  - destruct (rebalance_all_ok _ _ _ _ _ _ _ _ W R) as [[d1 W1] F1].
    pose proof (rebalance_all_runs _ _ _ _ _ _ _ _ W R) as HP1.
    destruct (inlineable_leaf _ _ I) as [_ L]. destruct (wf_leaf_inv _ _ W1 L) as (-> & K & _).
    assert (E : freed (if h_pgid (hd_of r) =? 0 then [] else free_all fuel r) = runs r).
    { destruct (h_pgid (hd_of r) =? 0) eqn:Z; [|apply (free_all_runs fuel r 0%nat W1 Hf)].
      rewrite runs_hd_kids, K. unfold ownh. now rewrite Z. }
    rewrite freed_app, E. change (runs (NT inline_hdr (ins_of r) [])) with (@nil (N * N)). rewrite !app_nil_r. exact HP1.
  - destruct (rebalance_all_ok _ _ _ _ _ _ _ _ W R) as [[d1 W1] F1].
    pose proof (rebalance_all_runs _ _ _ _ _ _ _ _ W R) as HP1.
    pose proof (spill_root_runs _ _ _ _ _ _ _ W1 Sp) as HP2. rewrite freed_app. perm_tac.
Qed.
Print Assumptions commit_bucket_runs.

Theorem commit_bucket_frees ps fill fuel t order t' evs inl :
  (0 < fuel)%nat -> aligned t -> NoDup (ids t) -> commit_bucket ps fill fuel t order = Ok (t', evs, inl) ->
  (forall p ov, In (EvFree p ov) evs -> In (p, ov) (runs t)) /\
  NoDup (map fst (freed evs)) /\
  NoDup (ids t') /\
  (forall x, In x (ids t') <-> In x (ids t) /\ ~ In x (map fst (freed evs))).
Proof.
  intros Hf A ND H. pose proof (commit_bucket_runs _ _ _ _ _ _ _ _ Hf A H) as HP.
  pose proof (Permutation_map fst HP) as HM. rewrite map_app in HM. fold (ids t) in HM. fold (ids t') in HM.
  pose proof (Permutation_NoDup HM ND) as ND2.
  split; [|split; [|split]].
  - intros p ov Hin. apply In_freed in Hin. eapply Permutation_in; [symmetry; exact HP | apply in_or_app; auto].
  - apply (nodup_app_inv _ _ ND2).
  - apply (nodup_app_inv _ _ ND2).
  - intros x. split.
    + intros Hx. split; [eapply Permutation_in; [symmetry; exact HM | apply in_or_app; auto]|].
      intros Hfr. revert ND2 Hfr Hx. generalize (map fst (freed evs)) (ids t'). clear.
      induction l as [|y l IH]; intros l' ND Hfr Hx; [destruct Hfr|]. cbn in ND. inversion ND; subst.
      destruct Hfr as [->|Hfr]; [apply H1; apply in_or_app; auto | eauto].
    + intros [Hx Hn]. apply (Permutation_in _ HM) in Hx. apply in_app_or in Hx. tauto.
Qed.
Print Assumptions commit_bucket_frees.

(** * Q3 (P4): no empty page survives *)
(** [okv rest c]: if c has no inodes then it is a materialised, unbalanced node with a non-zero page id that is still
    to be visited ([rest]).  [allgood rest c]: that holds for c and everything below.  [good rest t]: for every NON-ROOT
    vertex of t.  [good [] t] = no non-root vertex of t is empty. *)
Definition okv (rest : list N) (c : nt) : Prop :=
  ins_of c = [] -> h_mat (hd_of c) = true /\ h_unbal (hd_of c) = true /\ h_pgid (hd_of c) <> 0 /\ In (h_pgid (hd_of c)) rest.
Inductive allgood (rest : list N) : nt -> Prop :=
| ag_i c : okv rest c -> Forall (allgood rest) (kids_of c) -> allgood rest c.
Definition good (rest : list N) (t : nt) : Prop := Forall (allgood rest) (kids_of t).

Lemma ag_okv rest c : allgood rest c -> okv rest c.
Proof. now inversion 1. Qed.
Lemma ag_kids rest c : allgood rest c -> Forall (allgood rest) (kids_of c).
Proof. now inversion 1. Qed.
Lemma ag_nil_ne c : allgood [] c -> ins_of c <> [].
Proof. intros A E. destruct (ag_okv _ _ A E) as (_ & _ & _ & []). Qed.
Lemma ag_nonempty rest c : ins_of c <> [] -> Forall (allgood rest) (kids_of c) -> allgood rest c.
Proof. intros Ne K. constructor; auto. intros E. contradiction. Qed.

(** ** (a) spill keeps "no non-root vertex is empty" *)
Lemma spill_self_ne ps fill h ins kids d pcs evs :
  wf d (NT h ins kids) -> ins <> [] -> Forall (allgood []) kids -> spill_self ps fill h ins kids = Ok (pcs, evs) ->
  Forall (allgood []) pcs /\ pcs <> [].
Proof.
  intros W Ne K H. unfold spill_self in H.
  destruct (split _ ps fill) as [pieces| |] eqn:Sp; try discriminate. cbn [bindr] in H.
  apply Ok_inj2 in H. destruct H as [<- _].
  pose proof (split_concat _ _ _ _ Sp) as C. cbn [n_inodes] in C.
  pose proof (split_nonempty _ _ _ _ Sp Ne) as PN. cbn [n_inodes] in PN.
  assert (KK : Forall (Forall (allgood [])) (if h_leaf h then map (fun _ => []) pieces else cut_like pieces kids)).
  { destruct (h_leaf h); [|now apply cut_like_Forall]. clear. induction pieces; cbn; constructor; auto. }
  assert (LL : length pieces = length (if h_leaf h then map (fun _ => @nil nt) pieces else cut_like pieces kids)).
  { inversion W as [? ? Hl|d0 ? ? ? Hl Hlen Hk]; subst; rewrite Hl; [now rewrite map_length|].
    destruct (cut_like_spec pieces kids Hlen) as [_ F2]. eapply Forall2_length'; eauto. }
  revert KK LL. generalize (if h_leaf h then map (fun _ : list inode => @nil nt) pieces else cut_like pieces kids). intros kidss KK LL.
  split.
  - apply Forall_forall. intros x Hx. apply in_map_iff in Hx. destruct Hx as ([p k] & <- & Hin). cbn [fst snd].
    pose proof (in_combine_l _ _ _ _ Hin) as Hp. apply in_combine_r in Hin. rewrite Forall_forall in KK, PN.
    apply ag_nonempty; cbn [ins_of kids_of]; auto.
  - destruct pieces as [|p0 pr]; [cbn in C; congruence|]. destruct kidss; [discriminate|]. discriminate.
Qed.

Definition spill_ne_post (r : list nt * list ev) : Prop := Forall (allgood []) (fst r) /\ fst r <> [].

Lemma spill_go_ne leaf sp d : forall ins kids ins' kids' evs,
  Forall (wf d) kids -> Forall (allgood []) kids ->
  (forall c r, In c kids -> wf d c -> allgood [] c -> sp c = Ok r -> spill_ne_post r) ->
  spill_go leaf sp ins kids = Ok (ins', kids', evs) ->
  Forall (allgood []) kids' /\ (ins <> [] -> ins' <> []).
Proof.
  induction ins as [|i ir IH]; intros [|c cr] ins' kids' evs F FA Hsp H.
  - cbn in H. inversion H; subst. auto.
  - discriminate.
  - apply spill_go_nokids in H. inversion H; subst. auto.
  - cbn [spill_go] in H.
    destruct (spill_go leaf sp ir cr) as [[[ri rk] re]| |] eqn:G; try discriminate. cbn [bindr] in H.
    pose proof (Forall_inv F) as Wc. pose proof (Forall_inv_tail F) as Fr.
    pose proof (Forall_inv FA) as Ac. pose proof (Forall_inv_tail FA) as FAr.
    assert (Hr : Forall (allgood []) rk).
    { apply (IH cr ri rk re); auto. intros c0 r0 Hin. apply (Hsp c0 r0). now right. }
    destruct (h_mat (hd_of c)) eqn:M.
    + destruct (ins_of c); [discriminate|].
      destruct (sp c) as [cp| |] eqn:Sc; try discriminate. cbn [bindr] in H.
      apply Ok_inj3 in H. destruct H as (<- & <- & _).
      destruct (Hsp c cp (or_introl eq_refl) Wc Ac Sc) as [Fp Np]. split; [apply Forall_app; auto|].
      intros _. destruct (fst cp); [congruence | discriminate].
    + apply Ok_inj3 in H. destruct H as (<- & <- & _). split; [constructor; auto | discriminate].
Qed.

Lemma spill_ne ps fill : forall fuel t d r, wf d t -> allgood [] t -> spill ps fill fuel t = Ok r -> spill_ne_post r.
Proof.
  induction fuel as [|f IH]; intros t d r W A H; [discriminate|].
  pose proof (ag_nil_ne _ A) as Ne. pose proof (ag_kids _ _ A) as K.
  destruct t as [h ins kids]. cbn [ins_of kids_of] in *. rewrite spill_unfold in H.
  destruct (negb (h_mat h)).
  { apply Ok_inj in H. subst r. split; cbn [fst]; [constructor; auto | discriminate]. }
  destruct (spill_go _ _ ins kids) as [[[ins' kids'] evs]| |] eqn:G; try discriminate. cbn [bindr] in H.
  destruct (spill_self ps fill h ins' kids') as [[pcs e2]| |] eqn:Sp; try discriminate. cbn [bindr fst snd] in H.
  apply Ok_inj in H. subst r. unfold spill_ne_post. cbn [fst].
  inversion W as [? ? Hl|d0 ? ? ? Hl Hlen Hk]; subst.
  - apply spill_go_nokids in G. inversion G; subst. eapply spill_self_ne; eauto.
  - destruct (spill_go_ok _ _ d0 _ _ _ _ _ Hlen Hk (fun c r _ Wc Hc => spill_ok ps fill f c d0 r Wc Hc) G) as (L1 & F1 & E1).
    destruct (spill_go_ne _ _ d0 _ _ _ _ _ Hk K (fun c r _ Wc Ac Hc => IH c d0 r Wc Ac Hc) G) as [K' Ne'].
    assert (W' : wf (S d0) (NT h ins' kids')) by (constructor; auto).
    eapply spill_self_ne; eauto.
Qed.

Lemma spill_up_ne ps fill : forall fuel pcs evs d t' evs', Forall (wf d) pcs -> Forall (allgood []) pcs ->
  spill_up ps fill fuel pcs evs = Ok (t', evs') -> allgood [] t'.
Proof.
  induction fuel as [|f IH]; intros pcs evs d t' evs' F FA H; [discriminate|].
  cbn [spill_up] in H. destruct pcs as [|p1 [|p2 rest]]; [discriminate| |].
  - apply Ok_inj2 in H. destruct H as [<- _]. now inversion FA.
  - set (pcs := p1 :: p2 :: rest) in *.
    match type of H with context [spill_self ps fill ?h ?i ?k] => destruct (spill_self ps fill h i k) as [[pcs2 e2]| |] eqn:Sp; try discriminate;
      assert (W : wf (S d) (NT h i k)) by (constructor; auto; now rewrite map_length) end.
    cbn [bindr fst snd] in H. destruct (spill_self_ok _ _ _ _ _ _ _ _ W Sp) as [F2 E2].
    destruct (spill_self_ne _ _ _ _ _ _ _ _ W ltac:(unfold pcs; discriminate) FA Sp) as [FA2 _].
    eapply IH; eauto.
Qed.

Theorem spill_root_ne ps fill fuel t d t' evs :
  wf d t -> good [] t -> spill_root ps fill fuel t = Ok (t', evs) -> good [] t'.
Proof.
  intros W G H. unfold spill_root in H. destruct (negb (h_mat (hd_of t))).
  { apply Ok_inj2 in H. destruct H as [<- _]. auto. }
  destruct (spill ps fill fuel t) as [r| |] eqn:Sp; try discriminate. cbn [bindr] in H.
  destruct (spill_ok _ _ _ _ _ _ W Sp) as [F E].
  destruct (ins_of t) as [|x xs] eqn:Ei.
  - (* an empty root: it stays one (empty) vertex *)
    destruct (wf_empty _ _ W Ei) as [K _]. destruct t as [h ins kids]. cbn in Ei, K. subst ins kids.
    destruct fuel as [|f]; [discriminate|]. rewrite spill_unfold in Sp.
    destruct (negb (h_mat h)).
    { apply Ok_inj in Sp. subst r. cbn in H. apply Ok_inj2 in H. destruct H as [<- _]. constructor. }
    cbn [spill_go bindr] in Sp. unfold spill_self in Sp.
    rewrite (split_small _ ps fill) in Sp by (cbn; lia). cbn [bindr n_inodes] in Sp.
    assert (exists p, fst r = [NT (page_hdr ps (h_leaf h) []) [] p] /\ p = []) as (p & Er & ->).
    { destruct (h_leaf h); cbn in Sp; apply Ok_inj in Sp; subst r; cbn; eauto. }
    rewrite Er in H. cbn [spill_up] in H. apply Ok_inj2 in H. destruct H as [<- _]. constructor.
  - assert (A : allgood [] t) by (apply ag_nonempty; [rewrite Ei; discriminate | exact G]).
    destruct (spill_ne _ _ _ _ _ _ W A Sp) as [FA _].
    apply ag_kids. eapply spill_up_ne; eauto.
Qed.

(** ** (b) one rebalance_at *)
(** [ctx rest path t Q]: the subtrees hanging off [path] (the siblings of the path vertices) are all good, and the
    subtree at [path] satisfies Q *)
Fixpoint ctx (rest : list N) (path : list nat) (t : nt) (Q : nt -> Prop) : Prop :=
  match path with
  | [] => Q t
  | j :: r => exists a c b, kids_of t = a ++ c :: b /\ length a = j /\ Forall (allgood rest) (a ++ b) /\ ctx rest r c Q
  end.

Lemma nth_error_mid {A} (a : list A) x b : nth_error (a ++ x :: b) (length a) = Some x.
Proof. induction a; cbn; auto. Qed.
Lemma app_mid_inj {A} : forall (a a' : list A) x x' b b', a ++ x :: b = a' ++ x' :: b' -> length a = length a' ->
  a = a' /\ x = x' /\ b = b'.
Proof.
  induction a as [|y a IH]; intros [|y' a'] x x' b b' E L; cbn in *; try discriminate.
  - inversion E; auto.
  - inversion E; subst. destruct (IH a' x x' b b' H1) as (-> & -> & ->); auto.
Qed.

Lemma ctx_get rest : forall path t Q, ctx rest path t Q -> exists s, get_at t path = Some s /\ Q s.
Proof.
  induction path as [|j r IH]; intros t Q C; cbn in *; [eauto|].
  destruct C as (a & c & b & -> & <- & _ & C). rewrite nth_error_mid. auto.
Qed.
Lemma ctx_set rest : forall path t Q (Q' : nt -> Prop) s', ctx rest path t Q -> Q' s' -> ctx rest path (set_at t path s') Q'.
Proof.
  induction path as [|j r IH]; intros t Q Q' s' C HQ; cbn [ctx set_at] in *; [auto|].
  destruct C as (a & c & b & E & <- & F & C). destruct t as [h ins kids]. cbn [kids_of] in *. subst kids.
  rewrite nth_error_mid, replace_nth_app. cbn [kids_of]. exists a, (set_at c r s'), b. eauto.
Qed.
Lemma ctx_snoc rest : forall path t Q, path <> [] -> ctx rest path t Q ->
  ctx rest (removelast path) t (fun p => exists a u b, kids_of p = a ++ u :: b /\ length a = last path 0%nat /\
                                          Forall (allgood rest) (a ++ b) /\ Q u).
Proof.
  induction path as [|j r IH]; intros t Q Ne C; [congruence|].
  destruct r as [|j2 r2].
  - cbn in *. destruct C as (a & c & b & E & L & F & C). exists a, c, b. auto.
  - change (removelast (j :: j2 :: r2)) with (j :: removelast (j2 :: r2)).
    change (last (j :: j2 :: r2) 0%nat) with (last (j2 :: r2) 0%nat).
    cbn [ctx] in C |- *. destruct C as (a & c & b & E & L & F & C). exists a, c, b. repeat split; auto.
    apply IH; [discriminate | exact C].
Qed.

Lemma get_at_snoc : forall path t, path <> [] ->
  get_at t path = match get_at t (removelast path) with Some p => nth_error (kids_of p) (last path 0%nat) | None => None end.
Proof.
  induction path as [|j r IH]; intros t Ne; [congruence|].
  destruct r as [|j2 r2].
  - cbn. destruct (nth_error (kids_of t) j); auto.
  - change (removelast (j :: j2 :: r2)) with (j :: removelast (j2 :: r2)).
    change (last (j :: j2 :: r2) 0%nat) with (last (j2 :: r2) 0%nat).
    cbn [get_at]. destruct (nth_error (kids_of t) j); auto. apply IH. discriminate.
Qed.
Lemma get_set_same : forall path t p x, get_at t path = Some p -> get_at (set_at t path x) path = Some x.
Proof.
  induction path as [|j r IH]; intros t p x G; cbn in *; [auto|].
  destruct t as [h ins kids]. cbn [kids_of] in *. destruct (nth_error kids j) as [c|] eqn:Ec; [|discriminate].
  cbn [kids_of]. erewrite nth_error_replace_same; eauto.
Qed.

Lemma ctx_ag rest : forall path c d, wf d c -> ctx rest path c (fun s => Forall (allgood rest) (kids_of s) /\ ins_of s <> []) -> allgood rest c.
Proof.
  induction path as [|j r IH]; intros c d W C; cbn [ctx] in C.
  - destruct C. now apply ag_nonempty.
  - destruct C as (a & c' & b & E & L & F & C).
    inversion W as [? ? Hl|d0 ? ? ? Hl Hlen Hk]; subst; cbn [kids_of ins_of] in *; subst. { destruct a; discriminate. }
    apply ag_nonempty; cbn [kids_of ins_of].
    + intros E0. subst ins. rewrite app_length in Hlen. cbn in Hlen. lia.
    + apply Forall_app in F. destruct F as [Fa Fb]. apply Forall_app. split; auto. constructor; auto.
      apply (IH c' d0); auto. apply Forall_app in Hk. destruct Hk as [_ Hk]. now apply Forall_inv in Hk.
Qed.
Lemma ctx_good rest path t d : wf d t -> ctx rest path t (fun s => Forall (allgood rest) (kids_of s) /\ ins_of s <> []) -> good rest t.
Proof.
  intros W C. destruct path as [|j r]; [exact (proj1 C)|]. exact (ag_kids _ _ (ctx_ag rest (j :: r) t d W C)).
Qed.

Lemma materialize_mat t : h_mat (hd_of t) = true -> materialize t = t.
Proof. destruct t as [h i k]. cbn. now intros ->. Qed.
Lemma ag_set_unbal rest b c : ins_of c <> [] -> Forall (allgood rest) (kids_of c) -> allgood rest (set_unbal b c).
Proof. intros Ne K. apply ag_nonempty; [now rewrite ins_set_unbal | now rewrite kids_set_unbal]. Qed.
Lemma ag_merged rest l0 r0 : allgood rest l0 -> allgood rest r0 -> allgood rest (merged l0 r0).
Proof.
  intros Al Ar. constructor.
  - intros E. unfold merged in *. cbn [ins_of hd_of] in *. apply app_eq_nil in E. destruct E as [E _].
    rewrite ins_materialize in E. destruct (ag_okv _ _ Al E) as (M & U). now rewrite (materialize_mat _ M).
  - unfold merged. cbn [kids_of]. rewrite !kids_materialize. apply Forall_app. split; now apply ag_kids.
Qed.

Lemma rebalance_root_good ps fill rest t t' evs : good rest t -> rebalance_root ps fill t = (t', evs) -> good rest t'.
Proof.
  unfold good. intros G H. unfold rebalance_root in H.
  destruct (negb (h_unbal (hd_of t))). { inversion H; subst. auto. }
  assert (D : Forall (allgood rest) (kids_of (set_unbal false t))) by now rewrite kids_set_unbal.
  destruct (big_enough _ ps fill). { inversion H; subst; auto. }
  destruct t as [h ins kids]. cbn [set_unbal] in *. cbn [h_leaf] in H.
  destruct (h_leaf h); [inversion H; subst; auto|].
  destruct ins as [|x [|x2 xs]]; [inversion H; subst; auto| |inversion H; subst; auto].
  destruct kids as [|c0 [|c1 cs]]; [inversion H; subst; auto| |inversion H; subst; auto].
  inversion H; subst t' evs. cbn [kids_of] in *. rewrite kids_materialize. apply ag_kids. now apply Forall_inv in G.
Qed.

(** the vertex at [path] (about to be rebalanced) is exempt, but if it is empty it must be unbalanced; everything else
    off the path is good for [rest]; then after the rebalance (including the recursion to the parents, which removes
    parents that became empty) every non-root vertex is good for [rest] *)
Lemma rebalance_at_good ps fill rest : forall fuel t path d t' evs u,
  wf d t -> get_at t path = Some u ->
  ctx rest path t (fun s => Forall (allgood rest) (kids_of s)) ->
  (path <> [] -> ins_of u = [] -> h_unbal (hd_of u) = true) ->
  rebalance_at ps fill fuel t path = Ok (t', evs) -> good rest t'.
Proof.
  induction fuel as [|f IH]; intros t path d t' evs u W Gu C Hu H; [discriminate|].
  cbn [rebalance_at] in H. destruct path as [|i0 r0].
  - apply Ok_inj in H. eapply rebalance_root_good; [exact C | exact H].
  - set (path := i0 :: r0) in *. assert (Np : path <> []) by discriminate. clearbody path.
    apply (ctx_snoc _ _ _ _ Np) in C. destruct (ctx_get _ _ _ _ C) as (p & Gp & a & u' & b & Ek & La & Fab & Ku).
    rewrite (get_at_snoc _ _ Np), Gp, Ek, <- La, nth_error_mid in Gu. inversion Gu; subst u'. clear Gu.
    rewrite Gp in H.
    destruct (rebalance_in_parent ps fill p (last path 0%nat)) as [[[p' e] c]| |] eqn:R; try discriminate.
    cbn [bindr] in H.
    destruct (set_at_ok (removelast path) t d p p' W Gp) as [W1 F1].
    { intros d' Wp. eapply rebalance_in_parent_ok; eauto. }
    destruct (get_at_wf _ _ _ _ W Gp) as [dp Wp].
    destruct p as [ph pins pkids]. cbn [kids_of] in Ek. subst pkids.
    assert (Npins : pins <> []).
    { inversion Wp as [|d0 ? ? ? Hl Hlen Hk]; subst. { destruct a; discriminate. }
      intros E0. subst pins. rewrite app_length in Hlen. cbn in Hlen. lia. }
    apply Forall_app in Fab. destruct Fab as [Fa Fb].
    destruct (rip_shape _ _ _ _ _ _ _ _ _ R) as [(-> & -> & -> & Hnu)|[(a1 & n & b1 & E & La1 & _ & -> & -> & -> & Nn)|
      [(a1 & n & b1 & E & La1 & _ & Ei & _ & -> & -> & ->)|(a0 & n & b0 & a1 & l0 & r1 & b1 & E & La0 & _ & E2 & _ & -> & -> & -> & Nn)]]].
    + (* u is not unbalanced: nothing happens, and u cannot be empty *)
      apply Ok_inj2 in H. destruct H as [<- _].
      apply (ctx_good rest (removelast path) _ d W1). eapply ctx_set; [exact C|]. cbn [kids_of ins_of]. split; auto.
      apply Forall_app. split; auto. constructor; auto.
      apply ag_nonempty; auto. intros E0. specialize (Hu Np E0). rewrite (Hnu u) in Hu; [discriminate|]. rewrite <- La. apply nth_error_mid.
    + (* u is big enough *)
      apply Ok_inj2 in H. destruct H as [<- _].
      destruct (app_mid_inj _ _ _ _ _ _ E (eq_trans La (eq_sym La1))) as (<- & <- & <-).
      apply (ctx_good rest (removelast path) _ d W1). eapply ctx_set; [exact C|]. cbn [kids_of ins_of]. split; auto.
      apply Forall_app. split; auto. constructor; auto. now apply ag_set_unbal.
    + (* u is empty: removed; the parent is rebalanced next *)
      destruct (app_mid_inj _ _ _ _ _ _ E (eq_trans La (eq_sym La1))) as (<- & <- & <-).
      destruct (rebalance_at ps fill f _ _) as [[t2 e2]| |] eqn:R2; try discriminate. cbn [bindr fst snd] in H.
      apply Ok_inj2 in H. destruct H as [<- _].
      eapply (IH _ _ _ _ _ _ W1 (get_set_same _ _ _ _ Gp)); [| |exact R2].
      * eapply ctx_set; [exact C|]. cbn [kids_of]. apply Forall_app; auto.
      * intros _ _. reflexivity.
    + (* u is merged with a sibling; the parent is rebalanced next *)
      destruct (app_mid_inj _ _ _ _ _ _ E (eq_trans La (eq_sym La0))) as (<- & <- & <-).
      destruct (rebalance_at ps fill f _ _) as [[t2 e2]| |] eqn:R2; try discriminate. cbn [bindr fst snd] in H.
      apply Ok_inj2 in H. destruct H as [<- _].
      assert (F1' : Forall (allgood rest) (a1 ++ l0 :: r1 :: b1)).
      { rewrite <- E2. apply Forall_app. split; auto. constructor; auto. now apply ag_set_unbal. }
      apply Forall_app in F1'. destruct F1' as [Fa1 Fb1].
      pose proof (Forall_inv Fb1) as Al. apply Forall_inv_tail in Fb1. pose proof (Forall_inv Fb1) as Ar. apply Forall_inv_tail in Fb1.
      eapply (IH _ _ _ _ _ _ W1 (get_set_same _ _ _ _ Gp)); [| |exact R2].
      * eapply ctx_set; [exact C|]. cbn [kids_of]. apply Forall_app. split; auto. constructor; auto. now apply ag_merged.
      * intros _ _. reflexivity.
Qed.

(** ** assembling: all the visits of Bucket.rebalance *)
Lemma find_node_sound : forall fuel t pg path, find_node fuel t pg = Some path ->
  exists v, get_at t path = Some v /\ h_pgid (hd_of v) = pg.
Proof.
  induction fuel as [|f IH]; intros t pg path H; [discriminate|].
  rewrite find_node_unfold in H.
  destruct (h_mat (hd_of t) && (h_pgid (hd_of t) =? pg)) eqn:E.
  - inversion H; subst. apply andb_true_iff in E. destruct E as [_ E]. apply N.eqb_eq in E. exists t. auto.
  - destruct (find_go_spec _ _ _ _ H) as (j & c & p & -> & En & M & Ef). cbn [Nat.add get_at]. rewrite En. eauto.
Qed.

Inductive nomat (pg : N) : nt -> Prop :=
| nm_i c : (h_mat (hd_of c) = true -> h_pgid (hd_of c) <> pg) -> Forall (nomat pg) (kids_of c) -> nomat pg c.

Lemma allpg_nomat pg c : allpg false c -> nomat pg c.
Proof.
  induction c as [h ins kids IH] using nt_ind'. intros A. inversion A as [? ? ? M _ FK]; subst. constructor; cbn.
  - congruence.
  - rewrite Forall_forall in *. auto.
Qed.

Lemma find_go_none fn : forall ks i, find_go fn i ks = None -> Forall (fun c => h_mat (hd_of c) = true -> fn c = None) ks.
Proof.
  induction ks as [|c r IH]; intros i H; cbn in H; [constructor|].
  destruct (h_mat (hd_of c)) eqn:M.
  - destruct (fn c) eqn:E; [discriminate|]. constructor; eauto.
  - constructor; eauto. congruence.
Qed.

Lemma find_node_none pg : forall fuel t d, wf d t -> (d < fuel)%nat -> closed false t -> find_node fuel t pg = None -> nomat pg t.
Proof.
  induction fuel as [|f IH]; intros t d W L C H; [lia|].
  rewrite find_node_unfold in H.
  destruct (h_mat (hd_of t) && (h_pgid (hd_of t) =? pg)) eqn:E; [discriminate|].
  apply find_go_none in H. pose proof (closed_kids _ _ C) as K. constructor.
  - intros M. rewrite M in E. cbn in E. now apply N.eqb_neq in E.
  - inversion W as [? ? Hl|d0 ? ? ? Hl Hlen Hk]; subst; cbn [kids_of] in *; [constructor|].
    rewrite Forall_forall in *. intros c Hc. destruct (h_mat (hd_of c)) eqn:M.
    + apply (IH c d0); auto. lia.
    + apply allpg_nomat. apply closed_nonmat; auto.
Qed.

Lemma ag_weaken_nomat pg rest c : allgood (pg :: rest) c -> nomat pg c -> allgood rest c.
Proof.
  induction c as [h ins kids IH] using nt_ind'. intros A Nm. inversion A as [? O K]; subst. inversion Nm as [? Hm Kn]; subst.
  cbn [kids_of hd_of ins_of] in *. constructor; cbn [kids_of].
  - intros E. destruct (O E) as (M & U & Z & [Ep|Hin]); cbn [hd_of] in *; repeat split; auto. exfalso. apply (Hm M). auto.
  - rewrite Forall_forall in *. auto.
Qed.

Lemma ids_eq h ins kids : ids (NT h ins kids) = map fst (ownh h) ++ flat_map ids kids.
Proof.
  unfold ids. rewrite runs_eq, map_app. f_equal. induction kids as [|c r IH]; cbn [flat_map map]; [reflexivity|].
  now rewrite map_app, IH.
Qed.
Lemma ids_own t : h_pgid (hd_of t) <> 0 -> In (h_pgid (hd_of t)) (ids t).
Proof.
  destruct t as [h i k]. cbn [hd_of]. intros Z. rewrite ids_eq. apply in_or_app. left. unfold ownh.
  destruct (N.eqb_spec (h_pgid h) 0); [contradiction | now left].
Qed.
Lemma ids_kid t c x : In c (kids_of t) -> In x (ids c) -> In x (ids t).
Proof. destruct t as [h i k]. cbn [kids_of]. intros Hc Hx. rewrite ids_eq. apply in_or_app. right. apply in_flat_map. eauto. Qed.
Lemma get_at_in_ids : forall r c v, get_at c r = Some v -> h_pgid (hd_of v) <> 0 -> In (h_pgid (hd_of v)) (ids c).
Proof.
  induction r as [|j r IH]; intros c v G Z; cbn in G.
  - inversion G; subst. now apply ids_own.
  - destruct (nth_error (kids_of c) j) as [c'|] eqn:E; [|discriminate]. eapply ids_kid; [eapply nth_error_In; eauto | eauto].
Qed.

Lemma ag_weaken_ids pg rest c : allgood (pg :: rest) c -> (pg <> 0 -> ~ In pg (ids c)) -> allgood rest c.
Proof.
  induction c as [h ins kids IH] using nt_ind'. intros A Hn. inversion A as [? O K]; subst.
  cbn [kids_of hd_of ins_of] in *. constructor; cbn [kids_of].
  - intros E. destruct (O E) as (M & U & Z & [Ep|Hin]); cbn [hd_of] in *; repeat split; auto. exfalso.
    subst pg. apply (Hn Z). apply (ids_own (NT h ins kids)). exact Z.
  - rewrite Forall_forall in *. intros c Hc. apply IH; auto. intros Z Hin. apply (Hn Z). eapply (ids_kid (NT h ins kids)); eauto.
Qed.

Lemma nodup_disj {A} (l1 l2 : list A) x : NoDup (l1 ++ l2) -> In x l1 -> In x l2 -> False.
Proof.
  induction l1 as [|y l1 IH]; cbn; intros ND H1 H2; [auto|]. inversion ND; subst.
  destruct H1 as [->|H1]; [apply H3; apply in_or_app; auto | eauto].
Qed.

Lemma nodup_flat_map_mid {A B} (f : A -> list B) a c b : NoDup (flat_map f (a ++ c :: b)) ->
  NoDup (f c) /\ forall s x, In s (a ++ b) -> In x (f c) -> ~ In x (f s).
Proof.
  rewrite flat_map_app. cbn [flat_map]. intros ND. destruct (nodup_app_inv _ _ ND) as [_ ND2]. split; [apply (nodup_app_inv _ _ ND2)|].
  intros s x Hs Hc Hx. apply in_app_or in Hs. destruct Hs as [Hs|Hs].
  - apply (nodup_disj _ _ x ND); [apply in_flat_map; eauto | apply in_or_app; auto].
  - apply (nodup_disj _ _ x ND2); [auto | apply in_flat_map; eauto].
Qed.

Lemma conv_ctx pg rest : forall path t v, Forall (allgood (pg :: rest)) (kids_of t) -> NoDup (ids t) ->
  get_at t path = Some v -> h_pgid (hd_of v) = pg -> ctx rest path t (fun s => Forall (allgood rest) (kids_of s)).
Proof.
  induction path as [|j r IH]; intros t v K ND G Ev; cbn [ctx]; cbn in G.
  - inversion G; subst v. destruct t as [h ins kids]. cbn [kids_of hd_of] in *. rewrite ids_eq in ND.
    rewrite Forall_forall in *. intros c Hc. apply (ag_weaken_ids pg); auto. intros Z Hin.
    apply (nodup_disj _ _ pg ND); [|apply in_flat_map; eauto]. unfold ownh. subst pg.
    destruct (N.eqb_spec (h_pgid h) 0); [contradiction | now left].
  - destruct t as [h ins kids]. cbn [kids_of] in *.
    destruct (nth_error kids j) as [c|] eqn:Ec; [|discriminate].
    destruct (nth_error_decomp _ _ _ Ec) as (a & b & -> & La). exists a, c, b. repeat split; auto.
    + rewrite ids_eq in ND. destruct (nodup_app_inv _ _ ND) as [_ ND2].
      destruct (nodup_flat_map_mid ids a c b ND2) as [_ Dj].
      apply Forall_app in K. destruct K as [Ka Kb]. pose proof (Forall_inv_tail Kb) as Kb'.
      assert (Kab : Forall (allgood (pg :: rest)) (a ++ b)) by (apply Forall_app; auto).
      rewrite Forall_forall in *. intros s Hs. apply (ag_weaken_ids pg); auto. intros Z.
      apply (Dj s pg Hs). subst pg. eapply get_at_in_ids; eauto.
    + apply (IH c v); auto.
      * apply ag_kids. apply Forall_app in K. destruct K as [_ Kb]. now apply Forall_inv in Kb.
      * rewrite ids_eq in ND. destruct (nodup_app_inv _ _ ND) as [_ ND2]. apply (nodup_flat_map_mid ids a c b ND2).
Qed.

Lemma get_at_ag R : forall path c v, allgood R c -> get_at c path = Some v -> allgood R v.
Proof.
  induction path as [|j r IH]; intros c v A G; cbn in G; [inversion G; subst; auto|].
  destruct (nth_error (kids_of c) j) as [c'|] eqn:E; [|discriminate].
  apply (IH c'); auto. pose proof (ag_kids _ _ A) as K. rewrite Forall_forall in K. apply K. eapply nth_error_In; eauto.
Qed.

Lemma rebalance_root_height ps fill t d t' evs :
  wf d t -> rebalance_root ps fill t = (t', evs) -> exists d', (d' <= d)%nat /\ wf d' t'.
Proof.
  intros W H. unfold rebalance_root in H.
  destruct (negb (h_unbal (hd_of t))). { inversion H; subst. eauto. }
  assert (D : exists d', (d' <= d)%nat /\ wf d' (set_unbal false t)) by (exists d; split; [lia | now apply wf_set_unbal]).
  destruct (big_enough _ ps fill). { inversion H; subst; auto. }
  destruct t as [h ins kids]. cbn [set_unbal] in *. cbn [h_leaf] in H.
  destruct (h_leaf h) eqn:Hl; [inversion H; subst; auto|].
  destruct ins as [|x [|x2 xs]]; [inversion H; subst; auto| |inversion H; subst; auto].
  destruct kids as [|c0 [|c1 cs]]; [inversion H; subst; auto| |inversion H; subst; auto].
  inversion H; subst t' evs. clear H D.
  inversion W as [|d0 ? ? ? _ _ Hk]; subst. pose proof (Forall_inv Hk) as Wc.
  apply wf_materialize in Wc. destruct (materialize c0) as [hc ic kc]. cbn [hd_of ins_of kids_of].
  exists d0. split; [lia | eapply wf_hdr; eauto].
Qed.

Lemma rebalance_at_height ps fill : forall fuel t path d t' evs,
  wf d t -> rebalance_at ps fill fuel t path = Ok (t', evs) -> exists d', (d' <= d)%nat /\ wf d' t'.
Proof.
  induction fuel as [|f IH]; intros t path d t' evs W H; [discriminate|].
  cbn [rebalance_at] in H. destruct path as [|i0 r0].
  - apply Ok_inj in H. eapply rebalance_root_height; eauto.
  - set (path := i0 :: r0) in *. clearbody path.
    destruct (get_at t (removelast path)) as [p|] eqn:G; [|discriminate].
    destruct (rebalance_in_parent ps fill p (last path 0%nat)) as [[[p' e] c]| |] eqn:R; try discriminate.
    cbn [bindr] in H.
    destruct (set_at_ok (removelast path) t d p p' W G) as [W1 F1].
    { intros d' Wp. eapply rebalance_in_parent_ok; eauto. }
    destruct c.
    + destruct (rebalance_at ps fill f _ _) as [[t2 e2]| |] eqn:R2; try discriminate. cbn [bindr fst snd] in H.
      apply Ok_inj2 in H. destruct H as [<- _]. eapply IH; eauto.
    + apply Ok_inj2 in H. destruct H as [<- _]. exists d. split; [lia | auto].
Qed.

Lemma rebalance_all_good ps fill fuel : forall order t d t' evs,
  wf d t -> (d < fuel)%nat -> closed false t -> NoDup (ids t) -> good order t ->
  rebalance_all ps fill fuel t order = Ok (t', evs) -> good [] t'.
Proof.
  induction order as [|pg rest IH]; intros t d t' evs W L C ND G H; cbn [rebalance_all] in H.
  - apply Ok_inj2 in H. destruct H as [<- _]. exact G.
  - destruct (find_node fuel t pg) as [path|] eqn:Fn.
    + destruct (find_node_sound _ _ _ _ Fn) as (v & Gv & Ev).
      destruct (rebalance_at ps fill fuel t path) as [[t1 e1]| |] eqn:R; try discriminate. cbn [bindr fst snd] in H.
      destruct (rebalance_all ps fill fuel t1 rest) as [[t2 e2]| |] eqn:R2; try discriminate. cbn [bindr fst snd] in H.
      apply Ok_inj2 in H. destruct H as [<- _].
      destruct (rebalance_at_height _ _ _ _ _ _ _ _ W R) as (d1 & Ld & W1).
      pose proof (rebalance_at_closed false _ _ _ _ _ _ _ C (find_node_matpath false _ _ _ _ C Fn) R) as C1.
      pose proof (rebalance_at_runs _ _ _ _ _ _ _ _ W R) as HP.
      assert (ND1 : NoDup (ids t1)).
      { pose proof (Permutation_map fst HP) as HM. rewrite map_app in HM. apply (Permutation_NoDup HM) in ND. apply (nodup_app_inv _ _ ND). }
      assert (G1 : good rest t1).
      { eapply (rebalance_at_good ps fill rest fuel t path d t1 e1 v W Gv); [| |exact R].
        - eapply conv_ctx; eauto.
        - intros Np E0. destruct path as [|j r]; [congruence|]. cbn in Gv.
          destruct (nth_error (kids_of t) j) as [c|] eqn:Ec; [|discriminate].
          assert (Ac : allgood (pg :: rest) c). { unfold good in G. rewrite Forall_forall in G. apply G. eapply nth_error_In; eauto. }
          pose proof (get_at_ag _ _ _ _ Ac Gv) as Av. destruct (ag_okv _ _ Av E0) as (_ & U & _). exact U. }
      eapply (IH t1 d1); eauto. lia.
    + apply (IH t d t' evs); auto.
      pose proof (find_node_none pg fuel t d W L C Fn) as Nm. inversion Nm as [? _ Kn]; subst.
      unfold good in *. rewrite Forall_forall in *. intros c Hc. apply (ag_weaken_nomat pg); auto.
Qed.

(** P4 / Q3.  Hypotheses: t is a balanced aligned tree of height d < fuel (with less fuel [find_node] silently finds nothing
    and visits are skipped); materialised vertices are parent-closed; the non-zero page ids of ALL vertices are pairwise
    distinct ([NoDup (ids t)]: the siblings that a merge materialises get their page's id, so pages count too); every
    non-root vertex without inodes is materialised, unbalanced, has a non-zero page id and that id occurs in [order].
    Then no non-root vertex of the committed tree is empty. *)
Theorem commit_tree_no_empty ps fill fuel t order t' evs d :
  wf d t -> (d < fuel)%nat -> closed false t -> NoDup (ids t) -> good order t ->
  commit_tree ps fill fuel t order = Ok (t', evs) -> good [] t' /\ aligned t'.
Proof.
  intros W L C ND G H. pose proof (commit_tree_flat _ _ _ _ _ _ _ (ex_intro _ d W) H) as [_ A]. split; auto.
  unfold commit_tree in H.
  destruct (rebalance_all ps fill fuel t order) as [[t1 e1]| |] eqn:R; try discriminate. cbn [bindr fst snd] in H.
  destruct (spill_root ps fill fuel t1) as [[t2 e2]| |] eqn:Sp; try discriminate. cbn [bindr fst snd] in H.
  apply Ok_inj2 in H. destruct H as [<- _].
  destruct (rebalance_all_ok _ _ _ _ _ _ _ _ W R) as [[d1 W1] F1].
  apply (spill_root_ne ps fill fuel t1 d1 t2 e2 W1); [|exact Sp].
  apply (rebalance_all_good ps fill fuel order t d t1 e1); auto.
Qed.
Print Assumptions commit_tree_no_empty.

(** the same in terms of Tree.v's [no_empty] *)
Lemma no_empty_of_good : forall f t d root, wf d t -> (d < f)%nat -> (root = true \/ ins_of t <> []) ->
  Forall (allgood []) (kids_of t) -> no_empty f root t = true.
Proof.
  induction f as [|f IH]; intros t d root W L Hr K; [lia|]. cbn [no_empty]. apply andb_true_iff. split.
  - destruct Hr as [->|Ne]; [reflexivity|]. destruct (ins_of t); [congruence|]. now destruct root.
  - inversion W as [? ? Hl|d0 ? ? ? Hl Hlen Hk]; subst; cbn [hd_of ins_of kids_of] in *; rewrite Hl; [reflexivity|].
    cbn [orb]. rewrite Hlen, Nat.eqb_refl. cbn [andb]. apply forallb_forall. intros c Hc.
    rewrite Forall_forall in K, Hk. apply (IH c d0); auto; [lia | right; apply ag_nil_ne; auto | apply ag_kids; auto].
Qed.

Corollary commit_tree_no_empty_b ps fill fuel t order t' evs d :
  wf d t -> (d < fuel)%nat -> closed false t -> NoDup (ids t) -> good order t ->
  commit_tree ps fill fuel t order = Ok (t', evs) -> exists d', wf d' t' /\ forall f, (d' < f)%nat -> no_empty f true t' = true.
Proof.
  intros W L C ND G H. destruct (commit_tree_no_empty _ _ _ _ _ _ _ _ W L C ND G H) as [G' [d' W']].
  exists d'. split; auto. intros f Lf. apply (no_empty_of_good f t' d' true W' Lf); auto.
Qed.
Print Assumptions commit_tree_no_empty_b.

(** the hypotheses of [commit_tree_no_empty] hold for [ex1] (so the theorem is not vacuous), and its conclusion can be
    observed on [ex1_commit] *)
Example ex1_hyps : wf 1 ex1 /\ closed false ex1 /\ NoDup (ids ex1) /\ good [4] ex1.
Proof.
  split; [exact ex1_wf|]. split; [|split].
  - assert (Pg : forall pg k i, closed false (NT (mkh false false pg k true) i [])).
    { intros. apply closed_page. constructor; [reflexivity | intros E; discriminate | constructor]. }
    apply closed_mat; [reflexivity|]. constructor; [apply Pg|]. constructor; [apply closed_mat; [reflexivity | constructor]|].
    constructor; [apply Pg | constructor].
  - vm_compute. repeat constructor; cbn; intuition discriminate.
  - unfold good, ex1. cbn [kids_of].
    constructor; [apply ag_nonempty; [discriminate | constructor]|].
    constructor; [|constructor; [apply ag_nonempty; [discriminate | constructor] | constructor]].
    constructor; [|constructor]. intros _. cbn. repeat split; auto. discriminate.
Qed.
Example ex1_no_empty : match commit_tree 4096 50 10 ex1 [4] with Ok (t', _) => no_empty 10 true t' | _ => false end = true.
Proof. vm_compute. reflexivity. Qed.
