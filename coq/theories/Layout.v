(** Layout: an independent reader of the published version-2 file format.  It contains only the layout:
    checksummed meta pages, branch / leaf / freelist pages, inline buckets, overflow and the 0xFFFF-count
    convention.  The file content is a function [rd : N -> N] (byte at offset); every definition is
    parametric in it.  Definitions only. *)
From Bbolt Require Import Base Consts Spec Fnv.

Section Dec.
  Variable rd : N -> N.       (* byte at file offset; 0 beyond the end of the file *)
  Variable ps : N.            (* page size *)

  Fixpoint le (n : nat) (off : N) : N :=
    match n with O => 0 | S n' => rd off + 256 * le n' (off + 1) end.
  Definition u16 := le 2.
  Definition u32 := le 4.
  Definition u64 := le 8.

  Fixpoint rbytes (n : nat) (off : N) : list N :=
    match n with O => [] | S n' => rd off :: rbytes n' (off + 1) end.

  (** ---- meta page: 16-byte page header, then the 64-byte meta structure ---- *)
  Record meta := { m_magic : N; m_version : N; m_pagesize : N; m_flags : N; m_root : N; m_seq : N;
                   m_fl : N; m_mark : N; m_txid : N; m_sum : N }.

  Definition rd_meta_at (b : N) : meta :=       (* b = offset of the meta structure *)
    {| m_magic := u32 b; m_version := u32 (b + 4); m_pagesize := u32 (b + 8); m_flags := u32 (b + 12);
       m_root := u64 (b + 16); m_seq := u64 (b + 24); m_fl := u64 (b + 32); m_mark := u64 (b + 40);
       m_txid := u64 (b + 48); m_sum := u64 (b + 56) |}.

  Definition meta_sum_at (b : N) : N := fnv64a_fast (rbytes 56 b).

  (** Meta.Validate: magic, version, checksum - in this order *)
  Inductive mverr := MOk | MInvalid | MVersionMismatch | MChecksum.
  Definition validate_at (b : N) : mverr :=
    let m := rd_meta_at b in
    if negb (m_magic m =? magic) then MInvalid
    else if negb (m_version m =? version) then MVersionMismatch
    else if negb (m_sum m =? meta_sum_at b) then MChecksum
    else MOk.
  Definition meta_valid_at (b : N) : bool := match validate_at b with MOk => true | _ => false end.

  Definition rd_meta (slot : N) : meta := rd_meta_at (slot * ps + page_header_size).
  Definition meta_valid (slot : N) : bool := meta_valid_at (slot * ps + page_header_size).

  (** db.meta(): the valid meta with the larger txid (meta1 wins only if strictly larger) *)
  Definition choose_meta : option meta :=
    let m0 := rd_meta 0 in let m1 := rd_meta 1 in
    let '(a, va, b, vb) := if m_txid m0 <? m_txid m1 then (m1, meta_valid 1, m0, meta_valid 0)
                           else (m0, meta_valid 0, m1, meta_valid 1) in
    if va then Some a else if vb then Some b else None.

  (** ---- Open: page-size detection, validation of both metas, choice (db.getPageSize, db.mmap, db.meta) ---- *)
End Dec.

Section Open.
  Variable rd : N -> N.
  Variable flen : N.          (* file length in bytes *)
  Variable dps : N.           (* page size given in the options / OS page size *)

  Inductive openres := OpenOk (ps : N) (m : meta) | OpenErr (e : mverr) | OpenTooSmall.

  (** getPageSizeFromSecondMeta: probe offsets 1024 << i, i = 0..14, while pos < flen - 1024 *)
  Fixpoint probe_second (i : nat) (pos : N) : option N :=
    match i with O => None | S i' =>
      if flen - 1024 <=? pos then None
      else if meta_valid_at rd (pos + page_header_size) then Some (m_pagesize (rd_meta_at rd (pos + page_header_size)))
      else probe_second i' (2 * pos)
    end.

  (** [v0] = Validate of the structure at offset 16 (slot 0 sits there whatever the page size) *)
  Definition page_size_model (v0 : mverr) : option N :=
    let can0 := 4096 <=? flen in
    if can0 && match v0 with MOk => true | _ => false end then Some (m_pagesize (rd_meta_at rd page_header_size))
    else match probe_second 15 1024 with
         | Some ps => Some ps
         | None => let can1 := 1024 <? flen - 1024 in
                   if can0 || can1 then Some dps else None
         end.

  Definition open_model : openres :=
    let v0 := validate_at rd page_header_size in
    match page_size_model v0 with
    | None => OpenErr MInvalid
    | Some ps =>
      if flen <? 2 * ps then OpenTooSmall else
      let v1 := validate_at rd (ps + page_header_size) in
      let m0 := rd_meta_at rd page_header_size in
      let m1 := rd_meta_at rd (ps + page_header_size) in
      let ok0 := match v0 with MOk => true | _ => false end in
      let ok1 := match v1 with MOk => true | _ => false end in
      if negb (ok0 || ok1) then OpenErr v0 else
      (* db.meta(): the valid meta with the larger txid (meta 1 only if strictly larger) *)
      let m := if m_txid m0 <? m_txid m1 then (if ok1 then m1 else m0) else (if ok0 then m0 else m1) in
      if flen <? m_mark m * ps then OpenTooSmall      (* shorter than its own high-water mark *)
      else OpenOk ps m
    end.
End Open.

Section Dec2.
  Variable rd : N -> N.
  Variable ps : N.
  Notation u16 := (u16 rd). Notation u32 := (u32 rd). Notation u64 := (u64 rd). Notation rbytes := (rbytes rd).
  Notation choose_meta := (choose_meta rd ps).

  (** ---- tree pages ---- *)
  Definition idxs (count : N) : list N := run 0 count.      (* [0; 1; ...; count-1] *)

  Fixpoint mapM {A B} (f : A -> option B) (l : list A) : option (list B) :=
    match l with [] => Some [] | a :: r =>
      match f a with None => None | Some b =>
        match mapM f r with None => None | Some bs => Some (b :: bs) end end end.

  Definition opt_le (lo : option bytes) (k : bytes) : bool :=
    match lo with None => true | Some l => negb (blt k l) end.           (* lo <= k *)
  Definition opt_lt (k : bytes) (hi : option bytes) : bool :=
    match hi with None => true | Some h => blt k h end.                   (* k < hi *)

  Fixpoint strictly_inc (ks : list bytes) : bool :=
    match ks with [] => true | k :: r => match r with [] => true | k' :: _ => blt k k' && strictly_inc r end end.

  (** result of decoding a subtree *)
  Record dres := { r_ents : list (bytes * entry);
                   r_pages : list (N * N * N);        (* (page id, overflow, flags) of every real page visited *)
                   r_order : bool;                    (* keys sorted within pages and within parent ranges *)
                   r_bounds : bool }.                 (* every element lies inside its page *)

  (** Decode the page whose header starts at byte [base]; [limit] = first byte after the region the page may
      use (page run end, or end of the inline value); keys must lie in [lo, hi). *)
  Fixpoint dec_page (fuel : nat) (base limit : N) (inline : bool) (lo hi : option bytes) : option dres :=
    match fuel with O => None | S f =>
      let id := u64 base in
      let flags := u16 (base + 8) in
      let count := u16 (base + 10) in
      let ov := u32 (base + 12) in
      let me := if inline then [] else [(id, ov, flags)] in
      let hdr_ok := (base + 16 + 16 * count <=? limit) in
      if flags =? leaf_page_flag then
        let elems := map (fun i =>
          let e := base + 16 + 16 * i in
          let efl := u32 e in let pos := u32 (e + 4) in let ks := u32 (e + 8) in let vs := u32 (e + 12) in
          (efl, e + pos, ks, vs)) (idxs count) in
        let keys := map (fun x => let '(efl, kp, ks, vs) := x in rbytes (N.to_nat ks) kp) elems in
        let bounds := hdr_ok && forallb (fun x => let '(efl, kp, ks, vs) := x in (kp + ks + vs <=? limit)) elems in
        let order := strictly_inc keys
                     && match keys with [] => true | k :: _ => opt_le lo k end
                     && forallb (fun k => opt_lt k hi) keys in
        match mapM (fun x =>
          let '(efl, kp, ks, vs) := x in
          let k := rbytes (N.to_nat ks) kp in
          let vb := kp + ks in
          if N.odd efl then
            let root := u64 vb in let sq := u64 (vb + 8) in
            match (if root =? 0 then dec_page f (vb + 16) (vb + vs) true None None
                   else dec_page f (root * ps) (root * ps + (u32 (root * ps + 12) + 1) * ps) false None None) with
            | None => None
            | Some d => Some (k, Sub sq (r_ents d), r_pages d, r_order d, r_bounds d && (16 <=? vs))
            end
          else Some (k, Val (rbytes (N.to_nat vs) vb), [], true, true)) elems with
        | None => None
        | Some rs => Some {| r_ents := map (fun r => let '(k, e, _, _, _) := r in (k, e)) rs;
                             r_pages := me ++ flat_map (fun r => let '(_, _, pg, _, _) := r in pg) rs;
                             r_order := order && forallb (fun r => let '(_, _, _, o, _) := r in o) rs;
                             r_bounds := bounds && forallb (fun r => let '(_, _, _, _, b) := r in b) rs |}
        end
      else if flags =? branch_page_flag then
        if inline then None else
        let elems := map (fun i =>
          let e := base + 16 + 16 * i in
          let pos := u32 e in let ks := u32 (e + 4) in let child := u64 (e + 8) in
          (e + pos, ks, child)) (idxs count) in
        let keys := map (fun x => let '(kp, ks, child) := x in rbytes (N.to_nat ks) kp) elems in
        let bounds := hdr_ok && forallb (fun x => let '(kp, ks, child) := x in (kp + ks <=? limit)) elems in
        let order := strictly_inc keys
                     && match keys with [] => true | k :: _ => opt_le lo k end
                     && forallb (fun k => opt_lt k hi) keys in
        let his := map Some (tl keys) ++ [hi] in
        match mapM (fun xh =>
          let '((kp, ks, child), h) := xh in
          dec_page f (child * ps) (child * ps + (u32 (child * ps + 12) + 1) * ps) false
                   (Some (rbytes (N.to_nat ks) kp)) h) (combine elems his) with
        | None => None
        | Some rs => Some {| r_ents := flat_map r_ents rs;
                             r_pages := me ++ flat_map r_pages rs;
                             r_order := order && forallb r_order rs && negb (count =? 0);
                             r_bounds := bounds && forallb r_bounds rs |}
        end
      else None
    end.

  (** ---- freelist page ---- *)
  Definition freelist_ids (pg : N) : list N :=
    let base := pg * ps in
    let count := u16 (base + 10) in
    if count =? 65535 then
      let n := u64 (base + 16) in map (fun i => u64 (base + 24 + 8 * i)) (idxs n)
    else map (fun i => u64 (base + 16 + 8 * i)) (idxs count).
  Definition freelist_flags (pg : N) : N := u16 (pg * ps + 8).
  Definition freelist_overflow (pg : N) : N := u32 (pg * ps + 12).

  (** ---- whole file ---- *)
  Record dbview := { v_meta : meta; v_root : bucket; v_pages : list (N * N * N); v_order : bool; v_bounds : bool;
                     v_free : option (list N);         (* None = freelist not persisted *)
                     v_flpage : list N }.             (* ids occupied by the freelist page run *)

  Definition dec_with_meta (fuel : nat) (m : meta) : option dbview :=
    let rb := m_root m * ps in
    match dec_page fuel rb (rb + (u32 (rb + 12) + 1) * ps) false None None with
    | None => None
    | Some d =>
      let nofl := m_fl m =? pgid_no_freelist in
      Some {| v_meta := m; v_root := (m_seq m, r_ents d); v_pages := r_pages d; v_order := r_order d; v_bounds := r_bounds d;
              v_free := if nofl then None else Some (freelist_ids (m_fl m));
              v_flpage := if nofl then [] else run (m_fl m) (freelist_overflow (m_fl m) + 1) |}
    end.

  Definition dec_db (fuel : nat) : option dbview :=
    match choose_meta with None => None | Some m => dec_with_meta fuel m end.

  (** ---- C07's accounting predicate on a decoded view ---- *)
  Definition page_ids (pgs : list (N * N * N)) : list N :=
    flat_map (fun p => let '(id, ov, _) := p in run id (ov + 1)) pgs.

  Fixpoint nodupb (l : list N) : bool :=      (* on a sorted list *)
    match l with [] => true | x :: r => match r with [] => true | y :: _ => negb (x =? y) && nodupb r end end.

  (** every id in [2, mark) is exactly one of: freelist page, reachable once, free once *)
  Definition accounted (v : dbview) (free : list N) : bool :=
    let all := sortN (page_ids (v_pages v) ++ v_flpage v ++ free) in
    let mark := m_mark (v_meta v) in
    eqlN all (run 2 (mark - 2)).

End Dec2.
