(** Proofs about Freelist.v (the allocator model). *)
From Bbolt Require Import Base BaseProofs Freelist.
From Coq Require Import Sorting.Permutation Sorting.Sorted.

(** * association lists *)
Lemma alookup_aremove_ne {A} k k' (l : list (N * A)) : k <> k' -> alookup k (aremove k' l) = alookup k l.
Proof.
  intros Hne. induction l as [|[k0 v] l IH]; simpl; [reflexivity|].
  destruct (N.eqb_spec k' k0); simpl.
  - subst. destruct (N.eqb_spec k k0); [congruence | exact IH].
  - destruct (N.eqb_spec k k0); [reflexivity | exact IH].
Qed.

Lemma alookup_aremove_eq {A} k (l : list (N * A)) : alookup k (aremove k l) = None.
Proof.
  induction l as [|[k0 v] l IH]; simpl; [reflexivity|].
  destruct (N.eqb_spec k k0); simpl; [exact IH|].
  destruct (N.eqb_spec k k0); [congruence | exact IH].
Qed.

Lemma aremove_notin {A} k (l : list (N * A)) : alookup k l = None -> aremove k l = l.
Proof.
  induction l as [|[k0 v] l IH]; simpl; [reflexivity|].
  destruct (N.eqb_spec k k0); [discriminate|]. intros H. now rewrite IH.
Qed.

(** * Free *)

(** Free never makes a page directly reusable: the free list is untouched, and exactly the run
    [id .. id+ov] is appended to the pending list of [txid]. *)
Lemma pending_ids_app a b : pending_ids (a ++ b) = pending_ids a ++ pending_ids b.
Proof. unfold pending_ids. apply flat_map_app. Qed.



Theorem free_page_free_unchanged txid id ov s s' :
  free_page txid id ov s = Ok s' -> free s' = free s /\ readers s' = readers s.
Proof.
  unfold free_page. destruct (id <=? 1); [discriminate|].
  destruct (existsb _ _); [discriminate|]. intros H. inversion H. simpl. split; reflexivity.
Qed.

(** keys of the pending map are unique *)
Definition keys_unique {A} (l : list (N * A)) : Prop := NoDup (map fst l).

Lemma filter_true {A} (l : list A) : filter (fun _ => true) l = l.
Proof. induction l; simpl; congruence. Qed.

Lemma pending_ids_replace txid newt l :
  keys_unique l -> forall old, alookup txid l = Some old ->
  Permutation (pending_ids (map (fun e => if fst e =? txid then (txid, newt) else e) l))
              (map fst (t_ids newt) ++ filter (fun _ => true) (pending_ids (aremove txid l))).
Proof.
  intros Hu old Hl. induction l as [|[k v] l IH]; simpl in *; [discriminate|].
  inversion Hu as [|? ? Hnotin Hu']; subst.
  destruct (N.eqb_spec txid k) as [->|Hne].
  - rewrite N.eqb_refl. unfold pending_ids at 1. simpl.
    assert (Hrest : map (fun e : N * txp => if fst e =? k then (k, newt) else e) l = l).
    { clear -Hnotin. induction l as [|[k' v'] l IH]; simpl in *; [reflexivity|].
      destruct (N.eqb_spec k' k); [subst; tauto|]. f_equal. apply IH. tauto. }
    rewrite Hrest.
    assert (Hrm : aremove k l = l).
    { clear -Hnotin. induction l as [|[k' v'] l IH]; simpl in *; [reflexivity|].
      destruct (N.eqb_spec k k'); [subst; tauto|]. f_equal. apply IH. tauto. }
    rewrite Hrm, filter_true. reflexivity.
  - simpl. destruct (N.eqb_spec k txid); [congruence|].
    unfold pending_ids at 1. simpl. fold (pending_ids (map (fun e : N * txp => if fst e =? txid then (txid, newt) else e) l)).
    rewrite (IH Hu' Hl).
    rewrite !filter_true. rewrite !app_assoc. apply Permutation_app_tail, Permutation_app_comm.
Qed.


Lemma pending_ids_aremove_perm txid l old :
  keys_unique l -> alookup txid l = Some old ->
  Permutation (pending_ids l) (map fst (t_ids old) ++ pending_ids (aremove txid l)).
Proof.
  intros Hu Hl. induction l as [|[k v] l IH]; simpl in *; [discriminate|].
  inversion Hu as [|? ? Hnotin Hu']; subst.
  destruct (N.eqb_spec txid k) as [->|Hne].
  - inversion Hl; subst v. unfold pending_ids at 1. simpl.
    assert (Hrm : aremove k l = l).
    { clear -Hnotin. induction l as [|[k' v'] l IH]; simpl in *; [reflexivity|].
      destruct (N.eqb_spec k k'); [subst; tauto|]. f_equal. apply IH. tauto. }
    rewrite Hrm. reflexivity.
  - change (pending_ids ((k, v) :: aremove txid l)) with (map fst (t_ids v) ++ pending_ids (aremove txid l)).
    rewrite (IH Hu' Hl). rewrite !app_assoc. apply Permutation_app_tail, Permutation_app_comm.
Qed.

(** Free moves exactly the run to pending (as multisets), whatever was pending before. *)
Theorem free_page_pending txid id ov s s' :
  keys_unique (pending s) ->
  free_page txid id ov s = Ok s' ->
  Permutation (pending_ids (pending s')) (pending_ids (pending s) ++ run id (ov + 1)).
Proof.
  intros Hu. unfold free_page. destruct (id <=? 1); [discriminate|].
  destruct (existsb _ _); [discriminate|]. intros H. inversion H; subst; clear H. simpl.
  destruct (alookup txid (pending s)) as [old|] eqn:Hl.
  - rewrite (pending_ids_replace _ _ _ Hu old Hl). rewrite filter_true. simpl.
    rewrite map_app, map_map. simpl. rewrite map_id.
    rewrite (pending_ids_aremove_perm txid (pending s) old Hu Hl).
    rewrite <- !app_assoc. apply Permutation_app_head, Permutation_app_comm.
  - rewrite pending_ids_app. unfold pending_ids at 3. simpl. rewrite app_nil_r, map_map. simpl. rewrite map_id.
    reflexivity.
Qed.

(** Free refuses (panics) on meta pages and on pages already free or pending: the guard the code has. *)
Theorem free_page_guard txid id ov s :
  (id <= 1 \/ exists x, In x (run id (ov + 1)) /\ In x (cache s)) <-> free_page txid id ov s = Panic.
Proof.
  unfold free_page. destruct (N.leb_spec id 1) as [Hle|Hgt].
  - split; [reflexivity | intros _; left; exact Hle].
  - destruct (existsb _ _) eqn:E.
    + split; [reflexivity|]. intros _. right. apply existsb_exists in E. destruct E as [x [Hx Hm]].
      exists x. split; [exact Hx | now apply memN_in].
    + split; [|discriminate]. intros [H|[x [Hx Hc]]]; [lia|].
      assert (existsb (fun x => memN x (cache s)) (run id (ov + 1)) = true).
      { apply existsb_exists. exists x. split; [exact Hx | now apply memN_in]. }
      congruence.
Qed.

(** * Serialisation *)

Lemma copyall_length s : length (copyall s) = N.to_nat (count s).
Proof.
  unfold copyall, count, free_count, pending_count.
  rewrite mergeN_length, sortN_length. lia.
Qed.

Lemma copyall_perm s : Permutation (cache s) (copyall s).
Proof.
  unfold copyall, cache. rewrite <- mergeN_perm. apply Permutation_app_head, sortN_perm.
Qed.

Lemma firstn_all' {A} (l : list A) n : n = length l -> firstn n l = l.
Proof. intros ->. apply firstn_all. Qed.

(** Read(Write s) recovers exactly the sorted free+pending list, for EVERY length - including the
    0xFFFF-count convention (no numeral trick: [count s] is an arbitrary N). *)
Theorem read_write_roundtrip s : read_ids (write_img s) = copyall s.
Proof.
  unfold write_img, read_ids.
  pose proof (copyall_length s) as HL.
  destruct (N.eqb_spec (count s) 0) as [E0|N0].
  - simpl. rewrite E0 in HL. simpl in HL. destruct (copyall s); [reflexivity | discriminate].
  - destruct (N.ltb_spec (count s) 65535) as [Hlt|Hge].
    + destruct (N.eqb_spec (count s) 65535); [lia|]. apply firstn_all'. now rewrite HL.
    + simpl. apply firstn_all'. now rewrite HL.
Qed.

(** ... so a fresh list that reads the image holds free ∪ pending as its free set. *)
Corollary read_write_set s x : In x (read_ids (write_img s)) <-> In x (free s) \/ In x (pending_ids (pending s)).
Proof.
  rewrite read_write_roundtrip. rewrite <- in_app_iff. fold (cache s).
  split; apply Permutation_in; [symmetry|]; apply copyall_perm.
Qed.

(** EstimatedWritePageSize never underestimates what Write touches (16-byte header + 8 bytes per u64 written). *)
Theorem estimate_sufficient s :
  16 + 8 * N.of_nat (length (snd (write_img s))) <= estimated_write_size s.
Proof.
  unfold write_img, estimated_write_size.
  pose proof (copyall_length s) as HL.
  destruct (N.eqb_spec (count s) 0) as [E0|N0]; cbn [snd length].
  - lia.
  - destruct (N.ltb_spec (count s) 65535) as [Hlt|Hge]; cbn [snd length].
    + rewrite HL, N2Nat.id. destruct (N.leb_spec 65535 (count s)); lia.
    + rewrite HL. destruct (N.leb_spec 65535 (count s)); lia.
Qed.

