(** TreeOrderProofs: the key-order hypothesis of the cursor theorems ([Cursor.wf (to_ctree t) = true]) seen from Tree.nt.
    W1: an inductive mirror [ob lo hi t] of [Cursor.wfb] on nt; on aligned trees it is EXACTLY Cursor.wfb ([ob_iff_wfb]).
    Reduction of W3: a tree without stale separators ([ff]) that is globally sorted, has no empty non-root vertex and a
    non-empty root satisfies Cursor.wf ([ff_cursor_wf]); what remains open is [ff t'] for the committed tree.
    W2/W3 themselves are NOT proved; this file shows by vm_compute that they are FALSE as first sketched: [Cursor.wfb] is not an
    invariant of rebalance (only of rebalance followed by spill), and W3 needs one more hypothesis (a first child that
    holds keys below its stale separator must be materialised down to the leaf that holds them). *)
From Bbolt Require Import Base Consts Spec Node Tree NodeProofs TreeProofs TreeNestedProofs TreeCursorProofs.
From Bbolt Require Cursor CursorNavProofs.

(** * W1: the order invariant on nt, mirroring Cursor.wfb *)
Definition next_hi (il : list inode) (i : nat) (hi : option bytes) : option bytes :=
  match nth_error il (S i) with Some y => Some (i_key y) | None => hi end.

Inductive ob : option bytes -> option bytes -> nt -> Prop :=
| ob_leaf lo hi h il : h_leaf h = true -> Cursor.str_inc (map i_key il) = true ->
    Forall (fun x => Cursor.in_lo lo (i_key x) = true /\ Cursor.in_hi (i_key x) hi = true) il -> ob lo hi (NT h il [])
| ob_branch lo hi h il kids : h_leaf h = false -> il <> [] -> length il = length kids ->
    Cursor.str_inc (map i_key il) = true -> Forall (fun x => Cursor.in_hi (i_key x) hi = true) il ->
    (forall i x c, nth_error il i = Some x -> nth_error kids i = Some c ->
       ob (if (i =? 0)%nat then lo else Some (i_key x)) (next_hi il i hi) c) ->
    ob lo hi (NT h il kids).

Lemma wfgo_of_nth lo hi : forall cs first,
  (forall i s c, nth_error cs i = Some (s, c) ->
     Cursor.wfb c (if first && (i =? 0)%nat then lo else Some s)
                (match nth_error cs (S i) with Some (s', _) => Some s' | None => hi end) = true) ->
  CursorNavProofs.wfgo lo hi first cs = true.
Proof.
  induction cs as [|[k c] cs IH]; intros first H; [reflexivity|]. cbn [CursorNavProofs.wfgo]. apply andb_true_iff. split.
  - specialize (H 0%nat k c eq_refl). cbn [nth_error] in H. rewrite andb_true_r in H. destruct cs as [|[k' c'] cs']; exact H.
  - apply IH. intros i s c0 Hn. specialize (H (S i) s c0 Hn). cbn [Nat.eqb] in H. rewrite andb_false_r in H. exact H.
Qed.

Lemma map_fst_combine {A B} : forall (a : list A) (b : list B), length a = length b -> map fst (combine a b) = a.
Proof. induction a as [|x a IH]; intros [|y b] L; cbn in *; try discriminate; [reflexivity|]. now rewrite IH by lia. Qed.

Lemma nth_combine {A B} : forall (a : list A) (b : list B) i x y, nth_error (combine a b) i = Some (x, y) ->
  nth_error a i = Some x /\ nth_error b i = Some y.
Proof.
  induction a as [|x0 a IH]; intros [|y0 b] i x y H; try (destruct i; discriminate).
  destruct i; cbn in *; [inversion H; auto | eauto].
Qed.
Lemma nth_combine_none {A B} : forall (a : list A) (b : list B) i, length a = length b -> nth_error (combine a b) i = None -> nth_error a i = None.
Proof.
  induction a as [|x0 a IH]; intros [|y0 b] i L H; cbn in *; try discriminate; [destruct i; reflexivity|].
  destruct i; cbn in *; [discriminate | apply (IH b); auto; lia].
Qed.

Lemma map_nth_error_inv {A B} (f : A -> B) : forall l i y, nth_error (map f l) i = Some y -> exists x, nth_error l i = Some x /\ f x = y.
Proof. induction l as [|x l IH]; intros [|i] y H; cbn in *; try discriminate; [inversion H; eauto | eauto]. Qed.

(** soundness: the mirror implies the cursor model's key-order well-formedness *)
Theorem ob_wfb : forall d t lo hi, wf d t -> ob lo hi t -> Cursor.wfb (to_ctree t) lo hi = true.
Proof.
  induction d as [|d IH]; intros t lo hi W O; inversion W as [? ? Hl|? ? ? ? Hl Hlen Hk]; subst; rewrite to_ctree_eq, Hl.
  - inversion O as [? ? ? ? _ SI FB|]; subst; [|congruence]. cbn [Cursor.wfb]. rewrite map_map. cbn [elem fst].
    apply andb_true_iff. split; [exact SI|]. apply forallb_forall. intros k Hk. apply in_map_iff in Hk. destruct Hk as (x & <- & Hx).
    rewrite Forall_forall in FB. destruct (FB x Hx) as [-> ->]. reflexivity.
  - inversion O as [|? ? ? ? ? _ Ne _ SI FH CH]; subst; [congruence|].
    rewrite CursorNavProofs.wfb_branch.
    assert (Lc : length (map i_key ins) = length (map to_ctree kids)) by now rewrite !map_length.
    rewrite (map_fst_combine _ _ Lc). repeat (apply andb_true_iff; split).
    + rewrite combine_length, !map_length, <- Hlen, Nat.min_id. destruct ins; [congruence | reflexivity].
    + exact SI.
    + apply forallb_forall. intros k Hk0. apply in_map_iff in Hk0. destruct Hk0 as (x & <- & Hx). rewrite Forall_forall in FH. auto.
    + apply wfgo_of_nth. intros i s c' Hn. apply nth_combine in Hn. destruct Hn as [Hs Hc].
      apply map_nth_error_inv in Hs. apply map_nth_error_inv in Hc.
      destruct Hs as (x & Ex & <-). destruct Hc as (c & Ec & <-).
      cbn [andb]. specialize (CH i x c Ex Ec).
      assert (Wc : wf d c). { rewrite Forall_forall in Hk. apply Hk. eapply nth_error_In; eauto. }
      replace (match nth_error (combine (map i_key ins) (map to_ctree kids)) (S i) with Some (s', _) => Some s' | None => hi end)
        with (next_hi ins i hi); [apply IH; auto|].
      unfold next_hi. destruct (nth_error (combine (map i_key ins) (map to_ctree kids)) (S i)) as [[s' c2]|] eqn:En.
      * apply nth_combine in En. destruct En as [Es _]. apply map_nth_error_inv in Es. destruct Es as (y & Ey & <-). now rewrite Ey.
      * apply (nth_combine_none _ _ _ Lc) in En. destruct (nth_error ins (S i)) as [y|] eqn:Ey; [|reflexivity].
        rewrite (map_nth_error i_key _ _ Ey) in En. discriminate.
Qed.

Corollary ob_cursor_wf t : aligned t -> ob None None t -> Cursor.wf (to_ctree t) = true.
Proof. intros [d W] O. unfold Cursor.wf. eapply ob_wfb; eauto. Qed.
Print Assumptions ob_cursor_wf.

(** * W2/W3: what is false, by vm_compute *)
Definition lfp (mat : bool) (pg : N) (k : N) : nt := NT (mkh mat false pg [k] true) [lf k [k]] [].
(** root (page 2, materialised) over two branch children: L (page 3: leaves {10}, {20}) and R (page 4, materialised and
    unbalanced: leaves {55} under the STALE separator 60, and {70}).  The key 55 is below its leaf's separator 60, which
    Cursor.wfb allows for a FIRST child (the comment in Cursor.v: "an insert of a new smallest key lands there before the
    next spill").  [r0mat]: whether that leaf is a materialised node (as after a real Put) or a page. *)
Definition stale (r0mat : bool) : nt :=
  NT (mkh true false 2 [10] false) [br 10 3; br 50 4]
     [ NT (mkh false false 3 [10] false) [br 10 5; br 20 6] [lfp false 5 10; lfp false 6 20];
       NT (mkh true true 4 [50] false) [br 60 7; br 70 8] [NT (mkh r0mat false 7 [60] true) [lf 55 [55]] []; lfp false 8 70] ].

(** (1) Cursor.wf is NOT an invariant of rebalance: R is merged into L, so the leaf {55} is no longer a first child but
    keeps the separator 60 until spill re-keys it (it is materialised): wf true -> false -> true. *)
Example wf_broken_between_rebalance_and_spill :
  Cursor.wf (to_ctree (stale true)) = true /\
  match rebalance_all 4096 50 10 (stale true) [4] with
  | Ok (t1, _) => Cursor.wf (to_ctree t1) = false /\ map i_key (ins_of t1) = [[10]; [20]; [60]; [70]] | _ => False end /\
  match commit_tree 4096 50 10 (stale true) [4] with
  | Ok (t', _) => Cursor.wf (to_ctree t') = true /\ map i_key (ins_of t') = [[10]; [20]; [55]; [70]] | _ => False end.
Proof. vm_compute. repeat split; reflexivity. Qed.

(** (2) W3 as sketched is FALSE in the model: same tree, but the leaf {55} is a PAGE.  Every hypothesis of P4 holds
    (aligned, parent-closed, distinct ids, no empty vertex) and Cursor.wf holds before the commit, but spill re-keys only
    materialised children, so the committed tree keeps 55 under the separator 60 as a non-first child: Cursor.wf = false.
    (Not reachable in bbolt: a key below a stale separator gets there by node.put, which materialises the path to it;
    on disk every separator is <= the keys below it.  The missing hypothesis is exactly that.) *)
Example w3_needs_stale_first_children_materialised :
  Cursor.wf (to_ctree (stale false)) = true /\ wf 2 (stale false) /\ closed false (stale false) /\
  NoDup (ids (stale false)) /\ good [4] (stale false) /\
  match commit_tree 4096 50 10 (stale false) [4] with
  | Ok (t', _) => Cursor.wf (to_ctree t') = false /\ map i_key (ins_of t') = [[10]; [20]; [60]; [70]] | _ => False end.
Proof.
  assert (Pg : forall pg k, closed false (lfp false pg k)).
  { intros. apply closed_page. constructor; [reflexivity | intros E; discriminate | constructor]. }
  split; [vm_compute; reflexivity|]. split; [repeat (constructor; auto)|]. split.
  { apply closed_mat; [reflexivity|]. constructor.
    - apply closed_page. constructor; [reflexivity | intros E; discriminate|].
      repeat constructor; try reflexivity; intros E; discriminate.
    - constructor; [|constructor]. apply closed_mat; [reflexivity|]. constructor; [|constructor; [apply Pg | constructor]].
      apply closed_page. constructor; [reflexivity | intros E; discriminate | constructor]. }
  split; [vm_compute; repeat constructor; cbn; intuition discriminate|]. split.
  { unfold good, stale. cbn [kids_of]. repeat (constructor; [apply ag_nonempty; [discriminate|cbn [kids_of]]|]); repeat constructor;
      try (apply ag_nonempty; [discriminate | constructor]). }
  vm_compute. split; reflexivity.
Qed.

(** the committed trees of the earlier examples are key-ordered in the cursor model's sense *)
Example ex1_ex2_cursor_wf :
  match commit_tree 4096 50 10 ex1 [4] with Ok (t', _) => Cursor.wf (to_ctree t') | _ => false end = true /\
  match commit_tree 1024 50 10 ex2 [7] with Ok (t', _) => Cursor.wf (to_ctree t') | _ => false end = true.
Proof. vm_compute. split; reflexivity. Qed.

(** Proposed invariant for a future proof of W3 (not proved): [ob lo hi t] as above, strengthened by
    (a) every separator of a branch vertex is also >= lo (needed when child 0 is removed or a right sibling is merged in), and
    (b) "fresh": at every branch vertex, a first child that is NOT materialised holds only keys >= its separator
        (recursively: the leftmost path below a stale separator is materialised down to the leaf with the smaller key).
    Rebalance preserves (a)+(b) but NOT ob (example 1); spill restores ob because it re-keys every materialised child by
    its first key; so W3 has to be proved for rebalance_all-then-spill_root as a whole, with an intermediate invariant in
    which a materialised non-first child may still hold keys below its separator (but >= the previous sibling's keys). *)

(** * the converse of W1: on aligned trees [ob] is EXACTLY Cursor.wfb *)
Lemma next_hi_eq il kids i hi : length il = length kids ->
  match nth_error (combine (map i_key il) (map to_ctree kids)) (S i) with Some (s', _) => Some s' | None => hi end = next_hi il i hi.
Proof.
  intros L. assert (Lc : length (map i_key il) = length (map to_ctree kids)) by now rewrite !map_length.
  unfold next_hi. destruct (nth_error (combine (map i_key il) (map to_ctree kids)) (S i)) as [[s' c2]|] eqn:En.
  - apply nth_combine in En. destruct En as [Es _]. apply map_nth_error_inv in Es. destruct Es as (y & Ey & <-). now rewrite Ey.
  - apply (nth_combine_none _ _ _ Lc) in En. destruct (nth_error il (S i)) as [y|] eqn:Ey; [|reflexivity].
    rewrite (map_nth_error i_key _ _ Ey) in En. discriminate.
Qed.

Lemma nth_combine_some {A B} : forall (a : list A) (b : list B) i x y, nth_error a i = Some x -> nth_error b i = Some y ->
  nth_error (combine a b) i = Some (x, y).
Proof.
  induction a as [|x0 a IH]; intros [|y0 b] i x y Ha Hb; try (destruct i; discriminate).
  destruct i; cbn in *; [congruence | eauto].
Qed.

Theorem wfb_ob : forall d t lo hi, wf d t -> Cursor.wfb (to_ctree t) lo hi = true -> ob lo hi t.
Proof.
  induction d as [|d IH]; intros t lo hi W H; inversion W as [? ? Hl|? ? ? ? Hl Hlen Hk]; subst; rewrite to_ctree_eq, Hl in H.
  - cbn [Cursor.wfb] in H. rewrite map_map in H. cbn [elem fst] in H. apply andb_true_iff in H. destruct H as [SI FB].
    constructor; auto. apply Forall_forall. intros x Hx. rewrite forallb_forall in FB.
    specialize (FB (i_key x) (in_map i_key _ _ Hx)). now apply andb_true_iff in FB.
  - rewrite CursorNavProofs.wfb_branch in H.
    assert (Lc : length (map i_key ins) = length (map to_ctree kids)) by now rewrite !map_length.
    rewrite (map_fst_combine _ _ Lc) in H.
    apply andb_true_iff in H. destruct H as [H W4]. apply andb_true_iff in H. destruct H as [H W3]. apply andb_true_iff in H. destruct H as [W1 W2].
    constructor; auto.
    + intros E. subst ins. cbn in W1. discriminate.
    + apply Forall_forall. intros x Hx. rewrite forallb_forall in W3. apply W3. now apply in_map.
    + intros i x c Ex Ec.
      pose proof (nth_combine_some _ _ i _ _ (map_nth_error i_key _ _ Ex) (map_nth_error to_ctree _ _ Ec)) as En.
      pose proof (CursorNavProofs.wfgo_nth lo hi _ true i _ _ W4 En) as Hc. cbn [andb] in Hc.
      rewrite (next_hi_eq _ _ _ _ Hlen) in Hc. apply (IH c); auto.
      rewrite Forall_forall in Hk. apply Hk. eapply nth_error_In; eauto.
Qed.

Theorem ob_iff_wfb d t lo hi : wf d t -> (ob lo hi t <-> Cursor.wfb (to_ctree t) lo hi = true).
Proof. intros W. split; [apply (ob_wfb d); auto | apply (wfb_ob d); auto]. Qed.
Corollary ob_iff_cursor_wf t : aligned t -> (ob None None t <-> Cursor.wf (to_ctree t) = true).
Proof. intros [d W]. apply (ob_iff_wfb d t None None W). Qed.
Print Assumptions ob_iff_cursor_wf.

(** * the spill half, reduced: a criterion for [ob] on a tree WITHOUT stale separators
    [ff t] ("fully fresh"): at every branch vertex every separator is a lower bound of the keys below its child, and
    the keys below child i are smaller than separator i+1.  This is what a committed tree looks like (spill re-keys every
    materialised child by its first key; unmaterialised children are fresh by hypothesis (b)).  Together with the global
    key order, P4 (no empty non-root vertex) and a non-empty root it gives the cursor model's well-formedness; so W3 is
    reduced to showing [ff t'] for the committed tree (NOT proved here). *)
Definition lbk (k : bytes) (l : list inode) : Prop := Forall (fun y => blt (i_key y) k = false) l.
Definition ubk (l : list inode) (k : bytes) : Prop := Forall (fun y => blt (i_key y) k = true) l.
Definition inb (lo hi : option bytes) (l : list inode) : Prop :=
  Forall (fun y => Cursor.in_lo lo (i_key y) = true /\ Cursor.in_hi (i_key y) hi = true) l.

Inductive ff : nt -> Prop :=
| ff_leaf h il kids : h_leaf h = true -> ff (NT h il kids)
| ff_branch h il kids : h_leaf h = false ->
    (forall i x c, nth_error il i = Some x -> nth_error kids i = Some c -> lbk (i_key x) (flat c) /\ ff c) ->
    (forall i y c, nth_error il (S i) = Some y -> nth_error kids i = Some c -> ubk (flat c) (i_key y)) ->
    ff (NT h il kids).

Lemma str_inc_sorted ks : Cursor.str_inc ks = keys_sorted ks.
Proof. induction ks as [|k r IH]; [reflexivity|]. cbn. destruct r; [reflexivity|]. now rewrite IH. Qed.

Lemma str_inc_nth : forall l, (forall i a b, nth_error l i = Some a -> nth_error l (S i) = Some b -> blt a b = true) -> Cursor.str_inc l = true.
Proof.
  induction l as [|k r IH]; intros H; [reflexivity|]. cbn [Cursor.str_inc]. destruct r as [|k' r']; [reflexivity|].
  apply andb_true_iff. split; [apply (H 0%nat); reflexivity|]. apply IH. intros i a b Ha Hb. apply (H (S i)); auto.
Qed.

Lemma flat_nonempty : forall d c, wf d c -> ins_of c <> [] -> good [] c -> flat c <> [].
Proof.
  unfold good. induction d as [|d IH]; intros c W Ne G; inversion W as [? ? Hl|? ? ? ? Hl Hlen Hk]; subst;
    rewrite flat_eq, Hl; cbn [ins_of kids_of] in *; [exact Ne|].
  destruct kids as [|c0 kr]; [destruct ins; [congruence | discriminate]|]. cbn [flat_map].
  pose proof (Forall_inv G) as A0. pose proof (Forall_inv Hk) as W0.
  intros E. apply app_eq_nil in E. destruct E as [E _]. revert E. apply (IH c0 W0); [now apply ag_nil_ne | now apply ag_kids].
Qed.

Lemma flat_kid_incl h il kids i c y : h_leaf h = false -> nth_error kids i = Some c -> In y (flat c) -> In y (flat (NT h il kids)).
Proof. intros Hl Ec Hy. rewrite flat_eq, Hl. apply in_flat_map. exists c. split; auto. eapply nth_error_In; eauto. Qed.

Theorem ff_ob : forall d t lo hi, wf d t -> isorted (flat t) -> ff t -> ins_of t <> [] -> good [] t -> inb lo hi (flat t) -> ob lo hi t.
Proof.
  induction d as [|d IH]; intros t lo hi W Srt F Ne G B; inversion W as [? ? Hl|? ? ? ? Hl Hlen Hk]; subst; cbn [ins_of] in Ne.
  - rewrite flat_eq, Hl in Srt, B. constructor; auto.
  - inversion F as [? ? ? Hl'|? ? ? _ FL FU]; subst; [congruence|].
    assert (Kid : forall i x, nth_error ins i = Some x -> exists c, nth_error kids i = Some c).
    { intros i x Ex. destruct (nth_error kids i) as [c|] eqn:Ec; [eauto|]. apply nth_error_None in Ec.
      apply nth_error_Some_lt in Ex. lia. }
    assert (Wit : forall i c, nth_error kids i = Some c -> exists y, In y (flat c)).
    { intros i c Ec. unfold good in G. cbn [kids_of] in G. rewrite Forall_forall in G, Hk.
      pose proof (nth_error_In _ _ Ec) as Hc.
      pose proof (flat_nonempty d c (Hk c Hc) (ag_nil_ne _ (G c Hc)) (ag_kids _ _ (G c Hc))) as Nf.
      destruct (flat c) as [|y r]; [congruence | exists y; now left]. }
    assert (Bin : forall i c y, nth_error kids i = Some c -> In y (flat c) ->
              Cursor.in_lo lo (i_key y) = true /\ Cursor.in_hi (i_key y) hi = true).
    { intros i c y Ec Hy. unfold inb in B. rewrite Forall_forall in B. apply B. eapply flat_kid_incl; eauto. }
    constructor; auto.
    + apply str_inc_nth. intros i a b Ha Hb. apply map_nth_error_inv in Ha. apply map_nth_error_inv in Hb.
      destruct Ha as (x & Ex & <-). destruct Hb as (x' & Ex' & <-).
      destruct (Kid i x Ex) as (c & Ec). destruct (Wit i c Ec) as (y & Hy).
      destruct (FL i x c Ex Ec) as [Lb _]. pose proof (FU i x' c Ex' Ec) as Ub.
      unfold lbk, ubk in *. rewrite Forall_forall in Lb, Ub.
      eapply CursorNavProofs.blt_le_lt_trans; [apply (Lb y Hy) | apply (Ub y Hy)].
    + apply Forall_forall. intros x Hx. apply In_nth_error in Hx. destruct Hx as (i & Ex).
      destruct (Kid i x Ex) as (c & Ec). destruct (Wit i c Ec) as (y & Hy). destruct (FL i x c Ex Ec) as [Lb _].
      unfold lbk in Lb. rewrite Forall_forall in Lb. destruct (Bin i c y Ec Hy) as [_ Bh].
      destruct hi as [hh|]; [|reflexivity]. cbn [Cursor.in_hi] in *.
      eapply CursorNavProofs.blt_le_lt_trans; [apply (Lb y Hy) | exact Bh].
    + intros i x c Ex Ec. destruct (FL i x c Ex Ec) as [Lb Fc].
      unfold good in G. cbn [kids_of] in G. rewrite Forall_forall in G, Hk. pose proof (nth_error_In _ _ Ec) as Hc.
      destruct (nth_error_decomp _ _ _ Ec) as (a & b & Ek & La).
      assert (Sc : isorted (flat c)).
      { rewrite flat_eq, Hl, Ek, flat_map_app in Srt. cbn [flat_map] in Srt. eapply isorted_mid; eauto. }
      apply (IH c); auto; [apply ag_nil_ne; auto | apply ag_kids; auto|].
      apply Forall_forall. intros y Hy. destruct (Bin i c y Ec Hy) as [Bl Bh]. split.
      * destruct i; [exact Bl|]. cbn [Nat.eqb Cursor.in_lo]. unfold lbk in Lb. rewrite Forall_forall in Lb. now rewrite (Lb y Hy).
      * unfold next_hi. destruct (nth_error ins (S i)) as [x'|] eqn:Ex'; [|exact Bh].
        pose proof (FU i x' c Ex' Ec) as Ub. unfold ubk in Ub. rewrite Forall_forall in Ub. cbn [Cursor.in_hi]. auto.
Qed.

(** W3 reduced to [ff t']: *)
Corollary ff_cursor_wf t : aligned t -> isorted (flat t) -> ff t -> ins_of t <> [] -> good [] t -> Cursor.wf (to_ctree t) = true.
Proof.
  intros [d W] S F Ne G. apply ob_cursor_wf; [exists d; auto|]. apply (ff_ob d); auto.
  apply Forall_forall. intros y _. split; reflexivity.
Qed.
Print Assumptions ff_cursor_wf.

(** * (i) the committed root is not empty when the content is not, and W3 modulo [ff t'] *)
Theorem commit_tree_root_nonempty ps fill fuel t order t' evs :
  aligned t -> flat t <> [] -> commit_tree ps fill fuel t order = Ok (t', evs) -> ins_of t' <> [].
Proof.
  intros A Ne H. destruct (commit_tree_flat _ _ _ _ _ _ _ A H) as [F [d' W']].
  intros E. destruct (wf_empty _ _ W' E) as [_ F0]. congruence.
Qed.

(** End to end, with the ONE open obligation made explicit: under the P4 hypotheses, global key order and non-empty content,
    if the committed tree has no stale separator ([ff t']) then it satisfies the cursor model's key-order well-formedness.
    [ff t'] is what remains to be derived from (a)/(b) on t (not proved). *)
Theorem commit_tree_cursor_wf_if_ff ps fill fuel t order t' evs d :
  wf d t -> (d < fuel)%nat -> closed false t -> NoDup (ids t) -> good order t ->
  isorted (flat t) -> flat t <> [] ->
  commit_tree ps fill fuel t order = Ok (t', evs) -> ff t' -> Cursor.wf (to_ctree t') = true.
Proof.
  intros W L C ND G Srt Ne H F.
  destruct (commit_tree_no_empty _ _ _ _ _ _ _ _ W L C ND G H) as [G' A'].
  destruct (commit_tree_flat _ _ _ _ _ _ _ (ex_intro _ d W) H) as [Fl _].
  apply ff_cursor_wf; [exact A' | | exact F | | exact G'].
  - unfold isorted in *. rewrite Fl. exact Srt.
  - apply (commit_tree_root_nonempty ps fill fuel t order t' evs); auto. exists d; auto.
Qed.
Print Assumptions commit_tree_cursor_wf_if_ff.

(** the case where nothing is open: the committed root is a leaf (small buckets) - [ff] is trivial there *)
Corollary commit_tree_cursor_wf_leaf ps fill fuel t order t' evs :
  aligned t -> isorted (flat t) -> commit_tree ps fill fuel t order = Ok (t', evs) ->
  h_leaf (hd_of t') = true -> Cursor.wf (to_ctree t') = true.
Proof.
  intros A Srt H Lf. destruct (commit_tree_flat _ _ _ _ _ _ _ A H) as [Fl [d' W']].
  apply ob_cursor_wf; [exists d'; auto|].
  destruct (wf_leaf_inv _ _ W' Lf) as (-> & K & E). destruct t' as [h il kids]. cbn [hd_of kids_of ins_of] in *. subst kids.
  constructor; auto.
  - rewrite str_inc_sorted. rewrite <- E. unfold isorted, keys_of in Srt. now rewrite Fl.
  - apply Forall_forall. intros x _. split; reflexivity.
Qed.
Print Assumptions commit_tree_cursor_wf_leaf.
