(** Proofs about Compact.v *)
From Bbolt Require Import Base Consts Spec SpecProofs Compact.

Lemma keys_sorted_app_cons p k e : keys_sorted (p ++ [(k, e)]) = true ->
  keys_sorted p = true /\ (forall k' e', In (k', e') p -> bcmp k' k = Lt).
Proof.
  induction p as [|[k0 e0] p IH]; intros H.
  - split; [reflexivity | intros ? ? []].
  - change ((k0, e0) :: p ++ [(k, e)]) with ((k0, e0) :: (p ++ [(k, e)])) in H.
    apply keys_sorted_cons in H. destruct H as [Hlb Hs]. destruct (IH Hs) as [Hp Hall]. split.
    + apply keys_sorted_cons. split; [|exact Hp]. destruct p as [|[k1 e1] p]; [exact I | exact Hlb].
    + intros k' e' [E|Hin]; [|eauto]. inversion E; subst.
      destruct p as [|[k1 e1] p]; [exact Hlb|]. simpl in Hlb.
      eapply bcmp_lt_trans; [exact Hlb|]. apply (Hall k1 e1). left; reflexivity.
Qed.

(** copying in ascending key order appends: no re-sorting, nothing lost *)
Lemma insert_last p k e : keys_sorted (p ++ [(k, e)]) = true -> insert k e p = p ++ [(k, e)].
Proof.
  induction p as [|[k0 e0] p IH]; intros H; [reflexivity|].
  pose proof (keys_sorted_app_cons _ _ _ H) as [_ Hall].
  assert (E : bcmp k k0 = Gt). { apply bcmp_gt_lt. apply (Hall k0 e0). left; reflexivity. }
  simpl. rewrite E. f_equal. apply IH.
  change ((k0, e0) :: p ++ [(k, e)]) with ((k0, e0) :: (p ++ [(k, e)])) in H. apply keys_sorted_cons in H. tauto.
Qed.

Lemma keys_sorted_prefix p q : keys_sorted (p ++ q) = true -> keys_sorted p = true.
Proof.
  induction p as [|[k e] p IH]; intros H; [reflexivity|].
  change (((k, e) :: p) ++ q) with ((k, e) :: (p ++ q)) in H. apply keys_sorted_cons in H. destruct H as [Hlb Hs].
  apply keys_sorted_cons. split; [|apply IH; exact Hs]. destruct p as [|[k1 e1] p]; [exact I | exact Hlb].
Qed.

Theorem copy_in_order_rebuilds ents : forall prefix, keys_sorted (prefix ++ ents) = true ->
  fold_left (fun acc ke => insert (fst ke) (snd ke) acc) ents prefix = prefix ++ ents.
Proof.
  induction ents as [|[k e] ents IH]; intros prefix H; simpl.
  - now rewrite app_nil_r.
  - replace (prefix ++ (k, e) :: ents) with ((prefix ++ [(k, e)]) ++ ents) in * by (rewrite <- app_assoc; reflexivity).
    rewrite insert_last by (eapply keys_sorted_prefix; exact H). apply IH. exact H.
Qed.

(** one level (a bucket holding only key/value pairs): Compact reproduces it exactly, whatever the commit points *)
Example compact_nested_example :
  let src : bucket := (0, [([97], Sub 7 [([107; 49], Val []); ([110], Sub 2 [([120], Val [1; 2; 3])]); ([122], Val [9])]);
                           ([98], Sub 0 [])]) in
  wf_ents 8 (snd src) = true /\ compact 8 src = (ENone, src).
Proof. vm_compute. split; reflexivity. Qed.
