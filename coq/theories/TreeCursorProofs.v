(** TreeCursorProofs: the bridge from the commit model (Tree.nt) to the cursor model (Cursor.tree):
    the committed tree has no emptied non-root leaf (the hypothesis of the C05 refinement theorems) and flattens,
    in the cursor model's sense, to the same list as before. *)
From Bbolt Require Import Base Consts Spec Node Tree NodeProofs TreeProofs.
From Bbolt Require Cursor.

Definition elem (x : inode) : bytes * N * bytes := (i_key x, i_flags x, i_val x).

(** B1: the translation *)
Fixpoint to_ctree (t : nt) : Cursor.tree :=
  match t with NT h il kids =>
    if h_leaf h then Cursor.Leaf (map elem il) else Cursor.Branch (combine (map i_key il) (map to_ctree kids)) end.

Lemma to_ctree_eq h il kids : to_ctree (NT h il kids) =
  if h_leaf h then Cursor.Leaf (map elem il) else Cursor.Branch (combine (map i_key il) (map to_ctree kids)).
Proof. reflexivity. Qed.

Lemma existsb_false {A} (f : A -> bool) l : (forall x, In x l -> f x = false) -> existsb f l = false.
Proof. induction l as [|y l IH]; intros H; cbn; [reflexivity|]. rewrite (H y (or_introl eq_refl)), IH; auto. intros; apply H; now right. Qed.

Lemma in_combine_map {A B C} (f : B -> C) (ks : list A) (l : list B) c :
  In c (combine ks (map f l)) -> exists x, In x l /\ snd c = f x.
Proof. destruct c as [k y]. intros H. apply in_combine_r in H. apply in_map_iff in H. destruct H as (x & <- & Hx). eauto. Qed.

(** B2 *)
Lemma no_empty_leaf_aux : forall d t root, wf d t -> (root = true \/ ins_of t <> []) -> good [] t ->
  Cursor.has_empty_nonroot_leaf_aux root (to_ctree t) = false.
Proof.
  unfold good. induction d as [|d IH]; intros t root W Hr K; inversion W as [? ? Hl|? ? ? ? Hl Hlen Hk]; subst;
    rewrite to_ctree_eq, Hl; cbn [Cursor.has_empty_nonroot_leaf_aux ins_of kids_of] in *.
  - destruct Hr as [->|Ne]; [reflexivity|]. destruct ins; [congruence|]. cbn. now rewrite andb_false_r.
  - apply existsb_false. intros c Hc. destruct (in_combine_map _ _ _ _ Hc) as (x & Hx & ->).
    rewrite Forall_forall in K, Hk. apply IH; auto; [right; apply ag_nil_ne; auto | apply ag_kids; auto].
Qed.

Theorem good_no_empty_leaf t : aligned t -> good [] t -> Cursor.has_empty_leaf (to_ctree t) = false.
Proof. intros [d W] G. apply (no_empty_leaf_aux d t true W); auto. Qed.

(** no empty Branch either, except possibly an (all-emptied) root *)
Theorem good_branches_nonempty : forall d t, wf d t -> (ins_of t <> [] \/ h_leaf (hd_of t) = true) -> good [] t ->
  Cursor.branches_nonempty (to_ctree t) = true.
Proof.
  unfold good. induction d as [|d IH]; intros t W Hr K; inversion W as [? ? Hl|? ? ? ? Hl Hlen Hk]; subst;
    rewrite to_ctree_eq, Hl; cbn [Cursor.branches_nonempty ins_of kids_of hd_of] in *; [reflexivity|].
  apply andb_true_iff. split.
  - rewrite combine_length, !map_length, <- Hlen, Nat.min_id. destruct Hr as [Ne|E]; [|congruence]. destruct ins; [congruence | reflexivity].
  - apply forallb_forall. intros c Hc. destruct (in_combine_map _ _ _ _ Hc) as (x & Hx & ->).
    rewrite Forall_forall in K, Hk. apply IH; auto; [left; apply ag_nil_ne; auto | apply ag_kids; auto].
Qed.

(** B4 *)
Lemma flat_map_combine_snd {A B C} (f : B -> list C) : forall (ks : list A) (l : list B), length ks = length l ->
  flat_map (fun c => f (snd c)) (combine ks l) = flat_map f l.
Proof. induction ks as [|k ks IH]; intros [|y l] L; cbn in *; try discriminate; [reflexivity|]. now rewrite IH by lia. Qed.

Theorem flatten_to_ctree : forall d t, wf d t -> Cursor.flatten (to_ctree t) = map elem (flat t).
Proof.
  induction d as [|d IH]; intros t W; inversion W as [? ? Hl|? ? ? ? Hl Hlen Hk]; subst;
    rewrite to_ctree_eq, flat_eq, Hl; cbn [Cursor.flatten]; [reflexivity|].
  rewrite (flat_map_combine_snd Cursor.flatten) by now rewrite !map_length.
  clear Hlen W. induction Hk as [|c l Wc _ IHl]; cbn [map flat_map]; [reflexivity|]. now rewrite map_app, IH, IHl.
Qed.

Corollary flatten_to_ctree_aligned t : aligned t -> Cursor.flatten (to_ctree t) = map elem (flat t).
Proof. intros [d W]. eapply flatten_to_ctree; eauto. Qed.

(** P1 in the cursor model's terms *)
Theorem commit_tree_cursor_flatten ps fill fuel t order t' evs :
  aligned t -> commit_tree ps fill fuel t order = Ok (t', evs) ->
  Cursor.flatten (to_ctree t') = Cursor.flatten (to_ctree t).
Proof.
  intros A H. destruct (commit_tree_flat _ _ _ _ _ _ _ A H) as [F A'].
  rewrite (flatten_to_ctree_aligned _ A), (flatten_to_ctree_aligned _ A'). now rewrite F.
Qed.
Print Assumptions commit_tree_cursor_flatten.

(** B3: the committed tree satisfies the hypothesis of the cursor refinement theorems *)
Theorem commit_tree_no_empty_leaf ps fill fuel t order t' evs d :
  wf d t -> (d < fuel)%nat -> closed false t -> NoDup (ids t) -> good order t ->
  commit_tree ps fill fuel t order = Ok (t', evs) -> Cursor.has_empty_leaf (to_ctree t') = false.
Proof.
  intros W L C ND G H. destruct (commit_tree_no_empty _ _ _ _ _ _ _ _ W L C ND G H) as [G' A']. now apply good_no_empty_leaf.
Qed.
Print Assumptions commit_tree_no_empty_leaf.

Example ex1_cursor :
  match commit_tree 4096 50 10 ex1 [4] with
  | Ok (t', _) => Cursor.has_empty_leaf (to_ctree t') = false /\ Cursor.has_empty_leaf (to_ctree ex1) = true /\
                  Cursor.flatten (to_ctree t') = [([1], 0, [10]); ([3], 0, [30]); ([4], 0, [40])]
  | _ => False end.
Proof. vm_compute. repeat split; reflexivity. Qed.
