(** The invariant of the page-level transaction system and its consequences (C02 C06 C07 C10 C13). *)
From Bbolt Require Import Base BaseProofs Pager.

Record Inv (s : pg) : Prop := {
  iM : 2 <= g_mark s;
  iF1 : forall x, In x (g_free s) -> 2 <= x < g_mark s;
  iF2 : forall e, In e (g_pend s) -> 2 <= e_pg e < g_mark s;
  iF3 : forall x, In x (g_pages s) -> 2 <= x < g_mark s;
  iD1 : forall x, In x (g_free s) -> ~ In x (pend_pages s);
  iD2 : forall x, In x (g_free s) -> ~ In x (g_pages s);
  (* a pending page that is still part of the newest version was freed by the open writer *)
  iD3 : forall e, In e (g_pend s) -> In (e_pg e) (g_pages s) ->
        exists w, g_w s = Some w /\ e_tx e = w_id w /\ In (e_pg e) (w_freed w);
  iT : forall e, In e (g_pend s) -> e_tx e <= g_cur s \/ (exists w, g_w s = Some w /\ e_tx e = w_id w /\ In (e_pg e) (w_freed w));
  iA2 : forall e, In e (g_pend s) -> e_atx e <= g_cur s;
  iW : forall w, g_w s = Some w ->
       w_id w = g_cur s + 1 /\ g_mark s <= w_mark w /\
       (forall p, In p (w_freed w) -> In p (g_pages s) /\ In p (pend_pages s)) /\
       (forall p, In p (w_alloc w) -> 2 <= p < w_mark w /\ ~ In p (g_free s) /\ ~ In p (g_pages s) /\ ~ In p (pend_pages s)) /\
       (forall x, g_mark s <= x < w_mark w -> In x (w_alloc w));
  iCov : forall x, 2 <= x < g_mark s ->
         In x (g_free s) \/ In x (pend_pages s) \/ In x (g_pages s) \/ (exists w, g_w s = Some w /\ In x (w_alloc w));
  iH1 : In (g_cur s, g_pages s) (g_hist s);
  iH2 : forall v P, In (v, P) (g_hist s) -> v <= g_cur s /\ (forall x, In x P -> 2 <= x < g_mark s);
  iH3 : forall P, In (g_cur s, P) (g_hist s) -> P = g_pages s;
  iR1 : forall r, In r (g_readers s) -> r <= g_cur s;
  (* safety: a page of a version some open reader views is neither reusable nor being written *)
  iS1 : forall r P x, In r (g_readers s) -> In (r, P) (g_hist s) -> In x P ->
        ~ In x (g_free s) /\ (forall w, g_w s = Some w -> ~ In x (w_alloc w));
  (* a pending page belongs only to versions between its allocation and the transaction that freed it *)
  iS2 : forall e r P, In e (g_pend s) -> In r (g_readers s) -> In (r, P) (g_hist s) -> In (e_pg e) P ->
        e_atx e <= r /\ r < e_tx e;
  iA1 : forall p a, In (p, a) (g_atx s) -> a <= g_cur s \/ (exists w, g_w s = Some w /\ a = w_id w /\ In p (w_alloc w));
  iS3 : forall p a r P, In (p, a) (g_atx s) -> In r (g_readers s) -> In (r, P) (g_hist s) -> In p P -> a <= r
}.

(** * small list facts *)
Lemma in_minus x l rm : In x (minus l rm) <-> In x l /\ ~ In x rm.
Proof.
  unfold minus. rewrite filter_In. rewrite negb_true_iff. rewrite memN_false. reflexivity.
Qed.

Lemma in_remove1 x y l : In x (remove1 y l) -> In x l.
Proof.
  induction l as [|z l IH]; simpl; [tauto|]. destruct (y =? z); simpl; intuition.
Qed.

Lemma in_removeK k v k0 l : In (k, v) (removeK k0 l) <-> In (k, v) l /\ k <> k0.
Proof.
  unfold removeK. rewrite filter_In. simpl. rewrite negb_true_iff, N.eqb_neq. reflexivity.
Qed.

Lemma lookupN_in k l : lookupN k l <> 0 -> In (k, lookupN k l) l.
Proof.
  induction l as [|[k' v] l IH]; simpl; [congruence|].
  destruct (N.eqb_spec k k') as [->|Hne]; intros H; [left; reflexivity | right; auto].
Qed.

Lemma pend_pages_in s x : In x (pend_pages s) <-> exists e, In e (g_pend s) /\ e_pg e = x.
Proof.
  unfold pend_pages. rewrite in_map_iff. split; intros [e [A B]]; exists e; tauto.
Qed.

(** * opening *)
Theorem inv_open cur mark pages free : 2 <= mark ->
  (forall x, In x free -> 2 <= x < mark) -> (forall x, In x pages -> 2 <= x < mark) ->
  (forall x, In x free -> ~ In x pages) ->
  (forall x, 2 <= x < mark -> In x free \/ In x pages) ->
  Inv (pg_open cur mark pages free).
Proof.
  intros HM HF HP HD HC. constructor; simpl; try tauto; try (intros; discriminate); auto.
  - intros x Hx. destruct (HC x Hx); tauto.
  - intros v P [E|[]]. inversion E; subst. split; [lia | auto].
  - intros P [E|[]]. inversion E; reflexivity.
Qed.

(** * one step *)
Ltac inv_some H := match type of H with Some _ = Some _ => inversion H; subst; clear H end.
Ltac dI I := destruct I as [M0 F1 F2 F3 D1 D2 D3 T A2 W Cov H1 H2 H3 R1 S1 S2 A1 S3].

Lemma inv_beginr s : Inv s -> forall s', pstep s LBeginR = Some s' -> Inv s'.
Proof.
  intros I s' H. simpl in H. inv_some H. dI I. constructor; simpl; auto.
  - intros r [<-|Hr]; [lia | auto].
  - intros r P x [<-|Hr] HP Hx; [|eauto].
    apply H3 in HP. subst P. split; [intros HF; exact (D2 _ HF Hx)|].
    intros w Hw Ha. destruct (W w Hw) as (_ & _ & _ & Wa & _). destruct (Wa _ Ha) as (_ & _ & Hn & _). tauto.
  - intros e r P He [<-|Hr] HP Hx; [|eauto].
    apply H3 in HP. subst P. destruct (D3 e He Hx) as (w & Hw & Et & _).
    destruct (W w Hw) as (Eid & _). split; [apply A2; exact He | lia].
  - intros p a r P Ha [<-|Hr] HP Hx; [|eauto].
    apply H3 in HP. subst P. destruct (A1 _ _ Ha) as [Hle|(w & Hw & _ & Hal)]; [exact Hle|].
    destruct (W w Hw) as (_ & _ & _ & Wa & _). destruct (Wa _ Hal) as (_ & _ & Hn & _). tauto.
Qed.

Lemma inv_endr s r : Inv s -> forall s', pstep s (LEndR r) = Some s' -> Inv s'.
Proof.
  intros I s' H. simpl in H. destruct (memN r (g_readers s)); [|discriminate]. inv_some H. dI I.
  constructor; simpl; auto.
  - intros r0 Hr. apply in_remove1 in Hr. auto.
  - intros r0 P x Hr. apply in_remove1 in Hr. eauto.
  - intros e r0 P He Hr. apply in_remove1 in Hr. eauto.
  - intros p a r0 P Ha Hr. apply in_remove1 in Hr. eauto.
Qed.

Lemma releasable_spec readers e : releasable readers e = true ->
  forall r, In r readers -> ~ (e_atx e <= r /\ r < e_tx e).
Proof.
  unfold releasable. rewrite negb_true_iff. intros H r Hr [A B].
  assert (X : existsb (seen_by e) readers = true).
  { apply existsb_exists. exists r. split; [exact Hr|]. unfold seen_by.
    apply andb_true_iff. split; [apply N.leb_le; exact A | apply N.ltb_lt; exact B]. }
  congruence.
Qed.

Lemma inv_beginw s rel : Inv s -> forall s', pstep s (LBeginW rel) = Some s' -> Inv s'.
Proof.
  intros I s' H. simpl in H. destruct (g_w s) eqn:Ew; [discriminate|].
  destruct (forallb _ (g_pend s) && forallb _ rel) eqn:G; [|discriminate].
  apply andb_true_iff in G. destruct G as [G1 G2].
  rewrite forallb_forall in G1, G2. inv_some H. dI I.
  assert (RelP : forall x, In x rel -> In x (pend_pages s)).
  { intros x Hx. apply memN_in. auto. }
  assert (PendSub : forall e, In e (filter (fun e => negb (memN (e_pg e) rel)) (g_pend s)) -> In e (g_pend s) /\ ~ In (e_pg e) rel).
  { intros e He. apply filter_In in He. destruct He as [A B]. split; [exact A|].
    apply negb_true_iff in B. now apply memN_false in B. }
  assert (NoC : forall x, In x (pend_pages s) -> ~ In x (g_pages s)).
  { intros x Hx Hc. apply pend_pages_in in Hx. destruct Hx as (e & He & <-).
    destruct (D3 e He Hc) as (w & Hw & _). congruence. }
  constructor; simpl.
  - exact M0.
  - intros x Hx. apply in_app_iff in Hx. destruct Hx as [Hx|Hx]; [auto|].
    apply RelP, pend_pages_in in Hx. destruct Hx as (e & He & <-). auto.
  - intros e He. apply PendSub in He. destruct He; auto.
  - auto.
  - intros x Hx Hp. unfold pend_pages in Hp. simpl in Hp. apply in_map_iff in Hp. destruct Hp as (e & <- & He).
    apply PendSub in He. destruct He as [He Hn]. apply in_app_iff in Hx. destruct Hx as [Hx|Hx]; [|tauto].
    apply (D1 _ Hx). apply pend_pages_in. eauto.
  - intros x Hx. apply in_app_iff in Hx. destruct Hx as [Hx|Hx]; [auto|]. apply NoC, RelP, Hx.
  - intros e He Hc. apply PendSub in He. destruct He as [He _]. destruct (D3 e He Hc) as (w & Hw & _). congruence.
  - intros e He. apply PendSub in He. destruct He as [He _]. destruct (T e He) as [Hle|(w & Hw & _)]; [left; exact Hle | congruence].
  - intros e He. apply PendSub in He. destruct He; auto.
  - intros w Hw. inversion Hw; subst; clear Hw. simpl. repeat split; try lia; intros; try tauto; lia.
  - intros x Hx. destruct (Cov x Hx) as [A|[A|[A|(w & Hw & _)]]]; [left; apply in_app_iff; tauto | | tauto | congruence].
    destruct (in_dec N.eq_dec x rel) as [Hr|Hr]; [left; apply in_app_iff; tauto|].
    right; left. apply pend_pages_in in A. destruct A as (e & He & <-).
    unfold pend_pages. simpl. apply in_map_iff. exists e. split; [reflexivity|].
    apply filter_In. split; [exact He|]. apply negb_true_iff, memN_false. exact Hr.
  - auto.
  - auto.
  - auto.
  - auto.
  - intros r P x Hr HP Hx. split.
    + intros HF. apply in_app_iff in HF. destruct HF as [HF|HF]; [exact (proj1 (S1 _ _ _ Hr HP Hx) HF)|].
      pose proof (RelP _ HF) as Hp. apply pend_pages_in in Hp. destruct Hp as (e & He & Ee).
      assert (Hrel : releasable (g_readers s) e = true).
      { specialize (G1 e He). apply orb_true_iff in G1. destruct G1 as [G1|G1]; [|exact G1].
        apply negb_true_iff, memN_false in G1. subst x. tauto. }
      subst x. exact (releasable_spec _ _ Hrel r Hr (S2 e r P He Hr HP Hx)).
    + intros w Hw. inversion Hw; subst; simpl. tauto.
  - intros e r P He Hr HP Hx. apply PendSub in He. destruct He as [He _]. eauto.
  - intros p a Ha. destruct (A1 _ _ Ha) as [Hle|(w & Hw & _)]; [left; exact Hle | congruence].
  - eauto.
Qed.

Lemma inv_free s p : Inv s -> forall s', pstep s (LFree p) = Some s' -> Inv s'.
Proof.
  intros I s' H. simpl in H. destruct (g_w s) as [w|] eqn:Ew; [|discriminate].
  destruct (memN p (g_pages s) && negb (memN p (w_freed w))) eqn:G; [|discriminate].
  apply andb_true_iff in G. destruct G as [G1 G2]. apply memN_in in G1. apply negb_true_iff, memN_false in G2.
  inv_some H. dI I. rewrite Ew in D3, T, W, Cov, S1, A1.
  destruct (W w eq_refl) as (Wid & Wm & Wf & Wa & Wc).
  set (a := lookupN p (g_atx s)).
  assert (PP : forall x, In x (map e_pg (g_pend s ++ [(w_id w, p, a)])) <-> In x (pend_pages s) \/ x = p).
  { intros x. rewrite map_app, in_app_iff. simpl. unfold pend_pages. intuition. }
  assert (NotAlloc : ~ In p (w_alloc w)).
  { intros Ha. destruct (Wa _ Ha) as (_ & _ & Hn & _). tauto. }
  assert (Aval : a = 0 \/ In (p, a) (g_atx s)).
  { destruct (N.eq_dec a 0) as [E|E]; [left; exact E | right; apply lookupN_in; exact E]. }
  assert (Ale : a <= g_cur s).
  { destruct Aval as [->|Ha]; [lia|]. destruct (A1 _ _ Ha) as [Hle|(w0 & Hw0 & _ & Hal)]; [exact Hle|].
    inversion Hw0; subst w0. tauto. }
  constructor; simpl.
  - exact M0.
  - auto.
  - intros e He. apply in_app_iff in He. destruct He as [He|[<-|[]]]; [auto | unfold e_pg; simpl; auto].
  - auto.
  - intros x Hx Hp. unfold pend_pages in Hp; simpl in Hp. apply PP in Hp. destruct Hp as [Hp| ->]; [exact (D1 _ Hx Hp) | exact (D2 _ Hx G1)].
  - auto.
  - intros e He Hc. apply in_app_iff in He. destruct He as [He|[<-|[]]].
    + destruct (D3 e He Hc) as (w0 & Hw0 & Et & Hf). inversion Hw0; subst w0.
      eexists. split; [reflexivity|]. simpl. tauto.
    + eexists. split; [reflexivity|]. simpl. unfold e_tx, e_pg; simpl. tauto.
  - intros e He. apply in_app_iff in He. destruct He as [He|[<-|[]]].
    + destruct (T e He) as [Hle|(w0 & Hw0 & Et & Hf)]; [left; exact Hle|]. inversion Hw0; subst w0.
      right. eexists. split; [reflexivity|]. simpl. tauto.
    + right. eexists. split; [reflexivity|]. simpl. unfold e_tx, e_pg; simpl. tauto.
  - intros e He. apply in_app_iff in He. destruct He as [He|[<-|[]]]; [auto | exact Ale].
  - intros w0 Hw0. inversion Hw0; subst w0; clear Hw0. simpl. repeat split; auto.
    + destruct H as [<-|H]; [exact G1 | apply Wf; exact H].
    + unfold pend_pages; simpl. apply PP. destruct H as [<-|H]; [right; reflexivity | left; apply Wf; exact H].
    + apply Wa; exact H.
    + apply Wa; exact H.
    + apply Wa; exact H.
    + apply Wa; exact H.
    + intros Hp. unfold pend_pages in Hp; simpl in Hp. apply PP in Hp. destruct Hp as [Hp| ->]; [|tauto].
      destruct (Wa _ H) as (_ & _ & _ & Hn). tauto.
  - intros x Hx. destruct (Cov x Hx) as [A|[A|[A|(w0 & Hw0 & A)]]]; [tauto | | tauto |].
    + right; left. unfold pend_pages; simpl. apply PP. tauto.
    + inversion Hw0; subst w0. right; right; right. eexists. split; [reflexivity | exact A].
  - auto.
  - auto.
  - auto.
  - auto.
  - intros r P x Hr HP Hx. destruct (S1 _ _ _ Hr HP Hx) as [A B]. split; [exact A|].
    intros w0 Hw0. inversion Hw0; subst w0; simpl. apply (B w eq_refl).
  - intros e r P He Hr HP Hx. apply in_app_iff in He. destruct He as [He|[<-|[]]]; [eauto|].
    unfold e_atx, e_tx, e_pg in *; simpl in *. split.
    + destruct Aval as [->|Ha]; [lia | eapply S3; eauto].
    + pose proof (R1 _ Hr). lia.
  - intros p0 a0 Ha. apply in_removeK in Ha. destruct Ha as [Ha _].
    destruct (A1 _ _ Ha) as [Hle|(w0 & Hw0 & Ea & Hal)]; [left; exact Hle|]. inversion Hw0; subst w0.
    right. eexists. split; [reflexivity|]. simpl. tauto.
  - intros p0 a0 r P Ha. apply in_removeK in Ha. destruct Ha as [Ha _]. eauto.
Qed.

Lemma inv_alloc s p : Inv s -> forall s', pstep s (LAlloc p) = Some s' -> Inv s'.
Proof.
  intros I s' H. simpl in H. destruct (g_w s) as [w|] eqn:Ew; [|discriminate].
  dI I. rewrite Ew in D3, T, W, Cov, S1, A1.
  destruct (W w eq_refl) as (Wid & Wm & Wf & Wa & Wc).
  destruct (memN p (g_free s)) eqn:G.
  - (* taken from the free list *)
    apply memN_in in G. inv_some H.
    assert (FM : forall x, In x (minus (g_free s) [p]) <-> In x (g_free s) /\ x <> p).
    { intros x. rewrite in_minus. simpl. intuition. }
    constructor; simpl.
    + exact M0.
    + intros x Hx. apply FM in Hx. destruct Hx; auto.
    + auto.
    + auto.
    + intros x Hx. apply FM in Hx. destruct Hx; auto.
    + intros x Hx. apply FM in Hx. destruct Hx; auto.
    + intros e He Hc. destruct (D3 e He Hc) as (w0 & Hw0 & Et & Hf). inversion Hw0; subst w0.
      eexists. split; [reflexivity|]. simpl. tauto.
    + intros e He. destruct (T e He) as [Hle|(w0 & Hw0 & Et & Hf)]; [left; exact Hle|]. inversion Hw0; subst w0.
      right. eexists. split; [reflexivity|]. simpl. tauto.
    + auto.
    + intros w0 Hw0. inversion Hw0; subst w0; clear Hw0. simpl.
      refine (conj Wid (conj Wm (conj Wf (conj _ _)))).
      * intros q [<-|Hq].
        -- pose proof (F1 _ G). split; [lia|]. split; [|split].
           ++ intros Hx. apply FM in Hx. tauto.
           ++ apply D2; exact G.
           ++ apply D1; exact G.
        -- destruct (Wa _ Hq) as (B1 & B2 & B3 & B4). split; [lia|]. split; [|tauto].
           intros Hx. apply FM in Hx. tauto.
      * intros x Hx. right. apply Wc. exact Hx.
    + intros x Hx. destruct (Cov x Hx) as [A|[A|[A|(w0 & Hw0 & A)]]]; [ | tauto | tauto | ].
      * destruct (N.eq_dec x p) as [->|Hne].
        -- right; right; right. eexists. split; [reflexivity|]. simpl. tauto.
        -- left. apply FM. tauto.
      * inversion Hw0; subst w0. right; right; right. eexists. split; [reflexivity|]. simpl. tauto.
    + auto.
    + auto.
    + auto.
    + auto.
    + intros r P x Hr HP Hx. destruct (S1 _ _ _ Hr HP Hx) as [A B]. split.
      * intros Hf. apply FM in Hf. tauto.
      * intros w0 Hw0. inversion Hw0; subst w0; simpl. intros [<-|Ha]; [tauto | exact (B w eq_refl Ha)].
    + auto.
    + intros p0 a0 [E|Ha].
      * inversion E; subst. right. eexists. split; [reflexivity|]. simpl. tauto.
      * apply in_removeK in Ha. destruct Ha as [Ha _].
        destruct (A1 _ _ Ha) as [Hle|(w0 & Hw0 & Ea & Hal)]; [left; exact Hle|]. inversion Hw0; subst w0.
        right. eexists. split; [reflexivity|]. simpl. tauto.
    + intros p0 a0 r P [E|Ha] Hr HP Hx.
      * inversion E; subst. destruct (S1 _ _ _ Hr HP Hx) as [A _]. tauto.
      * apply in_removeK in Ha. destruct Ha as [Ha _]. eauto.
  - (* taken at the high-water mark *)
    destruct (N.eqb_spec p (w_mark w)) as [->|Hne]; [|discriminate]. inv_some H. unfold upd_w.
    constructor; simpl; auto.
    + intros e He Hc. destruct (D3 e He Hc) as (w0 & Hw0 & Et & Hf). inversion Hw0; subst w0.
      eexists. split; [reflexivity|]. simpl. tauto.
    + intros e He. destruct (T e He) as [Hle|(w0 & Hw0 & Et & Hf)]; [left; exact Hle|]. inversion Hw0; subst w0.
      right. eexists. split; [reflexivity|]. simpl. tauto.
    + intros w0 Hw0. inversion Hw0; subst w0; clear Hw0. simpl.
      refine (conj Wid (conj _ (conj Wf (conj _ _)))); [lia | |].
      * intros q [<-|Hq].
        -- split; [lia|]. split; [|split].
           ++ intros Hx. apply F1 in Hx. lia.
           ++ intros Hx. apply F3 in Hx. lia.
           ++ intros Hx. apply pend_pages_in in Hx. destruct Hx as (e & He & Ee). apply F2 in He. lia.
        -- destruct (Wa _ Hq) as (B1 & B2 & B3 & B4). split; [lia|]. tauto.
      * intros x Hx. destruct (N.eq_dec x (w_mark w)) as [->|Hn]; [left; reflexivity | right; apply Wc; lia].
    + intros x Hx. destruct (Cov x Hx) as [A|[A|[A|(w0 & Hw0 & A)]]]; [tauto | tauto | tauto |].
      inversion Hw0; subst w0. right; right; right. eexists. split; [reflexivity|]. simpl. tauto.
    + intros r P x Hr HP Hx. destruct (S1 _ _ _ Hr HP Hx) as [A B]. split; [exact A|].
      intros w0 Hw0. inversion Hw0; subst w0; simpl. intros [<-|Ha]; [|exact (B w eq_refl Ha)].
      destruct (H2 _ _ HP) as [_ Hb]. apply Hb in Hx. lia.
    + intros p0 a0 Ha. destruct (A1 _ _ Ha) as [Hle|(w0 & Hw0 & Ea & Hal)]; [left; exact Hle|]. inversion Hw0; subst w0.
      right. eexists. split; [reflexivity|]. simpl. tauto.
Qed.

Lemma inv_commit s : Inv s -> forall s', pstep s LCommit = Some s' -> Inv s'.
Proof.
  intros I s' H. simpl in H. destruct (g_w s) as [w|] eqn:Ew; [|discriminate].
  dI I. rewrite Ew in D3, T, W, Cov, S1, A1.
  destruct (W w eq_refl) as (Wid & Wm & Wf & Wa & Wc). inv_some H.
  assert (PG : forall x, In x (minus (g_pages s) (w_freed w) ++ w_alloc w) <->
                         (In x (g_pages s) /\ ~ In x (w_freed w)) \/ In x (w_alloc w)).
  { intros x. rewrite in_app_iff, in_minus. reflexivity. }
  constructor; simpl.
  - lia.
  - intros x Hx. apply F1 in Hx. lia.
  - intros e He. apply F2 in He. lia.
  - intros x Hx. apply PG in Hx. destruct Hx as [[Hx _]|Hx]; [apply F3 in Hx; lia | apply Wa in Hx; tauto].
  - auto.
  - intros x Hx Hp. apply PG in Hp. destruct Hp as [[Hp _]|Hp]; [exact (D2 _ Hx Hp)|].
    destruct (Wa _ Hp) as (_ & Hn & _). tauto.
  - intros e He Hc. exfalso. apply PG in Hc. destruct Hc as [[Hc Hnf]|Hc].
    + destruct (D3 e He Hc) as (w0 & Hw0 & _ & Hf). inversion Hw0; subst w0. tauto.
    + destruct (Wa _ Hc) as (_ & _ & _ & Hn). apply Hn. apply pend_pages_in. eauto.
  - intros e He. left. destruct (T e He) as [Hle|(w0 & Hw0 & Et & _)]; [lia|]. inversion Hw0; subst w0. lia.
  - intros e He. pose proof (A2 e He). lia.
  - intros w0 Hw0. discriminate.
  - intros x Hx. destruct (N.lt_ge_cases x (g_mark s)) as [Hlt|Hge].
    + destruct (Cov x (conj (proj1 Hx) Hlt)) as [A|[A|[A|(w0 & Hw0 & A)]]]; [tauto | tauto | |].
      * destruct (in_dec N.eq_dec x (w_freed w)) as [Hf|Hf].
        -- right; left. apply Wf; exact Hf.
        -- right; right; left. apply PG. tauto.
      * inversion Hw0; subst w0. right; right; left. apply PG. tauto.
    + right; right; left. apply PG. right. apply Wc. lia.
  - left. reflexivity.
  - intros v P [E|HP].
    + inversion E; subst. split; [lia|]. intros x Hx. apply PG in Hx.
      destruct Hx as [[Hx _]|Hx]; [apply F3 in Hx; lia | apply Wa in Hx; tauto].
    + destruct (H2 _ _ HP) as [A B]. split; [lia|]. intros x Hx. apply B in Hx. lia.
  - intros P [E|HP]; [inversion E; reflexivity|]. destruct (H2 _ _ HP) as [A _]. lia.
  - intros r Hr. pose proof (R1 _ Hr). lia.
  - intros r P x Hr [E|HP] Hx.
    + inversion E; subst. pose proof (R1 _ Hr). lia.
    + destruct (S1 _ _ _ Hr HP Hx) as [A _]. split; [exact A | intros; discriminate].
  - intros e r P He Hr [E|HP] Hx; [|eauto]. inversion E; subst. pose proof (R1 _ Hr). lia.
  - intros p a Ha. left. destruct (A1 _ _ Ha) as [Hle|(w0 & Hw0 & Ea & _)]; [lia|]. inversion Hw0; subst w0. lia.
  - intros p a r P Ha Hr [E|HP] Hx; [|eauto]. inversion E; subst. pose proof (R1 _ Hr). lia.
Qed.

Lemma in_fold_atx (undone : list (N * N * N)) : forall al p a,
  In (p, a) (fold_left (fun al e => if e_atx e =? 0 then al else (e_pg e, e_atx e) :: removeK (e_pg e) al) undone al) ->
  In (p, a) al \/ exists e, In e undone /\ e_pg e = p /\ e_atx e = a /\ a <> 0.
Proof.
  induction undone as [|e u IH]; intros al p a H; simpl in H; [left; exact H|].
  apply IH in H. destruct H as [H|(e' & He' & H)]; [|right; exists e'; simpl; tauto].
  destruct (N.eqb_spec (e_atx e) 0) as [E|E]; [left; exact H|].
  destruct H as [H|H].
  - inversion H; subst. right. exists e. simpl. tauto.
  - apply in_removeK in H. left. tauto.
Qed.

Lemma inv_rollback s : Inv s -> forall s', pstep s LRollback = Some s' -> Inv s'.
Proof.
  intros I s' H. simpl in H. destruct (g_w s) as [w|] eqn:Ew; [|discriminate].
  dI I. rewrite Ew in D3, T, W, Cov, S1, A1.
  destruct (W w eq_refl) as (Wid & Wm & Wf & Wa & Wc). inv_some H.
  set (keep := filter (fun e => negb (e_tx e =? w_id w)) (g_pend s)).
  assert (KP : forall e, In e keep <-> In e (g_pend s) /\ e_tx e <> w_id w).
  { intros e. unfold keep. rewrite filter_In, negb_true_iff, N.eqb_neq. reflexivity. }
  assert (FA : forall x, In x (g_free s ++ filter (fun p => p <? g_mark s) (w_alloc w)) <->
                         In x (g_free s) \/ (In x (w_alloc w) /\ x < g_mark s)).
  { intros x. rewrite in_app_iff, filter_In, N.ltb_lt. reflexivity. }
  assert (KeepNoC : forall e, In e keep -> ~ In (e_pg e) (g_pages s)).
  { intros e He Hc. apply KP in He. destruct He as [He Hne]. destruct (D3 e He Hc) as (w0 & Hw0 & Et & _).
    inversion Hw0; subst w0. tauto. }
  constructor; simpl.
  - exact M0.
  - intros x Hx. apply FA in Hx. destruct Hx as [Hx|[Hx Hlt]]; [auto|]. apply Wa in Hx. lia.
  - intros e He. apply KP in He. destruct He; auto.
  - auto.
  - intros x Hx Hp. unfold pend_pages in Hp; simpl in Hp. apply in_map_iff in Hp. destruct Hp as (e & <- & He).
    apply KP in He. destruct He as [He _]. apply FA in Hx. destruct Hx as [Hx|[Hx _]].
    + apply (D1 _ Hx). apply pend_pages_in. eauto.
    + destruct (Wa _ Hx) as (_ & _ & _ & Hn). apply Hn. apply pend_pages_in. eauto.
  - intros x Hx Hc. apply FA in Hx. destruct Hx as [Hx|[Hx _]]; [exact (D2 _ Hx Hc)|].
    destruct (Wa _ Hx) as (_ & _ & Hn & _). tauto.
  - intros e He Hc. exfalso. exact (KeepNoC e He Hc).
  - intros e He. apply KP in He. destruct He as [He Hne]. left.
    destruct (T e He) as [Hle|(w0 & Hw0 & Et & _)]; [exact Hle|]. inversion Hw0; subst w0. tauto.
  - intros e He. apply KP in He. destruct He; auto.
  - intros w0 Hw0. discriminate.
  - intros x Hx. destruct (Cov x Hx) as [A|[A|[A|(w0 & Hw0 & A)]]].
    + left. apply FA. tauto.
    + apply pend_pages_in in A. destruct A as (e & He & <-).
      destruct (N.eq_dec (e_tx e) (w_id w)) as [E|E].
      * right; right; left.
        destruct (T e He) as [Hle|(w0 & Hw0 & _ & Hf)]; [lia|]. inversion Hw0; subst w0. apply Wf; exact Hf.
      * right; left. unfold pend_pages; simpl. apply in_map_iff. exists e. split; [reflexivity|]. apply KP. tauto.
    + tauto.
    + inversion Hw0; subst w0. left. apply FA. right. split; [exact A | lia].
  - auto.
  - auto.
  - auto.
  - auto.
  - intros r P x Hr HP Hx. destruct (S1 _ _ _ Hr HP Hx) as [A B]. split; [|intros; discriminate].
    intros Hf. apply FA in Hf. destruct Hf as [Hf|[Hf _]]; [tauto | exact (B w eq_refl Hf)].
  - intros e r P He Hr HP Hx. apply KP in He. destruct He as [He _]. eauto.
  - intros p a Ha. apply filter_In in Ha. destruct Ha as [Ha Hv]. simpl in Hv. apply negb_true_iff, N.eqb_neq in Hv.
    left. apply in_fold_atx in Ha. destruct Ha as [Ha|(e & He & _ & Ea & _)].
    + destruct (A1 _ _ Ha) as [Hle|(w0 & Hw0 & Ea & _)]; [exact Hle|]. inversion Hw0; subst w0. tauto.
    + apply filter_In in He. destruct He as [He _]. subst a. apply A2; exact He.
  - intros p a r P Ha Hr HP Hx. apply filter_In in Ha. destruct Ha as [Ha _].
    apply in_fold_atx in Ha. destruct Ha as [Ha|(e & He & Ep & Ea & _)]; [eauto|].
    apply filter_In in He. destruct He as [He _]. subst p a. apply (S2 e r P He Hr HP Hx).
Qed.

Theorem inv_step s l s' : Inv s -> pstep s l = Some s' -> Inv s'.
Proof.
  intros I H. destruct l.
  - eapply inv_beginr; eauto.
  - eapply inv_endr; eauto.
  - eapply inv_beginw; eauto.
  - eapply inv_free; eauto.
  - eapply inv_alloc; eauto.
  - eapply inv_commit; eauto.
  - eapply inv_rollback; eauto.
Qed.

Theorem inv_run ls : forall s s', Inv s -> prun s ls = Some s' -> Inv s'.
Proof.
  induction ls as [|l ls IH]; intros s s' I H; simpl in H.
  - inversion H; subst; exact I.
  - destruct (pstep s l) as [s1|] eqn:E; [|discriminate]. eapply IH; [eapply inv_step; eauto | exact H].
Qed.

(** * consequences *)

(** C06 / C02: what a commit writes is outside the newest committed version and outside every version an open
    reader views; and no page of such a version is reusable. *)
Theorem writes_only_invisible s : Inv s ->
  forall p, In p (commit_writes s) ->
    ~ In p (g_pages s) /\ (forall r P, In r (g_readers s) -> In (r, P) (g_hist s) -> ~ In p P).
Proof.
  intros I p Hp. unfold commit_writes in Hp. destruct (g_w s) as [w|] eqn:Ew; [|destruct Hp].
  dI I. destruct (W w Ew) as (_ & _ & _ & Wa & _). split.
  - destruct (Wa _ Hp) as (_ & _ & Hn & _). exact Hn.
  - intros r P Hr HP Hx. destruct (S1 _ _ _ Hr HP Hx) as [_ B]. exact (B w Ew Hp).
Qed.

Theorem reader_pages_not_free s : Inv s ->
  forall r P x, In r (g_readers s) -> In (r, P) (g_hist s) -> In x P -> ~ In x (g_free s).
Proof. intros I r P x Hr HP Hx. exact (proj1 (iS1 s I _ _ _ Hr HP Hx)). Qed.

(** the meta page of the next commit goes to the slot that does not hold the newest committed meta *)
Theorem meta_slot_alternates s w : Inv s -> g_w s = Some w -> (w_id w) mod 2 <> (g_cur s) mod 2.
Proof.
  intros I Ew. destruct (iW s I w Ew) as (Wid & _). rewrite Wid.
  intros E. pose proof (N.mod_upper_bound (g_cur s) 2). pose proof (N.mod_upper_bound (g_cur s + 1) 2).
  pose proof (N.div_mod (g_cur s) 2). pose proof (N.div_mod (g_cur s + 1) 2). lia.
Qed.

(** C07: at rest every id in [2, mark) is exactly one of: free, pending, part of the newest version *)
Theorem partition_at_rest s : Inv s -> g_w s = None ->
  forall x, 2 <= x < g_mark s ->
    (In x (g_free s) /\ ~ In x (pend_pages s) /\ ~ In x (g_pages s)) \/
    (~ In x (g_free s) /\ In x (pend_pages s) /\ ~ In x (g_pages s)) \/
    (~ In x (g_free s) /\ ~ In x (pend_pages s) /\ In x (g_pages s)).
Proof.
  intros I Ew x Hx. dI I.
  assert (PC : In x (pend_pages s) -> ~ In x (g_pages s)).
  { intros Hp Hc. apply pend_pages_in in Hp. destruct Hp as (e & He & <-). destruct (D3 e He Hc) as (w & Hw & _). congruence. }
  destruct (Cov x Hx) as [A|[A|[A|(w & Hw & _)]]]; [| | |congruence].
  - left. split; [exact A|]. split; [apply D1; exact A | apply D2; exact A].
  - right; left. split; [intros HF; exact (D1 _ HF A)|]. split; [exact A | apply PC; exact A].
  - right; right. split; [intros HF; exact (D2 _ HF A)|]. split; [intros Hp; exact (PC Hp A) | exact A].
Qed.

(** and nothing outside [2, mark) is listed anywhere *)
Theorem listed_below_mark s : Inv s -> forall x,
  In x (g_free s) \/ In x (pend_pages s) \/ In x (g_pages s) -> 2 <= x < g_mark s.
Proof.
  intros I x H. dI I. destruct H as [H|[H|H]]; auto.
  apply pend_pages_in in H. destruct H as (e & He & <-). auto.
Qed.

(** C13: the free list rebuilt by scanning the file equals free + pending (what the sync mode persists) *)
Theorem scan_equals_persisted s : Inv s -> g_w s = None ->
  forall x, In x (scan_free s) <-> In x (g_free s) \/ In x (pend_pages s).
Proof.
  intros I Ew x. unfold scan_free. rewrite in_minus, run_in.
  pose proof (iM s I) as HM. split.
  - intros [Hr Hn]. assert (Hx : 2 <= x < g_mark s) by lia.
    destruct (partition_at_rest s I Ew x Hx) as [H|[H|H]]; tauto.
  - intros H. assert (Hx : 2 <= x < g_mark s) by (apply (listed_below_mark s I); tauto).
    split; [lia|]. destruct (partition_at_rest s I Ew x Hx) as [H1|[H1|H1]]; tauto.
Qed.

(** C10: with no reader open, the next writer may take back every pending page, and then nothing is withheld *)
Theorem reclaim_all_without_readers s : Inv s -> g_w s = None -> g_readers s = [] ->
  exists s', pstep s (LBeginW (pend_pages s)) = Some s' /\ g_pend s' = [] /\
             (forall x, In x (g_free s') <-> In x (g_free s) \/ In x (pend_pages s)).
Proof.
  intros I Ew Er. simpl. rewrite Ew, Er.
  assert (G1 : forallb (fun e => negb (memN (e_pg e) (pend_pages s)) || releasable [] e) (g_pend s) = true).
  { apply forallb_forall. intros e He. apply orb_true_iff. right. reflexivity. }
  assert (G2 : forallb (fun p => memN p (pend_pages s)) (pend_pages s) = true).
  { apply forallb_forall. intros p Hp. apply memN_in. exact Hp. }
  rewrite G1, G2. simpl. eexists. split; [reflexivity|]. simpl. split.
  - assert (forall l, filter (fun e => negb (memN (e_pg e) (pend_pages s))) l = [] \/ exists e, In e l /\ ~ In (e_pg e) (pend_pages s)) as X.
    { induction l as [|e l IHl]; [left; reflexivity|]. simpl. destruct (memN (e_pg e) (pend_pages s)) eqn:E; simpl.
      - destruct IHl as [->|(e' & He' & Hn)]; [left; reflexivity | right; exists e'; simpl; tauto].
      - right. exists e. split; [left; reflexivity | apply memN_false; exact E]. }
    destruct (X (g_pend s)) as [E|(e & He & Hn)]; [exact E|]. exfalso. apply Hn. apply pend_pages_in. eauto.
  - intros x. apply in_app_iff.
Qed.

(** with readers open, what stays pending after the writer's begin is exactly what some reader may still see *)
Theorem pending_of_writer s w : Inv s -> g_w s = Some w ->
  forall e, In e (g_pend s) -> e_tx e <= g_cur s \/ In (e_pg e) (w_freed w).
Proof.
  intros I Ew e He. destruct (iT s I e He) as [H|(w0 & Hw0 & _ & Hf)]; [left; exact H|].
  rewrite Ew in Hw0. inversion Hw0; subst. right; exact Hf.
Qed.

(** * C08: a failed (rolled back) transaction restores exactly the state its begin left *)
Lemma filter_all_true {A} (f : A -> bool) l : (forall x, In x l -> f x = true) -> filter f l = l.
Proof.
  induction l as [|x l IH]; intros H; [reflexivity|]. simpl. rewrite (H x (or_introl eq_refl)). f_equal.
  apply IH. intros y Hy. apply H. right; exact Hy.
Qed.

Definition tree_label (l : label) : bool := match l with LFree _ | LAlloc _ => true | _ => false end.

Record same_base (s0 s1 : pg) (w1 : wtx) : Prop := {
  sb_pages : g_pages s1 = g_pages s0;
  sb_cur : g_cur s1 = g_cur s0;
  sb_mark : g_mark s1 = g_mark s0;
  sb_readers : g_readers s1 = g_readers s0;
  sb_hist : g_hist s1 = g_hist s0;
  sb_w : g_w s1 = Some w1 /\ w_id w1 = g_cur s0 + 1;
  sb_free : forall x, In x (g_free s0) <-> In x (g_free s1) \/ (In x (w_alloc w1) /\ x < g_mark s0);
  sb_pend : exists extra, g_pend s1 = g_pend s0 ++ extra /\ (forall e, In e extra -> e_tx e = w_id w1)
}.

Lemma same_base_step s0 s1 w1 l s2 :
  Inv s1 -> same_base s0 s1 w1 -> tree_label l = true -> pstep s1 l = Some s2 ->
  exists w2, same_base s0 s2 w2.
Proof.
  intros I SB TL H. destruct SB as [P C M R Hh [Ew Eid] F [extra [Ep Ex]]].
  destruct l; try discriminate; simpl in H; rewrite Ew in H.
  - (* free *)
    destruct (memN p (g_pages s1) && negb (memN p (w_freed w1))); [|discriminate]. inv_some H.
    eexists. constructor; simpl; auto.
    exists (extra ++ [(w_id w1, p, lookupN p (g_atx s1))]). split.
    + rewrite Ep, <- app_assoc. reflexivity.
    + intros e He. apply in_app_iff in He. destruct He as [He|[<-|[]]]; [auto | reflexivity].
  - (* alloc *)
    destruct (memN p (g_free s1)) eqn:G.
    + apply memN_in in G. inv_some H. eexists. constructor; simpl; auto.
      * intros x. rewrite F. rewrite in_minus. simpl.
        pose proof (iF1 s1 I p G) as Hp. rewrite M in Hp.
        destruct (N.eq_dec x p) as [->|Hne]; [tauto|]. intuition; subst; tauto.
      * exists extra. split; [exact Ep | exact Ex].
    + destruct (N.eqb_spec p (w_mark w1)) as [->|]; [|discriminate]. inv_some H. unfold upd_w.
      eexists. constructor; simpl; auto.
      * intros x. rewrite F.
        destruct (iW s1 I w1 Ew) as (_ & Wm & _). rewrite M in Wm.
        split.
        -- intros [A|[A B]]; [left; exact A | right; split; [right; exact A | exact B]].
        -- intros [A|[[Eq|A] B]]; [left; exact A | subst; lia | right; split; assumption].
      * exists extra. split; [exact Ep | exact Ex].
Qed.

Lemma same_base_run ls : forall s0 s1 w1 s2,
  Inv s1 -> same_base s0 s1 w1 -> forallb tree_label ls = true -> prun s1 ls = Some s2 ->
  exists w2, same_base s0 s2 w2 /\ Inv s2.
Proof.
  induction ls as [|l ls IH]; intros s0 s1 w1 s2 I SB TL H; simpl in *.
  - inversion H; subst. eauto.
  - apply andb_true_iff in TL. destruct TL as [T1 T2].
    destruct (pstep s1 l) as [s1'|] eqn:E; [|discriminate].
    destruct (same_base_step s0 s1 w1 l s1' I SB T1 E) as [w' SB'].
    apply (IH s0 s1' w' s2); [eapply inv_step; eauto | exact SB' | exact T2 | exact H].
Qed.

Theorem rollback_restores s0 w0 ls s1 s2 :
  Inv s0 -> g_w s0 = Some w0 -> w_freed w0 = [] -> w_alloc w0 = [] ->
  forallb tree_label ls = true -> prun s0 ls = Some s1 -> pstep s1 LRollback = Some s2 ->
  g_pages s2 = g_pages s0 /\ g_cur s2 = g_cur s0 /\ g_mark s2 = g_mark s0 /\ g_readers s2 = g_readers s0 /\
  g_w s2 = None /\ g_pend s2 = g_pend s0 /\ (forall x, In x (g_free s2) <-> In x (g_free s0)).
Proof.
  intros I Ew Hf Ha TL Hr Hb.
  assert (SB0 : same_base s0 s0 w0).
  { constructor; auto.
    - split; [exact Ew | exact (proj1 (iW s0 I w0 Ew))].
    - intros x. rewrite Ha. simpl. tauto.
    - exists []. rewrite app_nil_r. split; [reflexivity | intros e []]. }
  destruct (same_base_run ls s0 s0 w0 s1 I SB0 TL Hr) as (w1 & SB & I1).
  destruct SB as [P C M R Hh [Ew1 Eid] F [extra [Ep Ex]]].
  simpl in Hb. rewrite Ew1 in Hb. inv_some Hb. simpl. repeat split; auto.
  - (* pending: the writer's entries disappear, the others are untouched *)
    rewrite Ep, filter_app.
    assert (E1 : filter (fun e => negb (e_tx e =? w_id w1)) (g_pend s0) = g_pend s0).
    { apply filter_all_true. intros e He. apply negb_true_iff, N.eqb_neq.
      destruct (iT s0 I e He) as [Hle|(w & Hw & Et & Hfw)]; [lia|].
      rewrite Ew in Hw. inversion Hw; subst w. rewrite Hf in Hfw. destruct Hfw. }
    assert (E2 : filter (fun e => negb (e_tx e =? w_id w1)) extra = []).
    { clear -Ex. induction extra as [|e ex IHe]; [reflexivity|]. simpl.
      rewrite (Ex e (or_introl eq_refl)), N.eqb_refl. simpl. apply IHe. intros e' He'. apply Ex. right; exact He'. }
    rewrite E1, E2, app_nil_r. reflexivity.
  - intros Hx. apply in_app_iff in Hx. apply F. destruct Hx as [Hx|Hx]; [left; exact Hx|].
    apply filter_In in Hx. destruct Hx as [Hx Hlt]. apply N.ltb_lt in Hlt. rewrite M in Hlt. right; tauto.
  - intros Hx. apply in_app_iff. apply F in Hx. destruct Hx as [Hx|[Hx Hlt]]; [left; exact Hx|].
    right. apply filter_In. split; [exact Hx | apply N.ltb_lt; rewrite M; exact Hlt].
Qed.
