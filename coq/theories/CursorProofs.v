(** Proofs about Cursor.v *)
From Bbolt Require Import Base Spec Cursor.
Open Scope N_scope.

(** * D9: the full statement is false of the faithful model (and of the code) *)
Definition k10 : bytes := [49; 48]. Definition k11 : bytes := [49; 49]. Definition k20 : bytes := [50; 48].
Definition t_trailing : tree := Branch [(k10, Leaf [(k10, 0%N, []); (k11, 0%N, [])]); (k20, Leaf [])].

Definition cursor_refines_list : Prop :=
  forall t cs, wf t = true ->
    api_run true (fuel_for t) t [] cs = Ok (list_run (flatten t) Unset cs).

Lemma next_off_end_witness :
  wf t_trailing = true /\
  api_run true (fuel_for t_trailing) t_trailing [] [CLast; CNext; CPrev]
    <> Ok (list_run (flatten t_trailing) Unset [CLast; CNext; CPrev]).
Proof. split; [vm_compute; reflexivity | vm_compute; discriminate]. Qed.

Theorem cursor_refines_list_refuted : ~ cursor_refines_list.
Proof.
  intros H. destruct next_off_end_witness as [W N]. apply N. apply H. exact W.
Qed.

(** D1 / D2 were real in the pinned code: the unrepaired prev stops at an emptied leaf, the unrepaired Last
    never terminates on an all-empty multi-leaf tree (here: out of fuel for a fuel 50x the tree size). *)
Definition t_middle_empty : tree :=
  Branch [(k10, Leaf [(k10, 0%N, []); (k11, 0%N, [])]); (k20, Leaf []); ([51%N; 48%N], Leaf [([51%N; 48%N], 0%N, [])])].
Lemma pinned_prev_stops_early :
  api_run false 64 t_middle_empty [] [CLast; CPrev] = Ok [(Some [51%N; 48%N], Some []); (None, None)] /\
  api_run true 64 t_middle_empty [] [CLast; CPrev] = Ok [(Some [51%N; 48%N], Some []); (Some k11, Some [])].
Proof. split; vm_compute; reflexivity. Qed.

Definition t_all_empty : tree := Branch [(k10, Leaf []); (k20, Leaf [])].
Lemma pinned_last_diverges :
  api_run false 1000 t_all_empty [] [CLast] = OutOfFuel /\
  api_run true (fuel_for t_all_empty) t_all_empty [] [CLast] = Ok [(None, None)].
Proof. split; vm_compute; reflexivity. Qed.

(** * the specification itself: First;Next* enumerates the list once ascending, Last;Prev* descending *)
Lemma list_next_run l i : (i < length l)%nat ->
  list_run l (At i) (repeat CNext (length l - i)) =
  map (fun e => show (Some e)) (skipn (S i) l) ++ [(None, None)].
Proof.
  remember (length l - i)%nat as n eqn:Hn. revert i Hn.
  induction n as [|n IH]; intros i Hn Hi; [lia|].
  cbn [repeat list_run list_call].
  destruct (Nat.ltb_spec (S i) (length l)) as [Hlt|Hge].
  - rewrite IH by lia.
    assert (E: skipn (S i) l = match nth_error l (S i) with Some e => e :: skipn (S (S i)) l | None => [] end).
    { clear -Hlt. revert l Hlt. generalize (S i) as j. induction j as [|j IHj]; intros [|x l] Hlt; simpl in *; try lia; auto.
      apply IHj. lia. }
    rewrite E. destruct (nth_error l (S i)) as [e|] eqn:En.
    + reflexivity.
    + apply nth_error_None in En. lia.
  - assert (n = 0)%nat by lia. subst n. cbn [repeat list_run].
    rewrite skipn_all2 by lia. reflexivity.
Qed.

Theorem list_first_next_enumerates l : l <> [] ->
  list_run l Unset (CFirst :: repeat CNext (length l)) = map (fun e => show (Some e)) l ++ [(None, None)].
Proof.
  intros Hne. destruct l as [|x l]; [congruence|].
  cbn [list_run list_call nth_error].
  change (length (x :: l)) with (S (length l)).
  replace (S (length l)) with (length (x :: l) - 0)%nat by (simpl; lia).
  rewrite list_next_run by (simpl; lia). reflexivity.
Qed.
