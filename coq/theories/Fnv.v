(** FNV-1a 64 (hash/fnv New64a) as used by Meta.Sum64, over N, and the single-byte-change theorem. *)
From Bbolt Require Import Base.

Definition fnv_prime : N := 1099511628211.
Definition fnv_offset : N := 14695981039346656037.
Definition fnv_pinv : N := 14886173955864302971.       (* inverse of the prime modulo 2^64 *)
Definition fnv_step (h b : N) : N := (N.lxor h b * fnv_prime) mod M64.
Definition fnv_from (h : N) (bs : list N) : N := fold_left fnv_step bs h.
Definition fnv64a (bs : list N) : N := fnv_from fnv_offset bs.

Definition inrange (h : N) := h < M64.
Definition isbyte (b : N) := b < 256.

Lemma pinv_ok : (fnv_prime * fnv_pinv) mod M64 = 1. Proof. reflexivity. Qed.

Lemma M64_nz : M64 <> 0. Proof. discriminate. Qed.

Lemma mul_prime_inj x y : inrange x -> inrange y ->
  (x * fnv_prime) mod M64 = (y * fnv_prime) mod M64 -> x = y.
Proof.
  intros Hx Hy H.
  assert (E: ((x * fnv_prime) mod M64 * fnv_pinv) mod M64 = ((y * fnv_prime) mod M64 * fnv_pinv) mod M64) by (rewrite H; reflexivity).
  rewrite !N.mul_mod_idemp_l in E by exact M64_nz.
  rewrite <- !N.mul_assoc in E.
  rewrite <- (N.mul_mod_idemp_r x), <- (N.mul_mod_idemp_r y) in E by exact M64_nz.
  rewrite pinv_ok, !N.mul_1_r in E.
  rewrite !N.mod_small in E by exact Hx || exact Hy. exact E.
Qed.

Lemma lxor_range h b : inrange h -> isbyte b -> inrange (N.lxor h b).
Proof.
  unfold inrange, isbyte, M64. intros H1 B1.
  destruct (N.eq_dec (N.lxor h b) 0) as [->|Nz]; [reflexivity|].
  change 18446744073709551616 with (2 ^ 64).
  apply N.log2_lt_pow2; [lia|].
  eapply N.le_lt_trans; [apply N.log2_lxor|].
  apply N.max_lub_lt.
  - destruct (N.eq_dec h 0) as [->|]; [reflexivity|]. apply N.log2_lt_pow2; [lia|exact H1].
  - destruct (N.eq_dec b 0) as [->|]; [reflexivity|]. apply N.log2_lt_pow2; [lia|].
    eapply N.lt_trans; [exact B1|reflexivity].
Qed.

Lemma step_range h b : inrange (fnv_step h b).
Proof. unfold fnv_step, inrange. apply N.mod_lt. exact M64_nz. Qed.

Lemma step_inj_h h1 h2 b : inrange h1 -> inrange h2 -> isbyte b -> fnv_step h1 b = fnv_step h2 b -> h1 = h2.
Proof.
  intros R1 R2 B E. unfold fnv_step in E. apply mul_prime_inj in E; try (apply lxor_range; assumption).
  assert (X: N.lxor (N.lxor h1 b) b = N.lxor (N.lxor h2 b) b) by (rewrite E; reflexivity).
  rewrite !N.lxor_assoc, !N.lxor_nilpotent, !N.lxor_0_r in X. exact X.
Qed.

Lemma step_inj_b h b1 b2 : inrange h -> isbyte b1 -> isbyte b2 -> fnv_step h b1 = fnv_step h b2 -> b1 = b2.
Proof.
  intros R B1 B2 E. unfold fnv_step in E. apply mul_prime_inj in E; try (apply lxor_range; assumption).
  assert (X: N.lxor h (N.lxor h b1) = N.lxor h (N.lxor h b2)) by (rewrite E; reflexivity).
  rewrite <- !N.lxor_assoc, !N.lxor_nilpotent, !N.lxor_0_l in X. exact X.
Qed.

Lemma fnv_from_range h bs : inrange h -> inrange (fnv_from h bs).
Proof. revert h; induction bs as [|b bs IH]; simpl; intros h R; auto. apply IH, step_range. Qed.

Lemma fnv_from_inj h1 h2 bs : inrange h1 -> inrange h2 -> Forall isbyte bs ->
  fnv_from h1 bs = fnv_from h2 bs -> h1 = h2.
Proof.
  revert h1 h2; induction bs as [|b bs IH]; simpl; intros h1 h2 R1 R2 F E; auto.
  inversion F; subst. apply IH in E; auto using step_range. eapply step_inj_h; eauto.
Qed.

(** Changing exactly one byte of the hashed input changes the hash. *)
Theorem single_byte_change pre b1 b2 post h :
  inrange h -> Forall isbyte pre -> isbyte b1 -> isbyte b2 -> Forall isbyte post ->
  b1 <> b2 -> fnv_from h (pre ++ b1 :: post) <> fnv_from h (pre ++ b2 :: post).
Proof.
  intros R Fp B1 B2 Fq Ne E. unfold fnv_from in E. rewrite !fold_left_app in E. simpl in E.
  apply fnv_from_inj in E; auto using step_range.
  apply step_inj_b in E; auto. apply (fnv_from_range h pre R).
Qed.

(** An evaluation-friendly form (the extracted oracle runs this one): reduction modulo 2^64 as a bit mask. *)
Definition fnv_step_fast (h b : N) : N := N.land (N.lxor h b * fnv_prime) (N.ones 64).
Definition fnv64a_fast (bs : list N) : N := fold_left fnv_step_fast bs fnv_offset.

Lemma fnv_step_fast_eq h b : fnv_step_fast h b = fnv_step h b.
Proof. unfold fnv_step_fast, fnv_step. rewrite N.land_ones. reflexivity. Qed.

Lemma fnv64a_fast_eq bs : fnv64a_fast bs = fnv64a bs.
Proof.
  unfold fnv64a_fast, fnv64a, fnv_from. generalize fnv_offset.
  induction bs as [|b bs IH]; intros h; simpl; [reflexivity|]. rewrite fnv_step_fast_eq. apply IH.
Qed.
