(** Proofs about the independent reader: integer and meta round trips, checksum validation, accounting. *)
From Bbolt Require Import Base BaseProofs Consts Spec Fnv Layout LayoutEnc.
From Coq Require Import Sorting.Permutation.

(** * reading from a byte list *)
Lemma rd_of_app_skip pre l off : rd_of (pre ++ l) (N.of_nat (length pre) + off) = rd_of l off.
Proof.
  unfold rd_of. rewrite N2Nat.inj_add, Nat2N.id. rewrite app_nth2 by lia. f_equal. lia.
Qed.

Lemma rbytes_app pre l post :
  rbytes (rd_of (pre ++ l ++ post)) (length l) (N.of_nat (length pre)) = l.
Proof.
  revert pre. induction l as [|x l IH]; intros pre; simpl; [reflexivity|]. f_equal.
  - unfold rd_of. rewrite Nat2N.id. rewrite app_nth2 by lia. rewrite Nat.sub_diag. reflexivity.
  - replace (N.of_nat (length pre) + 1) with (N.of_nat (length (pre ++ [x]))) by (rewrite app_length; simpl; lia).
    replace (pre ++ x :: l ++ post) with ((pre ++ [x]) ++ l ++ post) by (rewrite <- app_assoc; reflexivity).
    apply IH.
Qed.

Lemma enc_le_length n v : length (enc_le n v) = n.
Proof. revert v; induction n as [|n IH]; intros v; simpl; [reflexivity | now rewrite IH]. Qed.

(** decoding the little-endian bytes of [v] gives [v] back (any surrounding content) *)
Lemma le_enc_le n : forall v pre post, v < 256 ^ N.of_nat n ->
  le (rd_of (pre ++ enc_le n v ++ post)) n (N.of_nat (length pre)) = v.
Proof.
  induction n as [|n IH]; intros v pre post Hv.
  - simpl in *. lia.
  - cbn [enc_le le]. 
    assert (H0 : rd_of (pre ++ (v mod 256 :: enc_le n (v / 256)) ++ post) (N.of_nat (length pre)) = v mod 256).
    { unfold rd_of. rewrite Nat2N.id. rewrite app_nth2 by lia. rewrite Nat.sub_diag. reflexivity. }
    rewrite H0.
    replace (N.of_nat (length pre) + 1) with (N.of_nat (length (pre ++ [v mod 256]))) by (rewrite app_length; simpl; lia).
    replace (pre ++ (v mod 256 :: enc_le n (v / 256)) ++ post) with ((pre ++ [v mod 256]) ++ enc_le n (v / 256) ++ post)
      by (rewrite <- app_assoc; reflexivity).
    rewrite IH.
    + pose proof (N.div_mod v 256). lia.
    + rewrite Nat2N.inj_succ, N.pow_succ_r' in Hv. apply N.div_lt_upper_bound; [discriminate | exact Hv].
Qed.

Lemma enc_le_bytes n v : Forall isbyte (enc_le n v).
Proof.
  revert v; induction n as [|n IH]; intros v; simpl; constructor; [|apply IH].
  unfold isbyte. apply N.mod_lt. discriminate.
Qed.

(** * accounting decision procedure is sound: if [accounted] says yes, the ids below the mark are partitioned *)
Lemma run_nat_nodup p n : NoDup (run_nat p n).
Proof.
  revert p; induction n as [|n IH]; intros p; simpl; constructor; [|apply IH].
  rewrite run_nat_in. lia.
Qed.

Lemma eqlN_eq a b : eqlN a b = true -> a = b.
Proof.
  revert b; induction a as [|x a IH]; intros [|y b]; simpl; try discriminate; [reflexivity|].
  rewrite andb_true_iff. intros [E H]. apply N.eqb_eq in E. f_equal; auto.
Qed.

Section Acc.
  Variable rd : N -> N.
  Variable ps : N.

  (** every id in [2, mark) occurs exactly once among reachable page ids, the freelist page run and the free ids *)
  Theorem accounted_sound v free :
    accounted v free = true ->
    let all := page_ids (v_pages v) ++ v_flpage v ++ free in
    NoDup all /\ (forall id, In id all <-> 2 <= id < m_mark (v_meta v) \/ False).
  Proof.
    unfold accounted. intros H. apply eqlN_eq in H. cbn zeta.
    set (all := page_ids (v_pages v) ++ v_flpage v ++ free) in *.
    assert (P : Permutation all (run 2 (m_mark (v_meta v) - 2))).
    { rewrite <- H. apply sortN_perm. }
    split.
    - eapply Permutation_NoDup; [symmetry; exact P | apply run_nat_nodup].
    - intros id. split.
      + intros Hin. left. apply (Permutation_in _ P) in Hin. apply run_in in Hin. lia.
      + intros [Hr|[]]. apply (Permutation_in _ (Permutation_sym P)). apply run_in. lia.
  Qed.
End Acc.

(** * meta round trip *)
Lemma le_at pre a n v post k : v < 256 ^ N.of_nat n -> N.of_nat (length a) = k ->
  le (rd_of (pre ++ a ++ enc_le n v ++ post)) n (N.of_nat (length pre) + k) = v.
Proof.
  intros Hv <-. rewrite <- Nat2N.inj_add, <- app_length, app_assoc. now apply le_enc_le.
Qed.

Lemma rbytes_at pre a l post k : N.of_nat (length a) = k ->
  rbytes (rd_of (pre ++ a ++ l ++ post)) (length l) (N.of_nat (length pre) + k) = l.
Proof.
  intros <-. rewrite <- Nat2N.inj_add, <- app_length, app_assoc. apply rbytes_app.
Qed.

Lemma enc_meta_body_length m : length (enc_meta_body m) = 56%nat.
Proof. unfold enc_meta_body. rewrite !app_length, !enc_le_length. reflexivity. Qed.

(** Reading back what a conforming writer wrote yields the same fields and the writer's checksum,
    wherever the structure sits in the file. *)
Theorem meta_roundtrip m pre post : meta_fields_ok m ->
  rd_meta_at (rd_of (pre ++ enc_meta m ++ post)) (N.of_nat (length pre)) = with_sum m.
Proof.
  intros (H1 & H2 & H3 & H4 & H5 & H6 & H7 & H8 & H9).
  assert (HS : fnv64a (enc_meta_body m) < 2 ^ 64) by (apply fnv_from_range; reflexivity).
  unfold rd_meta_at, with_sum, u32, u64, enc_meta, enc_meta_body. 
  rewrite <- !app_assoc.
  set (f1 := enc_le 4 (m_magic m)). set (f2 := enc_le 4 (m_version m)). set (f3 := enc_le 4 (m_pagesize m)).
  set (f4 := enc_le 4 (m_flags m)). set (f5 := enc_le 8 (m_root m)). set (f6 := enc_le 8 (m_seq m)).
  set (f7 := enc_le 8 (m_fl m)). set (f8 := enc_le 8 (m_mark m)). set (f9 := enc_le 8 (m_txid m)).
  set (f10 := enc_le 8 (fnv64a (f1 ++ f2 ++ f3 ++ f4 ++ f5 ++ f6 ++ f7 ++ f8 ++ f9))).
  f_equal.
  - rewrite <- (N.add_0_r (N.of_nat (length pre))). apply (le_at pre [] 4 (m_magic m)); [exact H1|reflexivity].
  - change (pre ++ f1 ++ f2 ++ f3 ++ f4 ++ f5 ++ f6 ++ f7 ++ f8 ++ f9 ++ f10 ++ post)
      with (pre ++ f1 ++ enc_le 4 (m_version m) ++ (f3 ++ f4 ++ f5 ++ f6 ++ f7 ++ f8 ++ f9 ++ f10 ++ post)).
    apply le_at; [exact H2 | unfold f1; now rewrite enc_le_length].
  - change (pre ++ f1 ++ f2 ++ f3 ++ f4 ++ f5 ++ f6 ++ f7 ++ f8 ++ f9 ++ f10 ++ post)
      with (pre ++ (f1 ++ f2) ++ enc_le 4 (m_pagesize m) ++ (f4 ++ f5 ++ f6 ++ f7 ++ f8 ++ f9 ++ f10 ++ post)) at 1.
    + apply le_at; [exact H3 | unfold f1, f2; now rewrite app_length, !enc_le_length].
  - replace (pre ++ f1 ++ f2 ++ f3 ++ f4 ++ f5 ++ f6 ++ f7 ++ f8 ++ f9 ++ f10 ++ post)
      with (pre ++ (f1 ++ f2 ++ f3) ++ enc_le 4 (m_flags m) ++ (f5 ++ f6 ++ f7 ++ f8 ++ f9 ++ f10 ++ post))
      by (rewrite <- !app_assoc; reflexivity).
    apply le_at; [exact H4 | unfold f1, f2, f3; now rewrite !app_length, !enc_le_length].
  - replace (pre ++ f1 ++ f2 ++ f3 ++ f4 ++ f5 ++ f6 ++ f7 ++ f8 ++ f9 ++ f10 ++ post)
      with (pre ++ (f1 ++ f2 ++ f3 ++ f4) ++ enc_le 8 (m_root m) ++ (f6 ++ f7 ++ f8 ++ f9 ++ f10 ++ post))
      by (rewrite <- !app_assoc; reflexivity).
    apply le_at; [exact H5 | unfold f1, f2, f3, f4; now rewrite !app_length, !enc_le_length].
  - replace (pre ++ f1 ++ f2 ++ f3 ++ f4 ++ f5 ++ f6 ++ f7 ++ f8 ++ f9 ++ f10 ++ post)
      with (pre ++ (f1 ++ f2 ++ f3 ++ f4 ++ f5) ++ enc_le 8 (m_seq m) ++ (f7 ++ f8 ++ f9 ++ f10 ++ post))
      by (rewrite <- !app_assoc; reflexivity).
    apply le_at; [exact H6 | unfold f1, f2, f3, f4, f5; now rewrite !app_length, !enc_le_length].
  - replace (pre ++ f1 ++ f2 ++ f3 ++ f4 ++ f5 ++ f6 ++ f7 ++ f8 ++ f9 ++ f10 ++ post)
      with (pre ++ (f1 ++ f2 ++ f3 ++ f4 ++ f5 ++ f6) ++ enc_le 8 (m_fl m) ++ (f8 ++ f9 ++ f10 ++ post))
      by (rewrite <- !app_assoc; reflexivity).
    apply le_at; [exact H7 | unfold f1, f2, f3, f4, f5, f6; now rewrite !app_length, !enc_le_length].
  - replace (pre ++ f1 ++ f2 ++ f3 ++ f4 ++ f5 ++ f6 ++ f7 ++ f8 ++ f9 ++ f10 ++ post)
      with (pre ++ (f1 ++ f2 ++ f3 ++ f4 ++ f5 ++ f6 ++ f7) ++ enc_le 8 (m_mark m) ++ (f9 ++ f10 ++ post))
      by (rewrite <- !app_assoc; reflexivity).
    apply le_at; [exact H8 | unfold f1, f2, f3, f4, f5, f6, f7; now rewrite !app_length, !enc_le_length].
  - replace (pre ++ f1 ++ f2 ++ f3 ++ f4 ++ f5 ++ f6 ++ f7 ++ f8 ++ f9 ++ f10 ++ post)
      with (pre ++ (f1 ++ f2 ++ f3 ++ f4 ++ f5 ++ f6 ++ f7 ++ f8) ++ enc_le 8 (m_txid m) ++ (f10 ++ post))
      by (rewrite <- !app_assoc; reflexivity).
    apply le_at; [exact H9 | unfold f1, f2, f3, f4, f5, f6, f7, f8; now rewrite !app_length, !enc_le_length].
  - replace (pre ++ f1 ++ f2 ++ f3 ++ f4 ++ f5 ++ f6 ++ f7 ++ f8 ++ f9 ++ f10 ++ post)
      with (pre ++ (f1 ++ f2 ++ f3 ++ f4 ++ f5 ++ f6 ++ f7 ++ f8 ++ f9) ++ f10 ++ post)
      by (rewrite <- !app_assoc; reflexivity).
    unfold f10. apply le_at; [exact HS | unfold f1, f2, f3, f4, f5, f6, f7, f8, f9; now rewrite !app_length, !enc_le_length].
Qed.

(** ... and the reader's checksum over the 56 bytes it sees is the writer's: a conforming meta validates. *)
Theorem meta_written_validates m pre post : meta_fields_ok m ->
  m_magic m = magic -> m_version m = version ->
  validate_at (rd_of (pre ++ enc_meta m ++ post)) (N.of_nat (length pre)) = MOk.
Proof.
  intros Hok Hm Hv. unfold validate_at. rewrite (meta_roundtrip m pre post Hok).
  unfold with_sum; cbn [m_magic m_version m_sum].
  rewrite Hm, Hv, !N.eqb_refl. cbn [negb].
  unfold meta_sum_at, enc_meta.
  replace 56%nat with (length (enc_meta_body m)) by apply enc_meta_body_length.
  rewrite <- app_assoc. rewrite rbytes_app.
  now rewrite N.eqb_refl.
Qed.
