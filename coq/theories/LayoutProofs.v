(** Proofs about the independent reader: integer and meta round trips, checksum validation, accounting. *)
From Bbolt Require Import Base BaseProofs Consts Spec Fnv Layout LayoutEnc.
From Coq Require Import Sorting.Permutation.

(** * reading from a byte list *)
Lemma rd_of_app_skip pre l off : rd_of (pre ++ l) (N.of_nat (length pre) + off) = rd_of l off.
Proof.
  unfold rd_of. rewrite N2Nat.inj_add, Nat2N.id. rewrite app_nth2 by lia. f_equal. lia.
Qed.

Lemma rbytes_app pre l post :
  rbytes (rd_of (pre ++ l ++ post)) (length l) (N.of_nat (length pre)) = l.
Proof.
  revert pre. induction l as [|x l IH]; intros pre; simpl; [reflexivity|]. f_equal.
  - unfold rd_of. rewrite Nat2N.id. rewrite app_nth2 by lia. rewrite Nat.sub_diag. reflexivity.
  - replace (N.of_nat (length pre) + 1) with (N.of_nat (length (pre ++ [x]))) by (rewrite app_length; simpl; lia).
    replace (pre ++ x :: l ++ post) with ((pre ++ [x]) ++ l ++ post) by (rewrite <- app_assoc; reflexivity).
    apply IH.
Qed.

Lemma enc_le_length n v : length (enc_le n v) = n.
Proof. revert v; induction n as [|n IH]; intros v; simpl; [reflexivity | now rewrite IH]. Qed.

(** decoding the little-endian bytes of [v] gives [v] back (any surrounding content) *)
Lemma le_enc_le n : forall v pre post, v < 256 ^ N.of_nat n ->
  le (rd_of (pre ++ enc_le n v ++ post)) n (N.of_nat (length pre)) = v.
Proof.
  induction n as [|n IH]; intros v pre post Hv.
  - simpl in *. lia.
  - cbn [enc_le le]. 
    assert (H0 : rd_of (pre ++ (v mod 256 :: enc_le n (v / 256)) ++ post) (N.of_nat (length pre)) = v mod 256).
    { unfold rd_of. rewrite Nat2N.id. rewrite app_nth2 by lia. rewrite Nat.sub_diag. reflexivity. }
    rewrite H0.
    replace (N.of_nat (length pre) + 1) with (N.of_nat (length (pre ++ [v mod 256]))) by (rewrite app_length; simpl; lia).
    replace (pre ++ (v mod 256 :: enc_le n (v / 256)) ++ post) with ((pre ++ [v mod 256]) ++ enc_le n (v / 256) ++ post)
      by (rewrite <- app_assoc; reflexivity).
    rewrite IH.
    + pose proof (N.div_mod v 256). lia.
    + rewrite Nat2N.inj_succ, N.pow_succ_r' in Hv. apply N.div_lt_upper_bound; [discriminate | exact Hv].
Qed.

Lemma enc_le_bytes n v : Forall isbyte (enc_le n v).
Proof.
  revert v; induction n as [|n IH]; intros v; simpl; constructor; [|apply IH].
  unfold isbyte. apply N.mod_lt. discriminate.
Qed.

(** * accounting decision procedure is sound: if [accounted] says yes, the ids below the mark are partitioned *)
Lemma run_nat_nodup p n : NoDup (run_nat p n).
Proof.
  revert p; induction n as [|n IH]; intros p; simpl; constructor; [|apply IH].
  rewrite run_nat_in. lia.
Qed.

Lemma eqlN_eq a b : eqlN a b = true -> a = b.
Proof.
  revert b; induction a as [|x a IH]; intros [|y b]; simpl; try discriminate; [reflexivity|].
  rewrite andb_true_iff. intros [E H]. apply N.eqb_eq in E. f_equal; auto.
Qed.

Section Acc.
  Variable rd : N -> N.
  Variable ps : N.

  (** every id in [2, mark) occurs exactly once among reachable page ids, the freelist page run and the free ids *)
  Theorem accounted_sound v free :
    accounted v free = true ->
    let all := page_ids (v_pages v) ++ v_flpage v ++ free in
    NoDup all /\ (forall id, In id all <-> 2 <= id < m_mark (v_meta v) \/ False).
  Proof.
    unfold accounted. intros H. apply eqlN_eq in H. cbn zeta.
    set (all := page_ids (v_pages v) ++ v_flpage v ++ free) in *.
    assert (P : Permutation all (run 2 (m_mark (v_meta v) - 2))).
    { rewrite <- H. apply sortN_perm. }
    split.
    - eapply Permutation_NoDup; [symmetry; exact P | apply run_nat_nodup].
    - intros id. split.
      + intros Hin. left. apply (Permutation_in _ P) in Hin. apply run_in in Hin. lia.
      + intros [Hr|[]]. apply (Permutation_in _ (Permutation_sym P)). apply run_in. lia.
  Qed.
End Acc.

(** * meta round trip *)
Lemma le_at pre a n v post k : v < 256 ^ N.of_nat n -> N.of_nat (length a) = k ->
  le (rd_of (pre ++ a ++ enc_le n v ++ post)) n (N.of_nat (length pre) + k) = v.
Proof.
  intros Hv <-. rewrite <- Nat2N.inj_add, <- app_length, app_assoc. now apply le_enc_le.
Qed.

Lemma rbytes_at pre a l post k : N.of_nat (length a) = k ->
  rbytes (rd_of (pre ++ a ++ l ++ post)) (length l) (N.of_nat (length pre) + k) = l.
Proof.
  intros <-. rewrite <- Nat2N.inj_add, <- app_length, app_assoc. apply rbytes_app.
Qed.

Lemma enc_meta_body_length m : length (enc_meta_body m) = 56%nat.
Proof. unfold enc_meta_body. rewrite !app_length, !enc_le_length. reflexivity. Qed.

(** Reading back what a conforming writer wrote yields the same fields and the writer's checksum,
    wherever the structure sits in the file. *)
Theorem meta_roundtrip m pre post : meta_fields_ok m ->
  rd_meta_at (rd_of (pre ++ enc_meta m ++ post)) (N.of_nat (length pre)) = with_sum m.
Proof.
  intros (H1 & H2 & H3 & H4 & H5 & H6 & H7 & H8 & H9).
  assert (HS : fnv64a (enc_meta_body m) < 2 ^ 64) by (apply fnv_from_range; reflexivity).
  unfold rd_meta_at, with_sum, u32, u64, enc_meta, enc_meta_body. 
  rewrite <- !app_assoc.
  set (f1 := enc_le 4 (m_magic m)). set (f2 := enc_le 4 (m_version m)). set (f3 := enc_le 4 (m_pagesize m)).
  set (f4 := enc_le 4 (m_flags m)). set (f5 := enc_le 8 (m_root m)). set (f6 := enc_le 8 (m_seq m)).
  set (f7 := enc_le 8 (m_fl m)). set (f8 := enc_le 8 (m_mark m)). set (f9 := enc_le 8 (m_txid m)).
  set (f10 := enc_le 8 (fnv64a (f1 ++ f2 ++ f3 ++ f4 ++ f5 ++ f6 ++ f7 ++ f8 ++ f9))).
  f_equal.
  - rewrite <- (N.add_0_r (N.of_nat (length pre))). apply (le_at pre [] 4 (m_magic m)); [exact H1|reflexivity].
  - change (pre ++ f1 ++ f2 ++ f3 ++ f4 ++ f5 ++ f6 ++ f7 ++ f8 ++ f9 ++ f10 ++ post)
      with (pre ++ f1 ++ enc_le 4 (m_version m) ++ (f3 ++ f4 ++ f5 ++ f6 ++ f7 ++ f8 ++ f9 ++ f10 ++ post)).
    apply le_at; [exact H2 | unfold f1; now rewrite enc_le_length].
  - change (pre ++ f1 ++ f2 ++ f3 ++ f4 ++ f5 ++ f6 ++ f7 ++ f8 ++ f9 ++ f10 ++ post)
      with (pre ++ (f1 ++ f2) ++ enc_le 4 (m_pagesize m) ++ (f4 ++ f5 ++ f6 ++ f7 ++ f8 ++ f9 ++ f10 ++ post)) at 1.
    + apply le_at; [exact H3 | unfold f1, f2; now rewrite app_length, !enc_le_length].
  - replace (pre ++ f1 ++ f2 ++ f3 ++ f4 ++ f5 ++ f6 ++ f7 ++ f8 ++ f9 ++ f10 ++ post)
      with (pre ++ (f1 ++ f2 ++ f3) ++ enc_le 4 (m_flags m) ++ (f5 ++ f6 ++ f7 ++ f8 ++ f9 ++ f10 ++ post))
      by (rewrite <- !app_assoc; reflexivity).
    apply le_at; [exact H4 | unfold f1, f2, f3; now rewrite !app_length, !enc_le_length].
  - replace (pre ++ f1 ++ f2 ++ f3 ++ f4 ++ f5 ++ f6 ++ f7 ++ f8 ++ f9 ++ f10 ++ post)
      with (pre ++ (f1 ++ f2 ++ f3 ++ f4) ++ enc_le 8 (m_root m) ++ (f6 ++ f7 ++ f8 ++ f9 ++ f10 ++ post))
      by (rewrite <- !app_assoc; reflexivity).
    apply le_at; [exact H5 | unfold f1, f2, f3, f4; now rewrite !app_length, !enc_le_length].
  - replace (pre ++ f1 ++ f2 ++ f3 ++ f4 ++ f5 ++ f6 ++ f7 ++ f8 ++ f9 ++ f10 ++ post)
      with (pre ++ (f1 ++ f2 ++ f3 ++ f4 ++ f5) ++ enc_le 8 (m_seq m) ++ (f7 ++ f8 ++ f9 ++ f10 ++ post))
      by (rewrite <- !app_assoc; reflexivity).
    apply le_at; [exact H6 | unfold f1, f2, f3, f4, f5; now rewrite !app_length, !enc_le_length].
  - replace (pre ++ f1 ++ f2 ++ f3 ++ f4 ++ f5 ++ f6 ++ f7 ++ f8 ++ f9 ++ f10 ++ post)
      with (pre ++ (f1 ++ f2 ++ f3 ++ f4 ++ f5 ++ f6) ++ enc_le 8 (m_fl m) ++ (f8 ++ f9 ++ f10 ++ post))
      by (rewrite <- !app_assoc; reflexivity).
    apply le_at; [exact H7 | unfold f1, f2, f3, f4, f5, f6; now rewrite !app_length, !enc_le_length].
  - replace (pre ++ f1 ++ f2 ++ f3 ++ f4 ++ f5 ++ f6 ++ f7 ++ f8 ++ f9 ++ f10 ++ post)
      with (pre ++ (f1 ++ f2 ++ f3 ++ f4 ++ f5 ++ f6 ++ f7) ++ enc_le 8 (m_mark m) ++ (f9 ++ f10 ++ post))
      by (rewrite <- !app_assoc; reflexivity).
    apply le_at; [exact H8 | unfold f1, f2, f3, f4, f5, f6, f7; now rewrite !app_length, !enc_le_length].
  - replace (pre ++ f1 ++ f2 ++ f3 ++ f4 ++ f5 ++ f6 ++ f7 ++ f8 ++ f9 ++ f10 ++ post)
      with (pre ++ (f1 ++ f2 ++ f3 ++ f4 ++ f5 ++ f6 ++ f7 ++ f8) ++ enc_le 8 (m_txid m) ++ (f10 ++ post))
      by (rewrite <- !app_assoc; reflexivity).
    apply le_at; [exact H9 | unfold f1, f2, f3, f4, f5, f6, f7, f8; now rewrite !app_length, !enc_le_length].
  - replace (pre ++ f1 ++ f2 ++ f3 ++ f4 ++ f5 ++ f6 ++ f7 ++ f8 ++ f9 ++ f10 ++ post)
      with (pre ++ (f1 ++ f2 ++ f3 ++ f4 ++ f5 ++ f6 ++ f7 ++ f8 ++ f9) ++ f10 ++ post)
      by (rewrite <- !app_assoc; reflexivity).
    unfold f10. apply le_at; [exact HS | unfold f1, f2, f3, f4, f5, f6, f7, f8, f9; now rewrite !app_length, !enc_le_length].
Qed.

(** ... and the reader's checksum over the 56 bytes it sees is the writer's: a conforming meta validates. *)
Theorem meta_written_validates m pre post : meta_fields_ok m ->
  m_magic m = magic -> m_version m = version ->
  validate_at (rd_of (pre ++ enc_meta m ++ post)) (N.of_nat (length pre)) = MOk.
Proof.
  intros Hok Hm Hv. unfold validate_at. rewrite (meta_roundtrip m pre post Hok).
  unfold with_sum; cbn [m_magic m_version m_sum].
  rewrite Hm, Hv, !N.eqb_refl. cbn [negb].
  unfold meta_sum_at, enc_meta. rewrite fnv64a_fast_eq.
  replace 56%nat with (length (enc_meta_body m)) by apply enc_meta_body_length.
  rewrite <- app_assoc. rewrite rbytes_app.
  now rewrite N.eqb_refl.
Qed.

(** * a single altered byte anywhere in the 64-byte meta structure is detected (C11) *)
Definition le_list (l : list N) : N := fold_right (fun b acc => b + 256 * acc) 0 l.

Lemma le_rd_list l : forall pre post,
  le (rd_of (pre ++ l ++ post)) (length l) (N.of_nat (length pre)) = le_list l.
Proof.
  induction l as [|x l IH]; intros pre post; [reflexivity|].
  cbn [length le le_list fold_right]. f_equal.
  - unfold rd_of. rewrite Nat2N.id. rewrite app_nth2 by lia. rewrite Nat.sub_diag. reflexivity.
  - f_equal.
    replace (N.of_nat (length pre) + 1) with (N.of_nat (length (pre ++ [x]))) by (rewrite app_length; simpl; lia).
    replace (pre ++ (x :: l) ++ post) with ((pre ++ [x]) ++ l ++ post) by (rewrite <- app_assoc; reflexivity).
    apply IH.
Qed.

Lemma le_list_inj l1 : forall l2, length l1 = length l2 -> Forall isbyte l1 -> Forall isbyte l2 ->
  le_list l1 = le_list l2 -> l1 = l2.
Proof.
  induction l1 as [|a l1 IH]; intros [|b l2] HL F1 F2 E; simpl in HL; try discriminate; [reflexivity|].
  inversion F1; subst. inversion F2; subst. cbn [le_list fold_right] in E.
  unfold isbyte in *. fold (le_list l1) in E. fold (le_list l2) in E.
  assert (a = b /\ le_list l1 = le_list l2) as [-> E2] by lia.
  f_equal. apply IH; auto.
Qed.

(** the four fields that matter, as segments of the structure *)
Definition valid_segments (A B C D : list N) : Prop :=
  le_list A = magic /\ le_list B = version /\ le_list D = fnv64a (A ++ B ++ C).

Lemma validate_segments pre post A B C D :
  length A = 4%nat -> length B = 4%nat -> length C = 48%nat -> length D = 8%nat ->
  (validate_at (rd_of (pre ++ (A ++ B ++ C ++ D) ++ post)) (N.of_nat (length pre)) = MOk <-> valid_segments A B C D).
Proof.
  intros LA LB LC LD. unfold validate_at, valid_segments, rd_meta_at, u32, u64.
  cbn [m_magic m_version m_sum].
  assert (E1 : le (rd_of (pre ++ (A ++ B ++ C ++ D) ++ post)) 4 (N.of_nat (length pre)) = le_list A).
  { rewrite <- LA at 1. rewrite <- !app_assoc. apply le_rd_list. }
  assert (E2 : le (rd_of (pre ++ (A ++ B ++ C ++ D) ++ post)) 4 (N.of_nat (length pre) + 4) = le_list B).
  { replace (N.of_nat (length pre) + 4) with (N.of_nat (length (pre ++ A))) by (rewrite app_length, LA; lia).
    rewrite <- LB at 1. rewrite <- !app_assoc. rewrite (app_assoc pre A). apply le_rd_list. }
  assert (E3 : le (rd_of (pre ++ (A ++ B ++ C ++ D) ++ post)) 8 (N.of_nat (length pre) + 56) = le_list D).
  { replace (N.of_nat (length pre) + 56) with (N.of_nat (length (pre ++ A ++ B ++ C))) by (rewrite !app_length, LA, LB, LC; lia).
    rewrite <- LD at 1. rewrite <- !app_assoc.
    replace (pre ++ A ++ B ++ C ++ D ++ post) with ((pre ++ A ++ B ++ C) ++ D ++ post) by (rewrite <- !app_assoc; reflexivity).
    apply le_rd_list. }
  assert (E4 : meta_sum_at (rd_of (pre ++ (A ++ B ++ C ++ D) ++ post)) (N.of_nat (length pre)) = fnv64a (A ++ B ++ C)).
  { unfold meta_sum_at. rewrite fnv64a_fast_eq. f_equal.
    replace 56%nat with (length (A ++ B ++ C)) by (rewrite !app_length, LA, LB, LC; reflexivity).
    replace (pre ++ (A ++ B ++ C ++ D) ++ post) with (pre ++ (A ++ B ++ C) ++ (D ++ post)) by (rewrite <- !app_assoc; reflexivity).
    apply rbytes_app. }
  rewrite E1, E2, E3, E4.
  destruct (N.eqb_spec (le_list A) magic); simpl; [|split; [discriminate | tauto]].
  destruct (N.eqb_spec (le_list B) version); simpl; [|split; [discriminate | tauto]].
  destruct (N.eqb_spec (le_list D) (fnv64a (A ++ B ++ C))); simpl; [tauto | split; [discriminate | tauto]].
Qed.

(** one byte of a segment replaced by a different byte *)
Inductive one_byte_changed : list N -> list N -> Prop :=
| obc : forall l1 b b' l2, isbyte b -> isbyte b' -> b <> b' -> one_byte_changed (l1 ++ b :: l2) (l1 ++ b' :: l2).

Lemma obc_length l l' : one_byte_changed l l' -> length l = length l'.
Proof. intros []. rewrite !app_length. reflexivity. Qed.

Lemma obc_le_list l l' : one_byte_changed l l' -> Forall isbyte l -> le_list l <> le_list l'.
Proof.
  intros H F E. pose proof (obc_length _ _ H) as HL. destruct H as [l1 b b' l2 Hb Hb' Hne].
  assert (F' : Forall isbyte (l1 ++ b' :: l2)).
  { apply Forall_app in F. destruct F as [Fa Fb]. inversion Fb; subst. apply Forall_app. split; [exact Fa | constructor; assumption]. }
  apply le_list_inj in E; auto. apply app_inv_head in E. inversion E. congruence.
Qed.

Theorem single_byte_damage_detected A B C D A' B' C' D' :
  length A = 4%nat -> length B = 4%nat -> length C = 48%nat -> length D = 8%nat ->
  Forall isbyte (A ++ B ++ C ++ D) ->
  valid_segments A B C D ->
  (one_byte_changed A A' /\ B' = B /\ C' = C /\ D' = D) \/
  (A' = A /\ one_byte_changed B B' /\ C' = C /\ D' = D) \/
  (A' = A /\ B' = B /\ one_byte_changed C C' /\ D' = D) \/
  (A' = A /\ B' = B /\ C' = C /\ one_byte_changed D D') ->
  ~ valid_segments A' B' C' D'.
Proof.
  intros LA LB LC LD F (V1 & V2 & V3) H (W1 & W2 & W3).
  apply Forall_app in F. destruct F as [FA F]. apply Forall_app in F. destruct F as [FB F].
  apply Forall_app in F. destruct F as [FC FD].
  destruct H as [(H & -> & -> & ->)|[(-> & H & -> & ->)|[(-> & -> & H & ->)|(-> & -> & -> & H)]]].
  - apply (obc_le_list _ _ H FA). congruence.
  - apply (obc_le_list _ _ H FB). congruence.
  - (* the checksummed content changed in one byte: FNV-1a changes (Fnv.single_byte_change) *)
    destruct H as [c1 b b' c2 Hb Hb' Hne].
    apply Forall_app in FC. destruct FC as [Fc1 Fc2]. inversion Fc2; subst.
    match goal with Hc2 : Forall isbyte c2 |- _ =>
      refine (single_byte_change (A ++ B ++ c1) b b' c2 fnv_offset _ _ Hb Hb' Hc2 Hne _) end.
    + reflexivity.
    + apply Forall_app; split; [exact FA | apply Forall_app; split; assumption].
    + unfold fnv64a in V3, W3. rewrite <- !app_assoc. rewrite <- V3, <- W3. reflexivity.
  - apply (obc_le_list _ _ H FD). congruence.
Qed.

(** * Open: which meta is presented (C11) *)
Section OpenProofs.
  Variable rd : N -> N.
  Variable flen dps : N.

  Definition valid0 := validate_at rd page_header_size = MOk.
  Definition valid1 (ps : N) := validate_at rd (ps + page_header_size) = MOk.
  Definition meta0 := rd_meta_at rd page_header_size.
  Definition meta1 (ps : N) := rd_meta_at rd (ps + page_header_size).

  (** Open never presents a state through a meta page that fails validation, never a file shorter than two
      pages or than its own high-water mark *)
  Theorem open_ok_uses_valid_meta ps m : open_model rd flen dps = OpenOk ps m ->
    ((m = meta0 /\ valid0) \/ (m = meta1 ps /\ valid1 ps)) /\ 2 * ps <= flen /\ m_mark m * ps <= flen.
  Proof.
    unfold open_model, valid0, valid1, meta0, meta1.
    destruct (page_size_model rd flen dps (validate_at rd page_header_size)) as [ps0|]; [|discriminate].
    destruct (N.ltb_spec flen (2 * ps0)); [discriminate|].
    destruct (validate_at rd page_header_size) eqn:V0; destruct (validate_at rd (ps0 + page_header_size)) eqn:V1;
      cbn [negb orb]; try discriminate; intros E;
      repeat match type of E with context [if ?c then _ else _] => destruct c eqn:? end; try discriminate;
      inversion E; subst; clear E.
    all: split; [first [left; split; [reflexivity | first [reflexivity | assumption]]
                       | right; split; [reflexivity | first [reflexivity | assumption]]]
                | split; [lia | apply N.ltb_ge; assumption]].
  Qed.

  (** both invalid: Open returns an error *)
  Theorem open_rejects_when_both_invalid :
    ~ valid0 -> (forall ps, ~ valid1 ps) -> forall ps m, open_model rd flen dps <> OpenOk ps m.
  Proof.
    intros H0 H1 ps m E. apply open_ok_uses_valid_meta in E. destruct E as [[[_ V]|[_ V]] _]; [exact (H0 V) | exact (H1 _ V)].
  Qed.

  (** exactly one invalid, page size detected, file long enough: Open succeeds with the other one *)
  Theorem open_falls_back_to_the_valid_meta ps :
    page_size_model rd flen dps (validate_at rd page_header_size) = Some ps -> 2 * ps <= flen ->
    (valid0 /\ ~ valid1 ps /\ m_mark meta0 * ps <= flen -> open_model rd flen dps = OpenOk ps meta0) /\
    (~ valid0 /\ valid1 ps /\ m_mark (meta1 ps) * ps <= flen -> open_model rd flen dps = OpenOk ps (meta1 ps)).
  Proof.
    intros HP HL. unfold open_model, valid0, valid1, meta0, meta1. rewrite HP.
    destruct (N.ltb_spec flen (2 * ps)); [lia|]. split.
    - intros (V0 & V1 & HM). rewrite V0. destruct (validate_at rd (ps + page_header_size)); try tauto; cbn [negb orb];
        destruct (m_txid _ <? m_txid _); destruct (N.ltb_spec flen (m_mark (rd_meta_at rd page_header_size) * ps)); try lia; reflexivity.
    - intros (V0 & V1 & HM). rewrite V1. destruct (validate_at rd page_header_size); try tauto; cbn [negb orb];
        destruct (m_txid _ <? m_txid _); destruct (N.ltb_spec flen (m_mark (rd_meta_at rd (ps + page_header_size)) * ps)); try lia; reflexivity.
  Qed.

  (** both valid: the one with the larger transaction id (meta 1 only if strictly larger) *)
  Theorem open_prefers_newer ps :
    page_size_model rd flen dps (validate_at rd page_header_size) = Some ps -> 2 * ps <= flen ->
    valid0 -> valid1 ps ->
    let m := if m_txid meta0 <? m_txid (meta1 ps) then meta1 ps else meta0 in
    m_mark m * ps <= flen -> open_model rd flen dps = OpenOk ps m.
  Proof.
    intros HP HL V0 V1 m HM. unfold open_model. unfold valid0, valid1 in *. rewrite HP.
    destruct (N.ltb_spec flen (2 * ps)); [lia|]. rewrite V0, V1. cbn [negb orb].
    subst m. unfold meta0, meta1 in *.
    destruct (m_txid (rd_meta_at rd page_header_size) <? m_txid (rd_meta_at rd (ps + page_header_size)));
      match goal with |- context [?a <? ?b] => destruct (N.ltb_spec a b) end; try lia; reflexivity.
  Qed.

  (** page-size detection with a damaged first meta: the first probe offset 1024*2^i that carries a valid meta
      is found, provided the earlier probe offsets (inside page 0's zero tail) do not validate *)
  Lemma probe_second_finds k : forall i pos,
    (k < i)%nat ->
    (forall j, (j < k)%nat -> meta_valid_at rd (pos * 2 ^ N.of_nat j + page_header_size) = false) ->
    meta_valid_at rd (pos * 2 ^ N.of_nat k + page_header_size) = true ->
    pos * 2 ^ N.of_nat k < flen - 1024 ->
    probe_second rd flen i pos = Some (m_pagesize (rd_meta_at rd (pos * 2 ^ N.of_nat k + page_header_size))).
  Proof.
    induction k as [|k IH]; intros i pos Hi Hinv Hv Hlen.
    - destruct i as [|i]; [lia|]. cbn [probe_second]. change (2 ^ N.of_nat 0) with 1 in *. rewrite N.mul_1_r in *.
      destruct (N.leb_spec (flen - 1024) pos); [lia|]. rewrite Hv. reflexivity.
    - destruct i as [|i]; [lia|]. cbn [probe_second].
      assert (P : pos * 2 ^ N.of_nat (S k) = (2 * pos) * 2 ^ N.of_nat k).
      { rewrite Nat2N.inj_succ, N.pow_succ_r'. lia. }
      assert (Hpos : pos <= pos * 2 ^ N.of_nat (S k)).
      { rewrite <- (N.mul_1_r pos) at 1. apply N.mul_le_mono_l. pose proof (N.pow_nonzero 2 (N.of_nat (S k))). lia. }
      destruct (N.leb_spec (flen - 1024) pos); [lia|].
      pose proof (Hinv O ltac:(lia)) as H0. change (2 ^ N.of_nat 0) with 1 in H0. rewrite N.mul_1_r in H0. rewrite H0.
      rewrite P in *. apply IH; [lia | | exact Hv | exact Hlen].
      intros j Hj. specialize (Hinv (S j) ltac:(lia)).
      replace (pos * 2 ^ N.of_nat (S j)) with (2 * pos * 2 ^ N.of_nat j) in Hinv; [exact Hinv|].
      rewrite Nat2N.inj_succ, N.pow_succ_r'. lia.
  Qed.
End OpenProofs.

(** a backup copy carries the snapshot's meta in slot 0 and the same meta with txid-1 in slot 1: Open presents slot 0 *)
Theorem backup_meta0_wins rd flen dps ps :
  page_size_model rd flen dps (validate_at rd page_header_size) = Some ps -> 2 * ps <= flen ->
  valid0 rd -> valid1 rd ps -> 1 <= m_txid (meta0 rd) -> m_txid (meta1 rd ps) = m_txid (meta0 rd) - 1 ->
  m_mark (meta0 rd) * ps <= flen ->
  open_model rd flen dps = OpenOk ps (meta0 rd).
Proof.
  intros HP HL V0 V1 H1 Ht HM.
  pose proof (open_prefers_newer rd flen dps ps HP HL V0 V1) as H. cbv zeta in H.
  destruct (N.ltb_spec (m_txid (meta0 rd)) (m_txid (meta1 rd ps))) as [Hlt|Hge]; [lia|].
  apply H. exact HM.
Qed.

(** * repair commands (C20) *)
Definition set_freelist (m : meta) (fl : N) : meta :=
  {| m_magic := m_magic m; m_version := m_version m; m_pagesize := m_pagesize m; m_flags := m_flags m;
     m_root := m_root m; m_seq := m_seq m; m_fl := fl; m_mark := m_mark m; m_txid := m_txid m; m_sum := m_sum m |}.

(** ClearFreelist: a meta whose freelist field is set to "none" and whose checksum is recomputed validates again,
    and reads back with every other field untouched *)
Theorem abandon_meta_valid m pre post : meta_fields_ok m -> m_magic m = magic -> m_version m = version ->
  let m' := set_freelist m pgid_no_freelist in
  validate_at (rd_of (pre ++ enc_meta m' ++ post)) (N.of_nat (length pre)) = MOk /\
  rd_meta_at (rd_of (pre ++ enc_meta m' ++ post)) (N.of_nat (length pre)) = with_sum m'.
Proof.
  intros Hok Hm Hv m'.
  assert (Hok' : meta_fields_ok m').
  { destruct Hok as (H1 & H2 & H3 & H4 & H5 & H6 & H7 & H8 & H9). unfold m', set_freelist, meta_fields_ok. simpl.
    repeat split; try assumption. }
  split; [apply meta_written_validates; assumption | apply meta_roundtrip; exact Hok'].
Qed.

(** RevertMetaPage: when both slots hold the same (older) meta, Open presents it *)
Theorem revert_presents_older rd flen dps ps :
  page_size_model rd flen dps (validate_at rd page_header_size) = Some ps -> 2 * ps <= flen ->
  valid0 rd -> valid1 rd ps -> m_txid (meta1 rd ps) = m_txid (meta0 rd) -> m_mark (meta0 rd) * ps <= flen ->
  open_model rd flen dps = OpenOk ps (meta0 rd).
Proof.
  intros HP HL V0 V1 Ht HM.
  pose proof (open_prefers_newer rd flen dps ps HP HL V0 V1) as H. cbv zeta in H.
  destruct (N.ltb_spec (m_txid (meta0 rd)) (m_txid (meta1 rd ps))) as [Hlt|Hge]; [lia|]. apply H. exact HM.
Qed.

(** * the accounting decision procedure is also COMPLETE (C19): it says "no" exactly when some id is missing, out of
      range or listed twice *)
From Coq Require Import Sorting.Sorted.

Lemma eqlN_refl a : eqlN a a = true.
Proof. induction a as [|x a IH]; simpl; [reflexivity|]. now rewrite N.eqb_refl, IH. Qed.

Lemma ss_lt_unique l1 : forall l2, StronglySorted N.lt l1 -> StronglySorted N.lt l2 ->
  (forall x, In x l1 <-> In x l2) -> l1 = l2.
Proof.
  induction l1 as [|a l1 IH]; intros [|b l2] S1 S2 E.
  - reflexivity.
  - exfalso. apply (proj2 (E b)). left; reflexivity.
  - exfalso. apply (proj1 (E a)). left; reflexivity.
  - inversion S1 as [|? ? S1' F1]; inversion S2 as [|? ? S2' F2]; subst.
    rewrite Forall_forall in F1, F2.
    assert (a = b).
    { destruct (proj1 (E a) (or_introl eq_refl)) as [->|Ha]; [reflexivity|].
      destruct (proj2 (E b) (or_introl eq_refl)) as [->|Hb]; [reflexivity|].
      pose proof (F2 _ Ha). pose proof (F1 _ Hb). lia. }
    subst b. f_equal. apply IH; auto.
    intros x. split; intros Hx.
    + destruct (proj1 (E x) (or_intror Hx)) as [->|H]; [|exact H]. pose proof (F1 _ Hx). lia.
    + destruct (proj2 (E x) (or_intror Hx)) as [->|H]; [|exact H]. pose proof (F2 _ Hx). lia.
Qed.

Lemma run_nat_ss p n : StronglySorted N.lt (run_nat p n).
Proof.
  revert p; induction n as [|n IH]; intros p; simpl; constructor; [apply IH|].
  apply Forall_forall. intros x Hx. apply run_nat_in in Hx. lia.
Qed.

Lemma sortN_ss_le l : StronglySorted N.le (sortN l).
Proof.
  apply Sorted_StronglySorted; [intros x y z; apply N.le_trans|].
  pose proof (sortN_sorted l) as H. induction H as [|a l' Hs IH Hr]; constructor; auto.
  destruct Hr as [|b l'' Hab]; constructor. apply N.leb_le. exact Hab.
Qed.

Lemma ss_le_nodup_lt l : StronglySorted N.le l -> NoDup l -> StronglySorted N.lt l.
Proof.
  induction 1 as [|a l S IH F]; intros ND; constructor.
  - apply IH. inversion ND; assumption.
  - inversion ND as [|? ? Hn ND']; subst. rewrite Forall_forall in *. intros x Hx.
    pose proof (F x Hx). assert (a <> x) by (intros ->; tauto). lia.
Qed.

Theorem accounted_complete (v : dbview) free :
  let all := page_ids (v_pages v) ++ v_flpage v ++ free in
  NoDup all -> (forall id, In id all <-> 2 <= id < m_mark (v_meta v)) -> accounted v free = true.
Proof.
  intros all ND E. unfold accounted. fold all.
  assert (X : sortN all = run 2 (m_mark (v_meta v) - 2)).
  { apply ss_lt_unique.
    - apply ss_le_nodup_lt; [apply sortN_ss_le|]. eapply Permutation.Permutation_NoDup; [apply sortN_perm | exact ND].
    - apply run_nat_ss.
    - intros x. rewrite sortN_in, E, run_in. lia. }
  rewrite X. apply eqlN_refl.
Qed.
