(** Check: line-for-line model of Tx.check (tx_check.go) over the file bytes [rd] at page size [ps]:
    the freed map with its duplicate test, the reachable map seeded with the meta pages and the freelist run (none of
    which may be listed as free),
    forEachPage + verifyPageReachable (out of bounds, multiple references over overflow runs, reachable-freed for
    every id of a run, invalid type), recursivelyCheckPageKeyOrderInternal + verifyKeyOrder with the running
    minimum / open maximum, the walkable test, the recursion into nested buckets, and the final sweep for
    unreachable-unfreed ids.  Errors are returned in the order the Go code sends them.
    Not modelled: ForEachBucket/Bucket(k) run the real cursor; here nested buckets are visited in page order (the
    same on every tree whose keys are ordered - the oracle compares exactly only there).  Definitions only. *)
From Bbolt Require Import Base Consts Spec Layout.

Inductive cerr :=
| EAlreadyFreed (id : N) | EUnreachUnfreed (id : N) | EOutOfBounds (id : N) | EMultiRef (id : N)
| EReachFreed (id : N) | EInvalidType (id : N) | EUnexpectedType (pg : N)
| EKeyFirst (pg idx : N) | EKeyLt (pg idx : N) | EKeyEq (pg idx : N) | EKeyMax (pg idx : N).

Section Chk.
  Variable rd : N -> N.
  Variable ps : N.
  Variable freed : list N.      (* Copyall of the loaded freelist: free and pending ids *)
  Variable hwm : N.             (* tx.meta.Pgid() *)

  Definition p_hid (pg : N) : N := u64 rd (pg * ps).            (* p.Id(): the id STORED in the page *)
  Definition p_flags (pg : N) : N := u16 rd (pg * ps + 8).
  Definition p_count (pg : N) : N := u16 rd (pg * ps + 10).
  Definition p_ov (pg : N) : N := u32 rd (pg * ps + 12).
  Definition is_branch (pg : N) : bool := p_flags pg =? branch_page_flag.
  Definition is_leaf (pg : N) : bool := p_flags pg =? leaf_page_flag.

  Definition br_elem (pg i : N) : bytes * N :=                   (* (key, child) *)
    let e := pg * ps + 16 + 16 * i in
    (rbytes rd (N.to_nat (u32 rd (e + 4))) (e + u32 rd e), u64 rd (e + 8)).
  Definition lf_elem (pg i : N) : N * bytes * N * N :=           (* (flags, key, value offset, value size) *)
    let e := pg * ps + 16 + 16 * i in
    let pos := u32 rd (e + 4) in let ks := u32 rd (e + 8) in
    (u32 rd e, rbytes rd (N.to_nat ks) (e + pos), e + pos + ks, u32 rd (e + 12)).

  (** state threaded through the walk: reachable ids (a map in Go: only membership matters) and the errors, newest first *)
  Definition cst := (list N * list cerr)%type.

  (** verifyPageReachable *)
  Definition verify_reachable (pg : N) (s : cst) : cst :=
    let hid := p_hid pg in
    let s1 := if hwm <? hid then (fst s, EOutOfBounds hid :: snd s) else s in
    let s2 := fold_left (fun (a : cst) i =>
                let id := hid + i in
                let a1 := if memN id (fst a) then (fst a, EMultiRef id :: snd a) else a in
                let a2 := (id :: fst a1, snd a1) in
                if (0 <? i) && memN id freed then (fst a2, EReachFreed id :: snd a2) else a2)
              (run 0 (p_ov pg + 1)) s1 in
    if memN hid freed then (fst s2, EReachFreed hid :: snd s2)
    else if negb (is_branch pg) && negb (is_leaf pg) then (fst s2, EInvalidType hid :: snd s2)
    else s2.

  (** tx.forEachPage(pg, verifyPageReachable) *)
  Fixpoint walk_reach (fuel : nat) (pg : N) (s : cst) : option cst :=
    match fuel with O => None | S f =>
      let s1 := verify_reachable pg s in
      if is_branch pg then
        fold_left (fun (a : option cst) i => match a with None => None | Some a' => walk_reach f (snd (br_elem pg i)) a' end)
                  (run 0 (p_count pg)) (Some s1)
      else Some s1
    end.

  (** compareKeys on possibly-nil slices: nil compares like the empty key *)
  Definition okey (o : option bytes) : bytes := match o with Some k => k | None => [] end.

  (** verifyKeyOrder; [rep] = the page id the message names (the CHILD id for a branch element) *)
  Definition verify_key (rep idx : N) (key : bytes) (prev maxo : option bytes) : list cerr :=
    (if (idx =? 0) && match prev with Some p => blt key p | None => false end then [EKeyFirst rep idx] else [])
    ++ (if 0 <? idx then match bcmp (okey prev) key with Gt => [EKeyLt rep idx] | Eq => [EKeyEq rep idx] | Lt => [] end else [])
    ++ (match maxo with Some m => if negb (blt key m) then [EKeyMax rep idx] else [] | None => [] end).

  (** recursivelyCheckPageKeyOrderInternal: returns (errors in order, maxKeyInSubtree) *)
  Fixpoint key_order (fuel : nat) (pg : N) (mino maxo : option bytes) : option (list cerr * option bytes) :=
    match fuel with O => None | S f =>
      if is_branch pg then
        let n := p_count pg in
        match fold_left (fun (a : option (list cerr * option bytes * option bytes)) i =>
                     match a with None => None | Some (errs, running, _) =>
                       let '(key, child) := br_elem pg i in
                       let e1 := verify_key child i key running maxo in
                       let mx := if i <? n - 1 then Some (fst (br_elem pg (i + 1))) else maxo in
                       match key_order f child (Some key) mx with
                       | None => None
                       | Some (e2, sub) => Some (errs ++ e1 ++ e2, sub, sub)
                       end
                     end)
                  (run 0 n) (Some ([], mino, None)) with
        | None => None
        | Some (errs, _, sub) => Some (errs, sub)
        end
      else if is_leaf pg then
        let n := p_count pg in
        let '(errs, _) := fold_left (fun (a : list cerr * option bytes) i =>
                              let '(_, key, _, _) := lf_elem pg i in
                              (fst a ++ verify_key pg i key (snd a) maxo, Some key))
                            (run 0 n) ([], mino) in
        Some (errs, if 0 <? n then Some (let '(_, key, _, _) := lf_elem pg (n - 1) in key) else None)
      else Some ([EUnexpectedType pg], None)
    end.

  (** every page of the tree below [pg] is a branch or a leaf page (the walkable test) *)
  Fixpoint walkable (fuel : nat) (pg : N) : option bool :=
    match fuel with O => None | S f =>
      if is_branch pg then
        fold_left (fun (a : option bool) i => match a with None => None | Some b =>
                     match walkable f (snd (br_elem pg i)) with None => None | Some b' => Some (b && b') end end)
                  (run 0 (p_count pg)) (Some true)
      else Some (is_leaf pg)
    end.

  (** root page ids of the nested buckets stored in the tree below [pg], in page order *)
  Fixpoint nested_roots (fuel : nat) (pg : N) : option (list N) :=
    match fuel with O => None | S f =>
      if is_branch pg then
        fold_left (fun (a : option (list N)) i => match a with None => None | Some l =>
                     match nested_roots f (snd (br_elem pg i)) with None => None | Some l' => Some (l ++ l') end end)
                  (run 0 (p_count pg)) (Some [])
      else if is_leaf pg then
        Some (flat_map (fun i => let '(fl, _, voff, _) := lf_elem pg i in
                                 if N.odd fl then [u64 rd voff] else []) (run 0 (p_count pg)))
      else Some []
    end.

  (** recursivelyCheckBucket on the bucket whose root page is [root] *)
  Fixpoint check_bucket (fuel : nat) (root : N) (s : cst) : option cst :=
    match fuel with O => None | S f =>
      if root =? 0 then Some s else
      match walk_reach f root s with None => None | Some s1 =>
      match key_order f root None None with None => None | Some (kerrs, _) =>
      let s2 : cst := (fst s1, rev kerrs ++ snd s1) in
      match walkable f root with None => None | Some false => Some s2 | Some true =>
      match nested_roots f root with None => None | Some roots =>
        fold_left (fun (a : option cst) r => match a with None => None | Some a' => check_bucket f r a' end) roots (Some s2)
      end end end end
    end.

  (** "already freed" for every id that occurs again in Copyall's result *)
  Fixpoint dup_errs (seen l : list N) : list cerr :=
    match l with [] => [] | id :: r => (if memN id seen then [EAlreadyFreed id] else []) ++ dup_errs (id :: seen) r end.

  (** tx.check with pageId = 0; [flrun] = ids of the freelist page run ([] when the freelist is not persisted),
      [root] = root page of the root bucket *)
  Definition check (fuel : nat) (flrun : list N) (root : N) : option (list cerr) :=
    let seed := rev flrun ++ [1; 0] in
    (* the meta pages and the pages holding the free list are in use: none of them may be listed as free *)
    let seed_errs := flat_map (fun id => if memN id seed && memN id freed then [EReachFreed id] else []) (run 0 hwm) in
    let s0 : cst := (seed, rev seed_errs ++ rev (dup_errs [] freed)) in
    match check_bucket fuel root s0 with
    | None => None
    | Some (reach, errs) =>
      Some (rev errs ++ flat_map (fun i => if negb (memN i reach) && negb (memN i freed) then [EUnreachUnfreed i] else [])
                                 (run 0 hwm))
    end.
End Chk.

(** tx.check on a file: meta choice, freelist ids and run from the independent reader's view of the file.
    [scan] = what the loaded freelist holds when none is persisted (the harness supplies the ids it observed). *)
Definition check_file (rd : N -> N) (ps : N) (fuel : nat) (scan : list N) : option (list cerr) :=
  match choose_meta rd ps with
  | None => None
  | Some m =>
    let nofl := m_fl m =? pgid_no_freelist in
    let freed := if nofl then scan else freelist_ids rd ps (m_fl m) in
    let flrun := if nofl then [] else run (m_fl m) (freelist_overflow rd ps (m_fl m) + 1) in
    check rd ps freed (m_mark m) fuel flrun (m_root m)
  end.

(** the CLI's decision (checkFunc): corrupt iff at least one error was reported *)
Definition cli_exit (errs : list cerr) : N := match errs with [] => 0 | _ => 1 end.
