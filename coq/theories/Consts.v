(** Layout and limit constants of the version-2 format as the model uses them.  Tie/GenConsts.v (regenerated
    from the compiled Go on every run) states each of them as an [Example] against the Go value. *)
From Bbolt Require Import Base.

Definition page_header_size : N := 16.
Definition page_sizeof : N := 16.
Definition meta_sizeof : N := 64.
Definition inbucket_sizeof : N := 16.
Definition bucket_header_size : N := 16.
Definition branch_elem_size : N := 16.
Definition leaf_elem_size : N := 16.
Definition min_keys_per_page : N := 2.
Definition branch_page_flag : N := 1.
Definition leaf_page_flag : N := 2.
Definition meta_page_flag : N := 4.
Definition freelist_page_flag : N := 16.
Definition bucket_leaf_flag : N := 1.
Definition magic : N := 3977042669.          (* 0xED0CDAED *)
Definition version : N := 2.
Definition pgid_no_freelist : N := 18446744073709551615.
Definition max_key_size : N := 32768.
Definition max_value_size : N := 2147483646.  (* (1<<31) - 2 *)
Definition max_alloc_size : N := 2147483647.  (* 0x7FFFFFFF *)
Definition default_alloc_size : N := 16777216.
Definition max_mmap_step : N := 1073741824.
Definition max_map_size : N := 281474976710655.  (* 0xFFFFFFFFFFFF *)
Definition default_fill_percent : N := 50.
Definition default_max_batch : N := 1000.
