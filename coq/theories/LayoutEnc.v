(** LayoutEnc: the WRITER side of the version-2 format as a specification (what bytes a conforming writer
    must produce), used to state round-trip theorems against the independent reader Layout.v. *)
From Bbolt Require Import Base Consts Spec Fnv Layout.

(** little-endian encoding of [v] on [n] bytes *)
Fixpoint enc_le (n : nat) (v : N) : list N :=
  match n with O => [] | S n' => (v mod 256) :: enc_le n' (v / 256) end.

(** a byte list as file content *)
Definition rd_of (l : list N) (off : N) : N := nth (N.to_nat off) l 0.

(** the 64-byte meta structure: magic, version, pageSize, flags, root{pgid,seq}, freelist, pgid, txid, checksum *)
Definition enc_meta_body (m : meta) : list N :=
  enc_le 4 (m_magic m) ++ enc_le 4 (m_version m) ++ enc_le 4 (m_pagesize m) ++ enc_le 4 (m_flags m) ++
  enc_le 8 (m_root m) ++ enc_le 8 (m_seq m) ++ enc_le 8 (m_fl m) ++ enc_le 8 (m_mark m) ++ enc_le 8 (m_txid m).

(** Meta.Write: checksum := Sum64 over the first 56 bytes *)
Definition enc_meta (m : meta) : list N :=
  let body := enc_meta_body m in body ++ enc_le 8 (fnv64a body).

Definition meta_fields_ok (m : meta) : Prop :=
  m_magic m < 2^32 /\ m_version m < 2^32 /\ m_pagesize m < 2^32 /\ m_flags m < 2^32 /\
  m_root m < 2^64 /\ m_seq m < 2^64 /\ m_fl m < 2^64 /\ m_mark m < 2^64 /\ m_txid m < 2^64.

Definition with_sum (m : meta) : meta :=
  {| m_magic := m_magic m; m_version := m_version m; m_pagesize := m_pagesize m; m_flags := m_flags m;
     m_root := m_root m; m_seq := m_seq m; m_fl := m_fl m; m_mark := m_mark m; m_txid := m_txid m;
     m_sum := fnv64a (enc_meta_body m) |}.
