(** Conc: transactions of several threads at the granularity of bbolt's locks (db.go beginRWTx/beginTx, tx.go
    Commit/rollback/close): the writer mutex [rwlock] is taken in beginRWTx and released in tx.close on every path;
    the meta page is read under [metalock] after the writer mutex is held; the transaction id is incremented only in
    the writer's private meta and published by writeMeta.  A schedule is a list of thread numbers; a step of a blocked
    thread does nothing.  Definitions only (proofs: ConcProofs.v).
    Not in the model: the Go memory model (data races), the runtime's wake-up of blocked goroutines, the mmap lock. *)
From Bbolt Require Import Base.

Definition content := N.                     (* what the database holds, abstractly *)

Inductive wend := ECommit | EError | EPanic | ERollback.     (* how a write transaction ends *)
Inductive prog := PWrite (tok : N) (e : wend) | PRead.

Inductive kind := KCommit | KAbort | KRead.
Record txrec := { t_thread : nat; t_id : N; t_kind : kind; t_read : content; t_written : content }.

Inductive pc :=
| Idle (todo : list prog)
| WLocked (tok : N) (e : wend) (todo : list prog)                       (* rwlock.Lock() returned *)
| WHold (id : N) (rc : content) (tok : N) (e : wend) (todo : list prog) (* meta copied, txid incremented privately *)
| WDirty (id : N) (rc nc : content) (e : wend) (todo : list prog)        (* the body ran on the private copy *)
| WUnlock (todo : list prog)                                            (* commit/rollback done, before rwlock.Unlock() *)
| RSnap (id : N) (c : content) (todo : list prog).                      (* read transaction: meta copied *)

Record cstate := { mid : N; mc : content; lock : option nat; thr : list pc; log : list txrec }.

Fixpoint upd (l : list pc) (t : nat) (p : pc) : list pc :=
  match l, t with
  | [], _ => []
  | _ :: r, O => p :: r
  | x :: r, S t' => x :: upd r t' p
  end.

Section WithMix.
  Variable mix : content -> N -> content.     (* what a body does to the content: any function *)

  Definition cstep (s : cstate) (t : nat) : cstate :=
    match nth_error (thr s) t with
    | None => s
    | Some p =>
      match p with
      | Idle [] => s
      | Idle (PWrite tok e :: todo) =>
        match lock s with
        | None => {| mid := mid s; mc := mc s; lock := Some t; thr := upd (thr s) t (WLocked tok e todo); log := log s |}
        | Some _ => s                                        (* blocked on the writer mutex *)
        end
      | WLocked tok e todo =>
        {| mid := mid s; mc := mc s; lock := lock s; thr := upd (thr s) t (WHold (mid s + 1) (mc s) tok e todo); log := log s |}
      | WHold id rc tok e todo =>
        {| mid := mid s; mc := mc s; lock := lock s; thr := upd (thr s) t (WDirty id rc (mix rc tok) e todo); log := log s |}
      | WDirty id rc nc e todo =>
        match e with
        | ECommit => {| mid := id; mc := nc; lock := lock s; thr := upd (thr s) t (WUnlock todo);
                        log := log s ++ [{| t_thread := t; t_id := id; t_kind := KCommit; t_read := rc; t_written := nc |}] |}
        | _ => {| mid := mid s; mc := mc s; lock := lock s; thr := upd (thr s) t (WUnlock todo);
                  log := log s ++ [{| t_thread := t; t_id := id; t_kind := KAbort; t_read := rc; t_written := nc |}] |}
        end
      | WUnlock todo =>
        {| mid := mid s; mc := mc s; lock := None; thr := upd (thr s) t (Idle todo); log := log s |}
      | Idle (PRead :: todo) =>
        {| mid := mid s; mc := mc s; lock := lock s; thr := upd (thr s) t (RSnap (mid s) (mc s) todo); log := log s |}
      | RSnap id c todo =>
        {| mid := mid s; mc := mc s; lock := lock s; thr := upd (thr s) t (Idle todo);
           log := log s ++ [{| t_thread := t; t_id := id; t_kind := KRead; t_read := c; t_written := c |}] |}
      end
    end.

  Definition cinit (id0 : N) (c0 : content) (progs : list (list prog)) : cstate :=
    {| mid := id0; mc := c0; lock := None; thr := map Idle progs; log := [] |}.

  Definition crun (s : cstate) (sched : list nat) : cstate := fold_left cstep sched s.
End WithMix.

(** * the serial reading of a log: a decision procedure that does not depend on the order of the records *)
Definition is_commit (r : txrec) : bool := match t_kind r with KCommit => true | _ => false end.
Definition commits (l : list txrec) : list txrec := filter is_commit l.

(** content of version [id]: the initial one, or what the committed transaction with that id wrote *)
Definition ver_of (id0 : N) (c0 : content) (l : list txrec) (id : N) : option content :=
  if id =? id0 then Some c0
  else match find (fun r => is_commit r && (t_id r =? id)) l with Some r => Some (t_written r) | None => None end.

Definition opt_is (o : option content) (c : content) : bool := match o with Some x => x =? c | None => false end.

Definition rec_ok (id0 : N) (c0 : content) (l : list txrec) (r : txrec) : bool :=
  match t_kind r with
  | KCommit | KAbort => (id0 <? t_id r) && opt_is (ver_of id0 c0 l (t_id r - 1)) (t_read r)   (* saw exactly its predecessor *)
  | KRead => opt_is (ver_of id0 c0 l (t_id r)) (t_read r)                                       (* its id names what it reads *)
  end.

Definition ids_consecutive (id0 : N) (l : list txrec) : bool :=
  eqlN (sortN (map t_id (commits l))) (run_nat (id0 + 1) (length (commits l))).

Definition serial_ok (id0 : N) (c0 : content) (l : list txrec) : bool :=
  ids_consecutive id0 l && forallb (rec_ok id0 c0 l) l.

(** a thread holds the writer mutex *)
Definition is_w (p : pc) : bool :=
  match p with WLocked _ _ _ | WHold _ _ _ _ _ | WDirty _ _ _ _ _ | WUnlock _ => true | _ => false end.
Definition unfinished (p : pc) : bool := match p with Idle [] => false | _ => true end.
