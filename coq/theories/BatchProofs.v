(** C16: Batch applies each successful function exactly once. *)
From Bbolt Require Import Base Batch.
From Coq Require Import Sorting.Permutation.

(** * swap-remove takes out exactly the element at the index *)
Lemma nth_error_split {A} (l : list A) i x : nth_error l i = Some x ->
  l = firstn i l ++ x :: skipn (S i) l.
Proof.
  revert i; induction l as [|a l IH]; intros [|i] H; simpl in *; try discriminate.
  - inversion H; reflexivity.
  - f_equal. apply IH. exact H.
Qed.

Lemma nth_error_skipn' {A} (l : list A) : forall n m, nth_error (skipn n l) m = nth_error l (n + m).
Proof. induction l as [|a l IH]; intros [|n] m; simpl; auto. destruct m; reflexivity. Qed.

Lemma nth_error_Some_lt {A} (l : list A) i x : nth_error l i = Some x -> (i < length l)%nat.
Proof. intros H. apply nth_error_Some. congruence. Qed.

Lemma swap_remove_perm l i : (i < length l)%nat -> Permutation l (nth i l 0 :: swap_remove l i).
Proof.
  intros Hi. unfold swap_remove.
  destruct (nth_error l i) as [x|] eqn:E; [|apply nth_error_None in E; lia].
  assert (Ex : nth i l 0 = x) by (apply nth_error_nth; exact E). rewrite Ex.
  set (last := (length l - 1)%nat).
  destruct (Nat.eqb_spec i last) as [->|Hne].
  - (* the last element: simply dropped *)
    rewrite (nth_error_split l last x E) at 1.
    assert (skipn (S last) l = []) by (apply skipn_all2; unfold last; lia). rewrite H.
    rewrite Permutation_app_comm. reflexivity.
  - assert (Hl : (last < length l)%nat) by (unfold last; lia).
    destruct (nth_error l last) as [y|] eqn:El; [|apply nth_error_None in El; lia].
    assert (Ey : nth last l 0 = y) by (apply nth_error_nth; exact El). rewrite Ey.
    (* l = firstn i l ++ x :: mid ++ [y] *)
    set (tail := skipn (S i) l).
    assert (Ht : nth_error tail (last - i - 1) = Some y).
    { unfold tail. rewrite nth_error_skipn'. replace (S i + (last - i - 1))%nat with last by (unfold last in *; lia). exact El. }
    assert (Hlen : length tail = (last - i)%nat) by (unfold tail; rewrite skipn_length; unfold last; lia).
    pose proof (nth_error_split tail (last - i - 1) y Ht) as Hs.
    assert (Hnil : skipn (S (last - i - 1)) tail = []) by (apply skipn_all2; lia).
    rewrite Hnil in Hs.
    set (mid := firstn (last - i - 1) tail) in *.
    assert (El2 : l = firstn i l ++ x :: mid ++ [y]).
    { rewrite (nth_error_split l i x E) at 1. fold tail. rewrite <- Hs. reflexivity. }
    change (firstn (last - i - 1) (skipn (S i) l)) with mid.
    rewrite El2 at 1. simpl app.
    apply Permutation_trans with (x :: firstn i l ++ mid ++ [y]).
    + symmetry. apply Permutation_middle.
    + constructor. apply Permutation_app_head. apply Permutation_app_comm.
Qed.

Lemma swap_remove_facts l i : NoDup l -> (i < length l)%nat ->
  NoDup (swap_remove l i) /\ length (swap_remove l i) = (length l - 1)%nat /\
  ~ In (nth i l 0) (swap_remove l i) /\ (forall x, In x (swap_remove l i) -> In x l) /\
  (forall x, In x l -> x = nth i l 0 \/ In x (swap_remove l i)).
Proof.
  intros ND Hi. pose proof (swap_remove_perm l i Hi) as P.
  pose proof (Permutation_NoDup P ND) as ND'. inversion ND' as [|? ? Hn ND'']; subst.
  pose proof (Permutation_length P) as L. simpl in L. repeat split; auto.
  - lia.
  - intros x Hx. apply (Permutation_in _ (Permutation_sym P)). right; exact Hx.
  - intros x Hx. apply (Permutation_in _ P) in Hx. destruct Hx as [<-|Hx]; auto.
Qed.

(** * one round *)
Lemma cnt_get_inc c l : cnt_get c (cnt_inc c l) = S (cnt_get c l).
Proof. unfold cnt_inc. simpl. now rewrite N.eqb_refl. Qed.

(** a round that fails at index [i]: [i] is a valid index; a round without failure invokes every call exactly once,
    each with outcome OOk *)
Lemma round_fail sc calls : forall cnt idx cnt' invs i,
  round sc calls cnt idx = (cnt', invs, Some i) -> (idx <= i < idx + length calls)%nat.
Proof.
  induction calls as [|c rest IH]; intros cnt idx cnt' invs i H; cbn [round] in H; [discriminate|].
  destruct (sc c (cnt_get c (cnt_inc c cnt))).
  - destruct (round sc rest (cnt_inc c cnt) (S idx)) as [[c2 i2] f2] eqn:E.
    injection H as _ _ Hf. subst f2. apply IH in E. simpl. lia.
  - inversion H; subst. simpl. lia.
  - inversion H; subst. simpl. lia.
Qed.

Lemma round_ok sc calls : forall cnt idx cnt' invs,
  round sc calls cnt idx = (cnt', invs, None) ->
  map fst invs = calls /\ (forall c k, In (c, k) invs -> sc c k = OOk).
Proof.
  induction calls as [|c rest IH]; intros cnt idx cnt' invs H; cbn [round] in H.
  - inversion H; subst. split; [reflexivity | intros ? ? []].
  - destruct (sc c (cnt_get c (cnt_inc c cnt))) eqn:Eo; try discriminate.
    destruct (round sc rest (cnt_inc c cnt) (S idx)) as [[c2 i2] f2] eqn:E. inversion H; subst.
    destruct (IH _ _ _ _ E) as [M O]. split; [simpl; now rewrite M|].
    intros c0 k [Eq|Hin]; [inversion Eq; subst; exact Eo | eauto].
Qed.

(** * the invariant of batch.run *)
Definition good (sc : script) (committed : list (N * nat)) (c : N) (r : result) : Prop :=
  match r with
  | RNil => exists k, committed_of c committed = [k] /\ sc c k = OOk
  | _ => committed_of c committed = []
  end.

Definition binv (sc : script) (calls : list N) (s : bstate) : Prop :=
  NoDup calls /\
  (forall c, In c calls -> res_get c (b_results s) = None /\ committed_of c (b_committed s) = []) /\
  (forall c r, res_get c (b_results s) = Some r -> good sc (b_committed s) c r).

Lemma committed_of_cons_ne c c' k l : c <> c' -> committed_of c ((c', k) :: l) = committed_of c l.
Proof. intros H. unfold committed_of. simpl. destruct (N.eqb_spec c' c); [congruence | reflexivity]. Qed.

Lemma committed_of_cons_eq c k l : committed_of c ((c, k) :: l) = k :: committed_of c l.
Proof. unfold committed_of. simpl. now rewrite N.eqb_refl. Qed.

Lemma committed_of_app c a b : committed_of c (a ++ b) = committed_of c a ++ committed_of c b.
Proof. unfold committed_of. now rewrite filter_app, map_app. Qed.

Lemma res_get_app_notin c calls r0 rest : ~ In c calls ->
  res_get c (map (fun c => (c, r0)) calls ++ rest) = res_get c rest.
Proof.
  induction calls as [|a l IH]; intros H; simpl; [reflexivity|].
  destruct (N.eqb_spec c a) as [->|]; [exfalso; apply H; left; reflexivity|]. apply IH. intros Hin; apply H; right; exact Hin.
Qed.

Lemma res_get_app_in c calls r0 rest : In c calls -> res_get c (map (fun c => (c, r0)) calls ++ rest) = Some r0.
Proof.
  induction calls as [|a l IH]; intros H; simpl; [destruct H|].
  destruct (N.eqb_spec c a) as [->|Hne]; [reflexivity|]. apply IH. destruct H as [->|H]; [congruence | exact H].
Qed.

(** the invocations of a successful round, restricted to one caller of a duplicate-free batch: exactly one *)
Lemma committed_of_invs c invs : NoDup (map fst invs) -> In c (map fst invs) ->
  exists k, committed_of c invs = [k] /\ In (c, k) invs.
Proof.
  induction invs as [|[a k] l IH]; intros ND Hin; [destruct Hin|].
  simpl in ND, Hin. inversion ND as [|? ? Hn ND']; subst.
  destruct (N.eq_dec c a) as [->|Hne].
  - exists k. rewrite committed_of_cons_eq. split; [|left; reflexivity]. f_equal.
    unfold committed_of. clear -Hn. induction l as [|[b kb] l IHl]; [reflexivity|]. simpl in *.
    destruct (N.eqb_spec b a) as [->|]; [exfalso; apply Hn; left; reflexivity|]. apply IHl. tauto.
  - destruct Hin as [E|Hin]; [congruence|]. destruct (IH ND' Hin) as (k0 & E0 & I0).
    exists k0. rewrite committed_of_cons_ne by exact Hne. split; [exact E0 | right; exact I0].
Qed.

Lemma committed_of_notin c invs : ~ In c (map fst invs) -> committed_of c invs = [].
Proof.
  induction invs as [|[a k] l IH]; intros H; [reflexivity|]. simpl in H.
  rewrite committed_of_cons_ne by (intros ->; apply H; left; reflexivity). apply IH. tauto.
Qed.

Lemma res_get_cons_ne x c r0 l : x <> c -> res_get x ((c, r0) :: l) = res_get x l.
Proof. intros H. simpl. destruct (N.eqb_spec x c); [congruence | reflexivity]. Qed.

Lemma swap_remove_sub l i x : In x (swap_remove l i) -> In x l.
Proof.
  destruct (Nat.lt_ge_cases i (length l)) as [Hi|Hi].
  - intros H. apply (Permutation_in _ (Permutation_sym (swap_remove_perm l i Hi))). right; exact H.
  - unfold swap_remove. destruct (nth_error l i) eqn:E; [|auto]. apply nth_error_Some_lt in E. lia.
Qed.

(** a caller that is not (any longer) in the batch keeps the result it has *)
Lemma results_grow sc fuel : forall calls s s', run_batch fuel sc true calls s = Some s' ->
  forall x r, ~ In x calls -> res_get x (b_results s) = Some r -> res_get x (b_results s') = Some r.
Proof.
  induction fuel as [|f IHf]; intros calls s s' H x r Hn Hr; [discriminate|]. cbn [run_batch] in H.
  destruct calls as [|c0 rest]; [inversion H; subst; exact Hr|]. set (calls := c0 :: rest) in *.
  destruct (round sc calls (b_cnt s) 0) as [[cnt' invs] fail] eqn:ER. destruct fail as [i|].
  - pose proof (round_fail _ _ _ _ _ _ _ ER) as Hi. simpl in Hi.
    assert (Hc : In (nth i calls 0) calls) by (apply nth_In; unfold calls; simpl; lia).
    eapply IHf; [exact H | intros Hin; apply Hn; eapply swap_remove_sub; exact Hin |].
    assert (x <> nth i calls 0) by (intros ->; exact (Hn Hc)).
    unfold solo. cbn [b_cnt b_results]. destruct (sc _ _); cbn [b_results];
      rewrite res_get_cons_ne by assumption; exact Hr.
  - cbv iota in H. inversion H; subst. cbn [b_results]. exact (eq_trans (res_get_app_notin x calls RNil (b_results s) Hn) Hr).
Qed.

Theorem run_batch_inv fuel sc : forall calls s s', binv sc calls s ->
  run_batch fuel sc true calls s = Some s' ->
  (forall c, In c calls -> exists r, res_get c (b_results s') = Some r) /\
  (forall c r, res_get c (b_results s') = Some r -> good sc (b_committed s') c r).
Proof.
  induction fuel as [|f IH]; intros calls s s' (ND & Hfresh & Hgood) H; [discriminate|].
  pose proof H as Hrun.
  cbn [run_batch] in H. destruct calls as [|c0 rest]; [inversion H; subst; split; [intros ? [] | exact Hgood]|].
  set (calls := c0 :: rest) in *.
  destruct (round sc calls (b_cnt s) 0) as [[cnt' invs] fail] eqn:ER.
  destruct fail as [i|].
  - (* the call at index i failed: taken out, re-run solo; the rest is retried *)
    pose proof (round_fail _ _ _ _ _ _ _ ER) as Hi. simpl in Hi.
    assert (Hi' : (i < length calls)%nat) by (unfold calls; simpl; lia).
    destruct (swap_remove_facts calls i ND Hi') as (ND' & L' & Hnot & Hsub & Hcov).
    set (c := nth i calls 0) in *.
    assert (Hc : In c calls) by (apply nth_In; exact Hi').
    destruct (Hfresh c Hc) as [Rc Cc].
    set (s1 := {| b_cnt := cnt'; b_results := b_results s; b_committed := b_committed s |}) in *.
    assert (I2 : binv sc (swap_remove calls i) (solo sc c s1)).
    { unfold binv, solo, s1. cbn [b_cnt b_results b_committed].
      destruct (sc c (cnt_get c (cnt_inc c cnt'))) eqn:Eo; cbn [b_cnt b_results b_committed]; (split; [exact ND'|]); split.
      - intros x Hx. assert (x <> c) by (intros ->; exact (Hnot Hx)). destruct (Hfresh x (Hsub x Hx)) as [A B].
        split; [simpl; destruct (N.eqb_spec x c); [congruence | exact A] | rewrite committed_of_cons_ne by assumption; exact B].
      - intros x r Hr. simpl in Hr. destruct (N.eqb_spec x c) as [->|Hne].
        + inversion Hr; subst. simpl. exists (cnt_get c (cnt_inc c cnt')). rewrite committed_of_cons_eq, Cc. split; [reflexivity | exact Eo].
        + specialize (Hgood x r Hr). unfold good in *. destruct r; rewrite committed_of_cons_ne by assumption; exact Hgood.
      - intros x Hx. assert (x <> c) by (intros ->; exact (Hnot Hx)). destruct (Hfresh x (Hsub x Hx)) as [A B].
        split; [simpl; destruct (N.eqb_spec x c); [congruence | exact A] | exact B].
      - intros x r Hr. simpl in Hr. destruct (N.eqb_spec x c) as [->|Hne]; [inversion Hr; subst; simpl; exact Cc | exact (Hgood x r Hr)].
      - intros x Hx. assert (x <> c) by (intros ->; exact (Hnot Hx)). destruct (Hfresh x (Hsub x Hx)) as [A B].
        split; [simpl; destruct (N.eqb_spec x c); [congruence | exact A] | exact B].
      - intros x r Hr. simpl in Hr. destruct (N.eqb_spec x c) as [->|Hne]; [inversion Hr; subst; simpl; exact Cc | exact (Hgood x r Hr)]. }
    destruct (IH _ _ _ I2 H) as [Hall Hg]. split; [|exact Hg].
    intros x Hx. destruct (Hcov x Hx) as [->|Hin]; [|exact (Hall x Hin)].
    (* the failed caller got its result from the solo run and keeps it *)
    assert (Hsolo : exists r, res_get c (b_results (solo sc c s1)) = Some r).
    { unfold solo. destruct (sc c _); simpl; rewrite N.eqb_refl; eauto. }
    destruct Hsolo as [r Hr]. exists r. eapply results_grow; [exact H | exact Hnot | exact Hr].
  - (* nobody failed: the transaction commits, every call's invocation of this round is committed *)
    assert (Es : s' = {| b_cnt := cnt'; b_results := map (fun c => (c, RNil)) calls ++ b_results s;
                          b_committed := invs ++ b_committed s |}) by (cbv iota in H; congruence).
    subst s'. clear H. cbn [b_results b_committed].
    destruct (round_ok _ _ _ _ _ _ ER) as [Hm Hok].
    split.
    + intros x Hx. exists RNil. apply res_get_app_in. exact Hx.
    + intros x r Hr. destruct (in_dec N.eq_dec x calls) as [Hin|Hnin].
      * rewrite res_get_app_in in Hr by exact Hin. inversion Hr; subst. simpl.
        destruct (Hfresh x Hin) as [_ Cx]. rewrite committed_of_app, Cx, app_nil_r.
        assert (ND2 : NoDup (map fst invs)) by (rewrite Hm; exact ND).
        assert (Hin2 : In x (map fst invs)) by (rewrite Hm; exact Hin).
        destruct (committed_of_invs x invs ND2 Hin2) as (k & E & I). exists k. split; [exact E | exact (Hok x k I)].
      * rewrite res_get_app_notin in Hr by exact Hnin. specialize (Hgood x r Hr).
        assert (En : committed_of x invs = []) by (apply committed_of_notin; rewrite Hm; exact Hnin).
        unfold good in *. destruct r; rewrite committed_of_app, En; exact Hgood.
Qed.

(** termination: every retry removes one call, so [length calls + 1] rounds always suffice *)
Theorem run_batch_terminates sc ok : forall calls s, exists s', run_batch (S (length calls)) sc ok calls s = Some s'.
Proof.
  intros calls. remember (length calls) as n eqn:En. revert calls En.
  induction n as [|n IH]; intros calls En s.
  - destruct calls; [eexists; reflexivity | discriminate].
  - cbn [run_batch]. destruct calls as [|c0 rest]; [discriminate|]. set (calls := c0 :: rest) in *.
    destruct (round sc calls (b_cnt s) 0) as [[cnt' invs] fail] eqn:ER. destruct fail as [i|]; [|eexists; reflexivity].
    pose proof (round_fail _ _ _ _ _ _ _ ER) as Hi. simpl in Hi.
    assert (L : length (swap_remove calls i) = n).
    { pose proof (Permutation_length (swap_remove_perm calls i ltac:(unfold calls; simpl; lia))) as P. simpl in P.
      unfold calls in *. simpl in En, P. lia. }
    apply IH. symmetry. exact L.
Qed.

(** C16: every caller of a batch of distinct callers gets a result; nil means exactly one of its invocations is
    committed (and that invocation succeeded); an error or a panic means none is *)
Theorem batch_exactly_once sc calls s' : NoDup calls ->
  run_batch (S (length calls)) sc true calls bstate0 = Some s' ->
  forall c, In c calls -> exists r, res_get c (b_results s') = Some r /\ good sc (b_committed s') c r.
Proof.
  intros ND H c Hc.
  assert (I0 : binv sc calls bstate0).
  { split; [exact ND|]. split; [intros; split; reflexivity | intros ? ? Hr; discriminate]. }
  destruct (run_batch_inv _ sc calls bstate0 s' I0 H) as [Hall Hg].
  destruct (Hall c Hc) as [r Hr]. exists r. split; [exact Hr | exact (Hg c r Hr)].
Qed.
