(** Proofs about Spec.v: the reference map is a map; errors change nothing; read-your-own-writes. *)
From Bbolt Require Import Base Consts Spec.

(** * byte-string order *)
Lemma bcmp_refl a : bcmp a a = Eq.
Proof. induction a as [|x a IH]; simpl; [reflexivity|]. now rewrite N.compare_refl. Qed.

Lemma bcmp_eq a b : bcmp a b = Eq -> a = b.
Proof.
  revert b; induction a as [|x a IH]; intros [|y b]; simpl; try discriminate; [reflexivity|].
  destruct (x ?= y) eqn:E; try discriminate. apply N.compare_eq in E. intros H. f_equal; [exact E | now apply IH].
Qed.

Lemma bcmp_antisym a b : bcmp b a = CompOpp (bcmp a b).
Proof.
  revert b; induction a as [|x a IH]; intros [|y b]; simpl; try reflexivity.
  rewrite (N.compare_antisym x y). destruct (x ?= y); simpl; auto.
Qed.

Lemma bcmp_lt_trans a b c : bcmp a b = Lt -> bcmp b c = Lt -> bcmp a c = Lt.
Proof.
  revert b c; induction a as [|x a IH]; intros [|y b] [|z c]; simpl; try discriminate; try reflexivity.
  destruct (x ?= y) eqn:E1; try discriminate; destruct (y ?= z) eqn:E2; try discriminate; intros H1 H2.
  - apply N.compare_eq in E1, E2. subst. rewrite N.compare_refl. eapply IH; eauto.
  - apply N.compare_eq in E1. subst. now rewrite E2.
  - apply N.compare_eq in E2. subst. now rewrite E1.
  - rewrite N.compare_lt_iff in *. assert (x < z) by lia. apply N.compare_lt_iff in H. now rewrite H.
Qed.

Lemma blt_trans a b c : blt a b = true -> blt b c = true -> blt a c = true.
Proof.
  unfold blt. destruct (bcmp a b) eqn:E1; try discriminate. destruct (bcmp b c) eqn:E2; try discriminate.
  intros _ _. now rewrite (bcmp_lt_trans _ _ _ E1 E2).
Qed.

Lemma bcmp_gt_lt a b : bcmp a b = Gt <-> bcmp b a = Lt.
Proof. rewrite (bcmp_antisym a b). destruct (bcmp a b); simpl; split; congruence. Qed.

(** * sorted association lists *)
Definition lower_bound (k : bytes) (l : list (bytes * entry)) : Prop :=
  match l with [] => True | (k', _) :: _ => bcmp k k' = Lt end.

Lemma keys_sorted_cons k e l : keys_sorted ((k, e) :: l) = true <-> lower_bound k l /\ keys_sorted l = true.
Proof.
  simpl. destruct l as [|[k' e'] l].
  - simpl. tauto.
  - unfold lower_bound, blt. rewrite andb_true_iff. destruct (bcmp k k'); split; intros [A B]; try discriminate; auto.
Qed.

Lemma sorted_all_gt k e l k2 : keys_sorted ((k, e) :: l) = true -> bcmp k2 k = Lt -> lookup k2 l = None.
Proof.
  revert k e. induction l as [|[k' e'] l IH]; intros k e Hs Hlt; [reflexivity|].
  apply keys_sorted_cons in Hs. destruct Hs as [Hlb Hs]. simpl in Hlb.
  simpl. rewrite (bcmp_lt_trans _ _ _ Hlt Hlb). reflexivity.
Qed.

Theorem lookup_insert_same k e l : lookup k (insert k e l) = Some e.
Proof.
  induction l as [|[k' e'] l IH]; simpl.
  - now rewrite bcmp_refl.
  - destruct (bcmp k k') eqn:E; simpl.
    + now rewrite bcmp_refl.
    + now rewrite bcmp_refl.
    + rewrite E. exact IH.
Qed.

Theorem lookup_insert_other k k2 e l : keys_sorted l = true -> bcmp k2 k <> Eq ->
  lookup k2 (insert k e l) = lookup k2 l.
Proof.
  intros Hs Hne. induction l as [|[k' e'] l IH]; simpl.
  - destruct (bcmp k2 k) eqn:E; congruence.
  - destruct (bcmp k k') eqn:E; simpl.
    + apply bcmp_eq in E. subst k'. destruct (bcmp k2 k); congruence.
    + destruct (bcmp k2 k) eqn:E2; try congruence.
      rewrite (bcmp_lt_trans _ _ _ E2 E). reflexivity.
    + destruct (bcmp k2 k') eqn:E2; try reflexivity.
      apply IH. apply keys_sorted_cons in Hs. tauto.
Qed.

Lemma insert_lower_bound k0 k e l : lower_bound k0 l -> bcmp k0 k = Lt -> lower_bound k0 (insert k e l).
Proof.
  destruct l as [|[k' e'] l]; simpl; intros H1 H2; [exact H2|].
  destruct (bcmp k k'); simpl; auto.
Qed.

Theorem insert_sorted k e l : keys_sorted l = true -> keys_sorted (insert k e l) = true.
Proof.
  induction l as [|[k' e'] l IH]; intros Hs; [reflexivity|].
  simpl insert. destruct (bcmp k k') eqn:E.
  - apply bcmp_eq in E. subst k'. apply keys_sorted_cons in Hs. apply keys_sorted_cons. exact Hs.
  - apply keys_sorted_cons. split; [exact E | exact Hs].
  - apply keys_sorted_cons in Hs. destruct Hs as [Hlb Hs]. apply keys_sorted_cons. split.
    + apply insert_lower_bound; [exact Hlb | now apply bcmp_gt_lt].
    + now apply IH.
Qed.

Theorem lookup_remove_same k l : keys_sorted l = true -> lookup k (remove k l) = None.
Proof.
  induction l as [|[k' e'] l IH]; intros Hs; [reflexivity|].
  simpl remove. destruct (bcmp k k') eqn:E.
  - apply bcmp_eq in E. subst k'. destruct l as [|[k2 e2] l]; [reflexivity|].
    apply keys_sorted_cons in Hs. destruct Hs as [Hlb _]. simpl in Hlb. simpl. now rewrite Hlb.
  - simpl. now rewrite E.
  - simpl. rewrite E. apply IH. apply keys_sorted_cons in Hs. tauto.
Qed.

Theorem lookup_remove_other k k2 l : keys_sorted l = true -> bcmp k2 k <> Eq ->
  lookup k2 (remove k l) = lookup k2 l.
Proof.
  intros Hs Hne. induction l as [|[k' e'] l IH]; [reflexivity|].
  simpl remove. destruct (bcmp k k') eqn:E.
  - apply bcmp_eq in E. subst k'. simpl. destruct (bcmp k2 k) eqn:E2; try congruence.
    eapply sorted_all_gt; eauto.
  - reflexivity.
  - simpl. destruct (bcmp k2 k'); try reflexivity. apply IH. apply keys_sorted_cons in Hs. tauto.
Qed.

Lemma remove_lower_bound k0 k l : keys_sorted l = true -> lower_bound k0 l -> lower_bound k0 (remove k l).
Proof.
  destruct l as [|[k' e'] l]; simpl; intros Hs H; [exact I|].
  destruct (bcmp k k'); simpl; auto.
  destruct l as [|[k2 e2] l]; [exact I|]. simpl.
  apply andb_true_iff in Hs. destruct Hs as [Hs _]. unfold blt in Hs.
  destruct (bcmp k' k2) eqn:E; try discriminate. eapply bcmp_lt_trans; eauto.
Qed.

Theorem remove_sorted k l : keys_sorted l = true -> keys_sorted (remove k l) = true.
Proof.
  induction l as [|[k' e'] l IH]; intros Hs; [reflexivity|].
  simpl remove. destruct (bcmp k k') eqn:E.
  - apply keys_sorted_cons in Hs. tauto.
  - exact Hs.
  - pose proof Hs as Hs0. apply keys_sorted_cons in Hs. destruct Hs as [Hlb Hs]. apply keys_sorted_cons. split.
    + now apply remove_lower_bound.
    + now apply IH.
Qed.

(** * paths *)
Lemma resolve_update p nb : forall root b0, resolve p root = Some b0 -> resolve p (update p nb root) = Some nb.
Proof.
  induction p as [|n p IH]; intros root b0 H; simpl in *; [reflexivity|].
  destruct (lookup n (snd root)) as [[v|s es]|] eqn:E; try discriminate.
  destruct (update p nb (s, es)) as [s' es'] eqn:U. simpl.
  rewrite lookup_insert_same. rewrite <- U. eapply IH; eauto.
Qed.

(** * every error leaves the state unchanged; read-only calls never change it *)
Ltac crush_goal :=
  repeat (match goal with
  | |- context [resolve ?p ?r] => destruct (resolve p r) as [?|] eqn:?
  | |- context [lookup ?k ?l] => destruct (lookup k l) as [[?|? ?]|] eqn:?
  | |- context [if ?x then _ else _] => destruct x eqn:?
  end; simpl).

Theorem exec_error_unchanged w o root e out root' :
  exec w o root = (e, out, root') -> e <> ENone -> root' = root.
Proof.
  unfold exec. destruct (is_write o && negb w).
  - intros H _. inversion H; reflexivity.
  - destruct o; simpl;
      unfold create_bucket, create_bucket_if_not_exists, delete_bucket, move_bucket, put, get, delete,
             sequence, set_sequence, next_sequence;
      crush_goal; intros H Hne; inversion H; subst; try reflexivity; congruence.
Qed.

Theorem exec_readonly_tx_unchanged o root e out root' :
  exec false o root = (e, out, root') -> root' = root.
Proof.
  unfold exec. destruct (is_write o) eqn:W; simpl.
  - intros H. inversion H; reflexivity.
  - destruct o; try discriminate; simpl; unfold get, sequence;
      repeat match goal with
      | |- context [match ?x with _ => _ end] => destruct x eqn:?; simpl
      end; intros H; inversion H; reflexivity.
Qed.

(** * read-your-own-writes *)
Theorem put_then_get p k v root root' out :
  exec true (OPut p k v) root = (ENone, out, root') ->
  exec true (OGet p k) root' = (ENone, VBytes (Some v), root').
Proof.
  unfold exec. simpl. unfold put, get.
  destruct (resolve p root) as [b|] eqn:R; [|intros H; inversion H].
  destruct (len k =? 0); [intros H; inversion H|].
  destruct (max_key_size <? len k); [intros H; inversion H|].
  destruct (max_value_size <? len v); [intros H; inversion H|].
  assert (G: forall r, root' = update p (fst b, insert k (Val v) (snd b)) root -> r = root' ->
             (let '(e, v0) := match resolve p r with
                              | Some b0 => match lookup k (snd b0) with Some (Val v1) => (ENone, Some v1) | _ => (ENone, None) end
                              | None => (ENoBucket, None) end in (e, VBytes v0, r)) = (ENone, VBytes (Some v), root')).
  { intros r -> ->. rewrite (resolve_update p _ root b R). simpl. now rewrite lookup_insert_same. }
  destruct (lookup k (snd b)) as [[v0|s es]|] eqn:L; intros H; inversion H; subst; try discriminate;
    apply G; reflexivity.
Qed.

Theorem delete_then_get p k root root' out :
  (forall b, resolve p root = Some b -> keys_sorted (snd b) = true) ->
  exec true (ODelete p k) root = (ENone, out, root') ->
  exec true (OGet p k) root' = (ENone, VBytes None, root').
Proof.
  intros Hs. unfold exec. simpl. unfold delete, get.
  destruct (resolve p root) as [b|] eqn:R; [|intros H; inversion H].
  specialize (Hs b eq_refl).
  destruct (lookup k (snd b)) as [[v0|s es]|] eqn:L; intros H; inversion H; subst.
  - rewrite (resolve_update p _ root b R). simpl. now rewrite lookup_remove_same.
  - rewrite R, L. reflexivity.
Qed.
