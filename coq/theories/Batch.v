(** Batch: model of db.Batch / batch.run (db.go).  A batch is a list of calls in arrival order; every call has a
    script saying what its k-th invocation does.  batch.run: one Update transaction invokes the calls in order and
    stops at the first one that fails (error or panic, safelyCall turns a panic into an error); that transaction is
    rolled back, the failing call is taken out by swap-remove and told to re-run solo (its own Update), the rest is
    retried; when no call fails the transaction commits and everybody gets its result.  Definitions only. *)
From Bbolt Require Import Base.

Inductive outc := OOk | OErr | OPanic.
Inductive result := RNil | RErr | RPanic | RCommitErr.

(** scripts: caller id -> invocation number (1, 2, ...) -> outcome *)
Definition script := N -> nat -> outc.

(** invocation counters *)
Fixpoint cnt_get (c : N) (l : list (N * nat)) : nat :=
  match l with [] => O | (c', n) :: r => if c =? c' then n else cnt_get c r end.
Definition cnt_inc (c : N) (l : list (N * nat)) : list (N * nat) := (c, S (cnt_get c l)) :: l.

(** one Update round: invoke in order until the first failure.
    Returns the counters, the invocations made [(caller, invocation number)], and the index of the failing call. *)
Fixpoint round (sc : script) (calls : list N) (cnt : list (N * nat)) (idx : nat) : list (N * nat) * list (N * nat) * option nat :=
  match calls with
  | [] => (cnt, [], None)
  | c :: rest =>
      let cnt' := cnt_inc c cnt in
      let k := cnt_get c cnt' in
      match sc c k with
      | OOk => let '(cnt'', invs, f) := round sc rest cnt' (S idx) in (cnt'', (c, k) :: invs, f)
      | _ => (cnt', [(c, k)], Some idx)
      end
  end.

(** calls[i], calls = calls[last], calls[:last] *)
Definition swap_remove (l : list N) (i : nat) : list N :=
  match nth_error l i with
  | None => l
  | Some _ =>
    let last := (length l - 1)%nat in
    if (i =? last)%nat then firstn last l
    else firstn i l ++ [nth last l 0] ++ firstn (last - i - 1) (skipn (S i) l)
  end.

Record bstate := { b_cnt : list (N * nat); b_results : list (N * result); b_committed : list (N * nat) }.

(** the solo re-run of a call that failed inside the batch: one more invocation in a transaction of its own *)
Definition solo (sc : script) (c : N) (s : bstate) : bstate :=
  let cnt' := cnt_inc c (b_cnt s) in
  let k := cnt_get c cnt' in
  match sc c k with
  | OOk => {| b_cnt := cnt'; b_results := (c, RNil) :: b_results s; b_committed := (c, k) :: b_committed s |}
  | OErr => {| b_cnt := cnt'; b_results := (c, RErr) :: b_results s; b_committed := b_committed s |}
  | OPanic => {| b_cnt := cnt'; b_results := (c, RPanic) :: b_results s; b_committed := b_committed s |}
  end.

(** batch.run; [commit_ok] = whether the final (all calls succeeded) transaction commits *)
Fixpoint run_batch (fuel : nat) (sc : script) (commit_ok : bool) (calls : list N) (s : bstate) : option bstate :=
  match fuel with O => None | S f =>
  match calls with
  | [] => Some s
  | _ =>
    let '(cnt', invs, fail) := round sc calls (b_cnt s) O in
    match fail with
    | Some i =>
        let c := nth i calls 0 in
        let s1 := {| b_cnt := cnt'; b_results := b_results s; b_committed := b_committed s |} in
        run_batch f sc commit_ok (swap_remove calls i) (solo sc c s1)
    | None =>
        Some (if commit_ok
              then {| b_cnt := cnt'; b_results := map (fun c => (c, RNil)) calls ++ b_results s; b_committed := invs ++ b_committed s |}
              else {| b_cnt := cnt'; b_results := map (fun c => (c, RCommitErr)) calls ++ b_results s; b_committed := b_committed s |})
    end
  end end.

Definition bstate0 : bstate := {| b_cnt := []; b_results := []; b_committed := [] |}.

Fixpoint res_get (c : N) (l : list (N * result)) : option result :=
  match l with [] => None | (c', r) :: rest => if c =? c' then Some r else res_get c rest end.
Definition committed_of (c : N) (l : list (N * nat)) : list nat := map snd (filter (fun e => fst e =? c) l).
