(** TreeNestedProofs: the write-back of child buckets (put_at_key) and commit_parent_bucket.
    N1: put_at_key replaces exactly one element of the content and changes no page id and no structure.
    N2: content of commit_parent_bucket.  N3: page accounting.  N4: every vertex of the result is a page. *)
From Bbolt Require Import Base Consts Spec SpecProofs Node Tree NodeProofs TreeProofs.
From Coq Require Import Permutation.

(** * sorted lists *)
Lemma isorted_app a b : isorted (a ++ b) -> isorted a /\ isorted b.
Proof.
  induction a as [|x a IH]; cbn [app]; intros H; [split; [apply isorted_nil | exact H]|].
  apply isorted_cons in H. destruct H as [F S]. destruct (IH S) as [Sa Sb]. split; auto.
  apply isorted_cons. split; auto. apply Forall_app in F. tauto.
Qed.
Lemma isorted_mid a b c : isorted (a ++ b ++ c) -> isorted b.
Proof. intros H. apply isorted_app in H. destruct H as [_ H]. apply isorted_app in H. tauto. Qed.
Lemma isorted_keys l l' : map i_key l' = map i_key l -> isorted l -> isorted l'.
Proof. unfold isorted, keys_of. now intros ->. Qed.

(** [repl key ni l l']: l' is l with ONE element, whose key is [key], replaced by [ni] *)
Definition repl (key : bytes) (ni : inode) (l l' : list inode) : Prop :=
  exists a x b, l = a ++ x :: b /\ l' = a ++ ni :: b /\ i_key x = key.

(** on a sorted list that contains the key, the sorted insert is a replacement *)
Lemma ins_repl ni : forall l x, isorted l -> ilookup (i_key ni) l = Some x -> repl (i_key ni) ni l (ins ni l).
Proof.
  induction l as [|y r IH]; intros x S L; [discriminate|].
  pose proof (cmp_cases (i_key ni) y) as C. cbn [ins ilookup] in *.
  pose proof S as S0. apply isorted_cons in S. destruct S as [Hall Sr].
  destruct (bcmp (i_key ni) (i_key y)); destruct C as (B & Q & K).
  - exists [], y, r. auto.
  - exfalso. rewrite Q in L. rewrite ilookup_above in L; [discriminate|].
    eapply Forall_impl; [|exact Hall]. intros z Hz. cbv beta in Hz. eapply blt_trans; eauto.
  - rewrite Q in L. destruct (IH x Sr L) as (a & x' & b & -> & -> & E). exists (y :: a), x', b. auto.
Qed.

(** * N1: put_at_key *)
Definition new_elem (key v : bytes) (fl : N) : inode := {| i_flags := fl; i_key := key; i_val := v; i_pgid := 0 |}.

Lemma put_at_key_repl : forall fuel t d key v fl t',
  wf d t -> isorted (flat t) -> put_at_key fuel t key v fl = Ok t' ->
  wf d t' /\ runs t' = runs t /\ repl key (new_elem key v fl) (flat t) (flat t').
Proof.
  induction fuel as [|f IH]; intros t d key v fl t' W S H; [discriminate|].
  cbn [put_at_key] in H.
  pose proof (wf_materialize _ _ W) as Wm. pose proof (flat_materialize t) as Fm. pose proof (runs_materialize t) as Rm.
  destruct (materialize t) as [h il kids]. rewrite <- Fm in S. rewrite <- Fm, <- Rm. clear Fm Rm W.
  destruct (h_leaf h) eqn:Hl.
  - destruct (ilookup key il) as [x|] eqn:L; [|discriminate]. destruct (N.odd (i_flags x)); [|discriminate].
    inversion Wm as [? ? _|? ? ? ? Hl' _ _]; subst; [|congruence].
    rewrite flat_eq, Hl in S |- *.
    destruct (N.eqb_spec (len key) 0) as [Z|Z].
    { exfalso. match type of H with context [put ?m ?n ?k1 ?k2 ?vv ?pg ?ff] =>
        assert (P : put m n k1 k2 vv pg ff = Panic) by (apply put_panics_iff; auto) end. rewrite P in H. discriminate. }
    rewrite put_is_insert in H; [|exact S|lia|exact Z]. cbn [bindr n_inodes] in H. apply Ok_inj in H. subst t'.
    split; [now constructor|]. split; [reflexivity|]. rewrite flat_eq, Hl.
    apply (ins_repl (new_elem key v fl) il x S L).
  - destruct (nth_error kids (seek_index il key)) as [c|] eqn:Ec; [|discriminate].
    destruct (put_at_key f c key v fl) as [c'| |] eqn:Hc; try discriminate. cbn [bindr] in H. apply Ok_inj in H. subst t'.
    inversion Wm as [? ? Hl'|d0 ? ? ? _ Hlen Hk]; subst; [congruence|].
    destruct (nth_error_decomp _ _ _ Ec) as (a & b & -> & La).
    rewrite flat_eq, Hl in S. rewrite flat_map_app in S. cbn [flat_map] in S.
    apply Forall_app in Hk. destruct Hk as [Ha Hb]. pose proof (Forall_inv Hb) as Wc. apply Forall_inv_tail in Hb.
    destruct (IH c d0 key v fl c' Wc (isorted_mid _ _ _ S) Hc) as (Wc' & Rc & (a' & x & b' & Ef & Ef' & Ex)).
    rewrite (replace_nth_at _ _ _ _ _ La). split; [|split].
    + constructor; auto. * rewrite !app_length in *. cbn [length] in *. lia. * apply Forall_app. split; auto.
    + rewrite !runs_eq, !flat_map_app. cbn [flat_map]. now rewrite Rc.
    + rewrite !flat_eq, Hl, !flat_map_app. cbn [flat_map]. rewrite Ef, Ef'.
      exists (flat_map flat a ++ a'), x, (b' ++ flat_map flat b). rewrite <- !app_assoc. cbn [app]. auto.
Qed.

Lemma repl_keys key ni l l' : i_key ni = key -> repl key ni l l' -> map i_key l' = map i_key l.
Proof. intros E (a & x & b & -> & -> & Ex). rewrite !map_app. cbn [map]. congruence. Qed.

Lemma Forall2_refl' {A} (R : A -> A -> Prop) l : (forall a, R a a) -> Forall2 R l l.
Proof. intros H. induction l; constructor; auto. Qed.

Lemma repl_frame key ni l l' : i_key ni = key -> repl key ni l l' ->
  Forall2 (fun a b => i_key a = i_key b /\ (i_key a <> key -> a = b)) l l'.
Proof.
  intros E (a & x & b & -> & -> & Ex). apply Forall2_app; [apply Forall2_refl'; auto|].
  constructor; [|apply Forall2_refl'; auto]. split; [congruence | intros; congruence].
Qed.

Lemma repl_value key ni l l' : i_key ni = key -> repl key ni l l' -> NoDup (map i_key l) ->
  In ni l' /\ forall y, In y l' -> i_key y = key -> y = ni.
Proof.
  intros E (a & x & b & -> & -> & Ex) ND. split; [apply in_or_app; right; now left|].
  intros y Hy Ky. apply in_app_or in Hy. destruct Hy as [Hy|[Hy|Hy]]; auto; exfalso.
  - rewrite map_app in ND. cbn [map] in ND. apply (nodup_disj _ _ key ND); [rewrite <- Ky; now apply in_map | left; auto].
  - rewrite map_app in ND. apply nodup_app_inv in ND. destruct ND as [_ ND]. cbn [map] in ND. inversion ND; subst.
    apply H1. rewrite Ex, <- Ky. now apply in_map.
Qed.

(** N1.  Hypothesis added: the content is sorted ([isorted (flat t)] = keys strictly increasing in tree order).  It cannot be
    dropped: node.put finds the position by BINARY search, so on an unsorted leaf that does contain the key (ilookup = Some,
    answer Ok) it can miss it and INSERT a second element; see [put_at_key_needs_sorted]. *)
Theorem put_at_key_ok fuel t d key v fl t' :
  wf d t -> isorted (flat t) -> put_at_key fuel t key v fl = Ok t' ->
  wf d t' /\ runs t' = runs t /\ map i_key (flat t') = map i_key (flat t) /\
  Forall2 (fun a b => i_key a = i_key b /\ (i_key a <> key -> a = b)) (flat t) (flat t') /\
  (NoDup (map i_key (flat t)) ->
   In (new_elem key v fl) (flat t') /\ forall y, In y (flat t') -> i_key y = key -> i_val y = v /\ i_flags y = fl).
Proof.
  intros W S H. destruct (put_at_key_repl _ _ _ _ _ _ _ W S H) as (W' & R & Rp).
  split; auto. split; auto. split; [apply (repl_keys key (new_elem key v fl) _ _ eq_refl Rp)|]. split; [apply (repl_frame key (new_elem key v fl) _ _ eq_refl Rp)|].
  intros ND. destruct (repl_value key (new_elem key v fl) _ _ eq_refl Rp ND) as [Hin Hu]. split; auto.
  intros y Hy Ky. rewrite (Hu y Hy Ky). auto.
Qed.
Print Assumptions put_at_key_ok.

(** strictly sorted keys are pairwise distinct, so under N1's hypothesis the last clause always applies *)
Lemma isorted_nodup l : isorted l -> NoDup (map i_key l).
Proof.
  induction l as [|x l IH]; intros S; [constructor|]. apply isorted_cons in S. destruct S as [F S]. cbn [map]. constructor; auto.
  intros Hin. apply in_map_iff in Hin. destruct Hin as (y & Ey & Hy). rewrite Forall_forall in F. specialize (F y Hy).
  cbv beta in F. rewrite Ey, blt_irrefl in F. discriminate.
Qed.

Lemma put_at_key_closed : forall fuel t key v fl t', closed false t -> put_at_key fuel t key v fl = Ok t' ->
  closed false t' /\ h_mat (hd_of t') = true.
Proof.
  induction fuel as [|f IH]; intros t key v fl t' C H; [discriminate|].
  cbn [put_at_key] in H. pose proof (closed_materialize _ _ C) as Cm. pose proof (mat_materialize t) as Mm.
  destruct (materialize t) as [h il kids]. cbn [hd_of] in Mm.
  destruct (h_leaf h).
  - destruct (ilookup key il) as [x|]; [|discriminate]. destruct (N.odd (i_flags x)); [|discriminate].
    destruct (put _ _ key key v 0 fl) as [n'| |]; try discriminate. cbn [bindr] in H. apply Ok_inj in H. subst t'.
    split; auto. apply closed_mat; auto.
  - destruct (nth_error kids (seek_index il key)) as [c|] eqn:Ec; [|discriminate].
    destruct (put_at_key f c key v fl) as [c'| |] eqn:Hc; try discriminate. cbn [bindr] in H. apply Ok_inj in H. subst t'.
    split; auto. pose proof (closed_kids _ _ Cm) as K. cbn [kids_of] in K. apply closed_mat; auto.
    apply Forall_replace_nth; auto. apply (IH c key v fl c'); auto.
    rewrite Forall_forall in K. apply K. eapply nth_error_In; eauto.
Qed.

(** structure and page ids do not depend on sortedness *)
Lemma put_at_key_wf_runs : forall fuel t d key v fl t',
  wf d t -> put_at_key fuel t key v fl = Ok t' -> wf d t' /\ runs t' = runs t.
Proof.
  induction fuel as [|f IH]; intros t d key v fl t' W H; [discriminate|].
  cbn [put_at_key] in H.
  pose proof (wf_materialize _ _ W) as Wm. pose proof (runs_materialize t) as Rm.
  destruct (materialize t) as [h il kids]. rewrite <- Rm. clear Rm W.
  destruct (h_leaf h) eqn:Hl.
  - destruct (ilookup key il) as [x|]; [|discriminate]. destruct (N.odd (i_flags x)); [|discriminate].
    destruct (put _ _ key key v 0 fl) as [n'| |]; try discriminate. cbn [bindr] in H. apply Ok_inj in H. subst t'.
    inversion Wm as [? ? _|? ? ? ? Hl' _ _]; subst; [|congruence]. split; [now constructor | reflexivity].
  - destruct (nth_error kids (seek_index il key)) as [c|] eqn:Ec; [|discriminate].
    destruct (put_at_key f c key v fl) as [c'| |] eqn:Hc; try discriminate. cbn [bindr] in H. apply Ok_inj in H. subst t'.
    inversion Wm as [? ? Hl'|d0 ? ? ? _ Hlen Hk]; subst; [congruence|].
    destruct (nth_error_decomp _ _ _ Ec) as (a & b & -> & La).
    apply Forall_app in Hk. destruct Hk as [Ha Hb]. pose proof (Forall_inv Hb) as Wc. apply Forall_inv_tail in Hb.
    destruct (IH c d0 key v fl c' Wc Hc) as (Wc' & Rc).
    rewrite (replace_nth_at _ _ _ _ _ La). split.
    + constructor; auto. * rewrite !app_length in *. cbn [length] in *. lia. * apply Forall_app. split; auto.
    + rewrite !runs_eq, !flat_map_app. cbn [flat_map]. now rewrite Rc.
Qed.

(** * the write-back of all the children *)
Definition wb (fuel : nat) (children : list (bytes * bytes)) (a : res nt) : res nt :=
  fold_left (fun (a : res nt) kv => let? a' := a in put_at_key fuel a' (fst kv) (snd kv) bucket_leaf_flag) children a.

Lemma wb_fail fuel children a : (forall t, a <> Ok t) -> forall t, wb fuel children a <> Ok t.
Proof.
  revert a. induction children as [|kv rest IH]; intros a Ha; cbn; [exact Ha|].
  apply IH. intros t. destruct a as [a0| |]; cbn; try discriminate. exfalso. eapply Ha; eauto.
Qed.

Lemma wb_step fuel kv rest t0 t2 : wb fuel (kv :: rest) (Ok t0) = Ok t2 ->
  exists t1, put_at_key fuel t0 (fst kv) (snd kv) bucket_leaf_flag = Ok t1 /\ wb fuel rest (Ok t1) = Ok t2.
Proof.
  cbn [wb fold_left bindr]. intros H. destruct (put_at_key fuel t0 (fst kv) (snd kv) bucket_leaf_flag) as [t1| |] eqn:E.
  - eauto.
  - exfalso. change (wb fuel rest Panic = Ok t2) in H. revert H. apply wb_fail. discriminate.
  - exfalso. change (wb fuel rest OutOfFuel = Ok t2) in H. revert H. apply wb_fail. discriminate.
Qed.

Lemma Forall2_trans' {A} (P Q R : A -> A -> Prop) : (forall a b c, P a b -> Q b c -> R a c) ->
  forall l1 l2 l3, Forall2 P l1 l2 -> Forall2 Q l2 l3 -> Forall2 R l1 l3.
Proof.
  intros H l1 l2 l3 F1. revert l3. induction F1; intros l3 F2; inversion F2; subst; constructor; eauto.
Qed.

Definition frame (names : list bytes) (a b : inode) : Prop := i_key a = i_key b /\ (~ In (i_key a) names -> a = b).

Lemma wb_ok fuel : forall children t0 t2 d, wf d t0 -> isorted (flat t0) -> wb fuel children (Ok t0) = Ok t2 ->
  map i_key (flat t2) = map i_key (flat t0) /\ Forall2 (frame (map fst children)) (flat t0) (flat t2).
Proof.
  induction children as [|kv rest IH]; intros t0 t2 d W S H.
  - cbn in H. apply Ok_inj in H. subst t2. split; auto. apply Forall2_refl'. intros a. split; auto.
  - destruct (wb_step _ _ _ _ _ H) as (t1 & H1 & H2).
    destruct (put_at_key_ok _ _ _ _ _ _ _ W S H1) as (W1 & _ & K1 & F1 & _).
    destruct (IH t1 t2 d W1 (isorted_keys _ _ K1 S) H2) as (K2 & F2). split; [congruence|].
    eapply Forall2_trans'; [|exact F1|exact F2]. intros a b c (E1 & N1) (E2 & N2). split; [congruence|].
    cbn [map]. intros Hn. rewrite N1 by (intros E; apply Hn; left; auto). apply N2. intros Hin. apply Hn. right. congruence.
Qed.

Lemma wb_wf_runs fuel : forall children t0 t2 d, wf d t0 -> wb fuel children (Ok t0) = Ok t2 -> wf d t2 /\ runs t2 = runs t0.
Proof.
  induction children as [|kv rest IH]; intros t0 t2 d W H.
  - cbn in H. apply Ok_inj in H. subst t2. auto.
  - destruct (wb_step _ _ _ _ _ H) as (t1 & H1 & H2). destruct (put_at_key_wf_runs _ _ _ _ _ _ _ W H1) as (W1 & R1).
    destruct (IH t1 t2 d W1 H2) as (W2 & R2). split; [auto | congruence].
Qed.

Lemma wb_closed fuel : forall children t0 t2, closed false t0 -> wb fuel children (Ok t0) = Ok t2 ->
  closed false t2 /\ (children <> [] -> h_mat (hd_of t2) = true).
Proof.
  induction children as [|kv rest IH]; intros t0 t2 C H.
  - cbn in H. apply Ok_inj in H. subst t2. split; [auto | congruence].
  - destruct (wb_step _ _ _ _ _ H) as (t1 & H1 & H2). destruct (put_at_key_closed _ _ _ _ _ _ C H1) as (C1 & M1).
    destruct (IH t1 t2 C1 H2) as (C2 & M2). split; auto. intros _.
    destruct rest as [|kv2 rest2]; [cbn in H2; apply Ok_inj in H2; now subst t2 | apply M2; discriminate].
Qed.

(** * commit_parent_bucket *)
Lemma commit_parent_bucket_cases ps fill fuel t order children t' evs inl :
  commit_parent_bucket ps fill fuel t order children = Ok (t', evs, inl) ->
  (h_mat (hd_of t) = false /\ children = [] /\ t' = t /\ evs = [] /\ inl = (h_pgid (hd_of t) =? 0)) \/
  (exists r e1 t2, rebalance_all ps fill fuel t order = Ok (r, e1) /\ wb fuel children (Ok r) = Ok t2 /\
     ((inlineable ps t2 = true /\ inl = true /\ t' = NT inline_hdr (ins_of t2) [] /\
       evs = e1 ++ (if h_pgid (hd_of t2) =? 0 then [] else free_all fuel t2)) \/
      (inlineable ps t2 = false /\ inl = false /\ exists e2, spill_root ps fill fuel t2 = Ok (t', e2) /\ evs = e1 ++ e2))).
Proof.
  intros H. unfold commit_parent_bucket in H. fold (wb fuel children) in H.
  destruct (negb (h_mat (hd_of t)) && match children with [] => true | _ :: _ => false end) eqn:E.
  { left. apply andb_true_iff in E. destruct E as [E1 E2]. apply negb_true_iff in E1.
    apply Ok_inj3 in H. destruct H as (<- & <- & <-). destruct children; [auto 6 | discriminate]. }
  right. destruct (rebalance_all ps fill fuel t order) as [[r e1]| |] eqn:R; try discriminate. cbn [bindr fst snd] in H.
  fold (wb fuel children (Ok r)) in H.
  destruct (wb fuel children (Ok r)) as [t2| |] eqn:Wb; try discriminate. cbn [bindr] in H.
  exists r, e1, t2. split; auto. split; auto. destruct (inlineable ps t2) eqn:I.
  - left. apply Ok_inj3 in H. destruct H as (<- & <- & <-). auto.
  - right. destruct (spill_root ps fill fuel t2) as [[t3 e2]| |] eqn:Sp; try discriminate. cbn [bindr fst snd] in H.
    apply Ok_inj3 in H. destruct H as (<- & <- & <-). eauto 6.
Qed.

(** N2 *)
Theorem commit_parent_bucket_flat ps fill fuel t order children t' evs inl :
  aligned t -> isorted (flat t) -> commit_parent_bucket ps fill fuel t order children = Ok (t', evs, inl) ->
  map i_key (flat t') = map i_key (flat t) /\
  Forall2 (fun a b => i_key a = i_key b /\ (~ In (i_key a) (map fst children) -> a = b)) (flat t) (flat t') /\
  aligned t'.
Proof.
  intros [d W] S H.
  destruct (commit_parent_bucket_cases _ _ _ _ _ _ _ _ _ H) as [(_ & _ & -> & _)|(r & e1 & t2 & R & Wb & Hc)].
  { split; auto. split; [apply Forall2_refl'; auto | exists d; auto]. }
  destruct (rebalance_all_ok _ _ _ _ _ _ _ _ W R) as [[d1 W1] F1]. rewrite <- F1 in S |- *.
  destruct (wb_ok _ _ _ _ _ W1 S Wb) as (K2 & Fr). destruct (wb_wf_runs _ _ _ _ _ W1 Wb) as (W2 & _).
  assert (E : flat t' = flat t2 /\ aligned t').
  { destruct Hc as [(I & _ & -> & _)|(_ & _ & e2 & Sp & _)].
    - destruct (inlineable_leaf _ _ I) as [_ L]. destruct (wf_leaf_inv _ _ W2 L) as (_ & _ & E).
      split; [cbn; congruence | exists 0%nat; now constructor].
    - destruct (spill_root_ok _ _ _ _ _ _ _ W2 Sp); auto. }
  destruct E as [-> A]. auto.
Qed.
Print Assumptions commit_parent_bucket_flat.

(** N3 (no sortedness needed) *)
Theorem commit_parent_bucket_runs ps fill fuel t order children t' evs inl :
  (0 < fuel)%nat -> aligned t -> commit_parent_bucket ps fill fuel t order children = Ok (t', evs, inl) ->
  Permutation (runs t) (freed evs ++ runs t').
Proof.
  intros Hf [d W] H.
  destruct (commit_parent_bucket_cases _ _ _ _ _ _ _ _ _ H) as [(_ & _ & -> & -> & _)|(r & e1 & t2 & R & Wb & Hc)]; [reflexivity|].
  destruct (rebalance_all_ok _ _ _ _ _ _ _ _ W R) as [[d1 W1] F1].
  pose proof (rebalance_all_runs _ _ _ _ _ _ _ _ W R) as HP1.
  destruct (wb_wf_runs _ _ _ _ _ W1 Wb) as (W2 & R2). rewrite <- R2 in HP1.
  destruct Hc as [(I & _ & -> & ->)|(_ & _ & e2 & Sp & ->)].
  - destruct (inlineable_leaf _ _ I) as [_ L]. destruct (wf_leaf_inv _ _ W2 L) as (-> & K & _).
    assert (E : freed (if h_pgid (hd_of t2) =? 0 then [] else free_all fuel t2) = runs t2).
    { destruct (h_pgid (hd_of t2) =? 0) eqn:Z; [|apply (free_all_runs fuel t2 0%nat W2 Hf)].
      rewrite runs_hd_kids, K. unfold ownh. now rewrite Z. }
    rewrite freed_app, E. change (runs (NT inline_hdr (ins_of t2) [])) with (@nil (N * N)). rewrite !app_nil_r. exact HP1.
  - pose proof (spill_root_runs _ _ _ _ _ _ _ W2 Sp) as HP2. rewrite freed_app. perm_tac.
Qed.
Print Assumptions commit_parent_bucket_runs.

Theorem commit_parent_bucket_frees ps fill fuel t order children t' evs inl :
  (0 < fuel)%nat -> aligned t -> NoDup (ids t) -> commit_parent_bucket ps fill fuel t order children = Ok (t', evs, inl) ->
  (forall p ov, In (EvFree p ov) evs -> In (p, ov) (runs t)) /\
  NoDup (map fst (freed evs)) /\
  NoDup (ids t') /\
  (forall x, In x (ids t') <-> In x (ids t) /\ ~ In x (map fst (freed evs))).
Proof.
  intros Hf A ND H. pose proof (commit_parent_bucket_runs _ _ _ _ _ _ _ _ _ Hf A H) as HP.
  pose proof (Permutation_map fst HP) as HM. rewrite map_app in HM. fold (ids t) in HM. fold (ids t') in HM.
  pose proof (Permutation_NoDup HM ND) as ND2.
  split; [|split; [|split]].
  - intros p ov Hin. apply In_freed in Hin. eapply Permutation_in; [symmetry; exact HP | apply in_or_app; auto].
  - apply (nodup_app_inv _ _ ND2).
  - apply (nodup_app_inv _ _ ND2).
  - intros x. split.
    + intros Hx. split; [eapply Permutation_in; [symmetry; exact HM | apply in_or_app; auto]|].
      intros Hfr. eapply nodup_disj; eauto.
    + intros [Hx Hn]. apply (Permutation_in _ HM) in Hx. apply in_app_or in Hx. tauto.
Qed.
Print Assumptions commit_parent_bucket_frees.

(** N4 *)
Lemma spill_root_pages ps fill fuel t t' evs : closed false t -> spill_root ps fill fuel t = Ok (t', evs) -> allpg false t'.
Proof.
  intros C Sp. unfold spill_root in Sp. destruct (h_mat (hd_of t)) eqn:M; cbn [negb] in Sp.
  2:{ apply Ok_inj2 in Sp. destruct Sp as [<- _]. now apply closed_nonmat. }
  destruct (spill ps fill fuel t) as [r| |] eqn:S1; try discriminate. cbn [bindr] in Sp.
  eapply spill_up_pages; [|eauto]. eapply spill_pages; eauto.
Qed.

Theorem commit_parent_bucket_pages ps fill fuel t order children t' evs inl :
  closed false t -> commit_parent_bucket ps fill fuel t order children = Ok (t', evs, inl) -> allpg false t'.
Proof.
  intros C H.
  destruct (commit_parent_bucket_cases _ _ _ _ _ _ _ _ _ H) as [(M & _ & -> & _)|(r & e1 & t2 & R & Wb & Hc)].
  { now apply closed_nonmat. }
  pose proof (rebalance_all_closed _ _ _ _ _ _ _ _ C R) as C1.
  destruct (wb_closed _ _ _ _ C1 Wb) as [C2 _].
  destruct Hc as [(_ & _ & -> & _)|(_ & _ & e2 & Sp & _)].
  - constructor; auto. intros E; discriminate.
  - eapply spill_root_pages; eauto.
Qed.
Print Assumptions commit_parent_bucket_pages.

(** * Examples *)
Definition bk (k : N) (v : bytes) : inode := {| i_flags := 1; i_key := [k]; i_val := v; i_pgid := 0 |}.

(** a branch root that is a PAGE (page 2, not materialised) over two leaf pages (3 and 4); leaf 4 holds the bucket entry
    [7] with a 16-byte value.  Writing back the child [7] materialises the root and leaf 4 only: exactly their two pages
    are freed, two pages are allocated, leaf 3 stays the page it was, and only the value of [7] changes. *)
Definition exn : nt :=
  NT (mkh false false 2 [] false) [br 1 3; br 5 4]
     [ NT (mkh false false 3 [] true) [lf 1 [10]; lf 2 [20]] [];
       NT (mkh false false 4 [] true) [lf 5 [50]; bk 7 (repeat 0 16); lf 9 [90]] [] ].
Example exn_commit :
  commit_parent_bucket 4096 50 10 exn [] [([7], repeat 1 16)] =
  Ok (NT (mkh false false 0 [1] false) [br 1 3; br 5 0]
         [ NT (mkh false false 3 [] true) [lf 1 [10]; lf 2 [20]] [];
           NT (mkh false false 0 [5] true) [lf 5 [50]; bk 7 (repeat 1 16); lf 9 [90]] [] ],
      [EvFree 4 0; EvAlloc 1; EvFree 2 0; EvAlloc 1], false).
Proof. vm_compute. reflexivity. Qed.
Example exn_hyps : wf 1 exn /\ isorted (flat exn) /\ closed false exn.
Proof.
  split; [repeat (constructor; auto)|]. split; [vm_compute; reflexivity|].
  apply closed_page. repeat (constructor; try reflexivity; try (intros E; discriminate E)).
Qed.

(** N1 needs sortedness: this leaf contains the key [1] (ilookup finds it, put_at_key answers Ok) but is not sorted;
    node.put's binary search lands on position 0, does not see the key there and INSERTS a second element with key [1]. *)
Definition unsorted_leaf : nt := NT (mkh true false 3 [] true) [bk 5 [0]; bk 1 [0]; bk 3 [0]] [].
Example put_at_key_needs_sorted :
  wf 0 unsorted_leaf /\ ilookup [1] (ins_of unsorted_leaf) = Some (bk 1 [0]) /\
  match put_at_key 5 unsorted_leaf [1] [9] 1 with Ok t' => map i_key (flat t') | _ => [] end = [[1]; [5]; [1]; [3]].
Proof. split; [now constructor|]. vm_compute. split; reflexivity. Qed.
