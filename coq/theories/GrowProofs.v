(** C18: the file never grows beyond MaxSize (when the map was not inflated by InitialMmapSize). *)
From Bbolt Require Import Base Consts Grow.

Lemma mm_loop_ge n : forall i size r, mm_loop n i size = Some r -> size <= r.
Proof.
  induction n as [|n IH]; intros i size r H; simpl in H; [discriminate|].
  destruct (N.leb_spec size (2 ^ i)); [inversion H; subst; assumption | eauto].
Qed.

Lemma mm_loop_mono n : forall i s1 s2 r1 r2, s1 <= s2 ->
  mm_loop n i s1 = Some r1 -> mm_loop n i s2 = Some r2 -> r1 <= r2.
Proof.
  induction n as [|n IH]; intros i s1 s2 r1 r2 Hle H1 H2; simpl in *; [discriminate|].
  destruct (N.leb_spec s1 (2 ^ i)); destruct (N.leb_spec s2 (2 ^ i)).
  - inversion H1; inversion H2; subst. lia.
  - inversion H1; subst. apply mm_loop_ge in H2. lia.
  - lia.
  - eauto.
Qed.

Lemma round_up_ge ps size : 0 < ps -> size <= max_map_size -> size <= round_up ps size.
Proof.
  intros Hps Hle. unfold round_up.
  set (m := size mod max_mmap_step).
  set (sz1 := if 0 <? m then size + (max_mmap_step - m) else size).
  assert (H1 : size <= sz1). { unfold sz1. destruct (0 <? m); lia. }
  set (sz2 := if negb (sz1 mod ps =? 0) then (sz1 / ps + 1) * ps else sz1).
  assert (H2 : sz1 <= sz2).
  { unfold sz2. destruct (sz1 mod ps =? 0); cbn [negb]; [lia|].
    pose proof (N.div_mod sz1 ps ltac:(lia)). pose proof (N.mod_lt sz1 ps ltac:(lia)). nia. }
  destruct (N.ltb_spec max_map_size sz2); lia.
Qed.

(** mmapSize never returns less than what was asked for *)
Theorem mmap_size_ge ps size r : 0 < ps -> mmap_size ps size = Some r -> size <= r.
Proof.
  intros Hps. unfold mmap_size. destruct (mm_loop 16 15 size) as [r0|] eqn:E.
  - intros H; injection H as <-. eapply mm_loop_ge; eauto.
  - destruct (N.ltb_spec max_map_size size) as [|Hle]; [discriminate|]. intros H. injection H as <-.
    apply round_up_ge; assumption.
Qed.

(** The MaxSize guarantee.  [minsz] is the size the last allocation of the transaction asked for (= what grow is
    called with), [M] the map size the pre-check computed for it, [datasz] the size of the map when grow runs.
    If the map was not inflated beyond what this database needs ([datasz <= M]) and the pre-check passed, the file
    after grow is within the limit, or was already that long. *)
Theorem grow_within_limit alloc maxsize minsz datasz filesz M :
  datasz <= M ->
  grow_size alloc M minsz <= maxsize ->
  grow alloc datasz filesz minsz <= N.max maxsize filesz.
Proof.
  unfold grow, grow_size. intros Hd Hc.
  destruct (N.leb_spec minsz filesz); [lia|].
  destruct (N.leb_spec M alloc); destruct (N.leb_spec datasz alloc); lia.
Qed.

(** without the hypothesis the statement is false (known finding D7): MaxSize 1 MiB, InitialMmapSize 8 MiB, page size
    4096, default AllocSize 16 MiB; a first allocation of 8 pages at mark 4 passes the pre-check, and grow then sizes
    the file to the inflated map *)
Definition grow_full_statement : Prop :=
  forall ps alloc maxsize mark count datasz filesz,
    0 < maxsize -> alloc_refused ps alloc maxsize mark count = Some false ->
    grow alloc datasz filesz ((mark + count + 1) * ps) <= N.max maxsize filesz.

Theorem grow_full_statement_refuted : ~ grow_full_statement.
Proof.
  intros H. specialize (H 4096 16777216 1048576 4 8 8388608 16384 ltac:(reflexivity) ltac:(reflexivity)).
  vm_compute in H. apply H. reflexivity.
Qed.

(** without grow-sync the file is exactly as long as the pages written: within the limit whenever the pre-check passed *)
Theorem grow_nosync_within_limit ps alloc maxsize mark count filesz M : 0 < ps ->
  mmap_size ps ((mark + count + 1) * ps) = Some M ->
  grow_size alloc M ((mark + count + 1) * ps) <= maxsize ->
  grow_nosync filesz ((mark + count) * ps) <= N.max maxsize filesz.
Proof.
  intros Hps HM Hc. unfold grow_nosync, grow_size in *. apply mmap_size_ge in HM; [|exact Hps].
  destruct (N.leb_spec M alloc); nia.
Qed.
