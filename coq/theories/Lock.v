(** Lock: flock(2) as bbolt uses it (bolt_unix.go) - one lock per open of the data file: exclusive for read-write
    opens, shared for read-only opens - and what Open does with it.  Definitions only.
    OS assumption (trusted base): flock grants LOCK_EX only when no other open file description holds any lock on
    the file, LOCK_SH only when none holds LOCK_EX; closing the descriptor releases its lock. *)
From Bbolt Require Import Base.

Inductive mode := RW | RO.
Definition holder := (N * mode)%type.          (* (id of the Open, mode) *)

Definition compatible (m : mode) (held : list holder) : bool :=
  match m with
  | RW => match held with [] => true | _ => false end
  | RO => forallb (fun h => match snd h with RO => true | RW => false end) held
  end.

Inductive lop := LOpen (id : N) (m : mode) | LClose (id : N).
Inductive lres := LOk | LTimeout | LNotOpen.

(** Open with a finite timeout: success, or ErrTimeout when the lock cannot be had (with timeout 0 the real call
    waits forever: the harness only uses finite timeouts) *)
Definition lstep (held : list holder) (o : lop) : list holder * lres :=
  match o with
  | LOpen id m => if compatible m held then (held ++ [(id, m)], LOk) else (held, LTimeout)
  | LClose id => if existsb (fun h => fst h =? id) held
                 then (filter (fun h => negb (fst h =? id)) held, LOk) else (held, LNotOpen)
  end.

Fixpoint lrun (held : list holder) (os : list lop) : list holder * list lres :=
  match os with
  | [] => (held, [])
  | o :: r => let '(h1, x) := lstep held o in let '(h2, xs) := lrun h1 r in (h2, x :: xs)
  end.

(** the protection the locks give: a read-write holder is alone *)
Definition exclusive_ok (held : list holder) : Prop :=
  forall id, In (id, RW) held -> held = [(id, RW)].
